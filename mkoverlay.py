#!/usr/bin/env python3
"""Generate the go build overlay from /repo's CURRENT working tree.
 - add-only hook files from /verif/hooks/<pkgpath>/ (tag verif) are mapped into /repo/<pkgpath>/
 - every non-test .go file of the repo that imports "sync" is copied with exactly that import
   rewritten to the vsync shim (the rest of the file is the current content, so edits are preserved)
Usage: mkoverlay.py [--mutant-only] <repo> <outdir> [mutant.json]
A mutant file {"file": rel, "find": regex, "replace": text} is applied on top (selftest only).
"""
import json, os, re, sys
args = [a for a in sys.argv[1:] if not a.startswith('--')]
mutant_only = '--mutant-only' in sys.argv
repo, out = args[0], args[1]
mut = json.load(open(args[2])) if len(args) > 2 and args[2] else None
hooks = os.path.join(os.path.dirname(os.path.abspath(__file__)), 'hooks')
os.makedirs(out + '/ov', exist_ok=True)
replace = {}
# hook files. hooks/<dir>/NAME.go -> /repo/<dir>/NAME.go ; dir may be nested (a__b => a/b)
for d in ([] if mutant_only else sorted(os.listdir(hooks))):
    src = os.path.join(hooks, d)
    if not os.path.isdir(src): continue
    rel = d.replace('__', '/')
    for f in sorted(os.listdir(src)):
        if f.endswith('.go') or f.endswith('.s'):
            replace[os.path.join(repo, rel, f)] = os.path.join(src, f)
skip_dirs = {'.git', 'testdata', 'tools', 'native', 'scripts', 'licenses', 'image'}
contents = {}
for root, dirs, files in os.walk(repo):
    dirs[:] = [x for x in dirs if x not in skip_dirs or root != repo]
    for f in files:
        if not f.endswith('.go') or f.endswith('_test.go'): continue
        p = os.path.join(root, f)
        try: s = open(p).read()
        except Exception: continue
        if mutant_only: continue
        if re.search(r'^\s*"sync"\s*$', s, re.M) or re.search(r'^import\s+"sync"\s*$', s, re.M):
            s2 = re.sub(r'^(\s*)"sync"\s*$', r'\1sync "github.com/cloudwego/dynamicgo/vsync"', s, flags=re.M)
            s2 = re.sub(r'^import\s+"sync"\s*$', 'import sync "github.com/cloudwego/dynamicgo/vsync"', s2, flags=re.M)
            contents[p] = s2
if mut:
    muts = mut if isinstance(mut, list) else [mut]
    for m in muts:
        p = os.path.join(repo, m['file'])
        s = contents.get(p) or open(p).read()
        s2, n = re.subn(m['find'], m['replace'], s, count=m.get('count', 1), flags=re.M | re.S)
        if n == 0:
            sys.stderr.write('mutant did not apply: %s\n' % m['file']); sys.exit(3)
        contents[p] = s2
for p, s in contents.items():
    q = os.path.join(out, 'ov', os.path.relpath(p, repo).replace('/', '__'))
    old = open(q).read() if os.path.exists(q) else None
    if old != s:
        open(q, 'w').write(s)
    replace[p] = q
tmp = out + '/overlay.json.tmp'
json.dump({'Replace': replace}, open(tmp, 'w'), indent=1)
os.replace(tmp, out + '/overlay.json')
