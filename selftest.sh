#!/bin/bash
# usage: selftest.sh <ID> [mutant.json ...]
# For every mutant of the property (mutants/<ID>/*.json): (1) the repository's own tests of the touched
# package still pass with the mutant applied through a mutant-only overlay, (2) the quick check reports a
# VIOLATION (exit 1). Prints one line per mutant; exit 0 iff every mutant is caught.
set -u
ROOT=$(cd "$(dirname "$0")" && pwd)
cd "$ROOT"
export GOFLAGS=-mod=mod GOPROXY=off GOSUMDB=off GOTOOLCHAIN=local GOCACHE=${GOCACHE:-/verif/.gocache}
id=$1; shift
muts=("$@"); [ ${#muts[@]} -eq 0 ] && muts=(mutants/$id/*.json)
rc=0
for m in "${muts[@]}"; do
  m=$(realpath "$m")
  pkg=$(python3 -c "import json,os;m=json.load(open('$m'));m=m if isinstance(m,list) else [m];print(' '.join(sorted({'./'+os.path.dirname(x['file'])+'/...' for x in m})))")
  mkdir -p .build/mut && python3 mkoverlay.py --mutant-only /repo "$ROOT/.build/mut" "$m" || { echo "MUTANT $m: did not apply"; rc=1; continue; }
  if [ "${SKIP_REPO_TESTS:-0}" != 1 ]; then
    (cd /repo && go test -overlay "$ROOT/.build/mut/overlay.json" -vet=off -count=1 $pkg) > .build/mut/test.log 2>&1
    t=$?
  else t=0; fi
  VERIF_MUTANT=$m VERIF_ROOT=$ROOT ./run.sh check $id quick > .build/mut/check.log 2>&1
  c=$?
  nv=$(grep -c '^VIOLATION' .build/mut/check.log)
  echo "MUTANT $(basename $m): repo-tests-exit=$t check-exit=$c violations=$nv $(grep -m1 'sig=' .build/mut/check.log | cut -c1-160)"
  [ $t -ne 0 ] && { echo "  (repo tests FAIL under this mutant: not a valid mutant)"; rc=1; }
  [ $c -ne 1 ] && { echo "  NOT CAUGHT"; rc=1; }
done
# restore evidence of the unchanged tree
./run.sh check $id quick > /dev/null 2>&1
exit $rc
