#!/bin/bash
# usage: run.sh check <ID> [quick|thorough] | run.sh replay <file> | run.sh build
# Rebuilds the harness from /repo's CURRENT working tree (overlay regenerated every time) and runs it.
set -u
cd /verif
export GOFLAGS=-mod=mod GOPROXY=off GOSUMDB=off GOTOOLCHAIN=local
export GOCACHE=/verif/.gocache
export CGO_ENABLED=0
mkdir -p .build bin
build() {
  python3 /verif/mkoverlay.py /repo /verif/.build ${VERIF_MUTANT:-} || { echo "HARNESS-ERROR overlay generation failed"; exit 2; }
  cp /repo/go.sum harness/go.sum 2>/dev/null
  (cd harness && go build -tags verif -overlay /verif/.build/overlay.json -o /verif/bin/verif ./cmd/verif) > .build/build.log 2>&1
  if [ $? -ne 0 ]; then
    echo "BUILD-FAILURE (not a property violation): /repo with hooks does not build" ; tail -30 .build/build.log; exit 2
  fi
}
cmd=${1:-}
case "$cmd" in
  build) build ;;
  check)
    build
    tier=${3:-${VERIF_TIER:-quick}}
    exec /verif/bin/verif check "$2" --tier "$tier" ;;
  replay)
    build
    exec /verif/bin/verif replay "$2" ;;
  *) echo "usage: run.sh check <ID> [tier] | replay <file> | build"; exit 2 ;;
esac
