#!/bin/bash
# usage: run.sh check <ID> [quick|thorough] | run.sh replay <file> | run.sh build
# Rebuilds the harness from /repo's CURRENT working tree (overlay regenerated every time) and runs it.
# VERIF_MUTANT=<file.json> applies a deliberate property-breaking edit through the overlay (selftest only).
set -u
ROOT=$(cd "$(dirname "$0")" && pwd)
cd "$ROOT"
export VERIF_ROOT=$ROOT
export REPO=${REPO:-/repo}
export GOFLAGS=-mod=mod GOPROXY=off GOSUMDB=off GOTOOLCHAIN=local
export GOCACHE=${GOCACHE:-/verif/.gocache}
export CGO_ENABLED=0
mkdir -p .build bin evidence
build() {
  python3 "$ROOT/mkoverlay.py" "$REPO" "$ROOT/.build" ${VERIF_MUTANT:-} || { echo "HARNESS-ERROR overlay generation failed"; exit 2; }
  cp "$REPO/go.sum" harness/go.sum 2>/dev/null
  MODFLAG=""
  if [ "$REPO" != "/repo" ]; then
    # scratch copy of the repository (seeded-change experiments): same harness, module replaced by $REPO
    sed "s#=> /repo#=> $REPO#" harness/go.mod > harness/go.alt.mod; cp harness/go.sum harness/go.alt.sum
    MODFLAG="-modfile=go.alt.mod"
  fi
  (cd harness && go build $MODFLAG -tags verif -overlay "$ROOT/.build/overlay.json" -o "$ROOT/bin/verif" ./cmd/verif) > .build/build.log 2>&1
  if [ $? -ne 0 ]; then
    echo "BUILD-FAILURE (not a property violation): $REPO with hooks does not build" ; tail -30 .build/build.log; exit 2
  fi
}
# free-running race monitor of C12 (separate -race binary: the cooperative scheduler's hand-offs are
# happens-before edges and would blind the detector)
build_race() {
  (cd harness && CGO_ENABLED=1 go build ${MODFLAG:-} -race -tags verif -overlay "$ROOT/.build/overlay.json" -o "$ROOT/bin/verif-race" ./cmd/verif) > .build/build-race.log 2>&1
  if [ $? -ne 0 ]; then
    echo "BUILD-FAILURE (not a property violation): race build failed"; tail -30 .build/build-race.log; exit 2
  fi
}
# second binary: the portable (non-amd64 / go1.25+) implementation, selected by the extra build tag go1.25
# (flips every `amd64 && !go1.25` constraint under the go1.23 toolchain). Needed by C18 and C06 only.
build_portable() {
  (cd harness && go build ${MODFLAG:-} -tags "verif go1.25" -overlay "$ROOT/.build/overlay.json" -o "$ROOT/bin/verif-portable" ./cmd/verif) > .build/build-portable.log 2>&1
  if [ $? -ne 0 ]; then
    echo "BUILD-FAILURE (not a property violation): portable variant (-tags go1.25) of $REPO with hooks does not build" ; tail -30 .build/build-portable.log; exit 2
  fi
}
needs_portable() { case "$1" in C18|C06|C16|C02) return 0;; *) return 1;; esac; }
cmd=${1:-}
case "$cmd" in
  build) build; build_race; build_portable ;;
  check)
    build
    [ "$2" = "C12" ] && build_race
    needs_portable "$2" && build_portable
    tier=${3:-${VERIF_TIER:-quick}}
    exec "$ROOT/bin/verif" check "$2" --tier "$tier" ;;
  replay)
    build
    case "$2" in */C18/*|*/C06/*|*/C16/*|*/C02/*) build_portable;; esac
    exec "$ROOT/bin/verif" replay "$2" ;;
  *) echo "usage: run.sh check <ID> [tier] | replay <file> | build"; exit 2 ;;
esac
