//go:build verif

package types

// VerifC16Dirty fills the whole capacity of the requires-bitmap cache of a state machine with b ("memory from
// pool may be dirty" as an environment answer); lengths are left untouched.
func VerifC16Dirty(f *J2TStateMachine, b byte) {
	c := f.ReqsCache[:cap(f.ReqsCache)]
	for i := range c {
		c[i] = b
	}
}
