//go:build verif

package types

import "unsafe"

// Verification hook for property C02 (add-only, tag verif): lets a check choose the initial capacities
// of the caches of the pooled J2T state machine and read them back after a conversion.

// VerifC02NewFSM builds a state machine like the pool's New does, but with the given cache capacities
// (a negative value selects the default size).
func VerifC02NewFSM(reqs, key, field int) *J2TStateMachine {
	if reqs < 0 {
		reqs = J2T_REQS_CACHE_SIZE
	}
	if key < 0 {
		key = J2T_KEY_CACHE_SIZE
	}
	if field < 0 {
		field = J2T_FIELD_CACHE_SIZE
	}
	ret := &J2TStateMachine{}
	ret.ReqsCache = make([]byte, 0, reqs)
	ret.KeyCache = make([]byte, 0, key)
	ret.FieldCache = make([]int32, 0, field)
	tmp := make([]byte, 0, J2T_DBUF_SIZE)
	ret.JT.Dbuf = *(**byte)(unsafe.Pointer(&tmp))
	ret.JT.Dcap = J2T_DBUF_SIZE
	return ret
}

// VerifC02PoolPut hands an object to the J2T pool; VerifC02PoolGet takes the next one.
func VerifC02PoolPut(f *J2TStateMachine) { j2tStackPool.Put(f) }
func VerifC02PoolGet() *J2TStateMachine  { return j2tStackPool.Get().(*J2TStateMachine) }
