//go:build verif
// +build verif

package util

// VerifC14Mode reports which lookup structure Build() chose (read-only test hook):
// "trie" with its key position, "hash" with its table size, or "none".
func (ft FieldNameMap) VerifC14Mode() (mode string, n int) {
	if ft.trie != nil {
		p := -1
		if len(ft.trie.Positions) > 0 {
			p = ft.trie.Positions[0]
		}
		return "trie", p
	}
	if ft.hash != nil {
		return "hash", int(ft.hash.N)
	}
	return "none", 0
}
