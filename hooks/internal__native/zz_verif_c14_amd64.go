//go:build verif && !go1.25
// +build verif,!go1.25

package native

import "github.com/cloudwego/dynamicgo/internal/cpu"

// VerifC14UseFlavour rebinds the native stubs to one of the three compiled flavours (add-only test hook).
// It only calls the package's own useAVX2/useAVX/useSSE. Returns false if the CPU lacks the feature.
func VerifC14UseFlavour(f string) bool {
	switch f {
	case "avx2":
		if !cpu.HasAVX2 {
			return false
		}
		useAVX2()
	case "avx":
		if !cpu.HasAVX {
			return false
		}
		useAVX()
	case "sse":
		if !cpu.HasSSE {
			return false
		}
		useSSE()
	default:
		return false
	}
	return true
}
