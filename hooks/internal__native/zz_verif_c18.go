//go:build verif && amd64 && !go1.25

package native

import (
	"unsafe"

	"github.com/cloudwego/dynamicgo/internal/cpu"
)

// Add-only verification hook (C18/C06): re-bind the native stubs to one SIMD flavour.
// The first request for a flavour calls the package's own useAVX2/useAVX/useSSE (each call loads
// the flavour's text through loader.WrapGoC, which maps new executable memory) and snapshots the five
// stub variables it bound; later requests only restore that snapshot, so a check can alternate
// between flavours millions of times without re-loading code.
type verifStubs struct {
	quote  func(s unsafe.Pointer, nb int, dp unsafe.Pointer, dn unsafe.Pointer, flags uint64) int
	i64toa func(out unsafe.Pointer, val int64) (ret int)
	f64toa func(out unsafe.Pointer, val float64) (ret int)
	j2t    func(fsm unsafe.Pointer, buf unsafe.Pointer, src unsafe.Pointer, flag uint64) (ret uint64)
	skip   func(st unsafe.Pointer, s unsafe.Pointer, n int, t uint8) (ret int)
}

var verifSnap = map[string]*verifStubs{}

// VerifUseFlavour binds "avx2" | "avx" | "sse". Returns false if the CPU lacks the feature.
func VerifUseFlavour(name string) bool {
	if s := verifSnap[name]; s != nil {
		__Quote, __I64toa, __F64toa, __j2t_fsm_exec, __tb_skip = s.quote, s.i64toa, s.f64toa, s.j2t, s.skip
		return true
	}
	switch name {
	case "avx2":
		if !cpu.HasAVX2 {
			return false
		}
		useAVX2()
	case "avx":
		if !cpu.HasAVX {
			return false
		}
		useAVX()
	case "sse":
		if !cpu.HasSSE {
			return false
		}
		useSSE()
	default:
		return false
	}
	verifSnap[name] = &verifStubs{__Quote, __I64toa, __F64toa, __j2t_fsm_exec, __tb_skip}
	return true
}
