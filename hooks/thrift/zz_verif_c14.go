//go:build verif
// +build verif

package thrift

// VerifC14NameMode exposes FieldNameMap.VerifC14Mode of the struct's key map (read-only test hook).
func (s *StructDescriptor) VerifC14NameMode() (mode string, n int) {
	return s.names.VerifC14Mode()
}
