//go:build verif && amd64 && !go1.25
// +build verif,amd64,!go1.25

// Package verifhook re-exports add-only test hooks of internal packages to the verification harness
// (which lives in another module and cannot import internal/...). It exists only in the build overlay.
package verifhook

import "github.com/cloudwego/dynamicgo/internal/native"

// C14UseFlavour rebinds the native converter to "avx2", "avx" or "sse".
func C14UseFlavour(f string) bool { return native.VerifC14UseFlavour(f) }
