//go:build verif && (!amd64 || go1.25)

// Package verifhook (portable build): the native hooks do not exist; only the internal/json wrappers.
package verifhook

import (
	"unsafe"

	"github.com/cloudwego/dynamicgo/internal/json"
)

const C18HasNative = false

func C18UseFlavour(name string) bool     { return false }
func C18I64toa(out *byte, v int64) int   { return -1 }
func C18F64toa(out *byte, v float64) int { return -1 }
func C18Quote(sp unsafe.Pointer, nb int, dp unsafe.Pointer, dn *int, flags uint64) int {
	return 0
}
func C18EncodeString(buf []byte, s string) []byte   { return json.EncodeString(buf, s) }
func C18EncodeInt64(buf []byte, v int64) []byte     { return json.EncodeInt64(buf, v) }
func C18EncodeFloat64(buf []byte, v float64) []byte { return json.EncodeFloat64(buf, v) }
