//go:build verif

// Package verifhook re-exports internals of dynamicgo to the verification harness (which lives in another
// module and cannot import internal/...). It exists only in the overlay (never in /repo).
package verifhook

import "github.com/cloudwego/dynamicgo/internal/caching"

// C05StrHash is the per-process string hash PathNode's hash storage uses for string map keys.
func C05StrHash(s string) uint64 { return caching.StrHash(s) }
