//go:build verif

// Package verifhook re-exports add-only verification hooks of internal packages to the harness module.
package verifhook

import (
	"unsafe"

	"github.com/cloudwego/dynamicgo/internal/native/types"
)

// C02Seed puts a fresh J2T state machine with the given cache capacities (bytes, bytes, entries; negative =
// default) on top of the J2T pool and returns its identity. With vsync.Controlled the next conversion gets it.
func C02Seed(reqsCap, keyCap, fieldCap int) uintptr {
	f := types.VerifC02NewFSM(reqsCap, keyCap, fieldCap)
	types.VerifC02PoolPut(f)
	return uintptr(unsafe.Pointer(f))
}

// C02Take takes the next object from the J2T pool and reports its identity and cache capacities.
func C02Take() (id uintptr, reqsCap, keyCap, fieldCap int) {
	f := types.VerifC02PoolGet()
	return uintptr(unsafe.Pointer(f)), cap(f.ReqsCache), cap(f.KeyCache), cap(f.FieldCache)
}
