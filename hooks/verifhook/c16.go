//go:build verif

package verifhook

import (
	"unsafe"

	"github.com/cloudwego/dynamicgo/internal/native/types"
)

// C16SeedDirty is C02Seed with the requires-bitmap cache pre-filled with byte b.
func C16SeedDirty(reqsCap, keyCap, fieldCap int, b byte) uintptr {
	f := types.VerifC02NewFSM(reqsCap, keyCap, fieldCap)
	types.VerifC16Dirty(f, b)
	types.VerifC02PoolPut(f)
	return uintptr(unsafe.Pointer(f))
}
