//go:build verif && (!amd64 || go1.25)
// +build verif
// +build !amd64 go1.25

package verifhook

// C14UseFlavour: the portable build has no native flavours (internal/native must not even be imported:
// its init loads machine code).
func C14UseFlavour(f string) bool { return false }
