//go:build verif && amd64 && !go1.25

// Package verifhook re-exports verification hooks of internal packages to the harness module
// (which cannot import internal/...). Overlay-only, never part of /repo.
package verifhook

import (
	"unsafe"

	"github.com/cloudwego/dynamicgo/internal/json"
	"github.com/cloudwego/dynamicgo/internal/native"
)

// C18HasNative reports whether this binary contains the amd64 native implementation.
const C18HasNative = true

// C18UseFlavour binds the native stubs to "avx2" | "avx" | "sse".
func C18UseFlavour(name string) bool { return native.VerifUseFlavour(name) }

// C18I64toa calls the bound native i64toa on out (must have room for 32 bytes).
func C18I64toa(out *byte, v int64) int { return native.I64toa(out, v) }

// C18F64toa calls the bound native f64toa on out (must have room for 32 bytes).
func C18F64toa(out *byte, v float64) int { return native.F64toa(out, v) }

// C18Quote calls the bound native quote: sp/nb input, dp/*dn output capacity -> written bytes.
func C18Quote(sp unsafe.Pointer, nb int, dp unsafe.Pointer, dn *int, flags uint64) int {
	return native.Quote(sp, nb, dp, dn, flags)
}

// The internal/json wrappers (growth loop around native.Quote, GuardSlice around i64toa/f64toa).
func C18EncodeString(buf []byte, s string) []byte   { return json.EncodeString(buf, s) }
func C18EncodeInt64(buf []byte, v int64) []byte     { return json.EncodeInt64(buf, v) }
func C18EncodeFloat64(buf []byte, v float64) []byte { return json.EncodeFloat64(buf, v) }
