//go:build verif

// Package vsync is the verification shim substituted for "sync" in the dynamicgo files that use
// sync.Pool (overlay import rewrite). In passthrough mode it is the real sync.Pool; in controlled
// mode it is a deterministic LIFO stack whose Get/Put are observable and schedulable.
package vsync

import (
	"reflect"
	"runtime"
	"sync"
)

type (
	Mutex     = sync.Mutex
	RWMutex   = sync.RWMutex
	Once      = sync.Once
	WaitGroup = sync.WaitGroup
	Map       = sync.Map
	Cond      = sync.Cond
	Locker    = sync.Locker
)

// Controlled switches all pools to the deterministic implementation.
var Controlled bool

// Hooks are called in controlled mode. Point is a scheduling point ("get"/"put"/"putdone").
var (
	Point  func(p *Pool, op string)
	OnPut  func(p *Pool, x interface{}) // e.g. poison
	OnGet  func(p *Pool, x interface{}, fresh bool)
	Pools  []*Pool
	poolMu sync.Mutex
)

type Pool struct {
	New   func() interface{}
	real  sync.Pool
	once  sync.Once
	Stack []interface{}
	name  string
	reg   bool
	Gets  int
	Puts  int
	News  int
}

func (p *Pool) register() {
	if p.reg {
		return
	}
	poolMu.Lock()
	if !p.reg {
		p.reg = true
		if p.New != nil {
			p.name = runtime.FuncForPC(reflect.ValueOf(p.New).Pointer()).Name()
		}
		Pools = append(Pools, p)
	}
	poolMu.Unlock()
}

func (p *Pool) Name() string { return p.name }

func (p *Pool) Get() interface{} {
	if !Controlled {
		p.once.Do(func() { p.real.New = p.New })
		return p.real.Get()
	}
	p.register()
	if Point != nil {
		Point(p, "get")
	}
	p.Gets++
	var x interface{}
	fresh := false
	if n := len(p.Stack); n > 0 {
		x = p.Stack[n-1]
		p.Stack = p.Stack[:n-1]
	} else if p.New != nil {
		x = p.New()
		p.News++
		fresh = true
	}
	if OnGet != nil {
		OnGet(p, x, fresh)
	}
	return x
}

func (p *Pool) Put(x interface{}) {
	if !Controlled {
		p.real.Put(x)
		return
	}
	p.register()
	if Point != nil {
		Point(p, "put")
	}
	p.Puts++
	if OnPut != nil {
		OnPut(p, x)
	}
	p.Stack = append(p.Stack, x)
	if Point != nil {
		Point(p, "putdone")
	}
}

// Reset empties every registered pool (controlled mode) and clears counters.
func Reset() {
	for _, p := range Pools {
		p.Stack = nil
		p.Gets, p.Puts, p.News = 0, 0, 0
	}
}
