#!/bin/bash
# usage: seedcheck.sh <seed dir> <PROP> <name> <demo dest (relative to repo root, or '-' to run in place)> <go test args for the demo...>
# 1. confirms in a scratch worktree: patch applies, repo tests pass with it, demo fails with it and passes without it
# 2. copies to /verif/seeded/<name>/ 3. runs the property's quick check against /repo with the patch applied, reverts.
set -u
export GOFLAGS=-mod=mod GOPROXY=off GOSUMDB=off GOTOOLCHAIN=local GOCACHE=/verif/.gocache
src=$1; prop=$2; name=$3; dest=$4; shift 4
wt=/tmp/val-$name
git -C /repo worktree remove --force $wt 2>/dev/null
git -C /repo worktree add -q --detach $wt HEAD || exit 2
demo=$(ls $src/demo* | head -1)
place() { if [ "$dest" != "-" ]; then mkdir -p $(dirname $wt/$dest); cp $demo $wt/$dest; else mkdir -p $wt/seeded/x; cp $demo $wt/seeded/x/; if [ -f $src/../go.mod ]; then cp $src/../go.mod $wt/seeded/go.mod; fi; fi; true; }
( cd $wt && place && go test -vet=off -count=1 "$@" > /tmp/val-$name.clean.log 2>&1 ); clean=$?
( cd $wt && git apply $src/patch.diff ) || { echo "SEED $name: patch does not apply"; exit 2; }
( cd $wt && go test -vet=off -count=1 "$@" > /tmp/val-$name.patched.log 2>&1 ); patched=$?
( cd $wt && if [ "$dest" != "-" ]; then rm -f $dest; else rm -rf seeded; fi; go build ./... && go test -vet=off -count=1 ./... > /tmp/val-$name.suite.log 2>&1 ); suite=$?
git -C /repo worktree remove --force $wt
echo "SEED $name: demo-on-clean-exit=$clean (want 0) demo-with-patch-exit=$patched (want !=0) repo-suite-with-patch-exit=$suite (want 0)"
if [ $clean -ne 0 ] || [ $patched -eq 0 ] || [ $suite -ne 0 ]; then echo "SEED $name: NOT CONFIRMED"; exit 1; fi
mkdir -p /verif/seeded/$name && cp $src/patch.diff $demo $src/meta.json /verif/seeded/$name/
# run my check against a scratch worktree carrying the patch (never /repo itself while other work is going on)
cd /verif
git -C /repo worktree add -q --detach $wt HEAD && git -C $wt apply $src/patch.diff || { echo "cannot apply"; exit 2; }
REPO=$wt VERIF_HANG_S=${SEED_HANG_S:-60} timeout 900 ./run.sh check $prop quick > /tmp/val-$name.check.log 2>&1
c=$?
git -C /repo worktree remove --force $wt
./run.sh build > /dev/null 2>&1
nv=$(grep -c '^VIOLATION' /tmp/val-$name.check.log)
echo "SEED $name: check $prop exit=$c violations=$nv $(grep -m1 'sig=' /tmp/val-$name.check.log | cut -c1-200)"
