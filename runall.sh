#!/bin/bash
# usage: runall.sh [quick|thorough] — runs every claimed check, prints one line each.
cd "$(dirname "$0")"
tier=${1:-quick}
export VERIF_ROOT=$(pwd)   # bin/verif defaults to /verif: a run from a snapshot must not write evidence / replays there
./run.sh build || exit 2
rc=0
for id in $(python3 -c "import json;print(' '.join(c['property_id'] for c in json.load(open('MANIFEST.json'))['checks']))"); do
  s=$(date +%s)
  [ "$id" = C12 ] && ./run.sh check $id $tier > .build/$id.log 2>&1 || ./bin/verif check $id --tier $tier > .build/$id.log 2>&1
  e=$?
  [ $e -ne 0 ] && rc=1
  echo "$id exit=$e $(( $(date +%s) - s ))s $(tail -1 .build/$id.log | cut -c1-160)"
done
# every evidence file must validate against the schema (a file that does not is treated as no evidence)
if command -v python3-vt >/dev/null && [ -f /root/.vp/EVIDENCE.schema.json ]; then
  python3-vt - <<'PY' || rc=1
import json, glob, sys, jsonschema
es = json.load(open('/root/.vp/EVIDENCE.schema.json'))
bad = 0
for f in sorted(glob.glob('evidence/*.json')):
    try:
        jsonschema.validate(json.load(open(f)), es)
    except Exception as e:
        bad += 1
        print("EVIDENCE-INVALID", f, str(e).splitlines()[0])
sys.exit(1 if bad else 0)
PY
fi
exit $rc
