#!/bin/bash
# usage: runall.sh [quick|thorough] — runs every claimed check, prints one line each.
cd "$(dirname "$0")"
tier=${1:-quick}
./run.sh build || exit 2
rc=0
for id in $(python3 -c "import json;print(' '.join(c['property_id'] for c in json.load(open('MANIFEST.json'))['checks']))"); do
  s=$(date +%s)
  [ "$id" = C12 ] && ./run.sh check $id $tier > .build/$id.log 2>&1 || ./bin/verif check $id --tier $tier > .build/$id.log 2>&1
  e=$?
  [ $e -ne 0 ] && rc=1
  echo "$id exit=$e $(( $(date +%s) - s ))s $(tail -1 .build/$id.log | cut -c1-160)"
done
exit $rc
