#!/bin/bash
# Offline setup: warm the build cache by building every harness variant once.
cd /verif && ./run.sh build && echo setup-ok
