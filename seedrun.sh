#!/bin/bash
# usage: seedrun.sh <PROP> <seeded name> : run PROP's quick check against a scratch worktree of /repo with /verif/seeded/<name>/patch.diff
export GOFLAGS=-mod=mod GOPROXY=off GOSUMDB=off GOTOOLCHAIN=local GOCACHE=/verif/.gocache
prop=$1; name=$2; wt=/tmp/val-$name
cd /verif
git -C /repo worktree remove --force $wt 2>/dev/null
base=HEAD; [ -f /verif/seeded/$name/BASE ] && base=$(cat /verif/seeded/$name/BASE)  # seeds whose patch no longer applies to HEAD record the newest commit it applies to
git -C /repo worktree add -q --detach $wt $base && git -C $wt apply /verif/seeded/$name/patch.diff || { echo "cannot apply"; exit 2; }
REPO=$wt VERIF_HANG_S=${SEED_HANG_S:-60} timeout 900 ./run.sh check $prop ${3:-quick} > /tmp/val-$name.check.log 2>&1
c=$?
git -C /repo worktree remove --force $wt
./run.sh build > /dev/null 2>&1
echo "SEED $name: check $prop exit=$c violations=$(grep -c '^VIOLATION' /tmp/val-$name.check.log) $(grep -m1 'sig=' /tmp/val-$name.check.log | cut -c1-220)"
