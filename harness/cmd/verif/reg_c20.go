package main

import _ "verif/checks/c20"
