package main

import (
	"os"

	"verif/checks/c18"
)

// `verif-portable j2t-server`: the conversion server the C18/C06 workers talk to (see checks/c18/portable.go).
func init() {
	if len(os.Args) > 1 && os.Args[1] == "j2t-server" {
		c18.ServerMain()
		os.Exit(0)
	}
}
