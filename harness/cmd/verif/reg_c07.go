package main

import _ "verif/checks/c07"
