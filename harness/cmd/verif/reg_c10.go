package main

import _ "verif/checks/c10"
