package main

import (
	"flag"
	"fmt"
	"os"
	"strconv"

	"verif/checks/c12"
	"verif/engine/core"
)

func main() {
	if len(os.Args) < 2 {
		fmt.Fprintln(os.Stderr, "usage: verif check <ID> [--tier quick|thorough] | worker ... | replay <file> | list")
		os.Exit(2)
	}
	switch os.Args[1] {
	case "list":
		for _, id := range core.IDs() {
			fmt.Println(id)
		}
	case "check":
		fs := flag.NewFlagSet("check", flag.ExitOnError)
		tier := fs.String("tier", envOr("VERIF_TIER", "quick"), "")
		fs.Parse(os.Args[3:])
		seed, _ := strconv.ParseInt(envOr("VERIF_SEED", "0"), 10, 64)
		os.Exit(core.CheckMain(os.Args[2], *tier, seed))
	case "worker":
		fs := flag.NewFlagSet("worker", flag.ExitOnError)
		tier := fs.String("tier", "quick", "")
		seed := fs.Int64("seed", 0, "")
		hb := fs.String("hb", "", "")
		fs.Parse(os.Args[3:])
		core.WorkerMain(os.Args[2], *tier, *seed, *hb)
	case "replay":
		os.Exit(core.ReplayMain(os.Args[2]))
	case "c12-racemon":
		os.Exit(c12.RaceMonMain())
	default:
		fmt.Fprintln(os.Stderr, "unknown command")
		os.Exit(2)
	}
}

func envOr(k, d string) string {
	if v := os.Getenv(k); v != "" {
		return v
	}
	return d
}
