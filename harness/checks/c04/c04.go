// Package c04: Thrift in-place edits change exactly the addressed element (explicit-state search over histories).
package c04

import (
	"bytes"
	"fmt"
	"runtime"
	"runtime/debug"
	"sort"
	"strings"

	"github.com/cloudwego/dynamicgo/thrift"
	"github.com/cloudwego/dynamicgo/thrift/generic"

	"verif/checks/tutil"
	"verif/engine/core"
	"verif/ref/tbin"
)

type check struct{}

func init() { core.Register(check{}) }

func (check) ID() string    { return "C04" }
func (check) Level() string { return "model_checking" }
func (check) Rule() string {
	return "explicit-state BFS over edit histories on the real generic.Node / generic.Value: initial states = every shape of T(1) u T(2) (thorough + T(3) subset) x container size 0..2 (thorough 0..3); operations at every state = for every node position {SetByPath, ReplaceByPath with same-size / shorter / longer / wrong-type replacement, UnsetByPath}, for every container {insert absent field / key / index=len, unset absent}, absent-inner and wrong-kind paths, SetMany over every selection of <=2 sibling paths (present and absent) on the root; id- and name-addressed for Value; histories of length <=2 (thorough <=3), states deduplicated on the decoded model; every transition is executed on the implementation and on the reference model (ref/tbin strict decode + model edit) and compared: bytes decode to the edited model (position of an inserted element free, relative order of the others kept), exist flag, error presence, failed op leaves bytes unchanged, a Fork taken before the op is unchanged and yields the same result when the op is replayed on it. A case = one (initial value, api) search; non-trivial = it executed at least one transition. Later additions: negative-key variants of every map, mixed key spellings in SetMany, all children of a 70-field struct in one SetMany. Round 9: key steps of the wrong kind on maps. Round 10: SetMany with paths of the wrong kind."
}
func (check) Assumptions() []string {
	return []string{"reference = ref/tbin strict decoder + 60-line model of set/insert/unset", "an index greater than the container length is not a valid path (outside the statement) and is not in the alphabet", "the position at which a missing element is inserted is left free by the statement; only count, membership and relative order of previous elements are required"}
}

func shapes(tier string) []*tbin.Shape {
	var all []*tbin.Shape
	all = append(all, tbin.T1()...)
	all = append(all, tbin.T2()...)
	if tier == "thorough" {
		all = append(all, tbin.T3Small()...)
	} else {
		// a few depth-3 shapes in the quick tier: name-addressed edits two or more levels below the root
		// (struct -> container -> struct, container -> container -> struct)
		in := tbin.StructS(tbin.SF(1, tbin.Sc(tbin.I32)), tbin.SF(2, tbin.Sc(tbin.STRING)))
		all = append(all,
			tbin.StructS(tbin.SF(1, tbin.MapS(tbin.Sc(tbin.BYTE), in))),
			tbin.StructS(tbin.SF(1, tbin.ListS(in)), tbin.SF(2, tbin.Sc(tbin.I64))),
			tbin.ListS(tbin.MapS(tbin.Sc(tbin.STRING), in)),
			tbin.MapS(tbin.Sc(tbin.I32), tbin.ListS(in)),
			tbin.StructS(tbin.SF(3, tbin.StructS(tbin.SF(1, in)))),
		)
	}
	all = append(all, wideStruct)
	return all
}

// wideStruct: more fields than a machine word has bits (bulk edits of ALL children; histories of length 1)
var wideStruct = func() *tbin.Shape {
	var fs []tbin.SField
	for i := 1; i <= 70; i++ {
		t := tbin.Sc(tbin.I32)
		if i%7 == 0 {
			t = tbin.Sc(tbin.STRING)
		}
		fs = append(fs, tbin.SF(int16(i), t))
	}
	return tbin.StructS(fs...)
}()

const chunk = 4

func (check) Groups(tier string, seed int64) []string {
	n := len(shapes(tier))
	var g []string
	for i := 0; i < n; i += chunk {
		g = append(g, fmt.Sprintf("shapes/%d-%d", i, i+chunk))
	}
	return g
}

type cdesc struct {
	Shape string `json:"shape"`
	N     int    `json:"n"`
	API   string `json:"api"`
	Depth int    `json:"max_history"`
	Value string `json:"initial"`
}

func (check) Enumerate(tier string, seed int64, group int, yield func(core.Case) bool) {
	all := shapes(tier)
	lo, hi := group*chunk, group*chunk+chunk
	if hi > len(all) {
		hi = len(all)
	}
	maxN, depth := 2, 2
	if tier == "thorough" {
		maxN, depth = 3, 3
	}
	for _, s := range all[lo:hi] {
		for n := 0; n <= maxN; n++ {
			for _, api := range []string{"Node", "Value", "Node,negative-keys", "Value,negative-keys"} {
				s, n, api := s, n, api
				neg := strings.HasSuffix(api, ",negative-keys")
				if neg && (n == 0 || !hasIntKeyMap(s)) {
					continue // variant: every integer map key of the initial value is negative
				}
				d := depth
				if n == 3 {
					d = 2
				}
				if s == wideStruct {
					d = 1
				}
				c := core.Case{
					Tag: api,
					Desc: func() interface{} {
						g := &tbin.Gen{}
						v := g.Build(s, n)
						if neg {
							negateKeys(v)
						}
						return cdesc{s.String(), n, api, d, v.String()}
					},
					Run: func() core.Result { return search(s, n, strings.TrimSuffix(api, ",negative-keys"), d, neg) },
				}
				if !yield(c) {
					return
				}
			}
		}
	}
}

// ---- operations ----

type op struct {
	Kind   string // set | replace | unset | setmany
	Path   []tutil.PE
	Named  bool        // last struct step addressed by name (Value only)
	Val    *tbin.Val   // new value (set/replace)
	ValS   *tbin.Shape // its shape
	Many   []manyItem  // setmany
	Trig   string      // trigger class for signatures
	Expect string      // "replace" | "insert" | "remove" | "noop" | "error"
}

type manyItem struct {
	PE      tutil.PE
	Val     *tbin.Val
	ValS    *tbin.Shape
	Present bool
}

func (o op) String() string {
	var sb strings.Builder
	fmt.Fprintf(&sb, "%s(%s", o.Kind, tutil.PathString(o.Path))
	if o.Named {
		sb.WriteString(",byname")
	}
	if o.Val != nil {
		fmt.Fprintf(&sb, " := %s", o.Val)
	}
	for _, m := range o.Many {
		fmt.Fprintf(&sb, " %s:=%s", m.PE, m.Val)
	}
	fmt.Fprintf(&sb, ")[%s]", o.Trig)
	return sb.String()
}

func kindOf(v *tbin.Val) string {
	if v.T == tbin.MAP {
		switch v.KT {
		case tbin.STRING:
			return "map-strkey"
		case tbin.BYTE, tbin.I16, tbin.I32, tbin.I64:
			return "map-intkey"
		default:
			return "map-otherkey"
		}
	}
	return v.T.String()
}

// fresh values: counters far away from the initial value's so they never collide with existing elements/keys.
func fresh(s *tbin.Shape, n int, salt int) *tbin.Val {
	g := &tbin.Gen{}
	for i := 0; i < 40+salt*17; i++ {
		g.Build(tbin.Sc(tbin.BOOL), 0)
	}
	return g.Build(s, n)
}

func isContainer(v *tbin.Val) bool {
	return v.T == tbin.STRUCT || v.T == tbin.LIST || v.T == tbin.SET || v.T == tbin.MAP
}

// absentChildren returns path element + value of elements absent from container v (insert targets), per kind.
// Keys / ids are chosen so that they are absent from the CURRENT state of the container.
func absentChildren(v *tbin.Val, s *tbin.Shape, root []byte, typed bool) []manyItem {
	var out []manyItem
	switch v.T {
	case tbin.STRUCT:
		if s != nil {
			for _, f := range s.Fields {
				if v.FieldByID(f.ID) == nil {
					out = append(out, manyItem{PE: tutil.PE{K: 'f', ID: f.ID, Name: f.FName()}, Val: fresh(f.S, 1, 1), ValS: f.S})
				}
			}
		}
		if !typed {
			for id := int16(999); id > 990; id-- {
				if v.FieldByID(id) == nil {
					out = append(out, manyItem{PE: tutil.PE{K: 'f', ID: id}, Val: tbin.I32v(424242), ValS: tbin.Sc(tbin.I32)})
					break
				}
			}
		}
	case tbin.LIST, tbin.SET:
		if s != nil {
			out = append(out, manyItem{PE: tutil.PE{K: 'i', I: len(v.L)}, Val: fresh(s.Elem, 1, 2+len(v.L)), ValS: s.Elem})
		}
	case tbin.MAP:
		if s != nil {
			var k *tbin.Val
			for salt := 3; salt < 40; salt++ {
				k = fresh(s.Key, 1, salt)
				dup := false
				for _, x := range v.K {
					if tbin.Equal(x, k) {
						dup = true
					}
				}
				if !dup {
					break
				}
			}
			kb := tbin.Bytes(k)
			var pe tutil.PE
			switch v.KT {
			case tbin.STRING:
				pe = tutil.PE{K: 's', S: string(k.S)}
			case tbin.BYTE:
				pe = tutil.PE{K: 'k', I: int(uint8(k.I))}
			case tbin.I16, tbin.I32, tbin.I64:
				pe = tutil.PE{K: 'k', I: int(k.I)}
			default:
				pe = tutil.PE{K: 'b', B: kb}
			}
			out = append(out, manyItem{PE: pe, Val: fresh(s.Elem, 1, 4), ValS: s.Elem})
			if pe.K != 'b' {
				out = append(out, manyItem{PE: tutil.PE{K: 'b', B: kb}, Val: fresh(s.Elem, 1, 5), ValS: s.Elem})
			}
		}
	}
	return out
}

func wrongType(s *tbin.Shape) (*tbin.Val, *tbin.Shape) {
	if s != nil && s.T == tbin.I32 {
		return tbin.Str("wrongtype"), tbin.Sc(tbin.STRING)
	}
	return tbin.I32v(-5), tbin.Sc(tbin.I32)
}

// alphabet lists the operations enabled at a state (simplest first).
func alphabet(m *tbin.Val, s *tbin.Shape, typed bool) []op {
	buf := tbin.Bytes(m)
	var ops []op
	poss := tutil.Positions(m, s, buf)
	for _, p := range poss {
		if len(p.Path) == 0 {
			continue
		}
		k := kindOf(p.V)
		if p.S != nil {
			// replacements: same shape, sizes 0,1,3 => shorter / same / longer encodings
			for i, n := range []int{1, 0, 3} {
				if i > 0 && p.S.Depth() == 0 && p.S.T != tbin.STRING {
					continue
				}
				nv := fresh(p.S, n, 6+i)
				ops = append(ops, op{Kind: "set", Path: p.Path, Val: nv, ValS: p.S, Trig: "present:" + k, Expect: "replace"})
				if i == 0 {
					ops = append(ops, op{Kind: "replace", Path: p.Path, Val: nv, ValS: p.S, Trig: "present:" + k, Expect: "replace"})
					if typed && p.Path[len(p.Path)-1].K == 'f' && p.Path[len(p.Path)-1].Name != "" {
						ops = append(ops, op{Kind: "set", Path: p.Path, Named: true, Val: nv, ValS: p.S, Trig: "present:" + k + ",byname", Expect: "replace"})
					}
				}
			}
			wv, ws := wrongType(p.S)
			if !typed {
				ops = append(ops, op{Kind: "set", Path: p.Path, Val: wv, ValS: ws, Trig: "wrongtype-on:" + k, Expect: "error"})
			}
		}
		ops = append(ops, op{Kind: "unset", Path: p.Path, Trig: "present:" + k, Expect: "remove"})
		if typed && p.Path[len(p.Path)-1].K == 'f' && p.Path[len(p.Path)-1].Name != "" {
			ops = append(ops, op{Kind: "unset", Path: p.Path, Named: true, Trig: "present:" + k + ",byname", Expect: "remove"})
		}
	}
	for _, p := range poss {
		if !isContainer(p.V) {
			// wrong-kind: a child step below a scalar
			path := append(append([]tutil.PE{}, p.Path...), tutil.PE{K: 'i', I: 0})
			ops = append(ops, op{Kind: "set", Path: path, Val: tbin.I32v(1), ValS: tbin.Sc(tbin.I32), Trig: "wrongkind:index-on-" + kindOf(p.V), Expect: "error"})
			ops = append(ops, op{Kind: "unset", Path: path, Trig: "wrongkind:index-on-" + kindOf(p.V), Expect: "error-or-noop"})
			continue
		}
		k := kindOf(p.V)
		for _, a := range absentChildren(p.V, p.S, buf, typed) {
			path := append(append([]tutil.PE{}, p.Path...), a.PE)
			t := "absent-in:" + k
			if a.PE.K == 'b' && k != "map-otherkey" {
				t += ",binkey"
			}
			ops = append(ops, op{Kind: "set", Path: path, Val: a.Val, ValS: a.ValS, Trig: t, Expect: "insert"})
			ops = append(ops, op{Kind: "unset", Path: path, Trig: t, Expect: "noop"})
			ops = append(ops, op{Kind: "replace", Path: path, Val: a.Val, ValS: a.ValS, Trig: t, Expect: "error"})
			if typed && a.PE.K == 'f' && a.PE.Name != "" {
				ops = append(ops, op{Kind: "set", Path: path, Named: true, Val: a.Val, ValS: a.ValS, Trig: t + ",byname", Expect: "insert"})
			}
			// absent-inner: a further step below the absent element
			inner := append(append([]tutil.PE{}, path...), tutil.PE{K: 'f', ID: 1, Name: "f1"})
			ops = append(ops, op{Kind: "set", Path: inner, Val: tbin.I32v(1), ValS: tbin.Sc(tbin.I32), Trig: "absent-inner:" + k, Expect: "error"})
			ops = append(ops, op{Kind: "unset", Path: inner, Trig: "absent-inner:" + k, Expect: "noop-or-error"})
		}
		// wrong-kind last step on a container
		var wk tutil.PE
		if p.V.T == tbin.STRUCT {
			wk = tutil.PE{K: 'i', I: 0}
		} else {
			wk = tutil.PE{K: 'f', ID: 1}
		}
		path := append(append([]tutil.PE{}, p.Path...), wk)
		ops = append(ops, op{Kind: "set", Path: path, Val: tbin.I32v(1), ValS: tbin.Sc(tbin.I32), Trig: "wrongkind-on:" + k, Expect: "error"})
		ops = append(ops, op{Kind: "unset", Path: path, Trig: "wrongkind-on:" + k, Expect: "error"})
		// a key step of the wrong KIND on a map: a string key on a map whose keys are not strings (the empty string
		// encodes like the i32 key 0), an integer key on a string-keyed map
		if p.V.T == tbin.MAP {
			var wks []tutil.PE
			if p.V.KT != tbin.STRING {
				wks = []tutil.PE{{K: 's', S: ""}, {K: 's', S: "ab"}}
			} else {
				wks = []tutil.PE{{K: 'k', I: 0}, {K: 'k', I: 1}}
			}
			for _, wk := range wks {
				path := append(append([]tutil.PE{}, p.Path...), wk)
				t := "wrong-key-kind-on:" + k
				ops = append(ops, op{Kind: "set", Path: path, Val: tbin.I32v(1), ValS: tbin.Sc(tbin.I32), Trig: t, Expect: "error"})
				ops = append(ops, op{Kind: "replace", Path: path, Val: tbin.I32v(1), ValS: tbin.Sc(tbin.I32), Trig: t, Expect: "error"})
				ops = append(ops, op{Kind: "unset", Path: path, Trig: t, Expect: "error-or-noop"})
			}
		}
		// a field-NAME step whose name no field carries (an untyped node cannot resolve names at all); the name is as
		// long as the id of a present field is large
		if p.V.T == tbin.STRUCT {
			for _, f := range p.V.Fs {
				if f.ID > 0 && f.ID <= 40 {
					np := append(append([]tutil.PE{}, p.Path...), tutil.PE{K: 'f', ID: f.ID, Name: strings.Repeat("x", int(f.ID))})
					ops = append(ops, op{Kind: "unset", Path: np, Named: true, Trig: "unresolvable-name-step-on:" + k, Expect: "error"})
					ops = append(ops, op{Kind: "set", Path: np, Named: true, Val: tbin.I32v(1), ValS: tbin.Sc(tbin.I32), Trig: "unresolvable-name-step-on:" + k, Expect: "error"})
					break
				}
			}
		}
	}
	// SetMany on the root container (Node only): every selection of 1..2 among first two children + absent ones
	if !typed && isContainer(m) {
		type cand = manyItem
		var cands []cand
		ch := tutil.Children(m, s, buf)
		for i, c := range ch {
			if i >= 2 || c.S == nil {
				break
			}
			cands = append(cands, cand{PE: c.PE, Val: fresh(c.S, 1, 9+i), ValS: c.S, Present: true})
		}
		abs := absentChildren(m, s, buf, false)
		if m.T == tbin.LIST || m.T == tbin.SET {
			abs = abs[:min(1, len(abs))]
		}
		for i, a := range abs {
			if i >= 2 {
				break
			}
			if a.PE.K == 'b' && kindOf(m) != "map-otherkey" {
				continue
			}
			cands = append(cands, a)
		}
		if len(ch) > 8 {
			// wide container: one SetMany replacing ALL present children (ascending and descending request order),
			// and the same plus the insertions
			var up, down []manyItem
			for i, c := range ch {
				if c.S != nil {
					up = append(up, cand{PE: c.PE, Val: fresh(c.S, 1, 9+i%5), ValS: c.S, Present: true})
				}
			}
			for i := len(up) - 1; i >= 0; i-- {
				down = append(down, up[i])
			}
			for _, sel := range [][]manyItem{up, down, append(append([]manyItem{}, down...), cands[min(2, len(cands)):]...)} {
				ops = append(ops, op{Kind: "setmany", Many: sel, Trig: manyTrig(m, sel[:1]) + ",all-children", Expect: "many"})
			}
		}
		if m.T == tbin.MAP && len(ch) >= 2 && ch[0].Bin.K != 0 && ch[1].Bin.K != 0 && ch[0].PE.K != 'b' && ch[0].S != nil && ch[1].S != nil {
			// one request that spells its keys in two ways: natural str / int key and raw bin key
			a := manyItem{PE: ch[0].PE, Val: fresh(ch[0].S, 1, 21), ValS: ch[0].S, Present: true}
			b := manyItem{PE: ch[1].Bin, Val: fresh(ch[1].S, 1, 22), ValS: ch[1].S, Present: true}
			a2 := manyItem{PE: ch[0].Bin, Val: fresh(ch[0].S, 1, 23), ValS: ch[0].S, Present: true}
			b2 := manyItem{PE: ch[1].PE, Val: fresh(ch[1].S, 1, 24), ValS: ch[1].S, Present: true}
			for _, sel := range [][]manyItem{{a, b}, {b, a}, {a2, b2}, {b2, a2}} {
				ops = append(ops, op{Kind: "setmany", Many: sel, Trig: manyTrig(m, sel[:1]) + ",mixed-key-spellings", Expect: "many"})
			}
		}
		// SetMany whose paths are ALL of a kind that does not fit the container: an error, nothing changes
		{
			var wk []tutil.PE
			switch m.T {
			case tbin.STRUCT:
				wk = []tutil.PE{{K: 'i', I: 0}, {K: 's', S: "a"}}
			case tbin.MAP:
				wk = []tutil.PE{{K: 'f', ID: 1}, {K: 'i', I: 0}}
			default:
				wk = []tutil.PE{{K: 'f', ID: 1}, {K: 's', S: "a"}}
			}
			for _, e := range wk {
				it := manyItem{PE: e, Val: tbin.I32v(1), ValS: tbin.Sc(tbin.I32)}
				ops = append(ops, op{Kind: "setmany", Many: []manyItem{it}, Trig: "setmany,paths-of-the-wrong-kind-on:" + kindOf(m), Expect: "error"})
			}
		}
		for i := range cands {
			ops = append(ops, op{Kind: "setmany", Many: []manyItem{cands[i]}, Trig: manyTrig(m, cands[i:i+1]), Expect: "many"})
			for j := range cands {
				if i == j {
					continue
				}
				ops = append(ops, op{Kind: "setmany", Many: []manyItem{cands[i], cands[j]}, Trig: manyTrig(m, []manyItem{cands[i], cands[j]}), Expect: "many"})
			}
		}
	}
	return ops
}

func min(a, b int) int {
	if a < b {
		return a
	}
	return b
}

func manyTrig(m *tbin.Val, it []manyItem) string {
	p, a := 0, 0
	for _, x := range it {
		if x.Present {
			p++
		} else {
			a++
		}
	}
	return fmt.Sprintf("%s,present=%d,absent=%d", kindOf(m), p, a)
}

// ---- model ----

// locate returns the container at path[:len-1] in m and the index of the child addressed by the last element (-1 if absent).
// ok=false if an inner step is absent or does not fit.
func locate(m *tbin.Val, path []tutil.PE) (parent *tbin.Val, idx int, ok bool) {
	cur := m
	for i, e := range path {
		j := childIndex(cur, e)
		if j == -2 {
			return nil, 0, false
		}
		if i == len(path)-1 {
			return cur, j, true
		}
		if j < 0 {
			return nil, 0, false
		}
		cur = childAt(cur, j)
	}
	return nil, 0, false
}

// childIndex: index of the child, -1 if absent, -2 if the step does not fit the container kind.
func childIndex(v *tbin.Val, e tutil.PE) int {
	switch v.T {
	case tbin.STRUCT:
		if e.K != 'f' {
			return -2
		}
		for i := range v.Fs {
			if v.Fs[i].ID == e.ID {
				return i
			}
		}
		return -1
	case tbin.LIST, tbin.SET:
		if e.K != 'i' {
			return -2
		}
		if e.I >= 0 && e.I < len(v.L) {
			return e.I
		}
		if e.I == len(v.L) {
			return -1
		}
		return -2
	case tbin.MAP:
		for i := range v.K {
			switch e.K {
			case 's':
				if v.KT != tbin.STRING {
					return -2
				}
				if string(v.K[i].S) == e.S {
					return i
				}
			case 'k':
				switch v.KT {
				case tbin.BYTE:
					if int(uint8(v.K[i].I)) == e.I {
						return i
					}
				case tbin.I16, tbin.I32, tbin.I64:
					if int(v.K[i].I) == e.I {
						return i
					}
				default:
					return -2
				}
			case 'b':
				if bytes.Equal(tbin.Bytes(tbin.Clone(v.K[i])), e.B) {
					return i
				}
			default:
				return -2
			}
		}
		switch e.K {
		case 's':
			if v.KT != tbin.STRING {
				return -2
			}
		case 'k':
			if !(v.KT == tbin.BYTE || v.KT == tbin.I16 || v.KT == tbin.I32 || v.KT == tbin.I64) {
				return -2
			}
		case 'b':
		default:
			return -2
		}
		return -1
	}
	return -2
}

func childAt(v *tbin.Val, i int) *tbin.Val {
	if v.T == tbin.STRUCT {
		return v.Fs[i].V
	}
	return v.L[i]
}

func setChild(v *tbin.Val, i int, nv *tbin.Val) {
	if v.T == tbin.STRUCT {
		v.Fs[i].V = nv
	} else {
		v.L[i] = nv
	}
}

func removeChild(v *tbin.Val, i int) {
	switch v.T {
	case tbin.STRUCT:
		v.Fs = append(v.Fs[:i:i], v.Fs[i+1:]...)
	case tbin.MAP:
		v.K = append(v.K[:i:i], v.K[i+1:]...)
		v.L = append(v.L[:i:i], v.L[i+1:]...)
	default:
		v.L = append(v.L[:i:i], v.L[i+1:]...)
	}
}

// keyVal builds the key value a path element denotes for map v.
func keyVal(v *tbin.Val, e tutil.PE) *tbin.Val {
	switch e.K {
	case 's':
		return tbin.Str(e.S)
	case 'k':
		switch v.KT {
		case tbin.BYTE:
			return tbin.Byte(int8(e.I))
		case tbin.I16:
			return tbin.I16v(int16(e.I))
		case tbin.I32:
			return tbin.I32v(int32(e.I))
		default:
			return tbin.I64v(int64(e.I))
		}
	case 'b':
		k, _, err := tbin.Decode(e.B, 0, v.KT)
		if err != nil {
			return nil
		}
		return k
	}
	return nil
}

// ---- implementation side ----

type implResult struct {
	raw   []byte
	exist bool
	err   error
	pi    *core.PanicInfo
}

func pathsOf(o op) []generic.Path {
	ps := tutil.Paths(o.Path)
	if o.Named {
		ps[len(ps)-1] = generic.NewPathFieldName(o.Path[len(o.Path)-1].Name)
	}
	return ps
}

func descAt(root *thrift.TypeDescriptor, rootShape *tbin.Shape, target *tbin.Shape) *thrift.TypeDescriptor {
	// descriptor for a replacement value: parsed from its own shape (structurally equal IDL)
	return tutil.Desc(target)
}

func applyNode(t tbin.Type, buf []byte, o op) (res implResult) {
	n := generic.NewNode(thrift.Type(t), buf)
	res.pi = core.Catch(func() {
		switch o.Kind {
		case "set":
			sub := generic.NewNode(thrift.Type(o.Val.T), tbin.Bytes(tbin.Clone(o.Val)))
			res.exist, res.err = n.SetByPath(sub, pathsOf(o)...)
		case "replace":
			sub := generic.NewNode(thrift.Type(o.Val.T), tbin.Bytes(tbin.Clone(o.Val)))
			res.exist, res.err = n.ReplaceByPath(func(generic.Node) generic.Node { return sub }, pathsOf(o)...)
		case "unset":
			res.err = n.UnsetByPath(pathsOf(o)...)
		case "setmany":
			pns := make([]generic.PathNode, len(o.Many))
			for i, m := range o.Many {
				pns[i] = generic.PathNode{Path: m.PE.Path(), Node: generic.NewNode(thrift.Type(m.Val.T), tbin.Bytes(tbin.Clone(m.Val)))}
			}
			res.err = n.SetMany(pns, &generic.Options{})
		}
		res.raw = append([]byte{}, n.Raw()...)
	})
	return
}

func applyValue(d *thrift.TypeDescriptor, buf []byte, o op) (res implResult) {
	v := generic.NewValue(d, buf)
	res.pi = core.Catch(func() {
		switch o.Kind {
		case "set":
			sub := generic.NewValue(tutil.Desc(o.ValS), tbin.Bytes(tbin.Clone(o.Val)))
			res.exist, res.err = v.SetByPath(sub, pathsOf(o)...)
		case "replace":
			sub := generic.NewNode(thrift.Type(o.Val.T), tbin.Bytes(tbin.Clone(o.Val)))
			res.exist, res.err = v.ReplaceByPath(func(generic.Node) generic.Node { return sub }, pathsOf(o)...)
		case "unset":
			res.err = v.UnsetByPath(pathsOf(o)...)
		}
		res.raw = append([]byte{}, v.Raw()...)
	})
	return
}

// ---- search ----

type state struct {
	m     *tbin.Val
	hist  []string
	depth int
}

// gcSafe: the library represents an insertion point as an unsafe.Pointer to base+offset, which is ONE PAST THE
// END of the buffer when the addressed container ends the buffer (root-level empty list/map, append at the end).
// Go's GC rejects such a pointer when it happens to fall on the unused tail of a span ("fatal error: found bad
// pointer in Go heap"), i.e. depending on heap layout. The exploration must not depend on that: automatic GC is
// off while library values are live and collections run at safe points (no Node alive) only. (Observation
// recorded in DESIGN.md 10.4; the harness also hands out buffers with spare capacity.)
func gcSafe() func() {
	old := debug.SetGCPercent(-1)
	return func() { debug.SetGCPercent(old) }
}

func spare(b []byte) []byte {
	c := make([]byte, len(b), len(b)+16)
	copy(c, b)
	return c
}

func hasIntKeyMap(s *tbin.Shape) bool {
	if s == nil {
		return false
	}
	if s.T == tbin.MAP && (s.Key.T == tbin.BYTE || s.Key.T == tbin.I16 || s.Key.T == tbin.I32 || s.Key.T == tbin.I64) {
		return true
	}
	if hasIntKeyMap(s.Elem) || hasIntKeyMap(s.Key) {
		return true
	}
	for _, f := range s.Fields {
		if hasIntKeyMap(f.S) {
			return true
		}
	}
	return false
}

// negateKeys makes every integer map key negative (k -> -k-1: distinct keys stay distinct, the range fits).
func negateKeys(v *tbin.Val) {
	if v.T == tbin.MAP && (v.KT == tbin.BYTE || v.KT == tbin.I16 || v.KT == tbin.I32 || v.KT == tbin.I64) {
		for _, k := range v.K {
			if k.I >= 0 {
				k.I = -k.I - 1
			}
		}
	}
	for _, e := range v.L {
		negateKeys(e)
	}
	for _, e := range v.K {
		negateKeys(e)
	}
	for _, f := range v.Fs {
		negateKeys(f.V)
	}
}

func search(s *tbin.Shape, n int, api string, maxDepth int, neg bool) core.Result {
	defer gcSafe()()
	r := core.Result{Class: "ok"}
	typed := api == "Value"
	g := &tbin.Gen{}
	init := g.Build(s, n)
	if neg {
		negateKeys(init)
	}
	var d *thrift.TypeDescriptor
	if typed {
		if pi := core.Catch(func() { d = tutil.Desc(s) }); pi != nil {
			r.Add("harness|desc|panic", "%s", pi.Val)
			return r
		}
	}
	seen := map[string]bool{init.String(): true}
	frontier := []state{{m: init}}
	var states, transitions, failedOps int64 = 1, 0, 0
	outcomes := map[string]bool{}
	what := fmt.Sprintf("%s n=%d api=%s", s, n, api)
	if neg {
		what += " negative-keys"
	}
	for len(frontier) > 0 {
		st := frontier[0]
		frontier = frontier[1:]
		if st.depth >= maxDepth {
			continue
		}
		pre := tbin.Bytes(st.m) // canonical bytes of the state (also fills spans)
		for _, o := range alphabet(st.m, s, typed) {
			if typed && (o.Kind == "setmany") {
				continue
			}
			transitions++
			if transitions%200 == 0 {
				core.Alive()
			}
			if transitions%4000 == 0 {
				runtime.GC() // safe point: no library value is alive here
			}
			buf := spare(pre)
			var res implResult
			if typed {
				res = applyValue(d, buf, o)
			} else {
				res = applyNode(init.T, buf, o)
			}
			site := api + "." + map[string]string{"set": "SetByPath", "replace": "ReplaceByPath", "unset": "UnsetByPath", "setmany": "SetMany"}[o.Kind]
			hist := append(append([]string{}, st.hist...), o.String())
			ctx := fmt.Sprintf("%s: state %s after %v; op %s", what, st.m, st.hist, o)
			if res.pi != nil {
				r.Add(site+"|"+o.Trig+"|panic@"+res.pi.Site+":"+core.PanicClass(res.pi.Val), "%s: panic %s\n%s", ctx, res.pi.Val, res.pi.Stack)
				outcomes["panic"] = true
				continue
			}
			next, outcome := judge(&r, site, ctx, st.m, o, res, pre)
			outcomes[outcome] = true
			if res.err != nil {
				failedOps++
			}
			// fork independence (differential, no expected value): op replayed on a fork gives the same bytes,
			// and a fork taken before the op is not changed by it
			if !typed {
				forkCheck(&r, site, ctx, init.T, pre, o, res)
			}
			if next != nil {
				k := next.String()
				if !seen[k] {
					seen[k] = true
					states++
					frontier = append(frontier, state{m: next, hist: hist, depth: st.depth + 1})
				}
			}
		}
	}
	r.Count("states", states)
	r.Count("transitions", transitions)
	r.Count("traces_validated_against_impl", transitions)
	r.Count("failed_ops", failedOps)
	if transitions > 0 {
		r.Key = what
	}
	var oc []string
	for k := range outcomes {
		oc = append(oc, k)
	}
	sort.Strings(oc)
	r.Class = strings.Join(oc, "+")
	if len(r.Viol) > 0 {
		r.Class = "violation"
	}
	return r
}

func forkCheck(r *core.Result, site, ctx string, t tbin.Type, pre []byte, o op, res implResult) {
	pi := core.Catch(func() {
		orig := generic.NewNode(thrift.Type(t), spare(pre))
		f := orig.Fork()
		// edit the fork: origin must stay byte-identical
		fr := applyNodeOn(&f, o)
		if !bytes.Equal(orig.Raw(), pre) {
			r.Add(site+"|"+o.Trig+"|fork-edit-changed-origin", "%s: editing a fork changed the origin: %x -> %x", ctx, pre, orig.Raw())
		}
		if fr.err == nil && res.err == nil && !bytes.Equal(f.Raw(), res.raw) {
			r.Add(site+"|"+o.Trig+"|fork-result-differs", "%s: op on fork gives %x, on origin %x", ctx, f.Raw(), res.raw)
		}
		// edit the origin: a fork taken before must stay identical
		orig2 := generic.NewNode(thrift.Type(t), spare(pre))
		f2 := orig2.Fork()
		applyNodeOn(&orig2, o)
		if !bytes.Equal(f2.Raw(), pre) {
			r.Add(site+"|"+o.Trig+"|origin-edit-changed-fork", "%s: editing the origin changed a fork: %x -> %x", ctx, pre, f2.Raw())
		}
	})
	_ = pi // panics are reported by the main transition
}

func applyNodeOn(n *generic.Node, o op) (res implResult) {
	switch o.Kind {
	case "set":
		sub := generic.NewNode(thrift.Type(o.Val.T), tbin.Bytes(tbin.Clone(o.Val)))
		res.exist, res.err = n.SetByPath(sub, pathsOf(o)...)
	case "replace":
		sub := generic.NewNode(thrift.Type(o.Val.T), tbin.Bytes(tbin.Clone(o.Val)))
		res.exist, res.err = n.ReplaceByPath(func(generic.Node) generic.Node { return sub }, pathsOf(o)...)
	case "unset":
		res.err = n.UnsetByPath(pathsOf(o)...)
	case "setmany":
		pns := make([]generic.PathNode, len(o.Many))
		for i, m := range o.Many {
			pns[i] = generic.PathNode{Path: m.PE.Path(), Node: generic.NewNode(thrift.Type(m.Val.T), tbin.Bytes(tbin.Clone(m.Val)))}
		}
		res.err = n.SetMany(pns, &generic.Options{})
	}
	return
}

// judge compares the implementation's result with the model; returns the successor model (nil if none) and an outcome class.
func judge(r *core.Result, site, ctx string, m *tbin.Val, o op, res implResult, pre []byte) (*tbin.Val, string) {
	bad := func(outcome, format string, a ...interface{}) {
		r.Add(site+"|"+o.Trig+"|"+outcome, ctx+": "+format, a...)
	}
	unchanged := func() bool { return bytes.Equal(res.raw, pre) }
	switch o.Expect {
	case "error":
		if res.err == nil {
			bad("no-error", "expected an error, got nil; result %x", res.raw)
			return nil, "error-missing"
		}
		if !unchanged() {
			bad("failed-op-changed-value", "op failed (%v) but bytes changed: %x -> %x", res.err, pre, res.raw)
		}
		return nil, "error"
	case "noop", "noop-or-error", "error-or-noop":
		// "unsetting something absent changes nothing": a nil error and a not-found error are both accepted
		if !unchanged() {
			bad("absent-unset-changed-value", "value changed: %x -> %x (decodes to %s)", pre, res.raw, decodeStr(res.raw, m.T))
		}
		return nil, "noop"
	}
	if res.err != nil {
		bad("error", "unexpected error %v", res.err)
		if !unchanged() {
			bad("failed-op-changed-value", "op failed (%v) but bytes changed: %x -> %x", res.err, pre, res.raw)
		}
		return nil, "unexpected-error"
	}
	got, err := tbin.DecodeAll(res.raw, m.T)
	if err != nil {
		bad("malformed", "result does not decode: %v; bytes %x", err, res.raw)
		return nil, "malformed"
	}
	switch o.Expect {
	case "replace":
		want := tbin.Clone(m)
		parent, idx, ok := locate(want, o.Path)
		if !ok || idx < 0 {
			r.Add("harness|model|locate", "%s: model cannot locate present path", ctx)
			return nil, "harness"
		}
		setChild(parent, idx, tbin.Clone(o.Val))
		if !res.exist {
			bad("exist-flag", "exist=false for a present element")
		}
		if !tbin.Equal(got, want) {
			bad("value-differs", "got %s want %s", got, want)
			return nil, "wrong"
		}
		return got, "replaced"
	case "remove":
		want := tbin.Clone(m)
		parent, idx, ok := locate(want, o.Path)
		if !ok || idx < 0 {
			r.Add("harness|model|locate", "%s: model cannot locate present path", ctx)
			return nil, "harness"
		}
		removeChild(parent, idx)
		if !tbin.Equal(got, want) {
			bad("value-differs", "got %s want %s", got, want)
			return nil, "wrong"
		}
		return got, "removed"
	case "insert":
		if res.exist {
			bad("exist-flag", "exist=true for an absent element")
		}
		if !checkInserted(got, m, [][]tutil.PE{o.Path}, []*tbin.Val{o.Val}) {
			bad("value-differs", "got %s; want %s with %s inserted at %s", got, m, o.Val, tutil.PathString(o.Path))
			return nil, "wrong"
		}
		return got, "inserted"
	case "many":
		want := tbin.Clone(m)
		var insPaths [][]tutil.PE
		var insVals []*tbin.Val
		for _, it := range o.Many {
			idx := childIndex(want, it.PE)
			if idx >= 0 {
				setChild(want, idx, tbin.Clone(it.Val))
			} else {
				insPaths = append(insPaths, []tutil.PE{it.PE})
				insVals = append(insVals, it.Val)
			}
		}
		if !checkInserted(got, want, insPaths, insVals) {
			bad("value-differs", "got %s; want %s with %d insertions", got, want, len(insPaths))
			return nil, "wrong"
		}
		return got, "many"
	}
	return nil, "?"
}

func decodeStr(b []byte, t tbin.Type) string {
	v, err := tbin.DecodeAll(b, t)
	if err != nil {
		return "undecodable: " + err.Error()
	}
	return v.String()
}

// checkInserted: got equals base with each vals[i] inserted as the child addressed by paths[i] (absent in base),
// at any position of its container, all previous children keeping their relative order.
func checkInserted(got, base *tbin.Val, paths [][]tutil.PE, vals []*tbin.Val) bool {
	g := tbin.Clone(got)
	for i, p := range paths {
		parentPath := p[:len(p)-1]
		last := p[len(p)-1]
		// container in g
		cur := g
		for _, e := range parentPath {
			j := childIndex(cur, e)
			if j < 0 {
				return false
			}
			cur = childAt(cur, j)
		}
		found := -1
		switch cur.T {
		case tbin.STRUCT:
			for j := range cur.Fs {
				if cur.Fs[j].ID == last.ID && tbin.Equal(cur.Fs[j].V, vals[i]) {
					found = j
					break
				}
			}
		case tbin.MAP:
			kv := keyVal(cur, last)
			if kv == nil {
				return false
			}
			for j := range cur.K {
				if tbin.Equal(cur.K[j], kv) && tbin.Equal(cur.L[j], vals[i]) {
					found = j
					break
				}
			}
		default:
			for j := range cur.L {
				if tbin.Equal(cur.L[j], vals[i]) {
					found = j
					break
				}
			}
		}
		if found < 0 {
			return false
		}
		removeChild(cur, found)
	}
	return tbin.Equal(g, base)
}

func (check) SelfCheck() error { return tutil.CrossCheckGopkg(shapes("thorough")) }
