package c03

import (
	"bytes"
	"fmt"
	"math"
	"strings"

	"github.com/cloudwego/dynamicgo/conv"
	"github.com/cloudwego/dynamicgo/thrift"

	"verif/checks/jt"
	"verif/ref/tbin"
)

func groups(tier string) []group {
	var gs []group
	for _, s := range tbin.Scalars() {
		s := s
		gs = append(gs, group{"scalar/" + s.String(), func(tier string, y func(*scen) bool) { enumScalar(tier, s, y) }})
	}
	shapes := shapeAlphabet(tier)
	const chunk = 12
	for i := 0; i < len(shapes); i += chunk {
		j := i + chunk
		if j > len(shapes) {
			j = len(shapes)
		}
		sub := shapes[i:j]
		gs = append(gs, group{fmt.Sprintf("shape/%d-%d", i, j), func(tier string, y func(*scen) bool) { enumShapes(tier, sub, y) }})
	}
	gs = append(gs, group{"unknown", enumUnknown})
	gs = append(gs, group{"after-failure", enumAfterFailure})
	gs = append(gs, group{"keys", enumKeys})
	gs = append(gs, group{"jsconv", enumJSConv})
	for m := 0; m < 256; m += 32 {
		m := m
		gs = append(gs, group{fmt.Sprintf("options/%d-%d", m, m+32), func(tier string, y func(*scen) bool) { enumOptions(tier, m, m+32, y) }})
	}
	gs = append(gs, group{"wide-deep", enumWideDeep})
	for i := 0; i < 4; i++ {
		i := i
		gs = append(gs, group{fmt.Sprintf("bufsweep/%d", i), func(tier string, y func(*scen) bool) { enumBufSweep(tier, i, 4, y) }})
	}
	return gs
}

var valueFlags = []jt.Flag{jt.FInt642String, jt.FByteAsUint8, jt.FNoBase64, jt.FValueMapping}

// ---------------------------------------------------------------------------------------------

type position struct {
	name  string
	prog  *jt.Prog
	place func(w *tbin.Val) *tbin.Val
}

func neighbour(s *tbin.Shape) *tbin.Val {
	g := &tbin.Gen{}
	return g.Build(s, 1)
}

func positions(s *tbin.Shape) []position {
	var ps []position
	ps = append(ps, position{"field", jt.Plain(tbin.StructS(tbin.SF(1, s))), func(w *tbin.Val) *tbin.Val { return tbin.Struct(tbin.F(1, w)) }})
	ps = append(ps, position{"list", jt.Plain(tbin.StructS(tbin.SF(1, tbin.ListS(s)))), func(w *tbin.Val) *tbin.Val {
		return tbin.Struct(tbin.F(1, tbin.List(s.T, neighbour(s), w, neighbour(s))))
	}})
	ps = append(ps, position{"set", jt.Plain(tbin.StructS(tbin.SF(1, tbin.SetS(s)))), func(w *tbin.Val) *tbin.Val { return tbin.Struct(tbin.F(1, tbin.Set(s.T, w))) }})
	ps = append(ps, position{"mapval", jt.Plain(tbin.StructS(tbin.SF(1, tbin.MapS(tbin.Sc(tbin.STRING), s)))), func(w *tbin.Val) *tbin.Val {
		return tbin.Struct(tbin.F(1, tbin.Map(tbin.STRING, s.T, tbin.Str("k1"), w, tbin.Str("k2"), neighbour(s))))
	}})
	if !s.Binary {
		ps = append(ps, position{"mapkey", jt.Plain(tbin.StructS(tbin.SF(1, tbin.MapS(s, tbin.Sc(tbin.I32))))), func(w *tbin.Val) *tbin.Val {
			return tbin.Struct(tbin.F(1, tbin.Map(s.T, tbin.I32, neighbour(s), tbin.I32v(1), w, tbin.I32v(7))))
		}})
	}
	ps = append(ps, position{"top", jt.Plain(s), func(w *tbin.Val) *tbin.Val { return w }})
	return ps
}

// valClass is the trigger class of a scalar value.
func valClass(s *tbin.Shape, w *tbin.Val) string {
	switch s.T {
	case tbin.DOUBLE:
		switch {
		case math.IsNaN(w.F) || math.IsInf(w.F, 0):
			return "double:nonfinite"
		case w.F == 0 && math.Signbit(w.F):
			return "double:-0"
		case w.F != 0 && math.Abs(w.F) < 2.2250738585072014e-308:
			return "double:subnormal"
		}
		return "double:finite"
	case tbin.STRING:
		if s.Binary {
			return "binary"
		}
		for _, c := range jt.InvalidUTF8() {
			if bytes.Equal(c.S, w.S) {
				return "string:badutf8"
			}
		}
		for _, c := range jt.Strings(true) {
			if bytes.Equal(c.S, w.S) {
				return "string:" + c.Class
			}
		}
		return "string:other"
	}
	return s.String()
}

func scalarVals(s *tbin.Shape) []*tbin.Val {
	vals := jt.ScalarVals(s, true)
	switch {
	case s.T == tbin.DOUBLE:
		vals = append(vals, tbin.Double(math.Copysign(0, -1)))
		for _, f := range jt.NonFinite() {
			vals = append(vals, tbin.Double(f))
		}
		// every power of ten around the fixed/exponent format switches, and 17-significant-digit neighbours
		for e := -10; e <= 24; e++ {
			x := math.Pow(10, float64(e))
			vals = append(vals, tbin.Double(x), tbin.Double(math.Nextafter(x, 0)), tbin.Double(math.Nextafter(x, math.Inf(1))))
		}
	case s.T == tbin.STRING && !s.Binary:
		for _, c := range jt.InvalidUTF8() {
			vals = append(vals, tbin.Bin(c.S))
		}
	case s.T == tbin.BYTE:
		vals = nil
		for i := -128; i <= 127; i++ {
			vals = append(vals, tbin.Byte(int8(i)))
		}
	}
	return vals
}

func enumScalar(tier string, s *tbin.Shape, yield func(*scen) bool) {
	sets := jt.Subsets(valueFlags...)
	for _, pos := range positions(s) {
		for _, w := range scalarVals(s) {
			root := pos.place(w)
			for _, os := range sets {
				// flags that cannot influence this type are enumerated once (the empty set) plus the full set
				if !relevant(s, os) {
					continue
				}
				sc := &scen{op: "scalar", trigger: valClass(s, w) + "@" + pos.name + optClass(s, os), prog: pos.prog, copts: os.O, optName: os.Name, val: root, shape: pos.prog.Root, ks: ksFor(tier, true)}
				if !yield(sc) {
					return
				}
			}
		}
	}
}

// relevant: keep the option subsets that can matter for a scalar type, plus "none" and "all".
func relevant(s *tbin.Shape, os jt.OptSet) bool {
	if os.Mask == 0 || os.Mask == 15 {
		return true
	}
	switch {
	case s.T == tbin.I64:
		return os.Mask&^1 == 0 || os.Mask&^(1|8) == 0
	case s.T == tbin.BYTE:
		return os.Mask&^2 == 0 || os.Mask&^(2|1) == 0
	case s.T == tbin.STRING && s.Binary:
		return os.Mask&^4 == 0 || os.Mask&^(4|8) == 0
	}
	return false
}

func optClass(s *tbin.Shape, os jt.OptSet) string {
	var p []string
	if s.T == tbin.I64 && os.Has(0) {
		p = append(p, "i642s")
	}
	if s.T == tbin.BYTE && os.Has(1) {
		p = append(p, "u8")
	}
	if s.Binary && os.Has(2) {
		p = append(p, "nob64")
	}
	if len(p) == 0 {
		return ""
	}
	return "/" + strings.Join(p, "+")
}

// ---------------------------------------------------------------------------------------------

func shapeAlphabet(tier string) []*tbin.Shape {
	var all []*tbin.Shape
	all = append(all, tbin.T1()...)
	all = append(all, tbin.T2()...)
	if tier == "thorough" {
		all = append(all, tbin.T3Small()...)
	}
	return all
}

func shapeClass(s *tbin.Shape) string {
	c := s.T.String()
	switch s.T {
	case tbin.LIST, tbin.SET:
		c += "<" + s.Elem.T.String() + ">"
	case tbin.MAP:
		c += "<" + s.Key.T.String() + "," + s.Elem.T.String() + ">"
	}
	return c
}

func enumShapes(tier string, shapes []*tbin.Shape, yield func(*scen) bool) {
	sets := jt.Subsets(valueFlags...)
	for _, s := range shapes {
		for _, wrap := range []bool{true, false} {
			root := s
			w := "top"
			if wrap {
				root = tbin.StructS(tbin.SF(1, s))
				w = "field"
			}
			prog := jt.Plain(root)
			for n := 0; n <= 5; n++ {
				if n > 1 && s.Depth() == 0 {
					continue
				}
				if n > 3 && !tbin.HasStructInContainer(s) {
					continue
				}
				g := &tbin.Gen{}
				nn := n
				if nn > 3 {
					nn = 3
				}
				v := g.Build(root, nn)
				if n > 3 {
					// n = 4 / 5: three elements, the later ones lack the first / last field of their structs
					tbin.DropInLater(v, n == 4)
				}
				for _, os := range sets {
					ks := ksFor(tier, true)
					if os.Mask == 0 {
						ks = ksFor(tier, false)
					}
					sc := &scen{op: "shape", trigger: shapeClass(s) + "@" + w, prog: prog, copts: os.O, optName: os.Name, val: v, shape: root, ks: ks, note: fmt.Sprintf("n=%d", n)}
					if !yield(sc) {
						return
					}
				}
			}
		}
	}
}

// ---------------------------------------------------------------------------------------------
// unknown fields

func unknownVals() []struct {
	name string
	v    *tbin.Val
} {
	return []struct {
		name string
		v    *tbin.Val
	}{
		{"bool", tbin.Bool(true)},
		{"i64", tbin.I64v(-1)},
		{"double", tbin.Double(2.5)},
		{"string", tbin.Str("u\"nk")},
		{"empty-string", tbin.Str("")},
		{"list", tbin.List(tbin.I32, tbin.I32v(1), tbin.I32v(2))},
		{"map", tbin.Map(tbin.STRING, tbin.LIST, tbin.Str("k"), tbin.List(tbin.STRING, tbin.Str("a")))},
		{"struct", tbin.Struct(tbin.F(1, tbin.I32v(5)), tbin.F(2, tbin.Struct()))},
		{"empty-list", tbin.List(tbin.STRUCT)},
		// containers of fixed-size elements (the skipper's arithmetic fast paths), sizes 0, 2, 3
		{"map-fixed-fixed/0", tbin.Map(tbin.I32, tbin.I64)},
		{"map-fixed-fixed/2", tbin.Map(tbin.I32, tbin.I64, tbin.I32v(1), tbin.I64v(-1), tbin.I32v(2), tbin.I64v(0))},
		{"map-fixed-fixed/3", tbin.Map(tbin.BYTE, tbin.BOOL, tbin.Byte(1), tbin.Bool(true), tbin.Byte(2), tbin.Bool(false), tbin.Byte(0), tbin.Bool(false))},
		{"map-fixed-fixed/3", tbin.Map(tbin.DOUBLE, tbin.I16, tbin.Double(1.5), tbin.I16v(1), tbin.Double(0), tbin.I16v(0), tbin.Double(-2), tbin.I16v(-2))},
		{"map-var-fixed/2", tbin.Map(tbin.STRING, tbin.I32, tbin.Str("a"), tbin.I32v(0), tbin.Str(""), tbin.I32v(1))},
		{"map-fixed-var/2", tbin.Map(tbin.I32, tbin.STRING, tbin.I32v(0), tbin.Str(""), tbin.I32v(1), tbin.Str("b"))},
		{"list-fixed/3", tbin.List(tbin.I64, tbin.I64v(0), tbin.I64v(1), tbin.I64v(0))},
		{"set-fixed/2", tbin.Set(tbin.BYTE, tbin.Byte(0), tbin.Byte(1))},
	}
}

func enumUnknown(tier string, yield func(*scen) bool) {
	inner := tbin.StructS(tbin.SField{ID: 1, Name: "x", S: tbin.Sc(tbin.I32)}, tbin.SField{ID: 3, Name: "y", S: tbin.Sc(tbin.STRING), Req: 2})
	root := tbin.StructS(tbin.SField{ID: 2, Name: "a", S: tbin.Sc(tbin.I32)}, tbin.SField{ID: 4, Name: "b", S: tbin.Sc(tbin.STRING), Req: 2}, tbin.SField{ID: 300, Name: "c", S: inner}, tbin.SField{ID: 6, Name: "l", S: tbin.ListS(inner), Req: 2})
	prog := jt.NewProg("unknown", root)
	known := []tbin.Field{tbin.F(2, tbin.I32v(7)), tbin.F(4, tbin.Str("s")), tbin.F(300, tbin.Struct(tbin.F(1, tbin.I32v(9))))}
	sets := jt.Subsets(jt.FDisallow, jt.FNativeSkip)
	for _, u := range unknownVals() {
		for _, uid := range []int16{1, 3, 5, 299, 301, 32767, -1} {
			// present known fields: every subset of the three, unknown inserted at every position
			for mask := 0; mask < 8; mask++ {
				var ks []tbin.Field
				for i := 0; i < 3; i++ {
					if mask>>uint(i)&1 == 1 {
						ks = append(ks, known[i])
					}
				}
				for at := 0; at <= len(ks); at++ {
					v := tbin.Struct()
					v.Fs = append(v.Fs, ks[:at]...)
					v.Fs = append(v.Fs, tbin.F(uid, u.v))
					v.Fs = append(v.Fs, ks[at:]...)
					for _, os := range sets {
						tr := "kind=" + u.name
						if os.Has(0) {
							tr += ",disallow"
						}
						if os.Has(1) {
							tr += ",nativeskip"
						}
						sc := &scen{op: "unknown", trigger: tr, prog: prog, copts: os.O, optName: os.Name, val: v, shape: root, unknown: true, ks: ksFor(tier, true), note: fmt.Sprintf("unknown id %d at %d of %d", uid, at, len(ks))}
						if !yield(sc) {
							return
						}
					}
				}
			}
		}
		// unknown fields inside nested structs (field value and list elements), two unknowns in a row
		for _, os := range sets {
			in1 := tbin.Struct(tbin.F(2, u.v), tbin.F(1, tbin.I32v(1)), tbin.F(9, u.v), tbin.F(10, u.v), tbin.F(3, tbin.Str("y")))
			in2 := tbin.Struct(tbin.F(1, tbin.I32v(2)), tbin.F(2, u.v))
			v := tbin.Struct(tbin.F(300, in1), tbin.F(6, tbin.List(tbin.STRUCT, in2, in1, tbin.Struct())), tbin.F(2, tbin.I32v(3)))
			tr := "nested,kind=" + u.name
			if os.Has(0) {
				tr += ",disallow"
			}
			if os.Has(1) {
				tr += ",nativeskip"
			}
			if !yield(&scen{op: "unknown", trigger: tr, prog: prog, copts: os.O, optName: os.Name, val: v, shape: root, unknown: true, ks: ksFor(tier, true)}) {
				return
			}
		}
	}
}

// ---------------------------------------------------------------------------------------------
// alias keys

func enumKeys(tier string, yield func(*scen) bool) {
	st := tbin.StructS(
		tbin.SField{ID: 1, Name: "plain", S: tbin.Sc(tbin.I32)},
		tbin.SField{ID: 2, Name: "viaKey", S: tbin.Sc(tbin.I32)},
		tbin.SField{ID: 3, Name: "viaTag", S: tbin.Sc(tbin.I32)},
		tbin.SField{ID: 4, Name: "UserName", S: tbin.Sc(tbin.I32)},
		tbin.SField{ID: 5, Name: "user_id", S: tbin.Sc(tbin.I32)},
		tbin.SField{ID: 6, Name: "uni", S: tbin.Sc(tbin.I32)},
		tbin.SField{ID: 7, Name: "esc", S: tbin.Sc(tbin.I32)},
		tbin.SField{ID: 8, Name: "quo", S: tbin.Sc(tbin.I32)},
		tbin.SField{ID: 9, Name: "ctl", S: tbin.Sc(tbin.I32)},
		tbin.SField{ID: 10, Name: "bsl", S: tbin.Sc(tbin.I32)},
	)
	p := jt.NewProg("keys", st)
	// keys that need JSON escaping: a double quote, a control character (a raw TAB in the IDL literal) and a
	// backslash (single-quoted IDL literals are taken verbatim)
	p.Set(st, 7, jt.FX{Alias: "q\"uo", Ann: []string{`api.key = 'q"uo'`}})
	p.Set(st, 8, jt.FX{Alias: "ta\tb", Ann: []string{"api.key = \"ta\tb\""}})
	p.Set(st, 9, jt.FX{Alias: "back\\slash", Ann: []string{`api.key = 'back\slash'`}})
	p.Set(st, 1, jt.FX{Alias: "k2", Ann: []string{`api.key = "k2"`}})
	p.Set(st, 2, jt.FX{Alias: "tag3", Ann: []string{`go.tag = "json:\"tag3\""`}})
	p.Set(st, 3, jt.FX{Alias: "user_name", Ann: []string{`agw.to_snake = "true"`}})
	p.Set(st, 4, jt.FX{Alias: "userId", Ann: []string{`agw.to_lower_camel_case = "true"`}})
	p.Set(st, 5, jt.FX{Alias: "k-é.6", Ann: []string{`api.key = "k-é.6"`}})
	p.Set(st, 6, jt.FX{Alias: "a b/c", Ann: []string{`api.key = "a b/c"`}})
	for mask := 1; mask < 1024; mask++ {
		if mask >= 128 && mask&127 != 0 && mask&127 != 127 {
			continue // the three escape-needing keys: alone, in every subset of themselves, and with all the others
		}
		v := tbin.Struct()
		for i := 9; i >= 0; i-- {
			if mask>>uint(i)&1 == 1 {
				v.Fs = append(v.Fs, tbin.F(int16(i+1), tbin.I32v(int32(100+i))))
			}
		}
		for _, way := range []int{0, 1, 2} {
			po := thrift.Options{}
			switch way {
			case 1:
				po.MapFieldWay = 1
			case 2:
				po.MapFieldWay = 2
			}
			if !yield(&scen{op: "keys", trigger: fmt.Sprintf("alias,way=%d", way), prog: p, popts: po, optName: "none", val: v, shape: st, ks: ksFor(tier, true)}) {
				return
			}
		}
	}
}

// ---------------------------------------------------------------------------------------------
// api.js_conv fields (EnableValueMapping)

func enumJSConv(tier string, yield func(*scen) bool) {
	types := []*tbin.Shape{tbin.Sc(tbin.BYTE), tbin.Sc(tbin.I16), tbin.Sc(tbin.I32), tbin.Sc(tbin.I64), tbin.Sc(tbin.DOUBLE), tbin.Sc(tbin.STRING), tbin.ListS(tbin.Sc(tbin.I64)), tbin.ListS(tbin.Sc(tbin.I32)), tbin.ListS(tbin.Sc(tbin.STRING))}
	sets := jt.Subsets(valueFlags...)
	for _, t := range types {
		st := tbin.StructS(tbin.SField{ID: 1, Name: "before", S: tbin.Sc(tbin.I32)}, tbin.SField{ID: 2, Name: "j", S: t}, tbin.SField{ID: 3, Name: "after", S: tbin.Sc(tbin.STRING)})
		p := jt.NewProg("jsconv-"+t.String(), st)
		p.Set(st, 1, jt.FX{JSConv: true})
		var vals []*tbin.Val
		if t.T == tbin.LIST {
			for n := 0; n <= 3; n++ {
				l := tbin.List(t.Elem.T)
				ev := scalarVals(t.Elem)
				for i := 0; i < n; i++ {
					l.L = append(l.L, ev[(i*5+n)%len(ev)])
				}
				vals = append(vals, l)
			}
			for _, e := range scalarVals(t.Elem) {
				vals = append(vals, tbin.List(t.Elem.T, e))
			}
		} else {
			vals = scalarVals(t)
		}
		for _, w := range vals {
			v := tbin.Struct(tbin.F(1, tbin.I32v(1)), tbin.F(2, w), tbin.F(3, tbin.Str("z")))
			for _, os := range sets {
				if !os.Has(3) && os.Mask != 0 {
					continue
				}
				cls := ""
				switch {
				case t.T == tbin.LIST:
					cls = "list<" + valClassOfList(t, w) + ">"
				default:
					cls = valClass(t, w)
				}
				if t.T == tbin.BYTE && w.I < 0 {
					cls = "byte:negative"
				}
				if t.T == tbin.STRING {
					cls = "string:plain"
					if needsEscape(w.S) {
						cls = "string:needs-escape"
					}
				}
				tr := cls
				if os.Has(3) {
					tr += "/vm"
				}
				sc := &scen{op: "jsconv", trigger: tr, prog: p, copts: os.O, optName: os.Name, val: v, shape: st, ks: ksFor(tier, true)}
				if !yield(sc) {
					return
				}
				// the same struct below the root: as a field, a list element and a map value
				nroot := tbin.StructS(tbin.SField{ID: 1, Name: "in", S: st}, tbin.SField{ID: 2, Name: "l", S: tbin.ListS(st)}, tbin.SField{ID: 3, Name: "m", S: tbin.MapS(tbin.Sc(tbin.STRING), st)})
				np := jt.NewProg("jsconv-nested-"+t.String(), nroot)
				np.Set(st, 1, jt.FX{JSConv: true})
				mv := &tbin.Val{T: tbin.MAP, KT: tbin.STRING, ET: tbin.STRUCT, K: []*tbin.Val{tbin.Str("k")}, L: []*tbin.Val{tbin.Clone(v)}}
				nv := tbin.Struct(tbin.F(1, tbin.Clone(v)), tbin.F(2, tbin.List(tbin.STRUCT, tbin.Clone(v))), tbin.F(3, mv))
				if !yield(&scen{op: "jsconv", trigger: tr + "/below-root", prog: np, copts: os.O, optName: os.Name, val: nv, shape: nroot, ks: ksFor(tier, true)}) {
					return
				}
			}
		}
	}
}

func needsEscape(b []byte) bool {
	for _, c := range b {
		if c < 0x20 || c == '"' || c == '\\' {
			return true
		}
	}
	return false
}

func valClassOfList(t *tbin.Shape, w *tbin.Val) string {
	worst := t.Elem.String()
	for _, e := range w.L {
		c := valClass(t.Elem, e)
		if t.Elem.T == tbin.STRING && needsEscape(e.S) {
			return "string:needs-escape"
		}
		if strings.HasPrefix(c, "double:nonfinite") {
			return c
		}
	}
	return worst
}

// ---------------------------------------------------------------------------------------------
// all 2^8 option subsets on a mixed message (with response base and an id-0 field)

var allFlags = []jt.Flag{jt.FInt642String, jt.FByteAsUint8, jt.FNoBase64, jt.FValueMapping, jt.FDisallow, jt.FNativeSkip, jt.FThriftBase, jt.FConvertExc}

func optProg(withZero bool) (*jt.Prog, *tbin.Shape) {
	st := tbin.StructS(
		tbin.SField{ID: 1, Name: "l", S: tbin.Sc(tbin.I64)},
		tbin.SField{ID: 2, Name: "y", S: tbin.Sc(tbin.BYTE)},
		tbin.SField{ID: 3, Name: "bin", S: tbin.BinS()},
		tbin.SField{ID: 4, Name: "jl", S: tbin.Sc(tbin.I64)},
		tbin.SField{ID: 5, Name: "ml", S: tbin.MapS(tbin.Sc(tbin.I64), tbin.ListS(tbin.Sc(tbin.I64)))},
		tbin.SField{ID: 6, Name: "mb", S: tbin.MapS(tbin.Sc(tbin.BYTE), tbin.Sc(tbin.BYTE))},
		tbin.SField{ID: 7, Name: "s", S: tbin.Sc(tbin.STRING)},
		tbin.SField{ID: 255, Name: "BaseResp", S: jt.BaseRespShape},
	)
	if withZero {
		st = tbin.StructS(tbin.SField{ID: 0, Name: "success", S: tbin.StructS(tbin.SField{ID: 1, Name: "l", S: tbin.Sc(tbin.I64)}, tbin.SField{ID: 2, Name: "s", S: tbin.Sc(tbin.STRING)})},
			tbin.SField{ID: 1, Name: "err", S: tbin.StructS(tbin.SField{ID: 1, Name: "msg", S: tbin.Sc(tbin.STRING)}), Req: 2})
		return jt.NewProg("options-zero", st), st
	}
	p := jt.NewProg("options", st)
	p.Set(st, 3, jt.FX{JSConv: true})
	p.Set(st, 7, jt.FX{Base: 2})
	return p, st
}

func enumOptions(tier string, from, to int, yield func(*scen) bool) {
	p, st := optProg(false)
	pz, stz := optProg(true)
	sets := jt.Subsets(allFlags...)
	f := tbin.F
	bresp := tbin.Struct(f(1, tbin.Str("status \"ok\"")), f(2, tbin.I32v(-3)), f(3, tbin.Map(tbin.STRING, tbin.STRING, tbin.Str("ek"), tbin.Str("ev"))))
	bresp2 := tbin.Struct(f(1, tbin.Str("")), f(2, tbin.I32v(0)))
	msgs := []struct {
		name string
		v    *tbin.Val
		unk  bool
		base *tbin.Val
	}{
		{"mixed", tbin.Struct(f(1, tbin.I64v(math.MinInt64)), f(2, tbin.Byte(-2)), f(3, tbin.Bin([]byte{0xff, 0, 1})), f(4, tbin.I64v(1<<53+1)),
			f(5, tbin.Map(tbin.I64, tbin.LIST, tbin.I64v(-1), tbin.List(tbin.I64, tbin.I64v(5), tbin.I64v(-6)))), f(6, tbin.Map(tbin.BYTE, tbin.BYTE, tbin.Byte(-128), tbin.Byte(-1))), f(7, tbin.Str("x\ny"))), false, nil},
		{"mixed+base", tbin.Struct(f(1, tbin.I64v(7)), f(255, bresp), f(7, tbin.Str("after base"))), false, bresp},
		{"base-only", tbin.Struct(f(255, bresp2)), false, bresp2},
		{"base-first+unknown", tbin.Struct(f(255, bresp), f(9, tbin.List(tbin.STRING, tbin.Str("u"))), f(2, tbin.Byte(5))), true, bresp},
		{"unknown+mixed", tbin.Struct(f(8, tbin.Struct(f(1, tbin.Str("q")))), f(3, tbin.Bin(nil)), f(4, tbin.I64v(-9))), true, nil},
		{"empty", tbin.Struct(), false, nil},
	}
	for _, os := range sets[from:to] {
		po := thrift.Options{EnableThriftBase: os.Has(6)}
		rel := func(unk bool, hasBase bool) string {
			var p []string
			if os.Has(3) {
				p = append(p, "vm")
			}
			if unk && os.Has(4) {
				p = append(p, "disallow")
			}
			if unk && os.Has(5) {
				p = append(p, "nativeskip")
			}
			if hasBase && os.Has(6) {
				p = append(p, "base")
			}
			if os.Has(7) {
				p = append(p, "exc")
			}
			return strings.Join(p, "+")
		}
		for _, m := range msgs {
			for _, withCtx := range []bool{false, true} {
				if withCtx && m.base == nil {
					continue
				}
				sc := &scen{op: "options", trigger: m.name + "/" + rel(m.unk, m.base != nil), prog: p, popts: po, copts: os.O, optName: os.Name, val: m.v, shape: st, unknown: m.unk, ks: ksFor(tier, true), withCtx: withCtx, baseVal: m.base}
				if os.Has(6) && m.base != nil {
					sc.baseID = 255
				}
				if !yield(sc) {
					return
				}
			}
		}
		// a response wrapper: field 0 "success" (ConvertException leaves it alone), field 1 an exception
		for i, v := range []*tbin.Val{
			tbin.Struct(f(0, tbin.Struct(f(1, tbin.I64v(3)), f(2, tbin.Str("ok"))))),
			tbin.Struct(f(1, tbin.Struct(f(1, tbin.Str("boom \"x\""))))),
			tbin.Struct(),
		} {
			if !yield(&scen{op: "options", trigger: fmt.Sprintf("wrapper%d/%s", i, rel(false, false)), prog: pz, popts: po, copts: os.O, optName: os.Name, val: v, shape: stz, ks: ksFor(tier, true)}) {
				return
			}
		}
	}
}

// ---------------------------------------------------------------------------------------------
// wide structs and deep nesting (conforming, well-formed)

func enumWideDeep(tier string, yield func(*scen) bool) {
	for _, nf := range []int{300, 4100} {
		st := tbin.StructS()
		for i := 1; i <= nf; i++ {
			t := tbin.Sc(tbin.I32)
			if i%7 == 0 {
				t = tbin.Sc(tbin.STRING)
			}
			st.Fields = append(st.Fields, tbin.SField{ID: int16(i), Name: fmt.Sprintf("field_%d_x", i), S: t, Req: 2})
		}
		p := jt.NewProg(fmt.Sprintf("wide%d", nf), st)
		g := &tbin.Gen{}
		full := g.Build(st, 1)
		rev := tbin.Clone(full)
		for i, j := 0, len(rev.Fs)-1; i < j; i, j = i+1, j-1 {
			rev.Fs[i], rev.Fs[j] = rev.Fs[j], rev.Fs[i]
		}
		for i, v := range []*tbin.Val{full, rev, tbin.Struct(full.Fs[nf-1]), tbin.Struct(full.Fs[nf-1], full.Fs[0], full.Fs[nf/2])} {
			if !yield(&scen{op: "wide", trigger: fmt.Sprintf("fields=%d,variant%d", nf, i), prog: p, optName: "none", val: v, shape: st, ks: []int{-1, 0, 1}}) {
				return
			}
		}
	}
	// ids up to 32767 (bitmap of 512 words, pooled bitmaps regrown) nested three deep
	ids := []int16{1, 63, 64, 65, 255, 256, 257, 1000, 4095, 4096, 32767}
	w := tbin.StructS()
	for _, id := range ids {
		w.Fields = append(w.Fields, tbin.SField{ID: id, S: tbin.Sc(tbin.I32), Req: 2})
	}
	root := tbin.StructS(tbin.SField{ID: 1, Name: "w", S: w}, tbin.SField{ID: 2, Name: "ws", S: tbin.ListS(w)}, tbin.SField{ID: 32767, Name: "z", S: tbin.Sc(tbin.I32)})
	pw := jt.Plain(root)
	for n := 0; n <= 3; n++ {
		g := &tbin.Gen{}
		v := g.Build(root, n)
		if !yield(&scen{op: "wide", trigger: "big-ids", prog: pw, optName: "none", val: v, shape: root, ks: []int{-1, 0, 1}}) {
			return
		}
	}
	// nesting depth through list<list<...>> (shape-expressible) up to 12 and struct-in-struct up to 200
	s := tbin.Sc(tbin.I32)
	for d := 1; d <= 12; d++ {
		s = tbin.ListS(s)
		root := tbin.StructS(tbin.SF(1, s))
		g := &tbin.Gen{}
		for n := 0; n <= 2; n++ {
			if n == 2 && d > 8 {
				continue
			}
			if !yield(&scen{op: "deep", trigger: "list-nesting", prog: jt.Plain(root), optName: "none", val: g.Build(root, n), shape: root, ks: []int{-1, 0}}) {
				return
			}
		}
	}
	st := tbin.StructS(tbin.SF(1, tbin.Sc(tbin.I32)))
	for d := 1; d <= 200; d++ {
		st = tbin.StructS(tbin.SF(1, st), tbin.SF(2, tbin.Sc(tbin.STRING)))
		if d%10 != 0 && d > 20 {
			continue
		}
		g := &tbin.Gen{}
		if !yield(&scen{op: "deep", trigger: "struct-nesting", prog: jt.Plain(st), optName: "none", val: g.Build(st, 1), shape: st, ks: []int{-1, 0}}) {
			return
		}
	}
}

// ---------------------------------------------------------------------------------------------
// buffer capacity sweep

func sweepMsgs() []*scen {
	var out []*scen
	add := func(name string, root *tbin.Shape, v *tbin.Val, o conv.Options, on string) {
		out = append(out, &scen{op: "bufsweep", trigger: name, prog: jt.Plain(root), copts: o, optName: on, val: v, shape: root})
	}
	// long field names with tiny values: output >> 2*len(input)
	long := tbin.StructS()
	for i := 1; i <= 6; i++ {
		long.Fields = append(long.Fields, tbin.SField{ID: int16(i), Name: fmt.Sprintf("a_rather_long_field_name_number_%d", i), S: tbin.Sc(tbin.BOOL)})
	}
	g := &tbin.Gen{}
	add("long-names", long, g.Build(long, 1), conv.Options{}, "none")
	// control characters: 6x expansion inside NoQuote
	cs := tbin.StructS(tbin.SF(1, tbin.Sc(tbin.STRING)), tbin.SF(2, tbin.ListS(tbin.Sc(tbin.STRING))), tbin.SF(3, tbin.MapS(tbin.Sc(tbin.STRING), tbin.Sc(tbin.STRING))))
	ctl := strings.Repeat("\x00\x01\x1f", 120)
	add("control-strings", cs, tbin.Struct(tbin.F(1, tbin.Str(ctl)), tbin.F(2, tbin.List(tbin.STRING, tbin.Str("\x02"), tbin.Str(ctl[:7]), tbin.Str(""))), tbin.F(3, tbin.Map(tbin.STRING, tbin.STRING, tbin.Str(ctl[:9]), tbin.Str(ctl[:30])))), conv.Options{}, "none")
	// numbers: i64/double lists (up to 24 chars per 8 bytes), Int642String quotes
	ns := tbin.StructS(tbin.SF(1, tbin.ListS(tbin.Sc(tbin.I64))), tbin.SF(2, tbin.ListS(tbin.Sc(tbin.DOUBLE))), tbin.SF(3, tbin.MapS(tbin.Sc(tbin.I64), tbin.Sc(tbin.I64))))
	nv := tbin.Struct(tbin.F(1, tbin.List(tbin.I64, tbin.I64v(math.MinInt64), tbin.I64v(math.MinInt64+1), tbin.I64v(-1e18), tbin.I64v(0))),
		tbin.F(2, tbin.List(tbin.DOUBLE, tbin.Double(-1.2345678901234567e-300), tbin.Double(-2.2250738585072014e-308), tbin.Double(5e-324), tbin.Double(-1.7976931348623157e308))),
		tbin.F(3, tbin.Map(tbin.I64, tbin.I64, tbin.I64v(math.MinInt64), tbin.I64v(math.MinInt64), tbin.I64v(-1), tbin.I64v(-2))))
	add("long-numbers", ns, nv, conv.Options{}, "none")
	add("long-numbers-i642s", ns, nv, conv.Options{Int642String: true}, "Int642String")
	// base64
	bs := tbin.StructS(tbin.SF(1, tbin.ListS(tbin.BinS())))
	add("base64", bs, tbin.Struct(tbin.F(1, tbin.List(tbin.STRING, tbin.Bin([]byte{1}), tbin.Bin([]byte{1, 2}), tbin.Bin(bytes.Repeat([]byte{0xfb}, 40)), tbin.Bin(nil)))), conv.Options{}, "none")
	// empty containers and nested structs
	es := tbin.StructS(tbin.SF(1, tbin.ListS(tbin.StructS(tbin.SF(1, tbin.MapS(tbin.Sc(tbin.I32), tbin.ListS(tbin.Sc(tbin.BOOL))))))))
	g2 := &tbin.Gen{}
	add("nested", es, g2.Build(es, 2), conv.Options{}, "none")
	return out
}

func enumBufSweep(tier string, part, parts int, yield func(*scen) bool) {
	kmax := 96
	if tier == "thorough" {
		kmax = 1024
	}
	for i, sc := range sweepMsgs() {
		if i%parts != part {
			continue
		}
		for k0 := 0; k0 <= kmax; k0 += 32 {
			c := *sc
			c.ks = nil
			if k0 == 0 {
				for u := 1; u <= 40; u++ {
					c.ks = append(c.ks, -u) // undersized: capacity 0..39
				}
			}
			for k := k0; k < k0+32 && k <= kmax; k++ {
				c.ks = append(c.ks, k)
			}
			c.note = fmt.Sprintf("capacity block %d", k0)
			if !yield(&c) {
				return
			}
		}
	}
}


// enumAfterFailure: a well-formed message converted right after a malformed one by the same converter (pooled
// protocol objects, requires bitmaps, buffers): every truncation of one encoded message and the same message with
// each byte position's type code / length damaged, each followed by two well-formed messages.
func enumAfterFailure(tier string, yield func(*scen) bool) {
	inner := tbin.StructS(tbin.SField{ID: 1, Name: "x", S: tbin.Sc(tbin.I32), Req: 1}, tbin.SField{ID: 3, Name: "y", S: tbin.Sc(tbin.STRING), Req: 2})
	root := tbin.StructS(tbin.SField{ID: 2, Name: "a", S: tbin.Sc(tbin.I32), Req: 1}, tbin.SField{ID: 4, Name: "b", S: tbin.Sc(tbin.STRING), Req: 2}, tbin.SField{ID: 300, Name: "c", S: inner},
		tbin.SField{ID: 6, Name: "l", S: tbin.ListS(inner), Req: 2}, tbin.SField{ID: 7, Name: "m", S: tbin.MapS(tbin.Sc(tbin.STRING), tbin.Sc(tbin.I64))})
	prog := jt.NewProg("after-failure", root)
	g := &tbin.Gen{}
	full := tbin.Bytes(g.Build(root, 2))
	var primes [][]byte
	for n := 0; n < len(full); n++ {
		primes = append(primes, append([]byte{}, full[:n]...))
	}
	for i := range full {
		d := append([]byte{}, full...)
		d[i] = 0xff
		primes = append(primes, d)
	}
	var follows []*tbin.Val
	for n := 1; n <= 2; n++ {
		g := &tbin.Gen{}
		follows = append(follows, g.Build(root, n))
	}
	for _, pr := range primes {
		for fi, v := range follows {
			sc := &scen{op: "after-failure", trigger: fmt.Sprintf("follow%d", fi), prog: prog, optName: "none", val: v, shape: root, prime: pr, ks: []int{0, 3}}
			if !yield(sc) {
				return
			}
		}
	}
}
