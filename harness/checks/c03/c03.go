// Package c03: Thrift->JSON conversion (conv/t2j BinaryConv.Do / DoInto) either fails or emits valid JSON
// that denotes exactly the encoded value — bounded-exhaustive over programs x messages x options x
// output-buffer capacities.
package c03

import (
	"github.com/cloudwego/dynamicgo/vsync"
	"bytes"
	"context"
	"fmt"

	"github.com/cloudwego/dynamicgo/conv"
	"github.com/cloudwego/dynamicgo/conv/t2j"
	"github.com/cloudwego/dynamicgo/thrift"
	"github.com/cloudwego/dynamicgo/thrift/base"

	"verif/checks/jt"
	"verif/engine/core"
	"verif/ref/poolpoison"
	"verif/ref/tbin"
)

type check struct{}

func init() { core.Register(check{}) }

func (check) ID() string    { return "C03" }
func (check) Level() string { return "exploration" }
func (check) Rule() string {
	return "bounded-exhaustive, simplest first: every scalar type x value alphabet (int boundaries; finite doubles incl. -0, subnormals, 1e21/1e-7 format switches, NaN/+-Inf classes; strings with controls, quotes, backslashes, U+2028/9, non-BMP, invalid UTF-8, lengths 7..65 and 127..4097 with a special rune at block boundaries; binaries of every base64 padding class) x position (field, list/set element, map value, map key, top level) x all 2^4 subsets of {Int642String, ByteAsUint8, NoBase64Binary, EnableValueMapping}; every shape of T(1) u T(2) x container size 0..3; unknown fields of 9 kinds at every position x {DisallowUnknownField, UseNativeSkip}; alias keys (api.key, go.tag, name-case); api.js_conv fields; response base extraction; ConvertException; all 2^8 option subsets on a mixed message; each message through Do and DoInto with cap = 2*len(src)+k for every k of the tier range and with undersized buffers. A case is one (program, message, option set); non-trivial when distinct by those. Later additions: histories of length 2, SetOptions twin, arena-backed DoInto buffers, api.js_conv structs below the root, overwriting of the pooled buffers right after Do. Round 11: every control character on its own (shared string alphabet)."
}

func (check) Assumptions() []string {
	return []string{
		"reference = encoding/json (validity via json.Valid, ordered parse via Decoder tokens with UseNumber), strconv/math/big for numbers, encoding/base64, and the ref/tbin model of the message the harness itself encoded",
		"an error return is always accepted (the statement allows failure); successful conversion of ordinary messages is demanded by C13 (round trips), not here",
		"struct members are compared as a multiset of (alias, value): the statement fixes the member set, wire order is demanded for lists, sets and maps",
		"strings that are not valid UTF-8 are checked for output validity only",
		"native amd64 build (go1.23)",
	}
}

func (check) BudgetSeconds(tier string) int {
	if tier == "thorough" {
		return 1500
	}
	return 200
}

type scen struct {
	op      string
	trigger string
	prog    *jt.Prog
	popts   thrift.Options
	copts   conv.Options
	optName string
	val     *tbin.Val // the message (model); encoded by tbin
	shape   *tbin.Shape
	unknown bool // message contains fields the descriptor does not declare
	baseID  int16
	withCtx bool // put a *base.BaseResp into the context
	baseVal *tbin.Val
	ks      []int
	note    string
	prime   []byte // if set: converted by the same converter right before the message, outcome ignored
}

type caseDesc struct {
	Family  string `json:"family"`
	Trigger string `json:"trigger"`
	IDL     string `json:"idl"`
	Parse   string `json:"parse_options"`
	Options string `json:"conv_options"`
	Msg     string `json:"thrift_hex"`
	Model   string `json:"model"`
	Ks      []int  `json:"dointo_extra_capacity,omitempty"`
	Note    string `json:"note,omitempty"`
}

func cliphex(b []byte, n int) string {
	if len(b) > n {
		return fmt.Sprintf("%x...(%d bytes)", b[:n], len(b))
	}
	return fmt.Sprintf("%x", b)
}
func clip(b []byte, n int) string {
	if len(b) > n {
		return fmt.Sprintf("%q...(%d bytes)", b[:n], len(b))
	}
	return fmt.Sprintf("%q", b)
}

func (s *scen) desc() interface{} {
	idl := s.prog.IDL()
	if len(idl) > 1500 {
		idl = idl[:1500] + "..."
	}
	m := s.val.String()
	if len(m) > 500 {
		m = m[:500] + "..."
	}
	ks := s.ks
	if len(ks) > 12 {
		ks = append(append([]int{}, ks[:6]...), ks[len(ks)-3:]...)
	}
	return caseDesc{Family: s.op, Trigger: s.trigger, IDL: idl, Parse: fmt.Sprintf("%+v", s.popts), Options: s.optName, Msg: cliphex(tbin.Bytes(s.val), 400), Model: m, Ks: ks, Note: s.note}
}

func evalOpt(o conv.Options) jt.EvalOpt {
	return jt.EvalOpt{Int642String: o.Int642String, ByteAsUint8: o.ByteAsUint8, NoBase64: o.NoBase64Binary, ValueMapping: o.EnableValueMapping}
}

// judge returns (outcome class, detail); "" = the statement holds for this result.
func (s *scen) judge(out []byte, err error, gotBase *base.BaseResp) (string, string) {
	if err != nil {
		return "", ""
	}
	if s.unknown && s.copts.DisallowUnknownField {
		return "unknown-field-accepted", fmt.Sprintf("DisallowUnknownField is set and the message has an undeclared field, but err=nil, output %s", clip(out, 200))
	}
	j, perr := jt.Parse(out)
	if perr != nil {
		return "malformed-json", fmt.Sprintf("nil error but output is not valid JSON (%v): %s", perr, clip(out, 300))
	}
	want := s.val
	if s.withCtx && s.copts.EnableThriftBase && s.baseID != 0 {
		// the response base is delivered through the context and absent from the JSON
		w := tbin.Struct()
		for _, f := range s.val.Fs {
			if f.ID == s.baseID {
				continue
			}
			w.Fs = append(w.Fs, f)
		}
		want = w
		if m := matchBase(gotBase, s.baseVal); m != "" {
			return "base-not-extracted", m
		}
	}
	if m := s.prog.Match(j, want, s.shape, evalOpt(s.copts)); m != nil {
		return "value:" + m.Trigger + "/" + m.Outcome, fmt.Sprintf("%s\noutput %s", m.Detail, clip(out, 300))
	}
	return "", ""
}

func matchBase(got *base.BaseResp, want *tbin.Val) string {
	if want == nil {
		return ""
	}
	if got == nil {
		return "no BaseResp in context"
	}
	msg, code := "", int32(0)
	var extra map[string]string
	for _, f := range want.Fs {
		switch f.ID {
		case 1:
			msg = string(f.V.S)
		case 2:
			code = int32(f.V.I)
		case 3:
			extra = map[string]string{}
			for i := range f.V.L {
				extra[string(f.V.K[i].S)] = string(f.V.L[i].S)
			}
		}
	}
	if got.StatusMessage != msg || got.StatusCode != code || len(got.Extra) != len(extra) {
		return fmt.Sprintf("context BaseResp = {%q,%d,%v}, want {%q,%d,%v}", got.StatusMessage, got.StatusCode, got.Extra, msg, code, extra)
	}
	for k, v := range extra {
		if got.Extra[k] != v {
			return fmt.Sprintf("context BaseResp.Extra[%q]=%q want %q", k, got.Extra[k], v)
		}
	}
	return ""
}

func (s *scen) run() core.Result {
	msg := tbin.Bytes(s.val)
	r := core.Result{Class: "ok", Key: fmt.Sprintf("%s|%s|%s|%s|%x", s.op, s.trigger, s.prog.Name, s.optName, msg)}
	if len(r.Key) > 400 {
		r.Key = r.Key[:200] + fmt.Sprintf("#%d#", len(msg)) + r.Key[len(r.Key)-150:]
	}
	_, desc, err := s.prog.Descs(s.popts)
	if s.shape != s.prog.Root {
		err = fmt.Errorf("scenario shape is not the program root")
	}
	if err != nil {
		r.Class = "idl-error"
		r.Add(s.op+"|idl|parse-error", "harness-generated IDL rejected: %v", err)
		return r
	}
	cv := t2j.NewBinaryConv(s.copts)
	mkctx := func() (context.Context, *base.BaseResp) {
		ctx := context.Background()
		if s.withCtx {
			b := base.NewBaseResp()
			return context.WithValue(ctx, conv.CtxKeyThriftRespBase, b), b
		}
		return ctx, nil
	}
	src := append([]byte{}, msg...)
	var out []byte
	var cerr error
	if s.prime != nil {
		pctx, _ := mkctx()
		core.Catch(func() { cv.Do(pctx, desc, append([]byte{}, s.prime...)) })
		r.Key += fmt.Sprintf("|after:%x", s.prime)
	}
	ctx, gb := mkctx()
	pi := core.Catch(func() { out, cerr = cv.Do(ctx, desc, src) })
	r.Count("conversions", 1)
	if pi != nil {
		r.Class = "panic"
		r.Add(fmt.Sprintf("t2j.Do|%s|%s|panic@%s:%s", s.op, s.trigger, pi.Site, core.PanicClass(pi.Val)), "msg %s\npanic: %.300s\n%.1500s", cliphex(msg, 200), pi.Val, pi.Stack)
		return r
	}
	{
		// the same conversion with every pool of the library empty (all pooled objects fresh from their constructors)
		vsync.Controlled = true
		vsync.Reset()
		var o4 []byte
		var e4 error
		ctx4, _ := mkctx()
		pi4 := core.Catch(func() { o4, e4 = cv.Do(ctx4, desc, append([]byte{}, msg...)) })
		vsync.Reset()
		vsync.Controlled = false
		r.Count("conversions", 1)
		if pi4 != nil {
			r.Class = "panic"
			r.Add(fmt.Sprintf("t2j.Do|%s|fresh-pooled-objects|panic@%s:%s", s.op, pi4.Site, core.PanicClass(pi4.Val)), "msg %s\npanic: %.300s", cliphex(msg, 200), pi4.Val)
			return r
		}
		if (e4 == nil) != (cerr == nil) || (e4 == nil && !bytes.Equal(o4, out)) {
			r.Class = "violation"
			r.Add(fmt.Sprintf("t2j.Do|%s|%s|differs-with-fresh-pooled-objects", s.op, s.trigger), "options %s\nmsg %s\nwith the pooled objects of this process: %s err=%v\nwith fresh ones: %s err=%v", s.optName, cliphex(msg, 200), clip(out, 200), cerr, clip(o4, 200), e4)
		}
	}
	if cerr == nil && poolpoison.Aliased(out) {
		r.Class = "violation"
		r.Add(fmt.Sprintf("t2j.Do|%s|result-aliases-pooled-buffer", s.op), "trigger %s, options %s: the %d bytes returned by Do change when the buffers in the converters' pool are overwritten\nmsg %s", s.trigger, s.optName, len(out), cliphex(msg, 200))
	}
	if oc, det := s.judge(out, cerr, gb); oc != "" {
		r.Class = "violation"
		r.Add(fmt.Sprintf("t2j.Do|%s|%s|%s", s.op, s.trigger, oc), "options %s\nmodel %.300s\nmsg %s\n%s", s.optName, s.val.String(), cliphex(msg, 200), det)
		return r
	}
	if cerr != nil {
		r.Class = "error"
	}
	// the same options reached through SetOptions on a converter built with the complementary ones
	{
		c := s.copts
		alt := conv.Options{EnableValueMapping: !c.EnableValueMapping, EnableThriftBase: !c.EnableThriftBase, Int642String: !c.Int642String, NoBase64Binary: !c.NoBase64Binary,
			ByteAsUint8: !c.ByteAsUint8, DisallowUnknownField: !c.DisallowUnknownField, UseNativeSkip: !c.UseNativeSkip, ConvertException: c.ConvertException}
		cv2 := t2j.NewBinaryConv(alt)
		cv2.SetOptions(s.copts)
		var o2 []byte
		var e2 error
		ctx2, _ := mkctx()
		pi2 := core.Catch(func() { o2, e2 = cv2.Do(ctx2, desc, append([]byte{}, msg...)) })
		r.Count("conversions", 1)
		if pi2 != nil {
			r.Class = "panic"
			r.Add(fmt.Sprintf("t2j.SetOptions+Do|%s|panic@%s:%s", s.op, pi2.Site, core.PanicClass(pi2.Val)), "msg %s\npanic: %.300s", cliphex(msg, 200), pi2.Val)
			return r
		}
		if (e2 == nil) != (cerr == nil) || (e2 == nil && !bytes.Equal(o2, out)) {
			r.Class = "violation"
			r.Add(fmt.Sprintf("t2j.SetOptions+Do|%s|differs-from-converter-built-with-the-options", s.op), "options %s\nmsg %s\nNewBinaryConv(opts): %s err=%v\nSetOptions(opts):    %s err=%v", s.optName, cliphex(msg, 200), clip(out, 200), cerr, clip(o2, 200), e2)
		}
	}
	for _, k := range s.ks {
		c := 2*len(src) + k
		if k < 0 {
			c = -k - 1 // undersized buffers: capacity 0, 1, 2, ...
		}
		// the buffer is the front of an arena whose rest is 0xAA: nothing may be written behind the capacity
		arena := make([]byte, c+96)
		for i := c; i < len(arena); i++ {
			arena[i] = 0xAA
		}
		buf := arena[:0:c]
		var e2 error
		ctx, gb := mkctx()
		pi := core.Catch(func() { e2 = cv.DoInto(ctx, desc, src, &buf) })
		r.Count("conversions", 1)
		r.Count("dointo_runs", 1)
		for i := c; i < len(arena); i++ {
			if arena[i] != 0xAA {
				r.Class = "violation"
				r.Add(fmt.Sprintf("t2j.DoInto|%s|writes-beyond-capacity", s.op), "trigger %s, options %s, buffer with len 0 and cap %d: byte cap+%d overwritten (%x)\nmsg %s", s.trigger, s.optName, c, i-c, arena[i], cliphex(msg, 200))
				break
			}
		}
		if pi != nil {
			r.Class = "panic"
			r.Add(fmt.Sprintf("t2j.DoInto|%s|panic@%s:%s", s.op, pi.Site, core.PanicClass(pi.Val)), "trigger %s, capacity %d, msg %s\npanic: %.300s\n%.1500s", s.trigger, c, cliphex(msg, 200), pi.Val, pi.Stack)
			return r
		}
		if cap(buf) != c {
			r.Count("dointo_buffer_grown", 1)
		}
		if e2 == nil && poolpoison.Aliased(buf) {
			r.Class = "violation"
			r.Add(fmt.Sprintf("t2j.DoInto|%s|result-aliases-pooled-buffer", s.op), "trigger %s, options %s, capacity %d: the %d bytes DoInto left in the caller's buffer change when the pooled buffers are overwritten\nmsg %s", s.trigger, s.optName, c, len(buf), cliphex(msg, 200))
		}
		if oc, det := s.judge(buf, e2, gb); oc != "" {
			r.Class = "violation"
			r.Add(fmt.Sprintf("t2j.DoInto|%s|capacity-dependent:%s", s.op, oc), "trigger %s, options %s, initial capacity %d (2*len(src)%+d)\nmsg %s\n%s", s.trigger, s.optName, c, k, cliphex(msg, 200), det)
			break
		}
		if (e2 == nil) != (cerr == nil) || (e2 == nil && !bytes.Equal(buf, out)) {
			r.Class = "violation"
			r.Add(fmt.Sprintf("t2j.DoInto|%s|capacity-dependent:differs-from-Do", s.op), "trigger %s, options %s, initial capacity %d\nmsg %s\nDo: %s err=%v\nDoInto: %s err=%v", s.trigger, s.optName, c, cliphex(msg, 200), clip(out, 200), cerr, clip(buf, 200), e2)
			break
		}
	}
	if !bytes.Equal(src, msg) {
		r.Count("input_modified", 1)
	}
	return r
}

func (s *scen) Case() core.Case {
	return core.Case{Tag: s.op + ":" + s.trigger, Desc: s.desc, Run: s.run}
}

type group struct {
	name string
	enum func(tier string, yield func(*scen) bool)
}

func (check) Groups(tier string, seed int64) []string {
	var n []string
	for _, g := range groups(tier) {
		n = append(n, g.name)
	}
	return n
}

func (check) Enumerate(tier string, seed int64, g int, yield func(core.Case) bool) {
	jt.EnableAGW()
	groups(tier)[g].enum(tier, func(s *scen) bool { return yield(s.Case()) })
}

func (check) SelfCheck() error { return jt.SelfCheck() }

func ksFor(tier string, small bool) []int {
	if small {
		if tier == "thorough" {
			return []int{-1, -2, -17, 0, 1, 2, 3, 4, 5, 6, 7, 8, 9, 15, 16, 17, 31, 32, 33}
		}
		return []int{-1, 0, 1, 2, 3, 5, 8}
	}
	n := 40
	if tier == "thorough" {
		n = 128
	}
	ks := []int{-1, -2, -9}
	for k := 0; k <= n; k++ {
		ks = append(ks, k)
	}
	return ks
}
