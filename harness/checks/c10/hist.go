package c10

import (
	"bytes"
	"fmt"
	"math"
	"strings"
	"unicode/utf8"

	dproto "github.com/cloudwego/dynamicgo/proto"
	"github.com/cloudwego/dynamicgo/proto/generic"
	gpw "google.golang.org/protobuf/encoding/protowire"

	"verif/engine/core"
	"verif/ref/pbref"
)

type state struct {
	name string
	s    *pbref.Schema
	v    *pbref.Val
}

var stateCache []state

func initialStates() []state {
	if stateCache != nil {
		return stateCache
	}
	var out []state
	add := func(name string, s *pbref.Schema, v *pbref.Val) { out = append(out, state{name, s, v}) }
	i32 := func(x int64) *pbref.Val { return pbref.Int(pbref.KInt32, x) }
	str := pbref.Str

	// flat scalars
	sc := pbref.ProgScalars("low")
	f := func(s *pbref.Schema, name string) *pbref.Field { return s.Root.ByName(name) }
	add("scalars-varint-string-zigzag", sc, pbref.MsgVal(sc.Root).Set(f(sc, "f_int32"), i32(1)).Set(f(sc, "f_string"), str("s0")).Set(f(sc, "f_sint64"), pbref.Int(pbref.KSint64, -2)))
	add("scalars-bool-double-bytes-enum", sc, pbref.MsgVal(sc.Root).Set(f(sc, "f_bool"), pbref.Bool(true)).Set(f(sc, "f_double"), pbref.F64(1.5)).Set(f(sc, "f_bytes"), pbref.Bytes([]byte{1, 2})).Set(f(sc, "f_enum"), pbref.Int(pbref.KEnum, 1)))
	add("scalars-fixed", sc, pbref.MsgVal(sc.Root).Set(f(sc, "f_fixed32"), pbref.Scalar(pbref.KFixed32, 7)).Set(f(sc, "f_sfixed64"), pbref.Int(pbref.KSfixed64, -7)).Set(f(sc, "f_float"), pbref.F32(2)))
	st := pbref.ProgScalars("tags")
	add("scalars-2byte-tags", st, pbref.MsgVal(st.Root).Set(f(st, "f_uint32"), pbref.Scalar(pbref.KUint32, 200)).Set(f(st, "f_int64"), pbref.Int(pbref.KInt64, -1)).Set(f(st, "f_string"), str("t")))

	// lists
	ls := pbref.ProgLists("low")
	add("lists-packed-varint+strings", ls, pbref.MsgVal(ls.Root).Set(f(ls, "r_int32"), pbref.ListVal(f(ls, "r_int32"), 3)).Set(f(ls, "r_string"), pbref.ListVal(f(ls, "r_string"), 3)))
	add("lists-packed-fixed+zigzag", ls, pbref.MsgVal(ls.Root).Set(f(ls, "r_fixed32"), pbref.ListVal(f(ls, "r_fixed32"), 2)).Set(f(ls, "r_sint64"), pbref.ListVal(f(ls, "r_sint64"), 2)).Set(f(ls, "r_double"), pbref.ListVal(f(ls, "r_double"), 2)))
	add("lists-messages+bytes", ls, pbref.MsgVal(ls.Root).Set(f(ls, "r_msg"), pbref.ListVal(f(ls, "r_msg"), 3)).Set(f(ls, "r_bytes"), pbref.ListVal(f(ls, "r_bytes"), 2)))

	// a packed list as the LAST field whose last element is one byte long: replacing an earlier element leaves a
	// one-byte tail behind the replaced node (added after mutant replace-drops-1byte-tail slipped through)
	pi32 := pbref.ListOf(f(ls, "r_int32"), pbref.Int(pbref.KInt32, 300), pbref.Int(pbref.KInt32, 1))
	add("lists-packed-1byte-tail", ls, pbref.MsgVal(ls.Root).Set(f(ls, "r_int32"), pi32))

	// maps
	for _, k := range []pbref.Kind{pbref.KString, pbref.KInt32, pbref.KSint64, pbref.KUint32, pbref.KFixed32} {
		ms := pbref.ProgMaps(k)
		fi := ms.Root.ByName(fmt.Sprintf("m_%s_int32", k))
		fs := ms.Root.ByName(fmt.Sprintf("m_%s_string", k))
		fm := ms.Root.ByName(fmt.Sprintf("m_%s_msg", k))
		add("maps-"+k.String()+"-scalars", ms, pbref.MsgVal(ms.Root).Set(fi, pbref.MapVal(fi, 2)).Set(fs, pbref.MapVal(fs, 2)))
		add("maps-"+k.String()+"-messages", ms, pbref.MsgVal(ms.Root).Set(fm, pbref.MapVal(fm, 3)))
	}

	// nested
	ns := pbref.ProgNested()
	root := ns.Root
	fa, fra, fma, fmi, fr, fx, ftail, fe := root.ByName("a"), root.ByName("ra"), root.ByName("ma"), root.ByName("mi"), root.ByName("r"), root.ByName("x"), root.ByName("tail"), root.ByName("e")
	sub1 := fa.Msg
	sub2 := sub1.ByName("d").Msg
	rec := fr.Msg
	S1 := func(kv ...interface{}) *pbref.Val {
		m := pbref.MsgVal(sub1)
		for i := 0; i < len(kv); i += 2 {
			m.Set(sub1.ByName(kv[i].(string)), kv[i+1].(*pbref.Val))
		}
		return m
	}
	S2 := func(kv ...interface{}) *pbref.Val {
		m := pbref.MsgVal(sub2)
		for i := 0; i < len(kv); i += 2 {
			m.Set(sub2.ByName(kv[i].(string)), kv[i+1].(*pbref.Val))
		}
		return m
	}
	R := func(kv ...interface{}) *pbref.Val {
		m := pbref.MsgVal(rec)
		for i := 0; i < len(kv); i += 2 {
			m.Set(rec.ByName(kv[i].(string)), kv[i+1].(*pbref.Val))
		}
		return m
	}
	T := func(kv ...interface{}) *pbref.Val {
		m := pbref.MsgVal(root)
		for i := 0; i < len(kv); i += 2 {
			m.Set(kv[i].(*pbref.Field), kv[i+1].(*pbref.Val))
		}
		return m
	}
	pl, sm := sub1.ByName("pl"), sub1.ByName("sm")
	ints := func(fl *pbref.Field, xs ...int64) *pbref.Val {
		l := pbref.ListOf(fl)
		for _, x := range xs {
			l.L = append(l.L, pbref.Int(fl.Kind, x))
		}
		return l
	}
	add("nested-depth3", ns, T(fa, S1("i", i32(5), "s", str("sub"), "d", S2("z", pbref.Int(pbref.KSint32, -3), "b", pbref.Bytes([]byte{9}))), fx, i32(6)))
	// sub-message a has length 127 (125 chars + 2): one more byte needs a 2-byte prefix; x follows it
	add("nested-len127", ns, T(fa, S1("s", str(strings.Repeat("m", 125))), fx, i32(1)))
	add("nested-len128", ns, T(fa, S1("s", str(strings.Repeat("m", 126))), fx, i32(1)))
	// two levels at the boundary: d = 127 bytes, a = 130 bytes
	add("nested-len127-depth2", ns, T(fa, S1("d", S2("b", pbref.Bytes(bytes.Repeat([]byte{7}, 125)))), ftail, str("t")))
	add("nested-len16383", ns, T(fa, S1("s", str(strings.Repeat("L", 16380))), fx, i32(1)))
	// sub-message a = 16385 bytes (3-byte prefix 81 80 01): removing 2 bytes needs a 2-byte prefix again
	add("nested-len16385", ns, T(fa, S1("i", i32(1), "s", str(strings.Repeat("L", 16380))), fx, i32(1)))
	add("nested-list-of-messages", ns, T(fra, pbref.ListOf(fra, S1("i", i32(1)), S1("s", str("z")), S1()), ftail, str("t")))
	// packed lists inside the elements of an unpacked list of messages (two list levels in one path; added after seed C10-11)
	add("nested-list-of-messages-with-packed-lists", ns, T(fra, pbref.ListOf(fra, S1("pl", ints(pl, 1, 2)), S1("i", i32(4), "pl", ints(pl, 3, 300)), S1("zl", ints(sub1.ByName("zl"), -1, 70000))), ftail, str("t")))
	add("nested-strmap-of-messages", ns, T(fma, pbref.MapOf(fma).Put(str("k"), S1("i", i32(1), "pl", ints(pl, 1, 2))).Put(str("j"), S1("s", str("v")))))
	add("nested-intmap-of-messages", ns, T(fmi, pbref.MapOf(fmi).Put(i32(5), S1("s", str("v"), "sm", pbref.MapOf(sm).Put(str("k"), i32(1)))), fx, i32(2)))
	// map ENTRIES at the 1->2 byte length-prefix boundary that are not the first entry on the wire: entry "k" has a
	// payload of 127 bytes (2+1+2+122), entry "m" of 128; growing / shrinking their values by one byte changes the
	// width of the entry's own prefix (added after seed C10-6)
	{
		ms := pbref.ProgMaps(pbref.KString)
		fss := ms.Root.ByName("m_string_string")
		add("maps-string-entry-len127+128", ms, pbref.MsgVal(ms.Root).Set(fss, pbref.MapOf(fss).Put(str("a"), str("v")).Put(str("k"), str(strings.Repeat("e", 122))).Put(str("m"), str(strings.Repeat("f", 123)))))
	}
	// the same one level down: entry 5 of map<int32,Sub1> is 127 bytes (1+1+1+1+123), entry 9 is 128
	add("nested-intmap-entry-len127+128", ns, T(fmi, pbref.MapOf(fmi).Put(i32(1), S1("i", i32(1))).Put(i32(5), S1("s", str(strings.Repeat("g", 121)))).Put(i32(9), S1("s", str(strings.Repeat("h", 122)))), fx, i32(2)))
	add("nested-recursive-chain", ns, T(fr, R("v", i32(1), "next", R("v", i32(2), "next", R("v", i32(3))))))
	add("nested-recursive-list", ns, T(fr, R("kids", pbref.ListOf(rec.ByName("kids"), R("v", i32(1)), R("v", i32(2)))), fe, pbref.MsgVal(fe.Msg)))
	add("nested-empty-messages", ns, T(fa, S1(), fe, pbref.MsgVal(fe.Msg), fx, i32(3)))
	// message-typed / repeated / map fields with numbers >= 64 (added after seed C10-9), and inner containers that
	// are the last field of their message and are followed by the enclosing message's field of the same number
	// (added after seed C10-10)
	{
		hs := pbref.ProgHigh()
		node := hs.Root.ByName("n").Msg
		N := func(kv ...interface{}) *pbref.Val {
			m := pbref.MsgVal(node)
			for i := 0; i < len(kv); i += 2 {
				m.Set(node.ByName(kv[i].(string)), kv[i+1].(*pbref.Val))
			}
			return m
		}
		H := func(n *pbref.Val) *pbref.Val {
			return pbref.MsgVal(hs.Root).Set(hs.Root.ByName("lo"), i32(1)).Set(hs.Root.ByName("n"), n)
		}
		kids, km := node.ByName("kids"), node.ByName("km")
		add("high-message-fields", hs, H(N("v", i32(1), "m63", N("v", i32(2), "s", str("a")), "m64", N("v", i32(4), "s", str("b")), "m255", N("v", i32(6), "s", str("c"), "m64", N("v", i32(7))))))
		add("high-adjacent-lists", hs, H(N("kids", pbref.ListOf(kids, N("kids", pbref.ListOf(kids, N("v", i32(1)))), N("v", i32(2))))))
		add("high-adjacent-maps", hs, H(N("km", pbref.MapOf(km).Put(str("a"), N("km", pbref.MapOf(km).Put(str("b"), N("v", i32(1))))).Put(str("z"), N("v", i32(2))))))
	}
	stateCache = out
	return out
}

// ---- enabled operations

func altValues(v *pbref.Val) []*pbref.Val {
	k := v.Kind
	var c []*pbref.Val
	switch k {
	case pbref.KBool:
		c = []*pbref.Val{pbref.Bool(v.U == 0)}
	case pbref.KString:
		c = []*pbref.Val{pbref.Str(string(v.B) + "x")}
		if len(v.B) > 0 {
			_, sz := utf8.DecodeLastRune(v.B)
			c = append(c, pbref.Str(string(v.B[:len(v.B)-sz])), pbref.Str(""))
		}
	case pbref.KBytes:
		c = []*pbref.Val{pbref.Bytes(append(append([]byte{}, v.B...), 0xee))}
		if len(v.B) > 0 {
			c = append(c, pbref.Bytes(v.B[:len(v.B)-1]), pbref.Bytes(nil))
		}
	case pbref.KFloat:
		c = []*pbref.Val{pbref.F32(1.5), pbref.F32(0)}
	case pbref.KDouble:
		c = []*pbref.Val{pbref.F64(-2.5), pbref.F64(0)}
	case pbref.KEnum:
		c = []*pbref.Val{pbref.Int(k, 2), pbref.Int(k, -1), pbref.Int(k, 0)}
	case pbref.KFixed32, pbref.KFixed64, pbref.KUint32, pbref.KUint64:
		c = []*pbref.Val{pbref.Scalar(k, 1), pbref.Scalar(k, 300), pbref.Scalar(k, math.MaxUint64)}
	default:
		c = []*pbref.Val{pbref.Int(k, 1), pbref.Int(k, 300), pbref.Int(k, -1)}
	}
	var out []*pbref.Val
	for _, x := range c {
		if !pbref.Equal(x, v) {
			out = append(out, x)
		}
	}
	return out
}

func newElem(f *pbref.Field, i int) *pbref.Val {
	if f.Kind == pbref.KMessage {
		return pbref.ItemVal(f.Msg, i)
	}
	return pbref.Elem(f.Kind, i)
}

func ext(p []pbref.Step, s ...pbref.Step) []pbref.Step {
	return append(append([]pbref.Step{}, p...), s...)
}

// fieldOf returns the field descriptor a node at path p belongs to (last field step).
func fieldOf(p []pbref.Step) *pbref.Field {
	for i := len(p) - 1; i >= 0; i-- {
		if p[i].K == pbref.SField {
			return p[i].F
		}
	}
	return nil
}

func enabledOps(s *pbref.Schema, root *pbref.Val) []pbref.Op {
	var ops []pbref.Op
	pbref.Walk(root, func(p []pbref.Step, v *pbref.Val) {
		f := fieldOf(p)
		if len(p) > 0 {
			switch {
			case v.Card == pbref.Single && v.Kind != pbref.KMessage:
				for _, a := range altValues(v) {
					ops = append(ops, pbref.Op{Kind: pbref.OpSet, Path: p, Val: a})
				}
				if len(p) == 1 {
					if a := altValues(v); len(a) > 0 {
						ops = append(ops, pbref.Op{Kind: pbref.OpSet, Path: p, Val: a[0], ByName: true})
					}
				}
			case v.Card == pbref.Single:
				ops = append(ops, pbref.Op{Kind: pbref.OpSet, Path: p, Val: pbref.MsgVal(v.Msg)})
				if one := oneFieldMsg(v.Msg); one != nil && !pbref.Equal(one, v) {
					ops = append(ops, pbref.Op{Kind: pbref.OpSet, Path: p, Val: one})
				}
			}
			ops = append(ops, pbref.Op{Kind: pbref.OpUnset, Path: p})
		}
		switch {
		case v.Card == pbref.Repeated:
			ops = append(ops, pbref.Op{Kind: pbref.OpSet, Path: ext(p, pbref.Step{K: pbref.SIndex, I: len(v.L)}), Val: newElem(f, 1)})
			ops = append(ops, pbref.Op{Kind: pbref.OpSet, Path: ext(p, pbref.Step{K: pbref.SIndex, I: 1024}), Val: newElem(f, 3)})
			if len(p) >= 2 {
				// the same append below a sub-message that is entered by NAME
				ops = append(ops, pbref.Op{Kind: pbref.OpSet, Path: ext(p, pbref.Step{K: pbref.SIndex, I: len(v.L)}), Val: newElem(f, 1), ByName: true})
			}
			ops = append(ops, pbref.Op{Kind: pbref.OpSetMany, Path: p, Many: []pbref.ManyItem{
				{Step: pbref.Step{K: pbref.SIndex, I: 1024}, Val: newElem(f, 1)},
				{Step: pbref.Step{K: pbref.SIndex, I: 1024}, Val: newElem(f, 0)}}})
			if len(v.L) > 0 {
				// SetMany replacing the LAST element by one of another length together with an append
				ops = append(ops, pbref.Op{Kind: pbref.OpSetMany, Path: p, Many: []pbref.ManyItem{
					{Step: pbref.Step{K: pbref.SIndex, I: len(v.L) - 1}, Val: newElem(f, 3)},
					{Step: pbref.Step{K: pbref.SIndex, I: 1024}, Val: newElem(f, 1)}}})
			}
			if len(v.L) >= 2 {
				// SetMany replacing two present elements, requested in ascending and in descending index order
				a, b := pbref.ManyItem{Step: pbref.Step{K: pbref.SIndex, I: 0}, Val: newElem(f, 3)}, pbref.ManyItem{Step: pbref.Step{K: pbref.SIndex, I: len(v.L) - 1}, Val: newElem(f, 0)}
				ops = append(ops, pbref.Op{Kind: pbref.OpSetMany, Path: p, Many: []pbref.ManyItem{a, b}}, pbref.Op{Kind: pbref.OpSetMany, Path: p, Many: []pbref.ManyItem{b, a}})
			}
		case v.Card == pbref.Map:
			k := pbref.AbsentKey(v)
			if k != nil {
				ops = append(ops, pbref.Op{Kind: pbref.OpSet, Path: ext(p, pbref.Step{K: pbref.SKey, Key: k}), Val: newElem(f, 1)})
			}
			// keys that only an enclosing map of the same field has (recursive messages): absent here
			for j := 0; j+1 < len(p); j++ {
				if p[j].K != pbref.SField || p[j].F != f {
					continue
				}
				if outer := pbref.Resolve(root, p[:j+1]); outer != nil && outer.Card == pbref.Map {
					for _, ok := range outer.MK {
						if pbref.Child(v, pbref.Step{K: pbref.SKey, Key: ok}) == nil {
							ops = append(ops, pbref.Op{Kind: pbref.OpSet, Path: ext(p, pbref.Step{K: pbref.SKey, Key: ok}), Val: newElem(f, 1)},
								pbref.Op{Kind: pbref.OpSet, Path: ext(p, pbref.Step{K: pbref.SKey, Key: ok}), Val: newElem(f, 1), ByName: true})
						}
					}
				}
			}
			// SetMany on the map: replace the value of the LAST present key by one of another length, alone, together
			// with an insertion, and in both request orders
			if n := len(v.MK); n > 0 {
				var repl *pbref.Val
				if v.Kind == pbref.KMessage {
					if one := oneFieldMsg(v.Msg); one != nil && !pbref.Equal(one, v.MV[n-1]) {
						repl = one
					} else {
						repl = pbref.MsgVal(v.Msg)
					}
				} else if a := altValues(v.MV[n-1]); len(a) > 0 {
					repl = a[0]
				}
				if repl != nil {
					items := []pbref.ManyItem{{Step: pbref.Step{K: pbref.SKey, Key: v.MK[n-1]}, Val: repl}}
					ops = append(ops, pbref.Op{Kind: pbref.OpSetMany, Path: p, Many: items})
					if k != nil {
						ins := pbref.ManyItem{Step: pbref.Step{K: pbref.SKey, Key: k}, Val: newElem(f, 1)}
						ops = append(ops, pbref.Op{Kind: pbref.OpSetMany, Path: p, Many: []pbref.ManyItem{items[0], ins}},
							pbref.Op{Kind: pbref.OpSetMany, Path: p, Many: []pbref.ManyItem{ins, items[0]}})
					}
				}
			}
		case v.Kind == pbref.KMessage:
			n := 0
			var absent []*pbref.Field
			for _, fd := range v.Msg.Fields {
				if v.Get(fd.Num) != nil || fd.Card != pbref.Single {
					continue
				}
				absent = append(absent, fd)
				if n < 2 {
					n++
					ops = append(ops, pbref.Op{Kind: pbref.OpSet, Path: ext(p, pbref.Step{K: pbref.SField, F: fd}), Val: newElem(fd, 1)})
					if len(p) == 0 && n == 1 {
						ops = append(ops, pbref.Op{Kind: pbref.OpSet, Path: ext(p, pbref.Step{K: pbref.SField, F: fd}), Val: newElem(fd, 1), ByName: true})
					}
				}
			}
			if len(absent) > 0 {
				ops = append(ops, pbref.Op{Kind: pbref.OpUnset, Path: ext(p, pbref.Step{K: pbref.SField, F: absent[len(absent)-1]})})
			}
			// SetMany on this message: replace the first present scalar field and insert the first absent one
			var present *pbref.FV
			for i := range v.Fs {
				if v.Fs[i].V.Card == pbref.Single && v.Fs[i].V.Kind != pbref.KMessage {
					present = &v.Fs[i]
					break
				}
			}
			var items []pbref.ManyItem
			if present != nil {
				if a := altValues(present.V); len(a) > 0 {
					items = append(items, pbref.ManyItem{Step: pbref.Step{K: pbref.SField, F: present.F}, Val: a[0]})
				}
			}
			if len(absent) > 0 {
				items = append(items, pbref.ManyItem{Step: pbref.Step{K: pbref.SField, F: absent[0]}, Val: newElem(absent[0], 1)})
			}
			// SetMany replacing the LAST present message-typed field by a smaller message
			for i := len(v.Fs) - 1; i >= 0; i-- {
				if fv := v.Fs[i]; fv.V.Card == pbref.Single && fv.V.Kind == pbref.KMessage {
					repl := oneFieldMsg(fv.V.Msg)
					if repl == nil || pbref.Equal(repl, fv.V) {
						repl = pbref.MsgVal(fv.V.Msg)
					}
					if !pbref.Equal(repl, fv.V) {
						ops = append(ops, pbref.Op{Kind: pbref.OpSetMany, Path: p, Many: []pbref.ManyItem{{Step: pbref.Step{K: pbref.SField, F: fv.F}, Val: repl}}})
					}
					break
				}
			}
			if len(items) > 0 {
				ops = append(ops, pbref.Op{Kind: pbref.OpSetMany, Path: p, Many: items})
				if len(items) == 2 {
					ops = append(ops, pbref.Op{Kind: pbref.OpSetMany, Path: p, Many: []pbref.ManyItem{items[1], items[0]}})
				}
			}
		}
	})
	return ops
}

func oneFieldMsg(m *pbref.Message) *pbref.Val {
	for _, f := range m.Fields {
		if f.Card == pbref.Single && f.Kind != pbref.KMessage {
			return pbref.MsgVal(m).Set(f, pbref.Elem(f.Kind, 3))
		}
	}
	return nil
}

// ---- running an operation on the implementation

func gpath(steps []pbref.Step, byName bool) []generic.Path {
	out := make([]generic.Path, 0, len(steps))
	for _, s := range steps {
		switch s.K {
		case pbref.SField:
			if byName {
				out = append(out, generic.NewPathFieldName(s.F.Name))
			} else {
				out = append(out, generic.NewPathFieldId(dproto.FieldNumber(s.F.Num)))
			}
		case pbref.SIndex:
			out = append(out, generic.NewPathIndex(s.I))
		default:
			if s.Key.Kind == pbref.KString {
				out = append(out, generic.NewPathStrKey(string(s.Key.B)))
			} else {
				out = append(out, generic.NewPathIntKey(pbref.KeyInt(s.Key)))
			}
		}
	}
	return out
}

func nodeOf(s *pbref.Schema, v *pbref.Val) generic.Node {
	switch v.Kind {
	case pbref.KBool:
		return generic.NewNodeBool(v.U != 0)
	case pbref.KInt32:
		return generic.NewNodeInt32(int32(v.U))
	case pbref.KSint32:
		return generic.NewNodeSint32(int32(v.U))
	case pbref.KSfixed32:
		return generic.NewNodeSfixed32(int32(v.U))
	case pbref.KUint32:
		return generic.NewNodeUint32(uint32(v.U))
	case pbref.KFixed32:
		return generic.NewNodeFixed32(uint32(v.U))
	case pbref.KInt64:
		return generic.NewNodeInt64(int64(v.U))
	case pbref.KSint64:
		return generic.NewNodeSint64(int64(v.U))
	case pbref.KSfixed64:
		return generic.NewNodeSfixed64(int64(v.U))
	case pbref.KUint64:
		return generic.NewNodeUint64(v.U)
	case pbref.KFixed64:
		return generic.NewNodeFixed64(v.U)
	case pbref.KFloat:
		return generic.NewNodeFloat(v.Float32())
	case pbref.KDouble:
		return generic.NewNodeDouble(v.Float64())
	case pbref.KString:
		return generic.NewNodeString(string(v.B))
	case pbref.KBytes:
		return generic.NewNodeBytes(v.B)
	case pbref.KEnum:
		return generic.NewNodeEnum(int32(v.U))
	case pbref.KMessage:
		return generic.NewNode(dproto.MESSAGE, gpw.AppendBytes(nil, s.Encode(v)))
	}
	panic("nodeOf " + v.Kind.String())
}

func wrap(d *dproto.TypeDescriptor, b []byte) generic.Value {
	in := make([]byte, len(b), len(b)+64)
	copy(in, b)
	return generic.NewRootValue(d, in)
}

// execOp runs one operation; returns the resulting bytes.
// twinChanged: set by execOp when a SECOND root value over the same bytes (created before the operation, never
// edited itself) no longer holds the bytes it was created from.
var twinChanged string

func execOp(s *pbref.Schema, d *dproto.TypeDescriptor, in []byte, op pbref.Op) (out []byte, existed bool, err error, pi *core.PanicInfo) {
	v := wrap(d, in)
	twin := v // NewRootValue does not copy: both values share the buffer
	twinChanged = ""
	defer func() {
		if tb := twin.Raw(); !bytes.Equal(tb, in) {
			twinChanged = fmt.Sprintf("%x", tb)
		}
	}()
	pi = core.Catch(func() {
		switch op.Kind {
		case pbref.OpSet:
			existed, err = v.SetByPath(nodeOf(s, op.Val), gpath(op.Path, op.ByName)...)
		case pbref.OpUnset:
			err = v.UnsetByPath(gpath(op.Path, op.ByName)...)
		case pbref.OpSetMany:
			pns := make([]generic.PathNode, len(op.Many))
			for i, m := range op.Many {
				pns[i] = generic.PathNode{Path: gpath([]pbref.Step{m.Step}, false)[0], Node: nodeOf(s, m.Val)}
			}
			opts := &generic.Options{}
			if len(op.Path) == 0 {
				err = v.SetMany(pns, opts, &v, []int{}, []generic.Path{}...)
			} else {
				gp := gpath(op.Path, false)
				pv, addr := v.GetByPathWithAddress(gp...)
				if pv.IsError() {
					err = fmt.Errorf("parent lookup failed: %s", pv.Error())
					return
				}
				// protocol of the repo's own tests: one extra (flag) element at the end of address and path
				err = pv.SetMany(pns, opts, &v, append(addr, 0), append(gp, pns[0].Path)...)
			}
		}
		out = append([]byte{}, v.Raw()...)
	})
	return
}

// ---- trigger classes (root-cause features of the edited path, as in C07)

func isFixedKey(k pbref.Kind) bool { return k == pbref.KFixed32 || k == pbref.KFixed64 }

func coarse(v *pbref.Val) string {
	switch {
	case v.Card == pbref.Repeated:
		if v.Kind.Packable() {
			return "packed-list"
		}
		return "list"
	case v.Card == pbref.Map:
		return "map"
	case v.Kind == pbref.KMessage:
		if len(v.Fs) == 0 {
			return "empty-message"
		}
		return "message"
	}
	switch v.Kind {
	case pbref.KString, pbref.KBytes:
		return "bytes-scalar"
	case pbref.KFixed32, pbref.KSfixed32, pbref.KFloat, pbref.KFixed64, pbref.KSfixed64, pbref.KDouble:
		return "fixed-scalar"
	}
	return "varint-scalar"
}

// bait: the container node v (held by field f of message type holder) is directly followed in buf by a tag with its
// own field number (a field of an enclosing message with the same number) - see C07 root cause E.
func bait(s *pbref.Schema, buf []byte, v *pbref.Val, holder *pbref.Message, f *pbref.Field) bool {
	if v == nil || v.Card == pbref.Single || f == nil {
		return false
	}
	exp := s.NodeBytes(v, holder, f, false)
	i := bytes.Index(buf, exp)
	if i < 0 || len(exp) == 0 {
		return false
	}
	num, _, n := gpw.ConsumeTag(buf[i+len(exp):])
	return n > 0 && int32(num) == f.Num
}

func packedFixedWidth(v *pbref.Val) bool {
	return v != nil && v.Card == pbref.Repeated && v.Kind.Packable() && v.Kind.Wire() != 0
}

// emptied reports whether the edit turns a non-root sub-message that had fields into an empty one.
func emptied(before, after *pbref.Val) bool {
	found := false
	pbref.Walk(after, func(p []pbref.Step, x *pbref.Val) {
		if len(p) == 0 || found || x.Card != pbref.Single || x.Kind != pbref.KMessage || len(x.Fs) != 0 {
			return
		}
		if b := pbref.Resolve(before, p); b != nil && b.Card == pbref.Single && b.Kind == pbref.KMessage && len(b.Fs) > 0 {
			found = true
		}
	})
	return found
}

// bigParent: the message holding the target is a non-root message whose encoding needs a length prefix of >= 3 bytes.
func bigParent(s *pbref.Schema, root *pbref.Val, full []pbref.Step) bool {
	pv := pbref.Resolve(root, full[:len(full)-1])
	if pv == nil || pv.Card != pbref.Single || pv.Kind != pbref.KMessage {
		return false
	}
	return len(s.Encode(pv)) >= 16384
}

// opTrigger classifies an operation in a model state by the construct its path touches (root-cause features first).
func opTrigger(s *pbref.Schema, root *pbref.Val, buf []byte, op pbref.Op, after *pbref.Val) string {
	kind := [...]string{"Set", "Unset", "SetMany"}[op.Kind]
	full := op.Path
	if op.Kind == pbref.OpSetMany && len(op.Many) > 0 {
		full = ext(op.Path, op.Many[0].Step)
	}
	target := pbref.Resolve(root, full)
	presence := "present"
	if target == nil {
		presence = "absent"
	}
	v := root
	holder := s.Root
	var curField *pbref.Field
	idx0, idxLen, fixedKey, throughMap, insertKey, elemGE1, packedFixed, baited := false, false, false, false, false, false, false, false
	for i, st := range full {
		if v == nil {
			break
		}
		last := i == len(full)-1
		switch st.K {
		case pbref.SField:
			curField = st.F
			if v.Card == pbref.Single && v.Kind == pbref.KMessage {
				holder = v.Msg
			}
		case pbref.SKey:
			if isFixedKey(v.Key) {
				fixedKey = true
			}
			if last && target == nil {
				insertKey = true
			} else {
				throughMap = true
			}
			if bait(s, buf, v, holder, curField) {
				baited = true
			}
		case pbref.SIndex:
			if v.Card == pbref.Repeated {
				if !v.Kind.Packable() && st.I == 0 {
					idx0 = true
				}
				if !v.Kind.Packable() && st.I >= 1 && st.I < len(v.L) {
					elemGE1 = true
				}
				if st.I == len(v.L) && last {
					idxLen = true
				}
				if packedFixedWidth(v) && (op.Kind == pbref.OpUnset || op.Kind == pbref.OpSetMany) {
					packedFixed = true
				}
				if bait(s, buf, v, holder, curField) {
					baited = true
				}
			}
		}
		v = pbref.Child(v, st)
	}
	feat := ""
	switch {
	case fixedKey:
		feat = "fixed-key-map"
	case idx0:
		feat = "via-unpacked-index0"
	case idxLen:
		feat = "index=len"
	case packedFixed:
		feat = "packed-fixedwidth-list"
	case baited:
		feat = "container-then-same-number-in-parent"
	case insertKey:
		feat = "insert-map-key"
	case throughMap:
		feat = "through-map-entry"
	case elemGE1:
		feat = "through-unpacked-element>=1"
	case after != nil && emptied(root, after):
		feat = "submessage-becomes-empty"
	case op.Kind == pbref.OpUnset && len(full) > 1 && bigParent(s, root, full):
		// findDeleteChild initialises `start` with the payload length but compares it with offsets that include the
		// length prefix: the last field is cut one byte early when it is shorter than the (>=3-byte) prefix
		feat = "unset-in-submessage>=16KiB"
	}
	if feat != "" {
		return fmt.Sprintf("%s,%s,%s", kind, feat, presence)
	}
	last := "field"
	if len(full) > 0 {
		switch full[len(full)-1].K {
		case pbref.SIndex:
			last = "index"
		case pbref.SKey:
			last = "key"
		}
	}
	depth := "depth1"
	if len(full) > 1 {
		depth = "depth>1"
	}
	tc := "?"
	if target != nil {
		tc = coarse(target)
	} else if op.Val != nil {
		tc = coarse(op.Val)
	} else if len(op.Many) > 0 {
		tc = coarse(op.Many[0].Val)
	}
	parent := "root"
	if len(full) > 1 {
		if pv := pbref.Resolve(root, full[:len(full)-1]); pv != nil {
			parent = coarse(pv)
		}
	}
	name := ""
	if op.ByName {
		name = ",by-name"
	}
	return fmt.Sprintf("%s,last=%s,in=%s,target=%s,%s,%s%s", kind, last, parent, tc, presence, depth, name)
}

// ---- the search

type hist struct {
	ops   []pbref.Op
	model *pbref.Val
}

type search struct {
	st    state
	d     *dproto.TypeDescriptor
	l     *limiter
	r     *core.Result
	init  []byte
	g     *gcQuiet
	trans int64
}

func hx(b []byte) string {
	if len(b) > 96 {
		return fmt.Sprintf("%x..(%d bytes)..%x", b[:40], len(b), b[len(b)-40:])
	}
	return fmt.Sprintf("%x", b)
}

func histString(ops []pbref.Op) string {
	var parts []string
	for _, o := range ops {
		parts = append(parts, o.String())
	}
	return strings.Join(parts, " ; ")
}

// replay runs the (already validated) history on fresh bytes; returns the bytes reached.
func (x *search) replay(ops []pbref.Op) ([]byte, bool) {
	b := x.init
	for _, o := range ops {
		out, _, err, pi := execOp(x.st.s, x.d, b, o)
		if err != nil || pi != nil {
			return nil, false
		}
		b = out
	}
	return b, true
}

// step validates one transition: history h (validated), then op. Returns the successor model if the implementation
// behaved like the model.
func (x *search) step(h hist, op pbref.Op) (*pbref.Val, bool) {
	x.g.safePoint()
	want, existed, ok := pbref.Apply(h.model, op)
	if !ok {
		panic("harness: generated an inapplicable operation " + op.String())
	}
	want = pbref.Normalize(want)
	before, okr := x.replay(h.ops)
	if !okr {
		panic("harness: replay of a validated history diverged: " + histString(h.ops))
	}
	x.trans++
	trig := opTrigger(x.st.s, h.model, before, op, want)
	where := fmt.Sprintf("%s %s after [%s] (bytes %s): %s", x.st.s.ID, x.st.v.Short(), histString(h.ops), hx(before), op)
	out, gotExisted, err, pi := execOp(x.st.s, x.d, before, op)
	site := [...]string{"SetByPath", "UnsetByPath", "SetMany"}[op.Kind]
	if pi != nil {
		x.l.add(site+"|"+trig+"|panic@"+pi.Site+":"+core.PanicClass(pi.Val), "%s: panic: %s\n%s", where, pi.Val, pi.Stack)
		return nil, false
	}
	if err != nil {
		// an operation that changes nothing in the model (unset of something absent) may report not-found, as long
		// as the value is left as it was; any other error means the edit was not applied
		if op.Kind == pbref.OpUnset && pbref.Equal(want, h.model) {
			if back, derr := x.st.s.Decode(out, x.st.s.Root); derr == nil && pbref.Equal(back, want) {
				return want, true
			}
			x.l.add(site+"|"+trig+"|failed-op-changed-value", "%s: %v, and the value now is %s", where, err, hx(out))
			return nil, false
		}
		x.l.add(site+"|"+trig+"|error", "%s: %v; the model gives %s", where, err, want.Short())
		return nil, false
	}
	if twinChanged != "" {
		x.l.add(site+"|"+trig+"|other-root-value-changed", "%s: a second root value created over the same bytes before the operation (and never edited) now holds %s", where, twinChanged)
		return nil, false
	}
	back, derr := x.st.s.Decode(out, x.st.s.Root)
	if derr != nil {
		x.l.add(site+"|"+trig+"|reference-rejects", "%s: result %s: %v; the model gives %s = %s", where, hx(out), derr, want.Short(), hx(x.st.s.Encode(want)))
		return nil, false
	}
	if !pbref.Equal(back, want) {
		x.l.add(site+"|"+trig+"|decodes-to-other-message", "%s: result %s decodes to %s; the model gives %s", where, hx(out), back.Short(), want.Short())
		return nil, false
	}
	// the `exist` result reports presence ON THE WIRE (an explicit default value counts), which the decoded model
	// cannot see; it is not part of the statement and not judged
	_, _ = gotExisted, existed
	return want, true
}

func histGroups(tier string) []group {
	var gs []group
	for _, st := range initialStates() {
		st := st
		gs = append(gs, group{"hist/" + st.name, func(tier string, yield func(core.Case) bool) {
			root := pbref.Normalize(st.v)
			depth := 2
			if tier == "thorough" {
				depth = 4
			}
			for i, op := range enabledOps(st.s, root) {
				i, op := i, op
				cs := core.Case{
					Tag: "history",
					Desc: func() interface{} {
						return map[string]interface{}{"program": st.s.ID, "initial": root.String(), "initial_bytes": fmt.Sprintf("%x", st.s.Encode(root)), "first_op": op.String(), "first_op_index": i, "depth": depth}
					},
					Run: func() core.Result {
						r := core.Result{Class: "ok", Key: st.name + "|" + op.String()}
						g := quiet()
						defer g.done()
						d, err := st.s.Dyn()
						if err != nil {
							r.Add("NewDescritorFromContent|"+st.s.ID+"|error", "%v", err)
							return r
						}
						x := &search{st: st, d: d, l: &limiter{r: &r}, r: &r, init: st.s.Encode(root), g: g}
						states := int64(0)
						if pi := core.Catch(func() { states = x.bfs(root, op, depth) }); pi != nil {
							r.Class = "panic"
							r.Add("history|uncaught|panic@"+pi.Site+":"+core.PanicClass(pi.Val), "%s: %s\n%s", st.name, pi.Val, pi.Stack)
						}
						if len(r.Viol) > 0 && r.Class == "ok" {
							r.Class = "violation"
						}
						r.Count("states", states)
						r.Count("transitions", x.trans)
						r.Count("traces_validated_against_impl", x.trans)
						return r
					},
				}
				if !yield(cs) {
					return
				}
			}
		}})
	}
	return gs
}

// bfs explores all histories that start with `first`, up to `depth` operations; returns the number of distinct states.
func (x *search) bfs(root *pbref.Val, first pbref.Op, depth int) int64 {
	visited := map[string]bool{root.String(): true}
	m, ok := x.step(hist{model: root}, first)
	if !ok {
		return 1
	}
	frontier := []hist{}
	if !visited[m.String()] {
		visited[m.String()] = true
		frontier = append(frontier, hist{ops: []pbref.Op{first}, model: m})
	}
	for d := 1; d < depth; d++ {
		var next []hist
		for _, h := range frontier {
			for _, op := range enabledOps(x.st.s, h.model) {
				m, ok := x.step(h, op)
				if !ok {
					continue
				}
				k := m.String()
				if visited[k] {
					continue
				}
				visited[k] = true
				if d+1 < depth {
					next = append(next, hist{ops: append(append([]pbref.Op{}, h.ops...), op), model: m})
				}
			}
		}
		frontier = next
	}
	return int64(len(visited))
}
