package c10

import (
	"fmt"
	"strings"

	"github.com/cloudwego/dynamicgo/proto/generic"

	"verif/engine/core"
	"verif/ref/poolpoison"
	"verif/ref/pbref"
)

// treeFeature names the constructs in a message that are known (C07) to matter for a whole-tree load.
func treeFeature(s *pbref.Schema, root *pbref.Val, buf []byte, recursive bool) string {
	fixedKey, emptySub, zigzagKey, baited := false, false, false, false
	pbref.Walk(root, func(p []pbref.Step, x *pbref.Val) {
		if x.Card == pbref.Map && isFixedKey(x.Key) {
			fixedKey = true
		}
		if x.Card == pbref.Map && (x.Key == pbref.KSint32 || x.Key == pbref.KSint64) {
			zigzagKey = true
		}
		if len(p) > 0 && x.Card == pbref.Single && x.Kind == pbref.KMessage && len(x.Fs) == 0 {
			emptySub = true
		}
		if x.Card != pbref.Single && len(p) > 0 {
			// the message type holding this container = type of the node one field step up
			li := len(p) - 1
			for li >= 0 && p[li].K != pbref.SField {
				li--
			}
			if li >= 0 {
				if h := pbref.Resolve(root, p[:li]); h != nil && h.Msg != nil && bait(s, buf, x, h.Msg, p[li].F) {
					baited = true
				}
			}
		}
	})
	f := ""
	add := func(x string) {
		if f != "" {
			f += "+"
		}
		f += x
	}
	if recursive && baited {
		add("has-container-then-same-number-in-parent")
	}
	if recursive && emptySub {
		add("has-empty-submessage")
	}
	if recursive && zigzagKey {
		add("has-zigzag-key-map")
	}
	if recursive && fixedKey {
		add("has-fixed-key-map")
	}
	if f == "" {
		return "tree"
	}
	return f
}

var largestCache = map[string][]byte{}

// largestMessage: the longest reference encoding among the program's messages (the reuse partner).
func largestMessage(s *pbref.Schema, tier string) []byte {
	k := s.ID + "/" + tier
	if b, ok := largestCache[k]; ok {
		return b
	}
	var best []byte
	for _, m := range pbref.StdMessages(s, tier) {
		if b := s.Encode(pbref.Normalize(m.V)); len(b) > len(best) && len(b) < 1<<16 {
			best = b
		}
	}
	largestCache[k] = best
	return best
}

var partnersCache = map[string][][]byte{}

// reusePartners: the messages loaded on the tree before the message under test. The largest message of the
// program; for the hand-built nested trees (sub-messages, empty sub-messages, containers of messages at depth
// <= 4) every message of the program, so that every slot kind meets every other slot kind.
func reusePartners(s *pbref.Schema, tier string) [][]byte {
	k := s.ID + "/" + tier
	if p, ok := partnersCache[k]; ok {
		return p
	}
	out := [][]byte{largestMessage(s, tier)}
	if s.ID == "nested" {
		out = nil
		for _, m := range pbref.StdMessages(s, tier) {
			if b := s.Encode(pbref.Normalize(m.V)); len(b) < 1<<12 {
				out = append(out, b)
			}
		}
	}
	partnersCache[k] = out
	return out
}

func domGroups(tier string) []group {
	var gs []group
	for _, s := range pbref.StdPrograms(tier) {
		s := s
		n := len(pbref.StdMessages(s, tier))
		chunk := 150
		for lo := 0; lo < n; lo += chunk {
			lo := lo
			hi := lo + chunk
			if hi > n {
				hi = n
			}
			gs = append(gs, group{fmt.Sprintf("dom/%s/%d-%d", s.ID, lo, hi), func(tier string, yield func(core.Case) bool) {
				for _, m := range pbref.StdMessages(s, tier)[lo:hi] {
					m := m
					cs := core.Case{
						Tag: "load+marshal",
						Desc: func() interface{} {
							ms := m.V.String()
							if len(ms) > 400 {
								ms = ms[:400] + "..."
							}
							return map[string]interface{}{"program": s.ID, "message": ms, "family": "Load+Marshal"}
						},
						Run: func() core.Result {
							r := core.Result{Class: "ok", Key: s.ID + "|dom|" + m.V.String()}
							g := quiet()
							defer g.done()
							l := &limiter{r: &r}
							root := pbref.Normalize(m.V)
							buf := s.Encode(root)
							d, err := s.Dyn()
							if err != nil {
								r.Add("NewDescritorFromContent|"+s.ID+"|error", "%v", err)
								return r
							}
							n := int64(0)
							type variantT struct {
								recurse, reuse bool
								partner        []byte
								lacks          string
							}
							variants := []variantT{{false, false, nil, ""}, {true, false, nil, ""}}
							for _, pb := range reusePartners(s, tier) {
								variants = append(variants, variantT{false, true, pb, ""}, variantT{true, true, pb, ""})
							}
							// the reader holds an OLDER version of the file: every message lacks one field, whose values are
							// unknown fields to Load and must come back out of Marshal unchanged
							for _, w := range []string{"first", "middle", "last"} {
								if strings.HasPrefix(s.ID, "bigid") {
									break // dynamicgo's dense by-number table takes 4 GiB per parse of this file; one parse is all a worker affords
								}
								variants = append(variants, variantT{false, false, nil, w}, variantT{true, false, nil, w})
							}
							full := d
							for _, variant := range variants {
								partner := variant.partner
								recurse := variant.recurse
								mode := "lazy"
								if recurse {
									mode = "recursive"
								}
								d := full
								if variant.lacks != "" {
									mode += ",descriptor-lacks-" + variant.lacks + "-fields"
									var perr error
									if d, perr = s.Lacking(variant.lacks).Dyn(); perr != nil {
										r.Add("NewDescritorFromContent|"+s.ID+"~lacks-"+variant.lacks+"|error", "%v", perr)
										continue
									}
								}
								if variant.reuse {
									// non-initial start state: the same tree has loaded (recursively) the largest message of the
									// program before; nothing of it may survive the second Load
									mode += ",reused-tree"
								}
								trig := mode + "," + treeFeature(s, root, buf, recurse)
								where := fmt.Sprintf("%s %s (bytes %s), Load(recurse=%v)", s.ID, root, hx(buf), recurse)
								var out []byte
								var lerr, merr error
								n++
								pi := core.Catch(func() {
									rv := wrap(d, buf)
									pn := generic.PathNode{Node: rv.Node}
									if variant.reuse {
										pn.Node = wrap(d, partner).Node
										if pn.Load(true, &generic.Options{}, d) != nil {
											return // the partner's own load is judged in its own case
										}
										pn.Node = rv.Node
									}
									if lerr = pn.Load(recurse, &generic.Options{}, d); lerr != nil {
										return
									}
									out, merr = pn.Marshal(&generic.Options{})
								})
								if pi == nil && lerr == nil && merr == nil && poolpoison.Aliased(out) {
									l.add("Marshal|"+trig+"|result-aliases-pooled-buffer", "%s: the %d bytes returned by Marshal change when the pooled buffers are overwritten", where, len(out))
								}
								switch {
								case pi != nil:
									l.add("Load+Marshal|"+trig+"|panic@"+pi.Site+":"+core.PanicClass(pi.Val), "%s: panic: %s\n%s", where, pi.Val, pi.Stack)
								case lerr != nil:
									l.add("Load|"+trig+"|error", "%s: %v", where, lerr)
								case merr != nil:
									l.add("Marshal|"+trig+"|error", "%s: %v", where, merr)
								default:
									back, derr := s.Decode(out, s.Root)
									if derr != nil {
										l.add("Marshal|"+trig+"|reference-rejects", "%s: marshalled %s: %v", where, hx(out), derr)
									} else if !pbref.Equal(back, root) {
										l.add("Marshal|"+trig+"|decodes-to-other-message", "%s: marshalled %s decodes to %s", where, hx(out), back)
									}
								}
							}
							if len(r.Viol) > 0 {
								r.Class = "violation"
							}
							r.Count("dom_roundtrips", n)
							return r
						},
					}
					if !yield(cs) {
						return
					}
				}
			}})
		}
	}
	return gs
}
