// Package c10: Protobuf edits and DOM marshalling keep the message well-formed and exact.
//
// Histories: explicit-state search over sequences of SetByPath / SetMany / UnsetByPath on the REAL
// proto/generic.Value. A state is a message model (ref/pbref); a successor is computed by replaying the history on
// fresh reference-encoded bytes plus one more operation; every transition is judged: the resulting bytes must be
// accepted by protobuf-go and decode to apply(op, model). States are de-duplicated on the model.
// DOM: PathNode.Load (lazy / recursive) + Marshal of every message of the C07 family.
package c10

import (
	"fmt"
	"runtime"
	"runtime/debug"

	"verif/engine/core"
	"verif/ref/pbref"
)

type check struct{}

func init() { core.Register(check{}) }

func (check) ID() string    { return "C10" }
func (check) Level() string { return "model_checking" }
func (check) Rule() string {
	return "explicit-state search, breadth first, over edit histories on the real proto/generic.Value: initial states = 30 reference-encoded messages (flat scalars, packed/unpacked/message lists, maps with string/int32/sint64/uint32/fixed32 keys and scalar/message values, nested trees of depth <=3 with sub-message lengths 126/127/128 and 16383/16384, recursion); operations enabled in a state = for every present node: SetByPath with 2-3 replacement values per kind chosen to shrink, keep and grow the encoded size (incl. to zero and across the 1->2 byte length-prefix boundary), replacement of a sub-message by an empty and by a one-field message, UnsetByPath; for every list: insert at index len and at index 1024; for every map: insert of an absent key; for every message: insert of absent scalar/message fields, UnsetByPath of an absent field (no-op); SetMany at the root, at nested messages and at lists (2 items: replace+insert / two appends); name-addressed variants at depth 1. All histories of length <=2 (quick) / <=4 (thorough), successor = replay on fresh bytes + one operation, states de-duplicated on the decoded model inside one first-operation subtree; every transition is executed on the implementation and on the model and compared through protobuf-go (counters states / transitions / traces_validated_against_impl). One case = (initial state, first operation). Plus PathNode.Load(lazy|recursive)+Marshal for every message of the C07 family, on a fresh tree and on a tree that had loaded another message of the program before (the largest; every message for the nested program) (counter dom_roundtrips). A case is non-trivial if it executed at least one transition / round trip. Later additions: 34 initial states (map entries of 127/128 bytes, a recursive message with fields 63/64/70/255/300 and adjacent same-number containers, packed lists inside elements of a message list), SetMany on maps and of the last message-typed field, by-name nested appends and outer-only keys, a twin root value over the same bytes that must keep them, DOM round trips on reused trees, the same-simple-name program. Round 8: DOM round trips with descriptors lacking the first / middle / last field of every message. Round 10: SetMany of two present list elements in both request orders."
}

func (check) Assumptions() []string {
	return []string{
		"reference = google.golang.org/protobuf: a result must be accepted by proto.Unmarshal and decode (proto3 normalisation) to apply(op, model); unknown fields in the result count as a difference",
		"two histories reaching the same decoded model have the same futures by the reference model; their byte layouts may differ (insertions append), which is not explored separately",
		"after every operation the root value is re-wrapped (generic.NewRootValue on a copy of Raw() with spare capacity): a Value has no state besides its bytes and descriptor, and the spare capacity keeps the library's one-past-the-end unsafe pointers (C07 finding I) inside the object; the collector runs only at safe points between transitions",
		"operations on paths that do not fit the schema are outside the statement (valid paths)",
		"the `exist` result of SetByPath is not judged (wire presence of explicit default values is invisible to the decoded model); UnsetByPath of something absent may return nil or not-found as long as the value is unchanged",
	}
}

func (check) BudgetSeconds(tier string) int {
	if tier == "thorough" {
		return 3000 // histories of length 4 take ~20 min alone on 16 cores, ~28 min next to other work
	}
	return 200
}

type group struct {
	name string
	enum func(tier string, yield func(core.Case) bool)
}

var groupCache = map[string][]group{}

func groups(tier string) []group {
	if g := groupCache[tier]; g != nil {
		return g
	}
	var gs []group
	gs = append(gs, histGroups(tier)...)
	gs = append(gs, domGroups(tier)...)
	groupCache[tier] = gs
	return gs
}

func (check) Groups(tier string, seed int64) []string {
	var names []string
	for _, g := range groups(tier) {
		names = append(names, g.name)
	}
	return names
}

func (check) Enumerate(tier string, seed int64, g int, yield func(core.Case) bool) {
	groups(tier)[g].enum(tier, yield)
}

// SelfCheck: reference pipeline + model self-consistency on every initial state and every enabled operation:
// apply(op) must be encodable and decode back to itself (no dynamicgo code).
func (check) SelfCheck() error {
	for _, st := range initialStates() {
		if err := st.s.CheckRef(); err != nil {
			return err
		}
		if err := st.s.JhumpAgrees(st.v); err != nil {
			return fmt.Errorf("%s: %v", st.name, err)
		}
		root := pbref.Normalize(st.v)
		for _, op := range enabledOps(st.s, root) {
			next, _, ok := pbref.Apply(root, op)
			if !ok {
				return fmt.Errorf("%s: generated operation %s is not applicable to %s", st.name, op, root)
			}
			n := pbref.Normalize(next)
			back, err := st.s.Decode(st.s.Encode(n), st.s.Root)
			if err != nil || !pbref.Equal(back, n) {
				return fmt.Errorf("%s: model after %s does not survive the reference codec: %v", st.name, op, err)
			}
		}
	}
	return nil
}

type limiter struct {
	r    *core.Result
	seen map[string]int
}

func (l *limiter) add(sig, format string, a ...interface{}) {
	if l.seen == nil {
		l.seen = map[string]int{}
	}
	l.seen[sig]++
	if l.seen[sig] <= 1 {
		l.r.Add(sig, format, a...)
	}
}

// gcQuiet disables the collector for the duration of a case and collects at explicit safe points only (no library
// value is live there), so that unsafe one-past-the-end pointers built inside the library can never be seen by it.
type gcQuiet struct{ old, n int }

func quiet() *gcQuiet { return &gcQuiet{old: debug.SetGCPercent(-1)} }
func (g *gcQuiet) safePoint() {
	g.n++
	if g.n%512 == 0 {
		runtime.GC()
	}
}
func (g *gcQuiet) done() { runtime.GC(); debug.SetGCPercent(g.old) }
