package c08

import (
	"fmt"
	"strings"

	"google.golang.org/protobuf/encoding/protojson"
	"google.golang.org/protobuf/reflect/protoreflect"

	"verif/checks/pj"
)

// SelfCheck binds the oracle (pj.CompareJSON) to the reference implementation without running dynamicgo:
// for every message of the value/presence/jsonnames groups
//  1. the canonical proto3 JSON of the reference (protojson) is accepted (64-bit integers as strings),
//  2. the harness's own rendering (bare numbers, JSON names) is accepted,
//  3. the rendering of one message is rejected for the next different message of the same schema.
func (check) SelfCheck() error {
	refs := map[string]*pj.Ref{}
	var prevProg string
	var prevJSON []byte
	var prevMsg protoreflect.Message
	n := 0
	for _, g := range pj.ScopeGroups("quick") {
		if strings.HasPrefix(g, "struct/") || g == "recursion" {
			continue
		}
		var ferr error
		pj.ScopeEnumerate("quick", g, func(cc *pj.ConvCase) bool {
			ref := refs[cc.Prog.Name]
			if ref == nil {
				var err error
				if ref, err = pj.CompileRef(cc.Prog); err != nil {
					ferr = err
					return false
				}
				refs[cc.Prog.Name] = ref
			}
			m := cc.Build(ref)
			// decode of the reference encoding (what the check compares with)
			dec, err := pj.Unmarshal(m.Descriptor(), pj.Marshal(m))
			if err != nil {
				ferr = fmt.Errorf("%s: reference cannot decode its own encoding: %v", cc.What, err)
				return false
			}
			if d := pj.DiffMsg(m, dec, "$"); d != "" {
				ferr = fmt.Errorf("%s: reference round trip differs: %s", cc.What, d)
				return false
			}
			pjs, err := protojson.MarshalOptions{}.Marshal(m.Interface())
			if err != nil {
				ferr = fmt.Errorf("%s: protojson: %v", cc.What, err)
				return false
			}
			node, err := pj.ParseJSON(pjs)
			if err != nil {
				ferr = fmt.Errorf("%s: protojson output unparsable: %v", cc.What, err)
				return false
			}
			if ds := pj.CompareJSON(node, dec, pj.JOpts{Int642String: true}); len(ds) > 0 {
				ferr = fmt.Errorf("%s: oracle rejects the reference's canonical JSON %s: %s", cc.What, pjs, ds[0].Detail)
				return false
			}
			if !cc.NonFin {
				own := pj.RenderJSON(m, pj.ROpts{JSONNames: true})
				node, err := pj.ParseJSON(own)
				if err != nil {
					ferr = fmt.Errorf("%s: own rendering unparsable: %v: %s", cc.What, err, own)
					return false
				}
				if ds := pj.CompareJSON(node, dec, pj.JOpts{}); len(ds) > 0 {
					ferr = fmt.Errorf("%s: oracle rejects the harness rendering %s: %s", cc.What, own, ds[0].Detail)
					return false
				}
				if prevProg == cc.Prog.Name && prevMsg != nil && pj.DiffMsg(prevMsg, dec, "$") != "" && pj.DiffMsg(dec, prevMsg, "$") != "" {
					pn, _ := pj.ParseJSON(prevJSON)
					if ds := pj.CompareJSON(pn, dec, pj.JOpts{}); len(ds) == 0 {
						ferr = fmt.Errorf("%s: oracle accepts the JSON of a different message: %s", cc.What, prevJSON)
						return false
					}
				}
				prevProg, prevJSON, prevMsg = cc.Prog.Name, own, dec
			} else {
				prevMsg = nil
			}
			n++
			return true
		})
		if ferr != nil {
			return ferr
		}
	}
	if n < 1000 {
		return fmt.Errorf("self-check covered only %d messages", n)
	}
	return nil
}
