// Package c08: Protobuf->JSON conversion emits valid JSON denoting exactly the message.
//
// Every (schema, message) of the shared conversion scope (checks/pj/scope.go) plus the unknown-field
// family is encoded by the reference implementation (google.golang.org/protobuf dynamicpb, deterministic),
// converted by the real p2j.BinaryConv (Do and DoInto with several buffer capacities) under every
// combination of {Int642String, DisallowUnknownField}, and the output is read back with encoding/json and
// compared with the reference decode of the same bytes.
package c08

import (
	"github.com/cloudwego/dynamicgo/vsync"
	"bytes"
	"context"
	"fmt"
	"os"
	"strings"

	"github.com/cloudwego/dynamicgo/conv"
	"github.com/cloudwego/dynamicgo/conv/p2j"
	"google.golang.org/protobuf/reflect/protoreflect"
	"google.golang.org/protobuf/types/dynamicpb"

	"verif/checks/pj"
	"verif/engine/core"
	"verif/ref/poolpoison"
)

type check struct{}

func init() { core.Register(check{}) }

func (check) ID() string    { return "C08" }
func (check) Level() string { return "exploration" }
func (check) Rule() string {
	return "bounded-exhaustive enumeration, simplest first, of (schema, message, options): value families = every boundary value of every scalar kind and enum as singular field, list element (4 list layouts, packed and [packed=false]), map value, and every boundary key of every map key kind; structure families = 6 embedding contexts (top, between siblings, nested 1 and 2 levels, element of a repeated message, value of a map of messages) x FUT numbers (incl. the number that equals the next tag of the parent) x every shape (singular/repeated/unpacked x 17 kinds, map key kinds x value kinds) x sizes 0..3 / empty sub-messages; all 64 presence subsets of a 6-field message; JSON-name spellings; recursive chains; unknown fields of every wire type at every position and depth; x all 4 subsets of {Int642String, DisallowUnknownField} x {Do, DoInto with capacities 0,1,len/2,len}. A case is non-trivial if it is distinct by (schema, message, options) and the converter produced output that was parsed and compared. Later additions: histories of length 2, SetOptions twin, arena-backed DoInto, overwriting of the pooled buffers right after Do, two message types with one simple name. Round 9: high field numbers declared out of order."
}
func (check) Assumptions() []string {
	return []string{
		"reference = google.golang.org/protobuf (dynamicpb, proto.Marshal deterministic, proto.Unmarshal) on descriptors built by protodesc from the reference parser's FileDescriptorProto",
		"an error return is always acceptable (statement: 'either fails with an error or ...'), except that DisallowUnknownField must reject a message carrying an unknown field",
		"integers must be JSON numbers with the exact value; under Int642String 64-bit kinds may be strings holding the decimal and int64 must be; floats: the literal parsed by strconv must equal the value (float32 fields at float32 precision); NaN/Infinity may only appear as the strings \"NaN\"/\"Infinity\"/\"-Infinity\"; enums as number or value name; bytes as standard base64; map keys: decimal / true|false / the string",
		"members for fields that are not populated are accepted when they carry the default value",
	}
}

var optSets = []conv.Options{
	{},
	{Int642String: true},
	{DisallowUnknownField: true},
	{Int642String: true, DisallowUnknownField: true},
	{UseNativeSkip: true},
	{UseNativeSkip: true, Int642String: true},
}

func optName(o conv.Options) string {
	var s []string
	if o.Int642String {
		s = append(s, "Int642String")
	}
	if o.DisallowUnknownField {
		s = append(s, "DisallowUnknownField")
	}
	if o.UseNativeSkip {
		s = append(s, "UseNativeSkip")
	}
	if len(s) == 0 {
		return "default"
	}
	return strings.Join(s, "+")
}

func (check) Groups(tier string, seed int64) []string {
	g := pj.ScopeGroups(tier)
	g = append(g, "unknown/top", "unknown/nested", "after-failure")
	return g
}

type caseDesc struct {
	What    string `json:"what"`
	Options string `json:"options"`
	Schema  string `json:"schema"`
	Input   string `json:"input_hex"`
}

func hexs(b []byte) string {
	if len(b) > 400 {
		return fmt.Sprintf("%x..(%d bytes)", b[:400], len(b))
	}
	return fmt.Sprintf("%x", b)
}

// convCase wraps a scope case into a core.Case; all option sets are run inside the case. A violation seen under
// a non-default option set carries the option in its signature only when the default run of the same message
// did not show the same outcome (so an option-independent defect has one signature).
func convCase(cc *pj.ConvCase, unknown bool) core.Case { return convCaseP(cc, unknown, false) }

// convCaseP with primed: additionally, after every failing conversion of the menu derived from the input (every
// proper prefix, every byte position set to 0xff) on the same converter, the input must convert exactly as alone.
func convCaseP(cc *pj.ConvCase, unknown, primed bool) core.Case {
	focus := cc.Focus
	if primed {
		focus = "after-failure"
	}
	var input []byte
	build := func() (*pj.Compiled, []byte) {
		c := pj.Compile(cc.Prog)
		return c, pj.Marshal(cc.Build(c.Ref))
	}
	return core.Case{
		Tag: focus,
		Desc: func() interface{} {
			if input == nil {
				_, input = build()
			}
			return caseDesc{cc.What, "all 4 subsets of {Int642String, DisallowUnknownField} + UseNativeSkip with and without Int642String", cc.Prog.SourceDump(), hexs(input)}
		},
		Run: func() core.Result {
			r := core.Result{Class: "ok", Key: cc.Prog.Name + "|" + cc.What}
			if primed {
				r.Key += "|after-failure"
			}
			c, in := build()
			input = in
			if c.Err != nil {
				r.Class = "descriptor-error"
				r.Add("proto.NewDescriptor|"+focus+"|error-on-valid-schema", "dynamicgo rejects the schema: %v", c.Err)
				return r
			}
			// reference decode with the converter's (target) schema
			want, err := pj.Unmarshal(c.Ref.Msg(pj.Pkg+".T"), in)
			if err != nil {
				panic("harness: reference cannot decode its own encoding: " + err.Error())
			}
			orig := append([]byte{}, in...)
			classes := map[string]bool{}
			seenBy := make([]map[string]bool, len(optSets)) // site|outcome seen under option set i
			for oi, opts := range optSets {
				var viol []core.Violation
				add := func(site, outcome, format string, a ...interface{}) {
					viol = append(viol, core.Violation{Sig: site + "\x00" + outcome, Detail: fmt.Sprintf("[options %s] ", optName(opts)) + fmt.Sprintf(format, a...)})
				}
				cv := p2j.NewBinaryConv(opts)
				var out []byte
				var cerr error
				pi := core.Catch(func() { out, cerr = cv.Do(context.Background(), c.In, in) })
				if pi == nil {
					vsync.Controlled = true
					vsync.Reset()
					var o4 []byte
					var e4 error
					pi4 := core.Catch(func() { o4, e4 = cv.Do(context.Background(), c.In, append([]byte{}, in...)) })
					vsync.Reset()
					vsync.Controlled = false
					if pi4 != nil {
						add("p2j.Do", "fresh-pooled-objects|panic@"+pi4.Site+":"+core.PanicClass(pi4.Val), "panic: %s\ninput %x", pi4.Val, in)
					} else if (e4 == nil) != (cerr == nil) || (e4 == nil && !bytes.Equal(o4, out)) {
						add("p2j.Do", "differs-with-fresh-pooled-objects", "with the pooled objects of this process: %s err=%v\nwith fresh ones: %s err=%v\ninput %x", out, cerr, o4, e4, in)
					}
				}
				if pi == nil && cerr == nil && poolpoison.Aliased(out) {
					add("p2j.Do", "result-aliases-pooled-buffer", "the %d bytes returned by Do change when the buffers in the converters' pool are overwritten\ninput %x", len(out), in)
				}
				switch {
				case pi != nil:
					classes["panic"] = true
					add("p2j.Do", "panic@"+pi.Site+":"+core.PanicClass(pi.Val), "panic: %s\ninput %x\n%s", pi.Val, in, pi.Stack)
				case cerr != nil:
					classes["error"] = true
					if os.Getenv("VERIF_C08_SHOW_ERRORS") != "" { // diagnostic only: list which parts of the scope the converter refuses
						add("diagnostic", "error-return", "%v\ninput %x", cerr, in)
					}
				default:
					classes["converted"] = true
					if unknown && opts.DisallowUnknownField {
						add("p2j.Do", "no-error-on-unknown-field", "message with an unknown field converted without error under DisallowUnknownField: %s\ninput %x", out, in)
					}
					checkOutput(add, cc, out, want, opts, in)
				}
				if !bytes.Equal(orig, in) {
					add("p2j.Do", "input-modified", "the input buffer was modified")
					copy(in, orig)
				}
				// the same options reached through SetOptions on a converter that was built with the opposite ones
				if pi == nil {
					cv2 := p2j.NewBinaryConv(conv.Options{Int642String: !opts.Int642String, DisallowUnknownField: !opts.DisallowUnknownField})
					cv2.SetOptions(opts)
					var o2 []byte
					var e2 error
					if pi2 := core.Catch(func() { o2, e2 = cv2.Do(context.Background(), c.In, in) }); pi2 != nil {
						add("p2j.SetOptions+Do", "panic@"+pi2.Site+":"+core.PanicClass(pi2.Val), "panic: %s", pi2.Val)
					} else if (e2 != nil) != (cerr != nil) || !bytes.Equal(o2, out) {
						add("p2j.SetOptions+Do", "differs-from-converter-built-with-the-options", "SetOptions: %s (err %v); NewBinaryConv: %s (err %v)\ninput %x", o2, e2, out, cerr, in)
					}
				}
				// DoInto with several capacities must behave like Do
				caps := []int{0, 1, len(out) / 2, len(out)}
				if pi == nil {
					for _, cp := range caps {
						// the buffer is the front of an arena whose rest is 0xAA: nothing may be written behind the capacity
						arena := make([]byte, cp+64)
						for i := cp; i < len(arena); i++ {
							arena[i] = 0xAA
						}
						buf := arena[:0:cp]
						var e2 error
						pi2 := core.Catch(func() { e2 = cv.DoInto(context.Background(), c.In, in, &buf) })
						for i := cp; i < len(arena); i++ {
							if arena[i] != 0xAA {
								add("p2j.DoInto", "writes-beyond-capacity", "cap=%d: byte cap+%d overwritten (%x)", cp, i-cp, arena[i])
								break
							}
						}
						if pi2 != nil {
							add("p2j.DoInto", "panic@"+pi2.Site+":"+core.PanicClass(pi2.Val), "cap=%d panic: %s\n%s", cp, pi2.Val, pi2.Stack)
							break
						}
						if (e2 != nil) != (cerr != nil) {
							add("p2j.DoInto", "error-presence-differs-from-Do", "cap=%d: DoInto err=%v, Do err=%v", cp, e2, cerr)
							break
						}
						if e2 == nil && poolpoison.Aliased(buf) {
							add("p2j.DoInto", "result-aliases-pooled-buffer", "cap=%d: the %d bytes DoInto left in the caller's buffer change when the pooled buffers are overwritten", cp, len(buf))
						}
						if e2 == nil && !bytes.Equal(buf, out) {
							add("p2j.DoInto", "output-differs-from-Do", "cap=%d: DoInto %s, Do %s", cp, buf, out)
							break
						}
					}
				}
				if primed && pi == nil {
					var primes [][]byte
					for n := 0; n < len(orig); n++ {
						primes = append(primes, append([]byte{}, orig[:n]...))
						d := append([]byte{}, orig...)
						d[n] = 0xff
						primes = append(primes, d)
					}
					for _, pr := range primes {
						var o2 []byte
						var e2 error
						core.Catch(func() { cv.Do(context.Background(), c.In, pr) })
						pi2 := core.Catch(func() { o2, e2 = cv.Do(context.Background(), c.In, in) })
						r.Count("conversions", 2)
						if pi2 != nil {
							add("p2j.Do", "panic-after-failing-conversion@"+pi2.Site, "after converting %x: panic %s\n%s", pr, pi2.Val, pi2.Stack)
							break
						}
						if (e2 != nil) != (cerr != nil) || !bytes.Equal(o2, out) {
							add("p2j.Do", "differs-after-failing-conversion", "after converting %x: %s (err %v); alone: %s (err %v)\ninput %x", pr, o2, e2, out, cerr, in)
							break
						}
					}
				}
				r.Count("conversions", int64(1+len(caps)))
				for _, v := range viol {
					so := strings.SplitN(v.Sig, "\x00", 2)
					trig := focus
					if seenBy[oi] == nil {
						seenBy[oi] = map[string]bool{}
					}
					seenBy[oi][v.Sig] = true
					// optSets: 0 default, 1 Int642String, 2 DisallowUnknownField, 3 both. The defect is attributed to
					// the smallest option subset that shows it.
					dup := false
					for _, sub := range [][]int{nil, {0}, {0}, {0, 1, 2}, {0}, {0, 1, 4}}[oi] {
						if seenBy[sub] != nil && seenBy[sub][v.Sig] {
							dup = true
						}
					}
					if dup {
						continue
					}
					if oi > 0 {
						trig += ",opt=" + optName(opts)
					}
					r.Viol = append(r.Viol, core.Violation{Sig: so[0] + "|" + trig + "|" + so[1], Detail: v.Detail})
				}
			}
			var cl []string
			for _, k := range []string{"converted", "error", "panic"} {
				if classes[k] {
					cl = append(cl, k)
				}
			}
			r.Class = strings.Join(cl, "+")
			if len(r.Viol) > 0 {
				r.Class += ":violation"
			}
			if !classes["converted"] {
				r.Key = ""
			}
			return r
		},
	}
}

// checkOutput: validity by encoding/json, then the denotation. For structure-focused cases the individual
// disagreement classes are folded into one outcome (one root cause displaces many members at once).
func checkOutput(add func(site, outcome, format string, a ...interface{}), cc *pj.ConvCase, out []byte, want protoreflect.Message, opts conv.Options, in []byte) {
	n, err := pj.ParseJSON(out)
	if err != nil {
		add("p2j.Do", "invalid-json-with-nil-error", "output is not valid JSON (%v): %s\ninput %x", err, out, in)
		return
	}
	diffs := pj.CompareJSON(n, want, pj.JOpts{Int642String: opts.Int642String})
	seen := map[string]bool{}
	for _, d := range diffs {
		oc := d.Outcome
		if strings.HasPrefix(cc.Focus, "struct:") || strings.HasPrefix(cc.Focus, "unknown-field") || cc.Focus == "recursive-nesting" || cc.Focus == "presence-subset" {
			switch oc {
			case "int64-not-a-string-under-Int642String", "wrong-json-kind", "keyed-by-field-name":
			default:
				oc = "denotes-different-message"
			}
		}
		if seen[oc] {
			continue
		}
		seen[oc] = true
		add("p2j.Do", oc, "%s\noutput %s\ninput %x", d.Detail, out, in)
	}
}

func (check) Enumerate(tier string, seed int64, gi int, yield func(core.Case) bool) {
	groups := check{}.Groups(tier, seed)
	g := groups[gi]
	if strings.HasPrefix(g, "unknown/") {
		unknownCases(g, yield)
		return
	}
	if g == "after-failure" {
		// the presence family (64 subsets of a six-field message with nested message, list and map) and the
		// recursion chains, each input primed with every truncation / damaged byte of itself
		for _, sg := range []string{"presence", "recursion"} {
			if !pj.ScopeEnumerate(tier, sg, func(cc *pj.ConvCase) bool { return yield(convCaseP(cc, false, true)) }) {
				return
			}
		}
		return
	}
	pj.ScopeEnumerate(tier, g, func(cc *pj.ConvCase) bool {
		return yield(convCase(cc, false))
	})
}

// ---- unknown fields: encode with a superset schema, convert with the subset schema -----------------

type unk struct {
	tag   string
	wire  string
	field func(num int) *pj.Field
	set   func(m protoreflect.Message, fd protoreflect.FieldDescriptor)
}

var unknowns = []unk{
	{"int64-negative", "varint", func(n int) *pj.Field { return pj.F("u_x", n, pj.Int64) }, func(m protoreflect.Message, fd protoreflect.FieldDescriptor) {
		m.Set(fd, protoreflect.ValueOfInt64(-2))
	}},
	{"bool", "varint", func(n int) *pj.Field { return pj.F("u_x", n, pj.Bool) }, func(m protoreflect.Message, fd protoreflect.FieldDescriptor) {
		m.Set(fd, protoreflect.ValueOfBool(true))
	}},
	// varints with a 0x80 byte before the last one (80 01, 80 1a, 80 80 01, ff 80 80 01): a skipper that looks for the
	// first byte <= 0x80 instead of < 0x80 stops inside them
	{"int64-128", "varint", func(n int) *pj.Field { return pj.F("u_x", n, pj.Int64) }, func(m protoreflect.Message, fd protoreflect.FieldDescriptor) {
		m.Set(fd, protoreflect.ValueOfInt64(128))
	}},
	{"int64-3328", "varint", func(n int) *pj.Field { return pj.F("u_x", n, pj.Int64) }, func(m protoreflect.Message, fd protoreflect.FieldDescriptor) {
		m.Set(fd, protoreflect.ValueOfInt64(3328))
	}},
	{"int64-16384", "varint", func(n int) *pj.Field { return pj.F("u_x", n, pj.Int64) }, func(m protoreflect.Message, fd protoreflect.FieldDescriptor) {
		m.Set(fd, protoreflect.ValueOfInt64(16384))
	}},
	// 80 10 05: behind the 0x80 byte stands what reads as "field 2 (a_f / x_f), varint, value 5"
	{"int64-83968", "varint", func(n int) *pj.Field { return pj.F("u_x", n, pj.Int64) }, func(m protoreflect.Message, fd protoreflect.FieldDescriptor) {
		m.Set(fd, protoreflect.ValueOfInt64(83968))
	}},
	// a two-byte varint 80 XX whose second byte is the tag of the known string field right behind it, and that
	// string is one byte shorter than its own tag byte says when read as a length (Sub: 80 22 | 22 21 <33 bytes>,
	// T: 80 32 | 32 31 <49 bytes>): a skipper that stops at the 0x80 byte reads a well-formed but different message
	{"int64-aligned-with-next-string", "varint", func(n int) *pj.Field { return pj.F("u_x", n, pj.Int64) }, func(m protoreflect.Message, fd protoreflect.FieldDescriptor) {
		fs := m.Descriptor().Fields()
		if y := fs.ByName("y_f"); y != nil {
			m.Set(fd, protoreflect.ValueOfInt64(0x22<<7))
			m.Set(y, protoreflect.ValueOfString(strings.Repeat("y", 33)))
		} else {
			m.Set(fd, protoreflect.ValueOfInt64(0x32<<7))
			l := m.Mutable(fs.ByName("l_f")).List()
			l.Truncate(0)
			l.Append(protoreflect.ValueOfString(strings.Repeat("l", 49)))
		}
	}},
	{"uint64-2097279", "varint", func(n int) *pj.Field { return pj.F("u_x", n, pj.Uint64) }, func(m protoreflect.Message, fd protoreflect.FieldDescriptor) {
		m.Set(fd, protoreflect.ValueOfUint64(0x7f|0<<7|0<<14|1<<21))
	}},
	{"fixed32", "fixed32", func(n int) *pj.Field { return pj.F("u_x", n, pj.Fixed32) }, func(m protoreflect.Message, fd protoreflect.FieldDescriptor) {
		m.Set(fd, protoreflect.ValueOfUint32(0xfffffff0))
	}},
	{"double", "fixed64", func(n int) *pj.Field { return pj.F("u_x", n, pj.Double) }, func(m protoreflect.Message, fd protoreflect.FieldDescriptor) {
		m.Set(fd, protoreflect.ValueOfFloat64(2.5))
	}},
	{"string", "bytes", func(n int) *pj.Field { return pj.F("u_x", n, pj.String) }, func(m protoreflect.Message, fd protoreflect.FieldDescriptor) {
		m.Set(fd, protoreflect.ValueOfString("unknown"))
	}},
	{"string-200", "bytes", func(n int) *pj.Field { return pj.F("u_x", n, pj.String) }, func(m protoreflect.Message, fd protoreflect.FieldDescriptor) {
		m.Set(fd, protoreflect.ValueOfString(strings.Repeat("u", 200)))
	}},
	{"message", "bytes", func(n int) *pj.Field { return pj.FM("u_x", n, "Inner") }, func(m protoreflect.Message, fd protoreflect.FieldDescriptor) {
		sub := m.Mutable(fd).Message()
		sub.Set(sub.Descriptor().Fields().ByName("iv"), protoreflect.ValueOfInt32(3))
	}},
	{"empty-message", "bytes", func(n int) *pj.Field { return pj.FM("u_x", n, "Inner") }, func(m protoreflect.Message, fd protoreflect.FieldDescriptor) {
		m.Mutable(fd).Message()
	}},
	{"packed-int32", "bytes", func(n int) *pj.Field { return pj.F("u_x", n, pj.Int32).Repeated() }, func(m protoreflect.Message, fd protoreflect.FieldDescriptor) {
		l := m.Mutable(fd).List()
		l.Append(protoreflect.ValueOfInt32(1))
		l.Append(protoreflect.ValueOfInt32(-1))
	}},
	{"repeated-string", "bytes-repeated", func(n int) *pj.Field { return pj.F("u_x", n, pj.String).Repeated() }, func(m protoreflect.Message, fd protoreflect.FieldDescriptor) {
		l := m.Mutable(fd).List()
		l.Append(protoreflect.ValueOfString("p"))
		l.Append(protoreflect.ValueOfString("q"))
	}},
	{"map", "bytes-repeated", func(n int) *pj.Field { return pj.F("u_x", n, pj.Int32).MapOf(pj.String) }, func(m protoreflect.Message, fd protoreflect.FieldDescriptor) {
		mp := m.Mutable(fd).Map()
		mp.Set(protoreflect.ValueOfString("a").MapKey(), protoreflect.ValueOfInt32(1))
		mp.Set(protoreflect.ValueOfString("b").MapKey(), protoreflect.ValueOfInt32(2))
	}},
}

// known part: T{int32 a_f=2; Sub s_m=4; repeated string l_f=6; int32 z_f=8}  Sub{int32 x_f=2; string y_f=4}
// unknown numbers: top 1,3,5,7,9 ; nested (inside Sub) 1,3,5
func unknownProgram(level string, u unk, num int) *pj.Program {
	sub := &pj.Msg{Name: "Sub", Fields: []*pj.Field{pj.F("x_f", 2, pj.Int32), pj.F("y_f", 4, pj.String)}}
	t := &pj.Msg{Name: "T", Fields: []*pj.Field{pj.F("a_f", 2, pj.Int32), pj.FM("s_m", 4, "Sub"), pj.F("l_f", 6, pj.String).Repeated(), pj.F("z_f", 8, pj.Int32)}}
	subF := &pj.Msg{Name: "SubF", Fields: append([]*pj.Field{}, sub.Fields...)}
	tF := &pj.Msg{Name: "TF", Fields: []*pj.Field{pj.F("a_f", 2, pj.Int32), pj.FM("s_m", 4, "SubF"), pj.F("l_f", 6, pj.String).Repeated(), pj.F("z_f", 8, pj.Int32)}}
	if level == "top" {
		tF.Fields = append(tF.Fields, u.field(num))
	} else {
		subF.Fields = append(subF.Fields, u.field(num))
	}
	inner := &pj.Msg{Name: "Inner", Fields: []*pj.Field{pj.F("iv", 1, pj.Int32)}}
	f := &pj.File{Path: "main.proto", Pkg: pj.Pkg, Msgs: []*pj.Msg{inner, sub, t, subF, tF}, Svcs: []*pj.Service{pj.OneMethodService("T", "TF")}}
	return &pj.Program{Name: fmt.Sprintf("unknown/%s/%s/n%d", level, u.tag, num), Main: "main.proto", Files: []*pj.File{f}}
}

func unknownCases(group string, yield func(core.Case) bool) {
	level := strings.TrimPrefix(group, "unknown/")
	nums := []int{1, 3, 5, 7, 9}
	if level == "nested" {
		nums = []int{1, 3, 5}
	}
	for _, u := range unknowns {
		for _, num := range nums {
			for _, present := range []int{7, 5, 2, 0} { // which known members accompany the unknown field (bit0 a_f/x_f, bit1 l_f/y_f, bit2 z_f)
				u, num, present := u, num, present
				prog := unknownProgram(level, u, num)
				cc := &pj.ConvCase{Prog: prog, What: fmt.Sprintf("unknown %s field (%s) number %d at %s level, known members mask %d", u.tag, u.wire, num, level, present),
					Focus: "unknown-field:" + u.wire + "," + level,
					Build: func(ref *pj.Ref) protoreflect.Message {
						m := dynamicpb.NewMessage(ref.Msg(pj.Pkg + ".TF"))
						fs := m.Descriptor().Fields()
						if present&1 != 0 {
							m.Set(fs.ByName("a_f"), protoreflect.ValueOfInt32(21))
						}
						sub := m.Mutable(fs.ByName("s_m")).Message()
						sfs := sub.Descriptor().Fields()
						if present&1 != 0 {
							sub.Set(sfs.ByName("x_f"), protoreflect.ValueOfInt32(22))
						}
						if present&2 != 0 {
							sub.Set(sfs.ByName("y_f"), protoreflect.ValueOfString("why"))
							l := m.Mutable(fs.ByName("l_f")).List()
							l.Append(protoreflect.ValueOfString("l0"))
							l.Append(protoreflect.ValueOfString("l1"))
						}
						if present&4 != 0 {
							m.Set(fs.ByName("z_f"), protoreflect.ValueOfInt32(23))
						}
						if level == "top" {
							u.set(m, fs.ByName("u_x"))
						} else {
							u.set(sub, sfs.ByName("u_x"))
						}
						return m
					}}
				if !yield(convCase(cc, true)) {
					return
				}
			}
		}
	}
}
