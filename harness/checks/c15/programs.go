package c15

import (
	"fmt"

	"verif/checks/pj"
)

// A prog is one generated proto3 program plus the family it belongs to.
type prog struct {
	family string
	p      *pj.Program
}

func single(name string, f *pj.File) *pj.Program {
	f.Path = "main.proto"
	return &pj.Program{Name: name, Main: "main.proto", Files: []*pj.File{f}}
}

// field sets used for messages that share a simple name
type fset struct {
	tag    string
	fields func() []*pj.Field
}

var fsets = map[string]fset{
	"a": {"x:int32", func() []*pj.Field { return []*pj.Field{pj.F("x", 1, pj.Int32)} }},
	"b": {"y,z:string", func() []*pj.Field { return []*pj.Field{pj.F("y", 1, pj.String), pj.F("z", 2, pj.String)} }},
	"c": {"x:string", func() []*pj.Field { return []*pj.Field{pj.F("x", 1, pj.String)} }},
	"d": {"empty", func() []*pj.Field { return nil }},
	"e": {"x:int32@2", func() []*pj.Field { return []*pj.Field{pj.F("x", 2, pj.Int32)} }},
}

// every ordered pair of distinct field sets
func fsetPairs() [][2]string {
	var out [][2]string
	ks := []string{"a", "b", "c", "d", "e"}
	for _, x := range ks {
		for _, y := range ks {
			if x != y {
				out = append(out, [2]string{x, y})
			}
		}
	}
	return out
}

func use(name string, num int, typ, how string) *pj.Field {
	f := pj.FM(name, num, typ)
	switch how {
	case "repeated":
		return f.Repeated()
	case "mapvalue":
		return f.MapOf(pj.String)
	}
	return f
}

// collidePrograms: two distinct message types with the same simple name, arranged in different scopes.
func collidePrograms() []prog {
	var out []prog
	for _, arr := range []string{"nested-siblings", "nested-vs-top", "deep", "packages", "packages-nested"} {
		for _, pr := range fsetPairs() {
			for _, how := range []string{"singular", "repeated", "mapvalue"} {
				f1, f2 := fsets[pr[0]].fields(), fsets[pr[1]].fields()
				name := fmt.Sprintf("collide/%s/%s-%s/%s", arr, pr[0], pr[1], how)
				var p *pj.Program
				var t1, t2 string
				main := &pj.File{Path: "main.proto", Pkg: "p1"}
				files := []*pj.File{main}
				switch arr {
				case "nested-siblings":
					main.Msgs = []*pj.Msg{{Name: "A", Msgs: []*pj.Msg{{Name: "Inner", Fields: f1}}}, {Name: "B", Msgs: []*pj.Msg{{Name: "Inner", Fields: f2}}}}
					t1, t2 = "A.Inner", "B.Inner"
				case "nested-vs-top":
					main.Msgs = []*pj.Msg{{Name: "Inner", Fields: f1}, {Name: "A", Msgs: []*pj.Msg{{Name: "Inner", Fields: f2}}}}
					t1, t2 = "Inner", "A.Inner"
				case "deep":
					main.Msgs = []*pj.Msg{{Name: "A", Msgs: []*pj.Msg{{Name: "B", Msgs: []*pj.Msg{{Name: "Inner", Fields: f1}}}, {Name: "Inner", Fields: f2}}}}
					t1, t2 = "A.B.Inner", "A.Inner"
				case "packages":
					main.Imports = []string{"other.proto"}
					main.Msgs = []*pj.Msg{{Name: "Inner", Fields: f1}}
					files = append(files, &pj.File{Path: "other.proto", Pkg: "p2", Msgs: []*pj.Msg{{Name: "Inner", Fields: f2}}})
					t1, t2 = "Inner", "p2.Inner"
				case "packages-nested":
					main.Imports = []string{"other.proto"}
					main.Msgs = []*pj.Msg{{Name: "A", Msgs: []*pj.Msg{{Name: "Inner", Fields: f1}}}}
					files = append(files, &pj.File{Path: "other.proto", Pkg: "p2", Msgs: []*pj.Msg{{Name: "A", Msgs: []*pj.Msg{{Name: "Inner", Fields: f2}}}}})
					t1, t2 = "A.Inner", "p2.A.Inner"
				}
				main.Msgs = append(main.Msgs,
					&pj.Msg{Name: "Req", Fields: []*pj.Field{use("first", 1, t1, how), use("second", 2, t2, how)}},
					&pj.Msg{Name: "Resp", Fields: []*pj.Field{use("first", 1, t2, how), use("second", 2, t1, how)}})
				main.Svcs = []*pj.Service{pj.OneMethodService("Req", "Resp")}
				p = &pj.Program{Name: name, Main: "main.proto", Files: files}
				out = append(out, prog{"collide", p})
			}
		}
	}
	return out
}

// mapEntryPrograms: identical map field names in different messages (same synthetic entry-message name).
func mapEntryPrograms() []prog {
	var out []prog
	for _, k := range pj.MapKeyKinds {
		for _, order := range []string{"fwd", "rev"} {
			m1 := &pj.Msg{Name: "M1", Fields: []*pj.Field{pj.F("m", 1, pj.Int32).MapOf(pj.String)}}
			m2 := &pj.Msg{Name: "M2", Fields: []*pj.Field{pj.FM("m", 1, "Inner").MapOf(k)}}
			inner := &pj.Msg{Name: "Inner", Fields: []*pj.Field{pj.F("v", 1, pj.Bool)}}
			req := &pj.Msg{Name: "Req"}
			if order == "fwd" {
				req.Fields = []*pj.Field{pj.FM("a", 1, "M1"), pj.FM("b", 2, "M2")}
			} else {
				req.Fields = []*pj.Field{pj.FM("b", 1, "M2"), pj.FM("a", 2, "M1")}
			}
			f := &pj.File{Pkg: "pm", Msgs: []*pj.Msg{m1, m2, inner, req}, Svcs: []*pj.Service{pj.OneMethodService("Req", "Req")}}
			out = append(out, prog{"mapentry", single(fmt.Sprintf("mapentry/%s/%s", pj.KindName(k), order), f)})
		}
	}
	// same map field name, same message type twice and nested maps of the same name at two depths
	{
		lvl2 := &pj.Msg{Name: "L2", Fields: []*pj.Field{pj.F("m", 3, pj.String).MapOf(pj.Int32)}}
		lvl1 := &pj.Msg{Name: "L1", Fields: []*pj.Field{pj.FM("m", 2, "L2").MapOf(pj.Int64)}}
		req := &pj.Msg{Name: "Req", Fields: []*pj.Field{pj.FM("m", 1, "L1").MapOf(pj.Bool)}}
		f := &pj.File{Msgs: []*pj.Msg{lvl2, lvl1, req}, Svcs: []*pj.Service{pj.OneMethodService("Req", "Req")}}
		out = append(out, prog{"mapentry", single("mapentry/depth3", f)})
	}
	return out
}

var enumE = &pj.EnumDecl{Name: "E", Values: []pj.EnumValue{{"E_ZERO", 0}, {"E_ONE", 1}, {"E_NEG", -1}, {"E_MAX", 2147483647}}}

// kindPrograms: every kind x cardinality x packed option x map key kind.
func kindPrograms() []prog {
	var out []prog
	inner := &pj.Msg{Name: "Inner", Fields: []*pj.Field{pj.F("v", 1, pj.Int32)}}
	mk := func(name string, fields []*pj.Field) prog {
		all := &pj.Msg{Name: "All", Fields: fields}
		f := &pj.File{Pkg: "pk", Enums: []*pj.EnumDecl{enumE}, Msgs: []*pj.Msg{inner, all}, Svcs: []*pj.Service{pj.OneMethodService("All", "All")}}
		return prog{"kinds", single("kinds/"+name, f)}
	}
	// singular + repeated of everything
	{
		var fs []*pj.Field
		n := 1
		for _, k := range pj.ScalarKinds {
			fs = append(fs, pj.F("s_"+pj.KindName(k), n, k))
			n++
		}
		fs = append(fs, pj.FE("s_enum", n, "E"), pj.FM("s_msg", n+1, "Inner"))
		n += 2
		for _, k := range pj.ScalarKinds {
			fs = append(fs, pj.F("r_"+pj.KindName(k), n, k).Repeated())
			n++
		}
		fs = append(fs, pj.FE("r_enum", n, "E").Repeated(), pj.FM("r_msg", n+1, "Inner").Repeated())
		out = append(out, mk("singular+repeated", fs))
	}
	// explicit packed options
	for _, pk := range []string{"true", "false"} {
		var fs []*pj.Field
		n := 1
		for _, k := range pj.ScalarKinds {
			if !pj.Packable(k) {
				continue
			}
			fs = append(fs, pj.F("p_"+pj.KindName(k), n, k).Repeated().WithPacked(pk))
			n++
		}
		fs = append(fs, pj.FE("p_enum", n, "E").Repeated().WithPacked(pk))
		out = append(out, mk("packed="+pk, fs))
	}
	// repeated fields that carry field options which say nothing about packedness (alone and next to an explicit
	// packed option): deprecated, json_name
	for oi, opt := range []string{"deprecated = true", "deprecated = false"} {
		var fs []*pj.Field
		n := 1
		for _, k := range pj.ScalarKinds {
			fs = append(fs, pj.F("o_"+pj.KindName(k), n, k).Repeated().WithOption(opt))
			n++
			if pj.Packable(k) {
				fs = append(fs, pj.F("oj_"+pj.KindName(k), n, k).Repeated().WithJSON("J"+pj.KindName(k)), pj.F("op_"+pj.KindName(k), n+1, k).Repeated().WithOption(opt).WithPacked("true"))
				n += 2
			}
		}
		fs = append(fs, pj.FE("o_enum", n, "E").Repeated().WithOption(opt), pj.FM("o_msg", n+1, "Inner").Repeated().WithOption(opt), pj.F("o_single", n+2, pj.Int32).WithOption(opt))
		out = append(out, mk(fmt.Sprintf("unrelated-options/%d", oi), fs))
	}
	// maps: every key kind x {every scalar value kind, enum, message}
	for _, k := range pj.MapKeyKinds {
		var fs []*pj.Field
		n := 1
		for _, v := range pj.ScalarKinds {
			fs = append(fs, pj.F(fmt.Sprintf("m_%s", pj.KindName(v)), n, v).MapOf(k))
			n++
		}
		fs = append(fs, pj.FE("m_enum", n, "E").MapOf(k), pj.FM("m_msg", n+1, "Inner").MapOf(k))
		out = append(out, mk("map/"+pj.KindName(k), fs))
	}
	// field numbers around the tag-size boundaries (2^29-1 is left out: the id map is a dense slice, 4 GiB)
	{
		var fs []*pj.Field
		for i, n := range []int{1, 15, 16, 2047, 2048, 18999, 20000, 65535} {
			fs = append(fs, pj.F(fmt.Sprintf("n%d", i), n, pj.ScalarKinds[i%len(pj.ScalarKinds)]))
		}
		out = append(out, mk("numbers", fs))
		// descending declaration order
		var fr []*pj.Field
		for i := len(fs) - 1; i >= 0; i-- {
			fr = append(fr, fs[i])
		}
		out = append(out, mk("numbers-desc", fr))
	}
	// nested enum and nested message declared inside the using message
	{
		all := &pj.Msg{Name: "All",
			Enums:  []*pj.EnumDecl{{Name: "NE", Values: []pj.EnumValue{{"NE_A", 0}, {"NE_B", 5}}}},
			Msgs:   []*pj.Msg{{Name: "NM", Fields: []*pj.Field{pj.F("q", 7, pj.Sint64)}}},
			Fields: []*pj.Field{pj.FE("ne", 1, "NE"), pj.FM("nm", 2, "NM"), pj.FE("nes", 3, "NE").Repeated(), pj.FM("nms", 4, "NM").Repeated(), pj.FE("nem", 5, "NE").MapOf(pj.Uint32), pj.FM("nmm", 6, "NM").MapOf(pj.Sfixed64)}}
		f := &pj.File{Pkg: "pk.sub", Msgs: []*pj.Msg{all}, Svcs: []*pj.Service{pj.OneMethodService("All", "All")}}
		out = append(out, prog{"kinds", single("kinds/nested-decls", f)})
	}
	return out
}

// DJB32 as used by the library's hash map (re-implemented here; cross-checked in SelfCheck by brute force only).
func djb32(s string) uint32 {
	h := uint32(5381)
	for i := 0; i < len(s); i++ {
		h = h<<5 + h + uint32(s[i])
	}
	return h
}

// zeroHashNames are identifiers whose DJB32 hash is 0 (found offline by a meet-in-the-middle search over
// 7-character suffixes; SelfCheck re-verifies the hash with the harness's own DJB32).
var zeroHashNames = []string{"abljxejza", "zzqgudrxl", "h_gtiaTxc"}

func ab5(n int) []string {
	var out []string
	for i := 0; i < n; i++ {
		b := []byte("aaaaa")
		for j := 0; j < 5; j++ {
			if i>>uint(j)&1 == 1 {
				b[4-j] = 'b'
			}
		}
		out = append(out, string(b))
	}
	return out
}

// namePrograms drive the name map into its different structures and spell JSON names in every way.
func namePrograms() []prog {
	var out []prog
	mk := func(name string, fields []*pj.Field) {
		m := &pj.Msg{Name: "N", Fields: fields}
		f := &pj.File{Pkg: "pn", Msgs: []*pj.Msg{m}, Svcs: []*pj.Service{pj.OneMethodService("N", "N")}}
		out = append(out, prog{"names", single("names/"+name, f)})
	}
	seq := func(names []string) []*pj.Field {
		var fs []*pj.Field
		for i, n := range names {
			fs = append(fs, pj.F(n, i+1, pj.ScalarKinds[i%len(pj.ScalarKinds)]))
		}
		return fs
	}
	mk("one", seq([]string{"a"}))
	mk("first-pos", seq([]string{"a1", "b1", "c1", "d1"}))
	mk("last-pos", seq([]string{"field_a", "field_b", "field_c", "field_d"}))
	mk("beyond-shortest", seq([]string{"k", "kx", "kxy", "kxyz", "kxyzw"}))
	mk("prefix-chain", seq([]string{"a", "ab", "abc", "abd", "b"}))
	mk("snake", seq([]string{"foo_bar", "foo_bar_baz", "_leading", "trailing_", "with_1num", "UPPER_case", "double__under", "x_y_z"}))
	mk("hash20", seq(ab5(20)))
	mk("hash32", seq(ab5(32)))
	{ // hash mode with snake names: name and JSON name are both keys
		var ns []string
		for _, s := range ab5(32) {
			ns = append(ns, s[:2]+"_"+s[2:])
		}
		mk("hash32-snake", seq(ns))
	}
	{ // hash mode, one declared name hashes to 0
		ns := ab5(32)
		ns = append(ns, zeroHashNames[0])
		mk("hash-zero", seq(ns))
	}
	{
		fs := []*pj.Field{
			pj.F("alpha", 1, pj.Int32).WithJSON("ALPHA"),
			pj.F("beta_x", 2, pj.String).WithJSON("beta_x"),
			pj.F("gamma", 3, pj.Bool).WithJSON("g g"),
			pj.F("delta", 4, pj.Bytes).WithJSON("dé"),
			pj.F("eps", 5, pj.Double).WithJSON("@type"),
		}
		mk("explicit-json", fs)
	}
	// json_name may be any string: http-header style names and punctuation below / above the letters (the name
	// tables index keys by byte value)
	mk("explicit-json-headers", []*pj.Field{
		pj.F("content_type", 1, pj.String).WithJSON("content-type"),
		pj.F("request_id", 2, pj.String).WithJSON("x-request-id"),
		pj.F("user_agent", 3, pj.String).WithJSON("user-agent"),
	})
	// a JSON name longer than every proto name of its message (and one shorter than every proto name)
	mk("explicit-json-longer-than-any-name", []*pj.Field{pj.F("id", 1, pj.Int32).WithJSON("identifier"), pj.F("tag", 2, pj.String), pj.F("cnt", 3, pj.Int64).WithJSON("c")})
	mk("explicit-json-punctuation", []*pj.Field{
		pj.F("a_dash", 1, pj.Int32).WithJSON("a-b"), pj.F("a_dot", 2, pj.Int32).WithJSON("a.b"), pj.F("a_sp", 3, pj.Int32).WithJSON("a b"),
		pj.F("a_tilde", 4, pj.Int32).WithJSON("a~b"), pj.F("a_bang", 5, pj.Int32).WithJSON("a!b"), pj.F("a_slash", 6, pj.Int32).WithJSON("a/b"),
		pj.F("a_brace", 7, pj.Int32).WithJSON("a{b"), pj.F("a_del", 8, pj.Int32).WithJSON("a\u007fb"), pj.F("a_hi", 9, pj.Int32).WithJSON("aÿb"),
		pj.F("a_digit", 10, pj.Int32).WithJSON("1st"), pj.F("a_dollar", 11, pj.Int32).WithJSON("$ref"), pj.F("a_plus", 12, pj.Int32).WithJSON("a+b"),
	})
	return out
}

// servicePrograms: service / method arrangements.
func servicePrograms() []prog {
	var out []prog
	a := &pj.Msg{Name: "A", Fields: []*pj.Field{pj.F("x", 1, pj.Int32)}}
	b := &pj.Msg{Name: "B", Fields: []*pj.Field{pj.F("y", 1, pj.String)}}
	c := &pj.Msg{Name: "C", Fields: []*pj.Field{pj.FM("a", 1, "A"), pj.FM("b", 2, "B")}}
	mk := func(name string, svcs []*pj.Service) {
		f := &pj.File{Pkg: "ps", Msgs: []*pj.Msg{a, b, c}, Svcs: svcs}
		out = append(out, prog{"services", single("services/"+name, f)})
	}
	four := []pj.Method{{"Unary", "A", "B", false, false}, {"ClientS", "A", "B", true, false}, {"ServerS", "B", "A", false, true}, {"Bidi", "C", "C", true, true}}
	mk("one-service-4-methods", []*pj.Service{{Name: "S", Methods: four}})
	mk("two-services", []*pj.Service{{Name: "S1", Methods: four[:2]}, {Name: "S2", Methods: four[2:]}})
	mk("three-services", []*pj.Service{{Name: "S1", Methods: four[:1]}, {Name: "S2", Methods: four[1:3]}, {Name: "S3", Methods: four[3:]}})
	mk("empty-last", []*pj.Service{{Name: "S1", Methods: four}, {Name: "S2"}})
	mk("empty-first", []*pj.Service{{Name: "S1"}, {Name: "S2", Methods: four}})
	mk("same-io", []*pj.Service{{Name: "S", Methods: []pj.Method{{"M1", "C", "C", false, false}, {"M2", "A", "C", false, true}, {"M3", "C", "A", true, false}}}})
	mk("method-name-family", []*pj.Service{{Name: "S", Methods: []pj.Method{{"Get", "A", "B", false, false}, {"GetA", "A", "B", true, false}, {"Ge", "B", "A", false, true}, {"get", "B", "B", true, true}}}})
	// imported request / response types
	{
		main := &pj.File{Path: "main.proto", Pkg: "ps", Imports: []string{"dep.proto"}, Msgs: []*pj.Msg{a},
			Svcs: []*pj.Service{{Name: "S", Methods: []pj.Method{{"M", "dep.D", "A", false, false}, {"N", "A", "dep.D", true, false}}}}}
		dep := &pj.File{Path: "dep.proto", Pkg: "dep", Msgs: []*pj.Msg{{Name: "D", Fields: []*pj.Field{pj.F("d", 3, pj.Fixed32), pj.FM("n", 4, "D")}}},
			Svcs: []*pj.Service{{Name: "DepOnly", Methods: []pj.Method{{"Z", "D", "D", false, false}}}}}
		out = append(out, prog{"services", &pj.Program{Name: "services/imported-io", Main: "main.proto", Files: []*pj.File{main, dep}}})
	}
	// import directories: "common/base.proto" exists as given AND under the import directory (a stale copy with
	// other fields), "dep/x.proto" only under it; the name as given is searched first
	{
		main := &pj.File{Path: "svc/main.proto", Pkg: "ps", Imports: []string{"common/base.proto", "dep/x.proto"},
			Svcs: []*pj.Service{{Name: "S", Methods: []pj.Method{{"M", "common.Base", "dep.X", false, false}}}}}
		cur := &pj.File{Path: "common/base.proto", Pkg: "common", Msgs: []*pj.Msg{{Name: "Base", Fields: []*pj.Field{pj.F("caller", 1, pj.String), pj.F("addr", 2, pj.String), pj.F("ts", 3, pj.Int64), pj.F("flag", 4, pj.Bool)}}}}
		stale := &pj.File{Path: "third_party/common/base.proto", Pkg: "common", Msgs: []*pj.Msg{{Name: "Base", Fields: []*pj.Field{pj.F("caller", 1, pj.Int32), pj.F("old", 9, pj.Bytes)}}}}
		x := &pj.File{Path: "third_party/dep/x.proto", Pkg: "dep", Imports: []string{"common/base.proto"}, Msgs: []*pj.Msg{{Name: "X", Fields: []*pj.Field{pj.FM("b", 1, "common.Base"), pj.F("n", 2, pj.Sint32)}}}}
		out = append(out, prog{"services", &pj.Program{Name: "services/import-dirs-shadowed", Main: "svc/main.proto", Files: []*pj.File{main, cur, stale, x}, ImportDirs: []string{"third_party"}}})
	}
	return out
}

// recursionPrograms: self / mutual recursion, also through nested and same-simple-name types.
func recursionPrograms() []prog {
	var out []prog
	mk := func(name string, msgs []*pj.Msg, in, outT string) {
		f := &pj.File{Pkg: "pr", Msgs: msgs, Svcs: []*pj.Service{pj.OneMethodService(in, outT)}}
		out = append(out, prog{"recursion", single("recursion/"+name, f)})
	}
	mk("self-singular", []*pj.Msg{{Name: "R", Fields: []*pj.Field{pj.FM("r", 1, "R"), pj.F("v", 2, pj.Int32)}}}, "R", "R")
	mk("self-repeated", []*pj.Msg{{Name: "R", Fields: []*pj.Field{pj.FM("rs", 1, "R").Repeated(), pj.F("v", 2, pj.Int32)}}}, "R", "R")
	mk("self-map", []*pj.Msg{{Name: "R", Fields: []*pj.Field{pj.FM("rm", 1, "R").MapOf(pj.String), pj.F("v", 2, pj.Int32)}}}, "R", "R")
	mk("self-all", []*pj.Msg{{Name: "R", Fields: []*pj.Field{pj.FM("r", 1, "R"), pj.FM("rs", 2, "R").Repeated(), pj.FM("rm", 3, "R").MapOf(pj.Int32), pj.F("v", 4, pj.Bytes)}}}, "R", "R")
	mk("mutual", []*pj.Msg{{Name: "A", Fields: []*pj.Field{pj.FM("b", 1, "B"), pj.F("x", 2, pj.Int32)}}, {Name: "B", Fields: []*pj.Field{pj.FM("a", 1, "A"), pj.F("y", 2, pj.String)}}}, "A", "B")
	mk("mutual-3", []*pj.Msg{{Name: "A", Fields: []*pj.Field{pj.FM("b", 1, "B")}}, {Name: "B", Fields: []*pj.Field{pj.FM("c", 1, "C").Repeated()}}, {Name: "C", Fields: []*pj.Field{pj.FM("a", 1, "A").MapOf(pj.Uint64), pj.F("leaf", 2, pj.Float)}}}, "A", "C")
	mk("nested-recursive", []*pj.Msg{{Name: "Tree", Msgs: []*pj.Msg{{Name: "Node", Fields: []*pj.Field{pj.FM("kids", 1, "Node").Repeated(), pj.FM("up", 2, "Tree")}}}, Fields: []*pj.Field{pj.FM("root", 1, "Node")}}}, "Tree", "Tree.Node")
	mk("same-name-mutual", []*pj.Msg{
		{Name: "A", Msgs: []*pj.Msg{{Name: "Node", Fields: []*pj.Field{pj.FM("other", 1, "B.Node"), pj.F("x", 2, pj.Int32)}}}},
		{Name: "B", Msgs: []*pj.Msg{{Name: "Node", Fields: []*pj.Field{pj.FM("other", 1, "A.Node"), pj.F("y", 3, pj.String)}}}},
		{Name: "Req", Fields: []*pj.Field{pj.FM("a", 1, "A.Node"), pj.FM("b", 2, "B.Node")}}}, "Req", "Req")
	// scoping: C inside A.B refers to A.B.C, C inside A refers to A.C
	mk("relative-scope", []*pj.Msg{{Name: "A",
		Msgs: []*pj.Msg{
			{Name: "B", Msgs: []*pj.Msg{{Name: "C", Fields: []*pj.Field{pj.F("deep", 1, pj.Int64)}}}, Fields: []*pj.Field{pj.FM("c", 1, "C")}},
			{Name: "C", Fields: []*pj.Field{pj.F("shallow", 1, pj.String), pj.F("more", 2, pj.Bool)}}},
		Fields: []*pj.Field{pj.FM("b", 1, "B"), pj.FM("c", 2, "C")}}}, "A", "A")
	return out
}

// targetPrograms: the same messages reached as request and as response, in both orders.
func targetPrograms() []prog {
	var out []prog
	sub := &pj.Msg{Name: "Sub", Fields: []*pj.Field{pj.F("s", 1, pj.String)}}
	x := &pj.Msg{Name: "X", Fields: []*pj.Field{pj.FM("sub", 1, "Sub"), pj.F("n", 2, pj.Int32)}}
	y := &pj.Msg{Name: "Y", Fields: []*pj.Field{pj.FM("sub", 1, "Sub").Repeated(), pj.FM("x", 2, "X")}}
	for i, ms := range [][]pj.Method{
		{{"M1", "X", "Y", false, false}, {"M2", "Y", "X", false, false}},
		{{"M1", "Y", "X", false, false}, {"M2", "X", "Y", false, false}, {"M3", "Sub", "Sub", false, false}},
		{{"M1", "X", "X", false, false}, {"M2", "X", "X", false, false}},
	} {
		f := &pj.File{Pkg: "pt", Msgs: []*pj.Msg{sub, x, y}, Svcs: []*pj.Service{{Name: "S", Methods: ms}}}
		out = append(out, prog{"targets", single(fmt.Sprintf("targets/%d", i), f)})
	}
	return out
}

// numberPrograms: field numbers on and next to every power of two from 2^4 to 2^17 (tag width edges 15/16,
// 2047/2048; table-size edges of any dense / split by-number index), in three messages reached as request root,
// as response root and nested, one of them with the numbers declared in descending order.
func numberPrograms() []prog {
	var nums []int
	for e := uint(4); e <= 17; e++ {
		for d := -1; d <= 1; d++ {
			nums = append(nums, 1<<e+d)
		}
	}
	mk := func(name string, ns []int, rev bool) *pj.Msg {
		m := &pj.Msg{Name: name}
		for i := range ns {
			n := ns[i]
			if rev {
				n = ns[len(ns)-1-i]
			}
			if n >= 19000 && n <= 19999 {
				continue // reserved range
			}
			m.Fields = append(m.Fields, pj.F(fmt.Sprintf("n%d", n), n, pj.Int32))
		}
		return m
	}
	var even, odd []int
	for i, n := range nums {
		if i%2 == 0 {
			even = append(even, n)
		} else {
			odd = append(odd, n)
		}
	}
	inner := mk("Inner", odd, true)
	req := mk("Req", nums, false)
	req.Fields = append(req.Fields, pj.FM("inner", 3, "Inner"))
	resp := mk("Resp", even, true)
	f := &pj.File{Pkg: "pn", Msgs: []*pj.Msg{inner, req, resp}, Svcs: []*pj.Service{{Name: "S", Methods: []pj.Method{{"M", "Req", "Resp", false, false}}}}}
	// sparse numbering x declaration order: every permutation of {2,7,2000,40000} and of {3,5,7,2000,40000} as a
	// message of its own (a table organised by number must not assume the declaration order)
	var perms func(a []int, k int, out *[][]int)
	perms = func(a []int, k int, out *[][]int) {
		if k == len(a) {
			*out = append(*out, append([]int{}, a...))
			return
		}
		for i := k; i < len(a); i++ {
			a[k], a[i] = a[i], a[k]
			perms(a, k+1, out)
			a[k], a[i] = a[i], a[k]
		}
	}
	var orders [][]int
	perms([]int{2, 7, 2000, 40000}, 0, &orders)
	perms([]int{3, 5, 7, 2000, 40000}, 0, &orders)
	oreq := &pj.Msg{Name: "OReq"}
	of := &pj.File{Pkg: "po", Svcs: []*pj.Service{{Name: "S", Methods: []pj.Method{{"M", "OReq", "OReq", false, false}}}}}
	for i, o := range orders {
		m := mk(fmt.Sprintf("P%d", i), o, false)
		of.Msgs = append(of.Msgs, m)
		oreq.Fields = append(oreq.Fields, pj.FM(fmt.Sprintf("p%d", i), i+1, m.Name))
	}
	of.Msgs = append(of.Msgs, oreq)
	return []prog{{"numbers", single("numbers/pow2", f)}, {"numbers", single("numbers/orders", of)}}
}

// sizePrograms: a shallow schema (real nesting depth 3) that names an already compiled message type more often than
// any recursion / size limit of the library counts to (proto.DefaultRecursionLimit = 10000): 106 messages with 100
// singular or repeated fields of one leaf type each.
func sizePrograms() []prog {
	leaf := &pj.Msg{Name: "Leaf", Fields: []*pj.Field{pj.F("v", 1, pj.Int32)}}
	root := &pj.Msg{Name: "Root"}
	msgs := []*pj.Msg{leaf}
	for i := 0; i < 106; i++ {
		m := &pj.Msg{Name: fmt.Sprintf("M%d", i)}
		for j := 1; j <= 100; j++ {
			f := pj.FM(fmt.Sprintf("f%d", j), j, "Leaf")
			if j%2 == 0 {
				f = f.Repeated()
			}
			m.Fields = append(m.Fields, f)
		}
		msgs = append(msgs, m)
		root.Fields = append(root.Fields, pj.FM(fmt.Sprintf("m%d", i), i+1, m.Name))
	}
	msgs = append(msgs, root)
	f := &pj.File{Pkg: "pz", Msgs: msgs, Svcs: []*pj.Service{pj.OneMethodService("Root", "Root")}}
	return []prog{{"size", single("size/10600-references-to-one-leaf-type", f)}}
}

func allPrograms() []prog {
	var out []prog
	out = append(out, servicePrograms()...)
	out = append(out, numberPrograms()...)
	out = append(out, namePrograms()...)
	out = append(out, kindPrograms()...)
	out = append(out, recursionPrograms()...)
	out = append(out, targetPrograms()...)
	out = append(out, mapEntryPrograms()...)
	out = append(out, collidePrograms()...)
	out = append(out, sizePrograms()...)
	return out
}
