// Package c15: Protobuf descriptors mirror the schema.
//
// Generated proto3 programs are parsed by dynamicgo (proto.Options.NewDesccriptorFromContent) and by the
// reference parser (jhump/protoreflect protoparse -> desc). The two descriptor graphs are walked in
// lock-step from every method's input/output type; every lookup (field number 0..max+2, every key of
// the key alphabet, every method name key) is compared with the declaration.
package c15

import (
	"context"
	"fmt"
	"sort"
	"strings"

	"github.com/cloudwego/dynamicgo/meta"
	dproto "github.com/cloudwego/dynamicgo/proto"
	"github.com/jhump/protoreflect/desc"
	"google.golang.org/protobuf/types/descriptorpb"

	"verif/checks/pj"
	"verif/engine/core"
)

type check struct{}

func init() { core.Register(check{}) }

func (check) ID() string    { return "C15" }
func (check) Level() string { return "exploration" }
func (check) Rule() string {
	return "bounded-exhaustive enumeration of generated proto3 programs (families: services, numbers, names, kinds, recursion, targets, mapentry, collide) x ParseServiceMode{Last,First,Combine} x aspect{service, structure, lookups}; the structure aspect walks dynamicgo's descriptor graph in lock-step with the reference (jhump desc) graph from every method input/output; the lookups aspect evaluates ByNumber for every n in 0..max+2 and ByName/ByJSONName for every key of the alphabet {declared names and JSON names, every proper prefix incl. the empty key, every one-byte extension and every single-position substitution over 9 symbols (quick) / all 256 byte values and a 2-byte rune (thorough)} on every reachable message, and LookupMethodByName over the same alphabet of the method names. A case is non-trivial if it is distinct by (program, mode, aspect) and compared at least one accessor. Later additions: numbers on powers of two, sparse numbers in every declaration order, options unrelated to the descriptor, parses with the includes map left behind by an earlier parse (service and structure aspects). Round 8: a size program with 10600 references to one already compiled leaf type. Round 9: header-style and punctuation json_names. Round 10: the other case style of every declared key in the lookup alphabet. Round 11: a json_name longer than every proto name of its message."
}
func (check) Assumptions() []string {
	return []string{
		"oracle = jhump/protoreflect desc of the same source text, cross-checked against the generator's own structure in SelfCheck",
		"ByName and ByJSONName share one table in dynamicgo by design: a key is 'declared' for either accessor if it is the name or the JSON name of a field; only when one key is the name of one field and the JSON name of another is the accessor-specific answer demanded",
		"CombineServices: method names are unique across services (documented precondition)",
		"field number 2^29-1 is not enumerated: the id table is a dense slice (4 GiB)",
	}
}

var modes = []struct {
	name string
	m    meta.ParseServiceMode
}{{"last", meta.LastServiceOnly}, {"first", meta.FirstServiceOnly}, {"combine", meta.CombineServices}}

const chunk = 6

type group struct {
	name  string
	progs []prog
}

var groupsMemo []group

// symbolsFor: quick = the 9-symbol alphabet of DESIGN C14/C15; thorough = every single byte plus the 2-byte rune.
func setTier(tier string) {
	if tier == "thorough" && len(symbols) < 200 {
		symbols = nil
		for b := 0; b < 256; b++ {
			symbols = append(symbols, string([]byte{byte(b)}))
		}
		symbols = append(symbols, "é")
	}
}

func groups() []group {
	if groupsMemo != nil {
		return groupsMemo
	}
	all := allPrograms()
	var gs []group
	i := 0
	for i < len(all) {
		j := i
		for j < len(all) && j-i < chunk && all[j].family == all[i].family {
			j++
		}
		gs = append(gs, group{name: fmt.Sprintf("%s/%d", all[i].family, len(gs)), progs: all[i:j]})
		i = j
	}
	groupsMemo = gs
	return gs
}

func (check) Groups(tier string, seed int64) []string {
	var out []string
	for _, g := range groups() {
		out = append(out, g.name)
	}
	return out
}

type caseDesc struct {
	Program string `json:"program"`
	Mode    string `json:"mode"`
	Aspect  string `json:"aspect"`
	Source  string `json:"source"`
}

// parsed is the per-process memo of the last parsed (program, mode).
type parsed struct {
	key string
	ref *pj.Ref
	svc *dproto.ServiceDescriptor
	err error
	pi  *core.PanicInfo
}

var last parsed

const primerSource = "syntax = \"proto3\";\npackage primer;\nmessage PrimerOnly {\n  int32 x = 1;\n}\nservice PrimerSvc {\n  rpc P(PrimerOnly) returns (PrimerOnly);\n}\n"

// parse: reused=false hands the parser a fresh includes map; reused=true hands it the map of an EARLIER parse of
// another text under the same main path (an application that keeps one map for all its loads): the descriptor must
// mirror the text of THIS call either way.
func parse(p *pj.Program, mi int, reused bool) *parsed {
	key := fmt.Sprintf("%s|%d|%v", p.Name, mi, reused)
	if last.key == key {
		return &last
	}
	last = parsed{key: key}
	ref, err := pj.CompileRef(p)
	if err != nil {
		panic("harness: " + err.Error())
	}
	last.ref = ref
	last.pi = core.Catch(func() {
		opts := dproto.Options{ParseServiceMode: modes[mi].m}
		if !reused {
			last.svc, last.err = pj.Dynamicgo(p, opts)
			return
		}
		inc := map[string]string{}
		if _, perr := opts.NewDesccriptorFromContent(context.Background(), p.Main, primerSource, inc); perr != nil {
			panic("harness: the primer program does not parse: " + perr.Error())
		}
		src := p.Sources()
		for k, v := range src {
			if k != p.Main {
				inc[k] = v
			}
		}
		last.svc, last.err = opts.NewDesccriptorFromContent(context.Background(), p.Main, src[p.Main], inc, p.ImportDirs...)
	})
	return &last
}

func (check) Enumerate(tier string, seed int64, gi int, yield func(core.Case) bool) {
	setTier(tier)
	g := groups()[gi]
	for _, pr := range g.progs {
		for mi := range modes {
			for _, aspect := range []string{"service", "structure", "lookups"} {
				pr, mi, aspect := pr, mi, aspect
				c := core.Case{
					Tag:  pr.family + "," + aspect,
					Desc: func() interface{} { return caseDesc{pr.p.Name, modes[mi].name, aspect, pr.p.SourceDump()} },
					Run: func() core.Result {
						r := core.Result{Class: "ok", Key: pr.p.Name + "|" + modes[mi].name + "|" + aspect}
						ps := parse(pr.p, mi, aspect != "lookups")
						if ps.pi != nil {
							r.Class = "parse-panic"
							r.Add("parse|"+pr.family+"|panic@"+ps.pi.Site+":"+core.PanicClass(ps.pi.Val), "parsing %s panics: %s\n%s", pr.p.Name, ps.pi.Val, ps.pi.Stack)
							return r
						}
						want := expectedServices(ps.ref.File, modes[mi].m)
						if ps.err != nil {
							r.Class = "parse-error"
							r.Add("parse|"+pr.family+"|error-on-valid-file", "valid proto3 program %s rejected: %v", pr.p.Name, ps.err)
							return r
						}
						w := &walker{r: &r, fqnSimple: simpleNameIndex(ps.ref.File)}
						pi := core.Catch(func() {
							switch aspect {
							case "service":
								checkService(w, ps.svc, ps.ref.File, want, modes[mi].m)
							case "structure":
								w.lookups = false
								walkAll(w, ps.svc, want)
							case "lookups":
								w.lookups = true
								w.quiet = true
								walkAll(w, ps.svc, want)
							}
						})
						if pi != nil {
							r.Class = "panic"
							r.Add(aspect+"|"+pr.family+"|panic@"+pi.Site+":"+core.PanicClass(pi.Val), "panic: %s\n%s", pi.Val, pi.Stack)
						}
						r.Count("accessor_comparisons", w.cmp)
						r.Count("lookups", w.nlook)
						r.Count("messages_walked", w.nmsg)
						if len(r.Viol) > 0 && r.Class == "ok" {
							r.Class = "violation:" + aspect
						} else if r.Class == "ok" {
							r.Class = "ok:" + aspect
							if w.shared > 0 {
								r.Class = "ok:" + aspect + "(shared-identity-skipped)"
							}
						}
						if w.cmp == 0 && w.nlook == 0 {
							r.Key = ""
						}
						return r
					},
				}
				if !yield(c) {
					return
				}
			}
		}
	}
}

// ---- expected services ----

func expectedServices(fd *desc.FileDescriptor, m meta.ParseServiceMode) []*desc.ServiceDescriptor {
	svcs := fd.GetServices()
	switch m {
	case meta.LastServiceOnly:
		return svcs[len(svcs)-1:]
	case meta.FirstServiceOnly:
		return svcs[:1]
	}
	return svcs
}

// Key alphabet (DESIGN C14/C15): substitution / extension symbols.
var symbols = []string{"-", ".", "/", "0", "A", "z", "\x7f", "\x00", "é"}

// keyAlphabet returns the deterministic, de-duplicated key set for a set of declared keys, with its class.
func keyAlphabet(declared []string) (keys []string, class map[string]string) {
	class = map[string]string{}
	add := func(k, c string) {
		if _, ok := class[k]; !ok {
			class[k] = c
			keys = append(keys, k)
		}
	}
	for _, d := range declared {
		add(d, "declared")
	}
	add("", "empty")
	// the other case style of every declared key (snake_case -> lowerCamel and back): declared only if some field
	// really has it as its name / JSON name
	for _, d := range declared {
		add(lowerCamel(d), "other-case-style")
		var sn []byte
		for i := 0; i < len(d); i++ {
			if c := d[i]; c >= 'A' && c <= 'Z' {
				sn = append(sn, '_', c+'a'-'A')
			} else {
				sn = append(sn, c)
			}
		}
		add(string(sn), "other-case-style")
	}
	for _, d := range declared {
		for i := 1; i < len(d); i++ {
			add(d[:i], "prefix")
		}
		for _, s := range symbols {
			add(d+s, "extension")
		}
		for i := 0; i < len(d); i++ {
			for _, s := range symbols {
				add(d[:i]+s+d[i+1:], "substitution")
			}
		}
	}
	return
}

func checkService(w *walker, svc *dproto.ServiceDescriptor, fd *desc.FileDescriptor, want []*desc.ServiceDescriptor, m meta.ParseServiceMode) {
	r := w.r
	if m != meta.CombineServices {
		w.cmp++
		if svc.Name() != want[0].GetName() {
			r.Add("Service.Name|mode="+modeName(m)+"|wrong-name", "service name %q want %q", svc.Name(), want[0].GetName())
		}
	}
	w.cmp++
	if svc.IsCombinedServices() != (m == meta.CombineServices) {
		r.Add("Service.IsCombinedServices|mode="+modeName(m)+"|wrong-flag", "IsCombinedServices=%v", svc.IsCombinedServices())
	}
	w.cmp++
	if svc.PackageName() != fd.GetPackage() {
		r.Add("Service.PackageName|any|wrong-package", "package %q want %q", svc.PackageName(), fd.GetPackage())
	}
	exp := map[string]*desc.MethodDescriptor{}
	var names []string
	for _, s := range want {
		for _, md := range s.GetMethods() {
			exp[md.GetName()] = md
			names = append(names, md.GetName())
		}
	}
	got := svc.Methods()
	var gotNames []string
	for k := range got {
		gotNames = append(gotNames, k)
	}
	sort.Strings(gotNames)
	for _, k := range gotNames {
		w.cmp++
		if exp[k] == nil {
			r.Add("Service.Methods|mode="+modeName(m)+"|undeclared-method", "Methods() contains %q which mode %s does not select", k, modeName(m))
		}
	}
	for _, n := range names {
		w.cmp++
		if got[n] == nil {
			r.Add("Service.Methods|mode="+modeName(m)+"|method-missing", "Methods() lacks declared method %q", n)
		}
	}
	keys, class := keyAlphabet(names)
	for _, k := range keys {
		w.nlook++
		md := svc.LookupMethodByName(k)
		e := exp[k]
		switch {
		case e == nil && md != nil:
			r.Add("Service.LookupMethodByName|key="+class[k]+"|found-undeclared", "LookupMethodByName(%q) returns method %q", k, md.Name())
		case e != nil && md == nil:
			r.Add("Service.LookupMethodByName|key="+class[k]+"|declared-not-found", "LookupMethodByName(%q) returns nil", k)
		case e != nil:
			w.cmp += 3
			if md.Name() != e.GetName() {
				r.Add("Method.Name|any|wrong-name", "method %q has Name()=%q", k, md.Name())
			}
			if md.IsClientStreaming() != e.IsClientStreaming() {
				r.Add("Method.IsClientStreaming|cs="+fmt.Sprint(e.IsClientStreaming())+",ss="+fmt.Sprint(e.IsServerStreaming())+"|wrong-flag", "method %q IsClientStreaming=%v want %v", k, md.IsClientStreaming(), e.IsClientStreaming())
			}
			if md.IsServerStreaming() != e.IsServerStreaming() {
				r.Add("Method.IsServerStreaming|cs="+fmt.Sprint(e.IsClientStreaming())+",ss="+fmt.Sprint(e.IsServerStreaming())+"|wrong-flag", "method %q IsServerStreaming=%v want %v", k, md.IsServerStreaming(), e.IsServerStreaming())
			}
			w.cmp += 2
			if md.Input() == nil || md.Input().Type() != dproto.MESSAGE || md.Input().Message() == nil {
				r.Add("Method.Input|any|not-a-message", "method %q Input() is not a message type", k)
			}
			if md.Output() == nil || md.Output().Type() != dproto.MESSAGE || md.Output().Message() == nil {
				r.Add("Method.Output|any|not-a-message", "method %q Output() is not a message type", k)
			}
		}
	}
}

func modeName(m meta.ParseServiceMode) string {
	for _, x := range modes {
		if x.m == m {
			return x.name
		}
	}
	return "?"
}

// ---- lock-step walk ----

type pairKey struct {
	dg  *dproto.MessageDescriptor
	fqn string
}

type walker struct {
	r         *core.Result
	lookups   bool // run the exhaustive lookups on every reachable message
	quiet     bool // do not report structural differences (the structure aspect does)
	seen      map[pairKey]bool
	owner     map[*dproto.MessageDescriptor]string // first fully-qualified message reached for a dynamicgo descriptor
	fqnSimple map[string][]nameRef                 // simple name -> messages of the program with that simple name
	cmp       int64
	nlook     int64
	nmsg      int64
	shared    int
}

type nameRef struct{ fqn, pkg string }

func simpleNameIndex(fd *desc.FileDescriptor) map[string][]nameRef {
	idx := map[string][]nameRef{}
	seenF := map[string]bool{}
	var file func(f *desc.FileDescriptor)
	var msg func(m *desc.MessageDescriptor)
	msg = func(m *desc.MessageDescriptor) {
		idx[m.GetName()] = append(idx[m.GetName()], nameRef{m.GetFullyQualifiedName(), m.GetFile().GetPackage()})
		for _, n := range m.GetNestedMessageTypes() {
			msg(n)
		}
	}
	file = func(f *desc.FileDescriptor) {
		if seenF[f.GetName()] {
			return
		}
		seenF[f.GetName()] = true
		for _, m := range f.GetMessageTypes() {
			msg(m)
		}
		for _, d := range f.GetDependencies() {
			file(d)
		}
	}
	file(fd)
	return idx
}

func walkAll(w *walker, svc *dproto.ServiceDescriptor, want []*desc.ServiceDescriptor) {
	w.seen = map[pairKey]bool{}
	w.owner = map[*dproto.MessageDescriptor]string{}
	for _, s := range want {
		for _, e := range s.GetMethods() {
			md := svc.LookupMethodByName(e.GetName())
			if md == nil {
				continue // reported by the service aspect
			}
			path := e.GetName()
			// request and response descriptors are separate parses in dynamicgo: own identity spaces
			w.owner = map[*dproto.MessageDescriptor]string{}
			if in := md.Input(); in != nil && in.Message() != nil {
				w.message(in.Message(), e.GetInputType(), path+".in")
			}
			w.owner = map[*dproto.MessageDescriptor]string{}
			if out := md.Output(); out != nil && out.Message() != nil {
				w.message(out.Message(), e.GetOutputType(), path+".out")
			}
		}
	}
}

func (w *walker) add(sig, format string, a ...interface{}) {
	if w.quiet {
		return
	}
	w.r.Add(sig, format, a...)
}

// relation of a message to the other messages of the program that share its simple name
func (w *walker) nameRelation(rm *desc.MessageDescriptor) string {
	others := w.fqnSimple[rm.GetName()]
	pre := "simple-name"
	if rm.IsMapEntry() {
		pre = "map-entry-name"
	}
	if len(others) <= 1 {
		return pre + "-unique"
	}
	for _, o := range others {
		if o.fqn != rm.GetFullyQualifiedName() && o.pkg != rm.GetFile().GetPackage() {
			return pre + "-shared-across-packages"
		}
	}
	return pre + "-shared-in-nested-scopes"
}

func (w *walker) message(md *dproto.MessageDescriptor, rm *desc.MessageDescriptor, path string) {
	if md == nil {
		w.add("descriptor-identity|"+w.nameRelation(rm)+"|nil-message-descriptor", "%s: no message descriptor for %s", path, rm.GetFullyQualifiedName())
		return
	}
	k := pairKey{md, rm.GetFullyQualifiedName()}
	if w.seen[k] {
		return
	}
	w.seen[k] = true
	w.nmsg++
	if o, ok := w.owner[md]; ok && o != rm.GetFullyQualifiedName() {
		// the very same descriptor object stands for two different message types
		w.shared++
		if !w.lookups {
			w.r.Add("descriptor-identity|"+w.nameRelation(rm)+"|one-descriptor-for-distinct-message-types",
				"%s: the field's message type is %s but its descriptor is the object already handed out for %s (fields of %s: %s; fields exposed: %s)",
				path, rm.GetFullyQualifiedName(), o, rm.GetFullyQualifiedName(), refFields(rm), dgFields(md, rm))
		}
		return
	}
	w.owner[md] = rm.GetFullyQualifiedName()

	maxN := int32(0)
	for _, rf := range rm.GetFields() {
		if rf.GetNumber() > maxN {
			maxN = rf.GetNumber()
		}
	}
	rel := w.nameRelation(rm)
	// structure: every declared field
	for _, rf := range rm.GetFields() {
		f := md.ByNumber(dproto.FieldNumber(rf.GetNumber()))
		w.cmp++
		if f == nil {
			w.add("Message.ByNumber|number=declared,"+rel+"|declared-not-found", "%s: %s field %s=%d: ByNumber returns nil", path, rm.GetFullyQualifiedName(), rf.GetName(), rf.GetNumber())
			continue
		}
		w.field(f, rf, path+"/"+rf.GetName())
	}
	// FieldsCount
	w.cmp++
	if got := md.FieldsCount(); got != len(rm.GetFields()) {
		cls := "dense-numbers"
		if int(maxN) != len(rm.GetFields()) {
			cls = "sparse-numbers"
		}
		if len(rm.GetFields()) == 0 {
			cls = "no-fields"
		}
		w.add("Message.FieldsCount|"+cls+"|count-differs-from-declared", "%s: %s declares %d fields (max number %d), FieldsCount()=%d", path, rm.GetFullyQualifiedName(), len(rm.GetFields()), maxN, got)
	}
	if w.lookups {
		w.lookupAll(md, rm, path, maxN)
	}
}

func refFields(rm *desc.MessageDescriptor) string {
	var s []string
	for _, f := range rm.GetFields() {
		s = append(s, fmt.Sprintf("%s=%d:%s", f.GetName(), f.GetNumber(), strings.TrimPrefix(f.GetType().String(), "TYPE_")))
	}
	return "{" + strings.Join(s, ",") + "}"
}

func dgFields(md *dproto.MessageDescriptor, rm *desc.MessageDescriptor) string {
	var s []string
	for n := 0; n <= 8; n++ {
		if f := md.ByNumber(dproto.FieldNumber(n)); f != nil {
			t := "?"
			if f.Type() != nil {
				t = f.Type().Type().String()
			}
			s = append(s, fmt.Sprintf("%s=%d:%s", f.Name(), f.Number(), t))
		}
	}
	return "{" + strings.Join(s, ",") + "}"
}

func kindClass(rf *desc.FieldDescriptor) string {
	var c string
	switch {
	case rf.IsMap():
		c = "map"
	case rf.IsRepeated():
		c = "repeated"
	default:
		c = "singular"
	}
	t := rf.GetType()
	if rf.IsMap() {
		t = rf.GetMapValueType().GetType()
	}
	switch t {
	case descriptorpb.FieldDescriptorProto_TYPE_MESSAGE:
		c += "-message"
	case descriptorpb.FieldDescriptorProto_TYPE_ENUM:
		c += "-enum"
	case descriptorpb.FieldDescriptorProto_TYPE_STRING, descriptorpb.FieldDescriptorProto_TYPE_BYTES:
		c += "-bytes-like"
	default:
		c += "-number"
	}
	return c
}

func wireOf(t descriptorpb.FieldDescriptorProto_Type) dproto.WireType {
	switch t {
	case descriptorpb.FieldDescriptorProto_TYPE_DOUBLE, descriptorpb.FieldDescriptorProto_TYPE_FIXED64, descriptorpb.FieldDescriptorProto_TYPE_SFIXED64:
		return dproto.Fixed64Type
	case descriptorpb.FieldDescriptorProto_TYPE_FLOAT, descriptorpb.FieldDescriptorProto_TYPE_FIXED32, descriptorpb.FieldDescriptorProto_TYPE_SFIXED32:
		return dproto.Fixed32Type
	case descriptorpb.FieldDescriptorProto_TYPE_STRING, descriptorpb.FieldDescriptorProto_TYPE_BYTES, descriptorpb.FieldDescriptorProto_TYPE_MESSAGE:
		return dproto.BytesType
	}
	return dproto.VarintType
}

func expectPacked(rf *desc.FieldDescriptor) (bool, string) {
	if !rf.IsRepeated() || rf.IsMap() {
		return false, "n/a"
	}
	switch rf.GetType() {
	case descriptorpb.FieldDescriptorProto_TYPE_STRING, descriptorpb.FieldDescriptorProto_TYPE_BYTES, descriptorpb.FieldDescriptorProto_TYPE_MESSAGE:
		return false, "not-packable"
	}
	if o := rf.GetFieldOptions(); o != nil && o.Packed != nil {
		if *o.Packed {
			return true, "packed=true"
		}
		return false, "packed=false"
	}
	return true, "packed-default"
}

// scalar/elem type descriptor vs a reference type
func (w *walker) elemType(t *dproto.TypeDescriptor, rt descriptorpb.FieldDescriptorProto_Type, rmsg *desc.MessageDescriptor, what, cls, path string) {
	w.cmp++
	if t == nil {
		w.add("Type."+what+"|"+cls+"|nil", "%s: %s type descriptor is nil", path, what)
		return
	}
	w.cmp += 2
	if int(t.Type()) != int(rt) {
		w.add("Type."+what+".Type|"+cls+"|wrong-type", "%s: %s Type()=%s want kind %d (%s)", path, what, t.Type(), int(rt), rt)
		return
	}
	if t.WireType() != wireOf(rt) {
		w.add("Type."+what+".WireType|"+cls+"|wrong-wire-type", "%s: %s WireType()=%s want %s", path, what, t.WireType(), wireOf(rt))
	}
	if rt == descriptorpb.FieldDescriptorProto_TYPE_MESSAGE {
		w.message(t.Message(), rmsg, path)
	}
}

func (w *walker) field(f *dproto.FieldDescriptor, rf *desc.FieldDescriptor, path string) {
	cls := kindClass(rf)
	w.cmp += 6
	if int32(f.Number()) != rf.GetNumber() {
		w.add("Field.Number|"+cls+"|wrong-number", "%s: Number()=%d want %d", path, f.Number(), rf.GetNumber())
	}
	if f.Name() != rf.GetName() {
		w.add("Field.Name|"+cls+"|wrong-name", "%s: Name()=%q want %q", path, f.Name(), rf.GetName())
	}
	if f.JSONName() != rf.GetJSONName() {
		w.add("Field.JSONName|"+cls+"|wrong-json-name", "%s: JSONName()=%q want %q", path, f.JSONName(), rf.GetJSONName())
	}
	if int(f.Kind()) != int(rf.GetType()) {
		w.add("Field.Kind|"+cls+"|wrong-kind", "%s: Kind()=%s want %s", path, f.Kind(), rf.GetType())
	}
	isList := rf.IsRepeated() && !rf.IsMap()
	if f.IsList() != isList {
		w.add("Field.IsList|"+cls+"|wrong-structure", "%s: IsList()=%v want %v", path, f.IsList(), isList)
	}
	if f.IsMap() != rf.IsMap() {
		w.add("Field.IsMap|"+cls+"|wrong-structure", "%s: IsMap()=%v want %v", path, f.IsMap(), rf.IsMap())
	}
	t := f.Type()
	if t == nil {
		w.add("Field.Type|"+cls+"|nil", "%s: Type() is nil", path)
		return
	}
	wantPacked, pcls := expectPacked(rf)
	w.cmp++
	if t.IsPacked() != wantPacked {
		w.add("Type.IsPacked|"+cls+","+pcls+"|wrong-packedness", "%s: IsPacked()=%v, declared %s", path, t.IsPacked(), pcls)
	}
	switch {
	case rf.IsMap():
		w.cmp += 3
		if t.Type() != dproto.MAP {
			w.add("Field.Type|"+cls+"|not-MAP", "%s: Type().Type()=%s want MAP", path, t.Type())
			return
		}
		if int32(t.BaseId()) != rf.GetNumber() {
			w.add("Type.BaseId|"+cls+"|wrong-number", "%s: BaseId()=%d want %d", path, t.BaseId(), rf.GetNumber())
		}
		if t.WireType() != dproto.BytesType {
			w.add("Type.WireType|"+cls+"|wrong-wire-type", "%s: WireType()=%s want BytesType", path, t.WireType())
		}
		kf, vf := rf.GetMapKeyType(), rf.GetMapValueType()
		kcls := cls + ",key=" + strings.ToLower(strings.TrimPrefix(kf.GetType().String(), "TYPE_"))
		w.elemType(t.Key(), kf.GetType(), nil, "Key", kcls, path+"<key>")
		w.elemType(t.Elem(), vf.GetType(), vf.GetMessageType(), "Elem", cls, path+"<value>")
		w.cmp += 2
		if f.MapKey() != t.Key() || f.MapValue() != t.Elem() {
			w.add("Field.MapKey/MapValue|"+cls+"|differs-from-Type", "%s: MapKey()/MapValue() differ from Type().Key()/Elem()", path)
		}
		// the synthetic entry message (used by the JSON->protobuf converter to find the value field)
		w.message(f.Message(), rf.GetMessageType(), path+"<entry>")
	case isList:
		w.cmp += 2
		if t.Type() != dproto.LIST {
			w.add("Field.Type|"+cls+"|not-LIST", "%s: Type().Type()=%s want LIST", path, t.Type())
			return
		}
		if int32(t.BaseId()) != rf.GetNumber() {
			w.add("Type.BaseId|"+cls+"|wrong-number", "%s: BaseId()=%d want %d", path, t.BaseId(), rf.GetNumber())
		}
		w.elemType(t.Elem(), rf.GetType(), rf.GetMessageType(), "Elem", cls, path+"[]")
		if rf.GetType() == descriptorpb.FieldDescriptorProto_TYPE_MESSAGE {
			w.cmp++
			if f.Message() != t.Elem().Message() {
				w.add("Field.Message|"+cls+"|differs-from-elem", "%s: Message() is not the element's message descriptor", path)
			}
		}
	default:
		w.elemType(t, rf.GetType(), rf.GetMessageType(), "Self", cls, path)
		if rf.GetType() == descriptorpb.FieldDescriptorProto_TYPE_MESSAGE {
			w.cmp++
			if f.Message() != t.Message() {
				w.add("Field.Message|"+cls+"|differs-from-type", "%s: Message() differs from Type().Message()", path)
			}
		}
	}
}

// lookupAll: every number 0..max+2, every key of the alphabet.
func (w *walker) lookupAll(md *dproto.MessageDescriptor, rm *desc.MessageDescriptor, path string, maxN int32) {
	r := w.r
	rel := w.nameRelation(rm)
	byNum := map[int32]*desc.FieldDescriptor{}
	byName := map[string]*desc.FieldDescriptor{}
	byJSON := map[string]*desc.FieldDescriptor{}
	var declared []string
	for _, rf := range rm.GetFields() {
		byNum[rf.GetNumber()] = rf
		byName[rf.GetName()] = rf
		byJSON[rf.GetJSONName()] = rf
		declared = append(declared, rf.GetName())
		if rf.GetJSONName() != rf.GetName() {
			declared = append(declared, rf.GetJSONName())
		}
	}
	for n := int32(0); n <= maxN+2; n++ {
		w.nlook++
		f := md.ByNumber(dproto.FieldNumber(n))
		e := byNum[n]
		switch {
		case e == nil && f != nil:
			r.Add("Message.ByNumber|number=undeclared,"+rel+"|found-undeclared", "%s: %s.ByNumber(%d) returns field %q", path, rm.GetFullyQualifiedName(), n, f.Name())
		case e != nil && f == nil:
			r.Add("Message.ByNumber|number=declared,"+rel+"|declared-not-found", "%s: %s.ByNumber(%d) returns nil, declared %s", path, rm.GetFullyQualifiedName(), n, e.GetName())
		case e != nil && (f.Name() != e.GetName() || int32(f.Number()) != n):
			r.Add("Message.ByNumber|number=declared,"+rel+"|wrong-field", "%s: %s.ByNumber(%d) returns %s=%d, declared %s", path, rm.GetFullyQualifiedName(), n, f.Name(), f.Number(), e.GetName())
		}
	}
	keys, class := keyAlphabet(declared)
	for _, k := range keys {
		en, ej := byName[k], byJSON[k]
		for ai, get := range []func(string) *dproto.FieldDescriptor{md.ByName, md.ByJSONName} {
			acc := "Message.ByName"
			if ai == 1 {
				acc = "Message.ByJSONName"
			}
			w.nlook++
			f := get(k)
			kc := class[k]
			// which declared field may answer this key
			var okNums []int32
			ambiguous := en != nil && ej != nil && en != ej
			switch {
			case ambiguous && ai == 0:
				okNums = []int32{en.GetNumber()}
				kc = "declared-name-equals-other-json-name"
			case ambiguous && ai == 1:
				okNums = []int32{ej.GetNumber()}
				kc = "declared-name-equals-other-json-name"
			default:
				if en != nil {
					okNums = append(okNums, en.GetNumber())
				}
				if ej != nil {
					okNums = append(okNums, ej.GetNumber())
				}
			}
			if kc == "declared" && djb32(k) == 0 {
				kc = "declared,djb-hash=0"
			}
			switch {
			case len(okNums) == 0 && f != nil:
				r.Add(acc+"|key="+kc+","+rel+"|found-undeclared", "%s: %s %s(%q) returns field %s=%d", path, rm.GetFullyQualifiedName(), acc, k, f.Name(), f.Number())
			case len(okNums) > 0 && f == nil:
				r.Add(acc+"|key="+kc+","+rel+"|declared-not-found", "%s: %s %s(%q) returns nil although the key is declared (field %d)", path, rm.GetFullyQualifiedName(), acc, k, okNums[0])
			case len(okNums) > 0:
				ok := false
				for _, n := range okNums {
					if int32(f.Number()) == n {
						ok = true
					}
				}
				if !ok {
					r.Add(acc+"|key="+kc+","+rel+"|wrong-field", "%s: %s %s(%q) returns %s=%d, key is declared by field %d", path, rm.GetFullyQualifiedName(), acc, k, f.Name(), f.Number(), okNums[0])
				}
			}
		}
	}
}
