package c15

import (
	"fmt"
	"strings"

	"github.com/jhump/protoreflect/desc"

	"verif/checks/pj"
)

// lowerCamel is the proto3 default JSON name rule (protoc's ToJsonName), written independently.
func lowerCamel(s string) string {
	var b strings.Builder
	up := false
	for i := 0; i < len(s); i++ {
		c := s[i]
		if c == '_' {
			up = true
			continue
		}
		if up && c >= 'a' && c <= 'z' {
			c = c - 'a' + 'A'
		}
		up = false
		b.WriteByte(c)
	}
	return b.String()
}

// SelfCheck binds the oracle to the generator: every program is accepted by the reference parser and the
// reference descriptors contain exactly the messages/fields/methods the generator intended. It never runs dynamicgo.
func (check) SelfCheck() error {
	for _, z := range zeroHashNames {
		if djb32(z) != 0 {
			return fmt.Errorf("zero-hash name %q has DJB32 %d", z, djb32(z))
		}
	}
	names := map[string]bool{}
	for _, pr := range allPrograms() {
		if names[pr.p.Name] {
			return fmt.Errorf("duplicate program name %s", pr.p.Name)
		}
		names[pr.p.Name] = true
		ref, err := pj.CompileRef(pr.p)
		if err != nil {
			return err
		}
		files := map[string]*desc.FileDescriptor{}
		var coll func(f *desc.FileDescriptor)
		coll = func(f *desc.FileDescriptor) {
			files[f.GetName()] = f
			for _, d := range f.GetDependencies() {
				coll(d)
			}
		}
		coll(ref.File)
		for _, f := range pr.p.Files {
			rf := files[f.Path]
			if rf == nil && len(pr.p.ImportDirs) > 0 {
				continue // shadowed by a file found earlier on the search path, or loaded under its import name
			}
			if rf == nil {
				return fmt.Errorf("%s: file %s not loaded by the reference parser", pr.p.Name, f.Path)
			}
			var chk func(scope string, m *pj.Msg) error
			chk = func(scope string, m *pj.Msg) error {
				fqn := m.Name
				if scope != "" {
					fqn = scope + "." + m.Name
				}
				rm := rf.FindMessage(fqn)
				if rm == nil {
					return fmt.Errorf("%s: message %s missing in reference descriptors", pr.p.Name, fqn)
				}
				if len(rm.GetFields()) != len(m.Fields) {
					return fmt.Errorf("%s: message %s has %d fields in reference, generator declared %d", pr.p.Name, fqn, len(rm.GetFields()), len(m.Fields))
				}
				for i, gf := range m.Fields {
					x := rm.GetFields()[i]
					wantJSON := gf.JSON
					if wantJSON == "" {
						wantJSON = lowerCamel(gf.Name)
					}
					kind := int(gf.Kind)
					if gf.MapKey != 0 {
						kind = int(pj.Message)
						if !x.IsMap() || int(x.GetMapKeyType().GetType()) != int(gf.MapKey) || int(x.GetMapValueType().GetType()) != int(gf.Kind) {
							return fmt.Errorf("%s: %s.%s map structure differs between generator and reference", pr.p.Name, fqn, gf.Name)
						}
					} else if x.IsMap() || x.IsRepeated() != gf.Rep {
						return fmt.Errorf("%s: %s.%s cardinality differs between generator and reference", pr.p.Name, fqn, gf.Name)
					}
					if x.GetName() != gf.Name || int(x.GetNumber()) != gf.Num || x.GetJSONName() != wantJSON || int(x.GetType()) != kind {
						return fmt.Errorf("%s: %s field %d: reference (%s,%d,%q,%v) vs generator (%s,%d,%q,%v)", pr.p.Name, fqn, i, x.GetName(), x.GetNumber(), x.GetJSONName(), x.GetType(), gf.Name, gf.Num, wantJSON, gf.Kind)
					}
					if gf.Kind == pj.Message {
						mt := x.GetMessageType()
						if x.IsMap() {
							mt = x.GetMapValueType().GetMessageType()
						}
						// the generator wrote a (possibly relative) type reference; the resolved name must end with it
						if mt == nil || !strings.HasSuffix("."+mt.GetFullyQualifiedName(), "."+gf.Type) {
							return fmt.Errorf("%s: %s.%s resolves to %v, written as %s", pr.p.Name, fqn, gf.Name, mt, gf.Type)
						}
					}
				}
				for _, n := range m.Msgs {
					if err := chk(fqn, n); err != nil {
						return err
					}
				}
				return nil
			}
			for _, m := range f.Msgs {
				if err := chk(f.Pkg, m); err != nil {
					return err
				}
			}
			if len(rf.GetServices()) != len(f.Svcs) {
				return fmt.Errorf("%s: service count differs", pr.p.Name)
			}
			for i, s := range f.Svcs {
				rs := rf.GetServices()[i]
				if rs.GetName() != s.Name || len(rs.GetMethods()) != len(s.Methods) {
					return fmt.Errorf("%s: service %s differs", pr.p.Name, s.Name)
				}
				for j, m := range s.Methods {
					rmd := rs.GetMethods()[j]
					if rmd.GetName() != m.Name || rmd.IsClientStreaming() != m.CS || rmd.IsServerStreaming() != m.SS ||
						!strings.HasSuffix("."+rmd.GetInputType().GetFullyQualifiedName(), "."+m.In) || !strings.HasSuffix("."+rmd.GetOutputType().GetFullyQualifiedName(), "."+m.Out) {
						return fmt.Errorf("%s: method %s.%s differs between generator and reference", pr.p.Name, s.Name, m.Name)
					}
				}
			}
		}
	}
	return nil
}
