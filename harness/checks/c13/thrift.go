package c13

import (
	"bytes"
	"context"
	"fmt"
	"math"
	"math/big"
	"strings"

	"github.com/cloudwego/dynamicgo/conv"
	"github.com/cloudwego/dynamicgo/conv/j2t"
	"github.com/cloudwego/dynamicgo/conv/t2j"
	"github.com/cloudwego/dynamicgo/thrift"

	"verif/checks/jt"
	"verif/engine/core"
	"verif/ref/tbin"
)

func init() {
	RegisterFamily(Family{
		Name:   "thrift",
		Groups: thriftGroups,
		Rule:   "for every message m of the scope (scalar alphabets incl. -0, 5e-324, 2^53+-1, MaxFloat64, every power of ten 1e-10..1e24 with neighbours, all 256 bytes, int boundaries, valid-UTF-8 strings with controls/quotes/U+2028/non-BMP and lengths around 16/32/64/4096, binaries of every base64 padding class, at every position; every string/int-keyed shape of T(1) u T(2) x sizes 0..3; api.js_conv fields; key aliases) and every matching option pair (all 2^4 of {Int642String+String2Int64, NoBase64Binary both, ByteAsUint8, EnableValueMapping both}): j2t(t2j(m)) == m bytewise, and t2j(j2t(j)) denotes the same value as j for j = t2j(m).",
		Assumptions: []string{
			"messages come from the ref/tbin encoder; no reference value is used: the oracle is the composition itself",
			"domain as the quantifier gives it: finite doubles, valid UTF-8 strings, maps keyed by strings or integers (t2j documents other key types as unsupported), no unknown fields, WriteDefaultField off",
			"excluded because already recorded under C02/C03 (the compositions would only repeat them): api.js_conv on i16, api.js_conv strings that need escaping; under NoBase64Binary only binaries that are valid UTF-8",
			"JSON documents are compared as values: numbers by exact rational value and sign of zero, strings by content, arrays in order, object members as a multiset",
		},
		SelfCheck: jt.SelfCheck,
	})
}

type optPair struct {
	name string
	t2j  conv.Options
	j2t  conv.Options
	mask int
}

// optPairs: all subsets of the matching pairs.
func optPairs() []optPair {
	var out []optPair
	for m := 0; m < 16; m++ {
		var p optPair
		var n []string
		if m&1 != 0 {
			p.t2j.Int642String, p.j2t.String2Int64 = true, true
			n = append(n, "Int642String/String2Int64")
		}
		if m&2 != 0 {
			p.t2j.NoBase64Binary, p.j2t.NoBase64Binary = true, true
			n = append(n, "NoBase64Binary")
		}
		if m&4 != 0 {
			p.t2j.ByteAsUint8 = true
			n = append(n, "ByteAsUint8")
		}
		if m&8 != 0 {
			p.t2j.EnableValueMapping, p.j2t.EnableValueMapping = true, true
			n = append(n, "EnableValueMapping")
		}
		p.name = strings.Join(n, "+")
		if p.name == "" {
			p.name = "none"
		}
		p.mask = m
		out = append(out, p)
	}
	return out
}

type tscen struct {
	trigger string
	prog    *jt.Prog
	popts   thrift.Options
	pair    optPair
	val     *tbin.Val
	note    string
}

type tdesc struct {
	Family  string `json:"family"`
	Trigger string `json:"trigger"`
	IDL     string `json:"idl"`
	Options string `json:"option_pair"`
	Msg     string `json:"thrift_hex"`
	Model   string `json:"model"`
	Note    string `json:"note,omitempty"`
}

func hexclip(b []byte, n int) string {
	if len(b) > n {
		return fmt.Sprintf("%x...(%d bytes)", b[:n], len(b))
	}
	return fmt.Sprintf("%x", b)
}
func strclip(b []byte, n int) string {
	if len(b) > n {
		return fmt.Sprintf("%q...(%d bytes)", b[:n], len(b))
	}
	return fmt.Sprintf("%q", b)
}

func (s *tscen) desc() interface{} {
	idl := s.prog.IDL()
	if len(idl) > 1200 {
		idl = idl[:1200] + "..."
	}
	m := s.val.String()
	if len(m) > 400 {
		m = m[:400] + "..."
	}
	return tdesc{"thrift", s.trigger, idl, s.pair.name, hexclip(tbin.Bytes(s.val), 300), m, s.note}
}

func first(e error) string {
	t := e.Error()
	if i := strings.IndexByte(t, '\n'); i >= 0 {
		t = t[:i]
	}
	if len(t) > 200 {
		t = t[:200]
	}
	return t
}

func (s *tscen) run() core.Result {
	msg := tbin.Bytes(s.val)
	r := core.Result{Class: "ok", Key: fmt.Sprintf("thrift|%s|%s|%s|%x", s.trigger, s.prog.Name, s.pair.name, msg)}
	if len(r.Key) > 400 {
		r.Key = r.Key[:200] + fmt.Sprintf("#%d#", len(msg)) + r.Key[len(r.Key)-150:]
	}
	dreq, dresp, err := s.prog.Descs(s.popts)
	if err != nil {
		r.Class = "idl-error"
		r.Add("thrift|idl|parse-error", "%v", err)
		return r
	}
	tj := t2j.NewBinaryConv(s.pair.t2j)
	jtc := j2t.NewBinaryConv(s.pair.j2t)
	ctx := context.Background()
	fail := func(outcome, f string, a ...interface{}) core.Result {
		r.Class = "violation"
		r.Add("thrift|"+s.trigger+"|"+outcome, "option pair %s\nmessage %s = %.300s\n%s", s.pair.name, hexclip(msg, 200), s.val.String(), fmt.Sprintf(f, a...))
		return r
	}
	var j, m2, j2 []byte
	var e error
	if pi := core.Catch(func() { j, e = tj.Do(ctx, dresp, msg) }); pi != nil {
		return fail("panic@"+pi.Site+":"+core.PanicClass(pi.Val), "t2j panics: %.300s\n%.1200s", pi.Val, pi.Stack)
	}
	if e != nil {
		return fail("t2j-error", "t2j(m) fails: %s", first(e))
	}
	if pi := core.Catch(func() { m2, e = jtc.Do(ctx, dreq, j) }); pi != nil {
		return fail("panic@"+pi.Site+":"+core.PanicClass(pi.Val), "j2t(t2j(m)) panics on %s: %.300s\n%.1200s", strclip(j, 200), pi.Val, pi.Stack)
	}
	r.Count("compositions", 1)
	if e != nil {
		return fail("j2t-error", "j2t rejects t2j's own output %s: %s", strclip(j, 300), first(e))
	}
	if !bytes.Equal(m2, msg) {
		back := ""
		if v, de := tbin.DecodeAll(m2, s.val.T); de == nil {
			back = v.String()
			if len(back) > 300 {
				back = back[:300]
			}
		} else {
			back = "undecodable: " + de.Error()
		}
		return fail("message-differs", "j2t(t2j(m)) != m: json %s, back %s = %s", strclip(j, 300), hexclip(m2, 200), back)
	}
	// second composition: j -> thrift -> json must denote the same value as j (here m2 == m, so this also
	// asserts that t2j is a function of its input bytes: no state carried between the two calls)
	if pi := core.Catch(func() { j2, e = tj.Do(ctx, dresp, m2) }); pi != nil {
		return fail("panic@"+pi.Site+":"+core.PanicClass(pi.Val), "t2j(j2t(j)) panics: %.300s", pi.Val)
	}
	r.Count("compositions", 1)
	if e != nil {
		return fail("t2j-error-second", "t2j(j2t(j)) fails: %s", first(e))
	}
	a, e1 := jt.Parse(j)
	b, e2 := jt.Parse(j2)
	if e1 != nil || e2 != nil {
		return fail("json-invalid", "t2j output is not valid JSON: %v / %v: %s", e1, e2, strclip(j, 300))
	}
	if why := sameJSON(a, b); why != "" {
		return fail("json-differs", "t2j(j2t(j)) does not denote j's value (%s): j=%s, j'=%s", why, strclip(j, 300), strclip(j2, 300))
	}
	// the same pair reached through SetOptions on converters built with the complementary options
	flip := func(o conv.Options) conv.Options {
		o.Int642String, o.NoBase64Binary, o.EnableValueMapping, o.String2Int64, o.ByteAsUint8 = !o.Int642String, !o.NoBase64Binary, !o.EnableValueMapping, !o.String2Int64, !o.ByteAsUint8
		return o
	}
	tj2 := t2j.NewBinaryConv(flip(s.pair.t2j))
	tj2.SetOptions(s.pair.t2j)
	jtc2 := j2t.NewBinaryConv(flip(s.pair.j2t))
	jtc2.SetOptions(s.pair.j2t)
	var j3, m3 []byte
	var e3, e4 error
	if pi := core.Catch(func() {
		if j3, e3 = tj2.Do(ctx, dresp, msg); e3 == nil {
			m3, e4 = jtc2.Do(ctx, dreq, j3)
		}
	}); pi != nil {
		return fail("set-options|panic@"+pi.Site+":"+core.PanicClass(pi.Val), "round trip on converters configured by SetOptions panics: %.300s", pi.Val)
	}
	r.Count("compositions", 1)
	if e3 != nil || e4 != nil || !bytes.Equal(m3, msg) {
		return fail("set-options|message-differs", "converters built with other options and switched by SetOptions: json %s (err %v), back %s (err %v)", strclip(j3, 300), e3, hexclip(m3, 200), e4)
	}
	return r
}

func (s *tscen) Case() core.Case {
	return core.Case{Tag: "thrift:" + s.trigger, Desc: s.desc, Run: s.run}
}

// sameJSON compares two JSON trees as values ("" = same).
func sameJSON(a, b *jt.J) string {
	if a.K != b.K {
		return fmt.Sprintf("kind %c vs %c", a.K, b.K)
	}
	switch a.K {
	case '#':
		x, ok1 := new(big.Rat).SetString(a.Lit)
		y, ok2 := new(big.Rat).SetString(b.Lit)
		if !ok1 || !ok2 || x.Cmp(y) != 0 {
			return fmt.Sprintf("number %s vs %s", a.Lit, b.Lit)
		}
		if x.Sign() == 0 && strings.HasPrefix(a.Lit, "-") != strings.HasPrefix(b.Lit, "-") {
			return fmt.Sprintf("sign of zero %s vs %s", a.Lit, b.Lit)
		}
	case 's':
		if !bytes.Equal(a.S, b.S) {
			return fmt.Sprintf("string %q vs %q", a.S, b.S)
		}
	case 'a':
		if len(a.A) != len(b.A) {
			return fmt.Sprintf("array length %d vs %d", len(a.A), len(b.A))
		}
		for i := range a.A {
			if w := sameJSON(a.A[i], b.A[i]); w != "" {
				return w
			}
		}
	case 'o':
		if len(a.A) != len(b.A) {
			return fmt.Sprintf("object size %d vs %d", len(a.A), len(b.A))
		}
		used := make([]bool, len(b.A))
	next:
		for i := range a.A {
			for k := range b.A {
				if !used[k] && bytes.Equal(a.Keys[i], b.Keys[k]) && sameJSON(a.A[i], b.A[k]) == "" {
					used[k] = true
					continue next
				}
			}
			return fmt.Sprintf("member %q has no equal counterpart", a.Keys[i])
		}
	}
	return ""
}

// ---------------------------------------------------------------------------------------------
// scope

func thriftGroups(tier string) []Group {
	var gs []Group
	for _, s := range tbin.Scalars() {
		s := s
		gs = append(gs, Group{"scalar/" + s.String(), func(tier string, y func(core.Case) bool) { enumScalar(tier, s, y) }})
	}
	shapes := shapeAlphabet(tier)
	const chunk = 10
	for i := 0; i < len(shapes); i += chunk {
		j := i + chunk
		if j > len(shapes) {
			j = len(shapes)
		}
		sub := shapes[i:j]
		gs = append(gs, Group{fmt.Sprintf("shape/%d-%d", i, j), func(tier string, y func(core.Case) bool) { enumShapes(tier, sub, y) }})
	}
	gs = append(gs, Group{"jsconv", enumJSConv})
	gs = append(gs, Group{"keys", enumKeys})
	gs = append(gs, Group{"leaves", enumLeaves})
	return gs
}

func intKeyed(s *tbin.Shape) bool {
	return !jt.HasKeyType(s, func(k *tbin.Shape) bool {
		switch k.T {
		case tbin.STRING:
			return k.Binary
		case tbin.BYTE, tbin.I16, tbin.I32, tbin.I64:
			return false
		}
		return true
	})
}

func shapeAlphabet(tier string) []*tbin.Shape {
	var all []*tbin.Shape
	all = append(all, tbin.T1()...)
	all = append(all, tbin.T2()...)
	if tier == "thorough" {
		all = append(all, tbin.T3Small()...)
	}
	var out []*tbin.Shape
	for _, s := range all {
		if intKeyed(s) {
			out = append(out, s)
		}
	}
	return out
}

type position struct {
	name  string
	prog  *jt.Prog
	place func(w *tbin.Val) *tbin.Val
}

func neighbour(s *tbin.Shape) *tbin.Val {
	g := &tbin.Gen{}
	return g.Build(s, 1)
}

func positions(s *tbin.Shape) []position {
	var ps []position
	ps = append(ps, position{"field", jt.Plain(tbin.StructS(tbin.SF(1, s))), func(w *tbin.Val) *tbin.Val { return tbin.Struct(tbin.F(1, w)) }})
	ps = append(ps, position{"list", jt.Plain(tbin.StructS(tbin.SF(1, tbin.ListS(s)))), func(w *tbin.Val) *tbin.Val {
		return tbin.Struct(tbin.F(1, tbin.List(s.T, neighbour(s), w, neighbour(s))))
	}})
	ps = append(ps, position{"set", jt.Plain(tbin.StructS(tbin.SF(1, tbin.SetS(s)))), func(w *tbin.Val) *tbin.Val { return tbin.Struct(tbin.F(1, tbin.Set(s.T, w))) }})
	ps = append(ps, position{"mapval", jt.Plain(tbin.StructS(tbin.SF(1, tbin.MapS(tbin.Sc(tbin.STRING), s)))), func(w *tbin.Val) *tbin.Val {
		return tbin.Struct(tbin.F(1, tbin.Map(tbin.STRING, s.T, tbin.Str("k1"), w, tbin.Str("k2"), neighbour(s))))
	}})
	switch {
	case s.T == tbin.STRING, s.T == tbin.BYTE, s.T == tbin.I16, s.T == tbin.I32, s.T == tbin.I64:
		// binary keys too: both directions take a key as its text (no base64 for keys), domain = valid UTF-8
		ps = append(ps, position{"mapkey", jt.Plain(tbin.StructS(tbin.SF(1, tbin.MapS(s, tbin.Sc(tbin.I32))))), func(w *tbin.Val) *tbin.Val {
			return tbin.Struct(tbin.F(1, tbin.Map(s.T, tbin.I32, w, tbin.I32v(7))))
		}})
	}
	ps = append(ps, position{"top", jt.Plain(s), func(w *tbin.Val) *tbin.Val { return w }})
	return ps
}

func valClass(s *tbin.Shape, w *tbin.Val) string {
	switch s.T {
	case tbin.DOUBLE:
		switch {
		case w.F == 0 && math.Signbit(w.F):
			return "double:-0"
		case w.F != 0 && math.Abs(w.F) < 2.2250738585072014e-308:
			return "double:subnormal"
		case w.F == math.Trunc(w.F) && math.Abs(w.F) < 1e15:
			return "double:integral"
		}
		return "double:finite"
	case tbin.STRING:
		if s.Binary {
			return "binary"
		}
		for _, c := range jt.Strings(true) {
			if bytes.Equal(c.S, w.S) {
				return "string:" + c.Class
			}
		}
		return "string:other"
	}
	return s.String()
}

func scalarVals(s *tbin.Shape) []*tbin.Val {
	vals := jt.ScalarVals(s, true)
	switch {
	case s.T == tbin.DOUBLE:
		vals = append(vals, tbin.Double(math.Copysign(0, -1)), tbin.Double(4.9406564584124654e-324), tbin.Double(-4.9406564584124654e-324))
		for e := -10; e <= 24; e++ {
			x := math.Pow(10, float64(e))
			vals = append(vals, tbin.Double(x), tbin.Double(math.Nextafter(x, 0)), tbin.Double(math.Nextafter(x, math.Inf(1))))
		}
		// (sign, exponent) sweep with an alternating mantissa: every binade once
		for e := uint64(1); e < 2047; e += 1 {
			vals = append(vals, tbin.Double(math.Float64frombits(e<<52|0x5555555555555)))
		}
	case s.T == tbin.BYTE:
		vals = nil
		for i := -128; i <= 127; i++ {
			vals = append(vals, tbin.Byte(int8(i)))
		}
	case s.T == tbin.I64:
		for k := uint(0); k < 63; k++ {
			for _, d := range []int64{-1, 0, 1} {
				vals = append(vals, tbin.I64v(int64(1)<<k+d), tbin.I64v(-(int64(1)<<k)+d))
			}
		}
		p := int64(1)
		for i := 0; i < 18; i++ {
			p *= 10
			vals = append(vals, tbin.I64v(p-1), tbin.I64v(p), tbin.I64v(-p), tbin.I64v(-p+1))
		}
	}
	return vals
}

func pairRelevant(s *tbin.Shape, p optPair) bool {
	if p.mask == 0 || p.mask == 15 {
		return true
	}
	switch {
	case s.T == tbin.I64:
		return p.mask == 1
	case s.T == tbin.BYTE:
		return p.mask == 4 || p.mask == 5
	case s.Binary:
		return p.mask == 2
	case s.T == tbin.I16 || s.T == tbin.I32 || s.T == tbin.DOUBLE:
		return p.mask == 1
	}
	return false
}

func utf8ok(b []byte) bool {
	return string(bytes.ToValidUTF8(b, []byte{0xef, 0xbf, 0xbd})) == string(b)
}

func enumScalar(tier string, s *tbin.Shape, yield func(core.Case) bool) {
	for _, pos := range positions(s) {
		for _, w := range scalarVals(s) {
			root := pos.place(w)
			for _, p := range optPairs() {
				if !pairRelevant(s, p) {
					continue
				}
				if s.Binary && p.mask&2 != 0 && !utf8ok(w.S) {
					continue // NoBase64Binary: the binary travels as a JSON string, domain = valid UTF-8
				}
				if s.Binary && pos.name == "mapkey" && !utf8ok(w.S) {
					continue
				}
				tr := valClass(s, w) + "@" + pos.name
				if !yield((&tscen{trigger: tr, prog: pos.prog, pair: p, val: root}).Case()) {
					return
				}
			}
		}
	}
}

func shapeClass(s *tbin.Shape) string {
	c := s.T.String()
	switch s.T {
	case tbin.LIST, tbin.SET:
		c += "<" + s.Elem.T.String() + ">"
	case tbin.MAP:
		c += "<" + s.Key.T.String() + "," + s.Elem.T.String() + ">"
	}
	return c
}

func hasRawBinary(v *tbin.Val, s *tbin.Shape) bool {
	switch s.T {
	case tbin.STRING:
		return s.Binary && !utf8ok(v.S)
	case tbin.LIST, tbin.SET:
		for _, e := range v.L {
			if hasRawBinary(e, s.Elem) {
				return true
			}
		}
	case tbin.MAP:
		for i := range v.L {
			if hasRawBinary(v.L[i], s.Elem) || hasRawBinary(v.K[i], s.Key) {
				return true
			}
		}
	case tbin.STRUCT:
		for _, f := range v.Fs {
			if i := jt.FieldIndex(s, f.ID); i >= 0 && hasRawBinary(f.V, s.Fields[i].S) {
				return true
			}
		}
	}
	return false
}

func enumShapes(tier string, shapes []*tbin.Shape, yield func(core.Case) bool) {
	for _, s := range shapes {
		for _, wrap := range []bool{true, false} {
			root := s
			w := "top"
			if wrap {
				root = tbin.StructS(tbin.SF(1, s))
				w = "field"
			}
			prog := jt.Plain(root)
			for n := 0; n <= 3; n++ {
				if n > 1 && s.Depth() == 0 {
					continue
				}
				g := &tbin.Gen{}
				v := g.Build(root, n)
				for _, p := range optPairs() {
					if p.mask&2 != 0 && hasRawBinary(v, root) {
						continue
					}
					tr := shapeClass(s) + "@" + w
					if !yield((&tscen{trigger: tr, prog: prog, pair: p, val: v, note: fmt.Sprintf("n=%d", n)}).Case()) {
						return
					}
				}
			}
		}
	}
}

// enumLeaves plants every boundary value of every scalar type at every leaf of a few nested shapes.
func enumLeaves(tier string, yield func(core.Case) bool) {
	in := tbin.StructS(tbin.SF(1, tbin.Sc(tbin.DOUBLE)), tbin.SF(2, tbin.Sc(tbin.STRING)), tbin.SF(3, tbin.Sc(tbin.I64)))
	shapes := []*tbin.Shape{
		tbin.StructS(tbin.SF(1, tbin.MapS(tbin.Sc(tbin.I64), tbin.ListS(in))), tbin.SF(2, tbin.ListS(tbin.MapS(tbin.Sc(tbin.STRING), tbin.Sc(tbin.DOUBLE))))),
		tbin.StructS(tbin.SF(1, tbin.ListS(tbin.ListS(tbin.Sc(tbin.STRING)))), tbin.SF(2, tbin.MapS(tbin.Sc(tbin.STRING), tbin.MapS(tbin.Sc(tbin.I32), tbin.BinS()))), tbin.SF(3, in)),
	}
	for si, root := range shapes {
		prog := jt.Plain(root)
		g := &tbin.Gen{}
		base := g.Build(root, 2)
		for _, t := range tbin.Scalars() {
			if t.T == tbin.BOOL {
				continue
			}
			for k := 0; ; k++ {
				if jt.SetLeaf(base, t.T, k, neighbour(t)) == nil {
					break
				}
				for _, w := range jt.ScalarVals(t, false) {
					if t.T == tbin.STRING && (len(w.S) > 70) {
						continue
					}
					v := jt.SetLeaf(base, t.T, k, w)
					if !isShapeOK(v, root) {
						continue
					}
					for _, p := range []optPair{optPairs()[0], optPairs()[1]} {
						if !yield((&tscen{trigger: fmt.Sprintf("leaf:%s@nested%d", t.T, si), prog: prog, pair: p, val: v}).Case()) {
							return
						}
					}
				}
			}
		}
	}
}

// isShapeOK: SetLeaf matches leaves by wire type only; a string planted into a binary leaf (or vice versa) is
// still conforming, so everything is OK — kept as a hook for future restrictions.
func isShapeOK(v *tbin.Val, s *tbin.Shape) bool { return v != nil }

func needsEscape(b []byte) bool {
	for _, c := range b {
		if c < 0x20 || c == '"' || c == '\\' {
			return true
		}
	}
	return false
}

// enumJSConv: api.js_conv fields under EnableValueMapping on both sides (and off on both sides).
func enumJSConv(tier string, yield func(core.Case) bool) {
	types := []*tbin.Shape{tbin.Sc(tbin.BYTE), tbin.Sc(tbin.I32), tbin.Sc(tbin.I64), tbin.Sc(tbin.DOUBLE), tbin.Sc(tbin.STRING)}
	for _, t := range types {
		st := tbin.StructS(tbin.SField{ID: 1, Name: "before", S: tbin.Sc(tbin.I32)}, tbin.SField{ID: 2, Name: "j", S: t}, tbin.SField{ID: 3, Name: "after", S: tbin.Sc(tbin.STRING)})
		p := jt.NewProg("jsconv-"+t.String(), st)
		p.Set(st, 1, jt.FX{JSConv: true})
		for _, w := range scalarVals(t) {
			if t.T == tbin.STRING && needsEscape(w.S) {
				continue // recorded under C03 (api.js_conv copies the string unescaped)
			}
			v := tbin.Struct(tbin.F(1, tbin.I32v(1)), tbin.F(2, w), tbin.F(3, tbin.Str("z")))
			for _, pr := range optPairs() {
				if pr.mask != 0 && pr.mask != 8 && pr.mask != 9 && pr.mask != 15 {
					continue
				}
				tr := "jsconv-" + valClass(t, w)
				if pr.mask&8 != 0 {
					tr += "/vm"
				}
				if !yield((&tscen{trigger: tr, prog: p, pair: pr, val: v}).Case()) {
					return
				}
			}
		}
	}
}

// enumKeys: aliases are emitted by t2j and must be accepted back by j2t under every MapFieldWay that maps aliases.
func enumKeys(tier string, yield func(core.Case) bool) {
	st := tbin.StructS(
		tbin.SField{ID: 1, Name: "plain", S: tbin.Sc(tbin.I32)},
		tbin.SField{ID: 2, Name: "viaKey", S: tbin.Sc(tbin.I32)},
		tbin.SField{ID: 3, Name: "viaTag", S: tbin.Sc(tbin.I32)},
		tbin.SField{ID: 4, Name: "UserName", S: tbin.Sc(tbin.I32)},
		tbin.SField{ID: 5, Name: "user_id", S: tbin.Sc(tbin.I32)},
		tbin.SField{ID: 6, Name: "uni", S: tbin.Sc(tbin.I32)},
		tbin.SField{ID: 7, Name: "esc", S: tbin.Sc(tbin.I32)},
	)
	p := jt.NewProg("keys", st)
	p.Set(st, 1, jt.FX{Alias: "k2", Ann: []string{`api.key = "k2"`}})
	p.Set(st, 2, jt.FX{Alias: "tag3", Ann: []string{`go.tag = "json:\"tag3\""`}})
	p.Set(st, 3, jt.FX{Alias: "user_name", Ann: []string{`agw.to_snake = "true"`}})
	p.Set(st, 4, jt.FX{Alias: "userId", Ann: []string{`agw.to_lower_camel_case = "true"`}})
	p.Set(st, 5, jt.FX{Alias: "k-é.6", Ann: []string{`api.key = "k-é.6"`}})
	p.Set(st, 6, jt.FX{Alias: "a b/c", Ann: []string{`api.key = "a b/c"`}})
	for mask := 1; mask < 128; mask++ {
		v := tbin.Struct()
		for i := 0; i < 7; i++ {
			if mask>>uint(i)&1 == 1 {
				v.Fs = append(v.Fs, tbin.F(int16(i+1), tbin.I32v(int32(100+i))))
			}
		}
		for _, way := range []int{0, 2} { // MapFieldUseAlias, MapFieldUseBoth (UseFieldName does not accept the aliases t2j emits: not a matching configuration)
			po := thrift.Options{}
			if way == 2 {
				po.MapFieldWay = 2
			}
			if !yield((&tscen{trigger: fmt.Sprintf("aliases,way=%d", way), prog: p, popts: po, pair: optPairs()[0], val: v}).Case()) {
				return
			}
		}
	}
}
