package c13

import (
	"bytes"
	"context"
	"fmt"
	"strings"
	"verif/ref/poolpoison"

	"google.golang.org/protobuf/reflect/protoreflect"
	"google.golang.org/protobuf/types/dynamicpb"

	"github.com/cloudwego/dynamicgo/conv"
	"github.com/cloudwego/dynamicgo/conv/j2p"
	"github.com/cloudwego/dynamicgo/conv/p2j"

	"verif/checks/pj"
	"verif/engine/core"
)

// Protobuf family: p2j / j2p over the conversion scope shared with C08/C09 (checks/pj), messages without
// non-finite floats (JSON cannot carry them), default options on both sides.
func init() {
	RegisterFamily(Family{
		Name: "protobuf",
		Rule: "every (schema, message) of the conversion scope shared with C08/C09 (all 15 scalar kinds + enum boundary values as singular / packed / unpacked list / map value, every map key kind, 6 embedding contexts, presence subsets, JSON names, recursion), finite floats only: j2p(p2j(m)) is decoded by the reference implementation to a message equal to m (NaN-free, so plain equality; -0.0 by sign), and p2j(j2p(j)) for j = p2j(m) denotes the same message as j.",
		Assumptions: []string{
			"equality up to the reference implementation's message equality (bytes may differ: field order, packedness)",
			"default options on both converters (no option pair changes the value domain for protobuf)",
		},
		Groups: func(tier string) []Group {
			var gs []Group
			for _, g := range pj.ScopeGroups(tier) {
				g := g
				gs = append(gs, Group{Name: g, Enum: func(tier string, yield func(core.Case) bool) {
					pj.ScopeEnumerate(tier, g, func(cc *pj.ConvCase) bool {
						if cc.NonFin {
							return true
						}
						return yield(protoCase(cc))
					})
				}})
			}
			// histories of length 2: a failing conversion on each side first (the converters keep pooled state)
			gs = append(gs, Group{Name: "after-failure", Enum: func(tier string, yield func(core.Case) bool) {
				for _, g := range []string{"presence", "recursion"} {
					if !pj.ScopeEnumerate(tier, g, func(cc *pj.ConvCase) bool {
						if cc.NonFin {
							return true
						}
						return yield(protoCaseAfterFailure(cc))
					}) {
						return
					}
				}
			}})
			gs = append(gs, Group{Name: "length-prefix-sweep", Enum: func(tier string, yield func(core.Case) bool) {
				for _, cc := range prefixSweep() {
					if !yield(protoCase(cc)) {
						return
					}
				}
			}})
			return gs
		},
	})
}

// prefixSweep: length-delimited payloads of every size across the 1->2 and 2->3 byte length-prefix boundaries
// (122..134 and 16378..16390 bytes), as nested message, map entry, packed list and plain string, each followed
// by another field: j2p writes the prefix, p2j reads it back.
func prefixSweep() []*pj.ConvCase {
	sub := &pj.Msg{Name: "Sub", Fields: []*pj.Field{pj.F("s", 1, pj.String)}}
	t := &pj.Msg{Name: "T", Fields: []*pj.Field{pj.F("s", 1, pj.String), pj.FM("sub", 2, "Sub"), pj.F("m", 3, pj.String).MapOf(pj.String),
		pj.F("pf", 4, pj.Fixed64).Repeated(), pj.FM("subs", 5, "Sub").Repeated(), pj.F("after", 6, pj.Int32),
		pj.F("by", 7, pj.Bytes), pj.F("bys", 8, pj.Bytes).Repeated(), pj.F("bm", 9, pj.Bytes).MapOf(pj.Int32)}}
	f := &pj.File{Path: "main.proto", Pkg: pj.Pkg, Msgs: []*pj.Msg{sub, t}, Svcs: []*pj.Service{pj.OneMethodService("T", "T")}}
	prog := &pj.Program{Name: "c13/prefix-sweep", Main: "main.proto", Files: []*pj.File{f}}
	var out []*pj.ConvCase
	var sizes []int
	for l := 122; l <= 134; l++ {
		sizes = append(sizes, l)
	}
	for l := 16378; l <= 16390; l++ {
		sizes = append(sizes, l)
	}
	for _, where := range []string{"string", "sub", "map-entry", "packed", "list-elem", "bytes", "bytes-elem", "bytes-map-value"} {
		for _, n := range sizes {
			where, n := where, n
			if where == "packed" && n%8 != 0 {
				continue
			}
			out = append(out, &pj.ConvCase{Prog: prog, What: fmt.Sprintf("%s payload of %d bytes", where, n), Focus: "length-prefix:" + where,
				Build: func(ref *pj.Ref) protoreflect.Message {
					md := ref.Msg(pj.Pkg + ".T")
					m := dynamicpb.NewMessage(md)
					fs := md.Fields()
					mkSub := func(payload int) protoreflect.Message {
						sm := dynamicpb.NewMessage(fs.ByName("sub").Message())
						l := payload - 2
						if payload > 129 {
							l = payload - 3
						}
						sm.Set(sm.Descriptor().Fields().ByName("s"), protoreflect.ValueOfString(strings.Repeat("p", l)))
						return sm
					}
					switch where {
					case "string":
						m.Set(fs.ByName("s"), protoreflect.ValueOfString(strings.Repeat("s", n)))
					case "sub":
						m.Set(fs.ByName("sub"), protoreflect.ValueOfMessage(mkSub(n)))
					case "map-entry":
						l := n - 5
						if n-5 > 127 {
							l = n - 6
						}
						mp := m.Mutable(fs.ByName("m")).Map()
						mp.Set(protoreflect.ValueOfString("a").MapKey(), protoreflect.ValueOfString("first"))
						mp.Set(protoreflect.ValueOfString("k").MapKey(), protoreflect.ValueOfString(strings.Repeat("v", l)))
					case "packed":
						l := m.Mutable(fs.ByName("pf")).List()
						for i := 0; i < n/8; i++ {
							l.Append(protoreflect.ValueOfUint64(uint64(i) * 0x0101010101010101))
						}
					case "bytes", "bytes-elem", "bytes-map-value":
						// n payload bytes (base64 text of every padding class around the boundaries)
						pl := make([]byte, n)
						for i := range pl {
							pl[i] = byte(i*7 + 1)
						}
						switch where {
						case "bytes":
							m.Set(fs.ByName("by"), protoreflect.ValueOfBytes(pl))
						case "bytes-elem":
							l := m.Mutable(fs.ByName("bys")).List()
							l.Append(protoreflect.ValueOfBytes(pl))
							l.Append(protoreflect.ValueOfBytes([]byte{1}))
						default:
							m.Mutable(fs.ByName("bm")).Map().Set(protoreflect.ValueOfInt32(5).MapKey(), protoreflect.ValueOfBytes(pl))
						}
					case "list-elem":
						l := m.Mutable(fs.ByName("subs")).List()
						l.Append(protoreflect.ValueOfMessage(mkSub(n)))
						l.Append(protoreflect.ValueOfMessage(mkSub(3)))
					}
					m.Set(fs.ByName("after"), protoreflect.ValueOfInt32(7))
					return m
				}})
		}
	}
	return out
}

type pdesc struct {
	What   string `json:"what"`
	Schema string `json:"schema"`
	Input  string `json:"message_hex"`
}

func protoCase(cc *pj.ConvCase) core.Case {
	return core.Case{
		Tag: "protobuf|" + cc.Focus,
		Desc: func() interface{} {
			c := pj.Compile(cc.Prog)
			return pdesc{cc.What, cc.Prog.SourceDump(), fmt.Sprintf("%x", pj.Marshal(cc.Build(c.Ref)))}
		},
		Run: func() core.Result {
			r := core.Result{Class: "ok", Key: "protobuf|" + cc.Prog.Name + "|" + cc.What}
			c := pj.Compile(cc.Prog)
			if c.Err != nil {
				r.Class = "descriptor-error" // C15's business
				r.Key = ""
				return r
			}
			in := pj.Marshal(cc.Build(c.Ref))
			md := c.Ref.Msg(pj.Pkg + ".T")
			want, err := pj.Unmarshal(md, in)
			if err != nil {
				panic("harness: reference cannot decode its own encoding: " + err.Error())
			}
			ctx := context.Background()
			trig := cc.Focus
			var js, back, js2 []byte
			var e1, e2, e3 error
			intoDiff := ""
			pi := core.Catch(func() {
				pc := p2j.NewBinaryConv(conv.Options{})
				js, e1 = pc.Do(ctx, c.In, in)
				if e1 != nil {
					return
				}
				cv := j2p.NewBinaryConv(conv.Options{})
				back, e2 = cv.Do(ctx, c.In, js)
				if e2 != nil {
					return
				}
				js2, e3 = pc.Do(ctx, c.In, back)
				// the same composition through DoInto (results in the callers' buffers), the intermediate results consumed
				// only AFTER the next conversion has run: j' = p2j(m); b' = j2p(j'); j'' = p2j(b') must still hold
				var jb, bb, jb2 []byte
				if pc.DoInto(ctx, c.In, in, &jb) == nil && cv.DoInto(ctx, c.In, jb, &bb) == nil && pc.DoInto(ctx, c.In, bb, &jb2) == nil {
					poolpoison.ConvBuffers(2)
					if !bytes.Equal(jb, js) || !bytes.Equal(bb, back) || !bytes.Equal(jb2, js2) {
						intoDiff = fmt.Sprintf("Do: %s / %x / %s\nDoInto (read after the later conversions): %s / %x / %s", js, back, js2, jb, bb, jb2)
					}
				} else {
					intoDiff = "DoInto fails where Do succeeds"
				}
			})
			if pi == nil && intoDiff != "" {
				r.Add("protobuf|"+trig+"|DoInto-results-differ-from-Do-after-later-conversions", "%s: %s", cc.What, intoDiff)
			}
			switch {
			case pi != nil:
				r.Add("protobuf|"+trig+"|panic@"+pi.Site+":"+core.PanicClass(pi.Val), "%s: panic %s\ninput %x json %s\n%s", cc.What, pi.Val, in, js, pi.Stack)
			case e1 != nil:
				// C08 lets p2j fail, this property does not: a conforming finite message must make the round trip
				r.Add("protobuf|"+trig+"|p2j-error", "%s: p2j fails on a conforming message: %v\ninput %x", cc.What, e1, in)
			case e2 != nil:
				r.Add("protobuf|"+trig+"|j2p-rejects-p2j-output", "%s: j2p rejects the converter's own canonical output: %v\njson %s\ninput %x", cc.What, e2, js, in)
			default:
				got, err := pj.Unmarshal(md, back)
				if err != nil {
					r.Add("protobuf|"+trig+"|roundtrip-undecodable", "%s: j2p(p2j(m)) is rejected by the reference implementation: %v\nbytes %x json %s", cc.What, err, back, js)
					break
				}
				if d := pj.DiffMsg(want, got, "$"); d != "" {
					r.Add("protobuf|"+trig+"|message-differs", "%s: j2p(p2j(m)) != m: %s\njson %s\nin %x\nout %x", cc.What, d, js, in, back)
					break
				}
				if e3 != nil {
					r.Add("protobuf|"+trig+"|p2j-rejects-roundtrip", "%s: p2j(j2p(j)) failed: %v", cc.What, e3)
					break
				}
				n2, err := pj.ParseJSON(js2)
				if err != nil {
					r.Add("protobuf|"+trig+"|json-roundtrip-invalid", "%s: p2j(j2p(j)) is not valid JSON: %v: %s", cc.What, err, js2)
					break
				}
				if diffs := pj.CompareJSON(n2, want, pj.JOpts{}); len(diffs) > 0 {
					r.Add("protobuf|"+trig+"|json-roundtrip-differs", "%s: p2j(j2p(j)) denotes another value than j: %v\nj  = %s\nj' = %s", cc.What, diffs[0], js, js2)
				}
			}
			if len(r.Viol) > 0 {
				r.Class = "violation"
			}
			return r
		},
	}
}

// failingJSON: documents derived from a conforming one that the JSON side must refuse: every truncation, and at
// every member boundary an unknown member followed by a broken literal / by the end of the text.
func failingJSON(js []byte) [][]byte {
	var out [][]byte
	step := 1
	if len(js) > 400 {
		step = len(js) / 200
	}
	for k := 1; k < len(js); k += step {
		out = append(out, js[:k:k])
	}
	for k := 1; k < len(js); k++ {
		if js[k] == '"' && (js[k-1] == '{' || js[k-1] == ',') {
			out = append(out, append(append([]byte{}, js[:k]...), `"zzz_unknown":tru`...), append(append([]byte{}, js[:k]...), `"zzz_unknown":`...),
				append(append([]byte{}, js[:k]...), `"zzz_unknown":{"a":[1,`...))
		}
	}
	return out
}

// protoCaseAfterFailure: the round trip of cc on converters (and pools) that have just failed on a damaged input.
func protoCaseAfterFailure(cc *pj.ConvCase) core.Case {
	return core.Case{
		Tag: "protobuf|after-failure," + cc.Focus,
		Desc: func() interface{} {
			c := pj.Compile(cc.Prog)
			return pdesc{"after a failing conversion: " + cc.What, cc.Prog.SourceDump(), fmt.Sprintf("%x", pj.Marshal(cc.Build(c.Ref)))}
		},
		Run: func() core.Result {
			r := core.Result{Class: "ok", Key: "protobuf|after-failure|" + cc.Prog.Name + "|" + cc.What}
			c := pj.Compile(cc.Prog)
			if c.Err != nil {
				r.Class, r.Key = "descriptor-error", ""
				return r
			}
			in := pj.Marshal(cc.Build(c.Ref))
			ctx := context.Background()
			trig := "after-failure," + cc.Focus
			pc := p2j.NewBinaryConv(conv.Options{})
			cv := j2p.NewBinaryConv(conv.Options{})
			var js0, back0 []byte
			var e1, e2 error
			if pi := core.Catch(func() {
				js0, e1 = pc.Do(ctx, c.In, in)
				if e1 == nil {
					back0, e2 = cv.Do(ctx, c.In, js0)
				}
			}); pi != nil || e1 != nil || e2 != nil {
				r.Class, r.Key = "not-convertible", "" // the plain family reports it
				return r
			}
			js0, back0 = append([]byte{}, js0...), append([]byte{}, back0...)
			n := 0
			for _, f := range failingJSON(js0) {
				f := f
				var back []byte
				var ef, eb error
				pi := core.Catch(func() {
					_, ef = cv.Do(ctx, c.In, f)
					back, eb = cv.Do(ctx, c.In, js0)
				})
				n++
				switch {
				case pi != nil:
					r.Add("protobuf|"+trig+"|panic@"+pi.Site+":"+core.PanicClass(pi.Val), "%s: panic %s after the failing document %q\n%s", cc.What, pi.Val, f, pi.Stack)
				case eb != nil:
					r.Add("protobuf|"+trig+"|j2p-rejects-p2j-output", "%s: right after the damaged document %q (err=%v) j2p rejects %s: %v", cc.What, f, ef, js0, eb)
				case !bytes.Equal(back, back0):
					r.Add("protobuf|"+trig+"|message-differs", "%s: right after the damaged document %q (err=%v) j2p(%s) = %x, alone %x", cc.What, f, ef, js0, back, back0)
				}
				if len(r.Viol) > 0 {
					break
				}
			}
			for k := 0; k < len(in) && len(r.Viol) == 0; k++ {
				var js []byte
				var ef, eb error
				pi := core.Catch(func() {
					_, ef = pc.Do(ctx, c.In, in[:k:k])
					js, eb = pc.Do(ctx, c.In, in)
				})
				n++
				switch {
				case pi != nil:
					r.Add("protobuf|"+trig+"|panic@"+pi.Site+":"+core.PanicClass(pi.Val), "%s: panic %s after the message cut to %d bytes\n%s", cc.What, pi.Val, k, pi.Stack)
				case eb != nil || !bytes.Equal(js, js0):
					r.Add("protobuf|"+trig+"|json-differs", "%s: right after the message cut to %d bytes (err=%v) p2j gives %s err=%v, alone %s", cc.What, k, ef, js, eb, js0)
				}
			}
			r.Count("primed_roundtrips", int64(n))
			if len(r.Viol) > 0 {
				r.Class = "violation"
			}
			return r
		},
	}
}
