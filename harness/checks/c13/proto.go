package c13

import (
	"context"
	"fmt"

	"github.com/cloudwego/dynamicgo/conv"
	"github.com/cloudwego/dynamicgo/conv/j2p"
	"github.com/cloudwego/dynamicgo/conv/p2j"

	"verif/checks/pj"
	"verif/engine/core"
)

// Protobuf family: p2j / j2p over the conversion scope shared with C08/C09 (checks/pj), messages without
// non-finite floats (JSON cannot carry them), default options on both sides.
func init() {
	RegisterFamily(Family{
		Name: "protobuf",
		Rule: "every (schema, message) of the conversion scope shared with C08/C09 (all 15 scalar kinds + enum boundary values as singular / packed / unpacked list / map value, every map key kind, 6 embedding contexts, presence subsets, JSON names, recursion), finite floats only: j2p(p2j(m)) is decoded by the reference implementation to a message equal to m (NaN-free, so plain equality; -0.0 by sign), and p2j(j2p(j)) for j = p2j(m) denotes the same message as j.",
		Assumptions: []string{
			"equality up to the reference implementation's message equality (bytes may differ: field order, packedness)",
			"default options on both converters (no option pair changes the value domain for protobuf)",
		},
		Groups: func(tier string) []Group {
			var gs []Group
			for _, g := range pj.ScopeGroups(tier) {
				g := g
				gs = append(gs, Group{Name: g, Enum: func(tier string, yield func(core.Case) bool) {
					pj.ScopeEnumerate(tier, g, func(cc *pj.ConvCase) bool {
						if cc.NonFin {
							return true
						}
						return yield(protoCase(cc))
					})
				}})
			}
			return gs
		},
	})
}

type pdesc struct {
	What   string `json:"what"`
	Schema string `json:"schema"`
	Input  string `json:"message_hex"`
}

func protoCase(cc *pj.ConvCase) core.Case {
	return core.Case{
		Tag: "protobuf|" + cc.Focus,
		Desc: func() interface{} {
			c := pj.Compile(cc.Prog)
			return pdesc{cc.What, cc.Prog.SourceDump(), fmt.Sprintf("%x", pj.Marshal(cc.Build(c.Ref)))}
		},
		Run: func() core.Result {
			r := core.Result{Class: "ok", Key: "protobuf|" + cc.Prog.Name + "|" + cc.What}
			c := pj.Compile(cc.Prog)
			if c.Err != nil {
				r.Class = "descriptor-error" // C15's business
				r.Key = ""
				return r
			}
			in := pj.Marshal(cc.Build(c.Ref))
			md := c.Ref.Msg(pj.Pkg + ".T")
			want, err := pj.Unmarshal(md, in)
			if err != nil {
				panic("harness: reference cannot decode its own encoding: " + err.Error())
			}
			ctx := context.Background()
			trig := cc.Focus
			var js, back, js2 []byte
			var e1, e2, e3 error
			pi := core.Catch(func() {
				pc := p2j.NewBinaryConv(conv.Options{})
				js, e1 = pc.Do(ctx, c.In, in)
				if e1 != nil {
					return
				}
				cv := j2p.NewBinaryConv(conv.Options{})
				back, e2 = cv.Do(ctx, c.In, js)
				if e2 != nil {
					return
				}
				js2, e3 = pc.Do(ctx, c.In, back)
			})
			switch {
			case pi != nil:
				r.Add("protobuf|"+trig+"|panic@"+pi.Site+":"+core.PanicClass(pi.Val), "%s: panic %s\ninput %x json %s\n%s", cc.What, pi.Val, in, js, pi.Stack)
			case e1 != nil:
				r.Class = "p2j-error" // a failing conversion is allowed by C08's statement; nothing to compose
				r.Key = ""
			case e2 != nil:
				r.Add("protobuf|"+trig+"|j2p-rejects-p2j-output", "%s: j2p rejects the converter's own canonical output: %v\njson %s\ninput %x", cc.What, e2, js, in)
			default:
				got, err := pj.Unmarshal(md, back)
				if err != nil {
					r.Add("protobuf|"+trig+"|roundtrip-undecodable", "%s: j2p(p2j(m)) is rejected by the reference implementation: %v\nbytes %x json %s", cc.What, err, back, js)
					break
				}
				if d := pj.DiffMsg(want, got, "$"); d != "" {
					r.Add("protobuf|"+trig+"|message-differs", "%s: j2p(p2j(m)) != m: %s\njson %s\nin %x\nout %x", cc.What, d, js, in, back)
					break
				}
				if e3 != nil {
					r.Add("protobuf|"+trig+"|p2j-rejects-roundtrip", "%s: p2j(j2p(j)) failed: %v", cc.What, e3)
					break
				}
				n2, err := pj.ParseJSON(js2)
				if err != nil {
					r.Add("protobuf|"+trig+"|json-roundtrip-invalid", "%s: p2j(j2p(j)) is not valid JSON: %v: %s", cc.What, err, js2)
					break
				}
				if diffs := pj.CompareJSON(n2, want, pj.JOpts{}); len(diffs) > 0 {
					r.Add("protobuf|"+trig+"|json-roundtrip-differs", "%s: p2j(j2p(j)) denotes another value than j: %v\nj  = %s\nj' = %s", cc.What, diffs[0], js, js2)
				}
			}
			if len(r.Viol) > 0 {
				r.Class = "violation"
			}
			return r
		},
	}
}
