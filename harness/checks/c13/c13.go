// Package c13: JSON<->binary conversions are mutually inverse on their domains (oracle-free compositions).
// This file is the family-independent frame; thrift.go is the Thrift family (t2j / j2t). The Protobuf family
// (p2j / j2p, equality by the reference implementation) plugs in through RegisterFamily from its own file.
package c13

import (
	"fmt"
	"sort"

	"verif/checks/jt"
	"verif/engine/core"
)

// Group is one partition of a family's scope.
type Group struct {
	Name string
	Enum func(tier string, yield func(core.Case) bool)
}

// Family is one pair of mutually inverse converters with its own alphabet.
type Family struct {
	Name        string // group-name prefix and first component of signatures ("thrift", "protobuf")
	Groups      func(tier string) []Group
	Rule        string
	Assumptions []string
	SelfCheck   func() error
}

var families []Family

// RegisterFamily adds a family (call from an init function of this package).
func RegisterFamily(f Family) {
	families = append(families, f)
	sort.SliceStable(families, func(i, j int) bool { return families[i].Name < families[j].Name })
}

type check struct{}

func init() { core.Register(check{}) }

func (check) ID() string    { return "C13" }
func (check) Level() string { return "exploration" }

func (check) Rule() string {
	s := "oracle-free compositions, bounded-exhaustive, simplest first. "
	for _, f := range families {
		s += "[" + f.Name + "] " + f.Rule + " "
	}
	return s + "A case is one (program, message, option pair); non-trivial when distinct by those and both compositions ran."
}

func (check) Assumptions() []string {
	var a []string
	for _, f := range families {
		for _, x := range f.Assumptions {
			a = append(a, "["+f.Name+"] "+x)
		}
	}
	return a
}

func (check) BudgetSeconds(tier string) int {
	if tier == "thorough" {
		return 1500
	}
	return 200
}

type flatGroup struct {
	name string
	enum func(tier string, yield func(core.Case) bool)
}

func flat(tier string) []flatGroup {
	var out []flatGroup
	for _, f := range families {
		for _, g := range f.Groups(tier) {
			out = append(out, flatGroup{f.Name + "/" + g.Name, g.Enum})
		}
	}
	return out
}

func (check) Groups(tier string, seed int64) []string {
	var n []string
	for _, g := range flat(tier) {
		n = append(n, g.name)
	}
	return n
}

func (check) Enumerate(tier string, seed int64, g int, yield func(core.Case) bool) {
	jt.EnableAGW()
	flat(tier)[g].enum(tier, yield)
}

func (check) SelfCheck() error {
	for _, f := range families {
		if f.SelfCheck != nil {
			if err := f.SelfCheck(); err != nil {
				return fmt.Errorf("%s: %v", f.Name, err)
			}
		}
	}
	return nil
}
