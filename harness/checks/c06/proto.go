package c06

import (
	"context"
	"fmt"
	"math"
	"strings"

	"github.com/cloudwego/dynamicgo/conv"
	"github.com/cloudwego/dynamicgo/conv/p2j"
	dproto "github.com/cloudwego/dynamicgo/proto"
	dbinary "github.com/cloudwego/dynamicgo/proto/binary"
	pgeneric "github.com/cloudwego/dynamicgo/proto/generic"
	dwire "github.com/cloudwego/dynamicgo/proto/protowire"
	"google.golang.org/protobuf/encoding/protowire"

	"verif/engine/core"
)

// ---------- the proto3 program ----------

const protoIDL = `syntax = "proto3";
package pb3;
enum E { E0 = 0; E1 = 1; }
message Inner { int32 a = 1; string s = 2; }
message Msg {
  int32 i32 = 1; int64 i64 = 2; uint32 u32 = 3; uint64 u64 = 4; sint32 s32 = 5; sint64 s64 = 6;
  fixed32 f32 = 7; fixed64 f64 = 8; sfixed32 sf32 = 9; sfixed64 sf64 = 10; float fl = 11; double db = 12;
  bool b = 13; string str = 14; bytes byt = 15; E en = 16; Inner msg = 17;
  repeated int32 ri32 = 18; repeated double rdb = 19; repeated string rstr = 20; repeated Inner rmsg = 21;
  map<string,int32> msi = 22; map<int32,string> mis = 23; map<string,Inner> msm = 24;
  repeated bool rb = 25; repeated sint64 rs64 = 26; repeated fixed32 rf32 = 27; map<int64,double> mid = 28;
  Msg self = 29;
}
service Svc { rpc M(Msg) returns (Msg); }
`

var protoDescCache = map[string]*dproto.TypeDescriptor{}

// useCannedProto switches protoDesc to the descriptors of testdata/idl/example2.proto (canned seed).
var useCannedProto bool

func protoDesc(fresh string) (*dproto.TypeDescriptor, error) {
	if useCannedProto {
		if err := cannedProtoDescs(); err != nil {
			return nil, err
		}
		if fresh == "" {
			return cannedProtoDesc[0], nil
		}
		return cannedProtoDesc[1], nil
	}
	if d, ok := protoDescCache[fresh]; ok {
		return d, nil
	}
	svc, err := dproto.NewDescritorFromContent(context.Background(), "a/b/main"+fresh+".proto", protoIDL, map[string]string{})
	if err != nil {
		return nil, err
	}
	m := svc.LookupMethodByName("M")
	if m == nil {
		return nil, fmt.Errorf("no method M")
	}
	d := m.Input()
	protoDescCache[fresh] = d
	return d, nil
}

// protoReady parses the two descriptors outside any monitored call; a failure is a harness error.
func protoReady(r *core.Result) bool {
	ok := true
	if pi := core.Catch(func() {
		if _, err := protoDesc(""); err != nil {
			ok = false
			r.Add("harness|proto-idl", "%v", err)
		}
		if _, err := protoDesc("2"); err != nil {
			ok = false
			r.Add("harness|proto-idl", "%v", err)
		}
	}); pi != nil {
		r.Add("harness|proto-idl-panic", "%s", pi.Val)
		return false
	}
	return ok
}

// field kinds of Msg by number, for the reference walker: s=scalar varint, 4/8 fixed, b=bytes/string,
// m=message Inner, M=message Msg, p=packed(varint|fixed), e=map entry
type pfield struct {
	wt     protowire.Type
	kind   string // varint | fixed32 | fixed64 | bytes | msg:Inner | msg:Msg | packed | rbytes | map
	packed protowire.Type
}

var msgFields = map[protowire.Number]pfield{
	1: {protowire.VarintType, "varint", 0}, 2: {protowire.VarintType, "varint", 0}, 3: {protowire.VarintType, "varint", 0}, 4: {protowire.VarintType, "varint", 0},
	5: {protowire.VarintType, "varint", 0}, 6: {protowire.VarintType, "varint", 0}, 7: {protowire.Fixed32Type, "fixed32", 0}, 8: {protowire.Fixed64Type, "fixed64", 0},
	9: {protowire.Fixed32Type, "fixed32", 0}, 10: {protowire.Fixed64Type, "fixed64", 0}, 11: {protowire.Fixed32Type, "fixed32", 0}, 12: {protowire.Fixed64Type, "fixed64", 0},
	13: {protowire.VarintType, "varint", 0}, 14: {protowire.BytesType, "bytes", 0}, 15: {protowire.BytesType, "bytes", 0}, 16: {protowire.VarintType, "varint", 0},
	17: {protowire.BytesType, "msg:Inner", 0}, 18: {protowire.BytesType, "packed", protowire.VarintType}, 19: {protowire.BytesType, "packed", protowire.Fixed64Type},
	20: {protowire.BytesType, "bytes", 0}, 21: {protowire.BytesType, "msg:Inner", 0}, 22: {protowire.BytesType, "map", 0}, 23: {protowire.BytesType, "map", 0},
	24: {protowire.BytesType, "map", 0}, 25: {protowire.BytesType, "packed", protowire.VarintType}, 26: {protowire.BytesType, "packed", protowire.VarintType},
	27: {protowire.BytesType, "packed", protowire.Fixed32Type}, 28: {protowire.BytesType, "map", 0}, 29: {protowire.BytesType, "msg:Msg", 0},
}
var innerFields = map[protowire.Number]pfield{1: {protowire.VarintType, "varint", 0}, 2: {protowire.BytesType, "bytes", 0}}

// protoAnomaly: first anomaly of a Msg encoding in wire order by the strict reference
// (google.golang.org/protobuf/encoding/protowire): truncated | varint-overflow | bad-field-number |
// reserved-wiretype | group | wiretype!=descriptor | wellformed[,unknown-field].
func protoAnomaly(b []byte) string {
	unknown := false
	var walk func(b []byte, fields map[protowire.Number]pfield, depth int) string
	perr := func(n int) string {
		switch n {
		case -1:
			return "truncated"
		case -2:
			return "bad-field-number"
		case -3:
			return "varint-overflow"
		case -4:
			return "reserved-wiretype"
		case -5:
			return "group"
		}
		return "invalid"
	}
	walk = func(b []byte, fields map[protowire.Number]pfield, depth int) string {
		if depth > 100 {
			return "too-deep"
		}
		for len(b) > 0 {
			num, wt, n := protowire.ConsumeTag(b)
			if n < 0 {
				return perr(n)
			}
			b = b[n:]
			if wt == protowire.StartGroupType || wt == protowire.EndGroupType {
				return "group"
			}
			if wt > 5 {
				return "reserved-wiretype"
			}
			f, ok := fields[num]
			if !ok {
				unknown = true
				n = protowire.ConsumeFieldValue(num, wt, b)
				if n < 0 {
					return perr(n)
				}
				b = b[n:]
				continue
			}
			if f.wt != wt && !(f.kind == "packed" && wt == f.packed) {
				return "wiretype!=descriptor"
			}
			switch wt {
			case protowire.VarintType:
				_, n = protowire.ConsumeVarint(b)
			case protowire.Fixed32Type:
				_, n = protowire.ConsumeFixed32(b)
			case protowire.Fixed64Type:
				_, n = protowire.ConsumeFixed64(b)
			case protowire.BytesType:
				var v []byte
				v, n = protowire.ConsumeBytes(b)
				if n >= 0 {
					switch f.kind {
					case "msg:Inner":
						if a := walk(v, innerFields, depth+1); a != "" {
							return a
						}
					case "msg:Msg":
						if a := walk(v, msgFields, depth+1); a != "" {
							return a
						}
					case "packed":
						for len(v) > 0 {
							m := 0
							switch f.packed {
							case protowire.VarintType:
								_, m = protowire.ConsumeVarint(v)
							case protowire.Fixed32Type:
								_, m = protowire.ConsumeFixed32(v)
							default:
								_, m = protowire.ConsumeFixed64(v)
							}
							if m < 0 {
								return "packed-element-" + perr(m)
							}
							v = v[m:]
						}
					case "map":
						// entry: any two fields 1 and 2 (kinds depend on the map; validated generically)
						for len(v) > 0 {
							num2, wt2, m := protowire.ConsumeTag(v)
							if m < 0 {
								return "map-entry-" + perr(m)
							}
							v = v[m:]
							m = protowire.ConsumeFieldValue(num2, wt2, v)
							if m < 0 {
								return "map-entry-" + perr(m)
							}
							v = v[m:]
						}
					}
				}
			}
			if n < 0 {
				return perr(n)
			}
			b = b[n:]
		}
		return ""
	}
	if a := walk(b, msgFields, 0); a != "" {
		return a
	}
	if unknown {
		return "wellformed,unknown-field"
	}
	return "wellformed"
}

// protoAnomalySchemaless: wire-level validity of the top-level field sequence only.
func protoAnomalySchemaless(b []byte) string {
	for len(b) > 0 {
		num, wt, n := protowire.ConsumeTag(b)
		if n < 0 {
			return "truncated-or-invalid-tag"
		}
		b = b[n:]
		m := protowire.ConsumeFieldValue(num, wt, b)
		if m < 0 {
			return "invalid-field"
		}
		b = b[m:]
	}
	return "wellformed"
}

// ---------- seed builder with structural positions ----------

type ppos struct {
	off  int
	kind string // tag | len | varint
}

type pbuilder struct {
	b   []byte
	pos []ppos
}

func (p *pbuilder) mark(from int, kind string) {
	for i := from; i < len(p.b); i++ {
		p.pos = append(p.pos, ppos{i, kind})
	}
}
func (p *pbuilder) tag(num protowire.Number, wt protowire.Type) {
	o := len(p.b)
	p.b = protowire.AppendTag(p.b, num, wt)
	p.mark(o, "tag")
}
func (p *pbuilder) varint(num protowire.Number, v uint64) {
	p.tag(num, protowire.VarintType)
	o := len(p.b)
	p.b = protowire.AppendVarint(p.b, v)
	p.mark(o, "varint")
}
func (p *pbuilder) fixed32(num protowire.Number, v uint32) {
	p.tag(num, protowire.Fixed32Type)
	p.b = protowire.AppendFixed32(p.b, v)
}
func (p *pbuilder) fixed64(num protowire.Number, v uint64) {
	p.tag(num, protowire.Fixed64Type)
	p.b = protowire.AppendFixed64(p.b, v)
}

// bytes appends a length-delimited field; inner structural positions (relative to the payload) are shifted.
func (p *pbuilder) bytes(num protowire.Number, payload []byte, inner []ppos) {
	p.tag(num, protowire.BytesType)
	o := len(p.b)
	p.b = protowire.AppendVarint(p.b, uint64(len(payload)))
	p.mark(o, "len")
	base := len(p.b)
	p.b = append(p.b, payload...)
	for _, q := range inner {
		p.pos = append(p.pos, ppos{base + q.off, q.kind})
	}
}
func (p *pbuilder) sub(num protowire.Number, f func(q *pbuilder)) {
	q := &pbuilder{}
	f(q)
	p.bytes(num, q.b, q.pos)
}

type pseed struct {
	canned bool // testdata seed: descriptors of example2.proto
	packed bool // contains a packed repeated field
	name   string
	b      []byte
	pos    []ppos
	path   [][]pgeneric.Path // lookups that exist in this seed
}

func fid(n int) pgeneric.Path { return pgeneric.NewPathFieldId(dproto.FieldNumber(n)) }

func protoSeeds() []*pseed {
	var out []*pseed
	add := func(name string, paths [][]pgeneric.Path, f func(p *pbuilder)) {
		p := &pbuilder{}
		f(p)
		out = append(out, &pseed{name: name, b: p.b, pos: p.pos, path: paths, packed: strings.HasPrefix(name, "packed") || name == "all-fields"})
	}
	inner := func(q *pbuilder) { q.varint(1, 300); q.bytes(2, []byte("in"), nil) }
	zz := func(v int64) uint64 { return protowire.EncodeZigZag(v) }
	one := func(n int) [][]pgeneric.Path { return [][]pgeneric.Path{{fid(n)}} }
	add("int32", one(1), func(p *pbuilder) { p.varint(1, uint64(0xffffffffffffff85)) }) // -123: 10-byte varint
	add("int64", one(2), func(p *pbuilder) { p.varint(2, 1<<40+7) })
	add("uint32", one(3), func(p *pbuilder) { p.varint(3, 4000000000) })
	add("uint64", one(4), func(p *pbuilder) { p.varint(4, math.MaxUint64) })
	add("sint32", one(5), func(p *pbuilder) { p.varint(5, zz(-77)) })
	add("sint64", one(6), func(p *pbuilder) { p.varint(6, zz(math.MinInt64)) })
	add("fixed32", one(7), func(p *pbuilder) { p.fixed32(7, 0xdeadbeef) })
	add("fixed64", one(8), func(p *pbuilder) { p.fixed64(8, 0xfeedfacecafebeef) })
	add("sfixed32", one(9), func(p *pbuilder) { p.fixed32(9, 0xfffffffe) })
	add("sfixed64", one(10), func(p *pbuilder) { p.fixed64(10, 0xfffffffffffffffd) })
	add("float", one(11), func(p *pbuilder) { p.fixed32(11, math.Float32bits(1.5)) })
	add("double", one(12), func(p *pbuilder) { p.fixed64(12, math.Float64bits(-2.25)) })
	add("bool", one(13), func(p *pbuilder) { p.varint(13, 1) })
	add("string", one(14), func(p *pbuilder) { p.bytes(14, []byte("hello"), nil) })
	add("bytes", one(15), func(p *pbuilder) { p.bytes(15, []byte{0, 0xff, 1}, nil) })
	add("enum", one(16), func(p *pbuilder) { p.varint(16, 1) })
	add("message", [][]pgeneric.Path{{fid(17)}, {fid(17), fid(1)}, {fid(17), fid(2)}, {pgeneric.NewPathFieldName("msg"), pgeneric.NewPathFieldName("s")}}, func(p *pbuilder) { p.sub(17, inner) })
	add("packed-int32", [][]pgeneric.Path{{fid(18)}, {fid(18), pgeneric.NewPathIndex(0)}, {fid(18), pgeneric.NewPathIndex(2)}, {fid(18), pgeneric.NewPathIndex(3)}}, func(p *pbuilder) {
		p.sub(18, func(q *pbuilder) {
			for _, v := range []uint64{1, 300, 0xfffffffffffffffe} {
				o := len(q.b)
				q.b = protowire.AppendVarint(q.b, v)
				q.mark(o, "varint")
			}
		})
	})
	add("packed-double", [][]pgeneric.Path{{fid(19)}, {fid(19), pgeneric.NewPathIndex(1)}}, func(p *pbuilder) {
		p.sub(19, func(q *pbuilder) {
			q.b = protowire.AppendFixed64(q.b, math.Float64bits(1.5))
			q.b = protowire.AppendFixed64(q.b, math.Float64bits(-2))
		})
	})
	add("repeated-string", [][]pgeneric.Path{{fid(20)}, {fid(20), pgeneric.NewPathIndex(0)}, {fid(20), pgeneric.NewPathIndex(1)}, {fid(20), pgeneric.NewPathIndex(2)}}, func(p *pbuilder) {
		p.bytes(20, []byte("ab"), nil)
		p.bytes(20, []byte(""), nil)
	})
	add("repeated-message", [][]pgeneric.Path{{fid(21)}, {fid(21), pgeneric.NewPathIndex(1)}, {fid(21), pgeneric.NewPathIndex(1), fid(2)}}, func(p *pbuilder) {
		p.sub(21, inner)
		p.sub(21, func(q *pbuilder) { q.bytes(2, []byte("z"), nil) })
	})
	add("map<string,int32>", [][]pgeneric.Path{{fid(22)}, {fid(22), pgeneric.NewPathStrKey("k1")}, {fid(22), pgeneric.NewPathStrKey("k2")}, {fid(22), pgeneric.NewPathStrKey("absent")}}, func(p *pbuilder) {
		p.sub(22, func(q *pbuilder) { q.bytes(1, []byte("k1"), nil); q.varint(2, 5) })
		p.sub(22, func(q *pbuilder) { q.bytes(1, []byte("k2"), nil); q.varint(2, 600) })
	})
	add("map<int32,string>", [][]pgeneric.Path{{fid(23)}, {fid(23), pgeneric.NewPathIntKey(7)}, {fid(23), pgeneric.NewPathIntKey(8)}}, func(p *pbuilder) {
		p.sub(23, func(q *pbuilder) { q.varint(1, 7); q.bytes(2, []byte("seven"), nil) })
	})
	add("map<string,message>", [][]pgeneric.Path{{fid(24)}, {fid(24), pgeneric.NewPathStrKey("m")}, {fid(24), pgeneric.NewPathStrKey("m"), fid(1)}}, func(p *pbuilder) {
		p.sub(24, func(q *pbuilder) { q.bytes(1, []byte("m"), nil); q.sub(2, inner) })
	})
	add("packed-bool", [][]pgeneric.Path{{fid(25)}, {fid(25), pgeneric.NewPathIndex(1)}}, func(p *pbuilder) {
		p.sub(25, func(q *pbuilder) { q.b = append(q.b, 1, 0, 1); q.mark(0, "varint") })
	})
	add("packed-sint64", [][]pgeneric.Path{{fid(26)}, {fid(26), pgeneric.NewPathIndex(1)}}, func(p *pbuilder) {
		p.sub(26, func(q *pbuilder) {
			for _, v := range []uint64{zz(-1), zz(1 << 40)} {
				o := len(q.b)
				q.b = protowire.AppendVarint(q.b, v)
				q.mark(o, "varint")
			}
		})
	})
	add("packed-fixed32", [][]pgeneric.Path{{fid(27)}, {fid(27), pgeneric.NewPathIndex(1)}}, func(p *pbuilder) {
		p.sub(27, func(q *pbuilder) {
			q.b = protowire.AppendFixed32(q.b, 1)
			q.b = protowire.AppendFixed32(q.b, 0xffffffff)
		})
	})
	add("map<int64,double>", [][]pgeneric.Path{{fid(28)}, {fid(28), pgeneric.NewPathIntKey(-5)}}, func(p *pbuilder) {
		p.sub(28, func(q *pbuilder) { q.varint(1, uint64(0xfffffffffffffffb)); q.fixed64(2, math.Float64bits(0.5)) })
	})
	add("recursive-message", [][]pgeneric.Path{{fid(29)}, {fid(29), fid(29)}, {fid(29), fid(29), fid(1)}}, func(p *pbuilder) {
		p.sub(29, func(q *pbuilder) { q.sub(29, func(r *pbuilder) { r.varint(1, 9) }); q.bytes(14, []byte("x"), nil) })
	})
	add("unknown-fields", one(1), func(p *pbuilder) {
		p.varint(100, 1)
		p.bytes(101, []byte("unk"), nil)
		p.fixed32(102, 1)
		p.fixed64(103, 1)
		p.varint(1, 5)
	})
	add("all-fields", [][]pgeneric.Path{{fid(1)}, {fid(14)}, {fid(17), fid(2)}, {fid(18), pgeneric.NewPathIndex(1)}, {fid(22), pgeneric.NewPathStrKey("k")}, {fid(29), fid(13)}, {fid(30)}}, func(p *pbuilder) {
		p.varint(1, 1)
		p.varint(2, 2)
		p.varint(5, zz(-3))
		p.fixed32(7, 7)
		p.fixed64(12, math.Float64bits(12.5))
		p.varint(13, 1)
		p.bytes(14, []byte("fourteen"), nil)
		p.bytes(15, []byte{15}, nil)
		p.sub(17, inner)
		p.sub(18, func(q *pbuilder) { q.b = append(q.b, 1, 2, 3); q.mark(0, "varint") })
		p.bytes(20, []byte("r0"), nil)
		p.bytes(20, []byte("r1"), nil)
		p.sub(21, inner)
		p.sub(22, func(q *pbuilder) { q.bytes(1, []byte("k"), nil); q.varint(2, 22) })
		p.sub(23, func(q *pbuilder) { q.varint(1, 23); q.bytes(2, []byte("v"), nil) })
		p.sub(29, func(q *pbuilder) { q.varint(13, 1) })
	})
	add("all-fields-without-packed", [][]pgeneric.Path{{fid(1)}, {fid(14)}, {fid(17), fid(2)}, {fid(22), pgeneric.NewPathStrKey("k")}, {fid(29), fid(13)}, {fid(30)}}, func(p *pbuilder) {
		p.varint(1, 1)
		p.varint(6, zz(-3))
		p.fixed32(9, 7)
		p.fixed64(12, math.Float64bits(12.5))
		p.varint(13, 1)
		p.bytes(14, []byte("fourteen"), nil)
		p.bytes(15, []byte{15}, nil)
		p.sub(17, inner)
		p.bytes(20, []byte("r0"), nil)
		p.bytes(20, []byte("r1"), nil)
		p.sub(21, inner)
		p.sub(22, func(q *pbuilder) { q.bytes(1, []byte("k"), nil); q.varint(2, 22) })
		p.sub(23, func(q *pbuilder) { q.varint(1, 23); q.bytes(2, []byte("v"), nil) })
		p.sub(29, func(q *pbuilder) { q.varint(13, 1) })
	})
	return out
}

// ---------- proto fault model ----------

// lenVarints: the length-varint alphabet {2^31-1, 2^31, 2^63-1, 2^63, 2^64-1, 10-byte overflow, 11 bytes}.
func lenVarints() [][]byte {
	var out [][]byte
	for _, v := range []uint64{0, 1, 1<<31 - 1, 1 << 31, 1<<32 - 1, 1<<63 - 1, 1 << 63, math.MaxUint64} {
		out = append(out, protowire.AppendVarint(nil, v))
	}
	out = append(out,
		[]byte{0xff, 0xff, 0xff, 0xff, 0xff, 0xff, 0xff, 0xff, 0xff, 0x7f},       // 10 bytes, bits beyond 64
		[]byte{0xff, 0xff, 0xff, 0xff, 0xff, 0xff, 0xff, 0xff, 0xff, 0xff, 0x01}, // 11 bytes
		[]byte{0x80, 0x80, 0x80, 0x80, 0x80, 0x80, 0x80, 0x80, 0x80, 0x80},       // never terminated within 10
		[]byte{0x85, 0x80, 0x00}, // non-minimal 5
	)
	return out
}

// neighbours=false leaves out the tag substitutions that move a field to the neighbouring field number
// (they are not part of the DESIGN alphabet; they can turn a field into a packed list, see p2jHangCases).
func protoFaults(sd *pseed, neighbours bool, yield func(f fault) bool) bool {
	ref := sd.b
	if !yield(fault{"intact", "intact", ref}) {
		return false
	}
	for k := 0; k < len(ref); k++ {
		if !yield(fault{fmt.Sprintf("truncated to %d of %d", k, len(ref)), "truncated", ref[:k]}) {
			return false
		}
	}
	for _, p := range sd.pos {
		alpha := []byte{0x00, 0x01, 0x7f, 0x80, 0xff}
		if p.kind == "tag" {
			// every wire type (valid 0,1,2,5; groups 3,4; reserved 6,7) with the same field-number bits
			for wt := byte(0); wt < 8; wt++ {
				alpha = append(alpha, ref[p.off]&^7|wt)
			}
			// field number 0, and (extra to the DESIGN alphabet) the neighbouring field numbers
			alpha = append(alpha, ref[p.off]&7)
			if neighbours {
				alpha = append(alpha, ref[p.off]+8, ref[p.off]-8)
			}
		} else {
			alpha = append(alpha, ref[p.off]^0x80, ref[p.off]+1, ref[p.off]-1, 0x02, 0x0a)
		}
		seen := map[byte]bool{ref[p.off]: true}
		for _, b := range alpha {
			if seen[b] {
				continue
			}
			seen[b] = true
			m := append([]byte{}, ref...)
			m[p.off] = b
			if !yield(fault{fmt.Sprintf("byte %d (%s) %02x->%02x", p.off, p.kind, ref[p.off], b), "subst@" + p.kind, m}) {
				return false
			}
		}
	}
	// every length varint (first byte positions of "len" runs) replaced by each member of the varint alphabet
	for i, p := range sd.pos {
		if p.kind != "len" || (i > 0 && sd.pos[i-1].kind == "len" && sd.pos[i-1].off == p.off-1) {
			continue
		}
		end := p.off
		for end < len(ref) && ref[end]&0x80 != 0 {
			end++
		}
		end++
		for _, lv := range lenVarints() {
			m := append(append(append([]byte{}, ref[:p.off]...), lv...), ref[end:]...)
			if !yield(fault{fmt.Sprintf("length varint at %d -> %x", p.off, lv), "lenvarint", m}) {
				return false
			}
		}
	}
	// every value varint replaced by the over-long encodings
	for i, p := range sd.pos {
		if p.kind != "varint" || (i > 0 && sd.pos[i-1].kind == "varint" && sd.pos[i-1].off == p.off-1 && ref[p.off-1]&0x80 != 0) {
			continue
		}
		end := p.off
		for end < len(ref) && ref[end]&0x80 != 0 {
			end++
		}
		end++
		for _, lv := range lenVarints()[8:] {
			m := append(append(append([]byte{}, ref[:p.off]...), lv...), ref[min(end, len(ref)):]...)
			if !yield(fault{fmt.Sprintf("value varint at %d -> %x", p.off, lv), "valvarint", m}) {
				return false
			}
		}
	}
	return true
}

func min(a, b int) int {
	if a < b {
		return a
	}
	return b
}

// ---------- proto entry points ----------

type ptop struct {
	name string
	run  func(sd *pseed, in []byte) string
}

// p2jName: the converter whose packed-list loop ignores element errors (see p2jHangCases): its scope
// is shaped so that no other case can reach that loop with an unreadable element.
const p2jName = "p2j.BinaryConv.Do"

// p2jHangCases: the dedicated family for the known non-terminating loop of p2j
// (conv/p2j/impl.go unmarshalList: `for p.Read < start+len { self.unmarshalSingular(...) }` ignores the
// element error, so an unreadable element never advances). Every case costs the 30 s watchdog, so the
// quick tier runs exactly one witness (the first element of a packed int32 list is a cut varint: no output
// growth, a pure loop); thorough adds every truncation point of the packed-int32 seed.
func p2jHangCases(tier string) []fault {
	out := []fault{{"packed int32 list (field 18), length 1, payload 80: first element is a cut varint", "p2j-packed-cut", []byte{0x92, 0x01, 0x01, 0x80}}}
	if tier == "thorough" {
		for _, sd := range protoSeeds() {
			if sd.name != "packed-int32" {
				continue
			}
			for k := 3; k < len(sd.b); k++ {
				out = append(out, fault{fmt.Sprintf("packed-int32 seed truncated to %d of %d", k, len(sd.b)), "p2j-packed-cut", sd.b[:k]})
			}
		}
	}
	return out
}

func protoOps() []ptop {
	o0 := pgeneric.Options{}
	o1 := pgeneric.Options{MapStructById: true}
	return []ptop{
		{"proto.Value.GetByPath", func(sd *pseed, in []byte) string {
			d, err := protoDesc("")
			if err != nil {
				return "harness-idl"
			}
			v := pgeneric.NewRootValue(d, in)
			cls := "ok"
			for _, p := range sd.path {
				c := v.GetByPath(p...)
				if c.IsError() {
					cls = "error"
					continue
				}
				x, err := c.Interface(&o0)
				obs(x)
				if err != nil {
					cls = "error"
				}
			}
			return cls
		}},
		{"proto.Value.Field/Index/GetByStr/GetByInt(chained)", func(sd *pseed, in []byte) string {
			// the single-step lookups chained by hand, every node on the way and - for lists - every element the
			// node announces (at most 8) cast through Interface
			d, err := protoDesc("")
			if err != nil {
				return "harness-idl"
			}
			root := pgeneric.NewRootValue(d, in)
			cls := "ok"
			cast := func(c pgeneric.Value) {
				if c.IsError() {
					cls = "error"
					return
				}
				x, err := c.Interface(&o0)
				obs(x)
				if err != nil {
					cls = "error"
				}
				obs(c.Raw())
			}
			elems := func(c pgeneric.Value) {
				if c.IsError() || c.Type() != dproto.LIST {
					return
				}
				ln, err := c.Len()
				if err != nil {
					cls = "error"
					return
				}
				for i := 0; i < ln && i < 8; i++ {
					cast(c.Index(i))
				}
			}
			for _, p := range sd.path {
				cur := root
				for _, st := range p {
					switch st.Type() {
					case pgeneric.PathFieldId:
						cur = cur.Field(st.Id())
					case pgeneric.PathFieldName:
						cur = cur.FieldByName(st.Str())
					case pgeneric.PathIndex:
						cur = cur.Index(st.Int())
					case pgeneric.PathStrKey:
						cur = cur.GetByStr(st.Str())
					case pgeneric.PathIntKey:
						cur = cur.GetByInt(st.Int())
					default:
						cur = cur.GetByPath(st)
					}
					if cur.IsError() {
						break
					}
					elems(cur)
				}
				cast(cur)
			}
			return cls
		}},
		{"proto.Value.Interface", func(sd *pseed, in []byte) string {
			d, err := protoDesc("")
			if err != nil {
				return "harness-idl"
			}
			v := pgeneric.NewRootValue(d, in)
			x, err := v.Interface(&o1)
			obs(x)
			return errClass(err)
		}},
		{"proto.Node.Children(recurse)", func(sd *pseed, in []byte) string {
			d, err := protoDesc("")
			if err != nil {
				return "harness-idl"
			}
			v := pgeneric.NewRootValue(d, in)
			var out []pgeneric.PathNode
			return errClass(v.Children(&out, true, &o0, d))
		}},
		{"proto.PathNode.Load+Marshal", func(sd *pseed, in []byte) string {
			d, err := protoDesc("")
			if err != nil {
				return "harness-idl"
			}
			pn := pgeneric.PathNode{Node: pgeneric.NewRootValue(d, in).Node}
			if err := pn.Load(true, &o0, d); err != nil {
				return "error"
			}
			_, err = pn.Marshal(&o0)
			return "loaded," + errClass(err)
		}},
		{"proto.PathNode.Load(lazy)", func(sd *pseed, in []byte) string {
			d, err := protoDesc("")
			if err != nil {
				return "harness-idl"
			}
			pn := pgeneric.PathNode{Node: pgeneric.NewRootValue(d, in).Node}
			return errClass(pn.Load(false, &o0, d))
		}},
		{"proto.Value.MarshalTo", func(sd *pseed, in []byte) string {
			d, err := protoDesc("")
			if err != nil {
				return "harness-idl"
			}
			d2, err := protoDesc("2")
			if err != nil {
				return "harness-idl"
			}
			v := pgeneric.NewRootValue(d, in)
			_, err = v.MarshalTo(d2, &o0)
			return errClass(err)
		}},
		{"proto.Value.MarshalTo(same descriptor objects)", func(sd *pseed, in []byte) string {
			// source and target from ONE parse: every (sub-)descriptor is the same object on both sides
			d, err := protoDesc("")
			if err != nil {
				return "harness-idl"
			}
			v := pgeneric.NewRootValue(d, in)
			_, err = v.MarshalTo(d, &o0)
			return errClass(err)
		}},
		{"proto.Value.Fields/GetMany", func(sd *pseed, in []byte) string {
			d, err := protoDesc("")
			if err != nil {
				return "harness-idl"
			}
			v := pgeneric.NewRootValue(d, in)
			ps := []pgeneric.PathNode{{Path: fid(1)}, {Path: fid(14)}, {Path: fid(17)}, {Path: fid(22)}}
			return errClass(v.GetMany(ps, &o0))
		}},
		{"p2j.BinaryConv.Do", func(sd *pseed, in []byte) string {
			d, err := protoDesc("")
			if err != nil {
				return "harness-idl"
			}
			cv := p2j.NewBinaryConv(conv.Options{})
			_, err = cv.Do(context.Background(), d, in)
			return errClass(err)
		}},
		{"proto.BinaryProtocol.ReadAnyWithDesc", func(sd *pseed, in []byte) string {
			d, err := protoDesc("")
			if err != nil {
				return "harness-idl"
			}
			p := dbinary.NewBinaryProtol(in)
			x, err := p.ReadAnyWithDesc(d, false, false, false, true)
			obs(x)
			return errClass(err)
		}},
		{"proto.BinaryProtocol.tag+Skip-loop", func(sd *pseed, in []byte) string {
			p := dbinary.NewBinaryProtol(in)
			for p.Left() > 0 {
				_, wt, _, err := p.ConsumeTag()
				if err != nil {
					return "error"
				}
				if err := p.Skip(wt, false); err != nil {
					return "error"
				}
			}
			return "ok"
		}},
	}
}

type pdesc struct {
	Op    string `json:"op"`
	Seed  string `json:"seed"`
	Fault string `json:"fault"`
	Hex   string `json:"input_hex"`
}

func protoCase(op ptop, sd *pseed, f fault, group string) core.Case {
	return core.Case{
		Tag:  op.name,
		Desc: func() interface{} { return pdesc{op.name, sd.name, f.name, hexs(f.buf)} },
		Run: func() core.Result {
			r := core.Result{Key: op.name + "|" + sd.name + "|" + f.name}
			useCannedProto = sd.canned
			defer func() { useCannedProto = false }()
			if !protoReady(&r) {
				return r
			}
			cat := protoAnomaly(f.buf)
			if sd.canned {
				// the schema-aware reference walker knows Msg only: a canned input is "wellformed" when it is
				// the intact file, every fault of it counts as malformed (mutated) input
				cat = "mutated:" + protoAnomalySchemaless(f.buf)
				if f.class == "intact" {
					cat = "wellformed"
				}
			}
			cls := monitored(&r, famOf(op.name), op.name, trigClass(cat), f.buf, func() string {
				return fmt.Sprintf("seed %s, fault %s, input (%d bytes) %s", sd.name, f.name, len(f.buf), hexs(f.buf))
			}, func(in []byte) string { return op.run(sd, in) })
			r.Class = op.name + ":" + cls + "/" + cat
			return r
		},
	}
}

// ---------- primitive readers: proto/binary and proto/protowire on short inputs ----------

func protoReaderOps() []ptop {
	mk := func(name string, f func(p *dbinary.BinaryProtocol) error) ptop {
		return ptop{name, func(sd *pseed, in []byte) string { return errClass(f(dbinary.NewBinaryProtol(in))) }}
	}
	w := func(name string, f func(b []byte) int) ptop {
		return ptop{name, func(sd *pseed, in []byte) string {
			if n := f(in); n < 0 {
				return "error"
			} else if n > len(in) {
				return "consumed-more-than-input"
			}
			return "ok"
		}}
	}
	var dec dwire.BinaryDecoder
	return []ptop{
		mk("proto.BinaryProtocol.ReadVarint", func(p *dbinary.BinaryProtocol) error { _, e := p.ReadVarint(); return e }),
		mk("proto.BinaryProtocol.ReadInt32", func(p *dbinary.BinaryProtocol) error { _, e := p.ReadInt32(); return e }),
		mk("proto.BinaryProtocol.ReadSint64", func(p *dbinary.BinaryProtocol) error { _, e := p.ReadSint64(); return e }),
		mk("proto.BinaryProtocol.ReadUint64", func(p *dbinary.BinaryProtocol) error { _, e := p.ReadUint64(); return e }),
		mk("proto.BinaryProtocol.ReadBool", func(p *dbinary.BinaryProtocol) error { _, e := p.ReadBool(); return e }),
		mk("proto.BinaryProtocol.ReadEnum", func(p *dbinary.BinaryProtocol) error { _, e := p.ReadEnum(); return e }),
		mk("proto.BinaryProtocol.ReadFixed32", func(p *dbinary.BinaryProtocol) error { _, e := p.ReadFixed32(); return e }),
		mk("proto.BinaryProtocol.ReadFixed64", func(p *dbinary.BinaryProtocol) error { _, e := p.ReadFixed64(); return e }),
		mk("proto.BinaryProtocol.ReadFloat", func(p *dbinary.BinaryProtocol) error { _, e := p.ReadFloat(); return e }),
		mk("proto.BinaryProtocol.ReadDouble", func(p *dbinary.BinaryProtocol) error { _, e := p.ReadDouble(); return e }),
		mk("proto.BinaryProtocol.ReadBytes", func(p *dbinary.BinaryProtocol) error { v, e := p.ReadBytes(); obs(v); return e }),
		mk("proto.BinaryProtocol.ReadString(copy)", func(p *dbinary.BinaryProtocol) error { _, e := p.ReadString(true); return e }),
		mk("proto.BinaryProtocol.ReadString(nocopy)", func(p *dbinary.BinaryProtocol) error { v, e := p.ReadString(false); obs(v); return e }),
		mk("proto.BinaryProtocol.ReadLength", func(p *dbinary.BinaryProtocol) error { _, e := p.ReadLength(); return e }),
		mk("proto.BinaryProtocol.ReadByte", func(p *dbinary.BinaryProtocol) error { _, e := p.ReadByte(); return e }),
		mk("proto.BinaryProtocol.ReadInt(INT64)", func(p *dbinary.BinaryProtocol) error { _, e := p.ReadInt(dproto.INT64); return e }),
		mk("proto.BinaryProtocol.ConsumeTag", func(p *dbinary.BinaryProtocol) error { _, _, _, e := p.ConsumeTag(); return e }),
		mk("proto.BinaryProtocol.ConsumeTagWithoutMove", func(p *dbinary.BinaryProtocol) error { _, _, _, e := p.ConsumeTagWithoutMove(); return e }),
		mk("proto.BinaryProtocol.Skip(varint)", func(p *dbinary.BinaryProtocol) error { return p.Skip(dproto.VarintType, false) }),
		mk("proto.BinaryProtocol.Skip(fixed32)", func(p *dbinary.BinaryProtocol) error { return p.Skip(dproto.Fixed32Type, false) }),
		mk("proto.BinaryProtocol.Skip(fixed64)", func(p *dbinary.BinaryProtocol) error { return p.Skip(dproto.Fixed64Type, false) }),
		mk("proto.BinaryProtocol.Skip(bytes)", func(p *dbinary.BinaryProtocol) error { return p.Skip(dproto.BytesType, false) }),
		mk("proto.BinaryProtocol.Skip(group)", func(p *dbinary.BinaryProtocol) error { return p.Skip(dproto.StartGroupType, false) }),
		mk("proto.BinaryProtocol.SkipAllElements(packed)", func(p *dbinary.BinaryProtocol) error { _, e := p.SkipAllElements(18, true); return e }),
		mk("proto.BinaryProtocol.SkipAllElements(unpacked)", func(p *dbinary.BinaryProtocol) error { _, e := p.SkipAllElements(20, false); return e }),
		w("protowire.ConsumeVarint", func(b []byte) int { _, n := dwire.ConsumeVarint(b); return n }),
		w("protowire.ConsumeFixed32", func(b []byte) int { _, n := dwire.ConsumeFixed32(b); return n }),
		w("protowire.ConsumeFixed64", func(b []byte) int { _, n := dwire.ConsumeFixed64(b); return n }),
		w("protowire.ConsumeBytes", func(b []byte) int { v, n, _ := dwire.ConsumeBytes(b); obs(v); return n }),
		w("protowire.BinaryDecoder.DecodeBool", func(b []byte) int { _, n := dec.DecodeBool(b); return n }),
		w("protowire.BinaryDecoder.DecodeInt32", func(b []byte) int { _, n := dec.DecodeInt32(b); return n }),
		w("protowire.BinaryDecoder.DecodeSint64", func(b []byte) int { _, n := dec.DecodeSint64(b); return n }),
		w("protowire.BinaryDecoder.DecodeUint64", func(b []byte) int { _, n := dec.DecodeUint64(b); return n }),
		w("protowire.BinaryDecoder.DecodeFixed32", func(b []byte) int { _, n := dec.DecodeFixed32(b); return n }),
		w("protowire.BinaryDecoder.DecodeSfixed64", func(b []byte) int { _, n := dec.DecodeSfixed64(b); return n }),
		w("protowire.BinaryDecoder.DecodeFloat32", func(b []byte) int { _, n := dec.DecodeFloat32(b); return n }),
		w("protowire.BinaryDecoder.DecodeDouble", func(b []byte) int { _, n := dec.DecodeDouble(b); return n }),
		w("protowire.BinaryDecoder.DecodeString", func(b []byte) int { v, n, _ := dec.DecodeString(b); obs(v); return n }),
		w("protowire.BinaryDecoder.DecodeBytes", func(b []byte) int { v, n, _ := dec.DecodeBytes(b); obs(v); return n }),
	}
}

// protoShortAlphabet: continuation / terminator bytes and small tags of each wire type.
var protoShortAlphabet = []byte{0x00, 0x01, 0x02, 0x08, 0x0a, 0x0d, 0x09, 0x7f, 0x80, 0x81, 0xff, 0x92}

var protoMsgShortAlphabet = []byte{0x00, 0x01, 0x02, 0x08, 0x0a, 0x0d, 0x09, 0x7f, 0x80, 0x81, 0xff, 0x12}

func protoShortCase(op ptop, b []byte, what string) core.Case {
	return core.Case{
		Tag:  op.name,
		Desc: func() interface{} { return sdesc{op.name, what, fmt.Sprintf("%x", b)} },
		Run: func() core.Result {
			r := core.Result{Key: op.name + "|" + what + "|" + string(b)}
			cls := monitored(&r, famOf(op.name), op.name, "short-bytes", b, func() string {
				return fmt.Sprintf("%s input (%d bytes) %x", what, len(b), b)
			}, func(in []byte) string { return op.run(&pseed{}, in) })
			r.Class = op.name + ":" + cls
			return r
		},
	}
}

// protoAnomalyShort classifies a short input as a varint / length prefix by the reference protowire.
func protoAnomalyShort(b []byte) string {
	v, n := protowire.ConsumeVarint(b)
	switch {
	case n == -1:
		return "varint-truncated"
	case n < 0:
		return "varint-overflow"
	case v > uint64(len(b)-n):
		if v > math.MaxInt32 {
			return "length>2^31"
		}
		return "length>remaining"
	}
	return "length-fits"
}

func enumProtoShort(tier string, part int, yield func(core.Case) bool) {
	maxLen := 3
	if tier == "thorough" {
		maxLen = 4
	}
	ops := protoReaderOps()
	switch part {
	case 0:
		for _, op := range ops {
			if !enumStrings(protoShortAlphabet, maxLen, func(b []byte) bool { return yield(protoShortCase(op, b, "bytes")) }) {
				return
			}
		}
	case 1:
		for _, op := range ops {
			if !enumStrings(allBytes, 2, func(b []byte) bool { return yield(protoShortCase(op, b, "bytes")) }) {
				return
			}
		}
	case 2:
		// message-level entry points on alphabet^<=maxLen
		for _, op := range protoOps() {
			sd := &pseed{name: "short", path: [][]pgeneric.Path{{fid(1)}, {fid(14)}, {fid(17), fid(1)}, {fid(18), pgeneric.NewPathIndex(0)}, {fid(22), pgeneric.NewPathStrKey("k")}}}
			op := op
			// (0x12 instead of 0x92: no 2-byte tag of a packed field can be formed, see p2jHangCases)
			if !enumStrings(protoMsgShortAlphabet, maxLen, func(b []byte) bool {
				return yield(protoCase(op, sd, fault{fmt.Sprintf("bytes %x", b), "short-bytes", b}, ""))
			}) {
				return
			}
		}
	default:
		// length / value varints of the varint alphabet followed by 0, 1 or 8 payload bytes
		for _, op := range ops {
			for _, payload := range []int{0, 1, 8} {
				for _, lv := range lenVarints() {
					b := append(append([]byte{}, lv...), strings.Repeat("x", payload)...)
					if !yield(protoShortCase(op, b, fmt.Sprintf("varint %x + %d payload bytes", lv, payload))) {
						return
					}
				}
			}
		}
	}
}

// ---------- nesting ----------

func protoNested(d int) []byte {
	// self (field 29) nested d times: each level = tag(2 bytes: 29<<3|2 = 0xea 0x01) + length varint + inner
	inner := protowire.AppendVarint(protowire.AppendTag(nil, 1, protowire.VarintType), 7)
	// build from inside out; lengths grow, so compute iteratively
	lens := make([]int, d+1)
	lens[0] = len(inner)
	for i := 1; i <= d; i++ {
		lens[i] = 2 + protowire.SizeVarint(uint64(lens[i-1])) + lens[i-1]
	}
	out := make([]byte, 0, lens[d])
	for i := d; i >= 1; i-- {
		out = protowire.AppendTag(out, 29, protowire.BytesType)
		out = protowire.AppendVarint(out, uint64(lens[i-1]))
	}
	return append(out, inner...)
}

func enumProtoNesting(tier string, yield func(core.Case) bool) {
	// (several entry points are quadratic in the nesting depth; at 10^5 levels they allocate ~30 GB in
	// total and leave the worker's address space (RLIMIT_AS counts virtual memory, the Go heap never
	// unmaps) too full for the cases that follow: the thorough tier stops at 3*10^4)
	depths := []int{1, 64, 254, 255, 256, 1023, 1024, 1025, 10000}
	if tier == "thorough" {
		depths = append(depths, 30000)
	}
	for _, d := range depths {
		for _, op := range protoOps() {
			op, d := op, d
			dc := "depth<=256"
			switch {
			case d > 10000:
				dc = "3e4"
			case d > 1025:
				dc = "1e4"
			case d > 256:
				dc = "depth~1024"
			}
			c := core.Case{
				Tag:  op.name + "|nesting:" + dc,
				Desc: func() interface{} { return ndesc{op.name, "message self=29", d} },
				Run: func() core.Result {
					r := core.Result{Key: fmt.Sprintf("%s|nest|%d", op.name, d)}
					freeMem()
					if !protoReady(&r) {
						return r
					}
					b := protoNested(d)
					sd := &pseed{name: "nested", path: [][]pgeneric.Path{{fid(29)}, {fid(29), fid(29), fid(29)}}}
					cls := monitored(&r, famOf(op.name), op.name, "nesting", b, func() string {
						return fmt.Sprintf("%d levels of nested messages (%d bytes)", d, len(b))
					}, func(in []byte) string { return op.run(sd, in) })
					r.Class = op.name + ":" + cls + "/nesting"
					return r
				},
			}
			if !yield(c) {
				return
			}
		}
	}
}
