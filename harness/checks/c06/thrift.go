package c06

import (
	"context"
	"encoding/binary"
	"fmt"
	"strings"

	"github.com/cloudwego/dynamicgo/conv"
	"github.com/cloudwego/dynamicgo/conv/t2j"
	"github.com/cloudwego/dynamicgo/thrift"
	"github.com/cloudwego/dynamicgo/thrift/generic"

	"verif/engine/core"
	"verif/ref/tbin"
)

// ---------- reference classification of a thrift input (trigger class of signatures) ----------

// firstAnomaly walks buf as a value of wire type t with the strict reference rules and returns the
// first anomaly in wire order: short | negative-length | negative-size | size>remaining | bad-type-code |
// too-deep, or, when shape != nil (descriptor-driven entry points), type!=descriptor when a valid wire
// type code differs from what the descriptor declares at that position. "wellformed" (optionally
// ",unknown-field" / ",trailing") otherwise. It classifies inputs; it decides nothing.
func firstAnomaly(buf []byte, t tbin.Type, shape *tbin.Shape) string {
	unknown := false
	var walk func(off int, t tbin.Type, s *tbin.Shape, depth int) (int, string)
	walk = func(off int, t tbin.Type, s *tbin.Shape, depth int) (int, string) {
		if depth > 64 {
			return off, "too-deep"
		}
		left := len(buf) - off
		switch t {
		case tbin.BOOL, tbin.BYTE:
			if left < 1 {
				return off, "short"
			}
			return off + 1, ""
		case tbin.I16:
			if left < 2 {
				return off, "short"
			}
			return off + 2, ""
		case tbin.I32:
			if left < 4 {
				return off, "short"
			}
			return off + 4, ""
		case tbin.I64, tbin.DOUBLE:
			if left < 8 {
				return off, "short"
			}
			return off + 8, ""
		case tbin.STRING:
			if left < 4 {
				return off, "short"
			}
			n := int(int32(binary.BigEndian.Uint32(buf[off:])))
			if n < 0 {
				return off, "negative-length"
			}
			if n > left-4 {
				return off, "short"
			}
			return off + 4 + n, ""
		case tbin.LIST, tbin.SET:
			if left < 5 {
				return off, "short"
			}
			et := tbin.Type(buf[off])
			n := int(int32(binary.BigEndian.Uint32(buf[off+1:])))
			if !et.Valid() {
				return off, "bad-type-code"
			}
			var es *tbin.Shape
			if s != nil {
				if s.Elem.T != et {
					return off, "type!=descriptor"
				}
				es = s.Elem
			}
			if n < 0 {
				return off, "negative-size"
			}
			if n > left-5 {
				return off, "size>remaining"
			}
			off += 5
			for i := 0; i < n; i++ {
				o, a := walk(off, et, es, depth+1)
				if a != "" {
					return o, a
				}
				off = o
			}
			return off, ""
		case tbin.MAP:
			if left < 6 {
				return off, "short"
			}
			kt, vt := tbin.Type(buf[off]), tbin.Type(buf[off+1])
			n := int(int32(binary.BigEndian.Uint32(buf[off+2:])))
			if !kt.Valid() || !vt.Valid() {
				return off, "bad-type-code"
			}
			var ks, vs *tbin.Shape
			if s != nil {
				if s.Key.T != kt || s.Elem.T != vt {
					return off, "type!=descriptor"
				}
				ks, vs = s.Key, s.Elem
			}
			if n < 0 {
				return off, "negative-size"
			}
			if n > (left-6)/2 {
				return off, "size>remaining"
			}
			off += 6
			for i := 0; i < n; i++ {
				o, a := walk(off, kt, ks, depth+1)
				if a != "" {
					return o, a
				}
				o, a = walk(o, vt, vs, depth+1)
				if a != "" {
					return o, a
				}
				off = o
			}
			return off, ""
		case tbin.STRUCT:
			for {
				if len(buf)-off < 1 {
					return off, "short"
				}
				ft := tbin.Type(buf[off])
				if ft == tbin.STOP {
					return off + 1, ""
				}
				if !ft.Valid() {
					return off, "bad-type-code"
				}
				if len(buf)-off < 3 {
					return off, "short"
				}
				id := int16(binary.BigEndian.Uint16(buf[off+1:]))
				var fs *tbin.Shape
				if s != nil {
					found := false
					for i := range s.Fields {
						if s.Fields[i].ID == id {
							found = true
							if s.Fields[i].S.T != ft {
								return off, "type!=descriptor"
							}
							fs = s.Fields[i].S
						}
					}
					if !found {
						unknown = true
					}
				}
				o, a := walk(off+3, ft, fs, depth+1)
				if a != "" {
					return o, a
				}
				off = o
			}
		}
		return off, "bad-type-code"
	}
	end, a := walk(0, t, shape, 0)
	if a != "" {
		return a
	}
	r := "wellformed"
	if unknown {
		r += ",unknown-field"
	}
	if end != len(buf) {
		r += ",trailing"
	}
	return r
}

// ---------- structural positions ----------

type spos struct {
	off  int
	kind string // elemtype | keytype | valtype | size | strlen | fieldtype | fieldid | stop
	idx  int
}

func structural(v *tbin.Val, out *[]spos) {
	switch v.T {
	case tbin.STRING:
		for i := 0; i < 4; i++ {
			*out = append(*out, spos{v.Off + i, "strlen", i})
		}
	case tbin.LIST, tbin.SET:
		*out = append(*out, spos{v.Off, "elemtype", 0})
		for i := 1; i < 5; i++ {
			*out = append(*out, spos{v.Off + i, "size", i - 1})
		}
		for _, e := range v.L {
			structural(e, out)
		}
	case tbin.MAP:
		*out = append(*out, spos{v.Off, "keytype", 0}, spos{v.Off + 1, "valtype", 0})
		for i := 2; i < 6; i++ {
			*out = append(*out, spos{v.Off + i, "size", i - 2})
		}
		for i := range v.L {
			structural(v.K[i], out)
			structural(v.L[i], out)
		}
	case tbin.STRUCT:
		for _, f := range v.Fs {
			*out = append(*out, spos{f.HdrOff, "fieldtype", 0}, spos{f.HdrOff + 1, "fieldid", 0}, spos{f.HdrOff + 2, "fieldid", 1})
			structural(f.V, out)
		}
		*out = append(*out, spos{v.End - 1, "stop", 0})
	}
}

// substAlphabet: {00 01 7f 80 ff} u every valid type code u invalid type codes.
var substAlphabet = []byte{0x00, 0x01, 0x7f, 0x80, 0xff, 2, 3, 4, 6, 8, 10, 11, 12, 13, 14, 15, 5, 7, 9, 16, 17, 0xfe}

// sizeAlphabet for a 4-byte size/length field currently holding n.
func sizeAlphabet(n uint32) []uint32 {
	return []uint32{0, 1, n - 1, n + 1, 1 << 16, 1<<31 - 1, 1 << 31, 1<<32 - 1}
}

// fault is one corrupted variant of a seed encoding.
type fault struct {
	name  string // human readable
	class string // coarse class (Tag)
	buf   []byte
}

// thriftFaults enumerates the whole fault model over one encoded value (simplest first):
// intact, every truncation point, every structural single-byte substitution, every 4-byte size field value.
// big=false leaves out the substitutions / size values that make a size or length field >= 2^24
// (used for the entry points that allocate by wire size, where those are explored on dedicated seeds).
func thriftFaults(v *tbin.Val, ref []byte, yield func(f fault) bool) bool {
	if !yield(fault{"intact", "intact", ref}) {
		return false
	}
	for k := 0; k < len(ref); k++ {
		if !yield(fault{fmt.Sprintf("truncated to %d of %d", k, len(ref)), "truncated", ref[:k]}) {
			return false
		}
	}
	var pos []spos
	structural(v, &pos)
	for _, p := range pos {
		for _, b := range substAlphabet {
			if ref[p.off] == b {
				continue
			}
			m := append([]byte{}, ref...)
			m[p.off] = b
			if !yield(fault{fmt.Sprintf("byte %d (%s[%d]) %02x->%02x", p.off, p.kind, p.idx, ref[p.off], b), "subst@" + p.kind, m}) {
				return false
			}
		}
	}
	for _, p := range pos {
		if (p.kind != "size" && p.kind != "strlen") || p.idx != 0 {
			continue
		}
		cur := binary.BigEndian.Uint32(ref[p.off:])
		seen := map[uint32]bool{cur: true}
		for _, x := range sizeAlphabet(cur) {
			if seen[x] {
				continue
			}
			seen[x] = true
			m := append([]byte{}, ref...)
			binary.BigEndian.PutUint32(m[p.off:], x)
			if !yield(fault{fmt.Sprintf("4-byte %s field at %d: %d->%d", p.kind, p.off, cur, x), "size4@" + p.kind, m}) {
				return false
			}
		}
	}
	return true
}

// ---------- seeds ----------

type tseed struct {
	name  string
	shape *tbin.Shape // shape of the root value
	val   *tbin.Val
	ref   []byte
	idl   string
	// descriptor of the root type is DescOf(idl, inner)
	inner bool
}

// wrapSeed: message Root{1: s f1} with containers of n elements.
func wrapSeed(s *tbin.Shape, n int) *tseed {
	root := tbin.StructS(tbin.SF(1, s))
	g := &tbin.Gen{}
	v := tbin.Struct(tbin.F(1, g.Build(s, n)))
	return &tseed{name: fmt.Sprintf("Root{1:%s} n=%d", s, n), shape: root, val: v, ref: tbin.Bytes(v), idl: tbin.IDL(s, true)}
}

// longNumberSeeds: Root{1: list<i64>} / list<double> / list<i32> / map<i64,double> with 2000 and 20000 entries of
// 19-digit integers, 17-digit doubles, 10-digit i32.
var longSeeds []*tseed

func longNumberSeeds() []*tseed {
	if longSeeds != nil {
		return longSeeds
	}
	for _, n := range []int{2000, 20000} {
		mk := func(s *tbin.Shape, v *tbin.Val, what string) {
			root := tbin.StructS(tbin.SF(1, s))
			rv := tbin.Struct(tbin.F(1, v))
			longSeeds = append(longSeeds, &tseed{name: fmt.Sprintf("Root{1:%s} with %d %s", s, n, what), shape: root, val: rv, ref: tbin.Bytes(rv), idl: tbin.IDL(s, true)})
		}
		li := tbin.List(tbin.I64)
		ld := tbin.List(tbin.DOUBLE)
		l32 := tbin.List(tbin.I32)
		m := tbin.Map(tbin.I64, tbin.DOUBLE)
		for i := 0; i < n; i++ {
			x := int64(-9123456789012345678) + int64(i)
			li.L = append(li.L, tbin.I64v(x))
			ld.L = append(ld.L, tbin.Double(-1.2345678901234567e-300*float64(i+1)))
			l32.L = append(l32.L, tbin.I32v(int32(-2123456789+i)))
			m.K = append(m.K, tbin.I64v(x))
			m.L = append(m.L, tbin.Double(1.2345678901234567e+300/float64(i+1)))
		}
		mk(tbin.ListS(tbin.Sc(tbin.I64)), li, "19-digit integers")
		mk(tbin.ListS(tbin.Sc(tbin.DOUBLE)), ld, "17-digit doubles")
		mk(tbin.ListS(tbin.Sc(tbin.I32)), l32, "10-digit integers")
		mk(tbin.MapS(tbin.Sc(tbin.I64), tbin.Sc(tbin.DOUBLE)), m, "long keys and values")
	}
	return longSeeds
}

// bareSeed: the value itself as root (NewNode(t, bytes), ReadAny(t), Skip(t) accept any root type).
func bareSeed(s *tbin.Shape, n int) *tseed {
	g := &tbin.Gen{}
	v := g.Build(s, n)
	return &tseed{name: fmt.Sprintf("%s n=%d", s, n), shape: s, val: v, ref: tbin.Bytes(v), idl: tbin.IDL(s, true), inner: true}
}

var descCache = map[string]*thrift.TypeDescriptor{}

// descOf parses a harness-generated IDL (tbin.IDL layout). fresh != "" gives a separately parsed, equal
// but pointer-distinct descriptor.
var descHook func(idl string, fresh string) (*thrift.TypeDescriptor, bool)

func descOf(idl string, inner bool, fresh string) (*thrift.TypeDescriptor, error) {
	k := fmt.Sprintf("%v|%s|%s", inner, fresh, idl)
	if d, ok := descCache[k]; ok {
		return d, nil
	}
	if descHook != nil {
		if d, ok := descHook(idl, fresh); ok {
			if d == nil {
				return nil, fmt.Errorf("canned descriptor unavailable")
			}
			descCache[k] = d
			return d, nil
		}
	}
	svc, err := thrift.Options{}.NewDescritorFromContent(context.Background(), "a/b/main.thrift", idl, nil, false)
	if err != nil {
		return nil, err
	}
	d := svc.Functions()["M"].Request().Struct().FieldById(1).Type()
	if inner {
		d = d.Struct().FieldById(1).Type()
	}
	descCache[k] = d
	return d, nil
}

func wrappedShapes(tier string) []*tbin.Shape {
	var out []*tbin.Shape
	out = append(out, tbin.Scalars()...)
	t1 := tbin.T1()
	t2 := tbin.T2()
	s1, s2 := 1, 2
	if tier == "thorough" {
		s1, s2 = 1, 1
	}
	for i := 0; i < len(t1); i += s1 {
		out = append(out, t1[i])
	}
	for i := 0; i < len(t2); i += s2 {
		out = append(out, t2[i])
	}
	return out
}

// bareShapes: root types for the entry points that accept any root (one of each constructor, nested once).
func bareShapes() []*tbin.Shape {
	return []*tbin.Shape{
		tbin.ListS(tbin.Sc(tbin.I32)),
		tbin.MapS(tbin.Sc(tbin.STRING), tbin.Sc(tbin.I32)),
		tbin.MapS(tbin.Sc(tbin.I32), tbin.Sc(tbin.STRING)),
		tbin.ListS(tbin.ListS(tbin.Sc(tbin.STRING))),
		tbin.SetS(tbin.Sc(tbin.STRING)),
		tbin.MapS(tbin.Sc(tbin.DOUBLE), tbin.Sc(tbin.BOOL)),
		tbin.Sc(tbin.STRING), tbin.Sc(tbin.I64), tbin.Sc(tbin.BOOL),
	}
}

// containerKeyShapes: maps whose KEYS are containers / structs (legal on the wire; generic readers must box them)
func containerKeyShapes() []*tbin.Shape {
	b := tbin.Sc(tbin.BOOL)
	return []*tbin.Shape{
		tbin.MapS(tbin.MapS(tbin.Sc(tbin.STRING), b), b),
		tbin.MapS(tbin.MapS(tbin.Sc(tbin.I32), b), b),
		tbin.MapS(tbin.ListS(tbin.Sc(tbin.I32)), tbin.Sc(tbin.I32)),
		tbin.MapS(tbin.SetS(tbin.Sc(tbin.STRING)), tbin.Sc(tbin.BYTE)),
		tbin.MapS(tbin.StructS(tbin.SF(1, tbin.Sc(tbin.I32))), tbin.Sc(tbin.I32)),
	}
}

// allocSeeds: the dedicated seeds of the allocate-by-wire-size entry points.
func allocSeeds(tier string) []*tseed {
	s := []*tseed{
		bareSeed(tbin.ListS(tbin.Sc(tbin.I32)), 1),
		bareSeed(tbin.MapS(tbin.Sc(tbin.STRING), tbin.Sc(tbin.I32)), 1),
		// every combination of fixed-size / variable-size key and value (a bound computed from the element sizes
		// must not vanish for variable-size elements), one-byte elements, struct elements
		bareSeed(tbin.MapS(tbin.Sc(tbin.STRING), tbin.Sc(tbin.STRING)), 1),
		bareSeed(tbin.MapS(tbin.Sc(tbin.STRING), tbin.Sc(tbin.BOOL)), 1),
		bareSeed(tbin.MapS(tbin.Sc(tbin.BYTE), tbin.Sc(tbin.STRING)), 1),
		bareSeed(tbin.MapS(tbin.Sc(tbin.I64), tbin.Sc(tbin.DOUBLE)), 1),
		bareSeed(tbin.MapS(tbin.Sc(tbin.I32), tbin.StructS(tbin.SF(1, tbin.Sc(tbin.I32)))), 1),
		bareSeed(tbin.MapS(tbin.Sc(tbin.STRING), tbin.StructS(tbin.SF(1, tbin.Sc(tbin.I32)))), 1),
		bareSeed(tbin.ListS(tbin.Sc(tbin.STRING)), 1),
		bareSeed(tbin.ListS(tbin.Sc(tbin.BOOL)), 1),
		bareSeed(tbin.ListS(tbin.StructS(tbin.SF(1, tbin.Sc(tbin.I32)))), 1),
		bareSeed(tbin.SetS(tbin.Sc(tbin.I64)), 1),
	}
	for _, sh := range containerKeyShapes() {
		s = append(s, bareSeed(sh, 1))
	}
	if tier == "thorough" {
		s = append(s, wrapSeed(tbin.ListS(tbin.ListS(tbin.Sc(tbin.STRING))), 1))
	}
	return s
}

// ---------- entry points ----------

// A top is one read-side entry point applied to (seed, corrupted bytes).
type top struct {
	name    string
	alloc   bool // allocates by wire size before validating: explored on allocShapes only
	wrapped bool // although alloc: safe on struct-rooted seeds (nested sizes are validated by the field skip first)
	bare    bool // also meaningful on a bare (non-struct) root
	struct_ bool // needs a struct root + descriptor
	run     func(sd *tseed, in []byte) string
}

func errClass(err error) string {
	if err != nil {
		return "error"
	}
	return "ok"
}

var ctx = context.Background()

func thriftOps() []top {
	o0 := generic.Options{}
	o1 := generic.Options{MapStructById: true, CastStringAsBinary: true}
	on := generic.Options{UseNativeSkip: true}
	oh := generic.Options{StoreChildrenByHash: true, StoreChildrenById: true}
	return []top{
		{name: "thrift.Node.Interface", bare: true, alloc: true, wrapped: true, run: func(sd *tseed, in []byte) string {
			n := generic.NewNode(thrift.Type(sd.shape.T), in)
			v, err := n.Interface(&o0)
			obs(v)
			return errClass(err)
		}},
		{name: "thrift.Node.Interface(byId,binary)", wrapped: true, run: func(sd *tseed, in []byte) string {
			n := generic.NewNode(thrift.Type(sd.shape.T), in)
			v, err := n.Interface(&o1)
			obs(v)
			return errClass(err)
		}},
		{name: "thrift.Node.Children(recurse)", bare: true, run: func(sd *tseed, in []byte) string {
			n := generic.NewNode(thrift.Type(sd.shape.T), in)
			var out []generic.PathNode
			return errClass(n.Children(&out, true, &o0))
		}},
		{name: "thrift.Node.Children(lazy,nativeSkip)", bare: true, run: func(sd *tseed, in []byte) string {
			n := generic.NewNode(thrift.Type(sd.shape.T), in)
			var out []generic.PathNode
			return errClass(n.Children(&out, false, &on))
		}},
		{name: "thrift.PathNode.Load+Marshal", bare: true, run: func(sd *tseed, in []byte) string {
			pn := generic.PathNode{Node: generic.NewNode(thrift.Type(sd.shape.T), in)}
			if err := pn.Load(true, &o0); err != nil {
				return "error"
			}
			_, err := pn.Marshal(&o0)
			return "loaded," + errClass(err)
		}},
		{name: "thrift.PathNode.Load(byHash,byId)", bare: true, alloc: true, run: func(sd *tseed, in []byte) string {
			pn := generic.PathNode{Node: generic.NewNode(thrift.Type(sd.shape.T), in)}
			return errClass(pn.Load(true, &oh))
		}},
		{name: "thrift.Node.Foreach", bare: true, run: func(sd *tseed, in []byte) string {
			n := generic.NewNode(thrift.Type(sd.shape.T), in)
			var walk func(path generic.Path, n generic.Node) bool
			depth := 0
			walk = func(path generic.Path, c generic.Node) bool {
				if depth < 6 && (c.Type() == thrift.LIST || c.Type() == thrift.SET || c.Type() == thrift.MAP || c.Type() == thrift.STRUCT) {
					depth++
					c.Foreach(walk, &o0)
					depth--
				}
				return true
			}
			return errClass(n.Foreach(walk, &o0))
		}},
		{name: "thrift.Node.GetByPath", bare: true, run: func(sd *tseed, in []byte) string {
			n := generic.NewNode(thrift.Type(sd.shape.T), in)
			cls := "ok"
			for _, p := range seedPaths(sd) {
				c := n.GetByPath(p...)
				if c.IsError() {
					cls = "error"
					continue
				}
				// leaf cast through the generic form (elements were validated by the lookup's skip)
				x, err := c.Interface(&o0)
				obs(x)
				if err != nil {
					cls = "error"
				}
			}
			return cls
		}},
		{name: "thrift.Node.Field/Index/GetByStr/GetByInt(chained)", bare: true, run: func(sd *tseed, in []byte) string {
			// the single-step lookups chained by hand (what GetByPath does in one call), every node on the way
			// and - for lists/sets - every element the header announces (at most 8) cast through Interface
			n := generic.NewNode(thrift.Type(sd.shape.T), in)
			cls := "ok"
			cast := func(c generic.Node) {
				if c.IsError() {
					cls = "error"
					return
				}
				x, err := c.Interface(&o0)
				obs(x)
				if err != nil {
					cls = "error"
				}
				obs(c.Raw())
			}
			elems := func(c generic.Node) {
				if c.IsError() || (c.Type() != thrift.LIST && c.Type() != thrift.SET) {
					return
				}
				ln, err := c.Len()
				if err != nil {
					cls = "error"
					return
				}
				for i := 0; i < ln && i < 8; i++ {
					cast(c.Index(i))
				}
				if ln > 8 {
					cast(c.Index(ln - 1))
				}
			}
			elems(n)
			if n.Type() == thrift.STRUCT {
				cast(n.Field(0)) // id 0 is what an iterator reports when it failed
				cast(n.Field(77))
			}
			for _, p := range seedPaths(sd) {
				cur := n
				for _, st := range p {
					switch st.Type() {
					case generic.PathFieldId:
						cur = cur.Field(st.Id())
					case generic.PathIndex:
						cur = cur.Index(st.Int())
					case generic.PathStrKey:
						cur = cur.GetByStr(st.Str())
					case generic.PathIntKey:
						cur = cur.GetByInt(st.Int())
					default:
						cur = cur.GetByPath(st)
					}
					if cur.IsError() {
						break
					}
					elems(cur)
				}
				cast(cur)
			}
			return cls
		}},
		{name: "thrift.Value.GetByPath", struct_: true, run: func(sd *tseed, in []byte) string {
			d, err := descOf(sd.idl, sd.inner, "")
			if err != nil {
				return "harness-idl"
			}
			v := generic.NewValue(d, in)
			cls := "ok"
			for _, p := range seedPaths(sd) {
				c := v.GetByPath(p...)
				if c.IsError() {
					cls = "error"
					continue
				}
				if _, err := c.Interface(&o0); err != nil {
					cls = "error"
				}
			}
			f := v.FieldByName("f1")
			if f.IsError() {
				cls = "error"
			}
			// the name-addressed twin of every path (field ids spelled as field names)
			for _, p := range seedPaths(sd) {
				var q []generic.Path
				for _, st := range p {
					if st.Type() == generic.PathFieldId {
						q = append(q, generic.NewPathFieldName(fmt.Sprintf("f%d", st.Id())))
					} else {
						q = append(q, st)
					}
				}
				c := v.GetByPath(q...)
				if c.IsError() {
					cls = "error"
					continue
				}
				if _, err := c.Interface(&o0); err != nil {
					cls = "error"
				}
			}
			return cls
		}},
		{name: "thrift.Node.Fields/GetMany", struct_: true, run: func(sd *tseed, in []byte) string {
			n := generic.NewNode(thrift.STRUCT, in)
			ps := []generic.PathNode{{Path: generic.NewPathFieldId(1)}, {Path: generic.NewPathFieldId(2)}}
			e1 := n.Fields(ps, &o0)
			ps2 := []generic.PathNode{{Path: generic.NewPathFieldId(1)}}
			e2 := n.GetMany(ps2, &o0)
			return errClass(e1) + "," + errClass(e2)
		}},
		{name: "thrift.Value.GetMany(two children of field 1)", struct_: true, run: func(sd *tseed, in []byte) string {
			// the typed value of field 1 (kinds from the descriptor), asked for two children at once in the spelling
			// its DECLARED kind takes: two int keys / two string keys / two indexes / two field ids
			d, err := descOf(sd.idl, sd.inner, "")
			if err != nil {
				return "harness-idl"
			}
			c := generic.NewValue(d, in).Field(1)
			if c.IsError() {
				return "error"
			}
			var ps []generic.PathNode
			switch ft := d.Struct().FieldById(1); {
			case ft == nil:
				return "no-field-1"
			case ft.Type().Type() == thrift.MAP && ft.Type().Key().Type() == thrift.STRING:
				ps = []generic.PathNode{{Path: generic.NewPathStrKey("s1x")}, {Path: generic.NewPathStrKey("zz")}}
			case ft.Type().Type() == thrift.MAP && ft.Type().Key().Type().IsInt():
				ps = []generic.PathNode{{Path: generic.NewPathIntKey(1)}, {Path: generic.NewPathIntKey(2)}, {Path: generic.NewPathIntKey(300)}}
			case ft.Type().Type() == thrift.LIST || ft.Type().Type() == thrift.SET:
				ps = []generic.PathNode{{Path: generic.NewPathIndex(0)}, {Path: generic.NewPathIndex(1)}}
			case ft.Type().Type() == thrift.STRUCT:
				ps = []generic.PathNode{{Path: generic.NewPathFieldId(1)}, {Path: generic.NewPathFieldId(2)}}
			default:
				return "scalar-field-1"
			}
			e1 := c.GetMany(ps, &o0)
			tree := generic.PathNode{Node: c.Node, Next: ps}
			e2 := c.GetTree(&tree, &o0)
			// the same value reached through GetByPath (its kinds are taken from the descriptor)
			cls := errClass(e1) + "," + errClass(e2)
			if c2 := generic.NewValue(d, in).GetByPath(generic.NewPathFieldId(1)); !c2.IsError() {
				for i := range ps {
					ps[i].Node = generic.Node{}
				}
				cls += "," + errClass(c2.GetMany(ps, &o0))
			}
			return cls
		}},
		{name: "thrift.Value.MarshalTo", struct_: true, run: func(sd *tseed, in []byte) string {
			d, err := descOf(sd.idl, sd.inner, "")
			if err != nil {
				return "harness-idl"
			}
			d2, _ := descOf(sd.idl, sd.inner, "second-parse")
			v := generic.NewValue(d, in)
			_, err = v.MarshalTo(d2, &o0)
			return errClass(err)
		}},
		{name: "t2j.BinaryConv.Do", struct_: true, run: func(sd *tseed, in []byte) string {
			d, err := descOf(sd.idl, sd.inner, "")
			if err != nil {
				return "harness-idl"
			}
			cv := t2j.NewBinaryConv(conv.Options{})
			_, err = cv.Do(ctx, d, in)
			return errClass(err)
		}},
		{name: "t2j.BinaryConv.Do(int64str,nobase64,disallowUnknown)", struct_: true, run: func(sd *tseed, in []byte) string {
			d, err := descOf(sd.idl, sd.inner, "")
			if err != nil {
				return "harness-idl"
			}
			cv := t2j.NewBinaryConv(conv.Options{Int642String: true, NoBase64Binary: true, DisallowUnknownField: true})
			_, err = cv.Do(ctx, d, in)
			return errClass(err)
		}},
		{name: "thrift.BinaryProtocol.SkipGo", bare: true, run: func(sd *tseed, in []byte) string {
			p := thrift.BinaryProtocol{Buf: in}
			return errClass(p.SkipGo(thrift.Type(sd.shape.T), thrift.MaxSkipDepth))
		}},
		{name: "thrift.BinaryProtocol.SkipNative", bare: true, run: func(sd *tseed, in []byte) string {
			p := thrift.BinaryProtocol{Buf: in}
			return errClass(p.SkipNative(thrift.Type(sd.shape.T), thrift.MaxSkipDepth))
		}},
		{name: "thrift.BinaryProtocol.ReadAny", bare: true, alloc: true, run: func(sd *tseed, in []byte) string {
			p := thrift.BinaryProtocol{Buf: in}
			v, err := p.ReadAny(thrift.Type(sd.shape.T), false, false)
			obs(v)
			return errClass(err)
		}},
		{name: "thrift.BinaryProtocol.ReadAnyWithDesc", bare: true, alloc: true, run: func(sd *tseed, in []byte) string {
			d, err := descOf(sd.idl, sd.inner, "")
			if err != nil {
				return "harness-idl"
			}
			p := thrift.BinaryProtocol{Buf: in}
			v, err := p.ReadAnyWithDesc(d, false, false, false, true)
			obs(v)
			return errClass(err)
		}},
	}
}

// seedPaths: root-to-leaf paths of the seed value: at every container the first element; at the first
// container also the last element and an absent index / key.
func seedPaths(sd *tseed) [][]generic.Path {
	var out [][]generic.Path
	if sd.val == nil {
		// synthetic inputs (short byte strings, nesting): fixed probes
		f, i := generic.NewPathFieldId(1), generic.NewPathIndex(0)
		if sd.shape.T == tbin.STRUCT {
			return [][]generic.Path{{f}, {generic.NewPathFieldId(2)}, {generic.NewPathFieldId(3), i}, {f, f, f}}
		}
		return [][]generic.Path{{i}, {i, i, i}, {generic.NewPathStrKey("a")}, {generic.NewPathIntKey(1)}}
	}
	var rec func(v *tbin.Val, s *tbin.Shape, pre []generic.Path, first bool)
	add := func(p []generic.Path) { out = append(out, append([]generic.Path{}, p...)) }
	keyPath := func(k *tbin.Val) (generic.Path, bool) {
		switch k.T {
		case tbin.STRING:
			return generic.NewPathStrKey(string(k.S)), true
		case tbin.BYTE, tbin.I16, tbin.I32, tbin.I64:
			return generic.NewPathIntKey(int(k.I)), true
		}
		return generic.Path{}, false
	}
	rec = func(v *tbin.Val, s *tbin.Shape, pre []generic.Path, first bool) {
		if len(out) > 12 {
			return
		}
		switch v.T {
		case tbin.STRUCT:
			for i, f := range v.Fs {
				p := append(pre, generic.NewPathFieldId(thrift.FieldID(f.ID)))
				add(p)
				var fs *tbin.Shape
				for j := range s.Fields {
					if s.Fields[j].ID == f.ID {
						fs = s.Fields[j].S
					}
				}
				if fs != nil && i == 0 {
					rec(f.V, fs, p, first)
				}
			}
			add(append(pre, generic.NewPathFieldId(77)))
		case tbin.LIST, tbin.SET:
			if len(v.L) > 0 {
				p := append(pre, generic.NewPathIndex(0))
				add(p)
				rec(v.L[0], s.Elem, p, false)
				if first && len(v.L) > 1 {
					add(append(pre, generic.NewPathIndex(len(v.L)-1)))
				}
			}
			if first {
				add(append(pre, generic.NewPathIndex(len(v.L))))
			}
		case tbin.MAP:
			if len(v.L) > 0 {
				if kp, ok := keyPath(v.K[0]); ok {
					p := append(pre, kp)
					add(p)
					rec(v.L[0], s.Elem, p, false)
					if first && len(v.L) > 1 {
						if kp2, ok := keyPath(v.K[len(v.K)-1]); ok {
							add(append(pre, kp2))
						}
					}
				}
			}
			if first {
				if s.Key.T == tbin.STRING {
					add(append(pre, generic.NewPathStrKey("absent")))
				} else if s.Key.T != tbin.DOUBLE && s.Key.T != tbin.STRUCT {
					add(append(pre, generic.NewPathIntKey(99)))
				}
			}
		}
	}
	rec(sd.val, sd.shape, nil, true)
	return out
}

// famOf: coarse API family of an entry point name ("thrift.Node.Interface(byId)" -> "thrift.Node").
func famOf(op string) string {
	if i := strings.IndexByte(op, '('); i >= 0 {
		op = op[:i]
	}
	p := strings.Split(op, ".")
	if len(p) >= 3 {
		return p[0] + "." + p[1]
	}
	return p[0]
}

// ---------- cases ----------

type tdesc struct {
	Op    string `json:"op"`
	Seed  string `json:"seed"`
	Fault string `json:"fault"`
	Hex   string `json:"input_hex"`
}

func thriftCase(op top, sd *tseed, f fault) core.Case {
	return core.Case{
		Tag:  op.name,
		Desc: func() interface{} { return tdesc{op.name, sd.name, f.name, hexs(f.buf)} },
		Run: func() core.Result {
			r := core.Result{Key: op.name + "|" + sd.name + "|" + f.name}
			var shp *tbin.Shape
			if op.struct_ || strings.Contains(op.name, "WithDesc") {
				shp = sd.shape
			}
			cat := firstAnomaly(f.buf, sd.shape.T, shp)
			cls := monitored(&r, famOf(op.name), op.name, trigClass(cat), f.buf, func() string {
				return fmt.Sprintf("seed %s, fault %s, input (%d bytes) %s", sd.name, f.name, len(f.buf), hexs(f.buf))
			}, func(in []byte) string { return op.run(sd, in) })
			r.Class = op.name + ":" + cls + "/" + cat
			return r
		},
	}
}

// enumThriftSeedOp: the whole fault model of one seed through one entry point.
func enumThriftSeedOp(op top, sd *tseed, yield func(core.Case) bool) bool {
	return thriftFaults(sd.val, sd.ref, func(f fault) bool { return yield(thriftCase(op, sd, f)) })
}
