package c06

import (
	"context"
	"fmt"
	"os"
	"path/filepath"

	dproto "github.com/cloudwego/dynamicgo/proto"
	pgeneric "github.com/cloudwego/dynamicgo/proto/generic"
	"github.com/cloudwego/dynamicgo/thrift"
	"google.golang.org/protobuf/encoding/protowire"

	"verif/engine/core"
	"verif/ref/tbin"
)

// The canned messages of the repository's test data as additional seeds:
//   testdata/data/example2.bin    (thrift, testdata/idl/example2.thrift, ExampleMethod request)
//   testdata/data/example2_pb.bin (protobuf, testdata/idl/example2.proto, ExampleMethod input)
// Both files are stable (the tests do not rewrite them). Structural positions come from the strict
// reference decoders; the fault model and the entry points are the same as for the generated seeds.

func repoRoot() string {
	if r := os.Getenv("REPO"); r != "" {
		return r
	}
	return "/repo"
}

var cannedThriftDesc *thrift.TypeDescriptor

func cannedThrift() (*tseed, error) {
	b, err := os.ReadFile(filepath.Join(repoRoot(), "testdata/data/example2.bin"))
	if err != nil {
		return nil, err
	}
	v, err := tbin.DecodeAll(b, tbin.STRUCT)
	if err != nil {
		return nil, fmt.Errorf("reference decoder rejects example2.bin: %v", err)
	}
	if cannedThriftDesc == nil {
		svc, err := thrift.NewDescritorFromPath(context.Background(), filepath.Join(repoRoot(), "testdata/idl/example2.thrift"))
		if err != nil {
			return nil, err
		}
		cannedThriftDesc = svc.Functions()["ExampleMethod"].Request().Struct().FieldByKey("req").Type()
	}
	// shape: only the root type is needed (descriptor-specific classification is off for canned data)
	return &tseed{name: "testdata/data/example2.bin", shape: &tbin.Shape{T: tbin.STRUCT}, val: v, ref: b, idl: "canned"}, nil
}

func init() {
	// descOf for the canned seed: the descriptor parsed from the repository's IDL file
	descHook = func(idl string, fresh string) (*thrift.TypeDescriptor, bool) {
		if idl != "canned" {
			return nil, false
		}
		if fresh == "" {
			return cannedThriftDesc, true
		}
		svc, err := thrift.NewDescritorFromPath(context.Background(), filepath.Join(repoRoot(), "testdata/idl/example2.thrift"))
		if err != nil {
			return nil, true
		}
		return svc.Functions()["ExampleMethod"].Request().Struct().FieldByKey("req").Type(), true
	}
}

func enumCannedThrift(op top, yield func(core.Case) bool) {
	sd, err := cannedThrift()
	if err != nil {
		yield(core.Case{Tag: "canned", Run: func() core.Result {
			r := core.Result{Class: "harness-canned"}
			r.Add("harness|canned-thrift-seed", "%v", err)
			return r
		}})
		return
	}
	enumThriftSeedOp(op, sd, yield)
}

// ---- protobuf canned seed ----

var cannedProtoDesc [2]*dproto.TypeDescriptor

func cannedProtoDescs() error {
	for i := range cannedProtoDesc {
		if cannedProtoDesc[i] != nil {
			continue
		}
		svc, err := dproto.NewDescritorFromPath(context.Background(), filepath.Join(repoRoot(), "testdata/idl/example2.proto"), filepath.Join(repoRoot(), "testdata/idl")+"/")
		if err != nil {
			return err
		}
		m := svc.LookupMethodByName("ExampleMethod")
		if m == nil {
			return fmt.Errorf("no ExampleMethod")
		}
		cannedProtoDesc[i] = m.Input()
	}
	return nil
}

// protoPositions finds the structural bytes of a message without a schema: tags, length prefixes and
// varint values of every field; a length-delimited payload is descended into when it parses completely
// as a sequence of fields (sub-message / map entry), otherwise it is payload.
func protoPositions(b []byte, base int, depth int, out *[]ppos) bool {
	off := 0
	var local []ppos
	for off < len(b) {
		num, wt, n := protowire.ConsumeTag(b[off:])
		if n < 0 || num <= 0 {
			return false
		}
		for i := 0; i < n; i++ {
			local = append(local, ppos{base + off + i, "tag"})
		}
		off += n
		switch wt {
		case protowire.VarintType:
			_, m := protowire.ConsumeVarint(b[off:])
			if m < 0 {
				return false
			}
			for i := 0; i < m; i++ {
				local = append(local, ppos{base + off + i, "varint"})
			}
			off += m
		case protowire.Fixed32Type:
			if len(b)-off < 4 {
				return false
			}
			off += 4
		case protowire.Fixed64Type:
			if len(b)-off < 8 {
				return false
			}
			off += 8
		case protowire.BytesType:
			v, m := protowire.ConsumeBytes(b[off:])
			if m < 0 {
				return false
			}
			ln := m - len(v)
			for i := 0; i < ln; i++ {
				local = append(local, ppos{base + off + i, "len"})
			}
			if depth < 6 && len(v) > 1 {
				var sub []ppos
				if protoPositions(v, base+off+ln, depth+1, &sub) {
					local = append(local, sub...)
				}
			}
			off += m
		default:
			return false
		}
	}
	*out = append(*out, local...)
	return true
}

func cannedProto() (*pseed, error) {
	b, err := os.ReadFile(filepath.Join(repoRoot(), "testdata/data/example2_pb.bin"))
	if err != nil {
		return nil, err
	}
	var pos []ppos
	if !protoPositions(b, 0, 0, &pos) {
		return nil, fmt.Errorf("reference protowire rejects example2_pb.bin")
	}
	paths := [][]pgeneric.Path{{fid(1)}, {fid(2)}, {fid(3)}, {fid(255)}, {fid(3), fid(1)}, {pgeneric.NewPathFieldName("Msg")}, {fid(9999)}}
	return &pseed{name: "testdata/data/example2_pb.bin", b: b, pos: pos, path: paths}, nil
}
