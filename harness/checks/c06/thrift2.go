package c06

import (
	"bytes"
	"context"
	"encoding/binary"
	"fmt"

	"github.com/cloudwego/dynamicgo/conv"
	"github.com/cloudwego/dynamicgo/conv/t2j"
	dhttp "github.com/cloudwego/dynamicgo/http"
	"github.com/cloudwego/dynamicgo/meta"
	"github.com/cloudwego/dynamicgo/thrift"
	"github.com/cloudwego/dynamicgo/thrift/base"
	"github.com/cloudwego/dynamicgo/thrift/generic"

	"verif/engine/core"
	"verif/ref/tbin"
)

// ---------- family: all short byte strings ----------

// shortAlphabet: 12 symbols: boundary bytes and the type codes that open every kind of value.
var shortAlphabet = []byte{0x00, 0x01, 0x02, 0x08, 0x0b, 0x0c, 0x0d, 0x0f, 0x10, 0x7f, 0x80, 0xff}

// enumStrings yields all strings over alpha of length <= maxLen, by length then lexicographically.
func enumStrings(alpha []byte, maxLen int, yield func(b []byte) bool) bool {
	for l := 0; l <= maxLen; l++ {
		idx := make([]int, l)
		for {
			b := make([]byte, l)
			for i, x := range idx {
				b[i] = alpha[x]
			}
			if !yield(b) {
				return false
			}
			k := l - 1
			for k >= 0 {
				idx[k]++
				if idx[k] < len(alpha) {
					break
				}
				idx[k] = 0
				k--
			}
			if k < 0 {
				break
			}
		}
	}
	return true
}

var allBytes = func() []byte {
	b := make([]byte, 256)
	for i := range b {
		b[i] = byte(i)
	}
	return b
}()

// shortSeed: the fixed descriptor for the descriptor-driven entry points in the short-strings family.
func shortSeed() *tseed {
	s := tbin.StructS(tbin.SF(1, tbin.Sc(tbin.I32)), tbin.SF(2, tbin.Sc(tbin.STRING)), tbin.SF(3, tbin.ListS(tbin.Sc(tbin.I32))))
	g := &tbin.Gen{}
	v := g.Build(s, 1)
	return &tseed{name: "S{1:i32,2:string,3:list<i32>}", shape: s, val: v, ref: tbin.Bytes(v), idl: tbin.IDL(s, false)}
}

// scalar reader entry points of BinaryProtocol (one input = the whole buffer)
func thriftReaderOps() []top {
	mk := func(name string, f func(p *thrift.BinaryProtocol) error) top {
		return top{name: name, run: func(sd *tseed, in []byte) string {
			p := thrift.BinaryProtocol{Buf: in}
			return errClass(f(&p))
		}}
	}
	return []top{
		mk("thrift.BinaryProtocol.ReadBool", func(p *thrift.BinaryProtocol) error { _, e := p.ReadBool(); return e }),
		mk("thrift.BinaryProtocol.ReadByte", func(p *thrift.BinaryProtocol) error { _, e := p.ReadByte(); return e }),
		mk("thrift.BinaryProtocol.ReadI16", func(p *thrift.BinaryProtocol) error { _, e := p.ReadI16(); return e }),
		mk("thrift.BinaryProtocol.ReadI32", func(p *thrift.BinaryProtocol) error { _, e := p.ReadI32(); return e }),
		mk("thrift.BinaryProtocol.ReadI64", func(p *thrift.BinaryProtocol) error { _, e := p.ReadI64(); return e }),
		mk("thrift.BinaryProtocol.ReadDouble", func(p *thrift.BinaryProtocol) error { _, e := p.ReadDouble(); return e }),
		mk("thrift.BinaryProtocol.ReadInt(I32)", func(p *thrift.BinaryProtocol) error { _, e := p.ReadInt(thrift.I32); return e }),
		mk("thrift.BinaryProtocol.ReadString(copy)", func(p *thrift.BinaryProtocol) error { _, e := p.ReadString(true); return e }),
		mk("thrift.BinaryProtocol.ReadString(nocopy)", func(p *thrift.BinaryProtocol) error { v, e := p.ReadString(false); obs(v); return e }),
		mk("thrift.BinaryProtocol.ReadBinary(copy)", func(p *thrift.BinaryProtocol) error { _, e := p.ReadBinary(true); return e }),
		mk("thrift.BinaryProtocol.ReadBinary(nocopy)", func(p *thrift.BinaryProtocol) error { v, e := p.ReadBinary(false); obs(v); return e }),
		mk("thrift.BinaryProtocol.ReadFieldBegin", func(p *thrift.BinaryProtocol) error { _, _, _, e := p.ReadFieldBegin(); return e }),
		mk("thrift.BinaryProtocol.ReadListBegin", func(p *thrift.BinaryProtocol) error { _, _, e := p.ReadListBegin(); return e }),
		mk("thrift.BinaryProtocol.ReadSetBegin", func(p *thrift.BinaryProtocol) error { _, _, e := p.ReadSetBegin(); return e }),
		mk("thrift.BinaryProtocol.ReadMapBegin", func(p *thrift.BinaryProtocol) error { _, _, _, e := p.ReadMapBegin(); return e }),
		mk("thrift.BinaryProtocol.ReadMessageBegin", func(p *thrift.BinaryProtocol) error { _, _, _, e := p.ReadMessageBegin(true); return e }),
		mk("thrift.UnwrapBinaryMessage", func(p *thrift.BinaryProtocol) error {
			name, _, _, _, body, e := thrift.UnwrapBinaryMessage(p.Buf)
			obs(name)
			obs(body)
			return e
		}),
	}
}

type sdesc struct {
	Op   string `json:"op"`
	Root string `json:"root_type"`
	Hex  string `json:"input_hex"`
}

func shortCase(op top, sd *tseed, rootName string, b []byte, shape *tbin.Shape) core.Case {
	return core.Case{
		Tag:  op.name,
		Desc: func() interface{} { return sdesc{op.name, rootName, fmt.Sprintf("%x", b)} },
		Run: func() core.Result {
			r := core.Result{Key: op.name + "|" + rootName + "|" + string(b)}
			cat := "n/a"
			if sd != nil {
				cat = firstAnomaly(b, sd.shape.T, shape)
			}
			cls := monitored(&r, famOf(op.name), op.name, "short-bytes", b, func() string {
				return fmt.Sprintf("root type %s, input (%d bytes) %x", rootName, len(b), b)
			}, func(in []byte) string { return op.run(sd, in) })
			r.Class = op.name + ":" + cls + "/" + cat
			return r
		},
	}
}

// rootTypes for the short-strings family: every thrift type as root + two invalid codes.
var rootTypes = []tbin.Type{tbin.BOOL, tbin.BYTE, tbin.I16, tbin.I32, tbin.I64, tbin.DOUBLE, tbin.STRING, tbin.STRUCT, tbin.MAP, tbin.SET, tbin.LIST, 0, 5}

func enumShort(tier string, part int, yield func(core.Case) bool) {
	maxLen := 3
	if tier == "thorough" {
		maxLen = 4
	}
	ops := thriftOps()
	switch part {
	case 0:
		// type-rooted entry points x every root type x alphabet^<=maxLen
		for _, op := range ops {
			if !op.bare {
				continue
			}
			for _, t := range rootTypes {
				sd := &tseed{name: t.String(), shape: &tbin.Shape{T: t, Elem: tbin.Sc(tbin.I32), Key: tbin.Sc(tbin.I32)}}
				if t == tbin.STRUCT {
					sd = shortSeed()
				}
				// ReadAnyWithDesc needs a descriptor: only for the struct root
				if op.name == "thrift.BinaryProtocol.ReadAnyWithDesc" && t != tbin.STRUCT {
					continue
				}
				if !enumStrings(shortAlphabet, maxLen, func(b []byte) bool {
					return yield(shortCase(op, sd, t.String(), b, nil))
				}) {
					return
				}
			}
		}
	case 1:
		// descriptor-driven entry points on the fixed struct x alphabet^<=maxLen
		sd := shortSeed()
		for _, op := range ops {
			if !op.struct_ {
				continue
			}
			if !enumStrings(shortAlphabet, maxLen, func(b []byte) bool {
				return yield(shortCase(op, sd, "STRUCT+descriptor", b, sd.shape))
			}) {
				return
			}
		}
	case 2:
		// scalar readers / header readers / envelope parser x alphabet^<=maxLen and all byte strings of length <=2
		for _, op := range thriftReaderOps() {
			if !enumStrings(shortAlphabet, maxLen, func(b []byte) bool { return yield(shortCase(op, nil, "-", b, nil)) }) {
				return
			}
			if !enumStrings(allBytes, 2, func(b []byte) bool { return yield(shortCase(op, nil, "-", b, nil)) }) {
				return
			}
		}
	default:
		// all byte strings of length <=2 through skip / generic read of the four structured root types
		for _, op := range ops {
			switch op.name {
			case "thrift.BinaryProtocol.SkipGo", "thrift.BinaryProtocol.SkipNative", "thrift.Node.Interface", "thrift.Node.Children(recurse)", "thrift.BinaryProtocol.ReadAny":
			default:
				continue
			}
			for _, t := range []tbin.Type{tbin.STRUCT, tbin.LIST, tbin.MAP, tbin.STRING} {
				sd := &tseed{name: t.String(), shape: &tbin.Shape{T: t, Elem: tbin.Sc(tbin.I32), Key: tbin.Sc(tbin.I32)}}
				if !enumStrings(allBytes, 2, func(b []byte) bool { return yield(shortCase(op, sd, t.String(), b, nil)) }) {
					return
				}
			}
		}
	}
}

// ---------- family: length / size fields of strings and headers ----------

// enumLengths: STRING / header readers on a 4-byte length from the size alphabet (incl. around the
// payload actually present) followed by 0, 1 or 8 payload bytes.
func enumLengths(yield func(core.Case) bool) {
	rd := thriftReaderOps()
	var ops []top
	for _, o := range rd {
		switch o.name {
		case "thrift.BinaryProtocol.ReadString(copy)", "thrift.BinaryProtocol.ReadString(nocopy)", "thrift.BinaryProtocol.ReadBinary(copy)", "thrift.BinaryProtocol.ReadBinary(nocopy)":
			ops = append(ops, o)
		}
	}
	for _, o := range thriftOps() {
		switch o.name {
		case "thrift.BinaryProtocol.SkipGo", "thrift.BinaryProtocol.SkipNative", "thrift.BinaryProtocol.ReadAny", "thrift.Node.Interface":
			ops = append(ops, o)
		}
	}
	sd := &tseed{name: "string", shape: tbin.Sc(tbin.STRING)}
	for _, payload := range []int{0, 1, 8} {
		for _, n := range append(sizeAlphabet(uint32(payload)), 1<<24, 1<<31+1) {
			b := binary.BigEndian.AppendUint32(nil, n)
			b = append(b, bytes.Repeat([]byte{'x'}, payload)...)
			for _, op := range ops {
				op := op
				if !yield(shortCase(op, sd, fmt.Sprintf("STRING length=%d payload=%d", n, payload), b, nil)) {
					return
				}
			}
		}
	}
}

// ---------- family: message envelope ----------

const envelopeIDL = "namespace go verif\nstruct R {\n  1: i32 a\n  2: string b\n}\nexception E {\n  1: string m\n}\nservice Svc {\n  R Method(1: R req) throws (1: E e)\n}\n"

var envelopeFn *thrift.FunctionDescriptor

// envelopeHTTPOps: the response side of the HTTP converter reads the envelope itself (message type, member id).
func envelopeHTTPOps() []top {
	mk := func(name string, into bool) top {
		return top{name: name, run: func(sd *tseed, in []byte) string {
			if envelopeFn == nil {
				svc, err := thrift.Options{}.NewDescritorFromContent(context.Background(), "a/b/main.thrift", envelopeIDL, nil, false)
				if err != nil {
					return "harness-idl"
				}
				envelopeFn = svc.Functions()["Method"]
			}
			hc := t2j.NewHTTPConv(meta.EncodingThriftBinary, envelopeFn)
			resp := dhttp.NewHTTPResponse()
			var err error
			if into {
				buf := make([]byte, 0, 16)
				err = hc.DoInto(context.Background(), resp, in, &buf, conv.Options{EnableHttpMapping: true})
			} else {
				err = hc.Do(context.Background(), resp, in, conv.Options{EnableHttpMapping: true})
			}
			return errClass(err)
		}}
	}
	return []top{mk("t2j.HTTPConv.Do(envelope)", false), mk("t2j.HTTPConv.DoInto(envelope)", true)}
}

func enumEnvelope(yield func(core.Case) bool) {
	var ops []top
	for _, o := range thriftReaderOps() {
		if o.name == "thrift.BinaryProtocol.ReadMessageBegin" || o.name == "thrift.UnwrapBinaryMessage" {
			ops = append(ops, o)
		}
	}
	// a CALL as the envelope parsers see it, and a REPLY (member id 0) as the response converter expects it
	if !enumEnvelopeOf(0x80010001, ops, yield) {
		return
	}
	enumEnvelopeOf(0x80010002, append(ops, envelopeHTTPOps()...), yield)
}

func enumEnvelopeOf(version uint32, ops []top, yield func(core.Case) bool) bool {
	g := &tbin.Gen{}
	body := tbin.Bytes(g.Build(tbin.StructS(tbin.SF(1, tbin.Sc(tbin.I32)), tbin.SF(2, tbin.Sc(tbin.STRING))), 1))
	name := "Method"
	var ref []byte
	ref = binary.BigEndian.AppendUint32(ref, version)
	ref = binary.BigEndian.AppendUint32(ref, uint32(len(name)))
	ref = append(ref, name...)
	ref = binary.BigEndian.AppendUint32(ref, 7)
	ref = append(ref, byte(tbin.STRUCT), 0, 0)
	hdr := len(ref)
	ref = append(ref, body...)
	ref = append(ref, 0)
	emit := func(fault string, b []byte) bool {
		fault = fmt.Sprintf("type=%d ", version&0xff) + fault
		for _, op := range ops {
			if !yield(shortCase(op, nil, "envelope "+fault, b, nil)) {
				return false
			}
		}
		return true
	}
	if !emit("intact", ref) {
		return false
	}
	for k := 0; k < len(ref); k++ {
		if !emit(fmt.Sprintf("truncated to %d", k), ref[:k]) {
			return false
		}
	}
	// every header byte x substitution alphabet
	for off := 0; off < hdr; off++ {
		if off >= 8 && off < 8+len(name) {
			continue // name payload: not structural
		}
		for _, x := range substAlphabet {
			if ref[off] == x {
				continue
			}
			m := append([]byte{}, ref...)
			m[off] = x
			if !emit(fmt.Sprintf("byte %d %02x->%02x", off, ref[off], x), m) {
				return false
			}
		}
	}
	// name length field x size alphabet
	for _, n := range append(sizeAlphabet(uint32(len(name))), 1<<24) {
		m := append([]byte{}, ref...)
		binary.BigEndian.PutUint32(m[4:], n)
		if !emit(fmt.Sprintf("name length -> %d", n), m) {
			return false
		}
	}
	// version word x {positive, wrong version, all type bits}
	for _, v := range []uint32{0, 1, 0x7fffffff, 0x80000000, 0x80020001, 0x800100ff, 0xffffffff, 0x80010000} {
		m := append([]byte{}, ref...)
		binary.BigEndian.PutUint32(m[0:], v)
		if !emit(fmt.Sprintf("version word -> %08x", v), m) {
			return false
		}
	}
	return true
}

// ---------- family: nesting depth ----------

const nestIDL = "namespace go verif\nstruct N {\n  1: optional N n\n  2: optional list<N> l\n  3: optional i32 v\n}\nservice Svc {\n  N M(1: N req)\n}\n"

// nested builds d levels of nesting: kind "list": list<list<...list<i32>>> (5 bytes per level);
// kind "struct": struct N{1: N{1: ...}} (3 bytes + a stop per level), which conforms to nestIDL.
func nested(kind string, d int) (t tbin.Type, b []byte) {
	switch kind {
	case "list":
		b = make([]byte, 0, 5*d+5)
		for i := 0; i < d; i++ {
			b = append(b, byte(tbin.LIST), 0, 0, 0, 1)
		}
		b = append(b, byte(tbin.I32), 0, 0, 0, 0)
		return tbin.LIST, b
	default:
		b = make([]byte, 0, 4*d+1)
		for i := 0; i < d; i++ {
			b = append(b, byte(tbin.STRUCT), 0, 1)
		}
		for i := 0; i <= d; i++ {
			b = append(b, 0)
		}
		return tbin.STRUCT, b
	}
}

func nestDepths(tier string) []int {
	d := []int{1, 64, 1021, 1022, 1023, 1024, 1025, 4096, 100000}
	if tier == "thorough" {
		d = append(d, 5000000)
	}
	return d
}

type ndesc struct {
	Op    string `json:"op"`
	Kind  string `json:"nesting"`
	Depth int    `json:"depth"`
}

func enumNesting(tier string, yield func(core.Case) bool) {
	ops := thriftOps()
	for _, d := range nestDepths(tier) {
		for _, kind := range []string{"list", "struct"} {
			for _, op := range ops {
				op, d, kind := op, d, kind
				if kind == "list" && op.struct_ {
					continue
				}
				if op.name == "thrift.BinaryProtocol.ReadAnyWithDesc" && kind == "list" {
					continue
				}
				dc := depthClass(d)
				c := core.Case{
					Tag:  op.name + "|nesting:" + dc,
					Desc: func() interface{} { return ndesc{op.name, kind, d} },
					Run: func() core.Result {
						r := core.Result{Key: fmt.Sprintf("%s|%s|%d", op.name, kind, d)}
						freeMem()
						t, b := nested(kind, d)
						sd := &tseed{name: kind, shape: &tbin.Shape{T: t}, idl: nestIDL}
						cls := monitored(&r, famOf(op.name), op.name, "nesting:"+kind, b, func() string {
							return fmt.Sprintf("%d levels of nested %s (%d bytes)", d, kind, len(b))
						}, func(in []byte) string { return op.run(sd, in) })
						r.Class = op.name + ":" + cls + "/nesting"
						return r
					},
				}
				if !yield(c) {
					return
				}
			}
		}
	}
}

func depthClass(d int) string {
	switch {
	case d < 1023:
		return "below-skip-limit"
	case d <= 1024:
		return "at-skip-limit"
	case d <= 4096:
		return "above-skip-limit"
	case d <= 100000:
		return "1e5"
	}
	return "5e6"
}

var _ = generic.Options{}

// ---------- thrift base (response base taken out of the message into the caller's *base.BaseResp) ----------

const baseRespIDL = `namespace go verif
include "base.thrift"
struct Req {
  1: string msg
  255: base.Base Base
}
struct Resp {
  1: string msg
  255: base.BaseResp BaseResp
}
service Svc {
  Resp M(1: Req req)
}
`

const baseIncIDL = `namespace go base
struct TrafficEnv {
    1: bool Open = false,
    2: string Env = "",
}
struct Base {
    1: string LogID = "",
    2: string Caller = "",
    3: string Addr = "",
    4: string Client = "",
    5: optional TrafficEnv TrafficEnv,
    6: optional map<string, string> Extra,
}
struct BaseResp {
    1: string StatusMessage = "",
    2: i32 StatusCode = 0,
    3: optional map<string, string> Extra,
}
`

var baseRespDescCache *thrift.TypeDescriptor

func baseRespDesc() (*thrift.TypeDescriptor, error) {
	if baseRespDescCache != nil {
		return baseRespDescCache, nil
	}
	svc, err := thrift.Options{EnableThriftBase: true}.NewDescritorFromContent(context.Background(), "a/b/main.thrift", baseRespIDL, map[string]string{"a/b/base.thrift": baseIncIDL}, false)
	if err != nil {
		return nil, err
	}
	baseRespDescCache = svc.Functions()["M"].Response().Struct().FieldById(0).Type()
	return baseRespDescCache, nil
}

// baseRespSeeds: Resp{1:"m", 255:BaseResp{1:"ok", 2:7, 3:{"k":"v"}}} and the same without Extra.
func baseRespSeeds() []*tseed {
	str := tbin.Sc(tbin.STRING)
	brS := tbin.StructS(tbin.SField{ID: 1, Name: "StatusMessage", S: str}, tbin.SField{ID: 2, Name: "StatusCode", S: tbin.Sc(tbin.I32)}, tbin.SField{ID: 3, Name: "Extra", S: tbin.MapS(str, str), Req: 2})
	root := tbin.StructS(tbin.SField{ID: 1, Name: "msg", S: str}, tbin.SField{ID: 255, Name: "BaseResp", S: brS})
	extra := &tbin.Val{T: tbin.MAP, KT: tbin.STRING, ET: tbin.STRING, K: []*tbin.Val{tbin.Str("k")}, L: []*tbin.Val{tbin.Str("v")}}
	full := tbin.Struct(tbin.F(1, tbin.Str("m")), tbin.F(255, tbin.Struct(tbin.F(1, tbin.Str("ok")), tbin.F(2, tbin.I32v(7)), tbin.F(3, extra))))
	bare := tbin.Struct(tbin.F(1, tbin.Str("m")), tbin.F(255, tbin.Struct(tbin.F(1, tbin.Str("ok")), tbin.F(2, tbin.I32v(7)))))
	return []*tseed{
		{name: "Resp{1:msg,255:BaseResp{msg,code,extra}}", shape: root, val: full, ref: tbin.Bytes(full)},
		{name: "Resp{1:msg,255:BaseResp{msg,code}}", shape: root, val: bare, ref: tbin.Bytes(bare)},
	}
}

func baseRespOps() []top {
	mk := func(name string, withCtx bool, o conv.Options) top {
		return top{name: name, struct_: true, run: func(sd *tseed, in []byte) string {
			d, err := baseRespDesc()
			if err != nil {
				return "harness-idl"
			}
			c := context.Background()
			var br *base.BaseResp
			if withCtx {
				br = base.NewBaseResp()
				c = context.WithValue(c, conv.CtxKeyThriftRespBase, br)
			}
			cv := t2j.NewBinaryConv(o)
			_, err = cv.Do(c, d, in)
			obs(br)
			return errClass(err)
		}}
	}
	return []top{
		mk("t2j.BinaryConv.Do(thriftBase,ctx BaseResp)", true, conv.Options{EnableThriftBase: true}),
		mk("t2j.BinaryConv.Do(thriftBase,no ctx)", false, conv.Options{EnableThriftBase: true}),
	}
}

// ---------- value mapping (api.js_conv): the annotation's own reader works on the raw message ----------

const jsconvIDL = "namespace go verif\nstruct Root {\n  1: i64 x (api.js_conv = \"true\")\n  2: list<i64> l (api.js_conv = \"true\")\n  3: list<double> d (api.js_conv = \"true\")\n  4: list<string> s (api.js_conv = \"true\")\n  5: i32 y (api.js_conv = \"true\")\n  6: list<i16> h (api.js_conv = \"true\")\n}\nservice Svc {\n  Root M(1: Root req)\n}\n"

var jsconvDesc *thrift.TypeDescriptor

func jsconvSeeds() []*tseed {
	i64l := tbin.ListS(tbin.Sc(tbin.I64))
	root := tbin.StructS(tbin.SF(1, tbin.Sc(tbin.I64)), tbin.SF(2, i64l), tbin.SF(3, tbin.ListS(tbin.Sc(tbin.DOUBLE))), tbin.SF(4, tbin.ListS(tbin.Sc(tbin.STRING))), tbin.SF(5, tbin.Sc(tbin.I32)), tbin.SF(6, tbin.ListS(tbin.Sc(tbin.I16))))
	v := tbin.Struct(tbin.F(1, tbin.I64v(1<<53+1)), tbin.F(2, tbin.List(tbin.I64, tbin.I64v(-1), tbin.I64v(7))), tbin.F(3, tbin.List(tbin.DOUBLE, tbin.Double(1.5))),
		tbin.F(4, tbin.List(tbin.STRING, tbin.Str("12"))), tbin.F(5, tbin.I32v(-3)), tbin.F(6, tbin.List(tbin.I16, tbin.I16v(300))))
	return []*tseed{{name: "Root{js_conv scalars and lists}", shape: root, val: v, ref: tbin.Bytes(v)}}
}

func jsconvOps() []top {
	return []top{{name: "t2j.BinaryConv.Do(valueMapping,js_conv)", struct_: true, run: func(sd *tseed, in []byte) string {
		if jsconvDesc == nil {
			svc, err := thrift.Options{}.NewDescritorFromContent(context.Background(), "a/b/main.thrift", jsconvIDL, nil, false)
			if err != nil {
				return "harness-idl"
			}
			jsconvDesc = svc.Functions()["M"].Response().Struct().FieldById(0).Type()
		}
		cv := t2j.NewBinaryConv(conv.Options{EnableValueMapping: true})
		_, err := cv.Do(context.Background(), jsconvDesc, in)
		return errClass(err)
	}}}
}
