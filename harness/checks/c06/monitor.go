package c06

import (
	"fmt"
	"os"
	"reflect"
	"runtime"
	"runtime/debug"
	"runtime/metrics"
	"strings"
	"unsafe"

	"verif/checks/guardpage"
	"verif/engine/core"
)

// The monitors of C06 around one call of a read-side entry point on one input:
//   * recoverable panic (incl. runtime faults, debug.SetPanicOnFault is on in workers)
//   * over-read: the input is placed flush against a PROT_NONE page; a fault whose address lies in
//     that page is classified "over-read" (in Go code it is a recoverable panic; in hand-loaded
//     native code it kills the worker and the parent attributes the death to Case.Tag)
//   * allocation: TotalAlloc delta of the SECOND of two identical runs <= 1 MiB + 256*len(input)
//   * hang / fatal errors: the core's watchdog and crash attribution (Case.Tag)

const arenaSize = 1 << 22 // 4 MiB: the deepest nesting inputs are ~3 MiB

var arena *guardpage.Arena

func getArena() *guardpage.Arena { return getArenaFor(0) }

// getArenaFor returns the arena, re-mapped larger if an input of n bytes does not fit.
func getArenaFor(n int) *guardpage.Arena {
	if arena != nil && n > arena.Cap() {
		arena.Close()
		arena = nil
	}
	if arena == nil {
		sz := arenaSize
		for sz < n {
			sz *= 2
		}
		a, err := guardpage.New(sz)
		if err != nil {
			panic("guardpage: " + err.Error())
		}
		if !a.Probe() {
			panic("guardpage: reading past a placed buffer does not fault in this process")
		}
		arena = a
	}
	return arena
}

var allocSample = []metrics.Sample{{Name: "/gc/heap/allocs:bytes"}}

// allocApprox is a cheap monotone counter of heap bytes allocated (no stop-the-world). It lags by at
// most the not-yet-accounted part of the current per-size-class spans, so it is only used as a
// screen; the bound is decided with runtime.ReadMemStats.
func allocApprox() uint64 {
	metrics.Read(allocSample)
	return allocSample[0].Value.Uint64()
}

func allocExact() uint64 {
	var m runtime.MemStats
	runtime.ReadMemStats(&m)
	return m.TotalAlloc
}

type panicInfo struct {
	val      string
	site     string
	class    string
	stack    string
	overRead bool
}

// catch runs f; a panic is returned with the innermost dynamicgo frame and, for runtime faults, whether
// the faulting address lies in the guard page behind the input.
func catch(in []byte, f func()) (pi *panicInfo) {
	defer func() {
		if r := recover(); r != nil {
			pi = &panicInfo{val: fmt.Sprint(r)}
			if e, ok := r.(interface{ Addr() uintptr }); ok && arena != nil {
				lo, hi := arena.GuardRange()
				if a := e.Addr(); a >= lo && a < hi {
					pi.overRead = true
				}
			}
			pcs := make([]uintptr, 64)
			n := runtime.Callers(2, pcs)
			fr := runtime.CallersFrames(pcs[:n])
			var sb strings.Builder
			for {
				f, more := fr.Next()
				if strings.Contains(f.Function, "cloudwego/dynamicgo") && !strings.Contains(f.Function, "verifhook") && pi.site == "" {
					pi.site = strings.TrimPrefix(f.Function, "github.com/cloudwego/dynamicgo/")
				}
				file := f.File
				if i := strings.Index(file, "/repo/"); i >= 0 {
					file = file[i+6:]
				}
				fmt.Fprintf(&sb, "%s:%d %s\n", file, f.Line, strings.TrimPrefix(f.Function, "github.com/cloudwego/dynamicgo/"))
				if !more {
					break
				}
			}
			if pi.site == "" {
				pi.site = "outside-dynamicgo"
			}
			pi.stack = sb.String()
			pi.class = core.PanicClass(pi.val)
			if pi.overRead {
				pi.class = "over-read-into-guard-page"
			}
		}
	}()
	f()
	return nil
}

// ---- results that alias the input ----
//
// Several readers return strings / byte slices that point INTO the input (no copy). A length taken from
// the wire without a bounds check then yields a value that extends past the input: nothing faults until
// the caller reads it. Entry points hand their results to obs(); after the run every string / []byte
// reachable from them is checked: if it starts inside the arena mapping it must lie inside the input.

var obsBuf []interface{}

func obs(v interface{}) {
	if len(obsBuf) < 64 {
		obsBuf = append(obsBuf, v)
	}
}

// outsideInput returns a description of the first observed string / []byte that lies (partly) outside in.
func outsideInput(in []byte) string {
	if arena == nil {
		return ""
	}
	glo, ghi := arena.GuardRange()
	alo := glo - uintptr(arena.Cap())
	var ilo uintptr
	if len(in) > 0 {
		ilo = uintptr(unsafe.Pointer(&in[0]))
	} else {
		ilo = glo
	}
	ihi := ilo + uintptr(len(in))
	bad := ""
	chk := func(p uintptr, n int, what string) {
		if bad != "" {
			return
		}
		if n < 0 {
			bad = fmt.Sprintf("%s with negative length %d", what, n)
			return
		}
		if n == 0 || p < alo || p >= ghi {
			return // empty, or a copy living elsewhere
		}
		if p < ilo || p+uintptr(n) > ihi {
			bad = fmt.Sprintf("%s of length %d starts at input offset %d: it ends %d bytes past the %d-byte input", what, n, int64(p)-int64(ilo), int64(p+uintptr(n))-int64(ihi), len(in))
		}
	}
	var walk func(v reflect.Value, depth int)
	walk = func(v reflect.Value, depth int) {
		if bad != "" || depth > 8 || !v.IsValid() {
			return
		}
		switch v.Kind() {
		case reflect.String:
			h := (*reflect.StringHeader)(unsafe.Pointer(&[]string{v.String()}[0]))
			chk(h.Data, v.Len(), "returned string")
		case reflect.Slice:
			if v.Type().Elem().Kind() == reflect.Uint8 {
				chk(v.Pointer(), v.Len(), "returned []byte")
				return
			}
			for i := 0; i < v.Len() && i < 64; i++ {
				walk(v.Index(i), depth+1)
			}
		case reflect.Map:
			it := v.MapRange()
			for n := 0; it.Next() && n < 64; n++ {
				walk(it.Key(), depth+1)
				walk(it.Value(), depth+1)
			}
		case reflect.Interface, reflect.Ptr:
			if !v.IsNil() {
				walk(v.Elem(), depth+1)
			}
		}
	}
	for _, o := range obsBuf {
		walk(reflect.ValueOf(o), 0)
	}
	return bad
}

// freeMem returns garbage of earlier cases to the OS: the heavy nesting cases must start from the same
// memory state in the main run and in the isolated confirmation run.
func freeMem() {
	runtime.GC()
	debug.FreeOSMemory()
}

func allocBound(n int) uint64 { return 1<<20 + 256*uint64(n) }

// allocTolerance: a violation is reported when the second run allocates more than allocTolerance x the
// prescribed bound (1 MiB + 256 x len(input)). Between 1x and 4x the case is only counted
// (alloc_above_bound_within_tolerance): the statement says "a fixed multiple of the input size" without
// naming the multiple, and several readers are linear with a per-element constant of 300-400 bytes.
const allocTolerance = 4
const allocOutcome = "alloc>4x(1MiB+256n)"

// monitored runs op twice on input (placed against the guard page) under all monitors and records
// violations with signature  <family>|<trig>|panic@<innermost dynamicgo frame>:<class>  (the family is the
// coarse API family: the panic site already says where; one root cause reached through several
// entry points of a family gives one signature) resp.  <op>|<trig>|alloc>1MiB+256n.  op returns a coarse outcome class ("ok"/"error"/...).
// It returns the class of the first run ("panic" if it panicked).
func monitored(r *core.Result, fam, op, trig string, input []byte, detail func() string, f func(in []byte) string) string {
	in := getArenaFor(len(input)).Place(input)
	a0 := allocApprox()
	cls := ""
	obsBuf = obsBuf[:0]
	pi := catch(in, func() { cls = f(in) })
	d1 := allocApprox() - a0
	r.Count("executions", 1)
	if pi == nil {
		var bad string
		if p2 := catch(in, func() { bad = outsideInput(in) }); p2 != nil {
			bad = "inspecting the returned value faults: " + p2.val
		}
		if bad != "" {
			r.Add(op+"|"+trig+"|result-extends-past-input", "%s returns a value that aliases memory outside the input: %s; %s", op, bad, detail())
		}
	}
	obsBuf = obsBuf[:0]
	if pi != nil {
		r.Add(fam+"|"+trig+"|panic@"+pi.site+":"+pi.class, "%s panics on %s\n  panic: %s\n%s", op, detail(), clipS(pi.val, 300), clipS(pi.stack, 1500))
		if d1 > 64<<20 {
			runtime.GC()
		}
		return "panic"
	}
	bound := allocBound(len(input))
	if d1 > 768<<20 {
		// a run that allocated more than 768 MiB is not repeated (two of them could exhaust RLIMIT_AS and
		// turn an allocation finding into a crash); no pool warming explains half a gigabyte
		r.Add(op+"|"+trig+"|"+allocOutcome, "%s allocates %d bytes for a %d-byte input (bound %d, first run, not repeated): %s", op, d1, len(input), bound, detail())
		runtime.GC()
		debug.FreeOSMemory()
		return cls
	}
	if d1 > 64<<20 {
		runtime.GC()
		debug.FreeOSMemory()
	}
	// second identical run: this is the one that is measured (pools and caches are warm)
	a1 := allocApprox()
	cls2 := ""
	pi2 := catch(in, func() { cls2 = f(in) })
	d2 := allocApprox() - a1
	r.Count("executions", 1)
	if pi2 != nil {
		r.Add(fam+"|"+trig+"|panic-on-second-run@"+pi2.site+":"+pi2.class, "%s panics only on the second identical run on %s\n  panic: %s\n%s", op, detail(), clipS(pi2.val, 300), clipS(pi2.stack, 1500))
		return cls
	}
	if cls2 != cls {
		r.Add(op+"|"+trig+"|second-run-differs", "%s: first run %s, identical second run %s on %s", op, cls, cls2, detail())
	}
	// third run: the same input with 64 spare zero bytes inside the slice's capacity (then the guard
	// page). A reader must bound itself by len(): its outcome must not depend on spare capacity, and no
	// returned value may reach into it.
	if len(input) <= 1<<16 {
		in3 := getArenaFor(len(input)+64).PlaceSlack(input, 64, 0)
		cls3 := ""
		obsBuf = obsBuf[:0]
		pi3 := catch(in3, func() { cls3 = f(in3) })
		r.Count("executions", 1)
		switch {
		case pi3 != nil:
			r.Add(fam+"|"+trig+"|panic-with-spare-capacity@"+pi3.site+":"+pi3.class, "%s panics only when the input slice has spare capacity: %s\n  panic: %s\n%s", op, detail(), clipS(pi3.val, 300), clipS(pi3.stack, 1500))
		case cls3 != cls:
			r.Add(op+"|"+trig+"|outcome-depends-on-spare-capacity", "%s: %s on the exact-capacity slice, %s on the same bytes followed by 64 spare zero bytes of capacity: it read past len(): %s", op, cls, cls3, detail())
		default:
			var bad string
			if p4 := catch(in3, func() { bad = outsideInput(in3) }); p4 != nil {
				bad = "inspecting the returned value faults: " + p4.val
			}
			if bad != "" {
				r.Add(op+"|"+trig+"|result-extends-past-input", "%s returns a value that aliases memory outside the input (spare-capacity run): %s; %s", op, bad, detail())
			}
		}
		obsBuf = obsBuf[:0]
		in = getArenaFor(len(input)).Place(input)
	}
	if d2 > bound/4 {
		// precise measurement (runtime.ReadMemStats) of a warm run with the collector off: sync.Pool
		// contents survive between the warming run and the measured run, so the figure is reproducible
		if d2 > 64<<20 {
			runtime.GC()
		}
		old := debug.SetGCPercent(-1)
		catch(in, func() { f(in) })
		m0 := allocExact()
		catch(in, func() { f(in) })
		d3 := allocExact() - m0
		debug.SetGCPercent(old)
		r.Count("executions", 2)
		if os.Getenv("C06_DEBUG_ALLOC") != "" {
			r.Add(fmt.Sprintf("DEBUG|%s|%s|n=%d|alloc=%d", op, trig, len(input), d3), "debug")
		}
		switch {
		case d3 > allocTolerance*bound:
			r.Add(op+"|"+trig+"|"+allocOutcome, "%s allocates %d bytes for a %d-byte input (bound 1 MiB + 256 n = %d) in the second of two identical runs: %s", op, d3, len(input), bound, detail())
		case d3 > bound:
			// above the prescribed bound but within the tolerance band: a linear cost with a large
			// per-element constant (PathNode trees, boxed maps) is still "a fixed multiple of the input size"
			r.Count("alloc_above_bound_within_tolerance", 1)
		}
		if d3 > 16<<20 {
			runtime.GC()
		}
	}
	return cls
}

// trigClass folds the reference decoder's first-anomaly category into the coarse trigger class used in
// signatures: wellformed-input | wellformed-input,unknown-field | wire-type!=descriptor | malformed-input.
// (The detailed category stays in the outcome class and in the violation text.)
func trigClass(cat string) string {
	switch {
	case cat == "wellformed" || cat == "wellformed,trailing":
		return "wellformed-input"
	case strings.HasPrefix(cat, "wellformed,unknown-field"):
		return "wellformed-input,unknown-field"
	case cat == "type!=descriptor" || cat == "wiretype!=descriptor":
		return "wire-type!=descriptor"
	}
	return "malformed-input"
}

func clipS(s string, n int) string {
	if len(s) > n {
		return s[:n] + "..."
	}
	return s
}

func hexs(b []byte) string {
	if len(b) > 96 {
		return fmt.Sprintf("%x..(%d bytes)", b[:96], len(b))
	}
	return fmt.Sprintf("%x", b)
}
