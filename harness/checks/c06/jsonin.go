package c06

import (
	"context"
	"encoding/json"
	"fmt"
	"strings"

	"github.com/cloudwego/dynamicgo/conv"
	"github.com/cloudwego/dynamicgo/conv/j2p"
	"github.com/cloudwego/dynamicgo/conv/j2t"
	"github.com/cloudwego/dynamicgo/verifhook"

	"verif/checks/c18"
	"verif/engine/core"
)

// ---------- JSON seeds ----------

const j2tIDL = `namespace go verif
struct Inner {
  1: i32 a
  2: string s
}
struct Root {
  1: bool b
  2: byte y
  3: i16 h
  4: i32 i
  5: i64 l
  6: double d
  7: string s
  8: binary bin
  9: list<i32> li
  10: map<string,i32> msi
  11: map<i32,string> mis
  12: Inner st
  13: list<Inner> ls
  14: set<string> ss
  15: required i32 rq
  16: optional Root self
}
service Svc {
  Root M(1: Root req)
}
`

var jsonSeedsThrift = []struct{ name, doc string }{
	{"all-kinds", `{"b":true,"y":-7,"h":300,"i":-100000,"l":9007199254740993,"d":-1.5e-3,"s":"a\"\\\n\u00e9\ud83d\ude00/` + "\u00e9" + `","bin":"AP8B","li":[1,2,3],"msi":{"k":1,"k2":2},"mis":{"7":"seven"},"st":{"a":1,"s":"x"},"ls":[{"a":2},{"s":"y"}],"ss":["p","q"],"rq":5,"unknown":[1,{"z":null}],"self":{"rq":1,"s":null}}`},
	{"spaced", "{ \"rq\" : 1 ,\n\t\"li\" : [ 1 , 2 ] , \"msi\" : { \"a\" : 1 } , \"d\" : 0.5 }"},
	{"minimal", `{"rq":0}`},
	// every way a number can end in a zero (a truncation right behind it leaves the zero as the last byte of the input)
	{"zeros", `{"rq":-0,"y":0,"h":-10,"d":-0.50,"l":-0e10,"i":100,"li":[0,-0,10],"mis":{"-0":"z","0":"y"},"ls":[{"a":-0}]}`},
}

var jsonSeedsProto = []struct{ name, doc string }{
	{"all-kinds", `{"i32":-123,"i64":1099511627783,"u32":4000000000,"u64":18446744073709551615,"s32":-77,"fl":1.5,"db":-2.25,"b":true,"str":"he\"llo\n\u00e9` + "\u00e9" + `","byt":"AP8B","en":1,"msg":{"a":300,"s":"in"},"ri32":[1,300,-2],"rdb":[1.5,-2],"rstr":["ab",""],"rmsg":[{"a":1},{"s":"z"}],"msi":{"k1":5,"k2":600},"mis":{"7":"seven"},"msm":{"m":{"a":1}},"rb":[true,false],"self":{"self":{"i32":9},"str":"x"}}`},
	{"spaced", "{ \"i32\" : 1 ,\n\t\"ri32\" : [ 1 , 2 ] , \"msi\" : { \"a\" : 1 } , \"db\" : 0.5 }"},
	{"minimal", `{"i32":0}`},
	{"zeros", `{"i32":-0,"u32":0,"s32":-10,"db":-0.50,"fl":-0e10,"i64":100,"ri32":[0,-0,10],"mis":{"-0":"z","0":"y"},"rmsg":[{"a":-0}]}`},
}

// jsonSubst: the single-byte substitution alphabet for JSON text (every position is structural).
var jsonSubst = []byte{'"', '\\', '{', '}', '[', ']', ',', ':', 0x00, ' ', 'x', '0', '-', '.', 'e', 'u', 'n', 0x80, 0xff}

func jsonFaults(doc string, yield func(f fault) bool) bool {
	ref := []byte(doc)
	if !yield(fault{"intact", "intact", ref}) {
		return false
	}
	for k := 0; k < len(ref); k++ {
		if !yield(fault{fmt.Sprintf("truncated to %d of %d", k, len(ref)), "truncated", ref[:k]}) {
			return false
		}
	}
	for off := range ref {
		for _, b := range jsonSubst {
			if ref[off] == b {
				continue
			}
			m := append([]byte{}, ref...)
			m[off] = b
			if !yield(fault{fmt.Sprintf("byte %d %q->%q", off, ref[off], b), "subst", m}) {
				return false
			}
		}
	}
	return true
}

// ---------- entry points ----------

type jtop struct {
	name  string
	proto bool
	run   func(in []byte) string
}

var j2tOpts = conv.Options{}

func jsonOps() []jtop {
	var ops []jtop
	for _, fl := range []string{"avx2", "avx", "sse"} {
		fl := fl
		ops = append(ops, jtop{name: "j2t.BinaryConv.Do[" + fl + "]", run: func(in []byte) string {
			d, err := descOf(j2tIDL, false, "")
			if err != nil {
				return "harness-idl"
			}
			if !verifhook.C18UseFlavour(fl) {
				return "flavour-unavailable"
			}
			cv := j2t.NewBinaryConv(j2tOpts)
			_, err = cv.Do(context.Background(), d, in)
			verifhook.C18UseFlavour("avx2")
			return errClass(err)
		}})
	}
	ops = append(ops, jtop{name: "j2t.BinaryConv.Do[avx2,disallowUnknown,string2int,writeDefault]", run: func(in []byte) string {
		d, err := descOf(j2tIDL, false, "")
		if err != nil {
			return "harness-idl"
		}
		verifhook.C18UseFlavour("avx2")
		cv := j2t.NewBinaryConv(conv.Options{DisallowUnknownField: true, String2Int64: true, WriteDefaultField: true, WriteRequireField: true})
		_, err = cv.Do(context.Background(), d, in)
		return errClass(err)
	}})
	ops = append(ops, jtop{name: "j2p.BinaryConv.Do", proto: true, run: func(in []byte) string {
		d, err := protoDesc("")
		if err != nil {
			return "harness-idl"
		}
		cv := j2p.NewBinaryConv(conv.Options{})
		_, err = cv.Do(context.Background(), d, in)
		return errClass(err)
	}})
	return ops
}

type jdesc struct {
	Op    string `json:"op"`
	Seed  string `json:"seed"`
	Fault string `json:"fault"`
	Doc   string `json:"json"`
}

func jsonTrig(b []byte) string {
	if json.Valid(b) {
		return "valid-json"
	}
	return "invalid-json"
}

func jsonCase(op jtop, seed string, f fault) core.Case {
	return core.Case{
		Tag:  op.name,
		Desc: func() interface{} { return jdesc{op.name, seed, f.name, clipS(string(f.buf), 400)} },
		Run: func() core.Result {
			r := core.Result{Key: op.name + "|" + seed + "|" + f.name}
			if op.proto && !protoReady(&r) {
				return r
			}
			if _, err := descOf(j2tIDL, false, ""); err != nil {
				r.Add("harness|thrift-idl", "%v", err)
				return r
			}
			trig := jsonTrig(f.buf)
			cls := monitored(&r, famOf(op.name), op.name, trig, f.buf, func() string {
				return fmt.Sprintf("seed %s, fault %s, input (%d bytes) %s", seed, f.name, len(f.buf), clipS(fmt.Sprintf("%q", f.buf), 300))
			}, op.run)
			r.Class = op.name + ":" + cls + "/" + trig
			return r
		},
	}
}

// portableCase: the same input through the portable j2t converter (second binary, pipe server). Its
// monitors are: recovered panic (reported by the server), death or >20 s silence of the server process.
func portableCase(seed string, f fault) core.Case {
	const name = "j2t.BinaryConv.Do[portable]"
	return core.Case{
		Tag:  name,
		Desc: func() interface{} { return jdesc{name, seed, f.name, clipS(string(f.buf), 400)} },
		Run: func() core.Result {
			r := core.Result{Key: name + "|" + seed + "|" + f.name}
			trig := jsonTrig(f.buf)
			res, died, diag, err := c18.Portable(&c18.Req{IDL: j2tIDL, Opts: []int{0}, Doc: f.buf})
			r.Count("executions", 1)
			switch {
			case err != nil:
				r.Class = "harness-portable"
				r.Add("harness|portable-server", "%v", err)
			case died:
				r.Class = name + ":died"
				r.Add("j2t.BinaryConv[portable]|"+trig+"|process-died-or-hung", "portable j2t: the converter process died or did not answer within 20 s on %s, fault %s, input %q\n%s", seed, f.name, clipS(string(f.buf), 300), clipS(diag, 1500))
			case res[0].Panic != "":
				r.Class = name + ":panic"
				r.Add("j2t.BinaryConv[portable]|"+trig+"|panic@"+res[0].Site+":"+core.PanicClass(res[0].Panic), "portable j2t panics on %s, fault %s, input %q\n  panic: %s", seed, f.name, clipS(string(f.buf), 300), clipS(res[0].Panic, 300))
			default:
				r.Class = name + ":" + res[0].Kind() + "/" + trig
			}
			return r
		},
	}
}

func enumJSONSeed(op jtop, yield func(core.Case) bool) bool {
	seeds := jsonSeedsThrift
	if op.proto {
		seeds = jsonSeedsProto
	}
	for _, sd := range seeds {
		sd := sd
		if !jsonFaults(sd.doc, func(f fault) bool { return yield(jsonCase(op, sd.name, f)) }) {
			return false
		}
	}
	return true
}

func enumJSONPortable(yield func(core.Case) bool) {
	for _, sd := range jsonSeedsThrift {
		sd := sd
		if !jsonFaults(sd.doc, func(f fault) bool { return yield(portableCase(sd.name, f)) }) {
			return
		}
	}
}

// ---------- short JSON texts ----------

var jsonShortAlphabet = []byte{'{', '}', '[', ']', '"', ':', ',', '\\', '1', '-', 't', ' ', '0'}

func enumJSONShort(tier string, yield func(core.Case) bool) {
	maxLen := 3
	if tier == "thorough" {
		maxLen = 4
	}
	for _, op := range jsonOps() {
		op := op
		if !enumStrings(jsonShortAlphabet, maxLen, func(b []byte) bool {
			return yield(jsonCase(op, "short", fault{fmt.Sprintf("text %q", b), "short", b}))
		}) {
			return
		}
	}
	enumStrings(jsonShortAlphabet, maxLen, func(b []byte) bool {
		return yield(portableCase("short", fault{fmt.Sprintf("text %q", b), "short", b}))
	})
}

// ---------- JSON nesting ----------

func jsonNested(kind string, d int, closed bool, proto bool) []byte {
	open, close := `{"self":`, `}`
	inner := `{"rq":1}`
	if proto {
		inner = `{"i32":1}`
	}
	if kind == "array" {
		// list<Inner>/repeated: not self-nesting; use raw brackets (kind mismatch after the first level, still must not crash)
		open, close, inner = `[`, `]`, `1`
	}
	var sb strings.Builder
	sb.Grow(d*(len(open)+len(close)) + len(inner))
	for i := 0; i < d; i++ {
		sb.WriteString(open)
	}
	sb.WriteString(inner)
	if closed {
		for i := 0; i < d; i++ {
			sb.WriteString(close)
		}
	}
	return []byte(sb.String())
}

func enumJSONNesting(tier string, yield func(core.Case) bool) {
	depths := []int{1, 64, 255, 256, 1023, 1024, 1365, 2047, 2048, 4094, 4095, 4096, 4097, 100000}
	if tier == "thorough" {
		depths = append(depths, 1000000)
	}
	for _, d := range depths {
		for _, kind := range []string{"object", "array"} {
			for _, closed := range []bool{true, false} {
				d, kind, closed := d, kind, closed
				dc := "below-4096"
				switch {
				case d > 100000:
					dc = "1e6"
				case d > 4097:
					dc = "1e5"
				case d >= 4094:
					dc = "at-4096"
				}
				what := fmt.Sprintf("%d nested %ss, closed=%v", d, kind, closed)
				mk := func(name string, run func(in []byte) string, proto bool) core.Case {
					return core.Case{
						Tag:  name + "|nesting:" + dc,
						Desc: func() interface{} { return ndesc{name, "json " + kind + fmt.Sprintf(" closed=%v", closed), d} },
						Run: func() core.Result {
							r := core.Result{Key: name + "|" + what}
							freeMem()
							if proto && !protoReady(&r) {
								return r
							}
							b := jsonNested(kind, d, closed, proto)
							cls := monitored(&r, famOf(name), name, "json-nesting", b, func() string { return what }, run)
							r.Class = name + ":" + cls + "/nesting"
							return r
						},
					}
				}
				for _, op := range jsonOps() {
					if !yield(mk(op.name, op.run, op.proto)) {
						return
					}
				}
				if d <= 100000 {
					pc := core.Case{
						Tag: "j2t.BinaryConv.Do[portable]|nesting:" + dc,
						Desc: func() interface{} {
							return ndesc{"j2t.BinaryConv.Do[portable]", "json " + kind + fmt.Sprintf(" closed=%v", closed), d}
						},
						Run: func() core.Result {
							return portableCase("nesting", fault{what, "nesting", jsonNested(kind, d, closed, false)}).Run()
						},
					}
					if !yield(pc) {
						return
					}
				}
			}
		}
	}
}
