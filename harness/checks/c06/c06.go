// Package c06: decoders survive arbitrary bytes (fault enumeration): error, not crash, hang or over-read.
package c06

import (
	"fmt"
	"os"
	"strings"

	"verif/engine/core"
	"verif/ref/tbin"
)

type check struct{}

func init() { core.Register(check{}) }

func (check) ID() string    { return "C06" }
func (check) Level() string { return "fault_enumeration" }
func (check) Rule() string {
	return "fault enumeration, exhaustive per seed message and entry point, simplest first: every truncation point; every single-byte substitution at every structural position (type tag, size, length, field id / tag, varint continuation, stop) over the alphabet {00 01 7f 80 ff, every valid type code, invalid type codes}; every 4-byte size field in {0,1,n-1,n+1,2^16,2^31-1,2^31,2^32-1}; every length varint in {2^31-1,2^31,2^63-1,2^63,2^64-1,10-byte overflow}; all byte strings of length <=2 and length 3 over a 12-symbol alphabet (thorough: <=4); nesting at limit-1/limit/limit+1 and very deep. Monitors per execution: recoverable panic, over-read into a PROT_NONE page placed right behind the input, worker death (SIGSEGV / fatal OOM / stack overflow) attributed to the announced case, 30 s no-progress watchdog, TotalAlloc of the second of two identical runs <= 1 MiB + 256 x len(input). A case is non-trivial if distinct by (entry point, seed, fault). Round 10: number-heavy well-formed messages under the allocation monitor. Round 11: typed GetMany / GetTree of two children of field 1."
}

func (check) Assumptions() []string {
	return []string{
		"trigger classes of signatures come from strict reference decoders (ref/tbin for Thrift, google.golang.org/protobuf/encoding/protowire for Protobuf, encoding/json for JSON); they classify, they do not decide",
		"the allocation bound is decided with runtime.ReadMemStats (TotalAlloc) after a cheap runtime/metrics screen at a quarter of the bound",
		"coverage-guided mutation named in the quantifier is fuzzing (sampling) and is not done; the claim is bounded to the enumerated fault model",
	}
}

// MemLimit: worker address-space limit. 2 GiB: a wire-sized allocation beyond that fails at once
// (fatal out-of-memory, attributed) instead of being zero-filled and scanned for seconds.
func (check) MemLimit() uint64 { return 2 << 30 }
func (check) MaxWorkerDeaths() int { return 400 } // every wire-sized allocation / stack overflow witness kills its worker

// HangConfirmSeconds: the known p2j loop is a pure infinite loop; re-confirming it in isolation for
// 40 s (instead of 4 x 30 s) on every run keeps the quick tier inside its budget.
func (check) HangConfirmSeconds() int { return 40 }

func (check) BudgetSeconds(tier string) int {
	if tier == "thorough" {
		return 3000
	}
	return 600
}

type group struct {
	name string
	enum func(tier string, yield func(core.Case) bool)
}

func chunked(n, size int) [][2]int {
	var out [][2]int
	for i := 0; i < n; i += size {
		j := i + size
		if j > n {
			j = n
		}
		out = append(out, [2]int{i, j})
	}
	return out
}

func groups(tier string) []group {
	var gs []group
	// first: the one family known to hang (it costs the 30 s watchdog: start it before everything else)
	gs = append(gs, group{"proto-p2j-packed-cut", func(tier string, y func(core.Case) bool) {
		var op ptop
		for _, o := range protoOps() {
			if o.name == p2jName {
				op = o
			}
		}
		sd := &pseed{name: "packed-cut"}
		for _, f := range p2jHangCases(tier) {
			if !y(protoCase(op, sd, f, "")) {
				return
			}
		}
	}})
	gs = append(gs, thriftGroups(tier)...)
	gs = append(gs, protoGroups(tier)...)
	gs = append(gs, jsonGroups(tier)...)
	// development aid: C06_ONLY=<substring> restricts the scope to the groups whose name contains it
	// (the parent and its workers see the same environment, so group indices stay consistent)
	if only := os.Getenv("C06_ONLY"); only != "" {
		var f []group
		for _, g := range gs {
			if strings.Contains(g.name, only) {
				f = append(f, g)
			}
		}
		return f
	}
	return gs
}

func thriftGroups(tier string) []group {
	var gs []group
	ops := thriftOps()
	ws := wrappedShapes(tier)
	for _, op := range ops {
		op := op
		if op.alloc && !op.wrapped {
			continue
		}
		for _, c := range chunked(len(ws), 12) {
			c := c
			gs = append(gs, group{fmt.Sprintf("thrift/%s/seeds%d-%d", op.name, c[0], c[1]), func(tier string, y func(core.Case) bool) {
				for _, s := range wrappedShapes(tier)[c[0]:c[1]] {
					if !enumThriftSeedOp(op, wrapSeed(s, 2), y) {
						return
					}
				}
			}})
		}
	}
	// bare roots: NewNode(t, ..), Skip(t), ReadAny(t) accept any root type. One group per entry point.
	for _, op := range ops {
		op := op
		if !op.bare || op.alloc {
			continue
		}
		gs = append(gs, group{"thrift-bare/" + op.name, func(tier string, y func(core.Case) bool) {
			for _, s := range append(bareShapes(), containerKeyShapes()...) {
				if !enumThriftSeedOp(op, bareSeed(s, 2), y) {
					return
				}
			}
		}})
	}
	// entry points that allocate by a wire size before validating it: the whole fault model on three
	// dedicated small seeds, one group per entry point (every size byte >= 2^27 or so ends in a fatal
	// out-of-memory of the worker: few seeds keep the number of worker deaths small)
	for _, op := range ops {
		op := op
		if !op.alloc {
			continue
		}
		gs = append(gs, group{"thrift-alloc/" + op.name, func(tier string, y func(core.Case) bool) {
			for _, sd := range allocSeeds(tier) {
				if !enumThriftSeedOp(op, sd, y) {
					return
				}
			}
		}})
	}
	// number-heavy messages (thousands of integers / doubles whose text is far longer than their binary form): the
	// output of the converters outgrows every reservation made up front and keeps growing number by number; intact
	// and cut in the middle, through every struct-rooted entry point that does not allocate by wire size
	for _, op := range ops {
		op := op
		if !op.struct_ || (op.alloc && !op.wrapped) {
			continue
		}
		gs = append(gs, group{"thrift-long-numbers/" + op.name, func(tier string, y func(core.Case) bool) {
			for _, sd := range longNumberSeeds() {
				for _, f := range []fault{{"intact", "intact", sd.ref}, {fmt.Sprintf("truncated at %d", len(sd.ref)/2), "truncated", sd.ref[:len(sd.ref)/2]}} {
					if !y(thriftCase(op, sd, f)) {
						return
					}
				}
			}
		}})
	}
	// the repository's canned thrift message through every struct-rooted entry point
	for _, op := range ops {
		op := op
		if op.alloc && !op.wrapped {
			continue
		}
		gs = append(gs, group{"thrift-canned/" + op.name, func(tier string, y func(core.Case) bool) { enumCannedThrift(op, y) }})
	}
	// the response base (thrift/base) read out of the message into the caller's *base.BaseResp
	for _, op := range baseRespOps() {
		op := op
		gs = append(gs, group{"thrift-base/" + op.name, func(tier string, y func(core.Case) bool) {
			for _, sd := range baseRespSeeds() {
				if !enumThriftSeedOp(op, sd, y) {
					return
				}
			}
		}})
	}
	// fields with a value mapping (api.js_conv) are read by the annotation's own code
	for _, op := range jsconvOps() {
		op := op
		gs = append(gs, group{"thrift-jsconv/" + op.name, func(tier string, y func(core.Case) bool) {
			for _, sd := range jsconvSeeds() {
				if !enumThriftSeedOp(op, sd, y) {
					return
				}
			}
		}})
	}
	for part, nm := range []string{"typed-roots", "descriptor", "readers", "all-bytes-len2"} {
		part := part
		gs = append(gs, group{"thrift-short/" + nm, func(tier string, y func(core.Case) bool) { enumShort(tier, part, y) }})
	}
	gs = append(gs, group{"thrift-lengths", func(tier string, y func(core.Case) bool) { enumLengths(y) }})
	gs = append(gs, group{"thrift-envelope", func(tier string, y func(core.Case) bool) { enumEnvelope(y) }})
	gs = append(gs, group{"thrift-nesting", func(tier string, y func(core.Case) bool) { enumNesting(tier, y) }})
	return gs
}

func jsonGroups(tier string) []group {
	var gs []group
	for _, op := range jsonOps() {
		op := op
		gs = append(gs, group{"json/" + op.name, func(tier string, y func(core.Case) bool) { enumJSONSeed(op, y) }})
	}
	gs = append(gs, group{"json/j2t.BinaryConv.Do[portable]", func(tier string, y func(core.Case) bool) { enumJSONPortable(y) }})
	gs = append(gs, group{"json-short", func(tier string, y func(core.Case) bool) { enumJSONShort(tier, y) }})
	gs = append(gs, group{"json-nesting", func(tier string, y func(core.Case) bool) { enumJSONNesting(tier, y) }})
	return gs
}

func protoGroups(tier string) []group {
	var gs []group
	seeds := protoSeeds()
	for _, op := range protoOps() {
		op := op
		for _, c := range chunked(len(seeds), 8) {
			c := c
			gs = append(gs, group{fmt.Sprintf("proto/%s/seeds%d-%d", op.name, c[0], c[1]), func(tier string, y func(core.Case) bool) {
				for _, sd := range protoSeeds()[c[0]:c[1]] {
					sd := sd
					if op.name == p2jName && sd.packed {
						continue // see p2jHangCases
					}
					if !protoFaults(sd, op.name != p2jName, func(f fault) bool { return y(protoCase(op, sd, f, "")) }) {
						return
					}
				}
			}})
		}
	}
	for _, op := range protoOps() {
		op := op
		gs = append(gs, group{"proto-canned/" + op.name, func(tier string, y func(core.Case) bool) {
			sd, err := cannedProto()
			if err != nil {
				y(core.Case{Tag: "canned", Run: func() core.Result {
					r := core.Result{Class: "harness-canned"}
					r.Add("harness|canned-proto-seed", "%v", err)
					return r
				}})
				return
			}
			sd.canned = true
			protoFaults(sd, false, func(f fault) bool { return y(protoCase(op, sd, f, "")) })
		}})
	}
	for part, nm := range []string{"readers-alphabet", "readers-all-bytes-len2", "message-entry-points", "varint-alphabet"} {
		part := part
		gs = append(gs, group{"proto-short/" + nm, func(tier string, y func(core.Case) bool) { enumProtoShort(tier, part, y) }})
	}
	gs = append(gs, group{"proto-nesting", func(tier string, y func(core.Case) bool) { enumProtoNesting(tier, y) }})
	return gs
}

func (check) Groups(tier string, seed int64) []string {
	var n []string
	for _, g := range groups(tier) {
		n = append(n, g.name)
	}
	return n
}

func (check) Enumerate(tier string, seed int64, g int, yield func(core.Case) bool) {
	groups(tier)[g].enum(tier, yield)
}

var _ = tbin.STOP
