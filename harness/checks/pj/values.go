package pj

import (
	"fmt"
	"math"
	"strings"

	"google.golang.org/protobuf/reflect/protoreflect"
)

// V is a scalar field value as the reference implementation represents it.
type V = protoreflect.Value

func i32(x int32) V   { return protoreflect.ValueOfInt32(x) }
func i64(x int64) V   { return protoreflect.ValueOfInt64(x) }
func u32(x uint32) V  { return protoreflect.ValueOfUint32(x) }
func u64(x uint64) V  { return protoreflect.ValueOfUint64(x) }
func f32(x float32) V { return protoreflect.ValueOfFloat32(x) }
func f64(x float64) V { return protoreflect.ValueOfFloat64(x) }

// Boundary is the boundary-value alphabet of a scalar kind (DESIGN section 3 / C08), simplest first.
// Enum values refer to enum E {E_ZERO=0; E_ONE=1; E_TWO=2; E_NEG=-1; E_MAX=2147483647} (7 is an undeclared number).
func Boundary(k Kind) []V {
	switch k {
	case Int32, Sint32, Sfixed32:
		var out []V
		for _, x := range []int32{0, 1, -1, 127, 128, -128, -129, 16383, 16384, 2097151, 2097152, 268435455, 268435456, math.MaxInt32, math.MinInt32} {
			out = append(out, i32(x))
		}
		return out
	case Int64, Sint64, Sfixed64:
		var out []V
		for _, x := range []int64{0, 1, -1, 1 << 31, -(1 << 31) - 1, 1 << 32, 1<<53 - 1, 1 << 53, 1<<53 + 1, -(1<<53 + 1), 999999999999999999, 1000000000000000000, math.MaxInt64, math.MaxInt64 - 1, math.MinInt64, math.MinInt64 + 1, -(1 << 62) - 1} {
			out = append(out, i64(x))
		}
		return out
	case Uint32, Fixed32:
		var out []V
		for _, x := range []uint32{0, 1, 127, 128, 16384, 1<<31 - 1, 1 << 31, 1<<31 + 1, 4294967294, math.MaxUint32} {
			out = append(out, u32(x))
		}
		return out
	case Uint64, Fixed64:
		var out []V
		for _, x := range []uint64{0, 1, 1 << 32, 1<<53 + 1, 1<<63 - 1, 1 << 63, 1<<63 + 1, 9999999999999999999, 10000000000000000000, math.MaxUint64} {
			out = append(out, u64(x))
		}
		return out
	case Bool:
		return []V{protoreflect.ValueOfBool(false), protoreflect.ValueOfBool(true)}
	case Float:
		var out []V
		for _, x := range []float32{0, float32(math.Copysign(0, -1)), 1, -1.5, 0.1, 16777216, 16777217, 1e10, 1e-7, 1e21, 2147483648, 4294967296, 9223372036854775808, -9223372036854775808, 1.8446744073709552e19, math.MaxFloat32, math.SmallestNonzeroFloat32, float32(math.NaN()), float32(math.Inf(1)), float32(math.Inf(-1))} {
			out = append(out, f32(x))
		}
		return out
	case Double:
		var out []V
		for _, x := range []float64{0, math.Copysign(0, -1), 1, -1.5, 0.1, 1<<53 + 2, 1e21, 1e20, 1e-7, 1e-6, 5e-324, math.MaxFloat64, 123456789.12345678, math.NaN(), math.Inf(1), math.Inf(-1),
			1 << 31, 1 << 32, 1 << 63, -(1 << 63), 9223372036854774784, 9223372036854777856, 1 << 64, 1e19, -1e19} {
			out = append(out, f64(x))
		}
		return out
	case String:
		var out []V
		ss := []string{"", "a", "é", "\"\\\n", "  ", "\x00\x01\x1f\x7f", "<>&'", "\t\r\b\f/", "日本語😀"}
		for _, n := range []int{15, 16, 17, 31, 32, 33, 127, 128} {
			ss = append(ss, strings.Repeat("x", n))
			b := []byte(strings.Repeat("y", n))
			b[n-1] = '"'
			ss = append(ss, string(b))
		}
		for _, s := range ss {
			out = append(out, protoreflect.ValueOfString(s))
		}
		return out
	case Bytes:
		var out []V
		bs := [][]byte{{}, {0}, {0xff}, {0xfb, 0xff}, {0xfb, 0xff, 0xfe}, {1, 2, 3, 4}, []byte("hello world")}
		long := make([]byte, 255)
		for i := range long {
			long[i] = byte(i)
		}
		bs = append(bs, long)
		for _, b := range bs {
			out = append(out, protoreflect.ValueOfBytes(b))
		}
		return out
	case Enum:
		var out []V
		for _, x := range []int32{0, 1, 2, -1, math.MaxInt32, 7} {
			out = append(out, protoreflect.ValueOfEnum(protoreflect.EnumNumber(x)))
		}
		return out
	}
	panic("harness: no boundary alphabet for " + k.String())
}

// Benign returns the i-th benign value of a kind: distinct per position, non-default, far from every boundary
// (so that handing back the wrong neighbour is visible while no value-range defect is triggered).
func Benign(k Kind, i int) V {
	switch k {
	case Int32, Sint32, Sfixed32:
		return i32(int32(100 + i))
	case Int64, Sint64, Sfixed64:
		return i64(int64(1000 + i))
	case Uint32, Fixed32:
		return u32(uint32(200 + i))
	case Uint64, Fixed64:
		return u64(uint64(2000 + i))
	case Bool:
		return protoreflect.ValueOfBool(i%2 == 0)
	case Float:
		return f32(float32(i) + 1.5)
	case Double:
		return f64(float64(i) + 2.25)
	case String:
		return protoreflect.ValueOfString(fmt.Sprintf("s%d", i))
	case Bytes:
		return protoreflect.ValueOfBytes([]byte{byte(i + 1), 0xab, byte(0x10 + i)})
	case Enum:
		return protoreflect.ValueOfEnum(protoreflect.EnumNumber(1 + i%2))
	}
	panic("harness: no benign value for " + k.String())
}

// BenignKey is Benign for map keys (bool has only two values; keys must be distinct).
func BenignKey(k Kind, i int) V {
	if k == Bool {
		return protoreflect.ValueOfBool(i%2 == 0)
	}
	return Benign(k, i)
}

// ValueClass abstracts a scalar value to the class used in finding signatures.
func ValueClass(k Kind, v V) string {
	switch k {
	case Int32, Sint32, Sfixed32, Int64, Sint64, Sfixed64:
		if v.Int() < 0 {
			return "negative"
		}
		return "nonnegative"
	case Uint32, Fixed32:
		if v.Uint() >= 1<<31 {
			return "top-bit-set"
		}
		return "below-2^31"
	case Uint64, Fixed64:
		if v.Uint() >= 1<<63 {
			return "top-bit-set"
		}
		return "below-2^63"
	case Float, Double:
		f := v.Float()
		if math.IsNaN(f) || math.IsInf(f, 0) {
			return "non-finite"
		}
		return "finite"
	case Enum:
		if v.Enum() < 0 {
			return "negative"
		}
		return "nonnegative"
	}
	return "any"
}

// ScalarString renders a scalar for case descriptions.
func ScalarString(k Kind, v V) string {
	switch k {
	case String:
		return fmt.Sprintf("%q", v.String())
	case Bytes:
		b := v.Bytes()
		if len(b) > 16 {
			return fmt.Sprintf("bytes(%x..,len=%d)", b[:16], len(b))
		}
		return fmt.Sprintf("bytes(%x)", b)
	case Float:
		return fmt.Sprintf("%v(bits=%08x)", v.Float(), math.Float32bits(float32(v.Float())))
	case Double:
		return fmt.Sprintf("%v(bits=%016x)", v.Float(), math.Float64bits(v.Float()))
	case Enum:
		return fmt.Sprintf("enum(%d)", v.Enum())
	}
	return fmt.Sprint(v.Interface())
}
