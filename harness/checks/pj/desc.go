package pj

import (
	"context"
	"fmt"

	dproto "github.com/cloudwego/dynamicgo/proto"
	"github.com/jhump/protoreflect/desc"
	"github.com/jhump/protoreflect/desc/protoparse"
	"google.golang.org/protobuf/reflect/protodesc"
	"google.golang.org/protobuf/reflect/protoreflect"
	"google.golang.org/protobuf/reflect/protoregistry"
)

// Ref is the reference view of a program: the jhump descriptors (used as the oracle of C15) and the
// google.golang.org/protobuf descriptors built from the same FileDescriptorProtos (used to build,
// encode and decode messages with dynamicpb in C08/C09).
type Ref struct {
	Prog  *Program
	File  *desc.FileDescriptor
	V2    protoreflect.FileDescriptor
	files *protoregistry.Files
}

// CompileRef parses the program with the reference parser (in-memory accessor).
func CompileRef(p *Program) (*Ref, error) {
	ps := protoparse.Parser{Accessor: protoparse.FileContentsFromMap(p.Sources())}
	if len(p.ImportDirs) > 0 {
		ps.ImportPaths = append([]string{""}, p.ImportDirs...)
	}
	fds, err := ps.ParseFiles(p.Main)
	if err != nil {
		return nil, fmt.Errorf("reference parser rejects the generated program %s: %v", p.Name, err)
	}
	r := &Ref{Prog: p, File: fds[0], files: &protoregistry.Files{}}
	if r.V2, err = r.register(fds[0]); err != nil {
		return nil, err
	}
	return r, nil
}

func (r *Ref) register(fd *desc.FileDescriptor) (protoreflect.FileDescriptor, error) {
	if d, err := r.files.FindFileByPath(fd.GetName()); err == nil {
		return d, nil
	}
	for _, dep := range fd.GetDependencies() {
		if _, err := r.register(dep); err != nil {
			return nil, err
		}
	}
	d, err := protodesc.NewFile(fd.AsFileDescriptorProto(), r.files)
	if err != nil {
		return nil, fmt.Errorf("protodesc.NewFile(%s): %v", fd.GetName(), err)
	}
	if err := r.files.RegisterFile(d); err != nil {
		return nil, err
	}
	return d, nil
}

// Msg returns the protobuf-go descriptor of a message by fully-qualified name.
func (r *Ref) Msg(fqn string) protoreflect.MessageDescriptor {
	d, err := r.files.FindDescriptorByName(protoreflect.FullName(fqn))
	if err != nil {
		panic(fmt.Sprintf("harness: no message %q in program %s", fqn, r.Prog.Name))
	}
	return d.(protoreflect.MessageDescriptor)
}

// Dynamicgo parses the program with the code under test.
func Dynamicgo(p *Program, opts dproto.Options) (*dproto.ServiceDescriptor, error) {
	src := p.Sources()
	main := src[p.Main]
	inc := map[string]string{}
	for k, v := range src {
		if k != p.Main {
			inc[k] = v
		}
	}
	return opts.NewDesccriptorFromContent(context.Background(), p.Main, main, inc, p.ImportDirs...)
}

// DynamicgoIO returns the input and output type descriptors of method M (default options).
func DynamicgoIO(p *Program, method string) (in, out *dproto.TypeDescriptor, err error) {
	svc, err := Dynamicgo(p, dproto.Options{})
	if err != nil {
		return nil, nil, err
	}
	m := svc.LookupMethodByName(method)
	if m == nil {
		return nil, nil, fmt.Errorf("method %s not found", method)
	}
	return m.Input(), m.Output(), nil
}
