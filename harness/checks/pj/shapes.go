package pj

import (
	"fmt"

	"google.golang.org/protobuf/reflect/protoreflect"
	"google.golang.org/protobuf/types/dynamicpb"
)

// Shape is the type of the field under test (FUT).
type Shape struct {
	Card string // "singular" | "repeated" (proto3 default packedness) | "unpacked" ([packed=false]) | "map"
	K    Kind   // value kind (15 scalars, Enum, Message)
	Key  Kind   // map key kind
}

func (s Shape) String() string {
	kn := KindName(s.K)
	switch s.Card {
	case "map":
		return fmt.Sprintf("map<%s,%s>", KindName(s.Key), kn)
	case "singular":
		return kn
	}
	return s.Card + " " + kn
}

// ValueKinds: 15 scalars + enum + message.
var ValueKinds = append(append([]Kind{}, ScalarKinds...), Enum, Message)

// Field declares the FUT.
func (s Shape) Field(name string, num int) *Field {
	f := &Field{Name: name, Num: num, Kind: s.K}
	switch s.K {
	case Enum:
		f.Type = "E"
	case Message:
		f.Type = "Inner"
	}
	switch s.Card {
	case "repeated":
		f.Rep = true
	case "unpacked":
		f.Rep = true
		f.Packed = "false"
	case "map":
		f.MapKey = s.Key
	}
	return f
}

// EnumE and Inner are the enum / message types every generated conversion schema declares.
var EnumE = &EnumDecl{Name: "E", Values: []EnumValue{{"E_ZERO", 0}, {"E_ONE", 1}, {"E_TWO", 2}, {"E_NEG", -1}, {"E_MAX", 2147483647}}}

func innerDecl() *Msg {
	return &Msg{Name: "Inner", Fields: []*Field{F("iv", 1, Int32), F("is_x", 2, String)}}
}

// FUTName is the name of the field under test: its JSON name (fVal) differs from its name.
const (
	FUTName = "f_val"
	FUTJSON = "fVal"
	Pkg     = "pq"
)

// Contexts embed the FUT at different places of the root message T.
//
//	top        T{FUT f_val=n}
//	mid        T{int32 pre_f=1; FUT f_val=2; string post_f=3}            (members before and after)
//	sub        T{Sub sub_m=1; int32 tail_f=2}  Sub{FUT f_val=n}           (nested, a sibling follows the sub-message)
//	sub2       T{Mid sub_m=1; int32 tail_f=2} Mid{Sub sub_m=1; int32 tail_f=2} Sub{FUT f_val=n}
//	repsub     T{repeated Sub subs=1; int32 tail_f=2} Sub{FUT f_val=n}    (two elements; n=1 repeats the parent's number)
//	mapsub     T{map<string,Sub> subm=1; int32 tail_f=2} Sub{FUT f_val=n} (two entries)
var Contexts = []string{"top", "mid", "sub", "sub2", "repsub", "mapsub"}

// Holders tells how many holder messages (messages that directly contain the FUT) a context has.
func Holders(ctx string) int {
	switch ctx {
	case "repsub", "mapsub":
		return 2
	}
	return 1
}

// ShapeProgram builds the program for (context, shape, FUT number).
func ShapeProgram(ctx string, sh Shape, num int) *Program {
	fut := sh.Field(FUTName, num)
	f := &File{Path: "main.proto", Pkg: Pkg, Enums: []*EnumDecl{EnumE}, Msgs: []*Msg{innerDecl()}}
	tail := func(n int) *Field { return F("tail_f", n, Int32) }
	switch ctx {
	case "top":
		f.Msgs = append(f.Msgs, &Msg{Name: "T", Fields: []*Field{fut}})
	case "mid":
		fut.Num = 2
		f.Msgs = append(f.Msgs, &Msg{Name: "T", Fields: []*Field{F("pre_f", 1, Int32), fut, F("post_f", 3, String)}})
	case "sub":
		f.Msgs = append(f.Msgs, &Msg{Name: "Sub", Fields: []*Field{fut}}, &Msg{Name: "T", Fields: []*Field{FM("sub_m", 1, "Sub"), tail(2)}})
	case "sub2":
		f.Msgs = append(f.Msgs, &Msg{Name: "Sub", Fields: []*Field{fut}}, &Msg{Name: "Mid", Fields: []*Field{FM("sub_m", 1, "Sub"), tail(2)}}, &Msg{Name: "T", Fields: []*Field{FM("sub_m", 1, "Mid"), tail(2)}})
	case "repsub":
		f.Msgs = append(f.Msgs, &Msg{Name: "Sub", Fields: []*Field{fut}}, &Msg{Name: "T", Fields: []*Field{FM("subs", 1, "Sub").Repeated(), tail(2)}})
	case "mapsub":
		f.Msgs = append(f.Msgs, &Msg{Name: "Sub", Fields: []*Field{fut}}, &Msg{Name: "T", Fields: []*Field{FM("subm", 1, "Sub").MapOf(String), tail(2)}})
	default:
		panic("harness: unknown context " + ctx)
	}
	f.Svcs = []*Service{OneMethodService("T", "T")}
	return &Program{Name: fmt.Sprintf("%s/%s/n%d", ctx, sh, num), Main: "main.proto", Files: []*File{f}}
}

// El is one element value of the FUT: a scalar/enum value, or an Inner message (empty, or iv=100+I, is_x="s<I>").
type El struct {
	V     V
	IsMsg bool
	Empty bool
	I     int
}

// BenignEl is the i-th benign element of kind k.
func BenignEl(k Kind, i int) El {
	if k == Message {
		return El{IsMsg: true, I: i}
	}
	return El{V: Benign(k, i)}
}

// FVal is the value given to the FUT in one holder.
type FVal struct {
	Absent bool
	One    El
	List   []El
	Keys   []V
	Vals   []El
}

func (e El) value(fd protoreflect.FieldDescriptor, newMsg func() protoreflect.Message) V {
	if !e.IsMsg {
		return e.V
	}
	m := newMsg()
	if !e.Empty {
		md := m.Descriptor()
		m.Set(md.Fields().ByName("iv"), protoreflect.ValueOfInt32(int32(100+e.I)))
		m.Set(md.Fields().ByName("is_x"), protoreflect.ValueOfString(fmt.Sprintf("s%d", e.I)))
	}
	return protoreflect.ValueOfMessage(m)
}

// SetFUT stores fv into the FUT of holder h.
func SetFUT(h protoreflect.Message, sh Shape, fv FVal) {
	if fv.Absent {
		return
	}
	fd := h.Descriptor().Fields().ByName(FUTName)
	switch sh.Card {
	case "singular":
		if sh.K == Message {
			h.Set(fd, fv.One.value(fd, func() protoreflect.Message { return h.NewField(fd).Message() }))
		} else {
			h.Set(fd, fv.One.V)
		}
	case "repeated", "unpacked":
		l := h.Mutable(fd).List()
		for _, e := range fv.List {
			l.Append(e.value(fd, func() protoreflect.Message { return l.NewElement().Message() }))
		}
	case "map":
		m := h.Mutable(fd).Map()
		for i, k := range fv.Keys {
			m.Set(k.MapKey(), fv.Vals[i].value(fd, func() protoreflect.Message { return m.NewValue().Message() }))
		}
	}
}

// BuildRoot builds the root message of a context; fill is called once per holder (index 0, 1).
func BuildRoot(ref *Ref, ctx string, fill func(h protoreflect.Message, idx int)) protoreflect.Message {
	root := dynamicpb.NewMessage(ref.Msg(Pkg + ".T"))
	fld := func(m protoreflect.Message, name string) protoreflect.FieldDescriptor {
		fd := m.Descriptor().Fields().ByName(protoreflect.Name(name))
		if fd == nil {
			panic("harness: no field " + name)
		}
		return fd
	}
	tail := func(m protoreflect.Message) { m.Set(fld(m, "tail_f"), protoreflect.ValueOfInt32(7)) }
	switch ctx {
	case "top":
		fill(root, 0)
	case "mid":
		root.Set(fld(root, "pre_f"), protoreflect.ValueOfInt32(5))
		fill(root, 0)
		root.Set(fld(root, "post_f"), protoreflect.ValueOfString("p"))
	case "sub":
		fill(root.Mutable(fld(root, "sub_m")).Message(), 0)
		tail(root)
	case "sub2":
		mid := root.Mutable(fld(root, "sub_m")).Message()
		fill(mid.Mutable(fld(mid, "sub_m")).Message(), 0)
		tail(mid)
		tail(root)
	case "repsub":
		l := root.Mutable(fld(root, "subs")).List()
		for i := 0; i < 2; i++ {
			e := l.NewElement()
			fill(e.Message(), i)
			l.Append(e)
		}
		tail(root)
	case "mapsub":
		m := root.Mutable(fld(root, "subm")).Map()
		for i := 0; i < 2; i++ {
			v := m.NewValue()
			fill(v.Message(), i)
			m.Set(protoreflect.ValueOfString(fmt.Sprintf("k%d", i)).MapKey(), v)
		}
		tail(root)
	}
	return root
}
