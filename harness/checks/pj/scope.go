package pj

import (
	"fmt"
	"strings"

	"google.golang.org/protobuf/reflect/protoreflect"
	"google.golang.org/protobuf/types/dynamicpb"
)

// ConvCase is one (schema, message) pair of the conversion scope shared by C08 and C09.
type ConvCase struct {
	Prog   *Program
	What   string // human readable: context, shape, value
	Focus  string // trigger class for signatures
	Has64  bool   // a 64-bit integer kind is involved (Int642String changes the documented form)
	NonFin bool   // the message contains a non-finite float
	Shape  Shape  // shape of the field under test (zero for the presence / jsonnames / recursion families)
	Ctx    string // embedding context of the FUT ("" for those families)
	Num    int    // FUT field number
	Build  func(ref *Ref) protoreflect.Message
}

// kind classes used in structure-focused trigger classes
func wireCard(sh Shape) string {
	switch sh.Card {
	case "singular":
		return "singular"
	case "map":
		return "map"
	case "unpacked":
		return "unpacked-list"
	}
	if Packable(sh.K) {
		return "packed-list"
	}
	return "unpacked-list"
}

// sameNumberFollows: in the reference encoding the byte after the holder's last field is a tag with the FUT's number.
func sameNumberFollows(ctx string, num int) bool {
	switch ctx {
	case "repsub", "mapsub":
		return num == 1 || num == 2 // the next element / entry of the parent (1), or tail_f after the last one (2)
	case "sub", "sub2":
		return num == 2 // tail_f
	}
	return false
}

// keyClass groups map key kinds by wire encoding.
func KeyClass(k Kind) string { return keyClass(k) }

// ValClass groups value kinds for trigger classes: int, float, bool, string, bytes, enum, message.
func ValClass(k Kind) string {
	switch {
	case IsInt(k):
		return "int"
	case k == Float || k == Double:
		return "float"
	}
	return KindName(k)
}

// WireCard is the wire-level cardinality class of a shape: singular, packed-list, unpacked-list, map.
func WireCard(sh Shape) string { return wireCard(sh) }

func keyClass(k Kind) string {
	switch k {
	case Int32, Int64, Uint32, Uint64:
		return "varint"
	case Sint32, Sint64:
		return "zigzag"
	case Fixed32, Fixed64, Sfixed32, Sfixed64:
		return "fixed"
	case Bool:
		return "bool"
	}
	return "string"
}

// special value classes are part of the trigger class, ordinary ones are not
func classSuffix(k Kind, v V) string {
	switch c := ValueClass(k, v); c {
	case "top-bit-set", "non-finite":
		return "," + c
	}
	return ""
}

func has64(sh Shape) bool {
	return Is64(sh.K) || (sh.Card == "map" && Is64(sh.Key))
}

// ---- value-focused cases: boundary values, context "top" --------------------------------------

var valueGroups = []string{"value/singular", "value/repeated", "value/unpacked", "value/map-key", "value/map-value"}

func valueCases(tier, group string, yield func(*ConvCase) bool) bool {
	ctxs := []string{"top"}
	if tier == "thorough" {
		ctxs = Contexts
	}
	for _, ctx := range ctxs {
		if !valueCasesIn(ctx, group, yield) {
			return false
		}
	}
	return true
}

// valueCasesIn: the FUT sits in context ctx (number 16 outside "top": no tag with the same number follows it).
func valueCasesIn(ctx, group string, yield func(*ConvCase) bool) bool {
	mk := func(sh Shape, fv FVal, k Kind, v V, what string, ctxClass string) *ConvCase {
		num := 16
		if ctx == "top" {
			num = 1
		}
		prog := ShapeProgram(ctx, sh, num)
		return &ConvCase{
			Prog:   prog,
			What:   fmt.Sprintf("%s %s = %s", ctx, sh, what),
			Focus:  fmt.Sprintf("%s:%s%s", ctxClass, KindName(k), classSuffix(k, v)),
			Has64:  has64(sh),
			NonFin: ValueClass(k, v) == "non-finite",
			Shape:  sh, Ctx: ctx, Num: num,
			Build: func(ref *Ref) protoreflect.Message {
				return BuildRoot(ref, ctx, func(h protoreflect.Message, _ int) { SetFUT(h, sh, fv) })
			},
		}
	}
	scalarKinds := append(append([]Kind{}, ScalarKinds...), Enum)
	switch group {
	case "value/singular":
		for _, k := range scalarKinds {
			sh := Shape{Card: "singular", K: k}
			for _, v := range Boundary(k) {
				if !yield(mk(sh, FVal{One: El{V: v}}, k, v, ScalarString(k, v), "value")) {
					return false
				}
			}
		}
	case "value/repeated", "value/unpacked":
		card := strings.TrimPrefix(group, "value/")
		for _, k := range scalarKinds {
			if card == "unpacked" && !Packable(k) {
				continue
			}
			sh := Shape{Card: card, K: k}
			b := El{V: Benign(k, 0)}
			for _, v := range Boundary(k) {
				e := El{V: v}
				for li, l := range [][]El{{e}, {e, b}, {b, e}, {b, e, b}} {
					what := fmt.Sprintf("list#%d with %s", li, ScalarString(k, v))
					if !yield(mk(sh, FVal{List: l}, k, v, what, "value")) {
						return false
					}
				}
			}
			// every boundary value in one list, rotated so that each value is the last element once: first the
			// ordinary values only, then (kinds with a special value class) all of them
			var ordinary, all []V
			for _, v := range Boundary(k) {
				all = append(all, v)
				if classSuffix(k, v) == "" {
					ordinary = append(ordinary, v)
				}
			}
			sets := [][]V{ordinary}
			if len(all) != len(ordinary) {
				sets = append(sets, all)
			}
			for si, set := range sets {
				for rot := 0; rot < len(set); rot++ {
					var l []El
					for i := range set {
						l = append(l, El{V: set[(rot+1+i)%len(set)]})
					}
					lastV := set[rot]
					rep := lastV
					if si == 1 { // the class of the list is the special class
						for _, v := range set {
							if classSuffix(k, v) != "" {
								rep = v
							}
						}
					}
					what := fmt.Sprintf("list of all %d %s boundary values, last = %s", len(set), []string{"ordinary", ""}[si], ScalarString(k, lastV))
					if !yield(mk(sh, FVal{List: l}, k, rep, what, "value")) {
						return false
					}
				}
			}
		}
	case "value/map-key":
		for _, kk := range MapKeyKinds {
			sh := Shape{Card: "map", K: Int32, Key: kk}
			for _, kv := range Boundary(kk) {
				other := BenignKey(kk, 0)
				if other.Interface() == kv.Interface() {
					other = BenignKey(kk, 1)
				}
				one := FVal{Keys: []V{kv}, Vals: []El{BenignEl(Int32, 0)}}
				two := FVal{Keys: []V{kv, other}, Vals: []El{BenignEl(Int32, 0), BenignEl(Int32, 1)}}
				for i, fv := range []FVal{one, two} {
					what := fmt.Sprintf("map#%d with key %s", i, ScalarString(kk, kv))
					if !yield(mk(sh, fv, kk, kv, what, "map-key")) {
						return false
					}
				}
			}
		}
	case "value/map-value":
		for _, k := range scalarKinds {
			sh := Shape{Card: "map", K: k, Key: String}
			for _, v := range Boundary(k) {
				one := FVal{Keys: []V{protoreflect.ValueOfString("k")}, Vals: []El{{V: v}}}
				two := FVal{Keys: []V{protoreflect.ValueOfString("a"), protoreflect.ValueOfString("k")}, Vals: []El{{V: Benign(k, 0)}, {V: v}}}
				for i, fv := range []FVal{one, two} {
					what := fmt.Sprintf("map#%d with value %s", i, ScalarString(k, v))
					if !yield(mk(sh, fv, k, v, what, "value")) {
						return false
					}
				}
			}
		}
	}
	return true
}

// ---- structure-focused cases: benign values, every context / shape / size -----------------------

// mapShapes: the full product 12 key kinds x 17 value kinds.
func mapShapes(tier string) []Shape {
	var out []Shape
	for _, kk := range MapKeyKinds {
		for _, k := range ValueKinds {
			out = append(out, Shape{Card: "map", K: k, Key: kk})
		}
	}
	return out
}

func shapesOf(tier, card string) []Shape {
	var out []Shape
	switch card {
	case "map":
		return mapShapes(tier)
	case "unpacked":
		for _, k := range ValueKinds {
			if Packable(k) {
				out = append(out, Shape{Card: card, K: k})
			}
		}
	default:
		for _, k := range ValueKinds {
			out = append(out, Shape{Card: card, K: k})
		}
	}
	return out
}

var structCards = []string{"singular", "repeated", "unpacked", "map"}

func structGroups() []string {
	var out []string
	for _, ctx := range Contexts {
		for _, c := range structCards {
			out = append(out, "struct/"+ctx+"/"+c)
		}
	}
	return out
}

func numsFor(ctx string) []int {
	switch ctx {
	case "top":
		return []int{1, 15, 16, 2047, 2048, 65535}
	case "mid":
		return []int{2}
	}
	return []int{1, 2, 16}
}

// fvalsFor enumerates the FUT values of a shape in one holder: sizes 0..3 for containers; set/absent (and empty
// message) for singular. idx shifts the benign values so that two holders differ.
// Deep (thorough tier): containers also come in the sizes whose packed payload / entry count crosses the one-byte
// length boundary and the small-table thresholds of the library (16, 17, 64, 127, 128, 130 elements; 16, 17, 40
// map entries).
var Deep bool

func fvalsFor(sh Shape, idx int) []struct {
	tag string
	fv  FVal
} {
	type tf = struct {
		tag string
		fv  FVal
	}
	var out []tf
	base := idx * 4
	switch sh.Card {
	case "singular":
		out = append(out, tf{"absent", FVal{Absent: true}}, tf{"set", FVal{One: BenignEl(sh.K, base)}})
		if sh.K == Message {
			out = append(out, tf{"empty-message", FVal{One: El{IsMsg: true, Empty: true}}})
		}
	case "repeated", "unpacked":
		sizes := []int{0, 1, 2, 3}
		if Deep {
			sizes = append(sizes, 16, 17, 64, 127, 128, 130)
		}
		for _, n := range sizes {
			var l []El
			for i := 0; i < n; i++ {
				l = append(l, BenignEl(sh.K, base+i))
			}
			fv := FVal{List: l, Absent: n == 0}
			out = append(out, tf{fmt.Sprintf("size=%d", n), fv})
		}
		if sh.K == Message {
			out = append(out, tf{"size=2,first-empty", FVal{List: []El{{IsMsg: true, Empty: true}, BenignEl(sh.K, base+1)}}},
				tf{"size=2,last-empty", FVal{List: []El{BenignEl(sh.K, base), {IsMsg: true, Empty: true}}}})
		}
	case "map":
		sizes := []int{0, 1, 2, 3}
		if Deep && sh.Key != Bool {
			sizes = append(sizes, 16, 17, 40)
		}
		for _, n := range sizes {
			fv := FVal{Absent: n == 0}
			for i := 0; i < n; i++ {
				if sh.Key == Bool && i >= 2 {
					break
				}
				fv.Keys = append(fv.Keys, BenignKey(sh.Key, base+i))
				fv.Vals = append(fv.Vals, BenignEl(sh.K, base+i))
			}
			out = append(out, tf{fmt.Sprintf("size=%d", n), fv})
		}
		if sh.K == Message {
			out = append(out, tf{"size=1,empty-message", FVal{Keys: []V{BenignKey(sh.Key, base)}, Vals: []El{{IsMsg: true, Empty: true}}}})
		}
	}
	return out
}

func structCases(tier, group string, yield func(*ConvCase) bool) bool {
	parts := strings.Split(group, "/")
	ctx, card := parts[1], parts[2]
	for _, sh := range shapesOf(tier, card) {
		for _, num := range numsFor(ctx) {
			sh, num := sh, num
			prog := ShapeProgram(ctx, sh, num)
			follow := "other"
			if sameNumberFollows(ctx, num) {
				follow = "same-number-follows"
			}
			wc := wireCard(sh)
			if sh.Card == "map" {
				wc += "[key=" + keyClass(sh.Key) + "]"
			}
			focus := fmt.Sprintf("struct:%s,%s", wc, follow)
			v0 := fvalsFor(sh, 0)
			v1 := fvalsFor(sh, 1)
			for i := range v0 {
				// second holder (repsub/mapsub): same size class, shifted values; plus the mixed case (first set, second absent)
				combos := [][2]int{{i, i}}
				if Holders(ctx) == 2 && i > 0 {
					combos = append(combos, [2]int{i, 0}, [2]int{0, i})
				}
				for _, cb := range combos {
					a, b := v0[cb[0]], v1[cb[1]]
					what := fmt.Sprintf("%s %s n=%d %s", ctx, sh, num, a.tag)
					if Holders(ctx) == 2 {
						what += " / " + b.tag
					}
					c := &ConvCase{Prog: prog, What: what, Focus: focus, Has64: has64(sh), Shape: sh, Ctx: ctx, Num: num,
						Build: func(ref *Ref) protoreflect.Message {
							return BuildRoot(ref, ctx, func(h protoreflect.Message, idx int) {
								if idx == 0 {
									SetFUT(h, sh, a.fv)
								} else {
									SetFUT(h, sh, b.fv)
								}
							})
						}}
					if !yield(c) {
						return false
					}
				}
			}
		}
	}
	return true
}

// ---- presence subsets ---------------------------------------------------------------------------

func presenceProgram() *Program {
	f := &File{Path: "main.proto", Pkg: Pkg, Enums: []*EnumDecl{EnumE}, Msgs: []*Msg{innerDecl(),
		{Name: "T", Fields: []*Field{F("a_f", 1, Int32), F("b_f", 2, String), FM("c_m", 3, "Inner"), F("d_l", 4, Int32).Repeated(), F("e_p", 5, Int32).MapOf(String), FM("g_m", 6, "Inner")}}},
		Svcs: []*Service{OneMethodService("T", "T")}}
	return &Program{Name: "presence", Main: "main.proto", Files: []*File{f}}
}

func presenceCases(yield func(*ConvCase) bool) bool {
	prog := presenceProgram()
	for mask := 0; mask < 64; mask++ {
		for _, emptyC := range []bool{false, true} {
			if emptyC && mask&4 == 0 {
				continue
			}
			mask, emptyC := mask, emptyC
			c := &ConvCase{Prog: prog, What: fmt.Sprintf("presence mask=%06b emptyC=%v", mask, emptyC), Focus: "presence-subset",
				Build: func(ref *Ref) protoreflect.Message {
					m := dynamicpb.NewMessage(ref.Msg(Pkg + ".T"))
					fs := m.Descriptor().Fields()
					if mask&1 != 0 {
						m.Set(fs.ByName("a_f"), protoreflect.ValueOfInt32(11))
					}
					if mask&2 != 0 {
						m.Set(fs.ByName("b_f"), protoreflect.ValueOfString("bee"))
					}
					if mask&4 != 0 {
						sub := m.Mutable(fs.ByName("c_m")).Message()
						if !emptyC {
							sub.Set(sub.Descriptor().Fields().ByName("iv"), protoreflect.ValueOfInt32(12))
						}
					}
					if mask&8 != 0 {
						l := m.Mutable(fs.ByName("d_l")).List()
						l.Append(protoreflect.ValueOfInt32(13))
						l.Append(protoreflect.ValueOfInt32(14))
					}
					if mask&16 != 0 {
						m.Mutable(fs.ByName("e_p")).Map().Set(protoreflect.ValueOfString("k").MapKey(), protoreflect.ValueOfInt32(15))
					}
					if mask&32 != 0 {
						m.Mutable(fs.ByName("g_m")).Message() // empty message as the last member
					}
					return m
				}}
			if !yield(c) {
				return false
			}
		}
	}
	return true
}

// ---- JSON names ---------------------------------------------------------------------------------

func jsonNameCases(yield func(*ConvCase) bool) bool {
	f := &File{Path: "main.proto", Pkg: Pkg, Msgs: []*Msg{innerDecl(),
		{Name: "T", Fields: []*Field{
			F("foo_bar", 1, Int32), F("foo_bar_baz", 2, String).WithJSON("XyZ"), F("_lead", 3, Bool), FM("with_1num", 4, "Inner"),
			F("UPPER_case", 5, Int64).Repeated(), F("plain", 6, String).MapOf(String), F("spaced", 7, Int32).WithJSON("a b"), F("uni", 8, Int32).WithJSON("né\"q"),
			// JSON names that need escaping beyond the quote: a backslash, a control character
			F("bsl", 9, String).WithJSON("a\\kb"), F("ctl", 10, Int32).WithJSON("t\tb"), FM("bsl_in", 11, "Inner").WithJSON("C:\\temp"),
		}}},
		Svcs: []*Service{OneMethodService("T", "T")}}
	prog := &Program{Name: "jsonnames", Main: "main.proto", Files: []*File{f}}
	for mask := 1; mask < 2048; mask++ {
		if mask >= 256 && mask&255 != 0 && mask&255 != 255 {
			continue // the three escape-needing names: every subset of themselves, alone and with all the others
		}
		mask := mask
		c := &ConvCase{Prog: prog, What: fmt.Sprintf("json names mask=%011b", mask), Focus: "json-names", Has64: mask&16 != 0,
			Build: func(ref *Ref) protoreflect.Message {
				m := dynamicpb.NewMessage(ref.Msg(Pkg + ".T"))
				fs := m.Descriptor().Fields()
				if mask&1 != 0 {
					m.Set(fs.ByNumber(1), protoreflect.ValueOfInt32(1))
				}
				if mask&2 != 0 {
					m.Set(fs.ByNumber(2), protoreflect.ValueOfString("two"))
				}
				if mask&4 != 0 {
					m.Set(fs.ByNumber(3), protoreflect.ValueOfBool(true))
				}
				if mask&8 != 0 {
					sub := m.Mutable(fs.ByNumber(4)).Message()
					sub.Set(sub.Descriptor().Fields().ByName("is_x"), protoreflect.ValueOfString("in"))
				}
				if mask&16 != 0 {
					m.Mutable(fs.ByNumber(5)).List().Append(protoreflect.ValueOfInt64(5))
				}
				if mask&32 != 0 {
					m.Mutable(fs.ByNumber(6)).Map().Set(protoreflect.ValueOfString("foo_bar").MapKey(), protoreflect.ValueOfString("six"))
				}
				if mask&64 != 0 {
					m.Set(fs.ByNumber(7), protoreflect.ValueOfInt32(7))
				}
				if mask&128 != 0 {
					m.Set(fs.ByNumber(8), protoreflect.ValueOfInt32(8))
				}
				if mask&256 != 0 {
					m.Set(fs.ByNumber(9), protoreflect.ValueOfString("nine"))
				}
				if mask&512 != 0 {
					m.Set(fs.ByNumber(10), protoreflect.ValueOfInt32(10))
				}
				if mask&1024 != 0 {
					sub := m.Mutable(fs.ByNumber(11)).Message()
					sub.Set(sub.Descriptor().Fields().ByName("iv"), protoreflect.ValueOfInt32(11))
				}
				return m
			}}
		if !yield(c) {
			return false
		}
	}
	return true
}

// ---- recursive nesting -----------------------------------------------------------------------------

// RecProgram: R{R r_m=1; int32 v_f=2; repeated R rs_l=3; map<int32,R> rp=4}
func RecProgram() *Program {
	f := &File{Path: "main.proto", Pkg: Pkg, Msgs: []*Msg{
		{Name: "T", Fields: []*Field{FM("r_m", 1, "T"), F("v_f", 2, Int32), FM("rs_l", 3, "T").Repeated(), FM("rp", 4, "T").MapOf(Int32)}}},
		Svcs: []*Service{OneMethodService("T", "T")}}
	return &Program{Name: "recursive", Main: "main.proto", Files: []*File{f}}
}

// BuildRec builds a chain of the given depth; via selects the recursive field per level ("s" singular, "l" list, "m" map).
func BuildRec(ref *Ref, via string) protoreflect.Message {
	root := dynamicpb.NewMessage(ref.Msg(Pkg + ".T"))
	cur := protoreflect.Message(root)
	for i := 0; i < len(via); i++ {
		fs := cur.Descriptor().Fields()
		cur.Set(fs.ByName("v_f"), protoreflect.ValueOfInt32(int32(i+1)))
		switch via[i] {
		case 's':
			cur = cur.Mutable(fs.ByName("r_m")).Message()
		case 'l':
			l := cur.Mutable(fs.ByName("rs_l")).List()
			e := l.NewElement()
			l.Append(e)
			cur = e.Message()
		case 'm':
			mp := cur.Mutable(fs.ByName("rp")).Map()
			v := mp.NewValue()
			mp.Set(protoreflect.ValueOfInt32(int32(i+40)).MapKey(), v)
			cur = v.Message()
		}
	}
	cur.Set(cur.Descriptor().Fields().ByName("v_f"), protoreflect.ValueOfInt32(99))
	return root
}

func recursionCases(tier string, yield func(*ConvCase) bool) bool {
	prog := RecProgram()
	maxd := 4
	if tier == "thorough" {
		maxd = 6
	}
	var vias []string
	var gen func(p string)
	gen = func(p string) {
		if len(p) > 0 {
			vias = append(vias, p)
		}
		if len(p) == maxd {
			return
		}
		for _, c := range "slm" {
			gen(p + string(c))
		}
	}
	gen("")
	// simplest first: by length
	for d := 1; d <= maxd; d++ {
		for _, v := range vias {
			if len(v) != d {
				continue
			}
			v := v
			c := &ConvCase{Prog: prog, What: "recursive chain via " + v, Focus: "recursive-nesting",
				Build: func(ref *Ref) protoreflect.Message { return BuildRec(ref, v) }}
			if !yield(c) {
				return false
			}
		}
	}
	for _, d := range []int{16, 64} {
		d := d
		c := &ConvCase{Prog: prog, What: fmt.Sprintf("recursive chain singular depth %d", d), Focus: "recursive-nesting",
			Build: func(ref *Ref) protoreflect.Message { return BuildRec(ref, strings.Repeat("s", d)) }}
		if !yield(c) {
			return false
		}
	}
	return true
}

// ---- two message types with one simple name ---------------------------------------------------------

// SameNameProgram: Order.Item and Refund.Item are different types, both reachable from the root; their fields 1 and 2
// have the same wire types (a reader using the other type's descriptor does not fail, it delivers wrong members).
func SameNameProgram() *Program {
	oi := &Msg{Name: "Item", Fields: []*Field{F("sku", 1, String), F("qty", 2, Int32)}}
	ri := &Msg{Name: "Item", Fields: []*Field{F("reason", 1, String), F("amount", 2, Sint64), F("d", 3, Double)}}
	order := &Msg{Name: "Order", Msgs: []*Msg{oi}, Fields: []*Field{FM("item", 1, "Order.Item"), FM("items", 2, "Order.Item").Repeated(), F("n", 3, Int32)}}
	refund := &Msg{Name: "Refund", Msgs: []*Msg{ri}, Fields: []*Field{FM("item", 1, "Refund.Item"), FM("m", 2, "Refund.Item").MapOf(String)}}
	t := &Msg{Name: "T", Fields: []*Field{FM("order", 1, "Order"), FM("refund", 2, "Refund")}}
	f := &File{Path: "main.proto", Pkg: Pkg, Msgs: []*Msg{order, refund, t}, Svcs: []*Service{OneMethodService("T", "T")}}
	return &Program{Name: "samename", Main: "main.proto", Files: []*File{f}}
}

func sameNameCases(yield func(*ConvCase) bool) bool {
	prog := SameNameProgram()
	for _, which := range []string{"order", "refund", "order+refund"} {
		which := which
		c := &ConvCase{Prog: prog, What: "same simple name in two scopes: " + which, Focus: "same-simple-name", Has64: true,
			Build: func(ref *Ref) protoreflect.Message {
				root := dynamicpb.NewMessage(ref.Msg(Pkg + ".T"))
				fs := root.Descriptor().Fields()
				if strings.Contains(which, "order") {
					o := root.Mutable(fs.ByName("order")).Message()
					ofs := o.Descriptor().Fields()
					it := o.Mutable(ofs.ByName("item")).Message()
					it.Set(it.Descriptor().Fields().ByName("sku"), protoreflect.ValueOfString("book"))
					it.Set(it.Descriptor().Fields().ByName("qty"), protoreflect.ValueOfInt32(3))
					l := o.Mutable(ofs.ByName("items")).List()
					for i := 0; i < 2; i++ {
						e := l.NewElement()
						e.Message().Set(e.Message().Descriptor().Fields().ByName("sku"), protoreflect.ValueOfString(fmt.Sprintf("s%d", i)))
						e.Message().Set(e.Message().Descriptor().Fields().ByName("qty"), protoreflect.ValueOfInt32(int32(-i-1)))
						l.Append(e)
					}
					o.Set(ofs.ByName("n"), protoreflect.ValueOfInt32(7))
				}
				if strings.Contains(which, "refund") {
					r := root.Mutable(fs.ByName("refund")).Message()
					rfs := r.Descriptor().Fields()
					it := r.Mutable(rfs.ByName("item")).Message()
					it.Set(it.Descriptor().Fields().ByName("amount"), protoreflect.ValueOfInt64(-250))
					it.Set(it.Descriptor().Fields().ByName("reason"), protoreflect.ValueOfString("broken"))
					it.Set(it.Descriptor().Fields().ByName("d"), protoreflect.ValueOfFloat64(-1.25))
					mp := r.Mutable(rfs.ByName("m")).Map()
					v := mp.NewValue()
					v.Message().Set(v.Message().Descriptor().Fields().ByName("amount"), protoreflect.ValueOfInt64(499))
					v.Message().Set(v.Message().Descriptor().Fields().ByName("reason"), protoreflect.ValueOfString("late"))
					mp.Set(protoreflect.ValueOfString("k").MapKey(), v)
				}
				return root
			}}
		if !yield(c) {
			return false
		}
	}
	return true
}

// ---- explicit presence: proto3 optional and oneof members holding their zero value ---------------------

func ExplicitPresenceProgram() *Program {
	e := &EnumDecl{Name: "E", Values: []EnumValue{{"E_ZERO", 0}, {"E_ONE", 1}}}
	inner := &Msg{Name: "Inner", Fields: []*Field{F("x", 1, Int32).Optional(), F("s", 2, String).Optional()}}
	t := &Msg{Name: "T", Fields: []*Field{F("oi", 1, Int32).Optional(), F("os", 2, String).Optional(), FE("oe", 3, "E").Optional(), F("od", 4, Double).Optional(), F("ob", 5, Bool).Optional(),
		F("o64", 6, Int64).Optional(), F("oby", 7, Bytes).Optional(),
		F("ui", 8, Int32).InOneof("u"), F("us", 9, String).InOneof("u"), FE("ue", 10, "E").InOneof("u"), F("ud", 11, Double).InOneof("u"),
		FM("in", 12, "Inner"), FM("l", 13, "Inner").Repeated(), FM("m", 14, "Inner").MapOf(String), F("plain", 15, Int32)}}
	f := &File{Path: "main.proto", Pkg: Pkg, Enums: []*EnumDecl{e}, Msgs: []*Msg{inner, t}, Svcs: []*Service{OneMethodService("T", "T")}}
	return &Program{Name: "explicit-presence", Main: "main.proto", Files: []*File{f}}
}

func explicitPresenceCases(yield func(*ConvCase) bool) bool {
	prog := ExplicitPresenceProgram()
	zero := func(fd protoreflect.FieldDescriptor) protoreflect.Value {
		switch fd.Kind() {
		case protoreflect.StringKind:
			return protoreflect.ValueOfString("")
		case protoreflect.BytesKind:
			return protoreflect.ValueOfBytes([]byte{})
		case protoreflect.BoolKind:
			return protoreflect.ValueOfBool(false)
		case protoreflect.DoubleKind:
			return protoreflect.ValueOfFloat64(0)
		case protoreflect.EnumKind:
			return protoreflect.ValueOfEnum(0)
		case protoreflect.Int64Kind:
			return protoreflect.ValueOfInt64(0)
		}
		return protoreflect.ValueOfInt32(0)
	}
	for _, name := range []string{"oi", "os", "oe", "od", "ob", "o64", "oby", "ui", "us", "ue", "ud", "in.x", "in.s", "l.x", "m.x", "all-optionals"} {
		name := name
		c := &ConvCase{Prog: prog, What: "member with explicit presence holding its zero value: " + name, Focus: "explicit-presence-zero", Has64: true,
			Build: func(ref *Ref) protoreflect.Message {
				root := dynamicpb.NewMessage(ref.Msg(Pkg + ".T"))
				fs := root.Descriptor().Fields()
				setZero := func(m protoreflect.Message, n string) {
					fd := m.Descriptor().Fields().ByName(protoreflect.Name(n))
					m.Set(fd, zero(fd))
				}
				switch {
				case name == "all-optionals":
					for _, n := range []string{"oi", "os", "oe", "od", "ob", "o64", "oby"} {
						setZero(root, n)
					}
					setZero(root.Mutable(fs.ByName("in")).Message(), "x")
				case strings.HasPrefix(name, "in."):
					setZero(root.Mutable(fs.ByName("in")).Message(), name[3:])
				case strings.HasPrefix(name, "l."):
					l := root.Mutable(fs.ByName("l")).List()
					e := l.NewElement()
					setZero(e.Message(), name[2:])
					l.Append(e)
				case strings.HasPrefix(name, "m."):
					mp := root.Mutable(fs.ByName("m")).Map()
					v := mp.NewValue()
					setZero(v.Message(), name[2:])
					mp.Set(protoreflect.ValueOfString("k").MapKey(), v)
				default:
					setZero(root, name)
				}
				root.Set(fs.ByName("plain"), protoreflect.ValueOfInt32(7))
				return root
			}}
		if !yield(c) {
			return false
		}
	}
	return true
}

// ---- length-delimited fields whose tags start with the same byte -------------------------------------

// CongruentProgram: field numbers congruent mod 16 with tags of the same length (17/33/49, 18/34, 19/35).
func CongruentProgram() *Program {
	sub := &Msg{Name: "SubC", Fields: []*Field{F("a", 1, Int32)}}
	t := &Msg{Name: "T", Fields: []*Field{F("lo", 1, Int32), F("rs", 17, String).Repeated(), F("m", 18, Int32).MapOf(String), FM("rm", 19, "SubC").Repeated(),
		F("s", 33, String), F("b", 34, Bytes), FM("sm", 35, "SubC"), F("rs2", 49, String).Repeated()}}
	f := &File{Path: "main.proto", Pkg: Pkg, Msgs: []*Msg{sub, t}, Svcs: []*Service{OneMethodService("T", "T")}}
	return &Program{Name: "congruent", Main: "main.proto", Files: []*File{f}}
}

// HighUnorderedProgram: field numbers beyond the small dense ranges (4097 .. 2^20), declared in non-ascending order
// in the root and in a nested message, next to low numbers.
func HighUnorderedProgram() *Program {
	sub := &Msg{Name: "SubH", Fields: []*Field{F("z", 70000, Int32), F("a", 1, String), F("m", 5000, Sint64), F("y", 65536, String)}}
	t := &Msg{Name: "T", Fields: []*Field{F("id", 1, String), F("trace", 1048575, String), F("count", 2, Int32), F("shard", 4097, Uint32),
		F("labels", 40000, String).Repeated(), FM("inner", 9000, "SubH"), F("delta", 4100, Sint32), F("tags", 32768, Int32).MapOf(String), FM("subs", 8191, "SubH").Repeated()}}
	f := &File{Path: "main.proto", Pkg: Pkg, Msgs: []*Msg{sub, t}, Svcs: []*Service{OneMethodService("T", "T")}}
	return &Program{Name: "high-unordered", Main: "main.proto", Files: []*File{f}}
}

func highUnorderedCases(yield func(*ConvCase) bool) bool {
	prog := HighUnorderedProgram()
	names := []string{"id", "trace", "count", "shard", "labels", "inner", "delta", "tags", "subs"}
	// every single field alone, and all of them
	for k := 0; k <= len(names); k++ {
		k := k
		what := "all"
		if k < len(names) {
			what = names[k]
		}
		c := &ConvCase{Prog: prog, What: "high field numbers declared out of order: " + what, Focus: "high-numbers-unordered",
			Build: func(ref *Ref) protoreflect.Message {
				root := dynamicpb.NewMessage(ref.Msg(Pkg + ".T"))
				fs := root.Descriptor().Fields()
				has := func(n string) bool { return k == len(names) || names[k] == n }
				subOf := func(md protoreflect.MessageDescriptor, i int32) protoreflect.Message {
					sm := dynamicpb.NewMessage(md)
					sf := sm.Descriptor().Fields()
					sm.Set(sf.ByName("z"), protoreflect.ValueOfInt32(7+i))
					sm.Set(sf.ByName("a"), protoreflect.ValueOfString("sub"))
					sm.Set(sf.ByName("m"), protoreflect.ValueOfInt64(-5-int64(i)))
					sm.Set(sf.ByName("y"), protoreflect.ValueOfString("why"))
					return sm
				}
				if has("id") {
					root.Set(fs.ByName("id"), protoreflect.ValueOfString("r-1"))
				}
				if has("trace") {
					root.Set(fs.ByName("trace"), protoreflect.ValueOfString("t-9"))
				}
				if has("count") {
					root.Set(fs.ByName("count"), protoreflect.ValueOfInt32(7))
				}
				if has("shard") {
					root.Set(fs.ByName("shard"), protoreflect.ValueOfUint32(3))
				}
				if has("labels") {
					l := root.Mutable(fs.ByName("labels")).List()
					l.Append(protoreflect.ValueOfString("a"))
					l.Append(protoreflect.ValueOfString("b"))
				}
				if has("inner") {
					root.Set(fs.ByName("inner"), protoreflect.ValueOfMessage(subOf(fs.ByName("inner").Message(), 0)))
				}
				if has("delta") {
					root.Set(fs.ByName("delta"), protoreflect.ValueOfInt32(-4))
				}
				if has("tags") {
					m := root.Mutable(fs.ByName("tags")).Map()
					m.Set(protoreflect.ValueOfString("k").MapKey(), protoreflect.ValueOfInt32(11))
				}
				if has("subs") {
					l := root.Mutable(fs.ByName("subs")).List()
					l.Append(protoreflect.ValueOfMessage(subOf(fs.ByName("subs").Message(), 1)))
					l.Append(protoreflect.ValueOfMessage(subOf(fs.ByName("subs").Message(), 2)))
				}
				return root
			}}
		if !yield(c) {
			return false
		}
	}
	return true
}

func congruentCases(yield func(*ConvCase) bool) bool {
	prog := CongruentProgram()
	for _, which := range []string{"rs+s", "m+b", "rm+sm", "rs+rs2", "all"} {
		which := which
		has := func(n string) bool {
			if which == "all" {
				return true
			}
			for _, x := range strings.Split(which, "+") {
				if x == n {
					return true
				}
			}
			return false
		}
		c := &ConvCase{Prog: prog, What: "fields with congruent numbers: " + which, Focus: "same-first-tag-byte",
			Build: func(ref *Ref) protoreflect.Message {
				root := dynamicpb.NewMessage(ref.Msg(Pkg + ".T"))
				fs := root.Descriptor().Fields()
				subOf := func(a int32) protoreflect.Message {
					sm := dynamicpb.NewMessage(fs.ByName("sm").Message())
					sm.Set(sm.Descriptor().Fields().ByName("a"), protoreflect.ValueOfInt32(a))
					return sm
				}
				if has("rs") {
					l := root.Mutable(fs.ByName("rs")).List()
					l.Append(protoreflect.ValueOfString("a"))
					l.Append(protoreflect.ValueOfString("b"))
				}
				if has("s") {
					root.Set(fs.ByName("s"), protoreflect.ValueOfString("hello"))
				}
				if has("m") {
					mp := root.Mutable(fs.ByName("m")).Map()
					mp.Set(protoreflect.ValueOfString("k").MapKey(), protoreflect.ValueOfInt32(1))
					mp.Set(protoreflect.ValueOfString("j").MapKey(), protoreflect.ValueOfInt32(2))
				}
				if has("b") {
					root.Set(fs.ByName("b"), protoreflect.ValueOfBytes([]byte{0x0a, 1, 'x', 0x10, 7}))
				}
				if has("rm") {
					l := root.Mutable(fs.ByName("rm")).List()
					l.Append(protoreflect.ValueOfMessage(subOf(1)))
					l.Append(protoreflect.ValueOfMessage(subOf(2)))
				}
				if has("sm") {
					root.Set(fs.ByName("sm"), protoreflect.ValueOfMessage(subOf(3)))
				}
				if has("rs2") {
					root.Mutable(fs.ByName("rs2")).List().Append(protoreflect.ValueOfString("c"))
				}
				if which == "all" {
					root.Set(fs.ByName("lo"), protoreflect.ValueOfInt32(5))
				}
				return root
			}}
		if !yield(c) {
			return false
		}
	}
	return true
}

// ---- scope -----------------------------------------------------------------------------------------

// ScopeGroups lists the groups of the shared conversion scope.
func ScopeGroups(tier string) []string {
	g := append([]string{}, valueGroups...)
	g = append(g, "presence", "jsonnames", "recursion", "samename", "congruent", "explicit-presence", "high-unordered")
	g = append(g, structGroups()...)
	return g
}

// ScopeEnumerate yields the cases of one shared group, simplest first.
func ScopeEnumerate(tier, group string, yield func(*ConvCase) bool) bool {
	Deep = tier == "thorough"
	switch {
	case strings.HasPrefix(group, "value/"):
		return valueCases(tier, group, yield)
	case strings.HasPrefix(group, "struct/"):
		return structCases(tier, group, yield)
	case group == "presence":
		return presenceCases(yield)
	case group == "jsonnames":
		return jsonNameCases(yield)
	case group == "recursion":
		return recursionCases(tier, yield)
	case group == "samename":
		return sameNameCases(yield)
	case group == "congruent":
		return congruentCases(yield)
	case group == "high-unordered":
		return highUnorderedCases(yield)
	case group == "explicit-presence":
		return explicitPresenceCases(yield)
	}
	panic("harness: unknown scope group " + group)
}
