package pj

import (
	"bytes"
	"encoding/base64"
	"encoding/json"
	"fmt"
	"io"
	"math"
	"math/big"
	"sort"
	"strconv"
	"strings"

	"google.golang.org/protobuf/reflect/protoreflect"
)

// ---------------------------------------------------------------------------------------------
// JSON reader: encoding/json tokens (UseNumber), keeping member order and duplicate keys.

// JNode kinds: 'o' object, 'a' array, 's' string, 'n' number, 'b' bool, 'z' null.
type JNode struct {
	T    byte
	S    string // string value / number literal
	B    bool
	Arr  []*JNode
	Keys []string
	Vals []*JNode
}

// ParseJSON: syntactic validity is decided by encoding/json (json.Valid + Decoder); exactly one value.
func ParseJSON(b []byte) (*JNode, error) {
	if !json.Valid(b) {
		// get the decoder's message for the detail text
		var x interface{}
		err := json.Unmarshal(b, &x)
		if err == nil {
			err = fmt.Errorf("json.Valid reports false")
		}
		return nil, err
	}
	d := json.NewDecoder(bytes.NewReader(b))
	d.UseNumber()
	n, err := readNode(d)
	if err != nil {
		return nil, err
	}
	if _, err := d.Token(); err != io.EOF {
		return nil, fmt.Errorf("trailing data after the JSON value")
	}
	return n, nil
}

func readNode(d *json.Decoder) (*JNode, error) {
	t, err := d.Token()
	if err != nil {
		return nil, err
	}
	switch v := t.(type) {
	case json.Delim:
		switch v {
		case '{':
			n := &JNode{T: 'o'}
			for d.More() {
				kt, err := d.Token()
				if err != nil {
					return nil, err
				}
				k, ok := kt.(string)
				if !ok {
					return nil, fmt.Errorf("object key is not a string")
				}
				c, err := readNode(d)
				if err != nil {
					return nil, err
				}
				n.Keys = append(n.Keys, k)
				n.Vals = append(n.Vals, c)
			}
			_, err := d.Token()
			return n, err
		case '[':
			n := &JNode{T: 'a'}
			for d.More() {
				c, err := readNode(d)
				if err != nil {
					return nil, err
				}
				n.Arr = append(n.Arr, c)
			}
			_, err := d.Token()
			return n, err
		}
		return nil, fmt.Errorf("unexpected delimiter %v", v)
	case string:
		return &JNode{T: 's', S: v}, nil
	case json.Number:
		return &JNode{T: 'n', S: string(v)}, nil
	case bool:
		return &JNode{T: 'b', B: v}, nil
	case nil:
		return &JNode{T: 'z'}, nil
	}
	return nil, fmt.Errorf("unexpected token %v", t)
}

func (n *JNode) kindName() string {
	switch n.T {
	case 'o':
		return "object"
	case 'a':
		return "array"
	case 's':
		return "string"
	case 'n':
		return "number"
	case 'b':
		return "bool"
	}
	return "null"
}

// ---------------------------------------------------------------------------------------------
// C08 oracle: does a JSON tree denote exactly the reference-decoded message?

// Diff is one disagreement; Outcome is a coarse class used in signatures.
type Diff struct {
	Outcome string
	Detail  string
}

// JOpts are the conversion options that change the documented JSON form.
type JOpts struct {
	Int642String bool
}

type cmp struct {
	o     JOpts
	diffs []Diff
}

func (c *cmp) add(outcome, format string, a ...interface{}) {
	if len(c.diffs) < 8 {
		c.diffs = append(c.diffs, Diff{outcome, fmt.Sprintf(format, a...)})
	}
}

// CompareJSON checks the statement of C08 for one output: an object keyed by the fields' JSON names whose
// values equal the reference-decoded values.
func CompareJSON(n *JNode, m protoreflect.Message, o JOpts) []Diff {
	c := &cmp{o: o}
	c.message(n, m, "$")
	return c.diffs
}

func (c *cmp) message(n *JNode, m protoreflect.Message, path string) {
	if n.T != 'o' {
		c.add("message-not-an-object", "%s: message rendered as JSON %s", path, n.kindName())
		return
	}
	fields := m.Descriptor().Fields()
	seen := map[string]bool{}
	for i, k := range n.Keys {
		if seen[k] {
			c.add("duplicate-key", "%s: key %q occurs twice", path, k)
			continue
		}
		seen[k] = true
		fd := fields.ByJSONName(k)
		if fd == nil {
			if fields.ByName(protoreflect.Name(k)) != nil {
				c.add("keyed-by-field-name", "%s: member %q is keyed by the field name, not the JSON name", path, k)
			} else {
				c.add("undeclared-key", "%s: member %q is not the JSON name of any field", path, k)
			}
			continue
		}
		c.field(n.Vals[i], fd, m, path+"."+k)
	}
	for i := 0; i < fields.Len(); i++ {
		fd := fields.Get(i)
		if m.Has(fd) && !seen[fd.JSONName()] {
			c.add("member-missing", "%s: populated field %s (JSON name %q) has no member", path, fd.Name(), fd.JSONName())
		}
	}
}

func (c *cmp) field(n *JNode, fd protoreflect.FieldDescriptor, m protoreflect.Message, path string) {
	v := m.Get(fd)
	switch {
	case fd.IsMap():
		if n.T != 'o' {
			c.add("map-not-an-object", "%s: map rendered as JSON %s", path, n.kindName())
			return
		}
		mp := v.Map()
		seen := map[string]bool{}
		for i, k := range n.Keys {
			if seen[k] {
				c.add("duplicate-key", "%s: map key %q occurs twice", path, k)
				continue
			}
			seen[k] = true
			mk, ok := parseMapKey(fd.MapKey().Kind(), k)
			if !ok {
				c.add("map-key-differs", "%s: key %q is not the stringified form of a %s", path, k, fd.MapKey().Kind())
				continue
			}
			if !mp.Has(mk) {
				c.add("map-key-differs", "%s: key %q is not a key of the message's map (%s)", path, k, mapKeys(fd, mp))
				continue
			}
			c.single(n.Vals[i], fd.MapValue(), mp.Get(mk), path+"["+k+"]")
		}
		if len(seen) != mp.Len() {
			c.add("map-size-differs", "%s: %d members, the map has %d entries (%s)", path, len(seen), mp.Len(), mapKeys(fd, mp))
		}
	case fd.IsList():
		if n.T != 'a' {
			c.add("list-not-an-array", "%s: repeated field rendered as JSON %s", path, n.kindName())
			return
		}
		l := v.List()
		if len(n.Arr) != l.Len() {
			c.add("array-length-differs", "%s: %d elements, the field has %d", path, len(n.Arr), l.Len())
			return
		}
		for i, e := range n.Arr {
			c.single(e, fd, l.Get(i), fmt.Sprintf("%s[%d]", path, i))
		}
	default:
		if fd.Kind() == Message && !m.Has(fd) {
			c.add("member-for-absent-message", "%s: member present but the message field is not set", path)
			return
		}
		c.single(n, fd, v, path)
	}
}

func mapKeys(fd protoreflect.FieldDescriptor, mp protoreflect.Map) string {
	var ks []string
	mp.Range(func(k protoreflect.MapKey, _ protoreflect.Value) bool {
		ks = append(ks, k.String())
		return true
	})
	sort.Strings(ks)
	return strings.Join(ks, ",")
}

func parseMapKey(k Kind, s string) (protoreflect.MapKey, bool) {
	switch k {
	case String:
		return protoreflect.ValueOfString(s).MapKey(), true
	case Bool:
		switch s {
		case "true":
			return protoreflect.ValueOfBool(true).MapKey(), true
		case "false":
			return protoreflect.ValueOfBool(false).MapKey(), true
		}
		return protoreflect.MapKey{}, false
	case Int32, Sint32, Sfixed32:
		x, err := strconv.ParseInt(s, 10, 32)
		return protoreflect.ValueOfInt32(int32(x)).MapKey(), err == nil
	case Int64, Sint64, Sfixed64:
		x, err := strconv.ParseInt(s, 10, 64)
		return protoreflect.ValueOfInt64(x).MapKey(), err == nil
	case Uint32, Fixed32:
		x, err := strconv.ParseUint(s, 10, 32)
		return protoreflect.ValueOfUint32(uint32(x)).MapKey(), err == nil
	case Uint64, Fixed64:
		x, err := strconv.ParseUint(s, 10, 64)
		return protoreflect.ValueOfUint64(x).MapKey(), err == nil
	}
	return protoreflect.MapKey{}, false
}

func ratOf(s string) (*big.Rat, bool) {
	r, ok := new(big.Rat).SetString(s)
	return r, ok
}

// single compares one element (scalar, enum or message).
func (c *cmp) single(n *JNode, fd protoreflect.FieldDescriptor, v protoreflect.Value, path string) {
	k := fd.Kind()
	switch {
	case k == Message:
		c.message(n, v.Message(), path)
	case IsInt(k):
		var want *big.Rat
		if IsUnsigned(k) {
			want = new(big.Rat).SetInt(new(big.Int).SetUint64(v.Uint()))
		} else {
			want = new(big.Rat).SetInt64(v.Int())
		}
		lit := n.S
		switch n.T {
		case 'n':
			if k == Int64 && c.o.Int642String {
				c.add("int64-not-a-string-under-Int642String", "%s: int64 rendered as number %s although Int642String is set", path, lit)
				return
			}
		case 's':
			if !(Is64(k) && c.o.Int642String) {
				c.add("wrong-json-kind", "%s: %s rendered as JSON string %q", path, k, lit)
				return
			}
		default:
			c.add("wrong-json-kind", "%s: %s rendered as JSON %s", path, k, n.kindName())
			return
		}
		got, ok := ratOf(lit)
		if !ok || got.Cmp(want) != 0 {
			c.add("value-differs", "%s: %s value %s rendered as %s", path, k, want.RatString(), lit)
		}
	case k == Bool:
		if n.T != 'b' {
			c.add("wrong-json-kind", "%s: bool rendered as JSON %s", path, n.kindName())
		} else if n.B != v.Bool() {
			c.add("value-differs", "%s: bool %v rendered as %v", path, v.Bool(), n.B)
		}
	case k == Float || k == Double:
		want := v.Float()
		if math.IsNaN(want) || math.IsInf(want, 0) {
			// not representable as a JSON number: the proto3 JSON spellings are accepted
			ok := n.T == 's' && ((math.IsNaN(want) && n.S == "NaN") || (math.IsInf(want, 1) && n.S == "Infinity") || (math.IsInf(want, -1) && n.S == "-Infinity"))
			if !ok {
				c.add("value-differs", "%s: %s %v rendered as JSON %s %q", path, k, want, n.kindName(), n.S)
			}
			return
		}
		if n.T != 'n' {
			c.add("wrong-json-kind", "%s: %s rendered as JSON %s", path, k, n.kindName())
			return
		}
		got, err := strconv.ParseFloat(n.S, 64)
		if err != nil {
			c.add("value-differs", "%s: %s %v rendered as %s (%v)", path, k, want, n.S, err)
			return
		}
		if k == Float {
			got = float64(float32(got)) // exact at the precision of the field
		}
		if got != want {
			c.add("value-differs", "%s: %s %v (bits %016x) rendered as %s", path, k, want, math.Float64bits(want), n.S)
		}
	case k == String:
		if n.T != 's' {
			c.add("wrong-json-kind", "%s: string rendered as JSON %s", path, n.kindName())
		} else if n.S != v.String() {
			c.add("value-differs", "%s: string %q rendered as %q", path, v.String(), n.S)
		}
	case k == Bytes:
		if n.T != 's' {
			c.add("wrong-json-kind", "%s: bytes rendered as JSON %s", path, n.kindName())
			return
		}
		got, err := base64.StdEncoding.DecodeString(n.S)
		if err != nil {
			got, err = base64.RawStdEncoding.DecodeString(n.S)
		}
		if err != nil || !bytes.Equal(got, v.Bytes()) {
			c.add("value-differs", "%s: bytes %x rendered as %q", path, v.Bytes(), n.S)
		}
	case k == Enum:
		switch n.T {
		case 'n':
			got, ok := ratOf(n.S)
			if !ok || got.Cmp(new(big.Rat).SetInt64(int64(v.Enum()))) != 0 {
				c.add("value-differs", "%s: enum number %d rendered as %s", path, v.Enum(), n.S)
			}
		case 's':
			ev := fd.Enum().Values().ByNumber(v.Enum())
			if ev == nil || string(ev.Name()) != n.S {
				c.add("value-differs", "%s: enum number %d rendered as %q", path, v.Enum(), n.S)
			}
		default:
			c.add("wrong-json-kind", "%s: enum rendered as JSON %s", path, n.kindName())
		}
	}
}

// ---------------------------------------------------------------------------------------------
// JSON renderer of a reference message (inputs of C09). Written for the harness: deterministic
// (declaration order, map entries sorted by key), numbers as bare decimal literals, bytes as padded
// standard base64, enums as numbers, map keys stringified — the forms dynamicgo's own p2j emits/documents.

type ROpts struct {
	JSONNames bool         // address members by JSON name instead of field name
	Reverse   bool         // members in reverse declaration order
	Defaults  bool         // also write members for unpopulated fields: scalar defaults, [] and {} (message fields stay absent)
	Feat      *DocFeatures // if set, filled with syntactic features of the rendered document
	// Members, if set, may rewrite the member list ("key":value strings) of every message object.
	Members func(m protoreflect.Message, depth int, members []string) []string
}

// DocFeatures are document features that select a trigger class of their own.
type DocFeatures struct {
	EmptyMessage bool // a message value rendered as {} (root excluded)
	EmptyMap     bool // a map rendered as {}
	EmptyList    bool // a repeated field rendered as []
}

func RenderJSON(m protoreflect.Message, o ROpts) []byte {
	var sb strings.Builder
	renderMsg(&sb, m, o, 0)
	return []byte(sb.String())
}

func QuoteJSON(s string) string {
	var sb strings.Builder
	sb.WriteByte('"')
	for i := 0; i < len(s); i++ {
		c := s[i]
		switch {
		case c == '"':
			sb.WriteString(`\"`)
		case c == '\\':
			sb.WriteString(`\\`)
		case c == '\n':
			sb.WriteString(`\n`)
		case c == '\r':
			sb.WriteString(`\r`)
		case c == '\t':
			sb.WriteString(`\t`)
		case c < 0x20:
			fmt.Fprintf(&sb, `\u%04x`, c)
		default:
			sb.WriteByte(c)
		}
	}
	sb.WriteByte('"')
	return sb.String()
}

func renderMsg(sb *strings.Builder, m protoreflect.Message, o ROpts, depth int) {
	fields := m.Descriptor().Fields()
	var members []string
	for i := 0; i < fields.Len(); i++ {
		fd := fields.Get(i)
		if !m.Has(fd) {
			// (a member with explicit presence - message, proto3 optional, oneof member - would become present)
			if !o.Defaults || (fd.Kind() == Message && !fd.IsList() && !fd.IsMap()) || fd.HasPresence() {
				continue
			}
		}
		key := string(fd.Name())
		if o.JSONNames {
			key = fd.JSONName()
		}
		var vb strings.Builder
		renderField(&vb, fd, m.Get(fd), o, depth)
		members = append(members, QuoteJSON(key)+":"+vb.String())
	}
	if o.Reverse {
		for i, j := 0, len(members)-1; i < j; i, j = i+1, j-1 {
			members[i], members[j] = members[j], members[i]
		}
	}
	if o.Members != nil {
		members = o.Members(m, depth, members)
	}
	if o.Feat != nil && depth > 0 && len(members) == 0 {
		o.Feat.EmptyMessage = true
	}
	sb.WriteByte('{')
	sb.WriteString(strings.Join(members, ","))
	sb.WriteByte('}')
}

// MapKeyString is the stringified form of a map key.
func MapKeyString(k Kind, v protoreflect.Value) string {
	switch k {
	case String:
		return v.String()
	case Bool:
		return strconv.FormatBool(v.Bool())
	case Uint32, Fixed32, Uint64, Fixed64:
		return strconv.FormatUint(v.Uint(), 10)
	}
	return strconv.FormatInt(v.Int(), 10)
}

func renderField(sb *strings.Builder, fd protoreflect.FieldDescriptor, v protoreflect.Value, o ROpts, depth int) {
	switch {
	case fd.IsMap():
		type kv struct {
			k protoreflect.MapKey
			v protoreflect.Value
		}
		var es []kv
		v.Map().Range(func(k protoreflect.MapKey, x protoreflect.Value) bool {
			es = append(es, kv{k, x})
			return true
		})
		kk := fd.MapKey().Kind()
		sort.Slice(es, func(i, j int) bool {
			a, b := es[i].k.Value(), es[j].k.Value()
			_ = depth
			switch kk {
			case String:
				return a.String() < b.String()
			case Bool:
				return !a.Bool() && b.Bool()
			case Uint32, Fixed32, Uint64, Fixed64:
				return a.Uint() < b.Uint()
			}
			return a.Int() < b.Int()
		})
		if o.Feat != nil && len(es) == 0 {
			o.Feat.EmptyMap = true
		}
		sb.WriteByte('{')
		for i, e := range es {
			if i > 0 {
				sb.WriteByte(',')
			}
			sb.WriteString(QuoteJSON(MapKeyString(kk, e.k.Value())))
			sb.WriteByte(':')
			renderSingle(sb, fd.MapValue(), e.v, o, depth)
		}
		sb.WriteByte('}')
	case fd.IsList():
		sb.WriteByte('[')
		l := v.List()
		if o.Feat != nil && l.Len() == 0 {
			o.Feat.EmptyList = true
		}
		for i := 0; i < l.Len(); i++ {
			if i > 0 {
				sb.WriteByte(',')
			}
			renderSingle(sb, fd, l.Get(i), o, depth)
		}
		sb.WriteByte(']')
	default:
		renderSingle(sb, fd, v, o, depth)
	}
}

// FloatLiteral renders a finite float64 as the shortest decimal that parses back to the same float64.
func FloatLiteral(f float64) string {
	if f == 0 && math.Signbit(f) {
		return "-0.0"
	}
	return strconv.FormatFloat(f, 'g', -1, 64)
}

func renderSingle(sb *strings.Builder, fd protoreflect.FieldDescriptor, v protoreflect.Value, o ROpts, depth int) {
	switch k := fd.Kind(); {
	case k == Message:
		renderMsg(sb, v.Message(), o, depth+1)
	case IsInt(k) && IsUnsigned(k):
		sb.WriteString(strconv.FormatUint(v.Uint(), 10))
	case IsInt(k):
		sb.WriteString(strconv.FormatInt(v.Int(), 10))
	case k == Bool:
		sb.WriteString(strconv.FormatBool(v.Bool()))
	case k == Float || k == Double:
		// float32 values are written with the exact float64 digits, so that a float64 parser followed by a
		// conversion to float32 reproduces the value without double rounding
		sb.WriteString(FloatLiteral(v.Float()))
	case k == String:
		sb.WriteString(QuoteJSON(v.String()))
	case k == Bytes:
		sb.WriteString(QuoteJSON(base64.StdEncoding.EncodeToString(v.Bytes())))
	case k == Enum:
		sb.WriteString(strconv.FormatInt(int64(v.Enum()), 10))
	}
}

// ---------------------------------------------------------------------------------------------
// Message equality (C09): proto3 semantics, NaN-aware, unknown fields count as a difference.

// DiffMsg returns "" when got denotes exactly want.
func DiffMsg(want, got protoreflect.Message, path string) string {
	if len(got.GetUnknown()) > 0 {
		return fmt.Sprintf("%s: output carries unknown fields (raw %x): a field was written with a number or wire type the schema does not declare", path, got.GetUnknown())
	}
	fields := want.Descriptor().Fields()
	for i := 0; i < fields.Len(); i++ {
		fd := fields.Get(i)
		gfd := got.Descriptor().Fields().ByNumber(fd.Number())
		p := path + "." + string(fd.Name())
		a, b := want.Get(fd), got.Get(gfd)
		switch {
		case fd.IsMap():
			am, bm := a.Map(), b.Map()
			if am.Len() != bm.Len() {
				return fmt.Sprintf("%s: map has %d entries, want %d (got keys %s, want %s)", p, bm.Len(), am.Len(), mapKeys(gfd, bm), mapKeys(fd, am))
			}
			d := ""
			am.Range(func(k protoreflect.MapKey, av protoreflect.Value) bool {
				if !bm.Has(k) {
					d = fmt.Sprintf("%s: key %s missing (got keys %s)", p, k.String(), mapKeys(gfd, bm))
					return false
				}
				d = diffSingle(fd.MapValue(), av, bm.Get(k), p+"["+k.String()+"]")
				return d == ""
			})
			if d != "" {
				return d
			}
		case fd.IsList():
			al, bl := a.List(), b.List()
			if al.Len() != bl.Len() {
				return fmt.Sprintf("%s: list has %d elements, want %d", p, bl.Len(), al.Len())
			}
			for j := 0; j < al.Len(); j++ {
				if d := diffSingle(fd, al.Get(j), bl.Get(j), fmt.Sprintf("%s[%d]", p, j)); d != "" {
					return d
				}
			}
		default:
			if fd.Kind() == Message {
				if want.Has(fd) != got.Has(gfd) {
					return fmt.Sprintf("%s: message presence is %v, want %v", p, got.Has(gfd), want.Has(fd))
				}
				if !want.Has(fd) {
					continue
				}
			}
			// members with explicit presence (proto3 optional, oneof members): present-with-zero is not absent
			if fd.Kind() != Message && fd.HasPresence() && want.Has(fd) != got.Has(gfd) {
				return fmt.Sprintf("%s: presence is %v, want %v", p, got.Has(gfd), want.Has(fd))
			}
			if d := diffSingle(fd, a, b, p); d != "" {
				return d
			}
		}
	}
	return ""
}

func diffSingle(fd protoreflect.FieldDescriptor, a, b protoreflect.Value, p string) string {
	switch k := fd.Kind(); {
	case k == Message:
		return DiffMsg(a.Message(), b.Message(), p)
	case k == Float || k == Double:
		x, y := a.Float(), b.Float()
		if x == y || (math.IsNaN(x) && math.IsNaN(y)) {
			return ""
		}
		return fmt.Sprintf("%s: %v, want %v", p, y, x)
	case k == Bytes:
		if bytes.Equal(a.Bytes(), b.Bytes()) {
			return ""
		}
		return fmt.Sprintf("%s: bytes %x, want %x", p, b.Bytes(), a.Bytes())
	case k == String:
		if a.String() == b.String() {
			return ""
		}
		return fmt.Sprintf("%s: %q, want %q", p, b.String(), a.String())
	case k == Bool:
		if a.Bool() == b.Bool() {
			return ""
		}
	case k == Enum:
		if a.Enum() == b.Enum() {
			return ""
		}
	case IsUnsigned(k):
		if a.Uint() == b.Uint() {
			return ""
		}
	default:
		if a.Int() == b.Int() {
			return ""
		}
	}
	return fmt.Sprintf("%s: %v, want %v", p, b.Interface(), a.Interface())
}
