package pj

import (
	"fmt"
	"sync"

	dproto "github.com/cloudwego/dynamicgo/proto"
	"google.golang.org/protobuf/proto"
	"google.golang.org/protobuf/reflect/protoreflect"
	"google.golang.org/protobuf/types/dynamicpb"
)

// Marshal encodes with the reference implementation (deterministic: fields by number, map entries by key).
func Marshal(m protoreflect.Message) []byte {
	b, err := proto.MarshalOptions{Deterministic: true}.Marshal(m.Interface())
	if err != nil {
		panic(fmt.Sprintf("harness: reference Marshal failed: %v", err))
	}
	return b
}

// Unmarshal decodes with the reference implementation.
func Unmarshal(md protoreflect.MessageDescriptor, b []byte) (protoreflect.Message, error) {
	m := dynamicpb.NewMessage(md)
	if err := (proto.UnmarshalOptions{}).Unmarshal(b, m); err != nil {
		return nil, err
	}
	return m, nil
}

// Compiled is a program compiled by both sides: the reference and dynamicgo (input type of method M).
type Compiled struct {
	Ref  *Ref
	In   *dproto.TypeDescriptor
	Out  *dproto.TypeDescriptor
	Err  error // dynamicgo's parse error, if any
	Root protoreflect.MessageDescriptor
}

var (
	compMu   sync.Mutex
	compMemo = map[string]*Compiled{}
)

// Compile memoises per process (programs are identified by name). Call only from Case.Run / Enumerate in a worker.
func Compile(p *Program) *Compiled {
	compMu.Lock()
	defer compMu.Unlock()
	if c, ok := compMemo[p.Name]; ok {
		return c
	}
	if len(compMemo) > 4096 {
		compMemo = map[string]*Compiled{}
	}
	ref, err := CompileRef(p)
	if err != nil {
		panic("harness: " + err.Error())
	}
	c := &Compiled{Ref: ref}
	c.In, c.Out, c.Err = DynamicgoIO(p, "M")
	compMemo[p.Name] = c
	return c
}
