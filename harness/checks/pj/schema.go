// Package pj holds the helpers shared by the protobuf<->JSON and protobuf-descriptor checks
// (C15, C08, C09): a tiny proto3 schema model with a text generator, descriptor construction
// through dynamicgo (code under test) and through jhump/protoreflect + google.golang.org/protobuf
// (the reference implementation), a value model with builders, a JSON renderer written for the
// harness (never the library's, never protojson's) and a JSON reader that keeps member order and
// duplicate keys.
package pj

import (
	"fmt"
	"sort"
	"strings"

	"google.golang.org/protobuf/reflect/protoreflect"
)

// Kind is protoreflect.Kind (dynamicgo's proto.ProtoKind is the same type).
type Kind = protoreflect.Kind

const (
	Double   = protoreflect.DoubleKind
	Float    = protoreflect.FloatKind
	Int64    = protoreflect.Int64Kind
	Uint64   = protoreflect.Uint64Kind
	Int32    = protoreflect.Int32Kind
	Fixed64  = protoreflect.Fixed64Kind
	Fixed32  = protoreflect.Fixed32Kind
	Bool     = protoreflect.BoolKind
	String   = protoreflect.StringKind
	Message  = protoreflect.MessageKind
	Bytes    = protoreflect.BytesKind
	Uint32   = protoreflect.Uint32Kind
	Enum     = protoreflect.EnumKind
	Sfixed32 = protoreflect.Sfixed32Kind
	Sfixed64 = protoreflect.Sfixed64Kind
	Sint32   = protoreflect.Sint32Kind
	Sint64   = protoreflect.Sint64Kind
)

// ScalarKinds are the 15 proto3 scalar kinds in a fixed, simplest-first order.
var ScalarKinds = []Kind{Int32, Int64, Uint32, Uint64, Sint32, Sint64, Fixed32, Fixed64, Sfixed32, Sfixed64, Bool, Float, Double, String, Bytes}

// MapKeyKinds are all 12 kinds proto3 allows as a map key.
var MapKeyKinds = []Kind{Int32, Int64, Uint32, Uint64, Sint32, Sint64, Fixed32, Fixed64, Sfixed32, Sfixed64, Bool, String}

// KindName is the proto source spelling of a scalar kind.
func KindName(k Kind) string { return k.String() }

// Is64 tells whether k is a 64-bit integer kind.
func Is64(k Kind) bool {
	switch k {
	case Int64, Uint64, Sint64, Fixed64, Sfixed64:
		return true
	}
	return false
}

// IsUnsigned tells whether k is an unsigned integer kind.
func IsUnsigned(k Kind) bool {
	switch k {
	case Uint32, Uint64, Fixed32, Fixed64:
		return true
	}
	return false
}

// IsInt tells whether k is an integer kind (enum excluded).
func IsInt(k Kind) bool {
	switch k {
	case Int32, Int64, Uint32, Uint64, Sint32, Sint64, Fixed32, Fixed64, Sfixed32, Sfixed64:
		return true
	}
	return false
}

// Packable tells whether a repeated field of this kind may be packed.
func Packable(k Kind) bool { return k != String && k != Bytes && k != Message }

// Field is one field declaration.
type Field struct {
	Name   string
	Num    int
	Kind   Kind   // value kind (for maps: the kind of the map value)
	Type   string // type reference as written, for Enum / Message kinds
	Rep    bool
	MapKey Kind   // != 0: map<MapKey, Kind/Type>
	JSON   string // explicit json_name option ("" = none)
	Packed string // "", "true", "false": explicit packed option
	Extra  string // a further field option, verbatim (e.g. "deprecated = true")
	Opt    bool   // proto3 `optional` (explicit presence)
	Oneof  string // member of the oneof of that name (consecutive members form one declaration)
}

// Enum declaration.
type EnumDecl struct {
	Name   string
	Values []EnumValue
}
type EnumValue struct {
	Name string
	Num  int32
}

// Msg is a message declaration (possibly with nested declarations).
type Msg struct {
	Name   string
	Fields []*Field
	Msgs   []*Msg
	Enums  []*EnumDecl
}

// Method / Service declarations.
type Method struct {
	Name    string
	In, Out string
	CS, SS  bool // client / server streaming
}
type Service struct {
	Name    string
	Methods []Method
}

// File is one proto3 source file.
type File struct {
	Path    string
	Pkg     string
	Imports []string
	Msgs    []*Msg
	Enums   []*EnumDecl
	Svcs    []*Service
}

func (f *Field) typeText() string {
	t := f.Type
	if f.Kind != Enum && f.Kind != Message {
		t = KindName(f.Kind)
	}
	return t
}

func (f *Field) text() string {
	var sb strings.Builder
	switch {
	case f.MapKey != 0:
		fmt.Fprintf(&sb, "map<%s, %s> ", KindName(f.MapKey), f.typeText())
	case f.Rep:
		fmt.Fprintf(&sb, "repeated %s ", f.typeText())
	case f.Opt:
		fmt.Fprintf(&sb, "optional %s ", f.typeText())
	default:
		fmt.Fprintf(&sb, "%s ", f.typeText())
	}
	fmt.Fprintf(&sb, "%s = %d", f.Name, f.Num)
	var opts []string
	if f.JSON != "" {
		opts = append(opts, fmt.Sprintf("json_name = %q", f.JSON))
	}
	if f.Packed != "" {
		opts = append(opts, "packed = "+f.Packed)
	}
	if f.Extra != "" {
		opts = append(opts, f.Extra)
	}
	if len(opts) > 0 {
		sb.WriteString(" [" + strings.Join(opts, ", ") + "]")
	}
	sb.WriteString(";")
	return sb.String()
}

func (e *EnumDecl) text(ind string, sb *strings.Builder) {
	fmt.Fprintf(sb, "%senum %s {\n", ind, e.Name)
	for _, v := range e.Values {
		fmt.Fprintf(sb, "%s  %s = %d;\n", ind, v.Name, v.Num)
	}
	fmt.Fprintf(sb, "%s}\n", ind)
}

func (m *Msg) text(ind string, sb *strings.Builder) {
	fmt.Fprintf(sb, "%smessage %s {\n", ind, m.Name)
	for _, e := range m.Enums {
		e.text(ind+"  ", sb)
	}
	for _, n := range m.Msgs {
		n.text(ind+"  ", sb)
	}
	open := ""
	for _, f := range m.Fields {
		if f.Oneof != open {
			if open != "" {
				fmt.Fprintf(sb, "%s  }\n", ind)
			}
			if f.Oneof != "" {
				fmt.Fprintf(sb, "%s  oneof %s {\n", ind, f.Oneof)
			}
			open = f.Oneof
		}
		if open != "" {
			fmt.Fprintf(sb, "%s    %s\n", ind, f.text())
		} else {
			fmt.Fprintf(sb, "%s  %s\n", ind, f.text())
		}
	}
	if open != "" {
		fmt.Fprintf(sb, "%s  }\n", ind)
	}
	fmt.Fprintf(sb, "%s}\n", ind)
}

// Text renders the file as proto3 source.
func (f *File) Text() string {
	var sb strings.Builder
	sb.WriteString("syntax = \"proto3\";\n")
	if f.Pkg != "" {
		fmt.Fprintf(&sb, "package %s;\n", f.Pkg)
	}
	for _, i := range f.Imports {
		fmt.Fprintf(&sb, "import %q;\n", i)
	}
	for _, e := range f.Enums {
		e.text("", &sb)
	}
	for _, m := range f.Msgs {
		m.text("", &sb)
	}
	for _, s := range f.Svcs {
		fmt.Fprintf(&sb, "service %s {\n", s.Name)
		for _, m := range s.Methods {
			in, out := m.In, m.Out
			if m.CS {
				in = "stream " + in
			}
			if m.SS {
				out = "stream " + out
			}
			fmt.Fprintf(&sb, "  rpc %s (%s) returns (%s);\n", m.Name, in, out)
		}
		sb.WriteString("}\n")
	}
	return sb.String()
}

// Program is a set of files; Main is the one handed to the parser.
type Program struct {
	Name  string
	Main  string
	Files []*File
	// ImportDirs: directories searched after "" (the documented order) when an import is resolved
	ImportDirs []string
}

// Sources returns path -> text.
func (p *Program) Sources() map[string]string {
	m := map[string]string{}
	for _, f := range p.Files {
		m[f.Path] = f.Text()
	}
	return m
}

// SourceDump renders all files for replay descriptions (deterministic order).
func (p *Program) SourceDump() string {
	src := p.Sources()
	var ks []string
	for k := range src {
		ks = append(ks, k)
	}
	sort.Strings(ks)
	var sb strings.Builder
	for _, k := range ks {
		fmt.Fprintf(&sb, "// ---- %s\n%s", k, src[k])
	}
	return sb.String()
}

// F is a shorthand constructor for a singular scalar field.
func F(name string, num int, k Kind) *Field { return &Field{Name: name, Num: num, Kind: k} }

// FM: singular message field, FE: singular enum field.
func FM(name string, num int, typ string) *Field {
	return &Field{Name: name, Num: num, Kind: Message, Type: typ}
}
func FE(name string, num int, typ string) *Field {
	return &Field{Name: name, Num: num, Kind: Enum, Type: typ}
}

// Repeated / Map modifiers.
func (f *Field) Repeated() *Field { g := *f; g.Rep = true; return &g }
func (f *Field) MapOf(key Kind) *Field {
	g := *f
	g.MapKey = key
	return &g
}
func (f *Field) WithJSON(j string) *Field { g := *f; g.JSON = j; return &g }
func (f *Field) Optional() *Field         { g := *f; g.Opt = true; return &g }
func (f *Field) InOneof(n string) *Field  { g := *f; g.Oneof = n; return &g }
// WithOption adds one more field option verbatim.
func (f *Field) WithOption(o string) *Field {
	g := *f
	g.Extra = o
	return &g
}

func (f *Field) WithPacked(p string) *Field {
	g := *f
	g.Packed = p
	return &g
}

// OneMethodService declares service Svc { rpc M(in) returns (out) }.
func OneMethodService(in, out string) *Service {
	return &Service{Name: "Svc", Methods: []Method{{Name: "M", In: in, Out: out}}}
}
