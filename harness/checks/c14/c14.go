// Package c14: Thrift descriptors mirror the IDL and lookups are exact.
//
// Part A (groups desc/...): generated IDL programs x the full product of the parse options the property
// names; the parsed ServiceDescriptor is walked against the generator's object graph (ref/idlref, which is
// itself validated against thriftgo's parser AST at self-check).
// Part B (groups ids/..., keys-go/..., keys-native/...): exhaustive FieldById sweep over 0..65535 and a
// constructed key alphabet through FieldByKey and through the native converter (j2t on {"<key>":1}).
package c14

import (
	"context"
	"fmt"
	"sort"
	"unicode/utf8"

	"github.com/cloudwego/dynamicgo/conv"
	"github.com/cloudwego/dynamicgo/conv/j2t"
	"github.com/cloudwego/dynamicgo/meta"
	"github.com/cloudwego/dynamicgo/thrift"
	"github.com/cloudwego/dynamicgo/verifhook"

	"verif/engine/core"
	. "verif/ref/idlref"
	"verif/ref/tbin"
)

type check struct{}

func init() { core.Register(check{}) }

func (check) ID() string    { return "C14" }
func (check) Level() string { return "exploration" }
func (check) Rule() string {
	return "bounded-exhaustive, simplest first. (A) every generated IDL program (scalars, containers, typedef chains, enums, unions/exceptions, self/mutual recursion, nested includes with equal struct names, same-file / cross-file / two-level service inheritance, multi-service, oneway/void/throws, default literals of every scalar kind incl. const/enum references, aliases, thrift/base in three declaration orders, 10 name families) x every combination of MapFieldWay(3) x ParseServiceMode(3) x ServiceName(none, each declared, undeclared) x ParseFunctionMode(3) x ParseEnumAsInt64 x SetOptionalBitmap x UseDefaultValue x EnableThriftBase x ApiBodyFastPath: the whole descriptor graph compared with the object graph. (B) for every struct descriptor reachable in every program: FieldById for every id 0..65535 (blocks of 4096); FieldByKey for the whole key alphabet (declared, every proper prefix, one-byte extensions, every single-position substitution over 12 bytes incl. 0x00/0x7f/0x80/0xff/2-byte rune and the neighbours of the declared byte, deletions, empty, 1023..4097 bytes, constructed full-hash DJB collisions, same-slot collisions, one key per hash slot, hash-0 keys) x MapFieldWay(3); for the name families the same keys (valid UTF-8 ones) through native j2t with DisallowUnknownField on and off in each of avx2/avx/sse. A case is non-trivial if it is distinct by (program, options) resp. (struct, map way, flavour, key) resp. (struct, id block). Later additions: same-name base services, api.body structs below containers, result-field keys, several methods over one request / response / exception type with different ids and names. Round 9: hash-mode family with a full 32-bit collision and nothing that forces the trie; every bit of Requires() belongs to an exposed field. Round 10: one constant as the default of fields of several types. Round 11: inheritance chain over two included files with a same-named struct nested in both."
}

func (check) Assumptions() []string {
	return []string{
		"generator object graph == IDL text: validated against thriftgo's parser AST + semantic resolution at self-check",
		"functions have exactly one argument and at most one exception (the library documents this restriction)",
		"default values are asserted for scalar-typed fields only (container defaults are documented as unsupported by the repository's tests)",
		"when two declared fields share a lookup key (alias == other field's name under MapFieldUseBoth) either of them is accepted",
		"CombineServices with the same function name reachable twice is not judged",
		"native lookups use keys that are valid UTF-8 (a JSON document cannot carry other keys); the portable build is not exercised",
	}
}

func (check) BudgetSeconds(tier string) int {
	if tier == "thorough" {
		return 1500
	}
	return 200
}

// ---- scope ---------------------------------------------------------------------------------------

type scope struct {
	progs  []*Program // part A programs followed by the family programs
	fams   []family
	nPartA int
	groups []groupDef
}

type groupDef struct {
	name    string
	kind    string // desc | ids | keys-go | keys-native
	prog    int
	mapWay  int
	svcMode int
	flavour string
}

var flavours = []string{"avx2", "avx", "sse"}

var theScope = map[string]*scope{}

func getScope(tier string) *scope {
	if s := theScope[tier]; s != nil {
		return s
	}
	s := &scope{}
	s.progs = partAPrograms(tier)
	s.nPartA = len(s.progs)
	s.fams = families(tier)
	for _, f := range s.fams {
		s.progs = append(s.progs, f.prog)
	}
	for pi, p := range s.progs {
		for m := 0; m < 3; m++ {
			for sm := 0; sm < 3; sm++ {
				s.groups = append(s.groups, groupDef{name: fmt.Sprintf("desc/%s/map=%d/svc=%d", p.Name, m, sm), kind: "desc", prog: pi, mapWay: m, svcMode: sm})
			}
		}
	}
	for pi, p := range s.progs {
		if p.DescOnly {
			continue
		}
		s.groups = append(s.groups, groupDef{name: "ids/" + p.Name, kind: "ids", prog: pi})
	}
	for pi, p := range s.progs {
		if p.DescOnly {
			continue
		}
		for m := 0; m < 3; m++ {
			s.groups = append(s.groups, groupDef{name: fmt.Sprintf("keys-go/%s/map=%d", p.Name, m), kind: "keys-go", prog: pi, mapWay: m})
		}
	}
	for fi := range s.fams {
		for m := 0; m < 3; m++ {
			for _, fl := range flavours {
				s.groups = append(s.groups, groupDef{name: fmt.Sprintf("keys-native/%s/map=%d/%s", s.fams[fi].prog.Name, m, fl), kind: "keys-native", prog: s.nPartA + fi, mapWay: m, flavour: fl})
			}
		}
	}
	theScope[tier] = s
	return s
}

func (check) Groups(tier string, seed int64) []string {
	var out []string
	for _, g := range getScope(tier).groups {
		out = append(out, g.name)
	}
	return out
}

// SelfCheck: every generated program is a valid IDL and thriftgo's AST says what the object graph says;
// the constructed keys have the hashes they are supposed to have. Does not call dynamicgo.
func (check) SelfCheck() error {
	for _, tier := range []string{"quick", "thorough"} {
		for _, p := range getScope(tier).progs {
			if err := Validate(p); err != nil {
				return err
			}
		}
	}
	for _, k := range HashZeroKeys {
		if DJB32(k) != 0 {
			return fmt.Errorf("DJB32(%q) = %d, want 0", k, DJB32(k))
		}
	}
	if DJB32("aaaaaab") != DJB32("aaaaabA") {
		return fmt.Errorf("declared collision pair does not collide")
	}
	if DJB32("") != 5381 || DJB32("a") != 5381*33+97 {
		return fmt.Errorf("DJB32 reference is wrong")
	}
	return nil
}

// ---- parsing (inside workers only, memoised) ------------------------------------------------------

type parsed struct {
	svc *thrift.ServiceDescriptor
	err error
	pan *core.PanicInfo
}

var parseMemo = map[string]*parsed{}

func parseProgram(p *Program, o optSet, memo bool) *parsed {
	key := p.Name + "|" + o.String()
	if memo {
		if r, ok := parseMemo[key]; ok {
			return r
		}
	}
	r := &parsed{}
	r.pan = core.Catch(func() {
		r.svc, r.err = o.thrift().NewDescritorFromContent(context.Background(), p.Main.Path, p.Main.Render(), p.IncludesMap(), false)
	})
	if memo {
		parseMemo[key] = r
	}
	return r
}

type caseDesc struct {
	Group   string            `json:"group"`
	Program string            `json:"program"`
	Options string            `json:"options,omitempty"`
	Struct  string            `json:"struct,omitempty"`
	Key     string            `json:"key,omitempty"`
	KeyHex  string            `json:"key_hex,omitempty"`
	IDs     string            `json:"ids,omitempty"`
	Main    string            `json:"main_idl,omitempty"`
	Incs    map[string]string `json:"includes,omitempty"`
}

func progDesc(p *Program, d caseDesc) func() interface{} {
	return func() interface{} {
		d.Program = p.Name
		d.Main = p.Main.Render()
		d.Incs = p.IncludesMap()
		return d
	}
}

func finish(r *core.Result, pi *core.PanicInfo, site, trig string) core.Result {
	if pi != nil {
		r.Class = "panic"
		r.Add(site+"|"+trig+"|panic@"+pi.Site+":"+core.PanicClass(pi.Val), "panic: %s\n%s", pi.Val, pi.Stack)
	}
	if len(r.Viol) > 0 && r.Class != "panic" {
		r.Class = "violation"
	}
	return *r
}

// ---- enumeration ----------------------------------------------------------------------------------

func (check) Enumerate(tier string, seed int64, group int, yield func(core.Case) bool) {
	s := getScope(tier)
	g := s.groups[group]
	p := s.progs[g.prog]
	switch g.kind {
	case "desc":
		enumDesc(g, p, yield)
	case "ids":
		enumIDs(g, p, yield)
	case "keys-go":
		enumKeys(g, p, nil, tier, yield)
	case "keys-native":
		fam := s.fams[g.prog-s.nPartA]
		enumKeys(g, p, &fam, tier, yield)
	}
}

func enumDesc(g groupDef, p *Program, yield func(core.Case) bool) {
	names := []string{""}
	for _, sv := range p.Main.Services {
		names = append(names, sv.Name)
	}
	names = append(names, "NoSuchService")
	bools := []bool{false, true}
	for _, name := range names {
		for fm := 0; fm < 3; fm++ {
			for _, e64 := range bools {
				for _, ob := range bools {
					for _, ud := range bools {
						for _, tb := range bools {
							for _, bf := range bools {
								o := optSet{MapWay: g.mapWay, SvcMode: g.svcMode, SvcName: name, FnMode: fm, EnumI64: e64, OptBits: ob, UseDef: ud, Base: tb, BodyFast: bf}
								c := core.Case{
									Tag:  "parse",
									Desc: progDesc(p, caseDesc{Group: g.name, Options: o.String()}),
									Run:  func() core.Result { return runDesc(p, o) },
								}
								if !yield(c) {
									return
								}
							}
						}
					}
				}
			}
		}
	}
}

func runDesc(p *Program, o optSet) core.Result {
	r := core.Result{Class: "ok", Key: p.Name + "|" + o.String()}
	pi := core.Catch(func() {
		fns, svcName, ok, ambiguous := expectedFuncs(p, o)
		pr := parseProgram(p, o, false)
		if pr.pan != nil {
			panic(pr.pan.Val + "\n" + pr.pan.Stack)
		}
		c := &cmp{r: &r, o: o, p: p, seen: map[string]bool{}, memo: map[memoKey]bool{}}
		switch {
		case !ok:
			r.Class = "undeclared-service:error"
			if pr.err == nil {
				c.bad("", "undeclared-service-accepted", "ServiceName %q is not declared but parsing succeeded (service %q)", o.SvcName, pr.svc.Name())
			}
		case ambiguous:
			r.Class = "combine-duplicate-function:not-judged"
		case pr.err != nil:
			r.Class = "parse-error"
			c.bad("", "parse-error", "valid IDL is rejected: %v", pr.err)
		default:
			c.service(pr.svc, fns, svcName)
			r.Count("facts_compared", c.n)
		}
	})
	return finish(&r, pi, "desc", p.Feat)
}

// structDescs collects every (declared struct, descriptor) pair reachable from the service.
type sdPair struct {
	s    *Struct
	sd   *thrift.StructDescriptor
	via  string
	root bool
}

func collectStructs(p *Program, svc *thrift.ServiceDescriptor) []sdPair {
	var out []sdPair
	seen := map[*thrift.StructDescriptor]bool{}
	var walk func(td *thrift.TypeDescriptor, t *TRef, via string, root bool)
	walk = func(td *thrift.TypeDescriptor, t *TRef, via string, root bool) {
		if td == nil {
			return
		}
		direct := t.K == StructK
		t = t.Resolve()
		switch t.K {
		case List, Set:
			if td.Type() == thrift.LIST || td.Type() == thrift.SET {
				walk(td.Elem(), t.Elem, via, false)
			}
		case Map:
			if td.Type() == thrift.MAP {
				walk(td.Key(), t.Key, via, false)
				walk(td.Elem(), t.Elem, via, false)
			}
		case StructK:
			sd := td.Struct()
			if td.Type() != thrift.STRUCT || sd == nil || seen[sd] {
				return
			}
			seen[sd] = true
			out = append(out, sdPair{s: t.S, sd: sd, via: via, root: root && direct})
			for _, f := range t.S.Fields {
				if fd := sd.FieldById(thrift.FieldID(f.ID)); fd != nil && fd.Name() == f.Name {
					walk(fd.Type(), f.T, via+"."+f.Name, false)
				}
			}
		}
	}
	var fns []*Func
	seenF := map[string]bool{}
	for _, sv := range p.Main.Services {
		for _, f := range sv.AllFuncs() {
			if !seenF[f.Name] {
				seenF[f.Name] = true
				fns = append(fns, f)
			}
		}
	}
	for _, f := range fns {
		fd := svc.Functions()[f.Name]
		if fd == nil {
			continue
		}
		if req := fd.Request(); req != nil && req.Struct() != nil {
			if a := req.Struct().FieldById(thrift.FieldID(f.ArgID)); a != nil {
				walk(a.Type(), f.Arg, f.Name+"(arg)", true)
			}
		}
		if resp := fd.Response(); resp != nil && resp.Struct() != nil {
			if a := resp.Struct().FieldById(0); a != nil && f.Ret.K != Void {
				walk(a.Type(), f.Ret, f.Name+"(result)", true)
			}
			if f.Throw != nil {
				if a := resp.Struct().FieldById(thrift.FieldID(f.ThrowID)); a != nil {
					walk(a.Type(), f.Throw, f.Name+"(throws)", true)
				}
			}
		}
	}
	return out
}

// lookupOpts: the options under which part B parses (all services combined so that every struct is reachable).
func lookupOpts(p *Program, mapWay int) optSet {
	o := optSet{MapWay: mapWay}
	if len(p.Main.Services) > 1 {
		// combine unless that is ambiguous (same-file inheritance): then the last service
		_, _, _, amb := expectedFuncs(p, optSet{SvcMode: 2})
		if !amb {
			o.SvcMode = 2
		}
	}
	return o
}

// staticStructs lists the struct definitions part B iterates, known without parsing (stable enumeration):
// every struct-like of the program. Descriptors are resolved lazily inside Run.
func enumIDs(g groupDef, p *Program, yield func(core.Case) bool) {
	o := lookupOpts(p, 0)
	const block = 4096
	for si, st := range p.AllStructs() {
		for lo := 0; lo < 65536; lo += block {
			st, lo, si := st, lo, si
			c := core.Case{
				Tag:  "FieldById",
				Desc: progDesc(p, caseDesc{Group: g.name, Options: o.String(), Struct: st.File.Path + ":" + st.Name, IDs: fmt.Sprintf("%d..%d", lo, lo+block-1)}),
				Run: func() core.Result {
					r := core.Result{Class: "ok", Key: fmt.Sprintf("%s|%d|%d", g.name, si, lo)}
					pi := core.Catch(func() {
						pr := parseProgram(p, o, true)
						if pr.pan != nil || pr.err != nil {
							r.Class = "parse-failed(reported by desc groups)"
							return
						}
						pairs := pairsOf(p, pr.svc, st)
						if len(pairs) == 0 {
							r.Class = "struct-unreachable"
							return
						}
						declared := map[int]*Field{}
						for _, f := range st.Fields {
							declared[f.ID] = f
						}
						var found, absent int64
						for _, pp := range pairs {
							for id := lo; id < lo+block; id++ {
								fd := pp.sd.FieldById(thrift.FieldID(id))
								f := declared[id]
								switch {
								case f == nil && fd != nil:
									r.Add("FieldById|"+featOf(st.Feat, p.Feat)+"|undeclared-id-found", "%s %s: FieldById(%d) = %s but id %d is not declared", p.Name, st.Name, id, fdName(fd), id)
								case f != nil && fd == nil:
									r.Add("FieldById|"+featOf(f.Feat, st.Feat, p.Feat)+"|declared-id-not-found", "%s %s: FieldById(%d) = nil, declared %s", p.Name, st.Name, id, f.Name)
								case f != nil && (int(fd.ID()) != id || fd.Name() != f.Name):
									r.Add("FieldById|"+featOf(f.Feat, st.Feat, p.Feat)+"|wrong-field", "%s %s: FieldById(%d) = %s, declared %s", p.Name, st.Name, id, fdName(fd), f.Name)
								}
								if fd != nil {
									found++
								} else {
									absent++
								}
							}
						}
						r.Count("id_lookups", found+absent)
						r.Count("id_lookups_found", found)
						if found > 0 {
							r.Class = "ok:some-found"
						} else {
							r.Class = "ok:none-found"
						}
					})
					return dedupe(finish(&r, pi, "FieldById", featOf(st.Feat, p.Feat)))
				},
			}
			if !yield(c) {
				return
			}
		}
	}
}

// dedupe keeps the first violation per signature (one case can repeat the same finding for many ids / descriptors).
func dedupe(r core.Result) core.Result {
	seen := map[string]bool{}
	var v []core.Violation
	for _, x := range r.Viol {
		if !seen[x.Sig] {
			seen[x.Sig] = true
			v = append(v, x)
		}
	}
	r.Viol = v
	return r
}

func pairsOf(p *Program, svc *thrift.ServiceDescriptor, st *Struct) []sdPair {
	var out []sdPair
	for _, pp := range collectStructs(p, svc) {
		if pp.s == st {
			out = append(out, pp)
		}
	}
	return out
}

// declared keys of a struct under a map way (alias computed without ApiBodyFastPath).
func declaredKeys(st *Struct, mapWay int) (map[string][]*Field, []string) {
	c := &cmp{o: optSet{MapWay: mapWay}}
	return keysOf(st, mapWay, func(f *Field) string { a, _ := c.alias(f, false); return a })
}

var curFlavour = ""

func useFlavour(f string) bool {
	if f == curFlavour {
		return true
	}
	if !verifhook.C14UseFlavour(f) {
		return false
	}
	curFlavour = f
	return true
}

func enumKeys(g groupDef, p *Program, fam *family, tier string, yield func(core.Case) bool) {
	o := lookupOpts(p, g.mapWay)
	structs := p.AllStructs()
	if fam != nil {
		structs = []*Struct{fam.st}
	}
	for si, st := range structs {
		km, order := declaredKeys(st, g.mapWay)
		keys := keyAlphabet(order, uint32(4*len(order)), tier)
		for _, lk := range keys {
			if fam != nil && !utf8.ValidString(lk.K) {
				continue
			}
			st, lk, si := st, lk, si
			cands := km[lk.K]
			d := caseDesc{Group: g.name, Options: o.String(), Struct: st.File.Path + ":" + st.Name, Key: showKey(lk.K)}
			if len(lk.K) <= 64 {
				d.KeyHex = fmt.Sprintf("%x", lk.K)
			}
			c := core.Case{Tag: g.kind + ":" + lk.Class, Desc: progDesc(p, d)}
			if fam == nil {
				c.Run = func() core.Result { return runKeyGo(g, p, o, st, si, lk, cands) }
			} else {
				c.Run = func() core.Result { return runKeyNative(g, p, o, st, lk, cands) }
			}
			if !yield(c) {
				return
			}
		}
	}
}

func keyFeat(lk lookupKey, cands []*Field) string {
	if len(cands) > 0 {
		f := "declared"
		if cands[0].Feat != "" {
			f += "," + cands[0].Feat
		} else if !isASCII(lk.K) {
			f += ",non-ascii"
		}
		if len(cands) > 1 {
			f += ",shared-key"
		}
		return f
	}
	return "undeclared," + lk.Class
}

func isASCII(s string) bool {
	for i := 0; i < len(s); i++ {
		if s[i] >= 0x80 {
			return false
		}
	}
	return true
}

func modeOf(sd *thrift.StructDescriptor) string {
	m, _ := sd.VerifC14NameMode()
	return m
}

func runKeyGo(g groupDef, p *Program, o optSet, st *Struct, si int, lk lookupKey, cands []*Field) core.Result {
	r := core.Result{Class: "ok", Key: fmt.Sprintf("%s|%d|%x", g.name, si, lk.K)}
	kf := keyFeat(lk, cands)
	pi := core.Catch(func() {
		pr := parseProgram(p, o, true)
		if pr.pan != nil || pr.err != nil {
			r.Class = "parse-failed(reported by desc groups)"
			return
		}
		pairs := pairsOf(p, pr.svc, st)
		if len(pairs) == 0 {
			r.Class = "struct-unreachable"
			return
		}
		for _, pp := range pairs {
			mode := modeOf(pp.sd)
			fd := pp.sd.FieldByKey(lk.K)
			r.Count("key_lookups_go", 1)
			r.Class = mode + ":" + ifs(fd != nil, "found", "absent")
			switch {
			case len(cands) == 0 && fd != nil:
				r.Add("FieldByKey|"+mode+","+kf+"|undeclared-key-found", "%s %s (map way %d, %s): FieldByKey(%s) = %s but the key is not declared", p.Name, st.Name, o.MapWay, mode, showKey(lk.K), fdName(fd))
			case len(cands) > 0 && fd == nil:
				r.Add("FieldByKey|"+mode+","+kf+"|declared-key-not-found", "%s %s (map way %d, %s): FieldByKey(%s) = nil, declared field %d:%s (DJB32=%d)", p.Name, st.Name, o.MapWay, mode, showKey(lk.K), cands[0].ID, cands[0].Name, DJB32(lk.K))
			case len(cands) > 0:
				ok := false
				for _, f := range cands {
					if int(fd.ID()) == f.ID && fd.Name() == f.Name {
						ok = true
					}
				}
				if !ok {
					r.Add("FieldByKey|"+mode+","+kf+"|wrong-field", "%s %s (map way %d, %s): FieldByKey(%s) = %s, declared %d:%s", p.Name, st.Name, o.MapWay, mode, showKey(lk.K), fdName(fd), cands[0].ID, cands[0].Name)
				}
			}
		}
	})
	return dedupe(finish(&r, pi, "FieldByKey", kf))
}

// runKeyNative: the struct descriptor is handed to j2t directly; {"<key>":1}.
func runKeyNative(g groupDef, p *Program, o optSet, st *Struct, lk lookupKey, cands []*Field) core.Result {
	r := core.Result{Class: "ok", Key: fmt.Sprintf("%s|%x", g.name, lk.K)}
	kf := keyFeat(lk, cands)
	pi := core.Catch(func() {
		if !useFlavour(g.flavour) {
			r.Class = "flavour-unsupported-by-cpu"
			return
		}
		pr := parseProgram(p, o, true)
		if pr.pan != nil || pr.err != nil {
			r.Class = "parse-failed(reported by desc groups)"
			return
		}
		fn := pr.svc.Functions()["M"]
		if fn == nil || fn.Request() == nil || fn.Request().Struct().FieldById(1) == nil {
			r.Class = "parse-failed(reported by desc groups)"
			return
		}
		td := fn.Request().Struct().FieldById(1).Type()
		if td.Type() != thrift.STRUCT {
			r.Class = "parse-failed(reported by desc groups)"
			return
		}
		mode := modeOf(td.Struct())
		doc := jsonKeyDoc(lk.K)
		site := "j2t-key"
		where := fmt.Sprintf("%s (map way %d, %s, %s): j2t %s", p.Name, o.MapWay, mode, g.flavour, showKey(string(doc)))
		for _, disallow := range []bool{true, false} {
			cv := j2t.NewBinaryConv(conv.Options{DisallowUnknownField: disallow})
			out, err := cv.Do(context.Background(), td, doc)
			r.Count("key_lookups_native", 1)
			unknown := false
			if err != nil {
				if me, ok := err.(meta.Error); ok && me.Code.Behavior() == meta.ErrUnknownField {
					unknown = true
				}
			}
			// which field did the converter write?
			wrote := -1 // -1 nothing, -2 undecodable
			if err == nil {
				v, derr := tbin.DecodeAll(out, tbin.STRUCT)
				switch {
				case derr != nil || len(v.Fs) > 1:
					wrote = -2
				case len(v.Fs) == 1:
					wrote = int(uint16(v.Fs[0].ID))
					if v.Fs[0].V.T != tbin.I32 || v.Fs[0].V.I != 1 {
						wrote = -2
					}
				}
			}
			dis := ifs(disallow, "disallow-unknown", "allow-unknown")
			if len(cands) == 0 {
				r.Class = mode + ":absent"
				switch {
				case disallow && err == nil:
					r.Add(site+"|"+mode+","+kf+","+dis+"|undeclared-key-accepted", "%s: no error for an undeclared key (output %x)", where, out)
				case disallow && !unknown:
					r.Add(site+"|"+mode+","+kf+","+dis+"|other-error", "%s: error is not ErrUnknownField: %v", where, err)
				case !disallow && err != nil:
					r.Add(site+"|"+mode+","+kf+","+dis+"|error", "%s: unknown fields are allowed but: %v", where, err)
				case !disallow && wrote != -1:
					r.Add(site+"|"+mode+","+kf+","+dis+"|undeclared-key-written", "%s: undeclared key produced output %x", where, out)
				}
				continue
			}
			r.Class = mode + ":found"
			switch {
			case unknown:
				r.Add(site+"|"+mode+","+kf+","+dis+"|declared-key-unknown", "%s: declared key of field %d:%s reported as unknown field: %v", where, cands[0].ID, cands[0].Name, err)
			case err != nil:
				r.Add(site+"|"+mode+","+kf+","+dis+"|error", "%s: declared key of field %d:%s: %v", where, cands[0].ID, cands[0].Name, err)
			case wrote == -1:
				r.Add(site+"|"+mode+","+kf+","+dis+"|declared-key-skipped", "%s: declared key of field %d:%s was silently skipped (output %x)", where, cands[0].ID, cands[0].Name, out)
			default:
				ok := false
				for _, f := range cands {
					if wrote == f.ID {
						ok = true
					}
				}
				if !ok {
					r.Add(site+"|"+mode+","+kf+","+dis+"|wrong-field", "%s: wrote %x, declared field id %d", where, out, cands[0].ID)
				}
			}
		}
	})
	return dedupe(finish(&r, pi, "j2t-key", kf))
}

// ExtraCoverage reports the programs and families.
func (check) ExtraCoverage(tier string, counts map[string]int64) map[string]interface{} {
	s := getScope(tier)
	var names []string
	for _, p := range s.progs {
		names = append(names, p.Name)
	}
	sort.Strings(names)
	return map[string]interface{}{"program_names": names, "programs": len(names), "option_sets_per_program": "3*3*(services+2)*3*2^5", "native_flavours": flavours}
}
