package c14

import (
	"fmt"

	. "verif/ref/idlref"
)

// ---- small builders -------------------------------------------------------------------------

func fld(id int, name string, t *TRef) *Field { return &Field{ID: id, Name: name, T: t} }

func reqd(f *Field, r int) *Field       { f.Req = r; return f }
func deflt(f *Field, l *Lit) *Field     { f.Def = l; return f }
func anno(f *Field, k, v string) *Field { f.Annos = append(f.Annos, Anno{K: k, V: v}); return f }
func feat(f *Field, s string) *Field    { f.Feat = s; return f }
func lInt(v int64) *Lit                 { return &Lit{K: LInt, Int: v} }
func lDbl(text string, v float64) *Lit  { return &Lit{K: LDouble, Text: text, F: v} }
func lStr(s string) *Lit                { return &Lit{K: LString, Text: s} }
func lIdent(s string) *Lit              { return &Lit{K: LIdent, Text: s} }
func lConst(c *Const) *Lit              { return &Lit{K: LConst, C: c} }
func lEnum(e *Enum, v string) *Lit      { return &Lit{K: LEnum, E: e, EV: v} }
func fn(name string, ret *TRef, arg *TRef) *Func {
	return &Func{Name: name, Ret: ret, ArgID: 1, ArgName: "req", Arg: arg}
}
func throws(f *Func, id int, name string, t *TRef) *Func {
	f.ThrowID, f.ThrowName, f.Throw = id, name, t
	return f
}

const mainPath = "a/b/main.thrift"

func newMain(ns string) *File { return &File{Path: mainPath, NS: ns} }

var scalarKinds = []Kind{Bool, Byte, I8, I16, I32, I64, Double, String, Binary}
var keyKinds = []Kind{String, Byte, I16, I32, I64, Double}
var idLayout = []int{1, 2, 3, 63, 64, 65, 255, 256, 257, 1000, 32767}

func kindName(k Kind) string {
	return map[Kind]string{Bool: "bool", Byte: "byte", I8: "i8", I16: "i16", I32: "i32", I64: "i64", Double: "double", String: "string", Binary: "binary"}[k]
}

// simple request/response pair + service around one struct
func wrapService(f *File, req, resp *Struct) {
	f.AddService("Svc", nil, fn("M", Ref(resp), Ref(req)))
}

// ---- part A programs -------------------------------------------------------------------------

func progScalars() *Program {
	f := newMain("scal")
	var fs []*Field
	for i, k := range scalarKinds {
		fs = append(fs, reqd(fld(idLayout[i], "f_"+kindName(k), T(k)), i%3))
	}
	req := f.AddStruct("struct", "Req", fs...)
	var fs2 []*Field
	for i, k := range scalarKinds {
		// descending ids
		fs2 = append(fs2, reqd(fld(idLayout[len(scalarKinds)-1-i], "g_"+kindName(k), T(k)), (i+1)%3))
	}
	resp := f.AddStruct("struct", "Resp", fs2...)
	wrapService(f, req, resp)
	return &Program{Name: "scalars", Main: f, Feat: "scalars"}
}

func progContainers() *Program {
	f := newMain("cont")
	inner := f.AddStruct("struct", "Inner", fld(1, "a", T(I32)), reqd(fld(2, "b", T(String)), ReqOptional))
	var fs []*Field
	id := 1
	add := func(name string, t *TRef) {
		fs = append(fs, reqd(fld(id, fmt.Sprintf("%s_%d", name, id), t), id%3))
		id++
	}
	for _, k := range scalarKinds {
		add("l", ListOf(T(k)))
		add("s", SetOf(T(k)))
	}
	for _, k := range keyKinds {
		add("m", MapOf(T(k), T(I32)))
		add("m", MapOf(T(k), T(String)))
		add("m", MapOf(T(k), Ref(inner)))
	}
	add("ll", ListOf(ListOf(T(I32))))
	add("lm", ListOf(MapOf(T(String), T(Double))))
	add("ml", MapOf(T(String), ListOf(T(String))))
	add("mm", MapOf(T(I64), MapOf(T(String), T(Binary))))
	add("ms", MapOf(T(String), SetOf(T(I16))))
	add("ls", ListOf(Ref(inner)))
	add("ss", SetOf(Ref(inner)))
	add("mk", MapOf(Ref(inner), T(Bool)))
	add("lls", ListOf(ListOf(Ref(inner))))
	req := f.AddStruct("struct", "Req", fs...)
	wrapService(f, req, req)
	return &Program{Name: "containers", Main: f, Feat: "containers"}
}

func progTypedefs() *Program {
	ref := &File{Path: "a/b/tdinc.thrift", NS: "tdinc"}
	rInner := ref.AddStruct("struct", "Leaf", fld(1, "v", T(I64)))
	rI := ref.AddTypedef("RInt", T(I16))
	rL := ref.AddTypedef("RLeaf", Ref(rInner))
	rLL := ref.AddTypedef("RLeafList", ListOf(RefTD(rL)))

	f := newMain("td")
	f.Include("tdinc.thrift", ref)
	in := f.AddStruct("struct", "In", fld(1, "x", T(Bool)))
	a := f.AddTypedef("A", T(I32))
	b := f.AddTypedef("B", RefTD(a))
	c := f.AddTypedef("C", ListOf(RefTD(b)))
	d := f.AddTypedef("D", MapOf(T(String), RefTD(c)))
	bin := f.AddTypedef("Bin", T(Binary))
	str := f.AddTypedef("Str", T(String))
	s2 := f.AddTypedef("In2", Ref(in))
	s3 := f.AddTypedef("In3", RefTD(s2))
	x := f.AddTypedef("XInt", RefTD(rI))
	req := f.AddStruct("struct", "Req",
		fld(1, "a", RefTD(a)), reqd(fld(2, "b", RefTD(b)), ReqRequired), reqd(fld(3, "c", RefTD(c)), ReqOptional),
		fld(4, "d", RefTD(d)), fld(5, "bin", RefTD(bin)), fld(6, "str", RefTD(str)), fld(7, "in2", RefTD(s2)), fld(8, "in3", RefTD(s3)),
		fld(9, "ri", RefTD(rI)), fld(10, "rl", RefTD(rL)), fld(11, "rll", RefTD(rLL)), fld(12, "x", RefTD(x)),
		fld(13, "lbin", ListOf(RefTD(bin))), fld(14, "min3", MapOf(RefTD(str), RefTD(s3))))
	// typedef'd response type (typedef of a struct as function type)
	f.AddService("Svc", nil, fn("M", RefTD(s3), Ref(req)), fn("N", Ref(req), RefTD(rL)))
	return &Program{Name: "typedefs", Main: f, Feat: "typedefs"}
}

func progEnums() *Program {
	inc := &File{Path: "a/b/einc.thrift", NS: "einc"}
	col := inc.AddEnum("Color", EnumVal{"RED", 1}, EnumVal{"GREEN", 2}, EnumVal{"BLUE", 0x7fffffff})
	ctd := inc.AddTypedef("ColorT", RefE(col))
	f := newMain("en")
	f.Include("einc.thrift", inc)
	e := f.AddEnum("Num", EnumVal{"ZERO", 0}, EnumVal{"ONE", 1}, EnumVal{"NEG", -5})
	etd := f.AddTypedef("NumT", RefE(e))
	req := f.AddStruct("struct", "Req",
		fld(1, "e", RefE(e)), reqd(fld(2, "c", RefE(col)), ReqRequired), reqd(fld(3, "le", ListOf(RefE(e))), ReqOptional),
		fld(4, "me", MapOf(RefE(col), RefE(e))), fld(5, "et", RefTD(etd)), fld(6, "ct", RefTD(ctd)), fld(7, "se", SetOf(RefTD(ctd))))
	f.AddService("Svc", nil, fn("M", Ref(req), Ref(req)), fn("E", RefE(e), Ref(req)))
	return &Program{Name: "enums", Main: f, Feat: "enums"}
}

func progUnionsExceptions() *Program {
	f := newMain("ue")
	u := f.AddStruct("union", "U", fld(1, "i", T(I32)), fld(2, "s", T(String)), fld(3, "l", ListOf(T(I64))))
	ex := f.AddStruct("exception", "Err", fld(1, "code", T(I32)), reqd(fld(2, "msg", T(String)), ReqOptional), fld(255, "u", Ref(u)))
	ex2 := f.AddStruct("exception", "Err2", reqd(fld(7, "why", T(String)), ReqRequired))
	req := f.AddStruct("struct", "Req", fld(1, "u", Ref(u)), reqd(fld(2, "lu", ListOf(Ref(u))), ReqOptional), fld(3, "e", Ref(ex)))
	f.AddService("Svc", nil,
		throws(fn("M", Ref(req), Ref(req)), 1, "err", Ref(ex)),
		throws(fn("N", Ref(u), Ref(u)), 2, "e2", Ref(ex2)),
		fn("P", Ref(ex), Ref(req)))
	return &Program{Name: "unions-exceptions", Main: f, Feat: "unions-exceptions"}
}

func progSelfRec() *Program {
	f := newMain("sr")
	n := f.AddStruct("struct", "Node")
	n.Fields = []*Field{fld(1, "val", T(I32)), reqd(fld(2, "next", Ref(n)), ReqOptional), fld(3, "kids", ListOf(Ref(n))), fld(4, "m", MapOf(T(String), Ref(n)))}
	td := f.AddTypedef("NodeT", Ref(n))
	w := f.AddStruct("struct", "Wrap", fld(1, "n", Ref(n)), fld(2, "t", RefTD(td)))
	f.AddService("Svc", nil, fn("M", Ref(n), Ref(n)), fn("W", Ref(w), Ref(w)))
	return &Program{Name: "self-recursion", Main: f, Feat: "self-recursion"}
}

func progMutRec() *Program {
	f := newMain("mr")
	a := f.AddStruct("struct", "A")
	b := f.AddStruct("struct", "B")
	c := f.AddStruct("union", "C")
	a.Fields = []*Field{fld(1, "name", T(String)), reqd(fld(2, "b", Ref(b)), ReqOptional)}
	b.Fields = []*Field{reqd(fld(1, "a", Ref(a)), ReqOptional), fld(2, "as", ListOf(Ref(a))), fld(3, "c", Ref(c))}
	c.Fields = []*Field{fld(1, "a", Ref(a)), fld(2, "b", Ref(b)), fld(3, "c", MapOf(T(I32), Ref(c)))}
	f.AddService("Svc", nil, fn("M", Ref(b), Ref(a)), fn("N", Ref(a), Ref(c)))
	return &Program{Name: "mutual-recursion", Main: f, Feat: "mutual-recursion"}
}

func progIncludes() *Program {
	// main (a/b) -> ../c/inc.thrift (a/c) -> deep/ref.thrift (a/c/deep); main -> ../c/deep/ref.thrift too
	ref := &File{Path: "a/c/deep/ref.thrift", NS: "ref"}
	rs := ref.AddStruct("struct", "Item", fld(1, "id", T(I64)), reqd(fld(2, "tags", SetOf(T(String))), ReqOptional))
	rrec := ref.AddStruct("struct", "Tree")
	rrec.Fields = []*Field{fld(1, "item", Ref(rs)), fld(2, "sub", ListOf(Ref(rrec)))}
	inc := &File{Path: "a/c/inc.thrift", NS: "inc"}
	inc.Include("deep/ref.thrift", ref)
	// same simple name as a struct of main, different fields
	iShared := inc.AddStruct("struct", "Shared", fld(1, "inc_only", T(I32)), fld(2, "item", Ref(rs)))
	iShared.Feat = "includes,same-struct-name"
	iBox := inc.AddStruct("struct", "Box", fld(1, "s", Ref(iShared)), fld(2, "t", Ref(rrec)))
	f := newMain("main")
	f.Include("../c/inc.thrift", inc)
	f.Include("../c/deep/ref.thrift", ref)
	mShared := f.AddStruct("struct", "Shared", fld(1, "main_only", T(String)), fld(3, "third", T(Bool)))
	mShared.Feat = "includes,same-struct-name"
	// typedefs of the INCLUDED file that name its own Shared (scalar alias, list alias): referenced from main after
	// main's own struct of that name
	tdShared := inc.AddTypedef("SharedRef", Ref(iShared))
	tdShareds := inc.AddTypedef("SharedList", ListOf(Ref(iShared)))
	req := f.AddStruct("struct", "Req", fld(1, "mine", Ref(mShared)), fld(2, "theirs", Ref(iShared)), fld(3, "box", Ref(iBox)), fld(4, "item", Ref(rs)), fld(5, "tree", Ref(rrec)),
		fld(6, "lt", ListOf(Ref(iShared))), fld(7, "lm", ListOf(Ref(mShared))), fld(8, "via_typedef", RefTD(tdShared)), fld(9, "via_list_typedef", RefTD(tdShareds)))
	// ... and in a struct that sees ONLY main's Shared and the typedefs (no direct reference to the included struct first)
	req2 := f.AddStruct("struct", "Req2", fld(1, "mine", Ref(mShared)), fld(2, "foreign", RefTD(tdShared)), fld(3, "foreign_list", RefTD(tdShareds)))
	_ = req2
	f.AddService("Svc", nil, fn("M", Ref(iBox), Ref(req)), fn("N", Ref(mShared), Ref(iShared)), fn("O", Ref(req2), Ref(req2)))
	return &Program{Name: "includes", Main: f, Feat: "includes"}
}

func progExtendsSameFile() *Program {
	f := newMain("ext")
	r := f.AddStruct("struct", "R", fld(1, "a", T(String)))
	q := f.AddStruct("struct", "Q", fld(1, "b", T(I32)))
	base := f.AddService("Base", nil, fn("BaseCall", Ref(q), Ref(q)))
	base.Funcs[0].Feat = "extends-samefile,inherited"
	f.AddService("Derived", base, fn("Own", Ref(r), Ref(r)))
	return &Program{Name: "extends-samefile", Main: f, Feat: "extends-samefile"}
}

func progExtendsCrossFile(sameName bool, twoLevel bool) *Program {
	return progExtendsCrossFileS(sameName, twoLevel, false)
}

// sameSvc: the base services carry the SAME simple name as the derived one (service names are unique per file only)
func progExtendsCrossFileS(sameName, twoLevel, sameSvc bool) *Program {
	return progExtendsCrossFileD(sameName, twoLevel, sameSvc, false)
}

// dotted: the included files carry a dot in their base name (inc.v1.thrift): the include alias is "inc.v1"
func progExtendsCrossFileD(sameName, twoLevel, sameSvc, dotted bool) *Program {
	incFile, rootFile := "inc.thrift", "root.thrift"
	if dotted {
		incFile, rootFile = "inc.v1.thrift", "root.v2.thrift"
	}
	baseName, rootName := "Base", "RootSvc"
	if sameSvc {
		baseName, rootName = "Main", "Main"
	}
	root := &File{Path: "a/b/" + rootFile, NS: "root"}
	rootS := root.AddStruct("struct", "RootMsg", fld(1, "r", T(Double)))
	rootSvc := root.AddService(rootName, nil, fn("RootCall", Ref(rootS), Ref(rootS)))
	rootSvc.Funcs[0].Feat = "extends-crossfile,inherited-2nd-level"
	inc := &File{Path: "a/b/" + incFile, NS: "inc"}
	incReqName := "IncReq"
	if sameName {
		incReqName = "Req"
	}
	iReq := inc.AddStruct("struct", incReqName, fld(1, "inc_only", T(I32)))
	iResp := inc.AddStruct("struct", "IncResp", fld(1, "y", T(String)))
	var ext *Service
	if twoLevel {
		inc.Include(rootFile, root)
		ext = rootSvc
	}
	baseSvc := inc.AddService(baseName, ext, fn("BaseCall", Ref(iResp), Ref(iReq)))
	baseSvc.Funcs[0].Feat = "extends-crossfile,inherited"
	f := newMain("main")
	f.Include(incFile, inc)
	mReq := f.AddStruct("struct", "Req", fld(1, "main_only", T(String)))
	mResp := f.AddStruct("struct", "Resp", fld(1, "x", T(String)))
	f.AddService("Main", baseSvc, fn("Own", Ref(mResp), Ref(mReq)))
	name := "extends-crossfile"
	if sameName {
		name += ",same-struct-name"
		iReq.Feat = name
		baseSvc.Funcs[0].Feat = name + ",inherited"
	}
	if twoLevel {
		name += ",two-level"
	}
	if sameSvc {
		name += ",same-service-name"
		baseSvc.Funcs[0].Feat = name + ",inherited"
	}
	if dotted {
		name += ",dotted-include-names"
		baseSvc.Funcs[0].Feat = name + ",inherited"
	}
	return &Program{Name: name, Main: f, Feat: name}
}

// progExtendsChainNested: an inheritance chain over two included files (Top extends mid.Mid, Mid extends low.Low);
// both files declare a struct Inner (different fields) that is used NESTED in the request of a function of their
// own service; all functions return a scalar, so that the two nested uses are compiled one after the other for the
// same side.
func progExtendsChainNested() *Program {
	low := &File{Path: "a/b/low.thrift", NS: "low"}
	lInner := low.AddStruct("struct", "Inner", reqd(fld(1, "y", T(I64)), ReqOptional), fld(2, "z", T(String)))
	lReq := low.AddStruct("struct", "LowReq", fld(1, "inner", Ref(lInner)), fld(2, "n", T(I32)))
	lowSvc := low.AddService("Low", nil, fn("LowCall", T(String), Ref(lReq)))
	mid := &File{Path: "a/b/mid.thrift", NS: "mid"}
	mid.Include("low.thrift", low)
	mInner := mid.AddStruct("struct", "Inner", reqd(fld(1, "x", T(String)), ReqRequired))
	mReq := mid.AddStruct("struct", "MidReq", fld(1, "inner", Ref(mInner)), fld(2, "items", &TRef{K: List, Elem: Ref(mInner)}))
	midSvc := mid.AddService("Mid", lowSvc, fn("MidCall", T(String), Ref(mReq)))
	f := newMain("xn")
	f.Include("mid.thrift", mid)
	req := f.AddStruct("struct", "Req", fld(1, "q", T(String)))
	f.AddService("Top", midSvc, fn("Own", T(String), Ref(req)))
	name := "extends-chain,same-struct-name-nested-in-both-base-files"
	lowSvc.Funcs[0].Feat = name + ",inherited-2nd-level"
	midSvc.Funcs[0].Feat = name + ",inherited"
	return &Program{Name: name, Main: f, Feat: name}
}

func progMultiService() *Program {
	f := newMain("ms")
	r1 := f.AddStruct("struct", "R1", fld(1, "a", T(I32)))
	r2 := f.AddStruct("struct", "R2", fld(1, "b", T(String)))
	r3 := f.AddStruct("struct", "R3", fld(1, "c", T(Bool)))
	f.AddService("First", nil, fn("F1", Ref(r1), Ref(r1)), fn("F2", Ref(r2), Ref(r1)))
	f.AddService("Second", nil, fn("S1", Ref(r2), Ref(r2)))
	f.AddService("Third", nil, fn("T1", Ref(r3), Ref(r3)), fn("T2", Ref(r1), Ref(r3)), fn("T3", Ref(r3), Ref(r2)))
	return &Program{Name: "multi-service", Main: f, Feat: "multi-service"}
}

func progFuncs() *Program {
	f := newMain("fn")
	r := f.AddStruct("struct", "R", fld(1, "a", T(I32)))
	ex := f.AddStruct("exception", "E", fld(1, "m", T(String)))
	ow := fn("Fire", T(Void), Ref(r))
	ow.Oneway = true
	v := fn("Quiet", T(Void), Ref(r))
	vt := throws(fn("QuietThrows", T(Void), Ref(r)), 1, "e", Ref(ex))
	sc := fn("Scalar", T(String), T(I64))
	sc.ArgID, sc.ArgName = 7, "n"
	li := fn("Lists", ListOf(Ref(r)), MapOf(T(String), Ref(r)))
	li.ArgID, li.ArgName = 255, "m"
	// several methods over ONE request / response / exception type that differ only in the id and the name of the
	// argument (resp. of the exception): the wrappers are per method
	p2 := fn("Put", Ref(r), Ref(r))
	p2.ArgID, p2.ArgName = 2, "request"
	p3 := fn("Del", Ref(r), Ref(r))
	p3.ArgID, p3.ArgName = 300, "req"
	p4 := throws(fn("PutThrows", Ref(r), Ref(r)), 2, "err", Ref(ex))
	p4.ArgID, p4.ArgName = 1, "r"
	p5 := throws(fn("DelThrows", Ref(r), Ref(r)), 7, "e", Ref(ex))
	f.AddService("Svc", nil, ow, v, vt, sc, li, p2, p3, p4, p5)
	return &Program{Name: "functions", Main: f, Feat: "functions"}
}

// progSuppressed: field suppression annotations. One struct type reached from a request, from a response (directly
// and through containers) and from an exception, in two methods: api.none hides a field on the response side only.
func progSuppressed() *Program {
	f := newMain("sup")
	d := f.AddStruct("struct", "Detail", fld(1, "a", T(String)), anno(fld(2, "hidden", T(String)), "api.none", ""), fld(3, "c", T(I32)),
		anno(fld(4, "gone", T(String)), "dynamicgo.deprecated", ""))
	req := f.AddStruct("struct", "Req", fld(1, "d", Ref(d)), fld(2, "l", ListOf(Ref(d))), anno(fld(3, "q", T(String)), "api.none", ""))
	resp := f.AddStruct("struct", "Resp", fld(1, "d", Ref(d)), fld(2, "m", MapOf(T(String), Ref(d))), anno(fld(3, "top", T(String)), "api.none", ""))
	ex := f.AddStruct("exception", "Exc", fld(1, "d", Ref(d)), anno(fld(2, "msg", T(String)), "api.none", ""))
	m := throws(fn("M", Ref(resp), Ref(req)), 1, "e", Ref(ex))
	n := throws(fn("N", Ref(resp), Ref(req)), 2, "x", Ref(ex))
	n.ArgID, n.ArgName = 2, "r"
	o := throws(fn("ExcFirst", Ref(req), Ref(resp)), 1, "e", Ref(ex))
	f.AddService("Svc", nil, m, n, o)
	return &Program{Name: "suppressed-fields", Main: f, Feat: "suppressed-fields", DescOnly: true}
}

func progDefaults() *Program {
	inc := &File{Path: "a/b/dinc.thrift", NS: "dinc"}
	iCol := inc.AddEnum("Color", EnumVal{"RED", 1}, EnumVal{"GREEN", 20})
	iStr := inc.AddConst("GREETING", T(String), lStr("hello inc"))
	iInt := inc.AddConst("ANSWER", T(I32), lInt(42))
	iStr2 := inc.AddConst("GREETING2", T(String), lConst(iStr)) // a constant of the include that refers to another one of the include
	iFav := inc.AddConst("FAV", RefE(iCol), lEnum(iCol, "GREEN"))
	f := newMain("def")
	f.Include("dinc.thrift", inc)
	e := f.AddEnum("Num", EnumVal{"ZERO", 0}, EnumVal{"SEVEN", 7}, EnumVal{"NEG", -5})
	cStr := f.AddConst("NAME", T(String), lStr("const string"))
	cDbl := f.AddConst("RATIO", T(Double), lDbl("0.25", 0.25))
	cI64 := f.AddConst("BIG", T(I64), lInt(1<<40))
	cRef := f.AddConst("NAME2", T(String), lConst(cStr))
	cBool := f.AddConst("YES", T(Bool), lIdent("true"))
	var fs []*Field
	id := 0
	add := func(name string, t *TRef, l *Lit, ft string) {
		id++
		fs = append(fs, feat(deflt(reqd(fld(id, fmt.Sprintf("%s%d", name, id), t), id%3), l), "default:"+ft))
	}
	// literal of the field's own kind
	add("b", T(Bool), lIdent("true"), "bool-ident")
	add("b", T(Bool), lIdent("false"), "bool-ident")
	for _, k := range []Kind{Byte, I8, I16, I32, I64} {
		for _, v := range []int64{0, 1, -1, 100} {
			add(kindName(k), T(k), lInt(v), "int-literal")
		}
	}
	add("by", T(Byte), lInt(127), "int-literal")
	add("by", T(Byte), lInt(-128), "int-literal")
	add("s", T(I16), lInt(32767), "int-literal")
	add("s", T(I16), lInt(-32768), "int-literal")
	add("i", T(I32), lInt(2147483647), "int-literal")
	add("i", T(I32), lInt(-2147483648), "int-literal")
	add("l", T(I64), lInt(9223372036854775807), "int-literal")
	add("l", T(I64), lInt(-9223372036854775807), "int-literal")
	add("l", T(I64), lInt(1<<53+1), "int-literal")
	for _, d := range []struct {
		t string
		v float64
	}{{"1.1", 1.1}, {"-0.5", -0.5}, {"0.0", 0}, {"1000000000000000000000.0", 1e21}, {"0.00000015", 1.5e-7}, {"123456789.125", 123456789.125}, {"2.0", 2}} {
		add("d", T(Double), lDbl(d.t, d.v), "double-literal")
	}
	for _, s := range []string{"default", "", "a b", "é ", `it's`, `say "hi"`, "tab\there"} {
		add("str", T(String), lStr(s), "string-literal")
	}
	add("bin", T(Binary), lStr("bytes"), "string-literal,binary-field")
	// constants
	add("cs", T(String), lConst(cStr), "const-ref")
	add("cs", T(String), lConst(cRef), "const-ref-chain")
	add("cd", T(Double), lConst(cDbl), "const-ref")
	add("cl", T(I64), lConst(cI64), "const-ref")
	add("cb", T(Bool), lConst(cBool), "const-ref")
	add("ics", T(String), lConst(iStr), "const-ref-include")
	add("ici", T(I32), lConst(iInt), "const-ref-include")
	add("ics", T(String), lConst(iStr2), "const-ref-chain-include")
	add("ice", RefE(iCol), lConst(iFav), "const-ref-enum-include")
	// ONE constant as the default of fields of several types (each field encodes it in its own type)
	add("ici", T(I64), lConst(iInt), "const-ref-include,shared-by-fields-of-other-types")
	add("ici", T(I16), lConst(iInt), "const-ref-include,shared-by-fields-of-other-types")
	add("ici", T(Byte), lConst(iInt), "const-ref-include,shared-by-fields-of-other-types")
	add("ici", T(Double), lConst(iInt), "const-ref-include,shared-by-fields-of-other-types")
	add("ici", T(I32), lConst(iInt), "const-ref-include,shared-by-fields-of-other-types")
	add("cl", T(Double), lConst(cI64), "const-ref,shared-by-fields-of-other-types")
	add("cl", T(I64), lConst(cI64), "const-ref,shared-by-fields-of-other-types")
	// enums
	add("e", RefE(e), lEnum(e, "SEVEN"), "enum-ref")
	add("e", RefE(e), lEnum(e, "NEG"), "enum-ref")
	add("e", RefE(e), lEnum(e, "ZERO"), "enum-ref")
	add("ie", RefE(iCol), lEnum(iCol, "GREEN"), "enum-ref-include")
	add("en", RefE(e), lInt(7), "int-literal,enum-field")
	add("ei", T(I32), lEnum(e, "SEVEN"), "enum-ref,int-field")
	// a literal of another (legal) kind
	add("di", T(Double), lInt(1), "int-literal,double-field")
	add("di", T(Double), lInt(-3), "int-literal,double-field")
	add("di", T(Double), lInt(0), "int-literal,double-field")
	add("bi", T(Bool), lInt(1), "int-literal,bool-field")
	add("bi", T(Bool), lInt(0), "int-literal,bool-field")
	// no default at all
	id++
	fs = append(fs, fld(id, "nodef_i", T(I32)))
	id++
	fs = append(fs, reqd(fld(id, "nodef_s", T(String)), ReqOptional))
	req := f.AddStruct("struct", "Req", fs...)
	// the same defaults inside a struct of the included file (constants resolved relative to that file)
	iS := inc.AddStruct("struct", "IncDefaults",
		feat(deflt(fld(1, "g", T(String)), lConst(iStr)), "default:const-ref,in-include"),
		feat(deflt(fld(2, "c", RefE(iCol)), lEnum(iCol, "RED")), "default:enum-ref,in-include"),
		feat(deflt(fld(3, "n", T(I32)), lConst(iInt)), "default:const-ref,in-include"))
	resp := f.AddStruct("struct", "Resp", fld(1, "inc", Ref(iS)), fld(2, "req", Ref(req)))
	wrapService(f, req, resp)
	return &Program{Name: "defaults", Main: f, Feat: "defaults"}
}

func progAliases() *Program {
	f := newMain("al")
	nested := f.AddStruct("struct", "Nested",
		anno(fld(1, "inner_name", T(I32)), "api.key", "innerAlias"),
		anno(fld(2, "body_nested", T(I32)), "api.body", "bodyNested"))
	nested.Fields[1].Feat = "alias:api.body,nested"
	below := func(name string) *Struct {
		st := f.AddStruct("struct", name, anno(fld(1, "body_below", T(I32)), "api.body", "bodyBelow"+name), fld(2, "other", T(String)))
		st.Fields[0].Feat = "alias:api.body,below-container"
		return st
	}
	inList, inMap, inSet, inLL := below("InList"), below("InMap"), below("InSet"), below("InLL")
	req := f.AddStruct("struct", "Req",
		fld(1, "plain", T(I32)),
		feat(anno(fld(2, "keyed", T(I32)), "api.key", "keyAlias"), "alias:api.key"),
		feat(anno(fld(3, "tagged", T(I32)), "go.tag", `json:"tagAlias"`), "alias:go.tag"),
		feat(anno(fld(4, "dashed", T(I32)), "api.key", "dash-ed.key"), "alias:api.key,punct"),
		feat(anno(fld(5, "uni", T(I32)), "api.key", "ключ"), "alias:api.key,non-ascii"),
		feat(anno(fld(6, "emptied", T(I32)), "api.key", ""), "alias:api.key,empty"),
		feat(anno(fld(7, "bodied", T(I32)), "api.body", "bodyAlias"), "alias:api.body,root"),
		// alias equal to another field's *name*
		feat(anno(fld(8, "thief", T(I32)), "api.key", "victim"), "alias:equals-other-name"),
		feat(anno(fld(9, "victim", T(I32)), "api.key", "moved"), "alias:equals-other-name"),
		fld(10, "nested", Ref(nested)),
		feat(anno(fld(11, "spaced", T(I32)), "api.key", "with space"), "alias:api.key,punct"),
		// structs with an api.body field whose FIRST (and only) occurrence is below a container: the root's
		// "body root" mark must not reach them through list / set / map
		fld(12, "in_list", ListOf(Ref(inList))),
		fld(13, "in_map", MapOf(T(String), Ref(inMap))),
		fld(14, "in_set", SetOf(Ref(inSet))),
		fld(15, "in_list_of_list", ListOf(ListOf(Ref(inLL)))),
	)
	resp := f.AddStruct("struct", "Resp", fld(1, "ok", T(Bool)), feat(anno(fld(2, "out", T(String)), "api.key", "OUT"), "alias:api.key"))
	wrapService(f, req, resp)
	return &Program{Name: "aliases", Main: f, Feat: "aliases"}
}

// thrift/base: order selects which descriptor of Req / Resp the compiling cache sees first.
//
//	root-only:    the base-carrying structs are only used as function roots
//	nested-first: a function that nests Req / Resp is declared before the one that uses them as roots
//	root-first:   the other way round
func progBase(order string) *Program {
	base := &File{Path: "a/b/base.thrift", NS: "base"}
	te := base.AddStruct("struct", "TrafficEnv", deflt(fld(1, "Open", T(Bool)), lIdent("false")), deflt(fld(2, "Env", T(String)), lStr("")))
	b := base.AddStruct("struct", "Base", deflt(fld(1, "LogID", T(String)), lStr("")), deflt(fld(2, "Caller", T(String)), lStr("")),
		deflt(fld(3, "Addr", T(String)), lStr("")), deflt(fld(4, "Client", T(String)), lStr("")),
		reqd(fld(5, "TrafficEnv", Ref(te)), ReqOptional), reqd(fld(6, "Extra", MapOf(T(String), T(String))), ReqOptional))
	br := base.AddStruct("struct", "BaseResp", deflt(fld(1, "StatusMessage", T(String)), lStr("")), deflt(fld(2, "StatusCode", T(I32)), lInt(0)),
		reqd(fld(3, "Extra", MapOf(T(String), T(String))), ReqOptional))
	f := newMain("tb")
	f.Include("base.thrift", base)
	inner := f.AddStruct("struct", "Inner", fld(1, "v", T(I32)), feat(fld(2, "NotRootBase", Ref(b)), "thrift-base,nested-struct"))
	req := f.AddStruct("struct", "Req", fld(1, "msg", T(String)), fld(2, "inner", Ref(inner)), feat(fld(255, "Base", Ref(b)), "thrift-base,request-root"))
	resp := f.AddStruct("struct", "Resp", fld(1, "out", T(String)), feat(reqd(fld(255, "BaseResp", Ref(br)), ReqRequired), "thrift-base,response-root"))
	wreq := f.AddStruct("struct", "WrapReq", fld(1, "r", Ref(req)))
	wresp := f.AddStruct("struct", "WrapResp", fld(1, "r", Ref(resp)))
	root := fn("Root", Ref(resp), Ref(req))
	nest := fn("Nest", Ref(wresp), Ref(wreq))
	switch order {
	case "root-only":
		f.AddService("Svc", nil, root)
	case "nested-first":
		f.AddService("Svc", nil, nest, root)
	case "root-first":
		f.AddService("Svc", nil, root, nest)
	}
	return &Program{Name: "thrift-base," + order, Main: f, Feat: "thrift-base," + order}
}

// ---- part B: name families (one struct R of i32 fields; drive FieldNameMap.Build into each structure) ----

type family struct {
	prog *Program
	st   *Struct
	note string
}

func famProgram(name string, fields []*Field, note string) family {
	f := newMain("fam")
	r := f.AddStruct("struct", "R", fields...)
	f.AddService("Svc", nil, fn("M", Ref(r), Ref(r)))
	p := &Program{Name: "family:" + name, Main: f, Feat: "family:" + name}
	return family{prog: p, st: r, note: note}
}

func i32Fields(names []string, ids []int) []*Field {
	var fs []*Field
	for i, n := range names {
		id := i + 1
		if ids != nil {
			id = ids[i]
		}
		fs = append(fs, fld(id, n, T(I32)))
	}
	return fs
}

// HashZeroKeys have DJB32 hash 0 (found offline by meet-in-the-middle over [a-z]{7}; verified by SelfCheck).
var HashZeroKeys = []string{"glidphc", "tvhuvks"}

func binNames(bits int, prefix string) []string {
	var out []string
	for i := 0; i < 1<<uint(bits); i++ {
		n := prefix
		for b := bits - 1; b >= 0; b-- {
			if i>>uint(b)&1 == 1 {
				n += "b"
			} else {
				n += "a"
			}
		}
		out = append(out, n)
	}
	return out
}

func families(tier string) []family {
	var fams []family
	// the trie position sweep: names that differ only at byte k (k = 0..6)
	for k := 0; k < 7; k++ {
		var names []string
		for _, c := range "abcdeXYZ_019" {
			b := []byte("ppppppp")
			b[k] = byte(c)
			if k == 0 && c >= '0' && c <= '9' {
				continue // an identifier cannot start with a digit
			}
			names = append(names, string(b))
		}
		fams = append(fams, famProgram(fmt.Sprintf("trie-pos%d", k), i32Fields(names, nil), "names differ only at one byte position"))
	}
	// the trie/hash threshold: 19 names over two bytes per position (average bucket 9.5) vs 20 (10.0)
	fams = append(fams, famProgram("threshold-19", i32Fields(binNames(5, "t")[:19], nil), "19 names t[ab]{5}: average bucket 9.5 at best"))
	fams = append(fams, famProgram("threshold-20", i32Fields(binNames(5, "t")[:20], nil), "20 names t[ab]{5}: average bucket 10"))
	if tier == "thorough" {
		fams = append(fams, famProgram("hash-128", i32Fields(binNames(7, "h"), nil), "128 names h[ab]{7}"))
		fams = append(fams, famProgram("hash-256", i32Fields(binNames(8, "h"), nil), "256 names h[ab]{8}"))
		fams = append(fams, famProgram("hash-32", i32Fields(binNames(5, "h"), nil), "32 names h[ab]{5}"))
	}
	// trie on position 0: every name starts with another letter
	fams = append(fams, famProgram("trie-first", i32Fields([]string{"alpha", "beta", "gamma", "delta", "eps", "zeta", "Eta", "_theta"}, []int{1, 2, 255, 256, 257, 32767, 4, 3}), "distinct first byte"))
	// trie on the last position of a common prefix
	fams = append(fams, famProgram("trie-last", i32Fields([]string{"field_a", "field_b", "field_c", "field_d", "field_e", "field_0", "field_Z"}, nil), "common prefix, distinct last byte"))
	// ideal position beyond the shortest key
	fams = append(fams, famProgram("trie-beyond", i32Fields([]string{"x", "xy", "xyz", "xyzw", "xyzwv"}, nil), "keys are prefixes of each other; ideal position is past the short ones"))
	// exactly 56 index slots ('e' is the largest byte at the key position): 56*32 bytes is an exact size class
	fams = append(fams, famProgram("trie-edge", i32Fields([]string{"a1", "b1", "c1", "d1", "e1"}, nil), "largest key byte 'e' at the trie position"))
	// single field, empty struct
	fams = append(fams, famProgram("single", i32Fields([]string{"only"}, []int{65535 / 2}), "one field"))
	fams = append(fams, famProgram("empty", nil, "no field"))
	// aliases with bytes below '.' and above 0x7f, the empty alias, alias = other field's name
	al := []*Field{
		anno(fld(1, "f1", T(I32)), "api.key", "a-b"),
		anno(fld(2, "f2", T(I32)), "api.key", "a b"),
		anno(fld(3, "f3", T(I32)), "api.key", "x.y"),
		anno(fld(4, "f4", T(I32)), "api.key", "é"),
		anno(fld(5, "f5", T(I32)), "api.key", "日本"),
		anno(fld(6, "f6", T(I32)), "api.key", ""),
		anno(fld(7, "f7", T(I32)), "api.key", "f8"),
		anno(fld(8, "f8", T(I32)), "api.key", "moved"),
		anno(fld(9, "f9", T(I32)), "api.key", "!bang"),
		anno(fld(10, "f10", T(I32)), "api.key", "~tilde"),
		anno(fld(11, "f11", T(I32)), "api.key", "ÿ"),
		fld(12, "plain", T(I32)),
	}
	fams = append(fams, famProgram("alias-bytes", al, "aliases with bytes < '.', >= 0x80, empty alias, alias equal to another name"))
	// hash mode: >= 10 names per distinct byte at every position.
	names := binNames(6, "a") // 64 names a[ab]{6}
	hf := i32Fields(names, nil)
	id := len(hf)
	addH := func(f *Field) { id++; f.ID = id; hf = append(hf, f) }
	addH(feat(fld(0, HashZeroKeys[0], T(I32)), "hash-zero"))                                  // declared key whose hash is 0
	addH(feat(fld(0, "aaaaabA", T(I32)), "hash-collision"))                                   // same 32-bit DJB hash as aaaaaab
	addH(feat(anno(fld(0, "nonascii", T(I32)), "api.key", "aaaaaé"), "hash,non-ascii-alias")) // 7 bytes
	fams = append(fams, famProgram("hash", hf, "64 names over {a,b} + a hash-0 name + a full-hash collision + a non-ASCII alias"))
	// hash mode with a full 32-bit collision between two declared names and nothing that forces the trie (the "hash"
	// family above holds a hash-0 key, which the library cannot store in its hash map and therefore keeps in a trie)
	{
		cf := i32Fields(binNames(6, "a"), nil)
		c := feat(fld(len(cf)+1, "aaaaabA", T(I32)), "hash-collision")
		cf = append(cf, c)
		fams = append(fams, famProgram("hash-collide", cf, "64 names a[ab]{6} + aaaaabA, which has the 32-bit DJB hash of aaaaaab"))
	}
	// hash mode, names only (what a plain IDL can produce): no special keys
	fams = append(fams, famProgram("hash-plain", i32Fields(binNames(6, "q"), nil), "64 names q[ab]{6}"))
	// hash mode with a chain running over the table end (names chosen so that two of them fall on the last slot)
	fams = append(fams, famProgram("hash-wrap", i32Fields(wrapNames(), nil), "64 names + 3 names hashing to the last bucket"))
	return fams
}

// wrapNames: 64 names w[ab]{6} plus three names "w" + 6 of [cdef] whose DJB slot is N-1 for
// N = 4*67, found by a fixed-order search. All have length 7 so that every position keeps >= 10 names per byte.
func wrapNames() []string {
	names := binNames(6, "w")
	n := uint32(4 * (len(names) + 3))
	found := 0
	var rec func(p string, d int)
	rec = func(p string, d int) {
		if found == 3 {
			return
		}
		if d == 6 {
			if DJB32(p)%n == n-1 {
				names = append(names, p)
				found++
			}
			return
		}
		for _, c := range "cdef" {
			rec(p+string(c), d+1)
		}
	}
	rec("w", 0)
	if found != 3 {
		panic("c14: wrap names not found")
	}
	return names
}

// DJB32 is the harness's own copy of the documented hash (hash*33 + c, seed 5381) used only to construct keys.
func DJB32(s string) uint32 {
	h := uint32(5381)
	for i := 0; i < len(s); i++ {
		h = h*33 + uint32(s[i])
	}
	return h
}

// progShapes: one struct with a field of every type expression of depth <= d over the leaf alphabet
// {i32, string, binary, double, enum, typedef, local struct, included struct, the struct itself}.
func progShapes(depth int) *Program {
	inc := &File{Path: "a/b/shinc.thrift", NS: "shinc"}
	incS := inc.AddStruct("struct", "Far", fld(1, "far", T(I64)))
	f := newMain("shapes")
	f.Include("shinc.thrift", inc)
	en := f.AddEnum("E", EnumVal{"A", 0}, EnumVal{"B", 1})
	td := f.AddTypedef("TD", T(I64))
	loc := f.AddStruct("struct", "Near", fld(1, "near", T(String)))
	root := f.AddStruct("struct", "Shapes")
	leaves := []*TRef{T(I32), T(String), T(Binary), T(Double), RefE(en), RefTD(td), Ref(loc), Ref(incS), Ref(root)}
	keys := []*TRef{T(String), T(I32), RefE(en), RefTD(td)}
	level := leaves
	var all []*TRef
	for d := 1; d <= depth; d++ {
		var next []*TRef
		for _, e := range level {
			next = append(next, ListOf(e), SetOf(e))
			for _, k := range keys {
				next = append(next, MapOf(k, e))
			}
		}
		all = append(all, next...)
		level = next
		if d >= 2 {
			// keep the next level finite but small: every 7th shape feeds depth 3
			var sub []*TRef
			for i := 0; i < len(next); i += 7 {
				sub = append(sub, next[i])
			}
			level = sub
		}
	}
	for i, l := range leaves {
		root.Fields = append(root.Fields, reqd(fld(i+1, fmt.Sprintf("leaf%d", i+1), l), ReqOptional))
	}
	for i, t := range all {
		id := len(leaves) + i + 1
		root.Fields = append(root.Fields, reqd(fld(id, fmt.Sprintf("s%d", id), t), id%3))
	}
	wrapService(f, root, root)
	name := fmt.Sprintf("shapes-depth%d", depth)
	return &Program{Name: name, Main: f, Feat: name}
}

func partAPrograms(tier string) []*Program {
	shapes := progShapes(2)
	if tier == "thorough" {
		shapes = progShapes(3)
	}
	ps := []*Program{shapes,
		progScalars(), progContainers(), progTypedefs(), progEnums(), progUnionsExceptions(), progSelfRec(), progMutRec(),
		progIncludes(), progExtendsSameFile(), progExtendsCrossFile(false, false), progExtendsCrossFile(true, false),
		progExtendsCrossFile(false, true), progExtendsCrossFile(true, true), progExtendsCrossFileS(false, false, true), progExtendsCrossFileS(false, true, true), progExtendsCrossFileD(false, false, false, true), progExtendsCrossFileD(false, true, false, true), progExtendsChainNested(), progMultiService(), progFuncs(),
		progDefaults(), progAliases(), progBase("root-only"), progBase("nested-first"), progBase("root-first"), progSuppressed(),
	}
	return ps
}
