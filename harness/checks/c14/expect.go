package c14

import (
	"bytes"
	"encoding/binary"
	"encoding/json"
	"fmt"
	"math"
	"reflect"
	"strings"

	"github.com/cloudwego/dynamicgo/meta"
	"github.com/cloudwego/dynamicgo/thrift"

	"verif/engine/core"
	. "verif/ref/idlref"
)

// optSet is one point of the parse-option space named by the property.
type optSet struct {
	MapWay   int // 0 alias, 1 field name, 2 both
	SvcMode  int // 0 last, 1 first, 2 combine
	SvcName  string
	FnMode   int // 0 both, 1 request only, 2 response only
	EnumI64  bool
	OptBits  bool
	UseDef   bool
	Base     bool
	BodyFast bool
}

func (o optSet) thrift() thrift.Options {
	return thrift.Options{
		MapFieldWay:       meta.MapFieldWay(o.MapWay),
		ParseServiceMode:  meta.ParseServiceMode(o.SvcMode),
		ServiceName:       o.SvcName,
		ParseFunctionMode: meta.ParseFunctionMode(o.FnMode),
		ParseEnumAsInt64:  o.EnumI64,
		SetOptionalBitmap: o.OptBits,
		UseDefaultValue:   o.UseDef,
		EnableThriftBase:  o.Base,
		ApiBodyFastPath:   o.BodyFast,
	}
}

func (o optSet) String() string {
	return fmt.Sprintf("map=%d svc=%d name=%q fn=%d enum64=%v optbits=%v usedef=%v base=%v bodyfast=%v", o.MapWay, o.SvcMode, o.SvcName, o.FnMode, o.EnumI64, o.OptBits, o.UseDef, o.Base, o.BodyFast)
}

// selection of services / functions the options ask for.
// ok=false: the options name a service that does not exist (an error is the declared outcome).
// ambiguous=true: the union of functions contains one name twice (the statement does not say which wins).
func expectedFuncs(p *Program, o optSet) (fns []*Func, svcName string, ok bool, ambiguous bool) {
	svcs := p.Main.Services
	var sel []*Service
	switch {
	case o.SvcName != "":
		for _, s := range svcs {
			if s.Name == o.SvcName {
				sel = []*Service{s}
			}
		}
		if sel == nil {
			return nil, "", false, false
		}
		svcName = o.SvcName
	case o.SvcMode == 0:
		sel = svcs[len(svcs)-1:]
		svcName = sel[0].Name
	case o.SvcMode == 1:
		sel = svcs[:1]
		svcName = sel[0].Name
	default:
		sel = svcs
	}
	seen := map[string]bool{}
	for _, s := range sel {
		for _, f := range s.AllFuncs() {
			if seen[f.Name] {
				ambiguous = true
			}
			seen[f.Name] = true
			fns = append(fns, f)
		}
	}
	return fns, svcName, true, ambiguous
}

// cmp walks a parsed service descriptor against the object graph.
type cmp struct {
	r    *core.Result
	o    optSet
	p    *Program
	seen map[string]bool // signatures already reported in this case
	memo map[memoKey]bool
	n    int64 // number of facts compared
}

type memoKey struct {
	sd     *thrift.StructDescriptor
	s      *Struct
	root   bool
	target int
}

const (
	tgtRequest  = 0
	tgtResponse = 1
	tgtExc      = 2
)

func (c *cmp) bad(feat, what, format string, a ...interface{}) {
	if feat == "" {
		feat = c.p.Feat
	}
	sig := "desc|" + feat + "|" + what
	if c.seen[sig] {
		return
	}
	c.seen[sig] = true
	c.r.Add(sig, "program %s, options {%s}: "+format, append([]interface{}{c.p.Name, c.o}, a...)...)
}

func featOf(parts ...string) string {
	for _, p := range parts {
		if p != "" {
			return p
		}
	}
	return ""
}

func (c *cmp) service(svc *thrift.ServiceDescriptor, fns []*Func, svcName string) {
	if svcName != "" && svc.Name() != svcName {
		c.bad("", "service-name", "service name %q, declared %q", svc.Name(), svcName)
	}
	got := svc.Functions()
	want := map[string]*Func{}
	for _, f := range fns {
		want[f.Name] = f
		fd := got[f.Name]
		if fd == nil {
			c.bad(f.Feat, "function-missing", "declared function %s is not exposed (exposed: %v)", f.Name, fnNames(got))
			continue
		}
		if l, err := svc.LookupFunctionByMethod(f.Name); err != nil || l != fd {
			c.bad(f.Feat, "function-lookup", "LookupFunctionByMethod(%s) = %v, %v", f.Name, l, err)
		}
		c.function(fd, f)
	}
	for name := range got {
		if want[name] == nil {
			c.bad("", "function-extra", "function %s is exposed but not declared for the selected service(s)", name)
		}
	}
	if _, err := svc.LookupFunctionByMethod("no_such_method"); err == nil {
		c.bad("", "function-lookup-false-positive", "LookupFunctionByMethod(no_such_method) succeeded")
	}
}

func fnNames(m map[string]*thrift.FunctionDescriptor) []string {
	var out []string
	for k := range m {
		out = append(out, k)
	}
	// sorted for stable details
	for i := range out {
		for j := i + 1; j < len(out); j++ {
			if out[j] < out[i] {
				out[i], out[j] = out[j], out[i]
			}
		}
	}
	return out
}

func (c *cmp) function(fd *thrift.FunctionDescriptor, f *Func) {
	ft := featOf(f.Feat, c.p.Feat)
	c.n++
	if fd.Name() != f.Name {
		c.bad(ft, "function-name", "function %s has name %q", f.Name, fd.Name())
	}
	if fd.Oneway() != f.Oneway {
		c.bad(ft, "oneway", "function %s oneway=%v declared %v", f.Name, fd.Oneway(), f.Oneway)
	}
	if c.o.FnMode != 2 { // request parsed
		req := fd.Request()
		if req == nil || req.Type() != thrift.STRUCT || req.Struct() == nil {
			c.bad(ft, "request-wrapper", "function %s: request descriptor %v is not the argument struct", f.Name, req)
		} else {
			w := req.Struct()
			a := w.FieldById(thrift.FieldID(f.ArgID))
			if a == nil || len(w.Fields()) != 1 || w.Fields()[0] != a {
				c.bad(ft, "request-wrapper", "function %s: argument wrapper does not hold exactly argument %d (fields=%d)", f.Name, f.ArgID, len(w.Fields()))
			} else {
				if a.Name() != f.ArgName || int(a.ID()) != f.ArgID {
					c.bad(ft, "request-argument", "function %s: argument is %d:%s, declared %d:%s", f.Name, a.ID(), a.Name(), f.ArgID, f.ArgName)
				}
				if w.FieldByKey(f.ArgName) != a {
					c.bad(ft, "request-argument-key", "function %s: FieldByKey(%q) on the argument wrapper does not return the argument", f.Name, f.ArgName)
				}
				c.typ(a.Type(), f.Arg, ft, fmt.Sprintf("%s(arg)", f.Name), tgtRequest, 0)
			}
		}
	}
	if c.o.FnMode != 1 { // response parsed
		resp := fd.Response()
		if resp == nil || resp.Type() != thrift.STRUCT || resp.Struct() == nil {
			c.bad(ft, "response-wrapper", "function %s: response descriptor %v is not the result struct", f.Name, resp)
			return
		}
		w := resp.Struct()
		nf := 1
		if f.Throw != nil {
			nf = 2
		}
		if len(w.Fields()) != nf {
			c.bad(ft, "response-wrapper", "function %s: result wrapper has %d fields, declared %d", f.Name, len(w.Fields()), nf)
		}
		s := w.FieldById(0)
		if s == nil {
			c.bad(ft, "response-wrapper", "function %s: result wrapper has no field 0", f.Name)
		} else if f.Ret.K == Void {
			if s.Type() == nil || s.Type().Type() != thrift.VOID {
				c.bad(ft, "response-void", "function %s: void result has type %v", f.Name, s.Type())
			}
		} else {
			c.typ(s.Type(), f.Ret, ft, fmt.Sprintf("%s(result)", f.Name), tgtResponse, 0)
		}
		if s != nil && w.FieldByKey(s.Alias()) != s {
			// the result field is declared under its (empty) name: also when it is the wrapper's only key
			c.bad(ft, "result-field-key", "function %s: FieldByKey(%q) on the result wrapper does not return the result field (id 0)", f.Name, s.Alias())
		}
		if f.Throw != nil {
			e := w.FieldById(thrift.FieldID(f.ThrowID))
			if e == nil || e == s {
				c.bad(ft, "exception-field", "function %s: result wrapper has no exception field %d", f.Name, f.ThrowID)
			} else {
				if e.Name() != f.ThrowName {
					c.bad(ft, "exception-field", "function %s: exception field is named %q, declared %q", f.Name, e.Name(), f.ThrowName)
				}
				if w.FieldByKey(f.ThrowName) != e {
					c.bad(ft, "exception-field-key", "function %s: FieldByKey(%q) does not return the exception field", f.Name, f.ThrowName)
				}
				c.typ(e.Type(), f.Throw, ft, fmt.Sprintf("%s(throws)", f.Name), tgtExc, 0)
			}
		}
	}
}

var kindType = map[Kind]thrift.Type{Bool: thrift.BOOL, Byte: thrift.BYTE, I8: thrift.I08, I16: thrift.I16, I32: thrift.I32, I64: thrift.I64,
	Double: thrift.DOUBLE, String: thrift.STRING, Binary: thrift.STRING, List: thrift.LIST, Set: thrift.SET, Map: thrift.MAP, StructK: thrift.STRUCT}

// expected wire type of a (typedef-resolved) reference
func (c *cmp) wireType(t *TRef) thrift.Type {
	t = t.Resolve()
	if t.K == EnumK {
		if c.o.EnumI64 {
			return thrift.I64
		}
		return thrift.I32
	}
	return kindType[t.K]
}

// typ compares one type descriptor with the declared type. depth 0 + direct struct reference = function root.
func (c *cmp) typ(td *thrift.TypeDescriptor, t *TRef, feat, where string, target int, depth int) {
	c.n++
	direct := t.K == StructK
	t = t.Resolve()
	if td == nil {
		c.bad(feat, "type-nil", "%s: nil type descriptor for declared %s", where, c.p.Main.TypeText(tSafe(t)))
		return
	}
	if td.Type() != c.wireType(t) {
		c.bad(feat, "type-kind", "%s: type %v, declared %v", where, td.Type(), c.wireType(t))
		return
	}
	switch t.K {
	case Binary:
		if !td.IsBinary() {
			c.bad(feat, "binary-flag", "%s: declared binary but IsBinary()=false", where)
		}
	case String:
		if td.IsBinary() {
			c.bad(feat, "binary-flag", "%s: declared string but IsBinary()=true", where)
		}
	case List, Set:
		c.typ(td.Elem(), t.Elem, feat, where+"/elem", target, depth+1)
	case Map:
		c.typ(td.Key(), t.Key, feat, where+"/key", target, depth+1)
		c.typ(td.Elem(), t.Elem, feat, where+"/value", target, depth+1)
	case StructK:
		if td.Struct() == nil {
			c.bad(feat, "type-nil", "%s: struct type without struct descriptor", where)
			return
		}
		c.structure(td.Struct(), t.S, feat, where, target, depth == 0 && direct)
	}
}

// tSafe avoids rendering cross-file names from the wrong file in messages.
func tSafe(t *TRef) *TRef {
	if t.K == StructK || t.K == EnumK || t.K == TypedefK {
		return T(String)
	}
	return t
}

func isBaseType(t *TRef, name string) bool {
	return t.K == StructK && t.S.Name == name && strings.HasSuffix(t.S.File.Path, "/base.thrift")
}

// expected alias of a field
func (c *cmp) alias(f *Field, root bool) (string, bool) {
	alias := f.Name
	n := 0
	for _, a := range f.Annos {
		switch a.K {
		case "api.key":
			alias = a.V
			n++
		case "go.tag":
			if strings.HasPrefix(a.V, `json:"`) {
				alias = strings.TrimSuffix(strings.TrimPrefix(a.V, `json:"`), `"`)
				n++
			}
		case "api.body":
			if c.o.BodyFast && root {
				alias = a.V
				n++
			}
		}
	}
	return alias, n <= 1
}

// keysOf returns the declared lookup keys of a struct: key -> candidate fields.
func keysOf(s *Struct, mapWay int, aliasOf func(f *Field) string) (map[string][]*Field, []string) {
	m := map[string][]*Field{}
	var order []string
	add := func(k string, f *Field) {
		for _, x := range m[k] {
			if x == f {
				return
			}
		}
		if _, ok := m[k]; !ok {
			order = append(order, k)
		}
		m[k] = append(m[k], f)
	}
	for _, f := range s.Fields {
		if mapWay == 0 || mapWay == 2 {
			add(aliasOf(f), f)
		}
		if mapWay == 1 || mapWay == 2 {
			add(f.Name, f)
		}
	}
	return m, order
}

// hidden: field suppression annotations. dynamicgo.deprecated hides a field on every side; api.none hides it in
// structs reached from a RESPONSE (not from a request, not from an exception).
func hidden(f *Field, target int) bool {
	for _, a := range f.Annos {
		if a.K == "dynamicgo.deprecated" || (a.K == "api.none" && target == tgtResponse) {
			return true
		}
	}
	return false
}

func (c *cmp) structure(sd *thrift.StructDescriptor, s *Struct, feat, where string, target int, root bool) {
	k := memoKey{sd, s, root, target}
	if c.memo[k] {
		return
	}
	c.memo[k] = true
	// the fields this side is to see
	{
		vis := *s
		vis.Fields = nil
		for _, f := range s.Fields {
			if !hidden(f, target) {
				vis.Fields = append(vis.Fields, f)
			}
		}
		s = &vis
	}
	sf := featOf(s.Feat, feat)
	where = where + ":" + s.Name
	if sd.Name() != s.Name {
		c.bad(sf, "struct-name", "%s: struct descriptor is named %q, declared %q", where, sd.Name(), s.Name)
	}
	declared := map[thrift.FieldID]*Field{}
	for _, f := range s.Fields {
		c.n++
		ff := featOf(f.Feat, sf)
		declared[thrift.FieldID(f.ID)] = f
		fd := sd.FieldById(thrift.FieldID(f.ID))
		if fd == nil {
			c.bad(ff, "field-missing", "%s: declared field %d:%s is not exposed (exposed: %s)", where, f.ID, f.Name, fieldList(sd))
			continue
		}
		if int(fd.ID()) != f.ID {
			c.bad(ff, "field-id", "%s: FieldById(%d) returns a field with id %d", where, f.ID, fd.ID())
		}
		if fd.Name() != f.Name {
			c.bad(ff, "field-name", "%s: field %d is named %q, declared %q (exposed: %s)", where, f.ID, fd.Name(), f.Name, fieldList(sd))
			continue
		}
		wantAlias, certain := c.alias(f, root)
		if certain && fd.Alias() != wantAlias {
			c.bad(ff, "field-alias", "%s: field %s has alias %q, declared %q", where, f.Name, fd.Alias(), wantAlias)
		}
		wantReq := map[int]thrift.Requireness{ReqDefault: thrift.DefaultRequireness, ReqRequired: thrift.RequiredRequireness, ReqOptional: thrift.OptionalRequireness}[f.Req]
		if s.Cat == "union" {
			wantReq = thrift.OptionalRequireness
		}
		if fd.Required() != wantReq {
			c.bad(ff, "requiredness", "%s: field %s requiredness %d, declared %d", where, f.Name, fd.Required(), wantReq)
		}
		// thrift base (Options.EnableThriftBase): type base.Base / base.BaseResp AND top layer of the root struct of a function
		isReqBase := isBaseType(f.T, "Base")
		isRespBase := isBaseType(f.T, "BaseResp")
		baseField := false
		if isReqBase || isRespBase {
			ff := c.p.Feat + "," + ifs(isReqBase, "base.Base", "base.BaseResp") // the declaration order of the program is the trigger
			switch {
			case !c.o.Base || !root:
				if fd.IsRequestBase() || fd.IsResponseBase() {
					why := "EnableThriftBase is off"
					if c.o.Base {
						why = "the field is not on the top layer of a function's root struct"
					}
					c.bad(ff+ifs(root, ",at-root", ",nested-use"), "base-flag-unexpected", "%s: field %s reports request-base=%v response-base=%v although %s", where, f.Name, fd.IsRequestBase(), fd.IsResponseBase(), why)
				}
			case isReqBase && target == tgtRequest:
				baseField = true
				if !fd.IsRequestBase() || sd.GetRequestBase() != fd {
					c.bad(ff+",at-root", "base-flag-missing", "%s: root field %s of type base.Base is not recognised as the request base (IsRequestBase=%v)", where, f.Name, fd.IsRequestBase())
				}
			case isRespBase && target == tgtResponse:
				baseField = true
				if !fd.IsResponseBase() || sd.GetResponseBase() != fd {
					c.bad(ff+",at-root", "base-flag-missing", "%s: root field %s of type base.BaseResp is not recognised as the response base (IsResponseBase=%v)", where, f.Name, fd.IsResponseBase())
				}
			default:
				baseField = true // cross combinations: not specified
			}
		}
		// requires bitmap
		if !baseField {
			wantBit := wantReq != thrift.OptionalRequireness || c.o.OptBits
			bm := sd.Requires()
			inRange := f.ID/64 < len(bm)
			gotBit := inRange && bm.IsSet(thrift.FieldID(f.ID))
			if gotBit != wantBit {
				c.bad(ff, "requires-bitmap", "%s: field %s (requiredness %d, SetOptionalBitmap=%v): bitmap bit %v, want %v", where, f.Name, wantReq, c.o.OptBits, gotBit, wantBit)
			}
		}
		// default value
		c.deflt(fd, f, ff, where)
		// type
		c.typ(fd.Type(), f.T, ff, where+"."+f.Name, target, 1)
	}
	// exactness
	if sd.Len() != len(s.Fields) {
		c.bad(sf, "field-count", "%s: %d fields exposed, %d declared (exposed: %s)", where, sd.Len(), len(s.Fields), fieldList(sd))
	}
	for _, fd := range sd.Fields() {
		if declared[fd.ID()] == nil {
			c.bad(sf, "field-extra", "%s: field %d:%s is exposed but not declared", where, fd.ID(), fd.Name())
		}
	}
	// the requires bitmap marks exposed fields only (a bit without a field makes every CheckRequires of the struct fail)
	{
		bm := sd.Requires()
		for id := 0; id < len(bm)*64 && id < 65536; id++ {
			if bm.IsSet(thrift.FieldID(id)) && declared[thrift.FieldID(id)] == nil {
				c.bad(sf, "requires-bitmap-marks-a-field-the-struct-does-not-expose", "%s: Requires() has the bit of id %d set, no exposed field has that id (exposed: %s)", where, id, fieldList(sd))
				break
			}
		}
	}
	// declared keys resolve to their fields (the exhaustive absent-key sweep is in the lookup groups)
	km, order := keysOf(s, c.o.MapWay, func(f *Field) string { a, _ := c.alias(f, root); return a })
	for _, key := range order {
		cands := km[key]
		certain := true
		for _, f := range cands {
			if _, ok := c.alias(f, root); !ok {
				certain = false
			}
		}
		if !certain {
			continue
		}
		fd := sd.FieldByKey(key)
		ok := false
		for _, f := range cands {
			if fd != nil && int(fd.ID()) == f.ID && fd == sd.FieldById(thrift.FieldID(f.ID)) {
				ok = true
			}
		}
		if !ok {
			ff := featOf(cands[0].Feat, sf)
			c.bad(ff, "declared-key-not-found", "%s: FieldByKey(%q) = %v, declared field %s", where, key, fdName(fd), cands[0].Name)
		}
	}
}

func ifs(b bool, x, y string) string {
	if b {
		return x
	}
	return y
}

func fdName(fd *thrift.FieldDescriptor) string {
	if fd == nil {
		return "nil"
	}
	return fmt.Sprintf("%d:%s", fd.ID(), fd.Name())
}

func fieldList(sd *thrift.StructDescriptor) string {
	var p []string
	for _, f := range sd.Fields() {
		p = append(p, fmt.Sprintf("%d:%s", f.ID(), f.Name()))
	}
	if len(p) > 12 {
		p = append(p[:12], "...")
	}
	return strings.Join(p, ",")
}

// deflt compares the default value (go / json / thrift forms) of scalar-typed fields.
func (c *cmp) deflt(fd *thrift.FieldDescriptor, f *Field, ff, where string) {
	dv := fd.DefaultValue()
	if !c.o.UseDef {
		return // without UseDefaultValue nothing is stored; nothing declared is contradicted either way
	}
	if f.Def == nil {
		if dv != nil {
			c.bad(ff, "default-unexpected", "%s: field %s has no declared default but exposes %#v", where, f.Name, dv.GoValue())
		}
		return
	}
	rt := f.T.Resolve()
	want := LitValue(f.Def)
	// convert the literal to the field's kind
	var wantThrift []byte
	var kind string
	switch rt.K {
	case Bool:
		switch v := want.(type) {
		case bool:
		case int64:
			want = v != 0
		default:
			return
		}
		kind = "bool"
		wantThrift = []byte{0}
		if want.(bool) {
			wantThrift = []byte{1}
		}
	case Byte, I8, I16, I32, I64, EnumK:
		v, ok := want.(int64)
		if !ok {
			return
		}
		kind = "int"
		switch c.wireType(rt) {
		case thrift.BYTE:
			wantThrift = []byte{byte(v)}
		case thrift.I16:
			wantThrift = binary.BigEndian.AppendUint16(nil, uint16(v))
		case thrift.I32:
			wantThrift = binary.BigEndian.AppendUint32(nil, uint32(v))
		default:
			wantThrift = binary.BigEndian.AppendUint64(nil, uint64(v))
		}
	case Double:
		switch v := want.(type) {
		case float64:
		case int64:
			want = float64(v)
		default:
			return
		}
		kind = "double"
		wantThrift = binary.BigEndian.AppendUint64(nil, math.Float64bits(want.(float64)))
	case String, Binary:
		v, ok := want.(string)
		if !ok {
			return
		}
		kind = "string"
		wantThrift = append(binary.BigEndian.AppendUint32(nil, uint32(len(v))), v...)
	default:
		return // container / struct defaults: the repository's own tests document them as unsupported (nil)
	}
	c.n++
	if dv == nil {
		c.bad(ff, "default-missing", "%s: field %s declares default %v but DefaultValue() is nil", where, f.Name, want)
		return
	}
	// go form: same value (any integer / float width accepted)
	gv := reflect.ValueOf(dv.GoValue())
	okGo := false
	switch kind {
	case "bool":
		okGo = gv.Kind() == reflect.Bool && gv.Bool() == want.(bool)
	case "int":
		switch gv.Kind() {
		case reflect.Int, reflect.Int8, reflect.Int16, reflect.Int32, reflect.Int64:
			okGo = gv.Int() == want.(int64)
		}
	case "double":
		okGo = (gv.Kind() == reflect.Float64 || gv.Kind() == reflect.Float32) && math.Float64bits(gv.Float()) == math.Float64bits(want.(float64))
	case "string":
		if gv.Kind() == reflect.String {
			okGo = gv.String() == want.(string)
		} else if b, ok := dv.GoValue().([]byte); ok {
			okGo = string(b) == want.(string)
		}
	}
	if !okGo {
		c.bad(ff, "default-go", "%s: field %s default go value %#v, declared %#v", where, f.Name, dv.GoValue(), want)
	}
	// json form: decodes to the same value
	var jv interface{}
	dec := json.NewDecoder(strings.NewReader(dv.JSONValue()))
	dec.UseNumber()
	okJ := false
	if err := dec.Decode(&jv); err == nil && !dec.More() {
		switch kind {
		case "bool":
			b, ok := jv.(bool)
			okJ = ok && b == want.(bool)
		case "int":
			n, ok := jv.(json.Number)
			if ok {
				i, err := n.Int64()
				okJ = err == nil && i == want.(int64)
			}
		case "double":
			n, ok := jv.(json.Number)
			if ok {
				x, err := n.Float64()
				okJ = err == nil && math.Float64bits(x) == math.Float64bits(want.(float64))
			}
		case "string":
			s, ok := jv.(string)
			okJ = ok && s == want.(string)
		}
	}
	if !okJ {
		c.bad(ff, "default-json", "%s: field %s default JSON form %q, declared %#v", where, f.Name, dv.JSONValue(), want)
	}
	if !bytes.Equal([]byte(dv.ThriftBinary()), wantThrift) {
		c.bad(ff, "default-thrift", "%s: field %s default thrift form %x, want %x", where, f.Name, dv.ThriftBinary(), wantThrift)
	}
}
