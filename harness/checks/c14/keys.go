package c14

import (
	"fmt"
	"strings"
)

// lookupKey is one element of the key alphabet with its trigger class.
type lookupKey struct {
	K     string
	Class string
}

var subAlphabet = []string{"-", ".", "/", "0", "A", "z", "\x7f", "\x00", " ", "é", "\x80", "\xff"}
var extAlphabet = []string{"-", ".", "/", "0", "A", "a", "z", "_", "\x7f", "\x00", "é", "\x80"}

// bucketCollision finds, in a fixed enumeration order, the first string over [0-9a-z] that is not declared and
// falls into the same open-addressing slot (hash mod n) as k with a different 32-bit hash.
func bucketCollision(k string, n uint32, declared map[string]bool) (string, bool) {
	const al = "0123456789abcdefghijklmnopqrstuvwxyz"
	h := DJB32(k)
	var res string
	var rec func(p string, d, max int) bool
	rec = func(p string, d, max int) bool {
		if d == max {
			if !declared[p] && DJB32(p) != h && DJB32(p)%n == h%n {
				res = p
				return true
			}
			return false
		}
		for i := 0; i < len(al); i++ {
			if rec(p+string(al[i]), d+1, max) {
				return true
			}
		}
		return false
	}
	for l := 1; l <= 4; l++ {
		if rec("", 0, l) {
			return res, true
		}
	}
	return "", false
}

// keyAlphabet builds the lookup keys for a struct whose declared keys are `declared` (in order).
// tableSize is the size the hash structure would have (4 x number of keys) - used only to construct
// slot collisions; if the struct is in trie mode those keys are just more absent keys.
func keyAlphabet(declared []string, tableSize uint32, tier string) []lookupKey {
	seen := map[string]bool{}
	var out []lookupKey
	add := func(k, class string) {
		if seen[k] {
			return
		}
		seen[k] = true
		out = append(out, lookupKey{k, class})
	}
	decl := map[string]bool{}
	for _, k := range declared {
		decl[k] = true
	}
	add("", "empty")
	for _, k := range declared {
		add(k, "declared")
	}
	for _, k := range HashZeroKeys {
		add(k, "hash-zero")
	}
	for _, k := range declared {
		for i := 1; i < len(k); i++ {
			add(k[:i], "prefix")
		}
	}
	for _, k := range declared {
		for _, c := range extAlphabet {
			add(k+c, "extension")
		}
		for _, c := range []string{"a", "_", "-", "\x00", "é"} {
			add(c+k, "extension-front")
		}
	}
	for _, k := range declared {
		for i := 0; i < len(k); i++ {
			for _, c := range subAlphabet {
				add(k[:i]+c+k[i+1:], "substitution")
			}
			// the neighbours of the declared byte (index just past / before the trie's slot)
			add(k[:i]+string([]byte{k[i] + 1})+k[i+1:], "substitution,next-byte")
			add(k[:i]+string([]byte{k[i] - 1})+k[i+1:], "substitution,prev-byte")
			// drop one byte
			add(k[:i]+k[i+1:], "deletion")
		}
	}
	// full 32-bit DJB collisions of the same length: 33*x + y == 33*(x+1) + (y-33)
	for _, k := range declared {
		b := []byte(k)
		for i := 0; i+1 < len(b); i++ {
			if b[i] < 255 && b[i+1] >= 33 {
				c := append([]byte{}, b...)
				c[i]++
				c[i+1] -= 33
				if DJB32(string(c)) != DJB32(k) {
					panic("c14: collision construction broken")
				}
				add(string(c), "djb-collision")
			}
			if b[i] > 0 && int(b[i+1])+33 <= 255 {
				c := append([]byte{}, b...)
				c[i]--
				c[i+1] += 33
				add(string(c), "djb-collision")
			}
		}
	}
	// same slot, different hash
	if tableSize > 0 {
		for _, k := range declared {
			if s, ok := bucketCollision(k, tableSize, decl); ok {
				add(s, "bucket-collision")
			}
		}
		// keys for every slot of the table (probe chains, including the one that wraps over the table end)
		for slot := uint32(0); slot < tableSize; slot++ {
			if s, ok := slotKey(slot, tableSize, decl); ok {
				add(s, "slot-sweep")
			}
		}
	}
	// long keys
	first := "k"
	if len(declared) > 0 && declared[0] != "" {
		first = declared[0]
	}
	for _, n := range []int{1023, 1024, 1025, 4097} {
		add(strings.Repeat("k", n), "long")
		add(first+strings.Repeat("x", n-len(first)), "long,declared-prefix")
	}
	if tier == "thorough" {
		for _, n := range []int{255, 256, 257, 65535, 65536, 65537} {
			add(strings.Repeat("k", n), "long")
			add(first+strings.Repeat("x", n-len(first)), "long,declared-prefix")
		}
		// two-position substitutions on declared keys over a small alphabet
		for _, k := range declared {
			for i := 0; i < len(k); i++ {
				for j := i + 1; j < len(k); j++ {
					for _, c := range []string{"a", "b", "\x00", "\xff"} {
						for _, d := range []string{"a", "b", "-", "z"} {
							add(k[:i]+c+k[i+1:j]+d+k[j+1:], "substitution-2")
						}
					}
				}
			}
		}
	}
	return out
}

// slotKey returns the first 2..3 letter key over [a-z] hashing to the given slot.
func slotKey(slot, n uint32, declared map[string]bool) (string, bool) {
	const al = "abcdefghijklmnopqrstuvwxyz"
	for i := 0; i < len(al); i++ {
		for j := 0; j < len(al); j++ {
			s := string([]byte{al[i], al[j]})
			if !declared[s] && DJB32(s)%n == slot {
				return s, true
			}
		}
	}
	for i := 0; i < len(al); i++ {
		for j := 0; j < len(al); j++ {
			for k := 0; k < len(al); k++ {
				s := string([]byte{al[i], al[j], al[k]})
				if !declared[s] && DJB32(s)%n == slot {
					return s, true
				}
			}
		}
	}
	return "", false
}

// jsonKeyDoc renders {"<key>":1} with the key escaped per RFC 8259 (control bytes as \u00XX).
func jsonKeyDoc(key string) []byte {
	var sb strings.Builder
	sb.WriteString(`{"`)
	for i := 0; i < len(key); i++ {
		c := key[i]
		switch {
		case c == '"':
			sb.WriteString(`\"`)
		case c == '\\':
			sb.WriteString(`\\`)
		case c < 0x20:
			fmt.Fprintf(&sb, `\u%04x`, c)
		default:
			sb.WriteByte(c)
		}
	}
	sb.WriteString(`":1}`)
	return []byte(sb.String())
}

func showKey(k string) string {
	if len(k) > 40 {
		return fmt.Sprintf("%q..(%d bytes)", k[:40], len(k))
	}
	return fmt.Sprintf("%q", k)
}
