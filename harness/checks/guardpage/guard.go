// Package guardpage places byte strings flush against an inaccessible (PROT_NONE) page, so that a
// read of even one byte past the end of the buffer faults instead of silently succeeding. With
// debug.SetPanicOnFault(true) (set by the worker) such a fault is a recoverable panic in Go code; in
// hand-loaded native code it kills the worker and is attributed to the announced case by the parent.
// Shared by C06 (over-read monitor) and C18 (quote lane/page boundaries). No dynamicgo dependency.
package guardpage

import (
	"syscall"
	"unsafe"
)

// Arena is a reusable mapping: n data pages followed by one PROT_NONE page.
type Arena struct {
	mem  []byte // whole mapping
	data int    // usable bytes before the guard page
}

var pageSize = syscall.Getpagesize()

// New maps an arena able to hold inputs of up to max bytes.
func New(max int) (*Arena, error) {
	np := (max + pageSize - 1) / pageSize
	if np == 0 {
		np = 1
	}
	m, err := syscall.Mmap(-1, 0, (np+1)*pageSize, syscall.PROT_READ|syscall.PROT_WRITE, syscall.MAP_ANON|syscall.MAP_PRIVATE)
	if err != nil {
		return nil, err
	}
	if err := syscall.Mprotect(m[np*pageSize:], syscall.PROT_NONE); err != nil {
		syscall.Munmap(m)
		return nil, err
	}
	return &Arena{mem: m, data: np * pageSize}, nil
}

// GuardRange is the address range [lo, hi) of the inaccessible page.
func (a *Arena) GuardRange() (lo, hi uintptr) {
	lo = uintptr(unsafe.Pointer(&a.mem[0])) + uintptr(a.data)
	return lo, lo + uintptr(pageSize)
}

// Cap is the largest input Place accepts.
func (a *Arena) Cap() int { return a.data }

// Place copies b so that its last byte is the last accessible byte before the guard page and returns
// the slice (len == cap == len(b)). The result is only valid until the next Place on this arena.
// For len(b)==0 the returned slice is empty with a pointer AT the guard page boundary.
func (a *Arena) Place(b []byte) []byte {
	if len(b) > a.data {
		panic("guardpage: input larger than arena")
	}
	off := a.data - len(b)
	copy(a.mem[off:a.data], b)
	if len(b) == 0 {
		// zero-length slice whose (never to be dereferenced) base is the first guarded byte
		p := unsafe.Pointer(uintptr(unsafe.Pointer(&a.mem[0])) + uintptr(a.data))
		return unsafe.Slice((*byte)(p), 0)
	}
	return a.mem[off:a.data:a.data]
}

// PlaceSlack copies b so that it is followed by slack accessible bytes (all equal to fill) inside the
// slice's CAPACITY, and then the guard page: len == len(b), cap == len(b)+slack. A reader that bounds
// itself by cap() instead of len() reads the filler instead of failing.
func (a *Arena) PlaceSlack(b []byte, slack int, fill byte) []byte {
	if len(b)+slack > a.data {
		panic("guardpage: input larger than arena")
	}
	off := a.data - slack - len(b)
	copy(a.mem[off:], b)
	for i := a.data - slack; i < a.data; i++ {
		a.mem[i] = fill
	}
	return a.mem[off : off+len(b) : a.data]
}

// Probe verifies that the guard works in this process: reading one byte past a placed buffer must
// fault (returns true). Requires debug.SetPanicOnFault(true).
func (a *Arena) Probe() (faulted bool) {
	defer func() {
		if recover() != nil {
			faulted = true
		}
	}()
	b := a.Place([]byte{1, 2, 3})
	p := unsafe.Pointer(uintptr(unsafe.Pointer(&b[0])) + 3)
	sink = *(*byte)(p)
	return false
}

var sink byte

// Close unmaps the arena.
func (a *Arena) Close() { syscall.Munmap(a.mem) }
