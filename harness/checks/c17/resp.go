package c17

import (
	"bytes"
	"context"
	"encoding/base64"
	"encoding/binary"
	"encoding/json"
	"fmt"
	"io/ioutil"
	"math"
	"reflect"
	"strconv"
	"strings"

	"github.com/cloudwego/dynamicgo/conv"
	"github.com/cloudwego/dynamicgo/conv/t2j"
	dhttp "github.com/cloudwego/dynamicgo/http"
	"github.com/cloudwego/dynamicgo/meta"

	"verif/engine/core"
	"verif/ref/httpref"
	"verif/ref/tbin"
)

// ---- response side --------------------------------------------------------------------------------

type respScenario struct {
	t          ftype
	list       []httpref.Source
	level      string
	r          httpref.Requiredness
	present    bool // the field is set in the thrift message
	empty      bool // ... with an empty value ("" / [] / {})
	o          httpref.RespOpts
	kitex      bool
	noB64      bool
	wr, wd, wo bool
}

func (s respScenario) String() string {
	return fmt.Sprintf("type=%s annotations=[%s] level=%s requiredness=%d field-set=%v%s WriteHttpValueFallback=%v OmitHttpMappingErrors=%v UseKitexHttpEncoding=%v NoBase64Binary=%v write=r%vd%vo%v",
		s.t.idl, listName(s.list), s.level, s.r, s.present, ifs(s.empty, "(empty value)", ""), s.o.WriteFallback, s.o.OmitErrors, s.kitex, s.noB64, s.wr, s.wd, s.wo)
}

func respGroups(tier string) []groupDef {
	var gs []groupDef
	types := []ftype{tString, tI32, tDouble, tBinary, tListI32, tMapSS, tStruct}
	if tier == "thorough" {
		types = append(types, tI64, tBool, tListStr)
	}
	for _, lv := range []string{"root", "nested", "nested2"} {
		for _, t := range types {
			gs = append(gs, groupDef{name: fmt.Sprintf("resp/%s/%s", lv, t.name), kind: "resp", t: t, level: lv})
		}
	}
	return gs
}

// the value a response field carries (slot 1) or its zero value
func (s respScenario) value() *tbin.Val {
	if !s.present || s.empty {
		return zeroValue(s.t)
	}
	switch s.t.name {
	case "string":
		return tbin.Str("hello")
	case "i32":
		return tbin.I32v(204)
	case "i64":
		return tbin.I64v(9000000204)
	case "bool":
		return tbin.Bool(true)
	case "binary":
		return tbin.Bin([]byte("xyz")) // ASCII so that the raw (NoBase64Binary) form survives JSON and cookies
	}
	v, _, _ := slotValue(s.t, 1, false, false)
	return v
}

// text form of a scalar value as it must arrive in a header / cookie / raw body; ok=false for complex values.
func (s respScenario) text(v *tbin.Val) (string, bool) {
	switch v.T {
	case tbin.STRING:
		if s.t.name == "binary" && !s.noB64 {
			return base64.StdEncoding.EncodeToString(v.S), true
		}
		return string(v.S), true
	case tbin.I32, tbin.I64, tbin.I16, tbin.BYTE:
		return strconv.FormatInt(v.I, 10), true
	case tbin.BOOL:
		return strconv.FormatBool(v.B), true
	case tbin.DOUBLE:
		return strconv.FormatFloat(v.F, 'g', -1, 64), true
	}
	return "", false
}

// jsonOf renders the model value as the generic JSON structure encoding/json produces.
func (s respScenario) jsonOf(v *tbin.Val) interface{} {
	switch v.T {
	case tbin.STRING:
		if s.t.name == "binary" && !s.noB64 {
			return base64.StdEncoding.EncodeToString(v.S)
		}
		return string(v.S)
	case tbin.I32, tbin.I64, tbin.I16, tbin.BYTE:
		return json.Number(strconv.FormatInt(v.I, 10))
	case tbin.BOOL:
		return v.B
	case tbin.DOUBLE:
		return v.F
	case tbin.LIST, tbin.SET:
		out := []interface{}{}
		for _, e := range v.L {
			out = append(out, s.jsonOf(e))
		}
		return out
	case tbin.MAP:
		out := map[string]interface{}{}
		for i := range v.L {
			out[string(v.K[i].S)] = s.jsonOf(v.L[i])
		}
		return out
	case tbin.STRUCT:
		out := map[string]interface{}{}
		names := map[int16]string{1: "a", 2: "b"}
		for _, f := range v.Fs {
			out[names[f.ID]] = s.jsonOf(f.V)
		}
		return out
	}
	return nil
}

func jsonEq(a, b interface{}) bool {
	switch x := a.(type) {
	case json.Number:
		switch y := b.(type) {
		case json.Number:
			fx, _ := x.Float64()
			fy, _ := y.Float64()
			return fx == fy
		case float64:
			fx, _ := x.Float64()
			return fx == y
		}
		return false
	case float64:
		switch y := b.(type) {
		case json.Number:
			fy, _ := y.Float64()
			return x == fy
		case float64:
			return x == y || (math.IsNaN(x) && math.IsNaN(y))
		}
		return false
	case []interface{}:
		y, ok := b.([]interface{})
		if !ok || len(x) != len(y) {
			return false
		}
		for i := range x {
			if !jsonEq(x[i], y[i]) {
				return false
			}
		}
		return true
	case map[string]interface{}:
		y, ok := b.(map[string]interface{})
		if !ok || len(x) != len(y) {
			return false
		}
		for k, v := range x {
			w, ok := y[k]
			if !ok || !jsonEq(v, w) {
				return false
			}
		}
		return true
	}
	return reflect.DeepEqual(a, b)
}

func parseJSON(b []byte) (interface{}, error) {
	dec := json.NewDecoder(bytes.NewReader(b))
	dec.UseNumber()
	var v interface{}
	if err := dec.Decode(&v); err != nil {
		return nil, err
	}
	if dec.More() {
		return nil, fmt.Errorf("trailing data")
	}
	return v, nil
}

// message builds the thrift struct of the response.
func (s respScenario) message() *tbin.Val {
	var ff []tbin.Field
	if s.present {
		ff = append(ff, tbin.F(1, s.value()))
	}
	switch s.level {
	case "root":
		return tbin.Struct(append(ff, tbin.F(2, tbin.I32v(7)), tbin.F(3, tbin.Str("vv")))...)
	case "nested":
		return tbin.Struct(tbin.F(1, tbin.Struct(append(ff, tbin.F(2, tbin.I32v(5)))...)), tbin.F(2, tbin.I32v(7)))
	default: // nested2
		return tbin.Struct(tbin.F(1, tbin.Struct(tbin.F(1, tbin.Struct(append(ff, tbin.F(2, tbin.I32v(3)))...)), tbin.F(2, tbin.I32v(5)))), tbin.F(2, tbin.I32v(7)))
	}
}

func (s respScenario) convOpts() conv.Options {
	return conv.Options{EnableHttpMapping: true, WriteHttpValueFallback: s.o.WriteFallback, OmitHttpMappingErrors: s.o.OmitErrors,
		UseKitexHttpEncoding: s.kitex, NoBase64Binary: s.noB64, WriteRequireField: s.wr, WriteDefaultField: s.wd, WriteOptionalField: s.wo}
}

// filled: is an unset field written at all (zero value)? err=true: a missing required field is an error.
func (s respScenario) filled() (fill bool, err bool) {
	switch s.r {
	case httpref.Required:
		return s.wr, !s.wr
	case httpref.Optional:
		return s.wo, false
	}
	return s.wd, false
}

func wrapReply(body []byte) []byte {
	var b []byte
	b = binary.BigEndian.AppendUint32(b, 0x80010002)
	b = binary.BigEndian.AppendUint32(b, 1)
	b = append(b, 'M')
	b = binary.BigEndian.AppendUint32(b, 0)
	b = append(b, byte(tbin.STRUCT), 0, 0)
	b = append(b, body...)
	return append(b, 0)
}

func enumResponses(g groupDef, tier string, yield func(core.Case) bool) {
	bools := []bool{false, true}
	for _, l := range orderedLists(respTargets) {
		for _, r := range allReq {
			for _, present := range bools {
				for ob := 0; ob < 4; ob++ {
					for _, kx := range bools {
						if kx && !g.t.complex {
							continue
						}
						for _, nb := range bools {
							if nb && g.t.name != "binary" {
								continue
							}
							for w := 0; w < 8; w++ {
								if present && w != 0 && w != 7 {
									continue // the write options only matter for unset fields; keep the two extremes
								}
								for _, empty := range bools {
									if empty && (!present || w != 0 || g.level == "nested2" || !(g.t.name == "string" || g.t.name == "list_i32" || g.t.name == "map_string_string")) {
										continue
									}
									s := respScenario{t: g.t, list: l, level: g.level, r: r, present: present, empty: empty, o: httpref.RespOpts{WriteFallback: ob&1 != 0, OmitErrors: ob&2 != 0},
										kitex: kx, noB64: nb, wr: w&1 != 0, wd: w&2 != 0, wo: w&4 != 0}
									c := core.Case{
										Tag: "t2j-http",
										Desc: func() interface{} {
											return caseDesc{Group: g.name, Scenario: s.String(), IDL: requestIDL(s.t, s.list, s.r, s.level), Body: fmt.Sprintf("thrift %x", tbin.Bytes(s.message()))}
										},
										Run: func() core.Result { return runResponse(s) },
									}
									if !yield(c) {
										return
									}
								}
							}
						}
					}
				}
			}
		}
	}
}

// observed response
type respObs struct {
	err     error
	body    []byte // JSON body
	header  string
	hasHd   bool
	cookie  string
	hasCk   bool
	status  int
	rawBody []byte
}

func (s respScenario) cell() string {
	lv := "root"
	if s.level != "root" {
		lv = s.level
	}
	return fmt.Sprintf("%s,field-%s%s", lv, ifs(s.present, "set", "unset"), ifs(s.empty, ",empty-value", ""))
}

func typeClass(t ftype) string {
	switch t.name {
	case "i32", "i64":
		return "int"
	case "string", "double", "bool":
		return "non-int-scalar"
	case "binary":
		return "binary"
	}
	return "complex"
}

func runResponse(s respScenario) core.Result {
	r := core.Result{Class: "ok", Key: s.String()}
	idl := requestIDL(s.t, s.list, s.r, s.level)
	pi := core.Catch(func() {
		p := parseIDL(idl)
		if p.err != nil {
			r.Class = "idl-rejected"
			r.Add("idl|"+listName(s.list)+"|parse-error", "%s: %v\n%s", s, p.err, idl)
			return
		}
		desc := p.fn.Response().Struct().FieldById(0).Type()
		msg := tbin.Bytes(s.message())
		val := s.value()
		text, scalar := s.text(val)
		accepts := map[httpref.Source]bool{httpref.Header: true, httpref.Cookie: true, httpref.RawBody: true}
		if scalar {
			_, e := strconv.Atoi(text)
			accepts[httpref.Code] = e == nil
		}
		_, missErr := s.filled()
		var want httpref.Outcome
		switch {
		case s.present:
			want = httpref.DecideResponse(httpref.RespCase{Targets: s.list, Accepts: accepts}, s.o)
		case missErr:
			want = httpref.Outcome{K: httpref.Error}
		default:
			// an unset field: where (and whether) its zero value is written is the business of the requiredness
			// rules (property C16); here only "no failure, valid body, neighbours intact" is required
			want = httpref.Outcome{K: httpref.Zero}
		}
		r.Class = "expect:" + string(want.K) + ifs(want.K == httpref.ToTarget, ":"+string(want.Src), "")
		// NoCopyString only says how string memory is handed on: every delivered value is the same with and without it
		for _, entry := range []string{"BinaryConv.Do", "HTTPConv.Do", "BinaryConv.Do,NoCopyString", "HTTPConv.Do,NoCopyString", "BinaryConv.Do,options-by-SetOptions"} {
			resp := dhttp.NewHTTPResponse()
			var ob respObs
			copts := s.convOpts()
			copts.NoCopyString = strings.HasSuffix(entry, ",NoCopyString")
			if strings.HasPrefix(entry, "BinaryConv.Do") {
				cv := t2j.NewBinaryConv(copts)
				if strings.HasSuffix(entry, "SetOptions") {
					cv = t2j.NewBinaryConv(conv.Options{EnableHttpMapping: false, WriteHttpValueFallback: !copts.WriteHttpValueFallback, OmitHttpMappingErrors: !copts.OmitHttpMappingErrors,
						UseKitexHttpEncoding: !copts.UseKitexHttpEncoding, NoBase64Binary: !copts.NoBase64Binary, WriteRequireField: !copts.WriteRequireField, WriteDefaultField: !copts.WriteDefaultField, WriteOptionalField: !copts.WriteOptionalField})
					cv.SetOptions(copts)
				}
				ctx := context.WithValue(context.Background(), conv.CtxKeyHTTPResponse, resp)
				ob.body, ob.err = cv.Do(ctx, desc, msg)
				if resp.Response.Body != nil {
					ob.rawBody, _ = ioutil.ReadAll(resp.Response.Body)
				}
			} else {
				hc := t2j.NewHTTPConv(meta.EncodingThriftBinary, p.fn)
				ob.err = hc.Do(context.Background(), resp, wrapReply(msg), copts)
				if ob.err == nil && resp.Response.Body != nil {
					ob.body, _ = ioutil.ReadAll(resp.Response.Body)
				}
			}
			ob.header = resp.Response.Header.Get("hk")
			ob.hasHd = len(resp.Response.Header.Values("hk")) > 0
			for _, c := range resp.Cookies() {
				if c.Name == "ck" {
					ob.cookie, ob.hasCk = c.Value, true
				}
			}
			ob.status = resp.Response.StatusCode
			s.judge(&r, want, entry, ob, val, text, scalar)
		}
	})
	if pi != nil {
		r.Class = "panic"
		r.Add("t2j-http|"+s.cell()+"|panic@"+pi.Site+":"+core.PanicClass(pi.Val), "%s\npanic: %s\n%s", s, pi.Val, pi.Stack)
	}
	if len(r.Viol) > 0 && r.Class != "panic" {
		r.Class = "violation"
	}
	return dedupe(r)
}

// dig returns the JSON object that encloses the field and the plain neighbours' check.
func (s respScenario) dig(doc interface{}) (obj map[string]interface{}, plainOK bool, ok bool) {
	root, ok := doc.(map[string]interface{})
	if !ok {
		return nil, false, false
	}
	num := func(m map[string]interface{}, k string, want float64) bool {
		n, ok := m[k].(json.Number)
		if !ok {
			return false
		}
		f, _ := n.Float64()
		return f == want
	}
	switch s.level {
	case "root":
		return root, num(root, "u", 7) && root["v"] == "vv", true
	case "nested":
		mid, ok := root["mid"].(map[string]interface{})
		if !ok {
			return nil, false, false
		}
		return mid, num(root, "u", 7) && num(mid, "u2", 5), true
	default:
		mid, ok := root["mid"].(map[string]interface{})
		if !ok {
			return nil, false, false
		}
		m2, ok := mid["m2"].(map[string]interface{})
		if !ok {
			return nil, false, false
		}
		return m2, num(root, "u", 7) && num(mid, "u2", 5) && num(m2, "u3", 3), true
	}
}

func (s respScenario) judge(r *core.Result, want httpref.Outcome, entry string, ob respObs, val *tbin.Val, text string, scalar bool) {
	where := fmt.Sprintf("%s via %s", s, entry)
	wantS := string(want.K) + ifs(want.K == httpref.ToTarget, ":"+string(want.Src), "")
	sig := func(got string) string { return "t2j-http|" + s.cell() + "|want:" + wantS + ",got:" + got }
	if ob.err != nil {
		if want.K == httpref.Zero && hasSource(s.list, httpref.Code) {
			return // the zero value of an unset field offered to api.http_code may be refused
		}
		if want.K != httpref.Error {
			// the target wanted does not matter for a failure: keep the signature coarse
			r.Add("t2j-http|"+s.cell()+"|want:"+string(want.K)+",got:"+errClass(ob.err), "%s: conversion failed: %v", where, ob.err)
		}
		return
	}
	if want.K == httpref.Error {
		r.Add(sig("no-error"), "%s: an error was expected (a target refused the value and OmitHttpMappingErrors is off, or a required field is missing); body %s header %q status %d", where, ob.body, ob.header, ob.status)
		return
	}
	doc, err := parseJSON(ob.body)
	if err != nil {
		r.Add("t2j-http|"+s.cell()+"|invalid-json-body", "%s: body %q is not valid JSON: %v", where, ob.body, err)
		return
	}
	obj, plainOK, ok := s.dig(doc)
	if !ok {
		r.Add("t2j-http|"+s.cell()+"|enclosing-object-missing", "%s: body %s lacks the enclosing object", where, ob.body)
		return
	}
	if !plainOK {
		r.Add("t2j-http|unannotated-field"+ifs(s.level != "root", ","+s.level, "")+"|wrong-in-body", "%s: un-annotated fields are not delivered unchanged in body %s", where, ob.body)
	}
	_, inBody := obj["f"]
	// which targets were hit?
	hit := map[httpref.Source]bool{httpref.Header: ob.hasHd, httpref.Cookie: ob.hasCk, httpref.Code: ob.status != 0}
	if strings.HasPrefix(entry, "BinaryConv.Do") {
		hit[httpref.RawBody] = ob.rawBody != nil
	}
	var hits []string
	for _, t := range respTargets {
		if hit[t] {
			hits = append(hits, string(t))
		}
	}
	got := "targets[" + strings.Join(hits, "+") + "]" + ifs(inBody, "+body", "")
	if len(hits) == 0 && !inBody {
		got = "nowhere"
	}
	switch want.K {
	case httpref.ToTarget:
		if strings.HasPrefix(entry, "HTTPConv.Do") && want.Src == httpref.RawBody {
			// HTTPConv.Do stores the JSON document as the raw body afterwards: the delivery is not observable here
			if inBody {
				r.Add(sig(got), "%s: the field is still in the JSON body %s", where, ob.body)
			}
			return
		}
		bad := inBody || !hit[want.Src]
		for _, t := range respTargets {
			if t != want.Src && hit[t] && hasSource(s.list, t) {
				bad = true
			}
		}
		if bad {
			r.Add(sig(got), "%s: expected delivery to %s only and omission from the body; header %q cookie %q(%v) status %d raw-body %q body %s", where, want.Src, ob.header, ob.cookie, ob.hasCk, ob.status, ob.rawBody, ob.body)
			return
		}
		// the delivered value
		var gotText string
		switch want.Src {
		case httpref.Header:
			gotText = ob.header
		case httpref.Cookie:
			gotText = ob.cookie
		case httpref.RawBody:
			gotText = string(ob.rawBody)
		case httpref.Code:
			if int64(ob.status) != val.I {
				r.Add(sig("wrong-status"), "%s: status %d, value %d", where, ob.status, val.I)
			}
			return
		}
		if s.t.name == "binary" && s.noB64 && want.Src == httpref.Cookie {
			return // net/http sanitises the raw bytes in a cookie value
		}
		if scalar {
			okv := gotText == text
			if val.T == tbin.DOUBLE {
				f, e := strconv.ParseFloat(gotText, 64)
				okv = e == nil && f == val.F
			}
			if !okv {
				r.Add(sig("wrong-text,"+typeClass(s.t)), "%s: %s carries %q, value is %q", where, want.Src, gotText, text)
			}
		} else if !s.kitex && want.Src != httpref.Cookie {
			// complex values travel as JSON text (cookies sanitise '"', so they are not compared)
			d, e := parseJSON([]byte(gotText))
			if e != nil || !jsonEq(d, s.jsonOf(val)) {
				r.Add(sig("wrong-text,"+typeClass(s.t)), "%s: %s carries %q, value is %v", where, want.Src, gotText, val)
			}
		}
	case httpref.ToBody:
		if !inBody || len(hits) > 0 {
			r.Add(sig(got), "%s: expected the field in the JSON body only; header %q cookie(%v) status %d body %s", where, ob.header, ob.hasCk, ob.status, ob.body)
			return
		}
		if !jsonEq(obj["f"], s.jsonOf(val)) {
			r.Add(sig("wrong-body-value"), "%s: body member f is %v, value is %v", where, obj["f"], val)
		}
	case httpref.Zero:
		// not judged further
	case httpref.Dropped, httpref.Absent:
		if inBody || len(hits) > 0 {
			r.Add(sig(got), "%s: expected the field nowhere; header %q cookie(%v) status %d body %s", where, ob.header, ob.hasCk, ob.status, ob.body)
		}
	}
}
