package c17

import (
	"bytes"
	"context"
	"fmt"
	stdhttp "net/http"
	"net/url"
	"strings"

	"github.com/cloudwego/dynamicgo/conv"
	"github.com/cloudwego/dynamicgo/conv/j2t"
	dhttp "github.com/cloudwego/dynamicgo/http"
	"github.com/cloudwego/dynamicgo/thrift"

	"verif/engine/core"
	"verif/ref/tbin"
)

// ---- more root fields than the native field cache (4096 ids) -------------------------------------
//
// Req has n root fields `i: i32 f<i>`; every third one is http-annotated (api.query="q<i>"). The JSON body
// carries the first k fields; query parameters exist for the annotated fields with i%30==0 (under the annotation key)
// and, under the field's own name, for the fields with i%50==0 (what the traceback looks for). (The number of query
// parameters is kept small because http.HTTPRequest.GetQuery re-parses the whole query string on every call.)

type bigScenario struct {
	n, k                            int
	fallback, traceback, writeDeflt bool
}

func (s bigScenario) String() string {
	return fmt.Sprintf("root fields=%d, first %d in the JSON body, ReadHttpValueFallback=%v TracebackRequredOrRootFields=%v WriteDefaultField=%v", s.n, s.k, s.fallback, s.traceback, s.writeDeflt)
}

func bigIDL(n int) string {
	var sb strings.Builder
	sb.WriteString("namespace go c17\nstruct Req {\n")
	for i := 1; i <= n; i++ {
		an := ""
		if i%3 == 0 {
			an = fmt.Sprintf(` (api.query="q%d")`, i)
		}
		fmt.Fprintf(&sb, "  %d: i32 f%d%s\n", i, i, an)
	}
	sb.WriteString("}\nservice Svc {\n  Req M(1: Req req)\n}\n")
	return sb.String()
}

// The native field cache holds 4096 ids. With ReadHttpValueFallback the ids of all root fields that are still unset at
// the end of the object go through it: n - n/30 of them when the body is {} (the annotated fields with a query value
// are already written). n=4236 -> 4095, n=4237 -> 4096 (exactly full), n=4238 -> 4097 (one more than the cache).
type bigGroup struct {
	n       int
	variant string // all | no-fallback | overflow
}

func bigGroups(tier string) []bigGroup {
	gs := []bigGroup{{4236, "all"}, {4237, "all"}}
	if tier == "thorough" {
		gs = append(gs, bigGroup{4238, "no-fallback"}, bigGroup{4238, "overflow"}, bigGroup{8300, "no-fallback"})
	}
	return gs
}

func enumBig(g groupDef, tier string, yield func(core.Case) bool) {
	bools := []bool{false, true}
	for _, k := range []int{0, 100} {
		for _, fb := range bools {
			for _, tb := range bools {
				for _, wd := range bools {
					switch g.variant {
					case "no-fallback":
						if fb {
							continue
						}
					case "overflow":
						// a single case: one more unset root field than the cache holds
						if !(k == 0 && fb && tb && !wd) {
							continue
						}
					}
					s := bigScenario{n: g.n, k: k, fallback: fb, traceback: tb, writeDeflt: wd}
					c := core.Case{
						Tag:  "j2t-http-big",
						Desc: func() interface{} { return caseDesc{Group: g.name, Scenario: s.String()} },
						Run:  func() core.Result { return runBig(s) },
					}
					if !yield(c) {
						return
					}
				}
			}
		}
	}
}

var bigDesc = map[int]*thrift.TypeDescriptor{}

func runBig(s bigScenario) core.Result {
	r := core.Result{Class: "ok", Key: s.String()}
	pi := core.Catch(func() {
		desc := bigDesc[s.n]
		if desc == nil {
			p := parseIDL(bigIDL(s.n))
			if p.err != nil {
				r.Add("idl|big-struct|parse-error", "%v", p.err)
				return
			}
			desc = p.fn.Request().Struct().FieldById(1).Type()
			bigDesc[s.n] = desc
		}
		q := url.Values{}
		for i := 1; i <= s.n; i++ {
			if i%3 == 0 && i%30 == 0 {
				q.Set(fmt.Sprintf("q%d", i), fmt.Sprint(1000000+i))
			}
			if i%50 == 0 {
				q.Set(fmt.Sprintf("f%d", i), fmt.Sprint(2000000+i))
			}
		}
		var members []string
		for i := 1; i <= s.k; i++ {
			members = append(members, fmt.Sprintf(`"f%d":%d`, i, 3000000+i))
		}
		body := []byte("{" + strings.Join(members, ",") + "}")
		hr, err := stdhttp.NewRequest("POST", "http://example.com/big?"+q.Encode(), bytes.NewReader(body))
		if err != nil {
			r.Add("harness|request|build-error", "%v", err)
			return
		}
		hr.Header.Set("Content-Type", "application/json")
		req, err := dhttp.NewHTTPRequestFromStdReq(hr)
		if err != nil {
			r.Add("harness|request|build-error", "%v", err)
			return
		}
		cv := j2t.NewBinaryConv(conv.Options{EnableHttpMapping: true, ReadHttpValueFallback: s.fallback, TracebackRequredOrRootFields: s.traceback, WriteDefaultField: s.writeDeflt})
		out, err := cv.Do(context.WithValue(context.Background(), conv.CtxKeyHTTPRequest, req), desc, body)
		cell := fmt.Sprintf("big-struct,n%s4096,fallback=%v,traceback=%v", ifs(s.n > 4096, ">", "<="), s.fallback, s.traceback)
		if err != nil {
			r.Add("j2t-http|"+cell+"|error", "%s: %v", s, err)
			return
		}
		root, derr := tbin.DecodeAll(out, tbin.STRUCT)
		if derr != nil {
			r.Add("j2t-http|"+cell+"|malformed-output", "%s: %v", s, derr)
			return
		}
		seen := map[int16]int{}
		vals := map[int16]*tbin.Val{}
		for _, f := range root.Fs {
			seen[f.ID]++
			if _, ok := vals[f.ID]; !ok {
				vals[f.ID] = f.V
			} else if !tbin.Equal(vals[f.ID], f.V) {
				r.Add("j2t-http|"+cell+"|field-written-twice-with-different-values", "%s: field %d is written as %v and as %v", s, f.ID, vals[f.ID], f.V)
			}
		}
		dups := 0
		for _, c := range seen {
			if c > 1 {
				dups++
			}
		}
		if dups > 0 {
			r.Class = "ok:duplicate-field-headers"
			r.Count("fields_written_more_than_once", int64(dups))
		}
		bad := 0
		for i := 1; i <= s.n; i++ {
			annotated := i%3 == 0
			var acceptable []int64 // -1 = absent
			unfilled := int64(-1)
			if s.writeDeflt {
				unfilled = 0
			}
			inBody := i <= s.k
			ownKey := i%50 == 0
			switch {
			case annotated && i%30 == 0:
				acceptable = []int64{int64(1000000 + i)}
			case annotated:
				// no source value: body fallback / traceback / unfilled
				switch {
				case s.fallback && inBody:
					acceptable = []int64{int64(3000000 + i)}
				case s.traceback && s.fallback && (ownKey || inBody):
					if ownKey {
						acceptable = []int64{int64(2000000 + i)}
					} else {
						acceptable = []int64{int64(3000000 + i)}
					}
				case s.traceback && (ownKey || inBody):
					if ownKey {
						acceptable = []int64{int64(2000000 + i), unfilled}
					} else {
						acceptable = []int64{int64(3000000 + i), unfilled}
					}
				default:
					acceptable = []int64{unfilled}
				}
			case inBody:
				acceptable = []int64{int64(3000000 + i)}
			default:
				// an un-annotated field that the body does not carry: the traceback may fill it from its own key
				switch {
				case s.traceback && s.fallback && ownKey:
					acceptable = []int64{int64(2000000 + i)}
				case s.traceback && ownKey:
					acceptable = []int64{int64(2000000 + i), unfilled}
				default:
					acceptable = []int64{unfilled}
				}
			}
			got := int64(-1)
			if v := vals[int16(i)]; v != nil {
				got = v.I
			}
			ok := false
			for _, a := range acceptable {
				if a == got {
					ok = true
				}
			}
			if !ok {
				bad++
				kind := ifs(annotated, "annotated", "plain") + ifs(inBody, ",in-body", "") + ifs(ownKey, ",own-key", "")
				r.Add("j2t-http|"+cell+","+kind+"|wrong-field-value", "%s: field %d is %d (-1 = absent), acceptable %v", s, i, got, acceptable)
			}
		}
		r.Count("big_struct_fields_checked", int64(s.n))
	})
	if pi != nil {
		r.Class = "panic"
		r.Add("j2t-http|big-struct|panic@"+pi.Site+":"+core.PanicClass(pi.Val), "%s\npanic: %s\n%s", s, pi.Val, pi.Stack)
	}
	if len(r.Viol) > 0 && r.Class != "panic" {
		r.Class = "violation"
	}
	return dedupe(r)
}
