package c17

import (
	"fmt"

	"github.com/cloudwego/dynamicgo/thrift"

	"verif/engine/core"
	"verif/ref/tbin"
)

// ---- the text codec behind http values (thrift.BinaryProtocol.EncodeText / DecodeText) -----------
//
// (1) a struct value with one field the descriptor does not know, at every position: with disallowUnknown=false the
//     unknown field must be skipped (same text as the message without it, no error); with disallowUnknown=true an
//     error must be returned.
// (2) DecodeText(EncodeText(v)) == v for the value alphabet of the request side ("the encoding of val should be
//     compatible with EncodeText()"), in the plain (asJson=false) spelling for scalars and lists.

const textIDL = `namespace go c17
struct Leaf {
  1: i32 a
  2: string b
}
struct Req {
  1: Leaf leaf
  2: i32 i
  3: string s
  4: list<i32> li
  5: list<string> ls
  6: double d
  7: bool bo
  8: i64 l
  9: binary bin
}
service Svc {
  Req M(1: Req req)
}
`

func enumText(g groupDef, tier string, yield func(core.Case) bool) {
	bools := []bool{false, true}
	// (1)
	for pos := 0; pos <= 2; pos++ {
		for _, ut := range []string{"i32", "string", "struct"} {
			for _, dis := range bools {
				for _, asJSON := range bools {
					for _, byName := range bools {
						pos, ut, dis, asJSON, byName := pos, ut, dis, asJSON, byName
						sc := fmt.Sprintf("EncodeText struct Leaf{a,b} with an unknown %s field at position %d, disallowUnknown=%v asJson=%v useFieldName=%v", ut, pos, dis, asJSON, byName)
						c := core.Case{Tag: "EncodeText", Desc: func() interface{} { return caseDesc{Group: g.name, Scenario: sc} },
							Run: func() core.Result { return runTextUnknown(sc, pos, ut, dis, asJSON, byName) }}
						if !yield(c) {
							return
						}
					}
				}
			}
		}
	}
	// (2)
	for fid := 2; fid <= 9; fid++ {
		for n := 1; n <= 3; n++ {
			fid, n := fid, n
			sc := fmt.Sprintf("DecodeText(EncodeText(v)) for field %d of the text IDL, value #%d", fid, n)
			c := core.Case{Tag: "DecodeText", Desc: func() interface{} { return caseDesc{Group: g.name, Scenario: sc} },
				Run: func() core.Result { return runTextRoundTrip(sc, fid, n) }}
			if !yield(c) {
				return
			}
		}
	}
}

func textDesc(r *core.Result) *thrift.TypeDescriptor {
	p := parseIDL(textIDL)
	if p.err != nil {
		r.Add("idl|text-codec|parse-error", "%v", p.err)
		return nil
	}
	return p.fn.Request().Struct().FieldById(1).Type()
}

func runTextUnknown(sc string, pos int, ut string, dis, asJSON, byName bool) core.Result {
	r := core.Result{Class: "ok", Key: sc}
	pi := core.Catch(func() {
		req := textDesc(&r)
		if req == nil {
			return
		}
		leaf := req.Struct().FieldById(1).Type()
		known := []tbin.Field{tbin.F(1, tbin.I32v(5)), tbin.F(2, tbin.Str("x"))}
		var unk tbin.Field
		switch ut {
		case "i32":
			unk = tbin.F(9, tbin.I32v(77))
		case "string":
			unk = tbin.F(9, tbin.Str("zz"))
		default:
			unk = tbin.F(9, tbin.Struct(tbin.F(1, tbin.I32v(1))))
		}
		var with []tbin.Field
		with = append(with, known[:pos]...)
		with = append(with, unk)
		with = append(with, known[pos:]...)
		enc := func(v *tbin.Val) (string, error) {
			p := &thrift.BinaryProtocol{Buf: tbin.Bytes(v)}
			var out []byte
			err := p.EncodeText(leaf, &out, false, dis, true, byName, asJSON)
			return string(out), err
		}
		ref, rerr := enc(tbin.Struct(known...))
		if rerr != nil {
			r.Add("EncodeText|struct,no-unknown-field|error", "%s: the message without unknown field fails: %v", sc, rerr)
			return
		}
		got, err := enc(tbin.Struct(with...))
		trig := fmt.Sprintf("struct,unknown-field,%s", ifs(dis, "disallowed", "allowed"))
		if dis {
			r.Class = "unknown-disallowed"
			if err == nil {
				r.Add("EncodeText|"+trig+"|no-error", "%s: no error; text %q (without the unknown field: %q)", sc, got, ref)
			}
			return
		}
		r.Class = "unknown-allowed"
		if err != nil {
			r.Add("EncodeText|"+trig+"|error", "%s: unknown fields are allowed but: %v", sc, err)
			return
		}
		if got != ref {
			r.Add("EncodeText|"+trig+"|text-differs", "%s: text %q, without the unknown field %q", sc, got, ref)
		}
	})
	if pi != nil {
		r.Class = "panic"
		r.Add("EncodeText|struct,unknown-field|panic@"+pi.Site+":"+core.PanicClass(pi.Val), "%s\npanic: %s\n%s", sc, pi.Val, pi.Stack)
	}
	if len(r.Viol) > 0 && r.Class != "panic" {
		r.Class = "violation"
	}
	return r
}

func runTextRoundTrip(sc string, fid, n int) core.Result {
	r := core.Result{Class: "round-trip", Key: sc}
	pi := core.Catch(func() {
		req := textDesc(&r)
		if req == nil {
			return
		}
		td := req.Struct().FieldById(thrift.FieldID(fid)).Type()
		var v *tbin.Val
		switch fid {
		case 2:
			v = tbin.I32v(int32(-100 * n))
		case 3:
			v = tbin.Str(fmt.Sprintf("text %d é", n))
		case 4:
			v = tbin.List(tbin.I32, tbin.I32v(int32(n)), tbin.I32v(int32(-n)), tbin.I32v(0))
		case 5:
			v = tbin.List(tbin.STRING, tbin.Str("a"), tbin.Str(fmt.Sprintf("b%d", n)))
		case 6:
			v = tbin.Double(float64(n) + 0.25)
		case 7:
			v = tbin.Bool(n%2 == 1)
		case 8:
			v = tbin.I64v(int64(n) << 40)
		case 9:
			v = tbin.Bin([]byte{byte(n), 0, 0xff})
		}
		p := &thrift.BinaryProtocol{Buf: tbin.Bytes(v)}
		var text []byte
		if err := p.ReadStringWithDesc(td, &text, false, false, true); err != nil {
			r.Add("EncodeText|"+v.T.String()+"|error", "%s: %v", sc, err)
			return
		}
		q := &thrift.BinaryProtocol{}
		if err := q.WriteStringWithDesc(string(text), td, false, true); err != nil {
			r.Add("DecodeText|"+v.T.String()+"|error", "%s: text %q: %v", sc, text, err)
			return
		}
		back, err := tbin.DecodeAll(q.Buf, v.T)
		if err != nil || !tbin.Equal(back, v) {
			r.Add("DecodeText|"+v.T.String()+"|round-trip-differs", "%s: %v -> %q -> %v (%v)", sc, v, text, back, err)
		}
	})
	if pi != nil {
		r.Class = "panic"
		r.Add("DecodeText|round-trip|panic@"+pi.Site+":"+core.PanicClass(pi.Val), "%s\npanic: %s\n%s", sc, pi.Val, pi.Stack)
	}
	if len(r.Viol) > 0 && r.Class != "panic" {
		r.Class = "violation"
	}
	return r
}
