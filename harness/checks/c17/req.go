package c17

import (
	"bytes"
	"context"
	"encoding/binary"
	"fmt"
	stdhttp "net/http"
	"net/url"
	"strings"

	"github.com/cloudwego/dynamicgo/conv"
	"github.com/cloudwego/dynamicgo/conv/j2t"
	dhttp "github.com/cloudwego/dynamicgo/http"
	"github.com/cloudwego/dynamicgo/meta"
	"github.com/cloudwego/dynamicgo/thrift"

	"verif/engine/core"
	"verif/ref/httpref"
	"verif/ref/tbin"
)

// reqScenario is one request-side case.
type reqScenario struct {
	t        ftype
	list     []httpref.Source
	level    string
	r        httpref.Requiredness
	has      map[httpref.Source]bool // controllable listed sources that carry a value
	bodyKind string                  // empty | json | form
	member   bool                    // the JSON body has the field's own member
	ownKey   bool                    // query parameter under the field's own key
	jsonList bool                    // list values spelled as JSON arrays
	noB64    bool
	o        httpref.ReqOpts
}

func (s reqScenario) String() string {
	var pres []string
	for _, x := range s.list {
		if s.hasValue(x) {
			pres = append(pres, string(x))
		}
	}
	return fmt.Sprintf("type=%s annotations=[%s] level=%s requiredness=%d present=[%s] body=%s member=%v own-key-query=%v json-list=%v noBase64=%v opts=%+v",
		s.t.idl, listName(s.list), s.level, s.r, strings.Join(pres, ","), s.bodyKind, s.member, s.ownKey, s.jsonList, s.noB64, s.o)
}

// hasValue: does the listed source carry a non-empty value in this request?
func (s reqScenario) hasValue(x httpref.Source) bool {
	switch x {
	case httpref.RawURI:
		return true
	case httpref.RawBody:
		return s.bodyKind == "json"
	}
	return s.has[x]
}

const baseURL = "http://example.com/p/x"

func (s reqScenario) listed(x httpref.Source) bool {
	for _, y := range s.list {
		if y == x {
			return true
		}
	}
	return false
}

func (s reqScenario) url() string {
	q := url.Values{}
	if s.has[httpref.Query] {
		_, text, _ := slotValue(s.t, slotQuery, s.jsonList, s.noB64)
		q.Set("qk", text)
	}
	if s.ownKey {
		_, text, _ := slotValue(s.t, slotOwnKey, s.jsonList, s.noB64)
		q.Set("f", text)
	}
	if s.listed(httpref.Form) {
		// decoy: a QUERY parameter named like the form key (api.form reads the posted form only)
		_, text, _ := slotValue(s.t, slotDecoy, s.jsonList, s.noB64)
		q.Set("fk", text)
	}
	if s.bodyKind != "json" {
		// decoys: query parameters named like the un-annotated fields (no JSON body carries those here)
		q.Set("u", "99")
		q.Set("v", "decoy-v")
		q.Set("u2", "98")
	}
	if len(q) == 0 {
		return baseURL
	}
	return baseURL + "?" + q.Encode()
}

func (s reqScenario) body() []byte {
	switch s.bodyKind {
	case "json":
		var fm []string
		if s.member {
			_, _, js := slotValue(s.t, slotMember, s.jsonList, s.noB64)
			fm = append(fm, `"f":`+js)
		}
		var root []string
		if s.has[httpref.Body] {
			_, _, js := slotValue(s.t, slotBody, s.jsonList, s.noB64)
			root = append(root, `"bk":`+js)
		}
		switch s.level {
		case "root":
			root = append(root, fm...)
			root = append(root, `"u":7`, `"v":"vv"`)
		case "nested":
			root = append(root, `"mid":{`+strings.Join(append(fm, `"u2":5`), ",")+`}`, `"u":7`)
		case "nested2":
			root = append(root, `"mid":{"m2":{`+strings.Join(append(fm, `"u3":3`), ",")+`},"u2":5}`, `"u":7`)
		case "in-list":
			el := `{` + strings.Join(append(fm, `"u2":5`), ",") + `}`
			root = append(root, `"mids":[`+el+`,`+el+`]`, `"u":7`)
		}
		return []byte("{" + strings.Join(root, ",") + "}")
	case "form":
		q := url.Values{}
		if s.has[httpref.Form] {
			_, text, _ := slotValue(s.t, slotForm, s.jsonList, s.noB64)
			q.Set("fk", text)
		}
		if s.has[httpref.Body] {
			_, text, _ := slotValue(s.t, slotBody, s.jsonList, s.noB64)
			q.Set("bk", text)
		}
		if s.listed(httpref.Query) {
			// decoy: a FORM value named like the query key (api.query reads the URL only)
			_, text, _ := slotValue(s.t, slotDecoy, s.jsonList, s.noB64)
			q.Set("qk", text)
		}
		q.Set("other", "1")
		return []byte(q.Encode())
	}
	return nil
}

// build a dynamicgo HTTPRequest from a net/http request.
func (s reqScenario) request() (*dhttp.HTTPRequest, []byte, error) {
	body := s.body()
	hr, err := stdhttp.NewRequest("POST", s.url(), bytes.NewReader(body))
	if err != nil {
		return nil, nil, err
	}
	switch s.bodyKind {
	case "json":
		hr.Header.Set("Content-Type", "application/json")
	case "form":
		hr.Header.Set("Content-Type", "application/x-www-form-urlencoded")
	}
	if s.has[httpref.Header] {
		_, text, _ := slotValue(s.t, slotHeader, s.jsonList, s.noB64)
		hr.Header.Set("hk", text)
	}
	if s.has[httpref.Cookie] {
		// cookies cannot carry '"': lists always travel comma-separated there
		_, text, _ := slotValue(s.t, slotCookie, false, s.noB64)
		hr.AddCookie(&stdhttp.Cookie{Name: "ck", Value: text})
	}
	if s.listed(httpref.Header) && !s.t.quoted {
		// decoy: a COOKIE named like the header key
		_, text, _ := slotValue(s.t, slotDecoy, false, s.noB64)
		hr.AddCookie(&stdhttp.Cookie{Name: "hk", Value: text})
	}
	if s.listed(httpref.Cookie) {
		// decoy: a HEADER named like the cookie key
		_, text, _ := slotValue(s.t, slotDecoy, s.jsonList, s.noB64)
		hr.Header.Set("ck", text)
	}
	var params []dhttp.Param
	if s.has[httpref.Path] {
		_, text, _ := slotValue(s.t, slotPath, s.jsonList, s.noB64)
		params = append(params, dhttp.Param{Key: "pk", Value: text})
	}
	req, err := dhttp.NewHTTPRequestFromStdReq(hr, params...)
	return req, body, err
}

func (s reqScenario) convOpts() conv.Options {
	return conv.Options{
		EnableHttpMapping:            true,
		ReadHttpValueFallback:        s.o.ReadFallback,
		TracebackRequredOrRootFields: s.o.Traceback,
		WriteRequireField:            s.o.WriteRequire,
		WriteDefaultField:            s.o.WriteDefault,
		WriteOptionalField:           s.o.WriteOptional,
		NoBase64Binary:               s.noB64,
	}
}

// ---- expectation --------------------------------------------------------------------------------

// obs is what one field looks like in an output: a value, absent, or the conversion failed.
type expect struct {
	vals      []*tbin.Val // acceptable values
	absent    bool        // absence acceptable
	err       bool        // an error acceptable
	notJudged bool
	kinds     []string // names of the acceptable outcomes (for messages / signatures)
}

// textValue: what a text taken from `src` must convert to for type t. ok=false: it cannot convert (error expected);
// judged=false: the documentation does not determine the result.
func (s reqScenario) rawTextValue(text string) (v *tbin.Val, ok bool, judged bool) {
	switch s.t.name {
	case "string":
		return tbin.Str(text), true, true
	case "binary":
		if s.noB64 {
			return tbin.Str(text), true, true
		}
		return nil, false, true // a URL / JSON document is not base64
	case "i32", "i64", "double", "bool", "list_i32":
		return nil, false, true
	case "list_binary":
		return nil, false, false
	case "list_string":
		if strings.HasPrefix(text, "{") || strings.HasPrefix(text, "[") {
			return nil, false, false
		}
		var l []*tbin.Val
		for _, p := range strings.Split(text, ",") {
			l = append(l, tbin.Str(p))
		}
		return tbin.List(tbin.STRING, l...), true, true
	}
	if strings.HasPrefix(text, "{") {
		return nil, false, false // a JSON document offered to a map / struct: not determined
	}
	return nil, false, true
}

func (s reqScenario) expectation(bodyText string) expect {
	c := httpref.ReqCase{Sources: s.list, Has: map[httpref.Source]bool{}, Req: s.r, Root: s.level == "root",
		BodyMember:   s.bodyKind == "json" && s.member,
		TracebackHit: s.ownKey || (s.level == "root" && s.bodyKind == "json" && s.member),
		NoJSONBody:   s.bodyKind != "json"}
	for _, x := range s.list {
		c.Has[x] = s.hasValue(x)
		if x == httpref.RawBody && !c.Has[x] {
			c.EmptyRawBody = true
		}
	}
	var e expect
	for _, oc := range httpref.DecideRequest(c, s.o) {
		switch oc.K {
		case httpref.FromSource:
			e.kinds = append(e.kinds, "source:"+string(oc.Src))
			switch oc.Src {
			case httpref.RawURI, httpref.RawBody:
				text := s.url()
				if oc.Src == httpref.RawBody {
					text = bodyText
				}
				v, ok, judged := s.rawTextValue(text)
				switch {
				case !judged:
					e.notJudged = true
				case ok:
					e.vals = append(e.vals, v)
				default:
					e.err = true
				}
			case httpref.Cookie:
				v, _, _ := slotValue(s.t, slotCookie, false, s.noB64)
				e.vals = append(e.vals, v)
			default:
				v, _, _ := slotValue(s.t, slotOf[oc.Src], s.jsonList, s.noB64)
				e.vals = append(e.vals, v)
			}
		case httpref.FromBody:
			e.kinds = append(e.kinds, "body-member")
			v, _, _ := slotValue(s.t, slotMember, s.jsonList, s.noB64)
			e.vals = append(e.vals, v)
		case httpref.FromTraceback:
			e.kinds = append(e.kinds, "traceback")
			if s.ownKey {
				// search order of the http values: path param, query, header, cookie, body map
				v, _, _ := slotValue(s.t, slotOwnKey, s.jsonList, s.noB64)
				e.vals = append(e.vals, v)
			} else {
				v, _, _ := slotValue(s.t, slotMember, s.jsonList, s.noB64)
				e.vals = append(e.vals, v)
			}
		case httpref.Zero:
			e.kinds = append(e.kinds, "zero")
			e.vals = append(e.vals, zeroValue(s.t))
		case httpref.Absent:
			e.kinds = append(e.kinds, "absent")
			e.absent = true
		case httpref.Error:
			e.kinds = append(e.kinds, "error")
			e.err = true
		}
	}
	return e
}

// classify an observed value: which slot's value is it?
func (s reqScenario) classify(v *tbin.Val, bodyText string) string {
	if v == nil {
		return "absent"
	}
	names := map[int]string{slotQuery: "source:query", slotPath: "source:path", slotHeader: "source:header", slotCookie: "source:cookie", slotForm: "source:form", slotBody: "source:body", slotMember: "body-member", slotOwnKey: "own-key-query"}
	for n := 1; n <= 8; n++ {
		for _, js := range []bool{false, true} {
			w, _, _ := slotValue(s.t, n, js, s.noB64)
			if tbin.Equal(v, w) {
				return names[n]
			}
		}
	}
	if tbin.Equal(v, zeroValue(s.t)) {
		return "zero"
	}
	if v.T == tbin.STRING {
		if string(v.S) == s.url() {
			return "source:raw_uri"
		}
		if string(v.S) == bodyText && bodyText != "" {
			return "source:raw_body"
		}
	}
	return "other-value"
}

// gotClass coarsens an observed outcome for signatures: a value that belongs to a source listed after the expected
// one is "later-listed-source"; zero / absent are "unfilled"; errors keep only the fact (the meta code is in the detail)
// when a source was expected, and their class when the decision was between filling and failing.
func (s reqScenario) gotClass(got string) string {
	chosen := -1
	for i, x := range s.list {
		if s.hasValue(x) {
			chosen = i
			break
		}
	}
	if chosen >= 0 {
		for i, x := range s.list {
			if i > chosen && got == "source:"+string(x) {
				return "later-listed-source"
			}
		}
		if strings.HasPrefix(got, "error:") {
			return "error"
		}
		if got == "zero" || got == "absent" {
			return "unfilled"
		}
	}
	return got
}

// locate the annotated field (and the un-annotated neighbours) in a decoded request struct.
func (s reqScenario) fields(root *tbin.Val) (fs []*tbin.Val, plain []*tbin.Val, ok bool) {
	switch s.level {
	case "root":
		return []*tbin.Val{root.FieldByID(1)}, []*tbin.Val{root.FieldByID(2), root.FieldByID(3)}, true
	case "nested":
		mid := root.FieldByID(1)
		if mid == nil || mid.T != tbin.STRUCT {
			return nil, nil, false
		}
		return []*tbin.Val{mid.FieldByID(1)}, []*tbin.Val{root.FieldByID(2), mid.FieldByID(2)}, true
	case "nested2":
		mid := root.FieldByID(1)
		if mid == nil || mid.T != tbin.STRUCT {
			return nil, nil, false
		}
		m2 := mid.FieldByID(1)
		if m2 == nil || m2.T != tbin.STRUCT {
			return nil, nil, false
		}
		return []*tbin.Val{m2.FieldByID(1)}, []*tbin.Val{root.FieldByID(2), mid.FieldByID(2), m2.FieldByID(2)}, true
	case "in-list":
		l := root.FieldByID(1)
		if l == nil || l.T != tbin.LIST || len(l.L) != 2 {
			return nil, nil, false
		}
		plain = []*tbin.Val{root.FieldByID(2)}
		for _, el := range l.L {
			if el.T != tbin.STRUCT {
				return nil, nil, false
			}
			fs = append(fs, el.FieldByID(1))
			plain = append(plain, el.FieldByID(2))
		}
		return fs, plain, true
	}
	return nil, nil, false
}

// cell = the decision-table cell of the scenario (trigger class of signatures). The four "plain" sources
// (query, path, header, cookie) behave alike and are named as a class; body, form, raw_body, raw_uri keep their names.
func srcClass(x httpref.Source) string {
	switch x {
	case httpref.Query, httpref.Path, httpref.Header, httpref.Cookie:
		return "plain"
	}
	return string(x)
}

func (s reqScenario) cell() string {
	var pres, before []string
	chosen := ""
	for i, x := range s.list {
		if s.hasValue(x) {
			pres = append(pres, srcClass(x))
			if chosen == "" {
				chosen = fmt.Sprintf("%s@%d", srcClass(x), i+1)
			}
		} else if chosen == "" {
			before = append(before, srcClass(x))
		}
	}
	lv := ""
	if s.level != "root" {
		lv = "," + s.level
	}
	if chosen != "" {
		// position and the empty sources listed before it are left out: they do not change which source must win
		c := "chosen=" + chosen[:strings.Index(chosen, "@")]
		_ = before
		if len(pres) > 1 {
			c += ",a-later-source-also-present"
		}
		return c
	}
	c := fmt.Sprintf("none-present,req=%d,body=%s", s.r, s.bodyKind)
	if s.member {
		c += ",member"
	}
	if s.ownKey {
		c += ",own-key"
	}
	c += fmt.Sprintf(",fallback=%v,traceback=%v", s.o.ReadFallback, s.o.Traceback)
	return c + lv
}

func writeBits(o httpref.ReqOpts) string {
	b := func(x bool) string {
		if x {
			return "1"
		}
		return "0"
	}
	return "r" + b(o.WriteRequire) + "d" + b(o.WriteDefault) + "o" + b(o.WriteOptional)
}

// ---- running -------------------------------------------------------------------------------------

type parsedIDL struct {
	fn   *thrift.FunctionDescriptor
	desc *thrift.TypeDescriptor
	err  error
}

var idlMemo = map[string]*parsedIDL{}

func parseIDL(idl string) *parsedIDL { return parseIDLOpts(idl, thrift.Options{}) }

func parseIDLOpts(idl string, o thrift.Options) *parsedIDL {
	key := idl
	if o != (thrift.Options{}) {
		key = fmt.Sprintf("%+v|%s", o, idl)
	}
	if p, ok := idlMemo[key]; ok {
		return p
	}
	p := &parsedIDL{}
	svc, err := o.NewDescritorFromContent(context.Background(), "a/b/main.thrift", idl, nil, false)
	if err != nil {
		p.err = err
	} else if fn := svc.Functions()["M"]; fn == nil {
		p.err = fmt.Errorf("no function M")
	} else {
		p.fn = fn
	}
	idlMemo[key] = p
	return p
}

// unwrapCall strips the CALL envelope HTTPConv adds (own parser: version, name, seq, field header ... stop).
func unwrapCall(b []byte) ([]byte, bool) {
	if len(b) < 16 || binary.BigEndian.Uint32(b) != 0x80010001 {
		return nil, false
	}
	n := int(binary.BigEndian.Uint32(b[4:]))
	p := 8 + n + 4
	if n < 0 || p+3 > len(b) || b[p] != byte(tbin.STRUCT) || b[len(b)-1] != 0 {
		return nil, false
	}
	return b[p+3 : len(b)-1], true
}

func errClass(err error) string {
	if me, ok := err.(meta.Error); ok {
		return "error:" + me.Code.Behavior().String()
	}
	return "error:other"
}

func runRequest(s reqScenario) core.Result {
	r := core.Result{Class: "ok", Key: s.String()}
	idl := requestIDL(s.t, s.list, s.r, s.level)
	pi := core.Catch(func() {
		p := parseIDL(idl)
		if p.err != nil {
			r.Class = "idl-rejected"
			r.Add("idl|"+listName(s.list)+"|parse-error", "%s: %v\n%s", s, p.err, idl)
			return
		}
		reqDesc := p.fn.Request().Struct().FieldById(1).Type()
		_, body, _ := s.request()
		bodyText := string(body)
		if s.bodyKind == "form" {
			bodyText = "" // the form parser consumed the body: nothing is left for api.raw_body / the converter
		}
		exp := s.expectation(bodyText)
		r.Class = "expect:" + strings.Join(exp.kinds, "|")
		if exp.notJudged {
			r.Class = "not-judged(raw text offered to map/struct)"
		}
		for _, entry := range []string{"BinaryConv.Do", "HTTPConv.Do", "BinaryConv.Do,request-served-another-query-before", "BinaryConv.Do,options-by-SetOptions", "BinaryConv.Do,descriptor-parsed-with-SetOptionalBitmap"} {
			reqDesc := reqDesc
			if strings.HasSuffix(entry, "SetOptionalBitmap") {
				// the same file parsed so that optional fields are tracked in the requires bitmap too
				p2 := parseIDLOpts(idl, thrift.Options{SetOptionalBitmap: true})
				if p2.err != nil {
					r.Add("idl|"+listName(s.list)+"|parse-error", "%s (SetOptionalBitmap): %v", s, p2.err)
					return
				}
				reqDesc = p2.fn.Request().Struct().FieldById(1).Type()
			}
			req, _, err := s.request()
			if err != nil {
				r.Add("harness|request|build-error", "%s: %v", s, err)
				return
			}
			var out []byte
			ctx := context.WithValue(context.Background(), conv.CtxKeyHTTPRequest, req)
			if strings.HasPrefix(entry, "BinaryConv.Do") {
				cv := j2t.NewBinaryConv(s.convOpts())
				if strings.HasSuffix(entry, "SetOptions") {
					// built with the complementary options, switched by SetOptions
					o := s.convOpts()
					cv = j2t.NewBinaryConv(conv.Options{EnableHttpMapping: false, ReadHttpValueFallback: !o.ReadHttpValueFallback, TracebackRequredOrRootFields: !o.TracebackRequredOrRootFields,
						WriteRequireField: !o.WriteRequireField, WriteDefaultField: !o.WriteDefaultField, WriteOptionalField: !o.WriteOptionalField, NoBase64Binary: !o.NoBase64Binary})
					cv.SetOptions(o)
				}
				doc := body
				if s.bodyKind == "form" {
					doc = nil
				}
				if strings.HasSuffix(entry, "before") {
					// history of length 2 on one request wrapper: a conversion while the URL carried OTHER query values
					// (outcome ignored), then the query of this scenario is put in place and the judged conversion runs
					good := req.Request.URL.RawQuery
					req.Request.URL.RawQuery = "qk=STALE&f=STALE&u=1&stale_only=1"
					core.Catch(func() { cv.Do(ctx, reqDesc, doc) })
					req.Request.URL.RawQuery = good
				}
				out, err = cv.Do(ctx, reqDesc, doc)
			} else {
				hc := j2t.NewHTTPConv(meta.EncodingThriftBinary, p.fn)
				out, err = hc.Do(ctx, req, s.convOpts())
				if err == nil {
					var ok bool
					if out, ok = unwrapCall(out); !ok {
						r.Add("j2t-http|"+s.cell()+",entry="+entry+"|bad-envelope", "%s: HTTPConv output is not a CALL message around the struct", s)
						continue
					}
				}
			}
			s.judge(&r, exp, entry, out, err, bodyText, reqDesc)
		}
	})
	if pi != nil {
		r.Class = "panic"
		r.Add("j2t-http|"+s.cell()+"|panic@"+pi.Site+":"+core.PanicClass(pi.Val), "%s\npanic: %s\n%s", s, pi.Val, pi.Stack)
	}
	if len(r.Viol) > 0 && r.Class != "panic" {
		r.Class = "violation"
	}
	return dedupe(r)
}

func dedupe(r core.Result) core.Result {
	seen := map[string]bool{}
	var v []core.Violation
	for _, x := range r.Viol {
		if !seen[x.Sig] {
			seen[x.Sig] = true
			v = append(v, x)
		}
	}
	r.Viol = v
	return r
}

func (s reqScenario) judge(r *core.Result, exp expect, entry string, out []byte, err error, bodyText string, reqDesc *thrift.TypeDescriptor) {
	want := strings.Join(exp.kinds, "|")
	where := fmt.Sprintf("%s via %s (url %s, body %q)", s, entry, s.url(), bodyText)
	typeClass := s.t.name
	if err != nil {
		if exp.notJudged || exp.err {
			return
		}
		r.Add("j2t-http|"+s.cell()+"|want:"+want+",got:"+s.gotClass(errClass(err)), "%s: conversion failed: %v", where, err)
		return
	}
	root, derr := tbin.DecodeAll(out, tbin.STRUCT)
	if derr != nil {
		r.Add("j2t-http|"+s.cell()+","+typeClass+"|malformed-output", "%s: output %x is not a thrift struct: %v", where, out, derr)
		return
	}
	fs, plain, ok := s.fields(root)
	if !ok {
		r.Add("j2t-http|"+s.cell()+"|container-missing", "%s: the enclosing struct of the field is not in the output %s", where, root)
		return
	}
	if !exp.notJudged {
		for _, f := range fs {
			good := false
			if f == nil {
				good = exp.absent
			} else {
				for _, v := range exp.vals {
					if tbin.Equal(f, v) {
						good = true
					}
				}
			}
			if !good {
				got := s.gotClass(s.classify(f, bodyText))
				if exp.err && len(exp.vals) == 0 && !exp.absent {
					r.Add("j2t-http|"+s.cell()+","+typeClass+"|want:"+want+",got:"+got, "%s: an error was expected (the chosen text cannot be a %s / a required field has no value) but the field is %v", where, s.t.idl, f)
				} else {
					r.Add("j2t-http|"+s.cell()+"|want:"+want+",got:"+got, "%s: field f is %v, expected %s %v", where, f, want, exp.vals)
				}
			}
		}
	}
	// un-annotated fields without a JSON body: no option of this scenario lets them read http parameters
	if s.bodyKind != "json" && !s.o.ReadFallback && !s.o.Traceback {
		for i, pv := range plain {
			if pv != nil && ((pv.T == tbin.STRING && len(pv.S) != 0) || (pv.T != tbin.STRING && pv.T != tbin.STRUCT && pv.I != 0)) {
				r.Add("j2t-http|unannotated-field"+ifs(s.level != "root", ","+s.level, "")+",body="+s.bodyKind+"|filled-from-http-parameter", "%s: un-annotated field #%d is %v although there is no JSON body and neither fallback nor traceback is set", where, i, pv)
			}
		}
	}
	// un-annotated fields: exactly as without mapping
	if s.bodyKind == "json" {
		o := s.convOpts()
		o.EnableHttpMapping = false
		cv := j2t.NewBinaryConv(o)
		ref, rerr := cv.Do(context.Background(), reqDesc, []byte(bodyText))
		if rerr != nil {
			return // the plain conversion of this document fails (e.g. a required annotated field has no member): nothing to compare
		}
		rroot, derr := tbin.DecodeAll(ref, tbin.STRUCT)
		if derr != nil {
			return
		}
		_, rplain, ok2 := s.fields(rroot)
		if !ok2 || len(rplain) != len(plain) {
			return
		}
		for i := range plain {
			if !tbin.Equal(plain[i], rplain[i]) {
				r.Add("j2t-http|unannotated-field"+ifs(s.level != "root", ","+s.level, "")+"|differs-from-plain-conversion", "%s: un-annotated field #%d is %v with mapping, %v without", where, i, plain[i], rplain[i])
			}
		}
	}
}

func ifs(b bool, x, y string) string {
	if b {
		return x
	}
	return y
}
