package c17

import (
	"bytes"
	"context"
	"fmt"
	stdhttp "net/http"
	"net/url"

	"github.com/cloudwego/dynamicgo/conv"
	"github.com/cloudwego/dynamicgo/conv/j2t"
	dhttp "github.com/cloudwego/dynamicgo/http"

	"verif/engine/core"
	"verif/ref/tbin"
)

// ---- api.no_body_struct: a struct-typed field that is assembled from the http sources of its own fields ----
//
//	Req{1: NB nb (api.no_body_struct=""), 2: i32 u}   NB{1: optional i32 a, 2: optional i32 b (api.query="qb"), 3: optional string c (api.header="hc")}
//
// nb.b / nb.c come from the query / header when present; when absent they are zero-filled or left out (the
// repository's TestNoBodyStruct shows default filling; both are accepted). nb.a has no http source and is never
// taken from anywhere; a JSON body member "nb" is ignored because the annotation always yields a value.

const noBodyIDL = `namespace go c17
struct NB {
  1: optional i32 a
  2: optional i32 b (api.query="qb")
  3: optional string c (api.header="hc")
  4: optional string d (api.query="qd", api.header="hd", api.cookie="cd")
}
struct Req {
  1: NB nb (api.no_body_struct="")
  2: i32 u
}
service Svc {
  Req M(1: Req req)
}
`

type nbScenario struct {
	hasB, hasC bool
	dSrc       int // bit 0: query qd=dq present, bit 1: header hd=dh, bit 2: cookie cd=dc (member d lists them in this order)
	body       string // "", {"u":7}, {"nb":{"a":5,"b":6},"u":7}
	fallback   bool
	writeDef   bool
}

func (s nbScenario) String() string {
	return fmt.Sprintf("api.no_body_struct: query qb present=%v, header hc present=%v, sources of d (query qd, header hd, cookie cd) present=%03b, body=%q, ReadHttpValueFallback=%v WriteDefaultField=%v", s.hasB, s.hasC, s.dSrc, s.body, s.fallback, s.writeDef)
}

func enumNoBody(g groupDef, tier string, yield func(core.Case) bool) {
	bools := []bool{false, true}
	for _, body := range []string{`{"u":7}`, ``, `{"nb":{"a":5,"b":6},"u":7}`} {
		for _, hb := range bools {
			for _, hc := range bools {
				for _, fb := range bools {
					for wdd := 0; wdd < 16; wdd++ {
						wd := wdd&1 == 1
						s := nbScenario{hasB: hb, hasC: hc, body: body, fallback: fb, writeDef: wd, dSrc: wdd >> 1}
						c := core.Case{Tag: "j2t-http-nobody", Desc: func() interface{} { return caseDesc{Group: g.name, Scenario: s.String(), IDL: noBodyIDL, Body: s.body} },
							Run: func() core.Result { return runNoBody(s) }}
						if !yield(c) {
							return
						}
					}
				}
			}
		}
	}
}

func runNoBody(s nbScenario) core.Result {
	r := core.Result{Class: "ok", Key: s.String()}
	pi := core.Catch(func() {
		p := parseIDL(noBodyIDL)
		if p.err != nil {
			r.Add("idl|no_body_struct|parse-error", "%v", p.err)
			return
		}
		desc := p.fn.Request().Struct().FieldById(1).Type()
		q := url.Values{}
		if s.hasB {
			q.Set("qb", "42")
		}
		if s.dSrc&1 != 0 {
			q.Set("qd", "dq")
		}
		u := baseURL
		if len(q) > 0 {
			u += "?" + q.Encode()
		}
		hr, err := stdhttp.NewRequest("POST", u, bytes.NewReader([]byte(s.body)))
		if err != nil {
			r.Add("harness|request|build-error", "%v", err)
			return
		}
		if s.body != "" {
			hr.Header.Set("Content-Type", "application/json")
		}
		if s.hasC {
			hr.Header.Set("hc", "cval")
		}
		if s.dSrc&2 != 0 {
			hr.Header.Set("hd", "dh")
		}
		if s.dSrc&4 != 0 {
			hr.AddCookie(&stdhttp.Cookie{Name: "cd", Value: "dc"})
		}
		req, err := dhttp.NewHTTPRequestFromStdReq(hr)
		if err != nil {
			r.Add("harness|request|build-error", "%v", err)
			return
		}
		cv := j2t.NewBinaryConv(conv.Options{EnableHttpMapping: true, ReadHttpValueFallback: s.fallback, WriteDefaultField: s.writeDef})
		out, err := cv.Do(context.WithValue(context.Background(), conv.CtxKeyHTTPRequest, req), desc, []byte(s.body))
		cell := fmt.Sprintf("no_body_struct,b=%v,c=%v,body=%s", s.hasB, s.hasC, ifs(s.body == "", "empty", ifs(len(s.body) > 10, "json+member", "json")))
		if err != nil {
			r.Add("j2t-http|"+cell+"|"+errClass(err), "%s: %v", s, err)
			return
		}
		root, derr := tbin.DecodeAll(out, tbin.STRUCT)
		if derr != nil {
			r.Add("j2t-http|"+cell+"|malformed-output", "%s: %x: %v", s, out, derr)
			return
		}
		nb := root.FieldByID(1)
		if nb == nil || nb.T != tbin.STRUCT {
			r.Add("j2t-http|"+cell+"|struct-missing", "%s: field nb is %v in %s", s, nb, root)
			return
		}
		r.Class = fmt.Sprintf("nb:b=%v,c=%v", s.hasB, s.hasC)
		if a := nb.FieldByID(1); a != nil {
			r.Add("j2t-http|"+cell+"|unannotated-member-filled", "%s: nb.a (no http source) is %v", s, a)
		}
		b, c := nb.FieldByID(2), nb.FieldByID(3)
		switch {
		case s.hasB && (b == nil || b.T != tbin.I32 || b.I != 42):
			r.Add("j2t-http|"+cell+"|wrong-member-value", "%s: nb.b is %v, query qb=42", s, b)
		case !s.hasB && b != nil && !(b.T == tbin.I32 && b.I == 0):
			r.Add("j2t-http|"+cell+"|wrong-member-value", "%s: nb.b is %v without a query value (absent or 0 expected)", s, b)
		}
		switch {
		case s.hasC && (c == nil || c.T != tbin.STRING || string(c.S) != "cval"):
			r.Add("j2t-http|"+cell+"|wrong-member-value", "%s: nb.c is %v, header hc=cval", s, c)
		case !s.hasC && c != nil && !(c.T == tbin.STRING && len(c.S) == 0):
			r.Add("j2t-http|"+cell+"|wrong-member-value", "%s: nb.c is %v without a header value (absent or \"\" expected)", s, c)
		}
		// member d lists three sources: the first listed one that has a value decides
		wantD := ""
		for i, v := range []string{"dq", "dh", "dc"} {
			if s.dSrc>>uint(i)&1 == 1 {
				wantD = v
				break
			}
		}
		dcell := fmt.Sprintf("no_body_struct,member-with-sources(query,header,cookie)=%03b", s.dSrc)
		switch d := nb.FieldByID(4); {
		case wantD != "" && (d == nil || d.T != tbin.STRING || string(d.S) != wantD):
			r.Add("j2t-http|"+dcell+"|wrong-member-value", "%s: nb.d is %v, the first listed source with a value says %q", s, d, wantD)
		case wantD == "" && d != nil && !(d.T == tbin.STRING && len(d.S) == 0):
			r.Add("j2t-http|"+dcell+"|wrong-member-value", "%s: nb.d is %v although none of its sources has a value (absent or \"\" expected)", s, d)
		}
		if s.body != "" {
			if uu := root.FieldByID(2); uu == nil || uu.I != 7 {
				r.Add("j2t-http|unannotated-field,no_body_struct|differs-from-plain-conversion", "%s: u is %v, body says 7", s, uu)
			}
		}
	})
	if pi != nil {
		r.Class = "panic"
		r.Add("j2t-http|no_body_struct|panic@"+pi.Site+":"+core.PanicClass(pi.Val), "%s\npanic: %s\n%s", s, pi.Val, pi.Stack)
	}
	if len(r.Viol) > 0 && r.Class != "panic" {
		r.Class = "violation"
	}
	return dedupe(r)
}
