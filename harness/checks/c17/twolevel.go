package c17

import (
	"bytes"
	"context"
	"fmt"
	stdhttp "net/http"
	"net/url"

	"github.com/cloudwego/dynamicgo/conv"
	"github.com/cloudwego/dynamicgo/conv/j2t"
	dhttp "github.com/cloudwego/dynamicgo/http"

	"verif/engine/core"
	"verif/ref/tbin"
)

// ---- unmatched annotated fields on TWO levels of one request -------------------------------------------------
//
// Both the nested struct and the root have an http-annotated required field, so the converter handles unmatched
// fields twice in one conversion (first for the nested struct, then for the root). The un-annotated fields with
// the same ids as the nested struct's annotated ones (root field 1 `a`, field 2 `mid`) must still come from the
// JSON body exactly as without mapping - once - whatever the first handling left behind, and even when the
// request carries values under their own keys (decoys).
const twoLevelIDL = `namespace go c17
struct In2 {
  1: required string y (api.query="yq")
  2: i32 u3
}
struct Mid {
  1: required string x (api.query="xq")
  2: i32 u2
  3: In2 in2
}
struct Req {
  1: string a
  2: Mid mid
  3: required string r (api.query="rq")
  4: i32 u
  5: list<Mid> mids
}
service Svc {
  Req M(1: Req req)
}
`

type tlScenario struct {
	hasX, hasR, hasY bool
	decoy            bool // query parameters named like the un-annotated fields
	inList           bool // the incomplete nested struct is also an element of mids
	o                [4]bool
}

func (s tlScenario) String() string {
	return fmt.Sprintf("two-level: xq=%v yq=%v rq=%v decoys=%v in-list=%v ReadHttpValueFallback=%v Traceback=%v WriteRequireField=%v WriteDefaultField=%v", s.hasX, s.hasY, s.hasR, s.decoy, s.inList, s.o[0], s.o[1], s.o[2], s.o[3])
}

func enumTwoLevel(g groupDef, tier string, yield func(core.Case) bool) {
	for m := 0; m < 32; m++ {
		for ob := 0; ob < 16; ob++ {
			s := tlScenario{hasX: m&1 != 0, hasR: m&2 != 0, hasY: m&4 != 0, decoy: m&8 != 0, inList: m&16 != 0, o: [4]bool{ob&1 != 0, ob&2 != 0, ob&4 != 0, ob&8 != 0}}
			c := core.Case{Tag: "j2t-http-twolevel", Desc: func() interface{} {
				return caseDesc{Group: g.name, Scenario: s.String(), IDL: twoLevelIDL, Body: s.body()}
			}, Run: func() core.Result { return runTwoLevel(s) }}
			if !yield(c) {
				return
			}
		}
	}
}

func (s tlScenario) body() string {
	mid := `{"u2":5,"in2":{"u3":3}}`
	b := `{"a":"a-from-body","mid":` + mid + `,"u":7`
	if s.inList {
		b += `,"mids":[` + mid + `,` + mid + `]`
	}
	return b + `}`
}

func runTwoLevel(s tlScenario) core.Result {
	r := core.Result{Class: "ok", Key: s.String()}
	pi := core.Catch(func() {
		p := parseIDL(twoLevelIDL)
		if p.err != nil {
			r.Add("idl|two-level|parse-error", "%v", p.err)
			return
		}
		desc := p.fn.Request().Struct().FieldById(1).Type()
		q := url.Values{}
		if s.hasX {
			q.Set("xq", "x-from-query")
		}
		if s.hasY {
			q.Set("yq", "y-from-query")
		}
		if s.hasR {
			q.Set("rq", "r-from-query")
		}
		if s.decoy {
			q.Set("a", "a-from-query")
			q.Set("u", "99")
			q.Set("mid", "{}")
			q.Set("u2", "98")
		}
		u := baseURL
		if len(q) > 0 {
			u += "?" + q.Encode()
		}
		body := s.body()
		hr, err := stdhttp.NewRequest("POST", u, bytes.NewReader([]byte(body)))
		if err != nil {
			r.Add("harness|request|build-error", "%v", err)
			return
		}
		hr.Header.Set("Content-Type", "application/json")
		req, err := dhttp.NewHTTPRequestFromStdReq(hr)
		if err != nil {
			r.Add("harness|request|build-error", "%v", err)
			return
		}
		cv := j2t.NewBinaryConv(conv.Options{EnableHttpMapping: true, ReadHttpValueFallback: s.o[0], TracebackRequredOrRootFields: s.o[1], WriteRequireField: s.o[2], WriteDefaultField: s.o[3]})
		out, err := cv.Do(context.WithValue(context.Background(), conv.CtxKeyHTTPRequest, req), desc, []byte(body))
		cell := "two-level"
		if err != nil {
			// a required annotated field without any value and without a write option is a missing-field error
			if (!s.hasX || !s.hasR || !s.hasY) && !s.o[2] {
				r.Class = "missing-required"
				return
			}
			r.Add("j2t-http|"+cell+"|"+errClass(err), "%s: %v", s, err)
			return
		}
		root, derr := tbin.DecodeAll(out, tbin.STRUCT)
		if derr != nil {
			r.Add("j2t-http|"+cell+"|malformed-output", "%s: %x: %v", s, out, derr)
			return
		}
		r.Class = "converted"
		// no field id twice in any struct of the output
		var dup func(v *tbin.Val, where string)
		dup = func(v *tbin.Val, where string) {
			switch v.T {
			case tbin.STRUCT:
				seen := map[int16]bool{}
				for _, f := range v.Fs {
					if seen[f.ID] {
						r.Add("j2t-http|"+cell+"|field-written-twice", "%s: field %d occurs twice in %s: %s", s, f.ID, where, v)
					}
					seen[f.ID] = true
					dup(f.V, fmt.Sprintf("%s.%d", where, f.ID))
				}
			case tbin.LIST, tbin.SET, tbin.MAP:
				for i, e := range v.L {
					dup(e, fmt.Sprintf("%s[%d]", where, i))
				}
			}
		}
		dup(root, "Req")
		// un-annotated fields: exactly the body values (first occurrence = what a reader that keeps the first sees,
		// last occurrence = what a reader that keeps the last sees: both must be the body value)
		last := func(v *tbin.Val, id int16) *tbin.Val {
			var x *tbin.Val
			for _, f := range v.Fs {
				if f.ID == id {
					x = f.V
				}
			}
			return x
		}
		if a := last(root, 1); a == nil || a.T != tbin.STRING || string(a.S) != "a-from-body" {
			r.Add("j2t-http|unannotated-field,"+cell+"|differs-from-plain-conversion", "%s: a is %v, body says \"a-from-body\"", s, a)
		}
		if uu := last(root, 4); uu == nil || uu.I != 7 {
			r.Add("j2t-http|unannotated-field,"+cell+"|differs-from-plain-conversion", "%s: u is %v, body says 7", s, uu)
		}
		checkMid := func(mid *tbin.Val, where string) {
			if mid == nil || mid.T != tbin.STRUCT {
				r.Add("j2t-http|unannotated-field,"+cell+"|differs-from-plain-conversion", "%s: %s is %v", s, where, mid)
				return
			}
			if u2 := last(mid, 2); u2 == nil || u2.I != 5 {
				r.Add("j2t-http|unannotated-field,"+cell+"|differs-from-plain-conversion", "%s: %s.u2 is %v, body says 5", s, where, u2)
			}
			in2 := last(mid, 3)
			if in2 == nil || in2.T != tbin.STRUCT {
				r.Add("j2t-http|unannotated-field,"+cell+"|differs-from-plain-conversion", "%s: %s.in2 is %v", s, where, in2)
			} else if u3 := last(in2, 2); u3 == nil || u3.I != 3 {
				r.Add("j2t-http|unannotated-field,"+cell+"|differs-from-plain-conversion", "%s: %s.in2.u3 is %v, body says 3", s, where, u3)
			}
			// annotated fields that have a source value carry it
			if x := last(mid, 1); s.hasX && (x == nil || string(x.S) != "x-from-query") {
				r.Add("j2t-http|"+cell+"|annotated-field-not-from-source", "%s: %s.x is %v, query xq=x-from-query", s, where, x)
			}
			if in2 != nil && in2.T == tbin.STRUCT {
				if y := last(in2, 1); s.hasY && (y == nil || string(y.S) != "y-from-query") {
					r.Add("j2t-http|"+cell+"|annotated-field-not-from-source", "%s: %s.in2.y is %v, query yq=y-from-query", s, where, y)
				}
			}
		}
		checkMid(last(root, 2), "mid")
		if s.inList {
			l := last(root, 5)
			if l == nil || l.T != tbin.LIST || len(l.L) != 2 {
				r.Add("j2t-http|unannotated-field,"+cell+"|differs-from-plain-conversion", "%s: mids is %v", s, l)
			} else {
				checkMid(l.L[0], "mids[0]")
				checkMid(l.L[1], "mids[1]")
			}
		}
		if rr := last(root, 3); s.hasR && (rr == nil || string(rr.S) != "r-from-query") {
			r.Add("j2t-http|"+cell+"|annotated-field-not-from-source", "%s: r is %v, query rq=r-from-query", s, rr)
		}
	})
	if pi != nil {
		r.Class = "panic"
		r.Add("j2t-http|two-level|panic@"+pi.Site+":"+core.PanicClass(pi.Val), "%s\npanic: %s\n%s", s, pi.Val, pi.Stack)
	}
	if len(r.Viol) > 0 && r.Class != "panic" {
		r.Class = "violation"
	}
	return dedupe(r)
}
