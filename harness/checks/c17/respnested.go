package c17

import (
	"context"
	"encoding/json"
	"fmt"

	"github.com/cloudwego/dynamicgo/conv"
	"github.com/cloudwego/dynamicgo/conv/t2j"
	dhttp "github.com/cloudwego/dynamicgo/http"

	"verif/engine/core"
	"verif/ref/tbin"
)

// ---- response: an annotated struct-typed field whose struct type has annotated members of its own -----------
//
//	Resp{1: Meta meta (api.header="X-Meta"), 2: string msg, 3: Meta plain}
//	Meta{1: string trace (api.header="X-Trace"), 2: i32 code (api.http_code=""), 3: string note}
//
// By the statement every response field annotated with header / status "is delivered there and omitted from the
// JSON": trace and code of BOTH Meta values go to X-Trace / the status code and are absent from the JSON text
// they would otherwise appear in - the JSON body for `plain`, the JSON text delivered in X-Meta for `meta`.
// (Both Meta values carry the same trace / code so that the order of delivery does not matter.)
const respNestedIDL = `namespace go c17
struct Meta {
  1: string trace (api.header="X-Trace")
  2: i32 code (api.http_code="")
  3: string note
}
struct Resp {
  1: Meta meta (api.header="X-Meta")
  2: string msg
  3: Meta plain
}
service Svc {
  Resp M(1: Resp req)
}
`

type rnScenario struct {
	hasMeta, hasPlain bool
	fallback, omit    bool
	wd                bool
}

func (s rnScenario) String() string {
	return fmt.Sprintf("response nested annotations: meta set=%v plain set=%v WriteHttpValueFallback=%v OmitHttpMappingErrors=%v WriteDefaultField=%v", s.hasMeta, s.hasPlain, s.fallback, s.omit, s.wd)
}

func enumRespNested(g groupDef, tier string, yield func(core.Case) bool) {
	for m := 0; m < 32; m++ {
		s := rnScenario{hasMeta: m&1 != 0, hasPlain: m&2 != 0, fallback: m&4 != 0, omit: m&8 != 0, wd: m&16 != 0}
		if !s.hasMeta && !s.hasPlain {
			continue
		}
		if s.wd && !(s.hasMeta && s.hasPlain) {
			continue // a zero-filled twin would deliver its zero trace / code to the same targets (unset fields: C16)
		}
		c := core.Case{Tag: "t2j-http-nested", Desc: func() interface{} { return caseDesc{Group: g.name, Scenario: s.String(), IDL: respNestedIDL} },
			Run: func() core.Result { return runRespNested(s) }}
		if !yield(c) {
			return
		}
	}
}

func runRespNested(s rnScenario) core.Result {
	r := core.Result{Class: "ok", Key: s.String()}
	pi := core.Catch(func() {
		p := parseIDL(respNestedIDL)
		if p.err != nil {
			r.Add("idl|resp-nested|parse-error", "%v", p.err)
			return
		}
		desc := p.fn.Response().Struct().FieldById(0).Type()
		meta := tbin.Struct(tbin.F(1, tbin.Str("t1")), tbin.F(2, tbin.I32v(201)), tbin.F(3, tbin.Str("n")))
		msg := tbin.Struct()
		if s.hasMeta {
			msg.Fs = append(msg.Fs, tbin.F(1, meta))
		}
		msg.Fs = append(msg.Fs, tbin.F(2, tbin.Str("m")))
		if s.hasPlain {
			msg.Fs = append(msg.Fs, tbin.F(3, tbin.Clone(meta)))
		}
		resp := dhttp.NewHTTPResponse()
		cv := t2j.NewBinaryConv(conv.Options{EnableHttpMapping: true, WriteHttpValueFallback: s.fallback, OmitHttpMappingErrors: s.omit, WriteDefaultField: s.wd})
		out, err := cv.Do(context.WithValue(context.Background(), conv.CtxKeyHTTPResponse, resp), desc, tbin.Bytes(msg))
		cell := "resp-nested"
		if err != nil {
			r.Add("t2j-http|"+cell+"|"+errClass(err), "%s: %v", s, err)
			return
		}
		var body map[string]interface{}
		if e := json.Unmarshal(out, &body); e != nil {
			r.Add("t2j-http|"+cell+"|invalid-json-body", "%s: %s: %v", s, out, e)
			return
		}
		if body["msg"] != "m" {
			r.Add("t2j-http|unannotated-field,"+cell+"|differs", "%s: msg is %v in body %s", s, body["msg"], out)
		}
		// the members annotated inside Meta are delivered ...
		if got := resp.Response.Header.Get("X-Trace"); got != "t1" {
			r.Add("t2j-http|"+cell+"|inner-header-not-delivered", "%s: header X-Trace is %q, want \"t1\" (body %s, X-Meta %q)", s, got, out, resp.Response.Header.Get("X-Meta"))
		}
		if resp.Response.StatusCode != 201 {
			r.Add("t2j-http|"+cell+"|inner-status-not-delivered", "%s: status code %d, want 201", s, resp.Response.StatusCode)
		}
		// ... and omitted from the JSON they would otherwise be part of
		leak := func(where string, m map[string]interface{}) {
			for _, k := range []string{"trace", "code"} {
				if _, ok := m[k]; ok && !s.fallback {
					r.Add("t2j-http|"+cell+"|delivered-member-kept-in-json", "%s: member %q is still in the JSON of %s: %v", s, k, where, m)
				}
			}
			if m["note"] != "n" {
				r.Add("t2j-http|unannotated-field,"+cell+"|differs", "%s: %s.note is %v", s, where, m["note"])
			}
		}
		if s.hasMeta {
			if _, ok := body["meta"]; ok && !s.fallback {
				r.Add("t2j-http|"+cell+"|delivered-field-kept-in-body", "%s: meta was delivered to X-Meta but is still in the body %s", s, out)
			}
			txt := resp.Response.Header.Get("X-Meta")
			var mm map[string]interface{}
			if e := json.Unmarshal([]byte(txt), &mm); e != nil {
				r.Add("t2j-http|"+cell+"|struct-header-not-json", "%s: header X-Meta is %q: %v", s, txt, e)
			} else {
				leak("X-Meta", mm)
			}
		}
		if s.hasPlain {
			pm, ok := body["plain"].(map[string]interface{})
			if !ok {
				r.Add("t2j-http|unannotated-field,"+cell+"|differs", "%s: plain is %v in body %s", s, body["plain"], out)
			} else {
				leak("body.plain", pm)
			}
		}
		r.Class = "converted"
	})
	if pi != nil {
		r.Class = "panic"
		r.Add("t2j-http|resp-nested|panic@"+pi.Site+":"+core.PanicClass(pi.Val), "%s\npanic: %s\n%s", s, pi.Val, pi.Stack)
	}
	if len(r.Viol) > 0 && r.Class != "panic" {
		r.Class = "violation"
	}
	return dedupe(r)
}
