// Package c17: HTTP mapping takes each annotated field from its declared source (decision table).
package c17

import (
	"fmt"

	"verif/engine/core"
	"verif/ref/httpref"
)

type check struct{}

func init() { core.Register(check{}) }

func (check) ID() string    { return "C17" }
func (check) Level() string { return "exploration" }
func (check) Rule() string {
	return "bounded-exhaustive product, simplest first. Requests: field type (6 quick / 9 thorough) x every ordered list of 1..2 annotations out of {query,path,header,cookie,form,body,raw_body,raw_uri} (64) x level (root, nested, nested2, in-list; thorough adds every ordered list of 3 annotations for string/i32 at root level) x requiredness (3) x body kind (none, JSON, form) x body member present x every subset of the listed sources populated x list spelling (comma / JSON) x own-key query parameter x {ReadHttpValueFallback,TracebackRequredOrRootFields,WriteRequireField,WriteDefaultField,WriteOptionalField} (32) x NoBase64Binary (binary fields), each through BinaryConv.Do+CtxKeyHTTPRequest and HTTPConv.Do; requests are net/http requests wrapped by http.NewHTTPRequestFromStdReq. Responses: type x every ordered list of 1..2 out of {header,cookie,http_code,raw_body} x level (root,nested,nested2) x requiredness x field set/unset x {WriteHttpValueFallback,OmitHttpMappingErrors,UseKitexHttpEncoding} x write options, through BinaryConv.Do+CtxKeyHTTPResponse and HTTPConv.Do with http.HTTPResponse. Plus one struct with more http-mapped root fields than the native field cache (4200) and the text codec (EncodeText/DecodeText) on unknown fields. A case is non-trivial if distinct by its scenario. Later additions: two-level requests, decoys in every other source and (without a JSON body) under the names of un-annotated fields, nested response annotations, a request wrapper that served another query before, every response scenario also with NoCopyString. Round 8: SetOptionalBitmap-parsed descriptor entry; no_body_struct member with three sources x all population subsets. Round 9: integer http texts with a leading zero. Round 10: a response-only annotation listed in front of a request source. Round 11: body-borne string values that need JSON escapes."
}

func (check) Assumptions() []string {
	return []string{
		"decision table = ref/httpref (derived from the property statement and the option comments of conv/api.go); where the documentation leaves two readings open both outcomes are accepted",
		"values differ per source (slot numbering) so that the source actually used is identified from the output",
		"cookies cannot carry '\"': map/struct-typed fields are not combined with api.cookie, lists travel comma-separated in cookies",
		"a raw body / raw uri text offered to a map or struct typed field is not judged",
		"nested fields are judged only when the JSON body instantiates the enclosing struct",
		"un-annotated fields are compared with the same conversion without mapping (JSON bodies only)",
	}
}

func (check) BudgetSeconds(tier string) int {
	if tier == "thorough" {
		return 2400
	}
	return 220
}

type groupDef struct {
	name    string
	kind    string // req | resp | big | text
	t       ftype
	list    []httpref.Source
	level   string
	n       int
	variant string
}

var scopeMemo = map[string][]groupDef{}

func groupsFor(tier string) []groupDef {
	if g, ok := scopeMemo[tier]; ok {
		return g
	}
	var gs []groupDef
	levels := []string{"root", "nested", "nested2", "in-list"}
	for _, lv := range levels {
		for _, t := range typesFor(tier) {
			for _, l := range orderedLists(reqSources) {
				if t.quoted && hasSource(l, httpref.Cookie) {
					continue
				}
				gs = append(gs, groupDef{name: fmt.Sprintf("req/%s/%s/%s", lv, t.name, listName(l)), kind: "req", t: t, list: l, level: lv})
			}
		}
	}
	// a struct shared by requests and responses: a RESPONSE-only annotation (api.http_code) listed in front of a request
	// source - it never has a value in a request, the next listed source decides
	for _, t := range []ftype{tI32, tString} {
		for _, x := range reqSources {
			if t.quoted && x == httpref.Cookie {
				continue
			}
			l := []httpref.Source{httpref.Code, x}
			gs = append(gs, groupDef{name: fmt.Sprintf("req/root/%s/%s", t.name, listName(l)), kind: "req", t: t, list: l, level: "root"})
		}
	}
	if tier == "thorough" {
		// every ordered list of three annotations, root level, two scalar types
		for _, t := range []ftype{tString, tI32} {
			for _, l := range orderedTriples(reqSources) {
				gs = append(gs, groupDef{name: fmt.Sprintf("req/root/%s/%s", t.name, listName(l)), kind: "req", t: t, list: l, level: "root"})
			}
		}
	}
	gs = append(gs, respGroups(tier)...)
	for _, b := range bigGroups(tier) {
		gs = append(gs, groupDef{name: fmt.Sprintf("big-struct/n=%d/%s", b.n, b.variant), kind: "big", n: b.n, variant: b.variant})
	}
	gs = append(gs, groupDef{name: "req/no_body_struct", kind: "nobody"}, groupDef{name: "req/two-level", kind: "twolevel"}, groupDef{name: "resp/nested-annotations", kind: "respnested"}, groupDef{name: "text-codec", kind: "text"})
	scopeMemo[tier] = gs
	return gs
}

func hasSource(l []httpref.Source, s httpref.Source) bool {
	for _, x := range l {
		if x == s {
			return true
		}
	}
	return false
}

func (check) Groups(tier string, seed int64) []string {
	var out []string
	for _, g := range groupsFor(tier) {
		out = append(out, g.name)
	}
	return out
}

type caseDesc struct {
	Group    string `json:"group"`
	Scenario string `json:"scenario"`
	IDL      string `json:"idl,omitempty"`
	URL      string `json:"url,omitempty"`
	Body     string `json:"body,omitempty"`
}

func (check) Enumerate(tier string, seed int64, group int, yield func(core.Case) bool) {
	g := groupsFor(tier)[group]
	switch g.kind {
	case "req":
		enumRequests(g, tier, yield)
	case "resp":
		enumResponses(g, tier, yield)
	case "big":
		enumBig(g, tier, yield)
	case "text":
		enumText(g, tier, yield)
	case "nobody":
		enumNoBody(g, tier, yield)
	case "twolevel":
		enumTwoLevel(g, tier, yield)
	case "respnested":
		enumRespNested(g, tier, yield)
	}
}

var allReq = []httpref.Requiredness{httpref.Default, httpref.Required, httpref.Optional}

func enumRequests(g groupDef, tier string, yield func(core.Case) bool) {
	// controllable listed sources
	var ctl []httpref.Source
	for _, x := range g.list {
		if x != httpref.RawBody && x != httpref.RawURI && x != httpref.Code { // (a response-only annotation never has a value in a request)
			ctl = append(ctl, x)
		}
	}
	bools := []bool{false, true}
	isList := g.t.name == "list_i32" || g.t.name == "list_string" || g.t.name == "list_binary"
	for _, r := range allReq {
		for _, kind := range []string{"json", "empty", "form"} {
			if g.level != "root" && kind != "json" {
				continue // the enclosing struct must be instantiated by the JSON body
			}
			for _, member := range bools {
				if member && kind != "json" {
					continue
				}
				for mask := 0; mask < 1<<uint(len(ctl)); mask++ {
					has := map[httpref.Source]bool{}
					okMask := true
					for i, x := range ctl {
						if mask>>uint(i)&1 == 1 {
							has[x] = true
							if x == httpref.Form && kind != "form" {
								okMask = false
							}
							if x == httpref.Body && kind == "empty" {
								okMask = false
							}
						}
					}
					if !okMask {
						continue
					}
					for _, jl := range bools {
						if jl && !isList {
							continue
						}
						for _, nb := range bools {
							if nb && g.t.name != "binary" && g.t.name != "list_binary" {
								continue
							}
							for ob := 0; ob < 32; ob++ {
								o := httpref.ReqOpts{ReadFallback: ob&1 != 0, Traceback: ob&2 != 0, WriteRequire: ob&4 != 0, WriteDefault: ob&8 != 0, WriteOptional: ob&16 != 0}
								for _, own := range bools {
									s := reqScenario{t: g.t, list: g.list, level: g.level, r: r, has: has, bodyKind: kind, member: member, ownKey: own, jsonList: jl, noB64: nb, o: o}
									c := core.Case{
										Tag: "j2t-http",
										Desc: func() interface{} {
											return caseDesc{Group: g.name, Scenario: s.String(), IDL: requestIDL(s.t, s.list, s.r, s.level), URL: s.url(), Body: string(s.body())}
										},
										Run: func() core.Result { return runRequest(s) },
									}
									if !yield(c) {
										return
									}
								}
							}
						}
					}
				}
			}
		}
	}
}
