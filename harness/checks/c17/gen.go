package c17

import (
	"encoding/base64"
	"encoding/json"
	"fmt"
	"strings"

	"verif/ref/httpref"
	"verif/ref/tbin"
)

// ---- the type alphabet of the annotated field ----------------------------------------------------

type ftype struct {
	name    string // short name used in group names
	idl     string // IDL type text
	complex bool   // list / map / struct
	quoted  bool   // the JSON text form contains '"' (cannot travel in a cookie)
}

var (
	tString  = ftype{name: "string", idl: "string"}
	tI32     = ftype{name: "i32", idl: "i32"}
	tI64     = ftype{name: "i64", idl: "i64"}
	tDouble  = ftype{name: "double", idl: "double"}
	tBool    = ftype{name: "bool", idl: "bool"}
	tBinary  = ftype{name: "binary", idl: "binary"}
	tListI32 = ftype{name: "list_i32", idl: "list<i32>", complex: true}
	tListStr = ftype{name: "list_string", idl: "list<string>", complex: true}
	tListBin = ftype{name: "list_binary", idl: "list<binary>", complex: true}
	tMapSS   = ftype{name: "map_string_string", idl: "map<string,string>", complex: true, quoted: true}
	tStruct  = ftype{name: "struct", idl: "Leaf", complex: true, quoted: true}
)

func typesFor(tier string) []ftype {
	if tier == "thorough" {
		return []ftype{tString, tI32, tI64, tDouble, tBinary, tListI32, tListStr, tListBin, tMapSS, tStruct}
	}
	return []ftype{tString, tI32, tBinary, tListI32, tListBin, tMapSS, tStruct}
}

// slot numbers: every place a value can come from carries a different value
const (
	slotQuery  = 1
	slotPath   = 2
	slotHeader = 3
	slotCookie = 4
	slotForm   = 5
	slotBody   = 6 // api.body (member "bk" of the body map)
	slotMember = 7 // the JSON body member of the field itself (fallback)
	slotOwnKey = 8 // query parameter under the field's own key (traceback)
	slotDecoy  = 9 // a value offered under a listed key but in ANOTHER kind of source (must never be taken)
)

var slotOf = map[httpref.Source]int{httpref.Query: slotQuery, httpref.Path: slotPath, httpref.Header: slotHeader, httpref.Cookie: slotCookie, httpref.Form: slotForm, httpref.Body: slotBody}

// value of type t for slot n: the model value, its http text form and its JSON literal.
// jsonSpelling: lists are written as JSON arrays instead of comma-separated text.
func slotValue(t ftype, n int, jsonSpelling bool, noBase64 bool) (v *tbin.Val, text string, jsonLit string) {
	switch t.name {
	case "string":
		s := fmt.Sprintf("str%d", n)
		if n == slotBody || n == slotMember {
			// values that live in the JSON body carry characters that JSON escapes (quote, backslash, solidus, newline,
			// a non-ASCII rune): the field gets the DENOTED string
			s = fmt.Sprintf("s\"t\\r/%d\n\u00e9", n)
			j, _ := json.Marshal(s)
			return tbin.Str(s), s, string(j)
		}
		return tbin.Str(s), s, fmt.Sprintf("%q", s)
	case "i32":
		// the http text of the odd slots carries a leading zero (a decimal number all the same: zip codes, padded ids)
		x := int32(100 + n)
		return tbin.I32v(x), lead0(n) + fmt.Sprint(x), fmt.Sprint(x)
	case "i64":
		x := int64(9000000000) + int64(n)
		return tbin.I64v(x), lead0(n) + fmt.Sprint(x), fmt.Sprint(x)
	case "double":
		x := float64(n) + 0.5
		return tbin.Double(x), fmt.Sprint(x), fmt.Sprint(x)
	case "bool":
		return tbin.Bool(true), "true", "true"
	case "binary":
		raw := []byte{byte(n), 0xff, 'b'}
		b64 := base64.StdEncoding.EncodeToString(raw)
		if noBase64 {
			// the text is taken verbatim
			return tbin.Bin([]byte(b64)), b64, fmt.Sprintf("%q", b64)
		}
		return tbin.Bin(raw), b64, fmt.Sprintf("%q", b64)
	case "list_i32":
		a, b := int32(100+n), int32(200+n)
		v := tbin.List(tbin.I32, tbin.I32v(a), tbin.I32v(b))
		js := fmt.Sprintf("[%d,%d]", a, b)
		if jsonSpelling {
			return v, js, js
		}
		return v, fmt.Sprintf("%s%d,%s%d", lead0(n), a, lead0(n+1), b), js
	case "list_string":
		a, b := fmt.Sprintf("a%d", n), fmt.Sprintf("b%d", n)
		v := tbin.List(tbin.STRING, tbin.Str(a), tbin.Str(b))
		js := fmt.Sprintf("[%q,%q]", a, b)
		if jsonSpelling {
			return v, js, js
		}
		return v, a + "," + b, js
	case "list_binary":
		ra, rb := []byte{byte(n), 0xff, 'a'}, []byte{byte(n), 0x00, 'b', 'c'}
		a, b := base64.StdEncoding.EncodeToString(ra), base64.StdEncoding.EncodeToString(rb)
		v := tbin.List(tbin.STRING, tbin.Bin(ra), tbin.Bin(rb))
		if noBase64 {
			v = tbin.List(tbin.STRING, tbin.Bin([]byte(a)), tbin.Bin([]byte(b)))
		}
		js := fmt.Sprintf("[%q,%q]", a, b)
		if jsonSpelling {
			return v, js, js
		}
		return v, a + "," + b, js
	case "map_string_string":
		val := fmt.Sprintf("v%d", n)
		v := tbin.Map(tbin.STRING, tbin.STRING, tbin.Str("k"), tbin.Str(val))
		js := fmt.Sprintf(`{"k":%q}`, val)
		return v, js, js
	case "struct":
		v := tbin.Struct(tbin.F(1, tbin.I32v(int32(100+n))), tbin.F(2, tbin.Str(fmt.Sprintf("x%d", n))))
		js := fmt.Sprintf(`{"a":%d,"b":"x%d"}`, 100+n, n)
		return v, js, js
	}
	panic("bad type")
}

func lead0(n int) string {
	if n%2 == 1 {
		return "0"
	}
	return ""
}

// zero value of a type (what Write*Field fills in)
func zeroValue(t ftype) *tbin.Val {
	switch t.name {
	case "string", "binary":
		return tbin.Str("")
	case "i32":
		return tbin.I32v(0)
	case "i64":
		return tbin.I64v(0)
	case "double":
		return tbin.Double(0)
	case "bool":
		return tbin.Bool(false)
	case "list_i32":
		return tbin.List(tbin.I32)
	case "list_string", "list_binary":
		return tbin.List(tbin.STRING)
	case "map_string_string":
		return tbin.Map(tbin.STRING, tbin.STRING)
	case "struct":
		return tbin.Struct()
	}
	panic("bad type")
}

// ---- annotation lists ---------------------------------------------------------------------------

var reqSources = []httpref.Source{httpref.Query, httpref.Path, httpref.Header, httpref.Cookie, httpref.Form, httpref.Body, httpref.RawBody, httpref.RawURI}
var respTargets = []httpref.Source{httpref.Header, httpref.Cookie, httpref.Code, httpref.RawBody}

// orderedLists: every ordered list of 1..2 distinct elements.
func orderedLists(al []httpref.Source) [][]httpref.Source {
	var out [][]httpref.Source
	for _, a := range al {
		out = append(out, []httpref.Source{a})
	}
	for _, a := range al {
		for _, b := range al {
			if a != b {
				out = append(out, []httpref.Source{a, b})
			}
		}
	}
	return out
}

// orderedTriples: every ordered list of 3 distinct elements.
func orderedTriples(al []httpref.Source) [][]httpref.Source {
	var out [][]httpref.Source
	for _, a := range al {
		for _, b := range al {
			for _, c := range al {
				if a != b && a != c && b != c {
					out = append(out, []httpref.Source{a, b, c})
				}
			}
		}
	}
	return out
}

func listName(l []httpref.Source) string {
	var p []string
	for _, s := range l {
		p = append(p, string(s))
	}
	return strings.Join(p, "+")
}

var annoKey = map[httpref.Source]string{httpref.Query: "qk", httpref.Path: "pk", httpref.Header: "hk", httpref.Cookie: "ck", httpref.Form: "fk", httpref.Body: "bk", httpref.RawBody: "", httpref.RawURI: "", httpref.Code: "status"}

func annoText(l []httpref.Source) string {
	if len(l) == 0 {
		return ""
	}
	var p []string
	for _, s := range l {
		p = append(p, fmt.Sprintf(`api.%s="%s"`, string(s), annoKey[s]))
	}
	return " (" + strings.Join(p, ", ") + ")"
}

var reqWord = map[httpref.Requiredness]string{httpref.Default: "", httpref.Required: "required ", httpref.Optional: "optional "}

// requestIDL: root level  Req{1: f, 2: i32 u, 3: string v};  nested  Req{1: Mid mid, 2: i32 u}, Mid{1: f, 2: i32 u2}
func requestIDL(t ftype, l []httpref.Source, r httpref.Requiredness, level string) string {
	f := fmt.Sprintf("1: %s%s f%s", reqWord[r], t.idl, annoText(l))
	var sb strings.Builder
	sb.WriteString("namespace go c17\nstruct Leaf {\n  1: i32 a\n  2: string b\n}\n")
	switch level {
	case "root":
		fmt.Fprintf(&sb, "struct Req {\n  %s\n  2: i32 u\n  3: optional string v\n}\n", f)
	case "nested":
		fmt.Fprintf(&sb, "struct Mid {\n  %s\n  2: i32 u2\n}\nstruct Req {\n  1: Mid mid\n  2: i32 u\n}\n", f)
	case "nested2":
		fmt.Fprintf(&sb, "struct Mid2 {\n  %s\n  2: i32 u3\n}\nstruct Mid {\n  1: Mid2 m2\n  2: i32 u2\n}\nstruct Req {\n  1: Mid mid\n  2: i32 u\n}\n", f)
	case "in-list":
		fmt.Fprintf(&sb, "struct Mid {\n  %s\n  2: i32 u2\n}\nstruct Req {\n  1: list<Mid> mids\n  2: i32 u\n}\n", f)
	}
	sb.WriteString("service Svc {\n  Req M(1: Req req)\n}\n")
	return sb.String()
}
