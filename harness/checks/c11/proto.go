package c11

import (
	"fmt"

	dproto "github.com/cloudwego/dynamicgo/proto"
	pgeneric "github.com/cloudwego/dynamicgo/proto/generic"
	"google.golang.org/protobuf/reflect/protoreflect"
	"google.golang.org/protobuf/types/dynamicpb"

	"verif/checks/pj"
	"verif/engine/core"
	"verif/ref/poolpoison"
)

// Protobuf half: source message type From (method input), target type To (method output) of one
// generated program; To's message tree replicates From's with ONE edit at one message level.

type pmsg struct {
	name   string
	fields []*pj.Field
}

func leafFields() []*pj.Field {
	return []*pj.Field{pj.F("a", 1, pj.Int32), pj.F("b", 2, pj.String), pj.F("c", 3, pj.Sint64), pj.F("blob", 4, pj.Bytes)}
}
func midFields(leaf string) []*pj.Field {
	unp := pj.F("unp", 7, pj.Sint32).Repeated()
	unp.Packed = "false" // one record per element on the wire
	return append(midFieldsBase(leaf), unp)
}
func midFieldsBase(leaf string) []*pj.Field {
	return []*pj.Field{pj.FM("leaf", 1, leaf), pj.FM("leaves", 2, leaf).Repeated(), pj.FM("m", 3, leaf).MapOf(pj.String), pj.F("x", 4, pj.Int64), pj.F("nums", 5, pj.Int32).Repeated(), pj.F("blob", 6, pj.Bytes), pj.F("tail", 16, pj.Fixed32)}
}
func rootFields(mid string) []*pj.Field {
	return []*pj.Field{pj.F("i", 1, pj.Int32), pj.F("s", 2, pj.String), pj.FM("mid", 3, mid), pj.FM("mids", 4, mid).Repeated(), pj.FM("mm", 5, mid).MapOf(pj.Int32), pj.F("raw", 6, pj.Bytes), pj.F("strs", 7, pj.String).Repeated(), pj.F("d", 8, pj.Double), pj.F("im", 9, pj.Int64).MapOf(pj.Int32), pj.F("big", 2047, pj.Uint64)}
}

type pedit struct {
	name  string
	level string // leaf | mid | root | none
	apply func(fs []*pj.Field) []*pj.Field
	kind  string
}

func pedits() []pedit {
	var out []pedit
	out = append(out, pedit{name: "identical", level: "none", kind: "identical", apply: func(fs []*pj.Field) []*pj.Field { return fs }})
	levels := map[string][]*pj.Field{"leaf": leafFields(), "mid": midFields("Leaf"), "root": rootFields("Mid")}
	for _, lv := range []string{"root", "mid", "leaf"} {
		for i, f := range levels[lv] {
			i, f := i, f
			out = append(out, pedit{name: fmt.Sprintf("%s/drop-%s", lv, f.Name), level: lv, kind: "drop",
				apply: func(fs []*pj.Field) []*pj.Field { return append(append([]*pj.Field{}, fs[:i]...), fs[i+1:]...) }})
		}
		for _, nf := range []*pj.Field{pj.F("extra_i", 50, pj.Int32), pj.F("extra_s", 51, pj.String).Repeated(), pj.FM("extra_m", 52, "Extra"), pj.F("extra_map", 53, pj.Int32).MapOf(pj.String)} {
			nf := nf
			out = append(out, pedit{name: fmt.Sprintf("%s/add-%s", lv, nf.Name), level: lv, kind: "add",
				apply: func(fs []*pj.Field) []*pj.Field { return append(append([]*pj.Field{}, fs...), nf) }})
		}
	}
	return out
}

// midOfTo: for edits at the root level the target root refers to the SAME Mid message type as the source root
// (different root descriptors sharing their sub-descriptors), otherwise to its own copy MidT.
func midOfTo(e pedit) string {
	if e.level == "root" {
		return "Mid"
	}
	return "MidT"
}

func pprogram(e pedit) *pj.Program {
	ed := func(level string, fs []*pj.Field) []*pj.Field {
		if e.level == level {
			return e.apply(fs)
		}
		return fs
	}
	msgs := []*pj.Msg{
		{Name: "Extra", Fields: []*pj.Field{pj.F("e", 1, pj.Int32)}},
		{Name: "Leaf", Fields: leafFields()},
		{Name: "Mid", Fields: midFields("Leaf")},
		{Name: "From", Fields: rootFields("Mid")},
		{Name: "LeafT", Fields: ed("leaf", leafFields())},
		{Name: "MidT", Fields: ed("mid", midFields("LeafT"))},
		{Name: "To", Fields: ed("root", rootFields(midOfTo(e)))},
	}
	in, out := "From", "To"
	if e.kind == "identical" {
		out = "From"
	}
	svcs := []*pj.Service{pj.OneMethodService(in, out)}
	if e.level == "root" {
		// source and target are the REQUEST types of two methods of one service: they are parsed for the same target,
		// so the Mid / Leaf descriptors below them are the very same objects
		svcs = []*pj.Service{{Name: "S", Methods: []pj.Method{{Name: "M", In: "From", Out: "Extra"}, {Name: "M2", In: "To", Out: "Extra"}}}}
	}
	f := &pj.File{Path: "main.proto", Pkg: pj.Pkg, Msgs: msgs, Svcs: svcs}
	return &pj.Program{Name: "c11/" + e.name, Main: "main.proto", Files: []*pj.File{f}}
}

// fill builds a From message with n elements per container.
// blobSize > 0: payload of that many bytes in every Leaf.blob / Mid.blob (length-prefix boundaries of the
// enclosing messages: 127/128, 16383/16384, 2^21)
var blobSize int

// wideLeaves > 0: Root.mid carries that many elements in its repeated message field and that many map entries with
// message values (any per-message budget the library counts in must not be used up by siblings)
var wideLeaves int

func blob(k int) []byte {
	b := make([]byte, blobSize)
	for i := range b {
		b[i] = byte(i*7 + k)
	}
	return b
}

func fillLeaf(md protoreflect.MessageDescriptor, k int) protoreflect.Message {
	m := dynamicpb.NewMessage(md)
	f := md.Fields()
	if blobSize > 0 && k%2 == 1 {
		m.Set(f.ByName("blob"), protoreflect.ValueOfBytes(blob(k)))
	}
	m.Set(f.ByName("a"), protoreflect.ValueOfInt32(int32(100+k)))
	m.Set(f.ByName("b"), protoreflect.ValueOfString(fmt.Sprintf("leaf-%d", k)))
	if k%2 == 1 {
		m.Set(f.ByName("c"), protoreflect.ValueOfInt64(int64(-1-k)<<33))
	}
	return m
}

func fillMid(md protoreflect.MessageDescriptor, n, k int) protoreflect.Message {
	m := dynamicpb.NewMessage(md)
	f := md.Fields()
	leafMD := f.ByName("leaf").Message()
	if n > 0 {
		m.Set(f.ByName("leaf"), protoreflect.ValueOfMessage(fillLeaf(leafMD, k)))
	} else {
		m.Set(f.ByName("leaf"), protoreflect.ValueOfMessage(dynamicpb.NewMessage(leafMD))) // empty sub-message
	}
	l := m.Mutable(f.ByName("leaves")).List()
	mp := m.Mutable(f.ByName("m")).Map()
	nums := m.Mutable(f.ByName("nums")).List()
	if wideLeaves > 0 && k == 1 {
		// the singular Mid of the root holds MANY sub messages (list elements and map values) at one level
		n = wideLeaves
	}
	for i := 0; i < n; i++ {
		l.Append(protoreflect.ValueOfMessage(fillLeaf(leafMD, k*10+i)))
		mp.Set(protoreflect.ValueOfString(fmt.Sprintf("k%d", i)).MapKey(), protoreflect.ValueOfMessage(fillLeaf(leafMD, k*10+5+i)))
		nums.Append(protoreflect.ValueOfInt32(int32(i*150 - 1)))
		m.Mutable(f.ByName("unp")).List().Append(protoreflect.ValueOfInt32(int32(70*i - 3)))
	}
	if blobSize > 0 {
		m.Set(f.ByName("blob"), protoreflect.ValueOfBytes(blob(k)))
	}
	m.Set(f.ByName("x"), protoreflect.ValueOfInt64(int64(k)<<40+7))
	m.Set(f.ByName("tail"), protoreflect.ValueOfUint32(0xfffffff0+uint32(k)))
	return m
}

func fillRoot(md protoreflect.MessageDescriptor, n int) protoreflect.Message {
	m := dynamicpb.NewMessage(md)
	f := md.Fields()
	midMD := f.ByName("mid").Message()
	m.Set(f.ByName("i"), protoreflect.ValueOfInt32(-7))
	m.Set(f.ByName("s"), protoreflect.ValueOfString("root string"))
	m.Set(f.ByName("mid"), protoreflect.ValueOfMessage(fillMid(midMD, n, 1)))
	mids := m.Mutable(f.ByName("mids")).List()
	mm := m.Mutable(f.ByName("mm")).Map()
	strs := m.Mutable(f.ByName("strs")).List()
	im := m.Mutable(f.ByName("im")).Map()
	for i := 0; i < n; i++ {
		mids.Append(protoreflect.ValueOfMessage(fillMid(midMD, n, 2+i)))
		mm.Set(protoreflect.ValueOfInt32(int32(i*1000-1)).MapKey(), protoreflect.ValueOfMessage(fillMid(midMD, n-1, 5+i)))
		strs.Append(protoreflect.ValueOfString(fmt.Sprintf("str-%d", i)))
		im.Set(protoreflect.ValueOfInt32(int32(i)).MapKey(), protoreflect.ValueOfInt64(int64(i)-(1<<62)))
	}
	m.Set(f.ByName("raw"), protoreflect.ValueOfBytes([]byte{0, 0xff, 0x80, byte(n)}))
	m.Set(f.ByName("d"), protoreflect.ValueOfFloat64(1.5))
	m.Set(f.ByName("big"), protoreflect.ValueOfUint64(1<<63+uint64(n)))
	return m
}

// projectPB builds the expected target message: fields whose number exists in both schemas, copied recursively.
func projectPB(src protoreflect.Message, toMD protoreflect.MessageDescriptor) protoreflect.Message {
	out := dynamicpb.NewMessage(toMD)
	src.Range(func(fd protoreflect.FieldDescriptor, v protoreflect.Value) bool {
		tf := toMD.Fields().ByNumber(fd.Number())
		if tf == nil {
			return true
		}
		switch {
		case fd.IsMap():
			dst := out.Mutable(tf).Map()
			v.Map().Range(func(k protoreflect.MapKey, e protoreflect.Value) bool {
				if fd.MapValue().Kind() == protoreflect.MessageKind {
					dst.Set(k, protoreflect.ValueOfMessage(projectPB(e.Message(), tf.MapValue().Message())))
				} else {
					dst.Set(k, e)
				}
				return true
			})
		case fd.IsList():
			dst := out.Mutable(tf).List()
			for i := 0; i < v.List().Len(); i++ {
				e := v.List().Get(i)
				if fd.Kind() == protoreflect.MessageKind {
					dst.Append(protoreflect.ValueOfMessage(projectPB(e.Message(), tf.Message())))
				} else {
					dst.Append(e)
				}
			}
		case fd.Kind() == protoreflect.MessageKind:
			out.Set(tf, protoreflect.ValueOfMessage(projectPB(v.Message(), tf.Message())))
		default:
			out.Set(tf, v)
		}
		return true
	})
	return out
}

func hasUnknown(m protoreflect.Message) bool {
	if len(m.GetUnknown()) > 0 {
		return true
	}
	bad := false
	m.Range(func(fd protoreflect.FieldDescriptor, v protoreflect.Value) bool {
		switch {
		case fd.IsMap():
			if fd.MapValue().Kind() == protoreflect.MessageKind {
				v.Map().Range(func(k protoreflect.MapKey, e protoreflect.Value) bool {
					if hasUnknown(e.Message()) {
						bad = true
					}
					return true
				})
			}
		case fd.IsList():
			if fd.Kind() == protoreflect.MessageKind {
				for i := 0; i < v.List().Len(); i++ {
					if hasUnknown(v.List().Get(i).Message()) {
						bad = true
					}
				}
			}
		case fd.Kind() == protoreflect.MessageKind:
			if hasUnknown(v.Message()) {
				bad = true
			}
		}
		return true
	})
	return bad
}

const pchunk = 6

func protoGroups() []string {
	n := len(pedits())
	var g []string
	for i := 0; i < n; i += pchunk {
		g = append(g, fmt.Sprintf("proto/pairs/%d-%d", i, i+pchunk))
	}
	return append(g, "proto/recursive")
}

// ---- recursive message types: Rec{v, repeated Rec kids, s} cut to itself, to RecT without v, to RecT without s.
// A repeated message field that is LAST in its message is followed, in the parent, by the next element of the
// parent's own list: the same tag right behind the end of the sub-message.

func recProgram(drop string) *pj.Program {
	rec := func(name, self string, drop string) *pj.Msg {
		var fs []*pj.Field
		if drop != "v" {
			fs = append(fs, pj.F("v", 1, pj.Int32))
		}
		fs = append(fs, pj.FM("kids", 2, self).Repeated())
		if drop != "s" {
			fs = append(fs, pj.F("s", 3, pj.String))
		}
		return &pj.Msg{Name: name, Fields: fs}
	}
	msgs := []*pj.Msg{rec("Rec", "Rec", ""), rec("RecT", "RecT", drop),
		{Name: "From", Fields: []*pj.Field{pj.FM("r", 1, "Rec"), pj.FM("rs", 2, "Rec").Repeated(), pj.F("tail", 3, pj.Int32)}},
		{Name: "To", Fields: []*pj.Field{pj.FM("r", 1, "RecT"), pj.FM("rs", 2, "RecT").Repeated(), pj.F("tail", 3, pj.Int32)}}}
	out := "To"
	if drop == "" {
		out = "From"
	}
	f := &pj.File{Path: "main.proto", Pkg: pj.Pkg, Msgs: msgs, Svcs: []*pj.Service{pj.OneMethodService("From", out)}}
	return &pj.Program{Name: "c11/recursive/drop=" + drop, Main: "main.proto", Files: []*pj.File{f}}
}

// recTree: shape codes - a Rec is written as a list of child shapes; leaf = nil. v and s are set from a counter
// (s only on every second node, so that lists are sometimes the last field of their message and sometimes not).
type recShape []recShape

func buildRec(md protoreflect.MessageDescriptor, sh recShape, ctr *int, withS bool) protoreflect.Message {
	m := dynamicpb.NewMessage(md)
	*ctr++
	k := *ctr
	m.Set(md.Fields().ByName("v"), protoreflect.ValueOfInt32(int32(k)))
	l := m.Mutable(md.Fields().ByName("kids")).List()
	for _, c := range sh {
		l.Append(protoreflect.ValueOfMessage(buildRec(md, c, ctr, withS)))
	}
	if withS && k%2 == 0 {
		m.Set(md.Fields().ByName("s"), protoreflect.ValueOfString(fmt.Sprintf("s%d", k)))
	}
	return m
}

func recShapes() []recShape {
	leaf := recShape(nil)
	one := recShape{leaf}
	return []recShape{
		leaf, one, {leaf, leaf}, {one, leaf}, {leaf, one}, {one, one}, {{one}, leaf}, {{one, leaf}, leaf, one},
		{{{one}}}, {{one, one}, {leaf, leaf}, leaf},
	}
}

func protoRecursive(yield func(core.Case) bool) {
	for _, drop := range []string{"", "v", "s"} {
		for si, sh := range recShapes() {
			for _, withS := range []bool{false, true} {
				drop, si, sh, withS := drop, si, sh, withS
				c := core.Case{Tag: "proto,recursive",
					Desc: func() interface{} {
						return pcdesc{fmt.Sprintf("recursive drop=%q shape %d withS=%v", drop, si, withS), 0, 0, recProgram(drop).SourceDump()}
					},
					Run: func() core.Result { return runRec(drop, si, sh, withS) }}
				if !yield(c) {
					return
				}
			}
		}
	}
}

func runRec(drop string, si int, sh recShape, withS bool) core.Result {
	r := core.Result{Class: "ok", Key: fmt.Sprintf("proto|recursive|%s|%d|%v", drop, si, withS)}
	c := pj.Compile(recProgram(drop))
	if c.Err != nil {
		r.Add("harness|proto-desc|error", "dynamicgo rejects the recursive schema: %v", c.Err)
		return r
	}
	fromMD := c.Ref.Msg(pj.Pkg + ".From")
	toMD := fromMD
	if drop != "" {
		toMD = c.Ref.Msg(pj.Pkg + ".To")
	}
	recMD := fromMD.Fields().ByName("r").Message()
	ctr := 0
	src := dynamicpb.NewMessage(fromMD)
	src.Set(fromMD.Fields().ByName("r"), protoreflect.ValueOfMessage(buildRec(recMD, sh, &ctr, withS)))
	rs := src.Mutable(fromMD.Fields().ByName("rs")).List()
	rs.Append(protoreflect.ValueOfMessage(buildRec(recMD, sh, &ctr, withS)))
	rs.Append(protoreflect.ValueOfMessage(buildRec(recMD, recShape{nil}, &ctr, withS)))
	if withS {
		src.Set(fromMD.Fields().ByName("tail"), protoreflect.ValueOfInt32(9))
	}
	in := pj.Marshal(src)
	want := projectPB(src, toMD)
	trig := "proto,recursive,drop=" + drop
	for _, native := range []bool{false, true} {
		for _, disallow := range []bool{false, true} {
			what := fmt.Sprintf("recursive drop=%q shape %d withS=%v opts={native:%v disallowUnknown:%v}", drop, si, withS, native, disallow)
			var out []byte
			var err error
			pi := core.Catch(func() {
				v := pgeneric.NewRootValue(c.In, append([]byte{}, in...))
				out, err = v.MarshalTo(c.Out, &pgeneric.Options{UseNativeSkip: native, DisallowUnknown: disallow})
			})
			switch {
			case pi != nil:
				r.Add("proto.Value.MarshalTo|"+trig+"|panic@"+pi.Site+":"+core.PanicClass(pi.Val), "%s: panic %s\n%s", what, pi.Val, pi.Stack)
			case err != nil:
				if !(disallow && drop != "") {
					r.Add("proto.Value.MarshalTo|"+trig+"|error", "%s: unexpected error %v", what, err)
				}
			default:
				got, derr := pj.Unmarshal(toMD, out)
				if derr != nil {
					r.Add("proto.Value.MarshalTo|"+trig+"|malformed", "%s: output %x rejected by the reference implementation: %v", what, out, derr)
					break
				}
				if hasUnknown(got) {
					r.Add("proto.Value.MarshalTo|"+trig+"|unknown-fields-kept", "%s: output carries fields that are not in the target schema: %x", what, out)
					break
				}
				if d := pj.DiffMsg(want, got, "$"); d != "" {
					r.Add("proto.Value.MarshalTo|"+trig+"|value-differs", "%s: %s\nin  %x\nout %x", what, d, in, out)
				}
			}
		}
	}
	if len(r.Viol) > 0 {
		r.Class = "violation"
	} else {
		r.Class = "ok:proto-recursive"
	}
	return r
}

type pcdesc struct {
	Edit   string `json:"edit"`
	N      int    `json:"container_size"`
	Blob   int    `json:"blob_bytes"`
	Schema string `json:"schema"`
}

func protoEnumerate(group int, yield func(core.Case) bool) {
	if group == len(protoGroups())-1 {
		protoRecursive(yield)
		return
	}
	es := pedits()
	lo, hi := group*pchunk, group*pchunk+pchunk
	if hi > len(es) {
		hi = len(es)
	}
	for _, e := range es[lo:hi] {
		for _, n := range []int{0, 1, 2, -1, -2, -3} {
			e, n := e, n
			c := core.Case{Tag: "proto," + e.kind,
				Desc: func() interface{} { return pcdesc{e.name, n, 0, pprogram(e).SourceDump()} },
				Run:  func() core.Result { return runProto(e, n, 0) }}
			if !yield(c) {
				return
			}
		}
		// payload sizes that move the enclosing messages across the 1/2/3/4-byte length-prefix boundaries
		for _, b := range []int{100, 130, 16300, 16500, 2100000} {
			e, b := e, b
			c := core.Case{Tag: "proto," + e.kind + ",blob",
				Desc: func() interface{} { return pcdesc{e.name, 1, b, pprogram(e).SourceDump()} },
				Run:  func() core.Result { return runProto(e, 1, b) }}
			if !yield(c) {
				return
			}
		}
	}
}

// addUnknownInside appends two fields no schema of the program declares (90: varint, 91: bytes) to every message
// below the root (and to the root if top): the cut must drop them at every depth.
func addUnknownInside(m protoreflect.Message, top bool) {
	if !top || true {
		u := append([]byte{}, m.GetUnknown()...)
		u = append(u, 0xd0, 0x05, 0x07, 0xda, 0x05, 0x03, 'u', 'n', 'k')
		m.SetUnknown(u)
	}
	m.Range(func(fd protoreflect.FieldDescriptor, v protoreflect.Value) bool {
		switch {
		case fd.IsMap():
			if fd.MapValue().Kind() == protoreflect.MessageKind {
				v.Map().Range(func(k protoreflect.MapKey, e protoreflect.Value) bool { addUnknownInside(e.Message(), false); return true })
			}
		case fd.IsList():
			if fd.Kind() == protoreflect.MessageKind {
				for i := 0; i < v.List().Len(); i++ {
					addUnknownInside(v.List().Get(i).Message(), false)
				}
			}
		case fd.Kind() == protoreflect.MessageKind:
			addUnknownInside(v.Message(), false)
		}
		return true
	})
}

var unknownInside bool

func runProto(e pedit, n int, blobBytes int) core.Result {
	if n == -3 {
		// n = -3: container size 1, but 1100 list elements and 1100 map values in Root.mid
		wideLeaves = 1100
		n = 1
		defer func() { wideLeaves = 0 }()
	}
	if n < 0 {
		// n = -1 / -2: container size 1 / 2 with unknown fields inside every message
		unknownInside = true
		n = -n
		defer func() { unknownInside = false }()
	}
	blobSize = blobBytes
	defer func() { blobSize = 0 }()
	r := core.Result{Class: "ok", Key: fmt.Sprintf("proto|%s|%d|%d|%v|%d", e.name, n, blobBytes, unknownInside, wideLeaves)}
	prog := pprogram(e)
	c := pj.Compile(prog)
	if c.Err != nil {
		r.Add("harness|proto-desc|error", "dynamicgo rejects the schema %s: %v", e.name, c.Err)
		return r
	}
	fromMD := c.Ref.Msg(pj.Pkg + ".From")
	toMD := fromMD
	if e.kind != "identical" {
		toMD = c.Ref.Msg(pj.Pkg + ".To")
	}
	src := fillRoot(fromMD, n)
	if unknownInside {
		addUnknownInside(src, true)
	}
	in := pj.Marshal(src)
	want := projectPB(src, toMD)
	var to *dproto.TypeDescriptor = c.Out
	from := c.In
	if e.level == "root" {
		// one parse, two methods: the request descriptors of M and M2 share everything below the root
		svc, err2 := pj.Dynamicgo(prog, dproto.Options{})
		if err2 != nil || svc.LookupMethodByName("M") == nil || svc.LookupMethodByName("M2") == nil {
			r.Add("harness|proto-desc|error", "two-method program: %v", err2)
			return r
		}
		from, to = svc.LookupMethodByName("M").Input(), svc.LookupMethodByName("M2").Input()
	}
	trig := fmt.Sprintf("proto,%s,%s", e.kind, e.level)
	if blobBytes > 0 {
		trig += ",blob"
	}
	if unknownInside {
		trig += ",unknown-fields-inside"
	}
	if wideLeaves > 0 {
		trig += ",1100-sub-messages-in-one-message"
	}
	for _, native := range []bool{false, true} {
		for _, disallow := range []bool{false, true} {
			what := fmt.Sprintf("proto %s n=%d blob=%d opts={native:%v disallowUnknown:%v}", e.name, n, blobBytes, native, disallow)
			var out []byte
			var err error
			pi := core.Catch(func() {
				v := pgeneric.NewRootValue(from, append([]byte{}, in...))
				out, err = v.MarshalTo(to, &pgeneric.Options{UseNativeSkip: native, DisallowUnknown: disallow})
			})
			if pi == nil && err == nil && poolpoison.Aliased(out) {
				r.Add("proto.Value.MarshalTo|"+trig+"|result-aliases-pooled-buffer", "%s: the %d bytes returned by MarshalTo change when the pooled buffers are overwritten", what, len(out))
			}
			switch {
			case pi != nil:
				r.Add("proto.Value.MarshalTo|"+trig+"|panic@"+pi.Site+":"+core.PanicClass(pi.Val), "%s: panic %s\n%s", what, pi.Val, pi.Stack)
			case err != nil:
				if !(unknownInside && disallow) {
					r.Add("proto.Value.MarshalTo|"+trig+"|error", "%s: unexpected error %v", what, err)
				}
			default:
				got, derr := pj.Unmarshal(toMD, out)
				if derr != nil {
					r.Add("proto.Value.MarshalTo|"+trig+"|malformed", "%s: output (%d bytes) %x.. rejected by the reference implementation: %v", what, len(out), out[:minInt(len(out), 64)], derr)
					break
				}
				if hasUnknown(got) {
					r.Add("proto.Value.MarshalTo|"+trig+"|unknown-fields-kept", "%s: output carries fields that are not in the target schema: %x..", what, out[:minInt(len(out), 200)])
					break
				}
				if d := pj.DiffMsg(want, got, "$"); d != "" {
					r.Add("proto.Value.MarshalTo|"+trig+"|value-differs", "%s: %s\nin  %x..\nout %x..", what, d, in[:minInt(len(in), 200)], out[:minInt(len(out), 200)])
				}
			}
		}
	}
	if len(r.Viol) > 0 {
		r.Class = "violation"
	} else {
		r.Class = "ok:proto-" + e.kind
	}
	return r
}

func minInt(a, b int) int {
	if a < b {
		return a
	}
	return b
}
