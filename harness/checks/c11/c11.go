// Package c11: cutting (Value.MarshalTo) yields exactly the projection onto the target schema.
package c11

import (
	"context"
	"fmt"
	"strings"

	"github.com/cloudwego/dynamicgo/thrift"
	"github.com/cloudwego/dynamicgo/thrift/generic"

	"verif/engine/core"
	"verif/ref/poolpoison"
	"verif/ref/tbin"
)

type check struct{}

func init() { core.Register(check{}) }

func (check) ID() string    { return "C11" }
func (check) Level() string { return "exploration" }
func (check) Rule() string {
	return "programs = every pair (from, to) where from is one of the base shapes (nested structs inside list/set elements, map keys and values, depth 3, ids beyond 64/256, non-struct roots) and to is derived from it by one structural edit at any struct node at any depth (drop each field; add a field of each requiredness x {scalar, struct, list}; change an existing field's requiredness) or is identical; each pair parsed in ONE IDL (sub-descriptors of unchanged subtrees are pointer-shared, the identical pair is the very same descriptor) and in two separate parses (equal but distinct descriptors); values = container size 0..2, a variant with the first field of every struct absent, a variant with a field unknown to the source descriptor; options = all 2^4 of {DisallowUnknow, NotCheckRequireNess, WriteDefault, UseNativeSkip}. Oracle = 50-line projection model over ref/tbin. A case = (pair, parse mode, value variant) running all 16 option sets; non-trivial if the target differs from the source or the identical-descriptor clause is exercised. Later additions: unknown fields inside elements, lists whose later elements lack the first / last field, a recursive protobuf program, pointer-shared sub-descriptors for root-level edits. Round 8: unpacked repeated scalar field in the proto program. Thorough tier: every pair of single edits at two different struct nodes of a base (about 34 000 further targets). Round 9: parse mode with SetOptionalBitmap; 1100 sub messages in one message (proto). Round 10: struct fields in descending id order."
}
func (check) Assumptions() []string {
	return []string{"reference = ref/tbin + projection model in checks/c11", "where source and target sub-descriptors are the same object the library copies the bytes verbatim (no requiredness check, no zero filling inside): the statement's 'identical descriptors reproduce the input' clause; the model takes descriptor identity as an input", "zero-filled default fields are appended after the source fields in ascending id order; compared in that order", "Protobuf half: see group names proto/* (added when ref/pbref is available)"}
}

// ---- programs ----

func st(f ...tbin.SField) *tbin.Shape        { return tbin.StructS(f...) }
func sf(id int16, s *tbin.Shape) tbin.SField { return tbin.SF(id, s) }

func bases() []*tbin.Shape {
	i32, str, i64, bin, dbl, bl, by, i16 := tbin.Sc(tbin.I32), tbin.Sc(tbin.STRING), tbin.Sc(tbin.I64), tbin.BinS(), tbin.Sc(tbin.DOUBLE), tbin.Sc(tbin.BOOL), tbin.Sc(tbin.BYTE), tbin.Sc(tbin.I16)
	out := []*tbin.Shape{
		st(sf(1, i32), sf(2, str), sf(3, st(sf(1, i32), sf(2, str))), sf(4, tbin.ListS(st(sf(1, i32), sf(2, str)))), sf(5, tbin.MapS(str, st(sf(1, i64), sf(2, bin))))),
		st(sf(1, tbin.SetS(st(sf(1, i32)))), sf(2, tbin.MapS(st(sf(1, i32), sf(2, str)), st(sf(1, dbl)))), sf(3, tbin.MapS(i32, tbin.ListS(st(sf(1, bl), sf(2, by)))))),
		st(sf(1, st(sf(1, st(sf(1, i32), sf(2, str))), sf(2, i16))), sf(2, tbin.ListS(tbin.ListS(st(sf(1, i32)))))),
		st(sf(1, i32), sf(64, str), sf(65, st(sf(1, i32))), sf(256, i64), sf(1000, tbin.ListS(i32))),
		tbin.ListS(st(sf(1, i32), sf(2, str))),
		tbin.MapS(str, st(sf(1, i32), sf(2, tbin.ListS(st(sf(3, dbl)))))),
	}
	// every depth-2 nesting of {list, set, map value, map key} around a struct, as a field of a small struct
	leafS := func() *tbin.Shape { return st(sf(1, i32), sf(2, str)) }
	wrap := []func(e *tbin.Shape) *tbin.Shape{
		func(e *tbin.Shape) *tbin.Shape { return tbin.ListS(e) },
		func(e *tbin.Shape) *tbin.Shape { return tbin.SetS(e) },
		func(e *tbin.Shape) *tbin.Shape { return tbin.MapS(str, e) },
		func(e *tbin.Shape) *tbin.Shape { return tbin.MapS(e, i32) },
	}
	for _, outer := range wrap {
		for _, inner := range wrap {
			out = append(out, st(sf(1, outer(inner(leafS()))), sf(2, i32)))
		}
	}
	return out
}

type pair struct {
	name     string
	from, to *tbin.Shape
	kind     string // identical | drop | add-default | add-required | add-optional | req-required | req-optional
}

// structSites returns the paths (as child selectors) of every struct node in s.
type site []int // sequence of selectors: field index for structs, -1 elem, -2 key

func structSites(s *tbin.Shape) []site {
	var out []site
	var walk func(s *tbin.Shape, p site)
	walk = func(s *tbin.Shape, p site) {
		switch s.T {
		case tbin.STRUCT:
			out = append(out, append(site{}, p...))
			for i, f := range s.Fields {
				walk(f.S, append(p, i))
			}
		case tbin.LIST, tbin.SET:
			walk(s.Elem, append(p, -1))
		case tbin.MAP:
			walk(s.Key, append(p, -2))
			walk(s.Elem, append(p, -1))
		}
	}
	walk(s, nil)
	return out
}

// rewrite clones the spine from the root to the struct at site and applies edit to the cloned struct;
// every subtree off the spine stays pointer-shared with the source shape.
func rewrite(s *tbin.Shape, p site, edit func(st *tbin.Shape)) *tbin.Shape {
	c := *s
	c.Fields = append([]tbin.SField{}, s.Fields...)
	if len(p) == 0 {
		edit(&c)
		return &c
	}
	switch {
	case p[0] >= 0:
		c.Fields[p[0]].S = rewrite(s.Fields[p[0]].S, p[1:], edit)
	case p[0] == -1:
		c.Elem = rewrite(s.Elem, p[1:], edit)
	case p[0] == -2:
		c.Key = rewrite(s.Key, p[1:], edit)
	}
	return &c
}

// edit = one structural edit at one struct node of a base shape.
type edit struct {
	site site
	si   int
	name string // the part of the pair name behind "base<i>/site<j>/"
	kind string
	f    func(s *tbin.Shape)
}

func editsOf(b *tbin.Shape) []edit {
	var out []edit
	for si, p := range structSites(b) {
		p := p
		// the struct at the site
		target := b
		for _, sel := range p {
			switch {
			case sel >= 0:
				target = target.Fields[sel].S
			case sel == -1:
				target = target.Elem
			default:
				target = target.Key
			}
		}
		for fi := range target.Fields {
			fi := fi
			out = append(out, edit{p, si, fmt.Sprintf("drop%d", target.Fields[fi].ID), "drop",
				func(s *tbin.Shape) { s.Fields = append(s.Fields[:fi:fi], s.Fields[fi+1:]...) }})
			for _, req := range []int{1, 2} {
				req := req
				out = append(out, edit{p, si, fmt.Sprintf("req%d=%d", target.Fields[fi].ID, req), map[int]string{1: "req-required", 2: "req-optional"}[req],
					func(s *tbin.Shape) { s.Fields[fi].Req = req }})
			}
		}
		for ti, nt := range []*tbin.Shape{tbin.Sc(tbin.I32), st(sf(1, tbin.Sc(tbin.I32))), tbin.ListS(tbin.Sc(tbin.STRING)), tbin.MapS(tbin.Sc(tbin.I16), tbin.Sc(tbin.DOUBLE)), tbin.Sc(tbin.STRING)} {
			for _, req := range []int{0, 1, 2} {
				nt, req := nt, req
				// 77 / 300: another bitmap word than the low ids of the bases; 40: the SAME word as the low ids, so that
				// an absent low field and the added field are pending in one word of the requires bitmap
				for _, id := range []int16{77, 300, 40} {
					if id == 300 && (ti != 0 || req == 2) {
						continue
					}
					if id == 40 && (ti > 1 || hasFieldID(target, 40)) {
						continue
					}
					id := id
					out = append(out, edit{p, si, fmt.Sprintf("add%d:%s,req=%d", id, nt, req), map[int]string{0: "add-default", 1: "add-required", 2: "add-optional"}[req],
						func(s *tbin.Shape) { s.Fields = append(s.Fields, tbin.SField{ID: id, S: nt, Req: req}) }})
				}
			}
		}
	}
	return out
}

func pairs() []pair {
	var out []pair
	for bi, b := range bases() {
		out = append(out, pair{name: fmt.Sprintf("base%d/identical", bi), from: b, to: b, kind: "identical"})
		for _, e := range editsOf(b) {
			out = append(out, pair{name: fmt.Sprintf("base%d/site%d/%s", bi, e.si, e.name), from: b, kind: e.kind, to: rewrite(b, e.site, e.f)})
		}
	}
	return out
}

// doublePairs (thorough tier): every pair of single edits at two DIFFERENT struct nodes of a base. The edit at the
// longer path is applied first, so that the selectors of the second path still address the same nodes (an edit at
// a shorter or unrelated path never moves a node on the spine of the other one).
var doubleMemo []pair

func doublePairs() []pair {
	if doubleMemo != nil {
		return doubleMemo
	}
	var out []pair
	for bi, b := range bases() {
		es := editsOf(b)
		for i := range es {
			for j := i + 1; j < len(es); j++ {
				a, c := es[i], es[j]
				if a.si == c.si {
					continue
				}
				if len(a.site) > len(c.site) {
					a, c = c, a
				}
				// c has the longer (or equal) path: first
				to := rewrite(rewrite(b, c.site, c.f), a.site, a.f)
				out = append(out, pair{name: fmt.Sprintf("base%d/site%d/%s+site%d/%s", bi, c.si, c.name, a.si, a.name), from: b, kind: c.kind + "+" + a.kind, to: to})
			}
		}
	}
	doubleMemo = out
	return out
}

const dchunk = 240

func nDoubleGroups(tier string) int {
	if tier != "thorough" {
		return 0
	}
	return (len(doublePairs()) + dchunk - 1) / dchunk
}

const chunk = 12

func (check) Groups(tier string, seed int64) []string {
	n := len(pairs())
	var g []string
	for i := 0; i < n; i += chunk {
		g = append(g, fmt.Sprintf("thrift/pairs/%d-%d", i, i+chunk))
	}
	g = append(g, protoGroups()...)
	for i := 0; i < nDoubleGroups(tier); i++ {
		g = append(g, fmt.Sprintf("thrift/double-edits/%d-%d", i*dchunk, i*dchunk+dchunk))
	}
	return g
}

func nThriftGroups() int { return (len(pairs()) + chunk - 1) / chunk }

type cdesc struct {
	Pair    string `json:"pair"`
	From    string `json:"from"`
	To      string `json:"to"`
	Parse   string `json:"parse"`
	Variant string `json:"value_variant"`
	Value   string `json:"value"`
}

var variants = []string{"n0", "n1", "n2", "first-field-absent", "unknown-field", "later-elements-lack-first-field", "later-elements-lack-last-field", "unknown-fields-with-ids-the-target-adds", "fields-in-descending-id-order"}

func buildValue(s *tbin.Shape, variant string) *tbin.Val {
	g := &tbin.Gen{}
	switch variant {
	case "n0":
		return g.Build(s, 0)
	case "n1":
		return g.Build(s, 1)
	case "n2":
		return g.Build(s, 2)
	case "first-field-absent":
		v := g.Build(s, 2)
		dropFirst(v)
		return v
	case "unknown-field":
		v := g.Build(s, 1)
		addUnknown(v)
		return v
	case "unknown-fields-with-ids-the-target-adds":
		// fields the SOURCE descriptor does not know, numbered like the fields the edited targets add (40, 77, 300):
		// they are no source elements, so they neither reach the output nor count as the target's field
		v := g.Build(s, 1)
		addUnknownIDs(v, []int16{40, 77, 300})
		return v
	case "fields-in-descending-id-order":
		// a legal encoding whose struct fields do not come in ascending id order (writers that follow the
		// declaration order, fields appended by an edit): every struct of the value reversed
		v := g.Build(s, 2)
		var rev func(x *tbin.Val)
		rev = func(x *tbin.Val) {
			for i, j := 0, len(x.Fs)-1; i < j; i, j = i+1, j-1 {
				x.Fs[i], x.Fs[j] = x.Fs[j], x.Fs[i]
			}
			for _, f := range x.Fs {
				rev(f.V)
			}
			for _, e := range x.L {
				rev(e)
			}
			for _, k := range x.K {
				rev(k)
			}
		}
		rev(v)
		return v
	case "later-elements-lack-first-field", "later-elements-lack-last-field":
		// heterogeneous container elements: element 0 of every list / set / map is complete, the later ones lack
		// a field (per-element state, e.g. a requiredness bitmap, must not survive from one element to the next)
		v := g.Build(s, 3)
		dropInLater(v, variant == "later-elements-lack-first-field", false)
		return v
	}
	panic("variant")
}

func dropInLater(v *tbin.Val, first, drop bool) {
	if v.T == tbin.STRUCT && len(v.Fs) > 0 && drop {
		if first {
			v.Fs = v.Fs[1:]
		} else {
			v.Fs = v.Fs[:len(v.Fs)-1]
		}
	}
	for i, e := range v.L {
		dropInLater(e, first, drop || i > 0)
	}
	for i, e := range v.K {
		dropInLater(e, first, drop || i > 0)
	}
	for _, f := range v.Fs {
		dropInLater(f.V, first, drop)
	}
}

func dropFirst(v *tbin.Val) {
	if v.T == tbin.STRUCT && len(v.Fs) > 0 {
		v.Fs = v.Fs[1:]
	}
	for _, e := range v.L {
		dropFirst(e)
	}
	for _, e := range v.K {
		dropFirst(e)
	}
	for _, f := range v.Fs {
		dropFirst(f.V)
	}
}

func addUnknownIDs(v *tbin.Val, ids []int16) {
	for _, e := range v.L {
		addUnknownIDs(e, ids)
	}
	for _, e := range v.K {
		addUnknownIDs(e, ids)
	}
	for _, f := range v.Fs {
		addUnknownIDs(f.V, ids)
	}
	if v.T == tbin.STRUCT {
		for _, id := range ids {
			if v.FieldByID(id) == nil {
				v.Fs = append(v.Fs, tbin.F(id, tbin.I32v(int32(id)+1000)))
			}
		}
	}
}

// addUnknown adds field 999 (a list of strings) to every struct.
func addUnknown(v *tbin.Val) {
	for _, e := range v.L {
		addUnknown(e)
	}
	for _, e := range v.K {
		addUnknown(e)
	}
	for _, f := range v.Fs {
		addUnknown(f.V)
	}
	if v.T == tbin.STRUCT {
		u := tbin.F(999, tbin.List(tbin.STRING, tbin.Str("unknown"), tbin.Str("")))
		// in the middle when possible
		if len(v.Fs) > 0 {
			v.Fs = append(v.Fs[:1:1], append([]tbin.Field{u}, v.Fs[1:]...)...)
		} else {
			v.Fs = []tbin.Field{u}
		}
	}
}

func (check) Enumerate(tier string, seed int64, group int, yield func(core.Case) bool) {
	ps := pairs()
	lo, hi := group*chunk, group*chunk+chunk
	if np := nThriftGroups() + len(protoGroups()); group >= np {
		ps = doublePairs()
		lo, hi = (group-np)*dchunk, (group-np)*dchunk+dchunk
	} else if group >= nThriftGroups() {
		protoEnumerate(group-nThriftGroups(), yield)
		return
	}
	if hi > len(ps) {
		hi = len(ps)
	}
	for _, p := range ps[lo:hi] {
		for _, parse := range []string{"same-parse", "separate-parse", "separate-parse,SetOptionalBitmap"} {
			for _, variant := range variants {
				p, parse, variant := p, parse, variant
				c := core.Case{
					Tag: p.kind,
					Desc: func() interface{} {
						return cdesc{p.name, p.from.String(), p.to.String(), parse, variant, buildValue(p.from, variant).String()}
					},
					Run: func() core.Result { return run(p, parse, variant) },
				}
				if !yield(c) {
					return
				}
			}
		}
	}
}

var descsMemo struct {
	key    string
	fd, td *thrift.TypeDescriptor
}

// descsOf: the descriptors of a pair are parsed once per (pair, parse mode) and shared by its consecutive cases
// (value variants x option sets), as one service would share them between requests.
func descsOf(p pair, parse string) (fd, td *thrift.TypeDescriptor, err error) {
	if descsMemo.key == p.name+"|"+parse {
		return descsMemo.fd, descsMemo.td, nil
	}
	fd, td, err = descsOf0(p, parse)
	if err == nil {
		descsMemo.key, descsMemo.fd, descsMemo.td = p.name+"|"+parse, fd, td
	}
	return
}

func descsOf0(p pair, parse string) (fd, td *thrift.TypeDescriptor, err error) {
	po := thrift.Options{SetOptionalBitmap: strings.Contains(parse, "SetOptionalBitmap")}
	get := func(idl string, i int) (*thrift.TypeDescriptor, error) {
		svc, err := po.NewDescritorFromContent(context.Background(), "a/b/main.thrift", idl, nil, false)
		if err != nil {
			return nil, fmt.Errorf("%v\n%s", err, idl)
		}
		fn := svc.Functions()[fmt.Sprintf("M%d", i)]
		return fn.Request().Struct().FieldById(1).Type().Struct().FieldById(1).Type(), nil
	}
	if parse == "same-parse" {
		idl := tbin.IDLRoots([]*tbin.Shape{p.from, p.to})
		svc, err := thrift.Options{}.NewDescritorFromContent(context.Background(), "a/b/main.thrift", idl, nil, false)
		if err != nil {
			return nil, nil, fmt.Errorf("%v\n%s", err, idl)
		}
		f := func(i int) *thrift.TypeDescriptor {
			return svc.Functions()[fmt.Sprintf("M%d", i)].Request().Struct().FieldById(1).Type().Struct().FieldById(1).Type()
		}
		return f(0), f(1), nil
	}
	fd, err = get(tbin.IDLRoots([]*tbin.Shape{p.from}), 0)
	if err != nil {
		return
	}
	td, err = get(tbin.IDLRoots([]*tbin.Shape{p.to}), 0)
	return
}

// ---- projection model ----

type mopts struct{ disallowUnknown, noCheckReq, writeDefault, trackOptional bool }

type modelErr string

func (e modelErr) Error() string { return string(e) }

func zero(s *tbin.Shape) *tbin.Val {
	switch s.T {
	case tbin.BOOL:
		return tbin.Bool(false)
	case tbin.BYTE:
		return tbin.Byte(0)
	case tbin.I16:
		return tbin.I16v(0)
	case tbin.I32:
		return tbin.I32v(0)
	case tbin.I64:
		return tbin.I64v(0)
	case tbin.DOUBLE:
		return tbin.Double(0)
	case tbin.STRING:
		return tbin.Str("")
	case tbin.LIST, tbin.SET:
		return &tbin.Val{T: s.T, ET: s.Elem.T}
	case tbin.MAP:
		return &tbin.Val{T: tbin.MAP, KT: s.Key.T, ET: s.Elem.T}
	case tbin.STRUCT:
		return tbin.Struct()
	}
	panic("zero")
}

func fieldOf(s *tbin.Shape, id int16) *tbin.SField {
	for i := range s.Fields {
		if s.Fields[i].ID == id {
			return &s.Fields[i]
		}
	}
	return nil
}

// project returns the expected output value. nfill = number of zero-filled fields (appended last per struct).
func project(v *tbin.Val, fs, ts *tbin.Shape, fd, td *thrift.TypeDescriptor, o mopts) (*tbin.Val, error) {
	switch v.T {
	case tbin.STRUCT:
		if fd == td {
			return tbin.Clone(v), nil // same descriptor object: verbatim copy
		}
		out := tbin.Struct()
		seen := map[int16]bool{}
		for _, f := range v.Fs {
			ff := fieldOf(fs, f.ID)
			if ff == nil {
				if o.disallowUnknown {
					return nil, modelErr("unknown-field")
				}
				continue
			}
			tf := fieldOf(ts, f.ID)
			if tf == nil {
				continue
			}
			seen[f.ID] = true
			pv, err := project(f.V, ff.S, tf.S, fd.Struct().FieldById(thrift.FieldID(f.ID)).Type(), td.Struct().FieldById(thrift.FieldID(f.ID)).Type(), o)
			if err != nil {
				return nil, err
			}
			out.Fs = append(out.Fs, tbin.Field{ID: f.ID, V: pv})
		}
		if !o.noCheckReq {
			// ascending id order, like the requires bitmap scan
			ids := []int{}
			for _, tf := range ts.Fields {
				ids = append(ids, int(tf.ID))
			}
			sortInts(ids)
			for _, id := range ids {
				tf := fieldOf(ts, int16(id))
				if seen[tf.ID] {
					continue
				}
				switch tf.Req {
				case 1:
					return nil, modelErr("missing-required")
				case 0:
					if o.writeDefault {
						out.Fs = append(out.Fs, tbin.Field{ID: tf.ID, V: zero(tf.S)})
					}
				case 2:
					// optional fields are owed only when the descriptor was parsed to track them (SetOptionalBitmap)
					if o.writeDefault && o.trackOptional {
						out.Fs = append(out.Fs, tbin.Field{ID: tf.ID, V: zero(tf.S)})
					}
				}
			}
		}
		return out, nil
	case tbin.LIST, tbin.SET:
		if fd.Elem() == td.Elem() {
			return tbin.Clone(v), nil
		}
		out := &tbin.Val{T: v.T, ET: v.ET}
		for _, e := range v.L {
			pe, err := project(e, fs.Elem, ts.Elem, fd.Elem(), td.Elem(), o)
			if err != nil {
				return nil, err
			}
			out.L = append(out.L, pe)
		}
		return out, nil
	case tbin.MAP:
		if fd.Elem() == td.Elem() && fd.Key() == td.Key() {
			return tbin.Clone(v), nil
		}
		out := &tbin.Val{T: tbin.MAP, KT: v.KT, ET: v.ET}
		for i := range v.L {
			pk, err := project(v.K[i], fs.Key, ts.Key, fd.Key(), td.Key(), o)
			if err != nil {
				return nil, err
			}
			pe, err := project(v.L[i], fs.Elem, ts.Elem, fd.Elem(), td.Elem(), o)
			if err != nil {
				return nil, err
			}
			out.K = append(out.K, pk)
			out.L = append(out.L, pe)
		}
		return out, nil
	}
	return tbin.Clone(v), nil
}

func sortInts(a []int) {
	for i := 1; i < len(a); i++ {
		for j := i; j > 0 && a[j-1] > a[j]; j-- {
			a[j-1], a[j] = a[j], a[j-1]
		}
	}
}

func run(p pair, parse, variant string) core.Result {
	r := core.Result{Class: "ok"}
	if p.kind != "identical" || parse == "same-parse" {
		r.Key = p.name + "|" + parse + "|" + variant
	}
	var fd, td *thrift.TypeDescriptor
	var err error
	if pi := core.Catch(func() { fd, td, err = descsOf(p, parse) }); pi != nil || err != nil {
		r.Add("harness|desc|error", "descriptor build failed for %s: %v %v", p.name, err, pi)
		return r
	}
	v := buildValue(p.from, variant)
	in := tbin.Bytes(v)
	classes := map[string]bool{}
	for m := 0; m < 16; m++ {
		o := mopts{disallowUnknown: m&1 != 0, noCheckReq: m&2 != 0, writeDefault: m&4 != 0, trackOptional: strings.Contains(parse, "SetOptionalBitmap")}
		opts := &generic.Options{DisallowUnknow: o.disallowUnknown, NotCheckRequireNess: o.noCheckReq, WriteDefault: o.writeDefault, UseNativeSkip: m&8 != 0}
		want, werr := project(v, p.from, p.to, fd, td, o)
		trig := fmt.Sprintf("%s,%s,%s", p.kind, parse, variant)
		what := fmt.Sprintf("%s [%s] value=%s opts={disallowUnknown:%v noCheckReq:%v writeDefault:%v native:%v}", p.name, parse, v, o.disallowUnknown, o.noCheckReq, o.writeDefault, m&8 != 0)
		var out []byte
		var gerr error
		pi := core.Catch(func() {
			val := generic.NewValue(fd, append([]byte{}, in...))
			out, gerr = val.MarshalTo(td, opts)
		})
		if pi == nil && gerr == nil && poolpoison.Aliased(out) {
			r.Add("Value.MarshalTo|"+trig+"|result-aliases-pooled-buffer", "%s: the %d bytes returned by MarshalTo change when the pooled buffers are overwritten", what, len(out))
		}
		switch {
		case pi != nil:
			r.Add("Value.MarshalTo|"+trig+"|panic@"+pi.Site+":"+core.PanicClass(pi.Val), "%s: panic %s\n%s", what, pi.Val, pi.Stack)
			classes["panic"] = true
		case werr != nil:
			classes["error:"+werr.Error()] = true
			if gerr == nil {
				r.Add("Value.MarshalTo|"+trig+"|no-error:"+werr.Error(), "%s: expected an error (%v), got output %x", what, werr, out)
			}
		case gerr != nil:
			r.Add("Value.MarshalTo|"+trig+"|error", "%s: unexpected error %v", what, gerr)
			classes["unexpected-error"] = true
		default:
			got, derr := tbin.DecodeAll(out, v.T)
			if derr != nil {
				r.Add("Value.MarshalTo|"+trig+"|malformed", "%s: output %x does not decode: %v (want %s)", what, out, derr, want)
				classes["malformed"] = true
				break
			}
			if !tbin.Equal(got, want) {
				r.Add("Value.MarshalTo|"+trig+"|value-differs", "%s: got %s want %s", what, got, want)
				classes["wrong"] = true
				break
			}
			if tbin.Equal(want, v) {
				classes["ok:unchanged"] = true
			} else {
				classes["ok:cut"] = true
			}
		}
	}
	cl := ""
	for _, k := range []string{"ok:unchanged", "ok:cut", "error:unknown-field", "error:missing-required"} {
		if classes[k] {
			cl += k + ";"
		}
	}
	r.Class = cl
	if len(r.Viol) > 0 {
		r.Class = "violation"
	}
	return r
}

func hasFieldID(s *tbin.Shape, id int16) bool {
	for _, f := range s.Fields {
		if f.ID == id {
			return true
		}
	}
	return false
}
