package c07

import (
	"bytes"
	"fmt"
	"math"
	"runtime"
	"runtime/debug"
	"strings"

	dproto "github.com/cloudwego/dynamicgo/proto"
	"github.com/cloudwego/dynamicgo/proto/generic"
	gpw "google.golang.org/protobuf/encoding/protowire"

	"verif/engine/core"
	"verif/ref/pbref"
)

type ctx struct {
	s     *pbref.Schema
	root  *pbref.Val
	l     *limiter
	r     *core.Result
	reads int64
	buf   []byte
	desc  *dproto.TypeDescriptor
	rv    generic.Value
	// desc: the top-level fields are on the wire in descending number order (same message)
	descending bool
}

func hx(b []byte) string {
	if len(b) > 48 {
		return fmt.Sprintf("%x..(%d bytes)", b[:48], len(b))
	}
	return fmt.Sprintf("%x", b)
}

// ---- classes for signatures

func scalarClass(k pbref.Kind) string {
	switch k {
	case pbref.KInt32, pbref.KInt64, pbref.KUint32, pbref.KUint64:
		return "varint"
	case pbref.KSint32, pbref.KSint64:
		return "zigzag"
	case pbref.KFixed32, pbref.KSfixed32:
		return "fixed32"
	case pbref.KFixed64, pbref.KSfixed64:
		return "fixed64"
	}
	return k.String()
}

func nodeClass(v *pbref.Val) string {
	switch {
	case v.Card == pbref.Repeated:
		if v.Kind.Packable() {
			return "packed-list<" + scalarClass(v.Kind) + ">"
		}
		return "list<" + scalarClass(v.Kind) + ">"
	case v.Card == pbref.Map:
		return "map<" + v.Key.String() + "," + scalarClass(v.Kind) + ">"
	case v.Kind == pbref.KMessage:
		if len(v.Fs) == 0 {
			return "empty-message"
		}
		return "message"
	}
	return scalarClass(v.Kind)
}

func fieldClass(f *pbref.Field) string {
	switch f.Card {
	case pbref.Repeated:
		if f.Kind.Packable() {
			return "packed-list<" + scalarClass(f.Kind) + ">"
		}
		return "list<" + scalarClass(f.Kind) + ">"
	case pbref.Map:
		return "map<" + f.Key.String() + "," + scalarClass(f.Kind) + ">"
	}
	return scalarClass(f.Kind)
}

func stepClass(s pbref.Step) string {
	switch s.K {
	case pbref.SField:
		return "field"
	case pbref.SIndex:
		return "index"
	}
	if s.Key.Kind == pbref.KString {
		return "strkey"
	}
	return "intkey"
}

// parentClass describes the container the last step goes into (decides which search routine runs).
func parentClass(parent *pbref.Val) string {
	if parent == nil {
		return "?"
	}
	return nodeClass(parent)
}

func gpath(steps []pbref.Step, byName bool) []generic.Path {
	out := make([]generic.Path, 0, len(steps))
	for _, s := range steps {
		switch s.K {
		case pbref.SField:
			if byName {
				out = append(out, generic.NewPathFieldName(s.F.Name))
			} else {
				out = append(out, generic.NewPathFieldId(dproto.FieldNumber(s.F.Num)))
			}
		case pbref.SIndex:
			out = append(out, generic.NewPathIndex(s.I))
		default:
			if s.Key.Kind == pbref.KString {
				out = append(out, generic.NewPathStrKey(string(s.Key.B)))
			} else {
				out = append(out, generic.NewPathIntKey(pbref.KeyInt(s.Key)))
			}
		}
	}
	return out
}

func dtype(k pbref.Kind) dproto.Type { return dproto.Type(k) }

// where a node sits: needed to compute its reference bytes.
type place struct {
	holder *pbref.Message // message type that holds field f (for list/map nodes)
	f      *pbref.Field   // field the node belongs to (nil for root)
	isRoot bool
}

// placeOf computes the place of the node reached by path p.
func (c *ctx) placeOf(p []pbref.Step) place {
	if len(p) == 0 {
		return place{isRoot: true}
	}
	// find the last field step and the message type holding it
	holder := c.s.Root
	var f *pbref.Field
	cur := c.s.Root
	for _, s := range p {
		if s.K == pbref.SField {
			holder = cur
			f = s.F
			if s.F.Kind == pbref.KMessage {
				cur = s.F.Msg
			}
		}
	}
	return place{holder: holder, f: f}
}

// judge compares a node returned by the library with the model node `want`.
func (c *ctx) judge(op, trig string, n generic.Node, want *pbref.Val, pl place, where string, checkLen bool) bool {
	c.reads++
	sig := func(out string) string { return op + "|" + trig + "|" + out }
	if n.IsError() {
		out := "error-for-present-node"
		if n.IsErrNotFound() {
			out = "not-found-for-present-node"
		}
		c.l.add(sig(out), "%s %s at %s: want %s, got error %q (bytes %s)", c.s.ID, c.root, where, want, n.Error(), hx(c.buf))
		return false
	}
	// kind
	wt := dtype(want.Kind)
	switch want.Card {
	case pbref.Repeated:
		wt = dproto.LIST
	case pbref.Map:
		wt = dproto.MAP
	}
	if n.Type() != wt {
		c.l.add(sig("kind-differs"), "%s %s at %s: node type %v want %v", c.s.ID, c.root, where, n.Type(), wt)
		return false
	}
	if want.Card == pbref.Repeated && n.ElemType() != dtype(want.Kind) || want.Card == pbref.Map && (n.ElemType() != dtype(want.Kind) || n.KeyType() != dtype(want.Key)) {
		c.l.add(sig("elem-kind-differs"), "%s %s at %s: key/elem type %v/%v want %v/%v", c.s.ID, c.root, where, n.KeyType(), n.ElemType(), want.Key, want.Kind)
		return false
	}
	raw := n.Raw()
	ok := true
	bad := func(out, format string, a ...interface{}) {
		ok = false
		c.l.add(sig(out), "%s %s at %s: want %s: %s (node bytes %s, message bytes %s)", c.s.ID, c.root, where, want, fmt.Sprintf(format, a...), hx(raw), hx(c.buf))
	}
	// value through the typed casts / the reference decoder
	var pi *core.PanicInfo
	switch {
	case want.Card != pbref.Single:
		holder := pbref.MsgVal(pl.holder)
		back, err := c.s.Decode(raw, pl.holder)
		if err != nil {
			bad("value-differs", "node bytes are not a valid run of field %d: %v", pl.f.Num, err)
		} else if got := back.Get(pl.f.Num); !pbref.Equal(pbref.Normalize(holder.Set(pl.f, got)), pbref.Normalize(pbref.MsgVal(pl.holder).Set(pl.f, want))) || len(back.Fs) > 1 {
			bad("value-differs", "node bytes decode to %s", back)
		}
		if checkLen {
			wantLen := len(want.L) + len(want.MK)
			if ln, err := n.Len(); err != nil || ln != wantLen {
				bad("len-differs", "Len()=%d err=%v want %d", ln, err, wantLen)
			}
		}
	case want.Kind == pbref.KMessage:
		payload := raw
		if !pl.isRoot {
			b, k := gpw.ConsumeBytes(raw)
			if k != len(raw) {
				bad("value-differs", "node bytes are not one length-prefixed message")
				break
			}
			payload = b
		}
		back, err := c.s.Decode(payload, want.Msg)
		if err != nil || !pbref.Equal(back, want) {
			bad("value-differs", "node decodes to %v (err %v)", back, err)
		}
	default:
		pi = core.Catch(func() {
			switch want.Kind {
			case pbref.KBool:
				if v, err := n.Bool(); err != nil || v != (want.U != 0) {
					bad("value-differs", "Bool()=%v err=%v", v, err)
				}
			case pbref.KInt32, pbref.KSint32, pbref.KSfixed32, pbref.KInt64, pbref.KSint64, pbref.KSfixed64:
				if v, err := n.Int(); err != nil || int64(v) != int64(want.U) {
					bad("value-differs", "Int()=%d err=%v", v, err)
				}
			case pbref.KUint32, pbref.KFixed32, pbref.KUint64, pbref.KFixed64:
				if v, err := n.Uint(); err != nil || uint64(v) != want.U {
					bad("value-differs", "Uint()=%d err=%v", v, err)
				}
			case pbref.KEnum:
				if v, err := n.Enum(); err != nil || int64(v) != int64(want.U) {
					bad("value-differs", "Enum()=%d err=%v", v, err)
				}
			case pbref.KDouble:
				if v, err := n.Float64(); err != nil || math.Float64bits(v) != want.U {
					bad("value-differs", "Float64() bits=%016x err=%v", math.Float64bits(v), err)
				}
			case pbref.KFloat:
				// the library has no float32 cast: the value is judged through the node bytes
				if v, k := gpw.ConsumeFixed32(raw); k != 4 || uint64(v) != want.U {
					bad("value-differs", "node bytes are not the float's 4 bytes")
				}
			case pbref.KString:
				if v, err := n.String(); err != nil || v != string(want.B) {
					bad("value-differs", "String()=%q err=%v", v, err)
				}
			case pbref.KBytes:
				if v, err := n.Binary(); err != nil || !bytes.Equal(v, want.B) {
					bad("value-differs", "Binary()=%x err=%v", v, err)
				}
			}
		})
	}
	if pi != nil {
		bad("cast-panic@"+pi.Site+":"+core.PanicClass(pi.Val), "typed cast panicked: %s", pi.Val)
	}
	if !ok {
		return false
	}
	// span: the node must be exactly the element's bytes
	exp := c.s.NodeBytes(want, pl.holder, pl.f, pl.isRoot)
	if pl.isRoot && c.descending {
		exp = c.buf
	}
	if !bytes.Equal(raw, exp) {
		bad("span-differs", "node spans %s, the element is %s", hx(raw), hx(exp))
	}
	return ok
}

// call runs f under Catch and reports a panic as a violation of op.
func (c *ctx) call(op, trig, where string, f func()) bool {
	if pi := core.Catch(f); pi != nil {
		c.reads++
		c.l.add(op+"|"+trig+"|panic@"+pi.Site+":"+core.PanicClass(pi.Val), "%s %s at %s: panic: %s (bytes %s)\n%s", c.s.ID, c.root, where, pi.Val, hx(c.buf), pi.Stack)
		return false
	}
	return true
}

func (c *ctx) run(fam string) {
	c.root = pbref.Normalize(c.root)
	c.buf = c.s.Encode(c.root)
	if c.descending {
		c.buf = pbref.DescendingTop(c.buf)
	}
	back, err := c.s.Decode(c.buf, c.s.Root)
	if err != nil || !pbref.Equal(back, c.root) {
		panic(fmt.Sprintf("harness: model disagrees with the reference decoder: %v %s vs %s", err, back, c.root))
	}
	if strings.HasPrefix(c.s.ID, "bigid-5") || strings.HasPrefix(c.s.ID, "bigid-3") {
		// descriptors with field numbers near 2^25 / 2^29 hold a dense 8-byte-per-number table (256 MiB / 4 GiB):
		// keep the collector from letting the heap double before it runs
		debug.SetMemoryLimit(6 << 30)
	}
	d, err := c.s.Dyn()
	if err != nil {
		c.l.add("NewDescritorFromContent|"+c.s.ID+"|error", "%v", err)
		return
	}
	c.desc = d
	// The library must not modify the input: it works on a copy. The copy has spare capacity on purpose: proto/generic
	// builds unsafe pointers to "one past the last byte" of its input (errNotFoundLast, zero-length slices at the end);
	// when the input exactly fills its heap object the Go GC may abort the process ("found bad pointer in Go heap")
	// depending on where the allocator happened to place it. That defect is shown deterministically by the dedicated
	// family "OnePastEnd"; everywhere else the spare bytes keep such pointers inside the object.
	in := make([]byte, len(c.buf), len(c.buf)+64)
	copy(in, c.buf)
	if fam == "OnePastEnd" {
		c.famOnePastEnd()
		return
	}
	c.rv = generic.NewRootValue(d, in)
	switch fam {
	case "GetByPath":
		c.famGetByPath(false)
	case "GetByPathByName":
		c.famGetByPath(true)
	case "Children":
		c.famChildren()
	case "GetMany":
		c.famGetMany()
	case "Load":
		c.famLoad()
	case "Interface":
		c.famInterface()
	}
	if !bytes.Equal(in, c.buf) {
		c.l.add(fam+"|any|input-modified", "%s %s: input bytes changed from %s to %s", c.s.ID, c.root, hx(c.buf), hx(in))
	}
}

func (c *ctx) pathTrig(p []pbref.Step, parent, target *pbref.Val, presence string) string {
	if f := c.pathFeature(p, target); f != "" {
		return f + "," + presence
	}
	last := p[len(p)-1]
	t := "?"
	if target != nil {
		t = coarse(target)
	} else if last.K == pbref.SField {
		t = coarseField(last.F)
	}
	in := "?"
	if parent != nil {
		in = coarse(parent)
	}
	return fmt.Sprintf("last=%s,in=%s,target=%s,%s", stepClass(last), in, t, presence)
}

// absentPaths yields the absent extensions below a present node.
func absentPaths(p []pbref.Step, v *pbref.Val, yield func(q []pbref.Step, presence string)) {
	ext := func(ss ...pbref.Step) []pbref.Step { return append(append([]pbref.Step{}, p...), ss...) }
	switch {
	case v.Card == pbref.Repeated:
		yield(ext(pbref.Step{K: pbref.SIndex, I: len(v.L)}), "absent-last")
		yield(ext(pbref.Step{K: pbref.SIndex, I: len(v.L) + 1}), "absent-last")
	case v.Card == pbref.Map:
		if k := pbref.AbsentKey(v); k != nil {
			yield(ext(pbref.Step{K: pbref.SKey, Key: k}), "absent-last")
		}
	case v.Kind == pbref.KMessage:
		for _, f := range v.Msg.Fields {
			if v.Get(f.Num) != nil {
				continue
			}
			yield(ext(pbref.Step{K: pbref.SField, F: f}), "absent-last")
			// one step below an absent node
			switch {
			case f.Card == pbref.Repeated:
				yield(ext(pbref.Step{K: pbref.SField, F: f}, pbref.Step{K: pbref.SIndex, I: 0}), "absent-inner")
			case f.Card == pbref.Map:
				yield(ext(pbref.Step{K: pbref.SField, F: f}, pbref.Step{K: pbref.SKey, Key: pbref.KeyElem(f.Key, 0)}), "absent-inner")
			case f.Kind == pbref.KMessage && len(f.Msg.Fields) > 0:
				yield(ext(pbref.Step{K: pbref.SField, F: f}, pbref.Step{K: pbref.SField, F: f.Msg.Fields[0]}), "absent-inner")
			}
		}
	}
}

func (c *ctx) famGetByPath(byName bool) {
	op := "GetByPath" // number- and name-addressed calls share the site; the addressing is in the detail text
	pbref.Walk(c.root, func(p []pbref.Step, v *pbref.Val) {
		if len(p) > 0 {
			parent := pbref.Resolve(c.root, p[:len(p)-1])
			trig := c.pathTrig(p, parent, v, "present")
			where := pbref.PathString(p)
			var got generic.Value
			if c.call(op, trig, where, func() { got = c.rv.GetByPath(gpath(p, byName)...) }) {
				ok := c.judge(op, trig, got.Node, v, c.placeOf(p), where, true)
				if ok && !byName {
					var g2 generic.Value
					var addr []int
					if c.call("GetByPathWithAddress", trig, where, func() { g2, addr = c.rv.GetByPathWithAddress(gpath(p, false)...) }) {
						c.reads++
						if g2.IsError() || !bytes.Equal(g2.Raw(), got.Raw()) || g2.Type() != got.Type() || len(addr) != len(p) {
							c.l.add("GetByPathWithAddress|"+trig+"|differs-from-GetByPath", "%s %s at %s: got %s / %d addresses", c.s.ID, c.root, where, hx(g2.Raw()), len(addr))
						}
					}
				}
			}
		}
		absentPaths(p, v, func(q []pbref.Step, presence string) {
			parent := pbref.Resolve(c.root, q[:len(q)-1])
			trig := c.pathTrig(q, parent, nil, presence)
			where := pbref.PathString(q)
			var got generic.Value
			if !c.call(op, trig, where, func() { got = c.rv.GetByPath(gpath(q, byName)...) }) {
				return
			}
			c.reads++
			if !got.IsError() {
				c.l.add(op+"|"+trig+"|value-for-absent-node", "%s %s at %s: absent, but got a %v node %s (bytes %s)", c.s.ID, c.root, where, got.Type(), hx(got.Raw()), hx(c.buf))
			} else if presence == "absent-last" && !got.IsErrNotFound() {
				c.l.add(op+"|"+trig+"|other-error-for-absent-node", "%s %s at %s: absent, want not-found, got %q", c.s.ID, c.root, where, got.Error())
			}
		})
	})
}

// famChildren: direct-child operations from every parent, parents acquired by chaining the same operations from the root.
func (c *ctx) famChildren() {
	var rec func(p []pbref.Step, v *pbref.Val, gv generic.Value, src string)
	rec = func(p []pbref.Step, v *pbref.Val, gv generic.Value, src string) {
		ext := func(s pbref.Step) []pbref.Step { return append(append([]pbref.Step{}, p...), s) }
		switch {
		case v.Card == pbref.Repeated:
			for i, e := range v.L {
				q := ext(pbref.Step{K: pbref.SIndex, I: i})
				trig := c.childTrig(v, q[len(q)-1], e, q, src, "present")
				var got generic.Value
				if c.call("Index", trig, pbref.PathString(q), func() { got = gv.Index(i) }) && c.judge("Index", trig, got.Node, e, c.placeOf(q), pbref.PathString(q), false) {
					rec(q, e, got, "Index")
				}
			}
			for _, i := range []int{len(v.L), len(v.L) + 1} {
				trig := c.childTrig(v, pbref.Step{K: pbref.SIndex, I: i}, nil, p, src, "absent")
				var got generic.Value
				if c.call("Index", trig, pbref.PathString(p), func() { got = gv.Index(i) }) {
					c.reads++
					if !got.IsError() {
						c.l.add("Index|"+trig+"|value-for-absent-node", "%s %s at %s[%d]: list has %d elements, got a %v node %s", c.s.ID, c.root, pbref.PathString(p), i, len(v.L), got.Type(), hx(got.Raw()))
					}
				}
			}
		case v.Card == pbref.Map:
			get := func(k *pbref.Val) (generic.Value, string) {
				if v.Key == pbref.KString {
					return gv.GetByStr(string(k.B)), "GetByStr"
				}
				return gv.GetByInt(pbref.KeyInt(k)), "GetByInt"
			}
			for i, k := range v.MK {
				q := ext(pbref.Step{K: pbref.SKey, Key: k})
				trig := c.childTrig(v, q[len(q)-1], v.MV[i], q, src, "present")
				var got generic.Value
				op := "GetByInt"
				if v.Key == pbref.KString {
					op = "GetByStr"
				}
				if c.call(op, trig, pbref.PathString(q), func() { got, _ = get(k) }) && c.judge(op, trig, got.Node, v.MV[i], c.placeOf(q), pbref.PathString(q), false) {
					rec(q, v.MV[i], got, op)
				}
			}
			if k := pbref.AbsentKey(v); k != nil {
				trig := c.childTrig(v, pbref.Step{K: pbref.SKey, Key: k}, nil, p, src, "absent")
				var got generic.Value
				op := "GetByInt"
				if v.Key == pbref.KString {
					op = "GetByStr"
				}
				if c.call(op, trig, pbref.PathString(p), func() { got, _ = get(k) }) {
					c.reads++
					if !got.IsError() {
						c.l.add(op+"|"+trig+"|value-for-absent-node", "%s %s at %s{%s}: key absent, got a %v node %s", c.s.ID, c.root, pbref.PathString(p), k, got.Type(), hx(got.Raw()))
					} else if !got.IsErrNotFound() {
						c.l.add(op+"|"+trig+"|other-error-for-absent-node", "%s %s at %s{%s}: key absent, want not-found, got %q", c.s.ID, c.root, pbref.PathString(p), k, got.Error())
					}
				}
			}
		case v.Kind == pbref.KMessage:
			for _, f := range v.Msg.Fields {
				q := ext(pbref.Step{K: pbref.SField, F: f})
				child := v.Get(f.Num)
				for _, byName := range []bool{false, true} {
					op := "Field"
					if byName {
						op = "FieldByName"
					}
					var got generic.Value
					f := f
					do := func() {
						if byName {
							got = gv.FieldByName(f.Name)
						} else {
							got = gv.Field(dproto.FieldNumber(f.Num))
						}
					}
					if child != nil {
						trig := c.childTrig(v, q[len(q)-1], child, q, msgSrcClass(len(p) == 0)+"/"+src, "present")
						if c.call(op, trig, pbref.PathString(q), do) && c.judge(op, trig, got.Node, child, c.placeOf(q), pbref.PathString(q), false) && !byName {
							rec(q, child, got, "Field")
						}
					} else {
						trig := c.childTrig(v, q[len(q)-1], nil, q, msgSrcClass(len(p) == 0)+"/"+src, "absent")
						if c.call(op, trig, pbref.PathString(q), do) {
							c.reads++
							if !got.IsError() {
								c.l.add(op+"|"+trig+"|value-for-absent-node", "%s %s at %s: unset, got a %v node %s (bytes %s)", c.s.ID, c.root, pbref.PathString(q), got.Type(), hx(got.Raw()), hx(c.buf))
							} else if !got.IsErrNotFound() {
								c.l.add(op+"|"+trig+"|other-error-for-absent-node", "%s %s at %s: unset, want not-found, got %q", c.s.ID, c.root, pbref.PathString(q), got.Error())
							}
						}
					}
				}
			}
		}
	}
	rec(nil, c.root, c.rv, "root")
	// the same container operations on parents acquired through GetByPath (which also computes the element count)
	pbref.Walk(c.root, func(p []pbref.Step, v *pbref.Val) {
		if len(p) == 0 || v.Card == pbref.Single {
			return
		}
		gv, ok := c.acquire(p, v)
		if !ok {
			return // reported by the GetByPath family
		}
		for i, e := range v.L {
			q := append(append([]pbref.Step{}, p...), pbref.Step{K: pbref.SIndex, I: i})
			trig := c.childTrig(v, q[len(q)-1], e, q, "GetByPath", "present")
			var got generic.Value
			if c.call("Index", trig, pbref.PathString(q), func() { got = gv.Index(i) }) {
				c.judge("Index", trig, got.Node, e, c.placeOf(q), pbref.PathString(q), false)
			}
		}
		for i, k := range v.MK {
			q := append(append([]pbref.Step{}, p...), pbref.Step{K: pbref.SKey, Key: k})
			trig := c.childTrig(v, q[len(q)-1], v.MV[i], q, "GetByPath", "present")
			var got generic.Value
			op := "GetByInt"
			if v.Key == pbref.KString {
				op = "GetByStr"
			}
			k := k
			if c.call(op, trig, pbref.PathString(q), func() {
				if v.Key == pbref.KString {
					got = gv.GetByStr(string(k.B))
				} else {
					got = gv.GetByInt(pbref.KeyInt(k))
				}
			}) {
				c.judge(op, trig, got.Node, v.MV[i], c.placeOf(q), pbref.PathString(q), false)
			}
		}
		if v.Card == pbref.Repeated {
			atrig := c.childTrig(v, pbref.Step{K: pbref.SIndex, I: len(v.L)}, nil, p, "GetByPath", "absent")
			var got generic.Value
			if c.call("Index", atrig, pbref.PathString(p), func() { got = gv.Index(len(v.L)) }) {
				c.reads++
				if !got.IsError() {
					c.l.add("Index|"+atrig+"|value-for-absent-node", "%s %s at %s[%d]: list has %d elements, got a %v node %s", c.s.ID, c.root, pbref.PathString(p), len(v.L), len(v.L), got.Type(), hx(got.Raw()))
				}
			}
		}
	})
}

// ---- root-cause features: a read that touches one of these constructs is classified by the construct, so that one
// root cause keeps a handful of signatures (site x outcome) instead of one per kind/position.

func isFixedKey(k pbref.Kind) bool { return k == pbref.KFixed32 || k == pbref.KFixed64 }

func coarse(v *pbref.Val) string {
	switch {
	case v.Card == pbref.Repeated:
		if v.Kind.Packable() {
			return "packed-list"
		}
		return "list"
	case v.Card == pbref.Map:
		return "map"
	}
	return nodeClass(v)
}

func coarseField(f *pbref.Field) string {
	switch f.Card {
	case pbref.Repeated:
		if f.Kind.Packable() {
			return "packed-list"
		}
		return "list"
	case pbref.Map:
		return "map"
	}
	return scalarClass(f.Kind)
}

func packedFixedWidth(v *pbref.Val) bool {
	return v != nil && v.Card == pbref.Repeated && v.Kind.Packable() && v.Kind.Wire() != 0
}

// bait: the container node is directly followed (in the reference bytes) by a tag with its own field number,
// i.e. by a field of an ENCLOSING message that happens to have the same number.
func (c *ctx) bait(target *pbref.Val, pl place) bool {
	if target == nil || target.Card == pbref.Single || pl.f == nil {
		return false
	}
	exp := c.s.NodeBytes(target, pl.holder, pl.f, false)
	i := bytes.Index(c.buf, exp)
	if i < 0 || len(exp) == 0 {
		return false
	}
	num, _, n := gpw.ConsumeTag(c.buf[i+len(exp):])
	return n > 0 && int32(num) == pl.f.Num
}

// pathFeature returns the root-cause feature of a path read ("" if none applies).
func (c *ctx) pathFeature(p []pbref.Step, target *pbref.Val) string {
	v := c.root
	idx0, idxLen, baitAbove := false, false, false
	for i, s := range p {
		if v == nil {
			break
		}
		if v.Card != pbref.Single && c.bait(v, c.placeOf(p[:i])) {
			baitAbove = true
		}
		if s.K == pbref.SKey && isFixedKey(v.Key) {
			return "fixed-key-map"
		}
		if s.K == pbref.SIndex && v.Card == pbref.Repeated {
			if !v.Kind.Packable() && s.I == 0 {
				idx0 = true
			}
			if s.I == len(v.L) && i == len(p)-1 {
				idxLen = true
			}
		}
		v = pbref.Child(v, s)
	}
	switch {
	case idx0:
		return "via-unpacked-index0"
	case packedFixedWidth(target):
		return "packed-fixedwidth-list"
	case idxLen:
		return "index=len"
	case baitAbove || c.bait(target, c.placeOf(p)):
		return "container-then-same-number-in-parent"
	}
	return ""
}

// treeFeature: first root-cause feature present anywhere in the tree below v (whole-tree operations).
func (c *ctx) treeFeature(v *pbref.Val, base []pbref.Step, recursive bool) string {
	fixedKey, emptySub, packedFixed, bait := false, false, false, false
	pbref.Walk(v, func(p []pbref.Step, x *pbref.Val) {
		if x.Card == pbref.Map && isFixedKey(x.Key) {
			fixedKey = true
		}
		if len(p) > 0 && x.Card == pbref.Single && x.Kind == pbref.KMessage && len(x.Fs) == 0 {
			emptySub = true
		}
		if packedFixedWidth(x) {
			packedFixed = true
		}
		if x.Card != pbref.Single && c.bait(x, c.placeOf(append(append([]pbref.Step{}, base...), p...))) {
			bait = true
		}
	})
	var fs []string
	if bait {
		fs = append(fs, "has-container-then-same-number-in-parent")
	}
	if recursive && emptySub {
		fs = append(fs, "has-empty-submessage")
	}
	if fixedKey {
		fs = append(fs, "has-fixed-key-map")
	}
	if packedFixed && !recursive {
		// only the non-recursive consumers (Interface of a message, Fields) size packed lists with SkipAllElements
		fs = append(fs, "has-packed-fixedwidth-list")
	}
	return strings.Join(fs, "+")
}

// childTrig: trigger class of a direct-child read (Index/GetByStr/GetByInt/Field/FieldByName/GetMany element).
func (c *ctx) childTrig(parent *pbref.Val, st pbref.Step, target *pbref.Val, q []pbref.Step, src, presence string) string {
	f := ""
	switch {
	case parent.Card == pbref.Map && isFixedKey(parent.Key):
		f = "fixed-key-map"
	case packedFixedWidth(target):
		f = "packed-fixedwidth-list"
	case st.K == pbref.SIndex && st.I == len(parent.L):
		f = "index=len"
	case target != nil && c.bait(target, c.placeOf(q)):
		f = "container-then-same-number-in-parent"
	}
	if f == "" {
		t := "?"
		if target != nil {
			t = coarse(target)
		} else if st.K == pbref.SField {
			t = coarseField(st.F)
		}
		f = "in=" + coarse(parent) + ",target=" + t
	}
	return f + ",src=" + src + "," + presence
}

// acquire gets the generic value at path p through GetByPath for use as the PARENT of another operation. A wrong
// acquisition is the GetByPath family's business: it is not reported here, the dependent reads are skipped.
func (c *ctx) acquire(p []pbref.Step, v *pbref.Val) (gv generic.Value, ok bool) {
	if len(p) == 0 {
		return c.rv, true
	}
	if pi := core.Catch(func() { gv = c.rv.GetByPath(gpath(p, false)...) }); pi != nil || gv.IsError() {
		return gv, false
	}
	pl := c.placeOf(p)
	if !bytes.Equal(gv.Raw(), c.s.NodeBytes(v, pl.holder, pl.f, false)) {
		return gv, false
	}
	if v.Card != pbref.Single {
		if n, err := gv.Len(); err != nil || n != len(v.L)+len(v.MK) {
			return gv, false
		}
	}
	return gv, true
}

func msgSrcClass(root bool) string {
	if root {
		return "root-message"
	}
	return "nested-message"
}

// children of a model node as (step, value) in wire order
func childrenOf(v *pbref.Val) (steps []pbref.Step, vals []*pbref.Val) {
	switch {
	case v.Card == pbref.Repeated:
		for i, e := range v.L {
			steps = append(steps, pbref.Step{K: pbref.SIndex, I: i})
			vals = append(vals, e)
		}
	case v.Card == pbref.Map:
		for i := range v.MK {
			steps = append(steps, pbref.Step{K: pbref.SKey, Key: v.MK[i]})
			vals = append(vals, v.MV[i])
		}
	case v.Kind == pbref.KMessage:
		for _, fv := range v.Fs {
			steps = append(steps, pbref.Step{K: pbref.SField, F: fv.F})
			vals = append(vals, fv.V)
		}
	}
	return
}

func (c *ctx) famGetMany() {
	pbref.Walk(c.root, func(p []pbref.Step, v *pbref.Val) {
		if v.Card == pbref.Single && v.Kind != pbref.KMessage {
			return
		}
		gv, ok := c.acquire(p, v)
		if !ok {
			return
		}
		steps, vals := childrenOf(v)
		if len(steps) > 8 {
			c.getManyAll(gv, p, v, steps, vals)
		}
		if len(steps) > 5 {
			steps, vals = steps[:5], vals[:5]
		}
		// one absent child
		var absent *pbref.Step
		absentPaths(nil, v, func(q []pbref.Step, presence string) {
			if absent == nil && presence == "absent-last" && len(q) == 1 {
				s := q[0]
				absent = &s
			}
		})
		type sel struct {
			idx []int // indexes into steps; -1 = the absent child
		}
		var sels []sel
		for i := range steps {
			sels = append(sels, sel{[]int{i}})
			if absent != nil {
				sels = append(sels, sel{[]int{i, -1}}, sel{[]int{-1, i}})
			}
			for j := range steps {
				if i != j {
					sels = append(sels, sel{[]int{i, j}})
				}
			}
		}
		if absent != nil {
			sels = append(sels, sel{[]int{-1}})
		}
		for _, mode := range []int{0, 1, 2} {
			// 0: ClearDirtyValues, 1: not, 2: not, and the path nodes still hold the result of an earlier lookup (the
			// caller reuses its slice): a present child overwrites whatever the node held
			dirty := mode == 0
			for _, se := range sels {
				pns := make([]generic.PathNode, len(se.idx))
				desc := ""
				allPresent := true
				for k, i := range se.idx {
					st := absent
					if i >= 0 {
						st = &steps[i]
					} else {
						allPresent = false
					}
					pns[k].Path = gpath([]pbref.Step{*st}, false)[0]
					desc += st.String()
				}
				order := "ascending"
				if len(se.idx) == 2 && se.idx[0] >= 0 && se.idx[1] >= 0 && se.idx[0] > se.idx[1] {
					order = "descending"
				}
				feat := ""
				if v.Card == pbref.Map && isFixedKey(v.Key) {
					feat = "fixed-key-map,"
				}
				if v.Card == pbref.Single {
					for _, fv := range v.Fs {
						if packedFixedWidth(fv.V) && feat == "" {
							feat = "message-has-packed-fixedwidth-list,"
						}
					}
				}
				_ = order
				nc := "n=1"
				if len(se.idx) > 1 {
					nc = "n>=2"
				}
				trig := fmt.Sprintf("in=%s,%s,all-present=%v", coarse(v), nc, allPresent)
				if v.Card == pbref.Map && len(se.idx) > 1 {
					trig = "in=map,n>=2" // Gets() advances one entry per requested key
				} else if feat != "" {
					trig = strings.TrimSuffix(feat, ",")
				}
				where := pbref.PathString(p) + " -> " + desc
				if mode == 2 {
					if !allPresent {
						continue
					}
					for k := range pns {
						pns[k].Node = c.rv.Node
					}
					where += " (path nodes reused from an earlier lookup)"
				}
				var err error
				opts := &generic.Options{ClearDirtyValues: dirty}
				if !c.call("GetMany", trig, where, func() { err = gv.GetMany(pns, opts) }) {
					continue
				}
				if err != nil {
					c.reads++
					if allPresent {
						c.l.add("GetMany|"+trig+"|error", "%s %s at %s: %v", c.s.ID, c.root, where, err)
					}
					continue
				}
				for k, i := range se.idx {
					if i >= 0 {
						q := append(append([]pbref.Step{}, p...), steps[i])
						c.judge("GetMany", trig, pns[k].Node, vals[i], c.placeOf(q), where+" #"+fmt.Sprint(k), false)
					} else {
						c.reads++
						if n := pns[k].Node; !n.IsError() && !n.IsUnKnown() {
							c.l.add("GetMany|"+trig+"|value-for-absent-node", "%s %s at %s #%d: absent child got a %v node %s", c.s.ID, c.root, where, k, n.Type(), hx(n.Raw()))
						}
					}
				}
			}
		}
	})
}

// getManyAll: one GetMany of ALL children of a wide node, in ascending, descending and interleaved request order.
func (c *ctx) getManyAll(gv generic.Value, p []pbref.Step, v *pbref.Val, steps []pbref.Step, vals []*pbref.Val) {
	n := len(steps)
	for _, on := range []string{"ascending", "descending", "interleaved"} {
		var sel []int
		for i := 0; i < n; i++ {
			switch on {
			case "ascending":
				sel = append(sel, i)
			case "descending":
				sel = append(sel, n-1-i)
			default:
				sel = append(sel, (i*37)%n)
			}
		}
		if on == "interleaved" && n%37 == 0 {
			continue
		}
		pns := make([]generic.PathNode, n)
		for k, i := range sel {
			pns[k].Path = gpath([]pbref.Step{steps[i]}, false)[0]
		}
		trig := fmt.Sprintf("in=%s,all-children,%s", coarse(v), on)
		where := fmt.Sprintf("%s -> all %d children (%s)", pbref.PathString(p), n, on)
		var err error
		if !c.call("GetMany", trig, where, func() { err = gv.GetMany(pns, &generic.Options{}) }) {
			continue
		}
		if err != nil {
			c.reads++
			c.l.add("GetMany|"+trig+"|error", "%s at %s: %v", c.s.ID, where, err)
			continue
		}
		for k, i := range sel {
			q := append(append([]pbref.Step{}, p...), steps[i])
			c.judge("GetMany", trig, pns[k].Node, vals[i], c.placeOf(q), where+" #"+fmt.Sprint(k), false)
		}
	}
}

// cmpTree compares loaded children with the model (recursively if deep).
func (c *ctx) cmpTree(op, mode string, next []generic.PathNode, v *pbref.Val, p []pbref.Step, deep bool) {
	steps, vals := childrenOf(v)
	trig := fmt.Sprintf("%s,in=%s", mode, coarse(v))
	if f := c.treeFeature(v, p, mode == "recursive"); f != "" {
		trig = mode + "," + f
	}
	c.reads++
	if len(next) != len(steps) {
		c.l.add(op+"|"+trig+"|children-count-differs", "%s %s at %s: %d children loaded, want %d", c.s.ID, c.root, pbref.PathString(p), len(next), len(steps))
		return
	}
	used := make([]bool, len(next))
	for i, st := range steps {
		q := append(append([]pbref.Step{}, p...), st)
		want := gpath([]pbref.Step{st}, false)[0]
		// positional for fields and list elements, by key for map entries
		k := -1
		if st.K == pbref.SKey {
			for j := range next {
				if !used[j] && next[j].Path.Type() == want.Type() && next[j].Path.Value() == want.Value() {
					k = j
					break
				}
			}
		} else if next[i].Path.Type() == want.Type() && next[i].Path.Value() == want.Value() {
			k = i
		}
		ctrig := mode + "," + c.childTrig(v, st, vals[i], q, "load", "present")
		if k < 0 {
			c.l.add(op+"|"+ctrig+"|child-path-differs", "%s %s at %s: child %d has path %v, want %v", c.s.ID, c.root, pbref.PathString(q), i, next[min(i, len(next)-1)].Path.Value(), want.Value())
			continue
		}
		used[k] = true
		if c.judge(op, ctrig, next[k].Node, vals[i], c.placeOf(q), pbref.PathString(q), false) && deep {
			if vals[i].Card != pbref.Single || vals[i].Kind == pbref.KMessage {
				c.cmpTree(op, mode, next[k].Next, vals[i], q, deep)
			}
		}
	}
}

func min(a, b int) int {
	if a < b {
		return a
	}
	return b
}

func (c *ctx) famLoad() {
	for _, recurse := range []bool{false, true} {
		mode := "lazy"
		if recurse {
			mode = "recursive"
		}
		opts := &generic.Options{}
		pn := generic.PathNode{Node: c.rv.Node}
		var err error
		if c.call("Load", mode+","+c.loadClass(recurse), "(root)", func() { err = pn.Load(recurse, opts, c.desc) }) {
			if err != nil {
				c.reads++
				c.l.add("Load|"+mode+","+c.loadClass(recurse)+"|error", "%s %s: Load(recurse=%v) failed: %v (bytes %s)", c.s.ID, c.root, recurse, err, hx(c.buf))
			} else {
				c.cmpTree("Load", mode, pn.Next, c.root, nil, recurse)
			}
		}
		var out []generic.PathNode
		if c.call("Children", mode+","+c.loadClass(recurse), "(root)", func() { err = c.rv.Node.Children(&out, recurse, opts, c.desc) }) {
			if err != nil {
				c.reads++
				c.l.add("Children|"+mode+","+c.loadClass(recurse)+"|error", "%s %s: Children(recurse=%v) failed: %v (bytes %s)", c.s.ID, c.root, recurse, err, hx(c.buf))
			} else {
				c.cmpTree("Children", mode, out, c.root, nil, recurse)
			}
		}
	}
}

// loadClass: what a whole-tree load has to cope with (trigger of whole-load failures).
func (c *ctx) loadClass(recurse bool) string {
	if f := c.treeFeature(c.root, nil, recurse); f != "" {
		return f
	}
	return "tree"
}

// ---- Interface

func asInt(x interface{}) (neg bool, mag uint64, ok bool) {
	switch t := x.(type) {
	case int:
		return t < 0, uint64(t), true
	case int32:
		return t < 0, uint64(int64(t)), true
	case int64:
		return t < 0, uint64(t), true
	case uint:
		return false, uint64(t), true
	case uint32:
		return false, uint64(t), true
	case uint64:
		return false, t, true
	case dproto.FieldNumber:
		return t < 0, uint64(int64(t)), true
	}
	return false, 0, false
}

type imis struct{ cls, where, path string }

func cmpIface(got interface{}, v *pbref.Val, opts *generic.Options, path string) *imis {
	kc := func(v *pbref.Val) string {
		if v.Card == pbref.Single {
			return v.Kind.String()
		}
		if v.Card == pbref.Map && isFixedKey(v.Key) {
			return "fixed-key-map"
		}
		return coarse(v)
	}
	switch {
	case v.Card == pbref.Repeated:
		l, ok := got.([]interface{})
		if !ok {
			return &imis{"type", kc(v), path}
		}
		if len(l) != len(v.L) {
			return &imis{"length-differs", kc(v), path}
		}
		for i, e := range v.L {
			if m := cmpIface(l[i], e, opts, fmt.Sprintf("%s[%d]", path, i)); m != nil {
				return m
			}
		}
	case v.Card == pbref.Map:
		if v.Key == pbref.KString {
			mp, ok := got.(map[string]interface{})
			if !ok {
				return &imis{"type", kc(v), path}
			}
			if len(mp) != len(v.MK) {
				return &imis{"length-differs", kc(v), path}
			}
			for i, k := range v.MK {
				x, ok := mp[string(k.B)]
				if !ok {
					return &imis{"key-missing", kc(v), path}
				}
				if m := cmpIface(x, v.MV[i], opts, fmt.Sprintf("%s{%s}", path, k)); m != nil {
					return m
				}
			}
		} else {
			mp, ok := got.(map[int]interface{})
			if !ok {
				return &imis{"type", kc(v), path}
			}
			if len(mp) != len(v.MK) {
				return &imis{"length-differs", kc(v), path}
			}
			for i, k := range v.MK {
				x, ok := mp[pbref.KeyInt(k)]
				if !ok {
					return &imis{"key-missing", kc(v), path}
				}
				if m := cmpIface(x, v.MV[i], opts, fmt.Sprintf("%s{%s}", path, k)); m != nil {
					return m
				}
			}
		}
	case v.Kind == pbref.KMessage:
		n := 0
		get := func(num int32) (interface{}, bool) { return nil, false }
		switch m := got.(type) {
		case map[int]interface{}:
			if opts.MapStructById {
				return &imis{"type", "message", path}
			}
			n = len(m)
			get = func(num int32) (interface{}, bool) { x, ok := m[int(num)]; return x, ok }
		case map[dproto.FieldNumber]interface{}:
			if !opts.MapStructById {
				return &imis{"type", "message", path}
			}
			n = len(m)
			get = func(num int32) (interface{}, bool) { x, ok := m[dproto.FieldNumber(num)]; return x, ok }
		default:
			return &imis{"type", "message", path}
		}
		if n != len(v.Fs) {
			return &imis{"field-count-differs", "message", path}
		}
		for _, fv := range v.Fs {
			x, ok := get(fv.F.Num)
			if !ok {
				return &imis{"field-missing", kc(fv.V), path + "." + fv.F.Name}
			}
			if m := cmpIface(x, fv.V, opts, path+"."+fv.F.Name); m != nil {
				return m
			}
		}
	default:
		bad := &imis{"value-differs", v.Kind.String(), path}
		switch v.Kind {
		case pbref.KBool:
			if b, ok := got.(bool); !ok || b != (v.U != 0) {
				return bad
			}
		case pbref.KFloat:
			if f, ok := got.(float32); ok && math.Float32bits(f) == uint32(v.U) {
				return nil
			}
			if f, ok := got.(float64); ok && math.Float64bits(f) == math.Float64bits(float64(v.Float32())) {
				return nil
			}
			return bad
		case pbref.KDouble:
			if f, ok := got.(float64); !ok || math.Float64bits(f) != v.U {
				return bad
			}
		case pbref.KString:
			if opts.CastStringAsBinary {
				if b, ok := got.([]byte); !ok || !bytes.Equal(b, v.B) {
					return bad
				}
			} else if s, ok := got.(string); !ok || s != string(v.B) {
				return bad
			}
		case pbref.KBytes:
			if b, ok := got.([]byte); !ok || !bytes.Equal(b, v.B) {
				return bad
			}
		default:
			neg, mag, ok := asInt(got)
			if !ok {
				return &imis{"type", v.Kind.String(), path}
			}
			if v.Kind.IsUnsigned() {
				if neg || mag != v.U {
					return bad
				}
			} else if int64(mag) != int64(v.U) || neg != (int64(v.U) < 0) {
				return bad
			}
		}
	}
	return nil
}

func (c *ctx) famInterface() {
	pbref.Walk(c.root, func(p []pbref.Step, v *pbref.Val) {
		gv, ok := c.acquire(p, v)
		if !ok {
			return
		}
		for _, byID := range []bool{false, true} {
			for _, s2b := range []bool{false, true} {
				opts := &generic.Options{MapStructById: byID, CastStringAsBinary: s2b}
				top := c.ifaceFeature(v, p, opts)
				var got interface{}
				var err error
				where := pbref.PathString(p)
				if !c.call("Interface", top, where, func() { got, err = gv.Interface(opts) }) {
					continue
				}
				c.reads++
				if err != nil {
					c.l.add("Interface|"+top+"|error", "%s %s at %s (node %s, opts %+v): %v", c.s.ID, c.root, where, v, *opts, err)
					continue
				}
				if m := cmpIface(got, v, opts, ""); m != nil {
					w := m.where
					if v.Card != pbref.Single || v.Kind == pbref.KMessage {
						if f := c.treeFeature(v, p, false); f != "" {
							w = f
						}
					}
					c.l.add("Interface|"+w+"|"+m.cls, "%s %s at %s%s: want %s, Interface() gave %#v", c.s.ID, c.root, where, m.path, v, got)
				}
			}
		}
	})
}

// ifaceFeature: trigger class of an Interface() call = the first construct below the node that is known to matter.
func (c *ctx) ifaceFeature(v *pbref.Val, p []pbref.Step, opts *generic.Options) string {
	hasFloat, hasString := false, false
	pbref.Walk(v, func(q []pbref.Step, x *pbref.Val) {
		if x.Card == pbref.Single && x.Kind == pbref.KFloat {
			hasFloat = true
		}
		if x.Card == pbref.Single && x.Kind == pbref.KString || x.Card == pbref.Map && x.Key == pbref.KString && false {
			hasString = true
		}
	})
	composite := v.Card != pbref.Single || v.Kind == pbref.KMessage
	if !composite {
		switch {
		case hasFloat:
			return "float"
		case hasString && opts.CastStringAsBinary:
			return "string,CastStringAsBinary"
		}
		return "kind=" + v.Kind.String()
	}
	var fs []string
	if f := c.treeFeature(v, p, false); f != "" {
		fs = append(fs, f)
	}
	if hasFloat {
		fs = append(fs, "has-float")
	}
	if hasString && opts.CastStringAsBinary {
		fs = append(fs, "has-string,CastStringAsBinary")
	}
	if len(fs) == 0 {
		return coarse(v)
	}
	return strings.Join(fs, "+")
}

// famOnePastEnd: a message buffer that exactly fills a large heap object (> 32 KiB objects get their own span whose
// limit is base+size, so this does not depend on allocator luck). Looking up an ABSENT trailing field makes getByPath
// return errNotFoundLast(v+len) - an unsafe.Pointer one past the end of the object. The value is kept alive across a
// garbage collection. A correct library survives; the worker dying here is attributed to this case by the parent.
func (c *ctx) famOnePastEnd() {
	exact := make([]byte, len(c.buf))
	copy(exact, c.buf)
	rv := generic.NewRootValue(c.desc, exact)
	var absent *pbref.Field
	for _, f := range c.s.Root.Fields {
		if c.root.Get(f.Num) == nil {
			absent = f
		}
	}
	if absent == nil || len(exact) <= 32768 || len(exact)%8192 == 0 {
		return
	}
	c.reads++
	v := rv.GetByPath(generic.NewPathFieldId(dproto.FieldNumber(absent.Num)))
	runtime.GC()
	runtime.GC()
	if !v.IsErrNotFound() {
		c.l.add("GetByPath|absent-trailing-field,large-exact-buffer|not-not-found", "%s: absent field %d: got %q", c.s.ID, absent.Num, v.Error())
	}
	runtime.KeepAlive(v)
	runtime.KeepAlive(exact)
}
