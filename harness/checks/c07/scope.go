package c07

import (
	"bytes"
	"fmt"
	"strings"

	"verif/ref/pbref"
)

// IntKeyKinds: integer map key kinds in scope (bool keys are outside the quantifier).
var keyKinds = []pbref.Kind{pbref.KInt32, pbref.KInt64, pbref.KUint32, pbref.KUint64, pbref.KSint32, pbref.KSint64, pbref.KFixed32, pbref.KFixed64, pbref.KSfixed32, pbref.KSfixed64, pbref.KString}

var progCache = map[string][]*pbref.Schema{}

func programs(tier string) []*pbref.Schema {
	if p := progCache[tier]; p != nil {
		return p
	}
	ps := []*pbref.Schema{pbref.ProgScalars("low"), pbref.ProgScalars("tags"), pbref.ProgLists("low"), pbref.ProgLists("tags")}
	for _, k := range keyKinds {
		ps = append(ps, pbref.ProgMaps(k))
	}
	ps = append(ps, pbref.ProgNested(), pbref.ProgBigID(2048), pbref.ProgBigID(262144))
	if tier == "thorough" {
		ps = append(ps, pbref.ProgBigID(1<<25), pbref.ProgBigID(1<<29-1))
	}
	progCache[tier] = ps
	return ps
}

var msgCache = map[string][]pbref.NV{}

func messages(s *pbref.Schema, tier string) []pbref.NV {
	key := s.ID + "/" + tier
	if m := msgCache[key]; m != nil {
		return m
	}
	var out []pbref.NV
	seen := map[string]bool{}
	add := func(name string, v *pbref.Val) {
		k := v.String()
		if seen[k] {
			return
		}
		seen[k] = true
		out = append(out, pbref.NV{Name: name, V: v})
	}
	root := s.Root
	maxN := 3
	if tier == "thorough" {
		maxN = 6
	}
	val := func(f *pbref.Field, i int) *pbref.Val {
		switch {
		case f.Card == pbref.Repeated:
			return pbref.ListVal(f, 2+i%2)
		case f.Card == pbref.Map:
			return pbref.MapVal(f, 2+i%2)
		case f.Kind == pbref.KMessage:
			return pbref.ItemVal(f.Msg, i)
		}
		return pbref.Elem(f.Kind, i)
	}
	switch {
	case s.ID == "nested":
		for _, nv := range nestedMessages(s) {
			add(nv.Name, nv.V)
		}
	case strings.HasPrefix(s.ID, "bigid"):
		add("empty", pbref.MsgVal(root))
		all := pbref.MsgVal(root)
		for i, f := range root.Fields {
			add("single", pbref.MsgVal(root).Set(f, val(f, i)))
			all.Set(f, val(f, i))
		}
		add("all", all)
	default:
		add("empty", pbref.MsgVal(root))
		// single fields over their alphabets / sizes
		for _, f := range root.Fields {
			switch f.Card {
			case pbref.Single:
				for _, a := range pbref.Alphabet(f.Kind) {
					add("single", pbref.MsgVal(root).Set(f, a))
				}
			case pbref.Repeated:
				for n := 0; n <= maxN; n++ {
					add("list", pbref.MsgVal(root).Set(f, pbref.ListVal(f, n)))
				}
				if f.Kind != pbref.KMessage {
					add("list-alphabet", pbref.MsgVal(root).Set(f, pbref.ListOf(f, pbref.Alphabet(f.Kind)...)))
				}
			case pbref.Map:
				for n := 0; n <= maxN; n++ {
					add("map", pbref.MsgVal(root).Set(f, pbref.MapVal(f, n)))
				}
				if f.Kind == pbref.KInt32 {
					m := pbref.MapOf(f)
					for _, k := range pbref.Alphabet(f.Key) {
						m.Put(k, pbref.Int(pbref.KInt32, 7))
					}
					add("map-key-alphabet", pbref.MsgVal(root).Set(f, m))
				}
			}
		}
		// all pairs of fields (skipping one kind of field to reach another)
		fs := root.SortedFields()
		for i := 0; i < len(fs); i++ {
			for j := i + 1; j < len(fs); j++ {
				add("pair", pbref.MsgVal(root).Set(fs[i], val(fs[i], i)).Set(fs[j], val(fs[j], j)))
			}
		}
		if tier == "thorough" {
			// all triples of fields
			for i := 0; i < len(fs); i++ {
				for j := i + 1; j < len(fs); j++ {
					for k := j + 1; k < len(fs); k++ {
						add("triple", pbref.MsgVal(root).Set(fs[i], val(fs[i], i)).Set(fs[j], val(fs[j], j+1)).Set(fs[k], val(fs[k], k+2)))
					}
				}
			}
		}
		// windows of 4 fields in declaration order
		for i := 0; i+4 <= len(root.Fields); i++ {
			m := pbref.MsgVal(root)
			for j := i; j < i+4; j++ {
				m.Set(root.Fields[j], val(root.Fields[j], j))
			}
			add("window4", m)
		}
		all := pbref.MsgVal(root)
		for i, f := range root.Fields {
			all.Set(f, val(f, i+1))
		}
		add("all", all)
	}
	msgCache[key] = out
	return out
}

func nestedMessages(s *pbref.Schema) []pbref.NV {
	root := s.Root
	fa, fra, fma, fmi, fr, fx, ftail, fe := root.ByName("a"), root.ByName("ra"), root.ByName("ma"), root.ByName("mi"), root.ByName("r"), root.ByName("x"), root.ByName("tail"), root.ByName("e")
	sub1 := fa.Msg
	sub2 := sub1.ByName("d").Msg
	rec := fr.Msg
	S1 := func(kv ...interface{}) *pbref.Val {
		m := pbref.MsgVal(sub1)
		for i := 0; i < len(kv); i += 2 {
			m.Set(sub1.ByName(kv[i].(string)), kv[i+1].(*pbref.Val))
		}
		return m
	}
	S2 := func(kv ...interface{}) *pbref.Val {
		m := pbref.MsgVal(sub2)
		for i := 0; i < len(kv); i += 2 {
			m.Set(sub2.ByName(kv[i].(string)), kv[i+1].(*pbref.Val))
		}
		return m
	}
	R := func(kv ...interface{}) *pbref.Val {
		m := pbref.MsgVal(rec)
		for i := 0; i < len(kv); i += 2 {
			m.Set(rec.ByName(kv[i].(string)), kv[i+1].(*pbref.Val))
		}
		return m
	}
	T := func(kv ...interface{}) *pbref.Val {
		m := pbref.MsgVal(root)
		for i := 0; i < len(kv); i += 2 {
			m.Set(kv[i].(*pbref.Field), kv[i+1].(*pbref.Val))
		}
		return m
	}
	i32 := func(x int64) *pbref.Val { return pbref.Int(pbref.KInt32, x) }
	str := pbref.Str
	ints := func(f *pbref.Field, xs ...int64) *pbref.Val {
		l := pbref.ListOf(f)
		for _, x := range xs {
			l.L = append(l.L, pbref.Int(f.Kind, x))
		}
		return l
	}
	strs := func(f *pbref.Field, ss ...string) *pbref.Val {
		l := pbref.ListOf(f)
		for _, x := range ss {
			l.L = append(l.L, pbref.Str(x))
		}
		return l
	}
	pl, sl, zl, sm, im := sub1.ByName("pl"), sub1.ByName("sl"), sub1.ByName("zl"), sub1.ByName("sm"), sub1.ByName("im")
	kids := rec.ByName("kids")
	smv := func(kv ...interface{}) *pbref.Val {
		m := pbref.MapOf(sm)
		for i := 0; i < len(kv); i += 2 {
			m.Put(str(kv[i].(string)), i32(int64(kv[i+1].(int))))
		}
		return m
	}
	full1 := func(i int) *pbref.Val {
		return S1("i", i32(int64(10+i)), "s", str(fmt.Sprintf("sub%d", i)), "d", S2("z", pbref.Int(pbref.KSint32, int64(-3-i)), "b", pbref.Bytes([]byte{1, 2, byte(i)}), "e", pbref.MsgVal(sub2.ByName("e").Msg)),
			"pl", ints(pl, 1, -2, 300), "sl", strs(sl, "a", "", "c"), "sm", smv("k", 1, "", 2), "zl", ints(zl, 1, -2, -1<<40),
			"im", pbref.MapOf(im).Put(pbref.Int(pbref.KInt64, 7), str("x")).Put(pbref.Int(pbref.KInt64, -1), str("")))
	}
	var out []pbref.NV
	add := func(name string, v *pbref.Val) { out = append(out, pbref.NV{Name: name, V: v}) }
	add("empty-root", pbref.MsgVal(root))
	add("empty-submessage", T(fa, S1()))
	add("empty-submessage-last", T(fx, i32(3), fe, pbref.MsgVal(fe.Msg)))
	add("empty-submessage-between", T(fa, S1(), fx, i32(3)))
	add("sub-scalar", T(fa, S1("i", i32(5))))
	add("sub-string", T(fa, S1("s", str("x"))))
	add("depth2-empty", T(fa, S1("d", S2())))
	add("depth2-scalar", T(fa, S1("d", S2("z", pbref.Int(pbref.KSint32, -3)))))
	add("depth3-empty", T(fa, S1("d", S2("e", pbref.MsgVal(sub2.ByName("e").Msg)))))
	add("depth2-bytes-and-empty", T(fa, S1("d", S2("b", pbref.Bytes([]byte{9}), "e", pbref.MsgVal(sub2.ByName("e").Msg)))))
	add("sub-packed-list", T(fa, S1("pl", ints(pl, 1, -2, 300))))
	add("sub-string-list", T(fa, S1("sl", strs(sl, "a", "", "c"))))
	add("sub-zigzag-list", T(fa, S1("zl", ints(zl, 1, -2, -1<<40))))
	add("sub-strmap", T(fa, S1("sm", smv("k", 1, "", 2, "zz", 0))))
	add("sub-intmap", T(fa, S1("im", pbref.MapOf(im).Put(pbref.Int(pbref.KInt64, 7), str("x")).Put(pbref.Int(pbref.KInt64, -1), str("")))))
	add("sub-full", T(fa, full1(0)))
	add("sub-full-then-scalars", T(fa, full1(1), fx, i32(6), ftail, str("t")))
	add("list-of-messages", T(fra, pbref.ListOf(fra, S1("i", i32(1)), S1("s", str("z")))))
	add("list-of-messages-with-empty", T(fra, pbref.ListOf(fra, S1("i", i32(1)), S1(), S1("s", str("z")))))
	add("list-of-empty-messages", T(fra, pbref.ListOf(fra, S1(), S1())))
	add("list-of-full-messages", T(fra, pbref.ListOf(fra, full1(0), full1(1), full1(2))))
	add("list-of-messages-with-lists", T(fra, pbref.ListOf(fra, S1("sl", strs(sl, "a")), S1("sl", strs(sl, "b", "c")), S1("pl", ints(pl, 7)))))
	add("strmap-of-messages", T(fma, pbref.MapOf(fma).Put(str("k"), S1("i", i32(1))).Put(str("j"), full1(1))))
	add("strmap-of-messages-empty-value", T(fma, pbref.MapOf(fma).Put(str("k"), S1()).Put(str(""), S1("i", i32(2)))))
	add("intmap-of-messages", T(fmi, pbref.MapOf(fmi).Put(i32(5), S1("s", str("v"))).Put(i32(-1), full1(2)).Put(i32(0), S1())))
	add("recursive-scalar", T(fr, R("v", i32(1))))
	add("recursive-chain", T(fr, R("next", R("next", R("v", i32(3))))))
	add("recursive-chain-with-values", T(fr, R("v", i32(1), "next", R("v", i32(2), "next", R("v", i32(3))))))
	add("recursive-list-flat", T(fr, R("kids", pbref.ListOf(kids, R("v", i32(1)), R("v", i32(2))))))
	add("recursive-list-nested", T(fr, R("kids", pbref.ListOf(kids, R("kids", pbref.ListOf(kids, R("v", i32(1)))), R("v", i32(2))))))
	add("recursive-list-nested-empty", T(fr, R("kids", pbref.ListOf(kids, R("kids", pbref.ListOf(kids, R())), R()))))
	add("sub-string-list-then-same-number-in-parent", T(fa, S1("sl", strs(sl, "x")), fr, R("v", i32(1))))
	add("sub-strmap-then-same-number-in-parent", T(fa, S1("sm", smv("k", 1)), fx, i32(7)))
	add("len2-depth1", T(fa, S1("s", str(strings.Repeat("L", 200)))))
	add("len2-depth2", T(fa, S1("d", S2("b", pbref.Bytes(bytes.Repeat([]byte{0x0a}, 130))))))
	add("len3-depth0", T(ftail, str(strings.Repeat("T", 20000))))
	add("len3-depth1", T(fa, S1("s", str(strings.Repeat("M", 17000))), fx, i32(1)))
	add("len-127", T(fa, S1("s", str(strings.Repeat("m", 125))), fx, i32(1)))
	add("len-128", T(fa, S1("s", str(strings.Repeat("m", 126))), fx, i32(1)))
	add("all-top-level", T(fa, full1(0), fra, pbref.ListOf(fra, full1(1), S1()), fma, pbref.MapOf(fma).Put(str("k"), full1(2)), fmi, pbref.MapOf(fmi).Put(i32(1), S1("i", i32(4))),
		fr, R("v", i32(5), "kids", pbref.ListOf(kids, R("v", i32(6)))), fx, i32(6), ftail, str("t"), fe, pbref.MsgVal(fe.Msg)))
	return out
}
