package c07

import "verif/ref/pbref"

func programs(tier string) []*pbref.Schema { return pbref.StdPrograms(tier) }

func messages(s *pbref.Schema, tier string) []pbref.NV { return pbref.StdMessages(s, tier) }
