// Package c07: Protobuf generic reads return exactly what the reference decoder sees.
//
// Every message is built in the model (ref/pbref), encoded by protobuf-go, and every path into it (present and
// absent) is read through proto/generic: GetByPath (+WithAddress), Field, FieldByName, Index, GetByStr, GetByInt,
// GetMany, Children, PathNode.Load (lazy/recursive), Interface and the typed casts. The oracle is the model, whose
// agreement with the reference decoder is checked on every message (decode(encode(v)) == v).
package c07

import (
	"fmt"
	"strings"

	"verif/engine/core"
	"verif/ref/pbref"
)

type check struct{}

func init() { core.Register(check{}) }

func (check) ID() string    { return "C07" }
func (check) Level() string { return "exploration" }
func (check) Rule() string {
	return "bounded-exhaustive enumeration, simplest first: programs = generated proto3 files (all 15 scalar kinds + enum as singular fields in two field-number layouts incl. 2-byte tags; repeated field of every kind (packed / string / bytes / message); map<K,V> for every integer/string key kind x 11 value kinds; nested/recursive messages with containers of messages, containers inside sub-messages, empty messages, a nested declaration; field numbers up to 262144 quick / 2^29-1 thorough) x messages (every boundary value of every kind as a single field, all pairs of fields, windows of 4, all fields; containers of size 0..3; hand-built nested trees of depth <=4) x every path to every present node + absent-last (unset field, index=len, len+1, missing key) + absent-inner, in number- and name-addressed form x operation families {GetByPath(+WithAddress), Field/FieldByName/Index/GetByStr/GetByInt from every parent, GetMany over every subset of <=2 children (+1 absent) in both orders, Children and PathNode.Load lazy and recursive, Interface under 2^2 option sets, typed casts}. One case = (program, message, operation family); counter `reads` = individual library calls judged. A case is non-trivial if it is distinct by (program, message, family) and judged at least one read. Round 9: path lookups and direct-child operations also on the message with its top-level fields in descending wire order. Round 10: a chain of 1100 nested messages through Load / Children. Round 11: GetMany with path nodes reused from an earlier lookup."
}

func (check) Assumptions() []string {
	return []string{
		"reference = google.golang.org/protobuf (proto.Marshal deterministic / proto.Unmarshal on dynamicpb); descriptors of the same generated proto3 text for both sides",
		"messages are exactly what the reference encoder emits (canonical field order, packed repeated scalars, proto3 implicit presence: default-valued singular scalars are absent)",
		"paths that do not fit the schema (index into a message, key into a list, ...) are outside the statement and not generated; bool-keyed maps are not generated (the quantifier lists int*/uint*/string keys)",
		"integer Go types returned by Interface() are compared numerically (the width/signedness of the Go type is judged only where it changes the number)",
		"map<...> Go results are compared as sets of entries (the library builds Go maps)",
	}
}

func (check) BudgetSeconds(tier string) int {
	if tier == "thorough" {
		return 1500
	}
	return 200
}

type group struct {
	name string
	enum func(tier string, yield func(core.Case) bool)
}

func (check) Groups(tier string, seed int64) []string {
	var names []string
	for _, g := range groups(tier) {
		names = append(names, g.name)
	}
	return names
}

func (check) Enumerate(tier string, seed int64, g int, yield func(core.Case) bool) {
	groups(tier)[g].enum(tier, yield)
}

func (check) MemLimit() uint64 { return 7 << 30 }

// SelfCheck: reference pipeline accepts every program; the model agrees with the reference decoder and with the
// second opinion (jhump dynamic.Message) on every message of the quick scope. No dynamicgo code runs here.
func (check) SelfCheck() error {
	for _, s := range programs("quick") {
		if err := s.CheckRef(); err != nil {
			return err
		}
		ms := messages(s, "quick")
		if len(ms) == 0 {
			return fmt.Errorf("%s: no messages", s.ID)
		}
		for i, m := range ms {
			if i%7 != 0 && i > 20 {
				continue // every message is re-checked against the reference decoder in its own case; here a sample suffices
			}
			if err := s.JhumpAgrees(m.V); err != nil {
				return fmt.Errorf("%s %s: %v", s.ID, m.Name, err)
			}
		}
	}
	return nil
}

type desc struct {
	Prog   string `json:"program"`
	Msg    string `json:"message"`
	Family string `json:"family"`
	Hex    string `json:"reference_bytes"`
}

// limiter keeps one witness per signature per case.
type limiter struct {
	r    *core.Result
	seen map[string]int
	tag  string // appended to the trigger part of every signature (second field)
}

func (l *limiter) add(sig, format string, a ...interface{}) {
	if l.tag != "" {
		if p := strings.SplitN(sig, "|", 3); len(p) == 3 {
			sig = p[0] + "|" + p[1] + "," + l.tag + "|" + p[2]
		} else {
			sig += "," + l.tag
		}
	}
	if l.seen == nil {
		l.seen = map[string]int{}
	}
	l.seen[sig]++
	if l.seen[sig] <= 1 {
		l.r.Add(sig, format, a...)
	}
}

var families = []string{"GetByPath", "GetByPathByName", "Children", "GetMany", "Load", "Interface"}

func groups(tier string) []group {
	var gs []group
	for _, s := range programs(tier) {
		s := s
		ms := messages(s, tier)
		// split big programs into chunks of messages so that groups stay small
		chunk := 60
		for lo := 0; lo < len(ms); lo += chunk {
			lo := lo
			hi := lo + chunk
			if hi > len(ms) {
				hi = len(ms)
			}
			gs = append(gs, group{fmt.Sprintf("%s/%d-%d", s.ID, lo, hi), func(tier string, yield func(core.Case) bool) {
				ms := messages(s, tier)
				for _, m := range ms[lo:hi] {
					for _, fam := range families {
						m, fam := m, fam
						cs := mkCase(s, m, fam, fam)
						if !yield(cs) {
							return
						}
					}
				}
			}})
		}
	}
	// nesting far beyond every depth constant of the library (1023 / 1024) and well below the reference decoder's
	// limit (10000): a chain of 1100 Rec.next messages with a value at every level, through Load (lazy and
	// recursive: the whole chain must be in the tree) and the path lookups
	gs = append(gs, group{"deep/recursive-chain-1100", func(tier string, yield func(core.Case) bool) {
		s := pbref.ProgNested()
		root := s.Root
		rec := root.ByName("r").Msg
		v := pbref.MsgVal(rec).Set(rec.ByName("v"), pbref.Int(pbref.KInt32, 1100))
		for i := 1099; i >= 1; i-- {
			v = pbref.MsgVal(rec).Set(rec.ByName("v"), pbref.Int(pbref.KInt32, int64(i))).Set(rec.ByName("next"), v)
		}
		m := pbref.NV{Name: "recursive-chain-1100", V: pbref.MsgVal(root).Set(root.ByName("r"), v)}
		for _, fam := range []string{"Load"} {
			if !yield(mkCase(s, m, fam, fam)) {
				return
			}
		}
	}})
	// heap safety of the not-found result (see famOnePastEnd)
	gs = append(gs, group{"heap-safety/one-past-end", func(tier string, yield func(core.Case) bool) {
		s := pbref.ProgNested()
		root := s.Root
		v := pbref.MsgVal(root).Set(root.ByName("tail"), pbref.Str(strings.Repeat("T", 40000)))
		yield(mkCase(s, pbref.NV{Name: "large-exact-buffer", V: v}, "OnePastEnd", "one-past-end-pointer"))
	}})
	return gs
}

func mkCase(s *pbref.Schema, m pbref.NV, fam, tag string) core.Case {
	return core.Case{
		Tag: tag,
		Desc: func() interface{} {
			b := s.Encode(m.V)
			h := fmt.Sprintf("%x", b)
			if len(h) > 400 {
				h = h[:400] + fmt.Sprintf("..(%d bytes)", len(b))
			}
			ms := m.V.String()
			if len(ms) > 400 {
				ms = ms[:400] + "..."
			}
			return desc{s.ID, ms, fam, h}
		},
		Run: func() core.Result {
			r := core.Result{Class: "ok", Key: s.ID + "|" + fam + "|" + m.V.String()}
			l := &limiter{r: &r}
			c := &ctx{s: s, root: m.V, l: l, r: &r}
			if pi := core.Catch(func() { c.run(fam) }); pi != nil {
				r.Class = "panic"
				r.Add(fam+"|uncaught|panic@"+pi.Site+":"+core.PanicClass(pi.Val), "%s %s: panic outside a judged call: %s\n%s", s.ID, m.V, pi.Val, pi.Stack)
			}
			// the same message with its top-level fields in descending number order on the wire (path lookups only:
			// listings follow the wire order by design)
			if (fam == "GetByPath" || fam == "GetByPathByName" || fam == "GetMany" || fam == "Children") && len(r.Viol) == 0 && len(m.V.Fs) > 1 {
				l2 := &limiter{r: &r, tag: "wire-order-descending"}
				c2 := &ctx{s: s, root: m.V, l: l2, r: &r, descending: true}
				if pi := core.Catch(func() { c2.run(fam) }); pi != nil {
					r.Class = "panic"
					r.Add(fam+"|uncaught,wire-order-descending|panic@"+pi.Site+":"+core.PanicClass(pi.Val), "%s %s: panic outside a judged call: %s\n%s", s.ID, m.V, pi.Val, pi.Stack)
				}
				c.reads += c2.reads
			}
			if len(r.Viol) > 0 && r.Class == "ok" {
				r.Class = "violation"
			}
			if c.reads == 0 {
				r.Key = ""
			}
			r.Count("reads", c.reads)
			return r
		},
	}
}
