package c09

import (
	"encoding/json"
	"fmt"
	"strings"

	"google.golang.org/protobuf/encoding/protojson"
	"google.golang.org/protobuf/types/dynamicpb"

	"verif/checks/pj"
)

// SelfCheck binds the documents to the reference implementation without running dynamicgo: every document that is
// expected to convert is valid JSON and the reference's own JSON parser (protojson, unknown members discarded) reads
// it as exactly the intended message; every document of the mismatch table is rejected by protojson.
func (check) SelfCheck() error {
	refs := map[string]*pj.Ref{}
	n := 0
	for _, g := range (check{}).Groups("quick", 0) {
		if strings.HasPrefix(g, "struct/") && !strings.HasPrefix(g, "struct/sub/") && !strings.HasPrefix(g, "struct/mapsub/") {
			continue // same renderer paths; two structure contexts are enough for the self check
		}
		if strings.HasPrefix(g, "prefix/depth3") || strings.HasSuffix(g, "/16384") || g == "recursion" {
			continue
		}
		var ferr error
		enumerate("quick", g, func(jc *jcase) bool {
			ref := refs[jc.prog.Name]
			if ref == nil {
				var err error
				if ref, err = pj.CompileRef(jc.prog); err != nil {
					ferr = err
					return false
				}
				if len(refs) > 2000 {
					refs = map[string]*pj.Ref{}
				}
				refs[jc.prog.Name] = ref
			}
			for _, d := range jc.docs(&pj.Compiled{Ref: ref}) {
				if !json.Valid(d.text) {
					ferr = fmt.Errorf("%s: document is not valid JSON: %s", jc.what, clip(d.text))
					return false
				}
				if g == "nesting-limit" {
					continue // protojson has its own recursion limit
				}
				m := dynamicpb.NewMessage(ref.Msg(pj.Pkg + ".T"))
				err := protojson.UnmarshalOptions{DiscardUnknown: g == "unknown-members"}.Unmarshal(d.text, m)
				if d.expect == wantError {
					if err == nil {
						ferr = fmt.Errorf("%s: the reference JSON parser accepts a document of the mismatch table: %s", jc.what, d.text)
						return false
					}
					continue
				}
				if err != nil {
					ferr = fmt.Errorf("%s: the reference JSON parser rejects the document: %v: %s", jc.what, err, clip(d.text))
					return false
				}
				if diff := pj.DiffMsg(d.want, m, "$"); diff != "" {
					ferr = fmt.Errorf("%s: the reference JSON parser reads another message: %s: %s", jc.what, diff, clip(d.text))
					return false
				}
				n++
			}
			return true
		})
		if ferr != nil {
			return ferr
		}
	}
	if n < 5000 {
		return fmt.Errorf("self-check covered only %d documents", n)
	}
	return nil
}
