// Package c09: JSON->Protobuf conversion encodes exactly the value the JSON denotes.
//
// Documents are rendered by the harness (checks/pj/json.go) from reference messages (dynamicpb), converted by
// the real j2p.BinaryConv (Do and DoInto), and the output is decoded by the reference implementation
// (google.golang.org/protobuf) and compared with the source message.
package c09

import (
	"github.com/cloudwego/dynamicgo/vsync"
	"bytes"
	"context"
	"fmt"
	"strings"

	"github.com/cloudwego/dynamicgo/conv"
	"github.com/cloudwego/dynamicgo/conv/j2p"
	"google.golang.org/protobuf/reflect/protoreflect"

	"verif/checks/pj"
	"verif/engine/core"
	"verif/ref/poolpoison"
)

type check struct{}

func init() { core.Register(check{}) }

func (check) ID() string    { return "C09" }
func (check) Level() string { return "exploration" }
func (check) Rule() string {
	return "bounded-exhaustive enumeration, simplest first, of (schema, JSON document, options, API): the shared conversion scope (every finite boundary value of every scalar kind and enum as singular field / list element / map value, every boundary key of every map key kind; 6 embedding contexts x field numbers x every shape x sizes 0..3 / empty sub-messages; presence subsets; JSON-name spellings; recursive chains) rendered in 4 document variants (members addressed by field name or by JSON name, declaration or reverse order, explicit default members); length-prefix sweeps (payload 120..135 and 16376..16392 bytes inside every chain of message / repeated message / map-of-message links of depth 1..3, packed payloads around 127/128 and 16383/16384); nesting depth around the converter's 256-entry stack; null members; unknown members of every JSON kind x DisallowUnknownField; kind-mismatch table (JSON kind x field class); key/string/whitespace spellings. x {Do, DoInto}. A case is non-trivial if it is distinct by (schema, document) and at least one conversion was compared with the reference decode or with the demanded error. Later additions: after-failure family, base64-valid strings in the mismatch table, overwriting of the pooled buffers right after Do, two message types with one simple name. Round 10: numbers spelled as JSON strings (error or the denoted message)."
}
func (check) Assumptions() []string {
	return []string{
		"reference = google.golang.org/protobuf (dynamicpb + proto.Unmarshal) on descriptors built from the reference parser's FileDescriptorProto; equality = proto3 field-wise equality of the decoded output and the source message, unknown fields in the output count as a difference",
		"documents use the JSON forms dynamicgo's own p2j emits/documents: integers (also 64-bit) and enums as bare numbers, floats as shortest round-trip literals (float32 with float64 digits), bytes as padded standard base64, map keys as decimal / true|false / string; NaN/Infinity have no JSON number form and are not part of the documents",
		"null member = absent member; an unknown member is ignored unless DisallowUnknownField is set, then an error is demanded",
		"mismatch table: only unambiguous kind mismatches (e.g. string for a number, object for a scalar, array for a singular field); 1.5 for an integer field or a string for bytes are not counted as kind mismatches",
	}
}

var optSets = []conv.Options{{}, {DisallowUnknownField: true}}

func optName(o conv.Options) string {
	if o.DisallowUnknownField {
		return "DisallowUnknownField"
	}
	return "default"
}

// expectation of one document
const (
	wantOK    = iota // conversion must succeed and decode to want
	wantError        // an error is demanded under every option set
	wantErrorIfDisallow
	wantOKOrError // beyond the converter's limits: error or the right message
)

type doc struct {
	trigger string // trigger class of this document if it has one of its own (document features), else the case's focus
	variant string // "" for the base document
	text    []byte
	want    protoreflect.Message
	expect  int
	prime   []byte // if set: converted by the same converter right before text, outcome ignored (history of length 2)
}

type jcase struct {
	prog  *pj.Program
	what  string
	focus string
	docs  func(c *pj.Compiled) []doc
}

type caseDesc struct {
	What     string `json:"what"`
	Schema   string `json:"schema"`
	Document string `json:"document"`
}

func clip(b []byte) string {
	if len(b) > 600 {
		return fmt.Sprintf("%s...(%d bytes)...%s", b[:300], len(b), b[len(b)-200:])
	}
	return string(b)
}

func (jc *jcase) toCase() core.Case {
	return core.Case{
		Tag: jc.focus,
		Desc: func() interface{} {
			c := pj.Compile(jc.prog)
			ds := jc.docs(c)
			return caseDesc{jc.what, jc.prog.SourceDump(), clip(ds[0].text)}
		},
		Run: func() core.Result {
			r := core.Result{Class: "ok", Key: jc.prog.Name + "|" + jc.what}
			c := pj.Compile(jc.prog)
			if c.Err != nil {
				r.Class = "descriptor-error"
				r.Add("proto.NewDescriptor|"+jc.focus+"|error-on-valid-schema", "dynamicgo rejects the schema: %v", c.Err)
				return r
			}
			md := c.Ref.Msg(pj.Pkg + ".T")
			classes := map[string]bool{}
			type rec struct {
				di, oi      int
				key, detail string
				variant     string
				trigger     string
			}
			var recs []rec
			for di, d := range jc.docs(c) {
				for oi, opts := range optSets {
					var viol []core.Violation
					add := func(site, outcome, format string, a ...interface{}) {
						viol = append(viol, core.Violation{Sig: site + "\x00" + outcome, Detail: fmt.Sprintf("[doc %q, options %s] ", d.variant, optName(opts)) + fmt.Sprintf(format, a...)})
					}
					cv := j2p.NewBinaryConv(opts)
					in := append([]byte{}, d.text...)
					var out []byte
					var cerr error
					if d.prime != nil {
						core.Catch(func() { cv.Do(context.Background(), c.In, append([]byte{}, d.prime...)) })
					}
					pi := core.Catch(func() { out, cerr = cv.Do(context.Background(), c.In, in) })
					if pi == nil {
						vsync.Controlled = true
						vsync.Reset()
						var o4 []byte
						var e4 error
						pi4 := core.Catch(func() { o4, e4 = cv.Do(context.Background(), c.In, append([]byte{}, d.text...)) })
						vsync.Reset()
						vsync.Controlled = false
						if pi4 != nil {
							add("j2p.Do", "fresh-pooled-objects|panic@"+pi4.Site+":"+core.PanicClass(pi4.Val), "panic: %s\ndocument %s", pi4.Val, clip(d.text))
						} else if (e4 == nil) != (cerr == nil) || (e4 == nil && !bytes.Equal(o4, out)) {
							add("j2p.Do", "differs-with-fresh-pooled-objects", "with the pooled objects of this process: %x err=%v\nwith fresh ones: %x err=%v\ndocument %s", out, cerr, o4, e4, clip(d.text))
						}
					}
					if pi == nil && cerr == nil && poolpoison.Aliased(out) {
						add("j2p.Do", "result-aliases-pooled-buffer", "the %d bytes returned by Do change when the buffers in the converters' pool are overwritten\ndocument %s", len(out), clip(d.text))
					}
					expect := d.expect
					if expect == wantErrorIfDisallow {
						if opts.DisallowUnknownField {
							expect = wantError
						} else {
							expect = wantOK
						}
					}
					switch {
					case pi != nil:
						classes["panic"] = true
						add("j2p.Do", "panic@"+pi.Site+":"+core.PanicClass(pi.Val), "panic: %s\ndocument %s\n%s", pi.Val, clip(d.text), pi.Stack)
					case cerr != nil:
						classes["error"] = true
						if expect == wantOK {
							add("j2p.Do", "error-on-conforming-document", "%v\ndocument %s", cerr, clip(d.text))
						}
					default:
						classes["converted"] = true
						if expect == wantError {
							got := "output not decodable"
							if m, err := pj.Unmarshal(md, out); err == nil {
								got = string(pj.RenderJSON(m, pj.ROpts{}))
								if len(m.GetUnknown()) > 0 {
									got += fmt.Sprintf(" + unknown fields %x", m.GetUnknown())
								}
							}
							add("j2p.Do", "no-error", "an error is demanded, conversion succeeded; output %x decodes to %s\ndocument %s", out, clip([]byte(got)), clip(d.text))
						} else {
							checkOutput(add, "j2p.Do", out, md, d)
						}
					}
					if !bytes.Equal(in, d.text) {
						add("j2p.Do", "input-modified", "the JSON input buffer was modified")
					}
					// DoInto must behave like Do
					if pi == nil {
						for _, cp := range []int{0, 64} {
							buf := make([]byte, 0, cp)
							in2 := append([]byte{}, d.text...)
							var e2 error
							pi2 := core.Catch(func() { e2 = cv.DoInto(context.Background(), c.In, in2, &buf) })
							if pi2 != nil {
								add("j2p.DoInto", "panic@"+pi2.Site+":"+core.PanicClass(pi2.Val), "panic: %s\n%s", pi2.Val, pi2.Stack)
								break
							}
							if (e2 != nil) != (cerr != nil) {
								add("j2p.DoInto", "error-presence-differs-from-Do", "DoInto err=%v, Do err=%v\ndocument %s", e2, cerr, clip(d.text))
								break
							}
							if e2 == nil && poolpoison.Aliased(buf) {
								add("j2p.DoInto", "result-aliases-pooled-buffer", "the %d bytes DoInto left in the caller's buffer change when the pooled buffers are overwritten\ndocument %s", len(buf), clip(d.text))
							}
							if e2 == nil && !bytes.Equal(buf, out) {
								add("j2p.DoInto", "output-differs-from-Do", "DoInto %x, Do %x\ndocument %s", buf, out, clip(d.text))
								break
							}
						}
					}
					r.Count("conversions", 3)
					for _, v := range viol {
						trig := d.trigger
						if trig == "" {
							trig = jc.focus
						}
						recs = append(recs, rec{di, oi, trig + "\x00" + v.Sig, v.Detail, d.variant, trig})
					}
				}
			}
			// attribute every (trigger, site, outcome) to the simplest (document variant, option set) that shows it
			has := func(di, oi int, key string) bool {
				for _, x := range recs {
					if x.di == di && x.oi == oi && x.key == key {
						return true
					}
				}
				return false
			}
			reported := map[string]bool{}
			for _, x := range recs {
				trig := x.trigger
				own := x.trigger != jc.focus // the document's own feature class: variants are not distinguished further
				switch {
				case own:
					if x.oi != 0 && has(x.di, 0, x.key) {
						continue
					}
					if x.oi != 0 {
						trig += ",opt=" + optName(optSets[x.oi])
					}
				case has(0, 0, x.key):
					if x.di != 0 || x.oi != 0 {
						continue
					}
				case has(x.di, 0, x.key):
					if x.oi != 0 {
						continue
					}
					trig += ",doc=" + x.variant
				case has(0, x.oi, x.key):
					if x.di != 0 {
						continue
					}
					trig += ",opt=" + optName(optSets[x.oi])
				default:
					trig += ",doc=" + x.variant + ",opt=" + optName(optSets[x.oi])
				}
				so := strings.SplitN(x.key, "\x00", 3)
				sig := so[1] + "|" + trig + "|" + so[2]
				if !reported[sig] {
					reported[sig] = true
					r.Viol = append(r.Viol, core.Violation{Sig: sig, Detail: x.detail})
				}
			}
			var cl []string
			for _, k := range []string{"converted", "error", "panic"} {
				if classes[k] {
					cl = append(cl, k)
				}
			}
			r.Class = strings.Join(cl, "+")
			if len(r.Viol) > 0 {
				r.Class += ":violation"
			}
			return r
		},
	}
}

// featureTrigger: documents with one of these syntactic features form trigger classes of their own (the shape of
// the field under test is irrelevant for what the converter does with them).
func featureTrigger(ft pj.DocFeatures) string {
	switch {
	case ft.EmptyMessage:
		return "document:has-empty-message-object"
	case ft.EmptyMap:
		return "document:has-empty-map-object"
	case ft.EmptyList:
		return "document:has-empty-array"
	}
	return ""
}

func checkOutput(add func(site, outcome, format string, a ...interface{}), site string, out []byte, md protoreflect.MessageDescriptor, d doc) {
	got, err := pj.Unmarshal(md, out)
	if err != nil {
		add(site, "output-rejected-by-reference", "reference Unmarshal: %v\noutput %s\ndocument %s", err, hexs(out), clip(d.text))
		return
	}
	if diff := pj.DiffMsg(d.want, got, "$"); diff != "" {
		add(site, "decodes-to-different-message", "%s\noutput %s\ndocument %s", diff, hexs(out), clip(d.text))
	}
}

func hexs(b []byte) string {
	if len(b) > 300 {
		return fmt.Sprintf("%x..(%d bytes)", b[:300], len(b))
	}
	return fmt.Sprintf("%x", b)
}

// ---- groups -----------------------------------------------------------------------------------------

func extraGroups() []string {
	g := []string{"nesting-limit", "null-members", "unknown-members", "mismatch", "spelling", "prefix/packed", "after-failure", "quoted-numbers"}
	for d := 1; d <= 3; d++ {
		for _, b := range []string{"128", "16384"} {
			g = append(g, fmt.Sprintf("prefix/depth%d/%s", d, b))
		}
	}
	return g
}

func (check) Groups(tier string, seed int64) []string {
	return append(pj.ScopeGroups(tier), extraGroups()...)
}

// c09Focus: trigger class of a shared-scope case for this property (the reader-side notion
// "same-number-follows" of C08 is irrelevant here; the value kind class is not).
func c09Focus(cc *pj.ConvCase) string {
	if cc.Ctx == "" || !strings.HasPrefix(cc.Focus, "struct:") {
		return cc.Focus
	}
	// the most specific feature first: what the converter does with an enum value or with a zigzag/fixed map key
	// does not depend on the rest of the shape
	if cc.Shape.K == pj.Enum {
		return "struct:val=enum"
	}
	wc := pj.WireCard(cc.Shape)
	if cc.Shape.Card == "map" {
		wc += "[key=" + pj.KeyClass(cc.Shape.Key) + "]"
		switch pj.KeyClass(cc.Shape.Key) {
		case "zigzag", "fixed":
			return "struct:" + wc
		}
	}
	return "struct:" + wc + ",val=" + pj.ValClass(cc.Shape.K)
}

func (check) Enumerate(tier string, seed int64, gi int, yield func(core.Case) bool) {
	g := check{}.Groups(tier, seed)[gi]
	enumerate(tier, g, func(jc *jcase) bool { return yield(jc.toCase()) })
}

func enumerate(tier, g string, yield func(*jcase) bool) {
	switch {
	case g == "nesting-limit":
		nestingCases(tier, yield)
	case g == "null-members":
		nullCases(yield)
	case g == "unknown-members":
		unknownCases(yield)
	case g == "after-failure":
		afterFailureCases(yield)
	case g == "mismatch":
		mismatchCases(yield)
	case g == "quoted-numbers":
		quotedCases(yield)
	case g == "spelling":
		spellingCases(yield)
	case strings.HasPrefix(g, "prefix/"):
		prefixCases(tier, g, yield)
	default:
		pj.ScopeEnumerate(tier, g, func(cc *pj.ConvCase) bool {
			if cc.NonFin {
				return true // NaN / Infinity have no JSON number form
			}
			jc := &jcase{prog: cc.Prog, what: cc.What, focus: c09Focus(cc), docs: func(c *pj.Compiled) []doc {
				m := cc.Build(c.Ref)
				var ds []doc
				seen := map[string]bool{}
				for _, v := range []struct {
					name string
					o    pj.ROpts
				}{{"", pj.ROpts{}}, {"json-names", pj.ROpts{JSONNames: true}}, {"reverse-order", pj.ROpts{Reverse: true}}, {"explicit-defaults", pj.ROpts{Defaults: true}}} {
					var ft pj.DocFeatures
					v.o.Feat = &ft
					t := pj.RenderJSON(m, v.o)
					if seen[string(t)] {
						continue
					}
					seen[string(t)] = true
					ds = append(ds, doc{variant: v.name, text: t, want: m, expect: wantOK, trigger: featureTrigger(ft)})
				}
				return ds
			}}
			return yield(jc)
		})
	}
}
