package c09

import (
	"fmt"
	"google.golang.org/protobuf/encoding/protojson"
	"strings"

	"google.golang.org/protobuf/reflect/protoreflect"
	"google.golang.org/protobuf/types/dynamicpb"

	"verif/checks/pj"
)

func fld(m protoreflect.Message, name string) protoreflect.FieldDescriptor {
	fd := m.Descriptor().Fields().ByName(protoreflect.Name(name))
	if fd == nil {
		panic("harness: no field " + name + " in " + string(m.Descriptor().FullName()))
	}
	return fd
}

// ---- length-prefix sweeps ------------------------------------------------------------------------------

// L3{string s=4}  Lk{L(k+1) m=1; repeated L(k+1) r=2; map<string,L(k+1)> p=3; string s=4}  T = L0
func prefixProgram() *pj.Program {
	// the link fields are named per level (m1/r1/p1 in T, m2/r2/p2 in L1, ...): equal map field names in different
	// messages would hit the descriptor defect of C15 (shared synthetic entry message) instead of the length logic
	mk := func(name, next string, lvl int) *pj.Msg {
		m := &pj.Msg{Name: name}
		if next != "" {
			m.Fields = append(m.Fields, pj.FM(fmt.Sprintf("m%d", lvl), 1, next), pj.FM(fmt.Sprintf("r%d", lvl), 2, next).Repeated(), pj.FM(fmt.Sprintf("p%d", lvl), 3, next).MapOf(pj.String))
		}
		m.Fields = append(m.Fields, pj.F("s", 4, pj.String))
		return m
	}
	f := &pj.File{Path: "main.proto", Pkg: pj.Pkg, Msgs: []*pj.Msg{mk("L3", "", 4), mk("L2", "L3", 3), mk("L1", "L2", 2), mk("T", "L1", 1)},
		Svcs: []*pj.Service{pj.OneMethodService("T", "T")}}
	return &pj.Program{Name: "prefix-chain", Main: "main.proto", Files: []*pj.File{f}}
}

// buildChain: follow links ('m' message, 'r' repeated message, 'p' map of message); the innermost message gets
// s = n x 'x'. Every ancestor gets s = "after" (a member behind the shifted region); a repeated link gets a
// second, small element and a map link a second, small entry behind the long one.
func buildChain(ref *pj.Ref, via string, n int) protoreflect.Message {
	root := dynamicpb.NewMessage(ref.Msg(pj.Pkg + ".T"))
	cur := protoreflect.Message(root)
	for i := 0; i < len(via); i++ {
		cur.Set(fld(cur, "s"), protoreflect.ValueOfString("after"))
		lv := fmt.Sprint(i + 1)
		switch via[i] {
		case 'm':
			cur = cur.Mutable(fld(cur, "m"+lv)).Message()
		case 'r':
			l := cur.Mutable(fld(cur, "r"+lv)).List()
			e := l.NewElement()
			l.Append(e)
			small := l.NewElement()
			small.Message().Set(fld(small.Message(), "s"), protoreflect.ValueOfString("t"))
			l.Append(small)
			cur = e.Message()
		case 'p':
			mp := cur.Mutable(fld(cur, "p"+lv)).Map()
			v := mp.NewValue()
			mp.Set(protoreflect.ValueOfString("k").MapKey(), v)
			small := mp.NewValue()
			small.Message().Set(fld(small.Message(), "s"), protoreflect.ValueOfString("t"))
			mp.Set(protoreflect.ValueOfString("z").MapKey(), small)
			cur = v.Message()
		}
	}
	cur.Set(fld(cur, "s"), protoreflect.ValueOfString(strings.Repeat("x", n)))
	return root
}

func paths(d int) []string {
	out := []string{""}
	for i := 0; i < d; i++ {
		var nx []string
		for _, p := range out {
			for _, c := range "mrp" {
				nx = append(nx, p+string(c))
			}
		}
		out = nx
	}
	return out
}

func prefixCases(tier, group string, yield func(*jcase) bool) {
	if group == "prefix/packed" {
		packedCases(yield)
		return
	}
	var d int
	var b string
	parts := strings.Split(group, "/")
	fmt.Sscanf(parts[1], "depth%d", &d)
	b = parts[2]
	lo, hi := 100, 135
	if b == "16384" {
		lo, hi = 16340, 16392
	}
	prog := prefixProgram()
	for n := lo; n <= hi; n++ {
		for _, via := range paths(d) {
			n, via := n, via
			jc := &jcase{prog: prog, what: fmt.Sprintf("string of %d bytes inside chain %q (m=message, r=repeated message, p=map of message)", n, via),
				focus: fmt.Sprintf("length-prefix:boundary=%s,depth=%d", b, d),
				docs: func(c *pj.Compiled) []doc {
					m := buildChain(c.Ref, via, n)
					return []doc{{text: pj.RenderJSON(m, pj.ROpts{}), want: m, expect: wantOK}}
				}}
			if !yield(jc) {
				return
			}
		}
	}
}

// packed payloads and bytes around the boundaries, at the root and one level down
func packedCases(yield func(*jcase) bool) {
	sub := &pj.Msg{Name: "Sub", Fields: []*pj.Field{pj.F("pi", 1, pj.Int32).Repeated(), pj.F("pf", 2, pj.Fixed64).Repeated(), pj.F("by", 3, pj.Bytes), pj.F("after", 5, pj.String)}}
	t := &pj.Msg{Name: "T", Fields: []*pj.Field{pj.F("pi", 1, pj.Int32).Repeated(), pj.F("pf", 2, pj.Fixed64).Repeated(), pj.F("by", 3, pj.Bytes), pj.FM("sub", 4, "Sub"), pj.F("after", 5, pj.String)}}
	f := &pj.File{Path: "main.proto", Pkg: pj.Pkg, Msgs: []*pj.Msg{sub, t}, Svcs: []*pj.Service{pj.OneMethodService("T", "T")}}
	prog := &pj.Program{Name: "prefix-packed", Main: "main.proto", Files: []*pj.File{f}}
	type variant struct {
		field string
		n     int
		width int // bytes per element (int32: 1 -> value 5, 2 -> value 300)
	}
	var vs []variant
	for n := 120; n <= 135; n++ {
		vs = append(vs, variant{"pi", n, 1}, variant{"by", n, 1})
	}
	for n := 60; n <= 68; n++ {
		vs = append(vs, variant{"pi", n, 2})
	}
	for _, n := range []int{15, 16, 17, 2047, 2048, 2049} {
		vs = append(vs, variant{"pf", n, 8})
	}
	for n := 16376; n <= 16392; n++ {
		vs = append(vs, variant{"pi", n, 1}, variant{"by", n, 1})
	}
	for _, v := range vs {
		for _, level := range []string{"root", "sub"} {
			v, level := v, level
			b := "128"
			if v.n*v.width > 1000 {
				b = "16384"
			}
			jc := &jcase{prog: prog, what: fmt.Sprintf("%s with %d elements/bytes of width %d at %s", v.field, v.n, v.width, level),
				focus: "length-prefix:packed-or-bytes,boundary=" + b + "," + level,
				docs: func(c *pj.Compiled) []doc {
					root := dynamicpb.NewMessage(c.Ref.Msg(pj.Pkg + ".T"))
					h := protoreflect.Message(root)
					if level == "sub" {
						h = root.Mutable(fld(root, "sub")).Message()
					}
					switch v.field {
					case "pi":
						l := h.Mutable(fld(h, "pi")).List()
						for i := 0; i < v.n; i++ {
							x := int32(1 + i%100)
							if v.width == 2 {
								x = int32(300 + i)
							}
							l.Append(protoreflect.ValueOfInt32(x))
						}
					case "pf":
						l := h.Mutable(fld(h, "pf")).List()
						for i := 0; i < v.n; i++ {
							l.Append(protoreflect.ValueOfUint64(uint64(i) * 0x0101010101))
						}
					case "by":
						bs := make([]byte, v.n)
						for i := range bs {
							bs[i] = byte(i * 7)
						}
						h.Set(fld(h, "by"), protoreflect.ValueOfBytes(bs))
					}
					h.Set(fld(h, "after"), protoreflect.ValueOfString("after"))
					root.Set(fld(root, "after"), protoreflect.ValueOfString("end"))
					return []doc{{text: pj.RenderJSON(root, pj.ROpts{}), want: root, expect: wantOK}}
				}}
			if !yield(jc) {
				return
			}
		}
	}
}

// ---- nesting depth around the converter's 256-entry stack --------------------------------------------------

func nestingCases(tier string, yield func(*jcase) bool) {
	prog := pj.RecProgram()
	type nc struct {
		via   byte
		depth int
	}
	var cs []nc
	for _, d := range []int{100, 200, 250, 253, 254, 255, 256, 257, 300} {
		cs = append(cs, nc{'s', d})
	}
	for _, d := range []int{100, 126, 127, 128, 129} {
		cs = append(cs, nc{'l', d})
	}
	for _, d := range []int{50, 84, 85, 86, 87} {
		cs = append(cs, nc{'m', d})
	}
	for _, x := range cs {
		x := x
		need := x.depth // stack entries below the root: message link 1, list link 2 (array + object), map link 3 (map + pair + object)
		switch x.via {
		case 'l':
			need = 2 * x.depth
		case 'm':
			need = 3 * x.depth
		}
		expect, cls := wantOK, "within-256-entry-stack"
		if need > 255 {
			expect, cls = wantOKOrError, "beyond-256-entry-stack"
		}
		jc := &jcase{prog: prog, what: fmt.Sprintf("chain of %d %c-links (needs %d stack entries)", x.depth, x.via, need),
			focus: fmt.Sprintf("nesting:via=%c,%s", x.via, cls),
			docs: func(c *pj.Compiled) []doc {
				m := pj.BuildRec(c.Ref, strings.Repeat(string(x.via), x.depth))
				return []doc{{text: pj.RenderJSON(m, pj.ROpts{}), want: m, expect: expect}}
			}}
		if !yield(jc) {
			return
		}
	}
}

// ---- null members, unknown members -------------------------------------------------------------------------

// holder fields: a_f int32, b_f string, c_m Inner, d_l repeated int32, e_p map<string,int32>, g_l repeated Inner
// level root: T has them directly; level nested: T{H h_m=1; int32 z_f=2}
func memberProgram(level string) *pj.Program {
	inner := &pj.Msg{Name: "Inner", Fields: []*pj.Field{pj.F("iv", 1, pj.Int32), pj.F("is_x", 2, pj.String)}}
	hf := []*pj.Field{pj.F("a_f", 1, pj.Int32), pj.F("b_f", 2, pj.String), pj.FM("c_m", 3, "Inner"), pj.F("d_l", 4, pj.Int32).Repeated(), pj.F("e_p", 5, pj.Int32).MapOf(pj.String), pj.FM("g_l", 6, "Inner").Repeated()}
	f := &pj.File{Path: "main.proto", Pkg: pj.Pkg, Msgs: []*pj.Msg{inner}, Svcs: []*pj.Service{pj.OneMethodService("T", "T")}}
	if level == "root" {
		f.Msgs = append(f.Msgs, &pj.Msg{Name: "T", Fields: hf})
	} else {
		f.Msgs = append(f.Msgs, &pj.Msg{Name: "H", Fields: hf}, &pj.Msg{Name: "T", Fields: []*pj.Field{pj.FM("h_m", 1, "H"), pj.F("z_f", 2, pj.Int32)}})
	}
	return &pj.Program{Name: "members-" + level, Main: "main.proto", Files: []*pj.File{f}}
}

var holderFields = []struct{ name, class string }{{"a_f", "scalar"}, {"b_f", "scalar"}, {"c_m", "message"}, {"d_l", "list"}, {"e_p", "map"}, {"g_l", "list"}}

// buildHolder populates the holder fields selected by mask (bit i = holderFields[i]) and returns root, holder.
func buildHolder(ref *pj.Ref, level string, mask int) (protoreflect.Message, protoreflect.Message) {
	root := dynamicpb.NewMessage(ref.Msg(pj.Pkg + ".T"))
	h := protoreflect.Message(root)
	if level == "nested" {
		h = root.Mutable(fld(root, "h_m")).Message()
		root.Set(fld(root, "z_f"), protoreflect.ValueOfInt32(9))
	}
	if mask&1 != 0 {
		h.Set(fld(h, "a_f"), protoreflect.ValueOfInt32(11))
	}
	if mask&2 != 0 {
		h.Set(fld(h, "b_f"), protoreflect.ValueOfString("bee"))
	}
	if mask&4 != 0 {
		sub := h.Mutable(fld(h, "c_m")).Message()
		sub.Set(fld(sub, "iv"), protoreflect.ValueOfInt32(12))
	}
	if mask&8 != 0 {
		l := h.Mutable(fld(h, "d_l")).List()
		l.Append(protoreflect.ValueOfInt32(13))
		l.Append(protoreflect.ValueOfInt32(14))
	}
	if mask&16 != 0 {
		h.Mutable(fld(h, "e_p")).Map().Set(protoreflect.ValueOfString("k").MapKey(), protoreflect.ValueOfInt32(15))
	}
	if mask&32 != 0 {
		l := h.Mutable(fld(h, "g_l")).List()
		e := l.NewElement()
		e.Message().Set(fld(e.Message(), "is_x"), protoreflect.ValueOfString("el"))
		l.Append(e)
	}
	return root, h
}

// renderWith renders root; the member list of the holder object gets `extra` inserted at position pos (clamped).
func renderWith(root, holder protoreflect.Message, extra string, pos int) []byte {
	return pj.RenderJSON(root, pj.ROpts{Members: func(m protoreflect.Message, depth int, members []string) []string {
		if m != holder {
			return members
		}
		p := pos
		if p > len(members) {
			p = len(members)
		}
		out := append([]string{}, members[:p]...)
		out = append(out, extra)
		return append(out, members[p:]...)
	}})
}

func nullCases(yield func(*jcase) bool) {
	for _, level := range []string{"root", "nested"} {
		prog := memberProgram(level)
		for fi, hf := range holderFields {
			// other members: none; one scalar before; one scalar after; all others around
			for _, others := range []int{0, 1, 2, 63} {
				mask := others &^ (1 << uint(fi))
				if fi == 0 && others == 1 {
					mask = 2
				}
				if fi == 1 && others == 2 {
					mask = 1
				}
				n := 0
				for b := 0; b < 6; b++ {
					if mask>>uint(b)&1 == 1 {
						n++
					}
				}
				poss := []int{0}
				if n >= 2 {
					poss = append(poss, 1)
				}
				if n >= 1 {
					poss = append(poss, n)
				}
				for _, pos := range poss {
					level, hf, mask, pos := level, hf, mask, pos
					position := "followed-by-member"
					if pos >= n {
						position = "last-member"
					}
					jc := &jcase{prog: prog, what: fmt.Sprintf("null member %s at position %d of the %s holder, other members mask %06b", hf.name, pos, level, mask),
						focus: fmt.Sprintf("null-member:%s", position),
						docs: func(c *pj.Compiled) []doc {
							root, h := buildHolder(c.Ref, level, mask)
							var ds []doc
							for _, byJSON := range []bool{false, true} {
								key := hf.name
								v := ""
								if byJSON {
									key = fld(h, hf.name).JSONName()
									v = "json-names"
								}
								text := renderWith(root, h, pj.QuoteJSON(key)+":null", pos)
								ds = append(ds, doc{variant: v, text: text, want: root, expect: wantOK})
							}
							return ds
						}}
					if !yield(jc) {
						return
					}
				}
			}
		}
	}
}

var unknownValues = []struct{ kind, text string }{
	{"number", "5"}, {"number", "-1.5e3"}, {"string", `"str"`}, {"bool", "true"}, {"null", "null"},
	{"object", "{}"}, {"object", `{"a_f":1,"x":{"y":[1,2,{"z":null}]},"b_f":"no"}`},
	{"array", "[]"}, {"array", `[1,"a",{"a_f":2},[3,[4]],null,true]`},
}

func unknownCases(yield func(*jcase) bool) {
	for _, level := range []string{"root", "nested"} {
		prog := memberProgram(level)
		for _, uv := range unknownValues {
			for _, mask := range []int{0, 1, 3, 63, 4, 8, 16} {
				for _, pos := range []int{0, 1, 99} {
					level, uv, mask, pos := level, uv, mask, pos
					n := 0
					for b := 0; b < 6; b++ {
						if mask>>uint(b)&1 == 1 {
							n++
						}
					}
					if (pos == 1 && n < 2) || (pos == 99 && n == 0) {
						continue
					}
					position := "followed-by-member"
					if pos >= n {
						position = "last-member"
					}
					for _, key := range []string{"zz_unknown", "a_", "a_ff"} {
						key := key
						if key != "zz_unknown" && !(mask == 3 && uv.text == "5") {
							continue // near-miss keys only once per position
						}
						jc := &jcase{prog: prog, what: fmt.Sprintf("unknown member %q:%s at position %d of the %s holder, other members mask %06b", key, uv.text, pos, level, mask),
							focus: map[bool]string{true: "unknown-member:only-member-of-its-object," + level, false: fmt.Sprintf("unknown-member:json=%s,%s,%s", uv.kind, level, position)}[n == 0],
							docs: func(c *pj.Compiled) []doc {
								root, h := buildHolder(c.Ref, level, mask)
								return []doc{{text: renderWith(root, h, pj.QuoteJSON(key)+":"+uv.text, pos), want: root, expect: wantErrorIfDisallow}}
							}}
						if !yield(jc) {
							return
						}
					}
				}
			}
		}
	}
}

// ---- kind mismatch table -------------------------------------------------------------------------------------

func mismatchProgram() *pj.Program {
	inner := &pj.Msg{Name: "Inner", Fields: []*pj.Field{pj.F("iv", 1, pj.Int32), pj.F("is_x", 2, pj.String)}}
	t := &pj.Msg{Name: "T", Fields: []*pj.Field{
		pj.F("i32", 1, pj.Int32), pj.F("u64", 2, pj.Uint64), pj.F("s64", 3, pj.Sint64), pj.F("fx", 4, pj.Fixed32), pj.F("f32", 5, pj.Float), pj.F("f64", 6, pj.Double),
		pj.F("bo", 7, pj.Bool), pj.F("st", 8, pj.String), pj.F("by", 9, pj.Bytes), pj.FE("en", 10, "E"), pj.FM("ms", 11, "Inner"),
		pj.F("li", 12, pj.Int32).Repeated(), pj.F("ls", 13, pj.String).Repeated(), pj.FM("lm", 14, "Inner").Repeated(),
		pj.F("mp", 15, pj.Int32).MapOf(pj.String), pj.FM("mm", 16, "Inner").MapOf(pj.String), pj.F("ld", 17, pj.Double).Repeated(), pj.F("lf", 18, pj.Float).Repeated(), pj.F("ok_f", 20, pj.Int32)}}
	f := &pj.File{Path: "main.proto", Pkg: pj.Pkg, Enums: []*pj.EnumDecl{pj.EnumE}, Msgs: []*pj.Msg{inner, t}, Svcs: []*pj.Service{pj.OneMethodService("T", "T")}}
	return &pj.Program{Name: "mismatch", Main: "main.proto", Files: []*pj.File{f}}
}

type mmField struct{ name, class, detail string }

var mmFields = []mmField{
	{"i32", "number", "int32"}, {"u64", "number", "uint64"}, {"s64", "number", "sint64"}, {"fx", "number", "fixed32"}, {"f32", "number", "float"}, {"f64", "number", "double"},
	{"bo", "bool", "bool"}, {"st", "string", "string"}, {"by", "bytes", "bytes"}, {"en", "enum", "enum"}, {"ms", "message", "message"},
	{"li", "list", "list-of-int32"}, {"ls", "list", "list-of-string"}, {"lm", "list", "list-of-message"}, {"mp", "map", "map-of-int32"}, {"mm", "map", "map-of-message"},
	{"ld", "list", "list-of-double"}, {"lf", "list", "list-of-float"},
}

var mmValues = []struct{ kind, text string }{
	{"bool", "true"}, {"number", "5"}, {"number", "1.5"}, {"string", `"str"`}, {"object", "{}"}, {"object", `{"iv":1}`},
	// strings that are well-formed base64 (the empty one; one that decodes to the encoding of a message {1: 42})
	{"string", `""`}, {"string", `"CCo="`}, {"string", `"AAAA"`},
	{"array", "[]"}, {"array", "[1]"}, {"array", `["a"]`}, {"array", "[{}]"},
}

// mismatching: is `value` an unambiguous kind mismatch for the field?
func mismatching(f mmField, kind, text string) bool {
	if text == "1.5" && (f.class == "number" || f.class == "enum") {
		return false // a fractional literal for an integer field is not counted as a KIND mismatch
	}
	switch f.class {
	case "number":
		return kind != "number"
	case "bool":
		return kind != "bool"
	case "string":
		return kind != "string"
	case "bytes":
		return kind != "string" // any string is the right kind (base64 validity is another matter)
	case "enum":
		return kind != "number" // "str" is not a value name of E
	case "message":
		return kind != "object"
	case "list":
		if kind != "array" {
			return true
		}
		switch text {
		case "[]":
			return false
		case "[1]":
			return f.detail != "list-of-int32" && f.detail != "list-of-double" && f.detail != "list-of-float"
		case `["a"]`:
			return f.detail != "list-of-string"
		case "[{}]":
			return f.detail != "list-of-message"
		}
	case "map":
		if kind != "object" {
			return true
		}
		return text == `{"iv":1}` && f.detail == "map-of-message" // a number where the map value is a message
	}
	return false
}

func mismatchCases(yield func(*jcase) bool) {
	prog := mismatchProgram()
	for _, f := range mmFields {
		for _, v := range mmValues {
			if !mismatching(f, v.kind, v.text) {
				continue
			}
			if f.class == "string" && v.kind == "string" {
				continue
			}
			f, v := f, v
			jc := &jcase{prog: prog, what: fmt.Sprintf("member %s (%s) given JSON %s %s", f.name, f.detail, v.kind, v.text),
				focus: fmt.Sprintf("mismatch:json=%s,field=%s", v.kind, map[string]string{"number": "scalar", "bool": "scalar", "string": "scalar", "bytes": "scalar", "enum": "scalar"}[f.class]+map[string]string{"message": "message", "list": "list", "map": "map"}[f.class]),
				docs: func(c *pj.Compiled) []doc {
					empty := dynamicpb.NewMessage(c.Ref.Msg(pj.Pkg + ".T"))
					return []doc{
						{text: []byte(fmt.Sprintf(`{"%s":%s}`, f.name, v.text)), want: empty, expect: wantError},
						{variant: "followed-by-valid-member", text: []byte(fmt.Sprintf(`{"%s":%s,"ok_f":7}`, f.name, v.text)), want: empty, expect: wantError},
						{variant: "after-valid-member", text: []byte(fmt.Sprintf(`{"ok_f":7,"%s":%s}`, f.name, v.text)), want: empty, expect: wantError},
					}
				}}
			if !yield(jc) {
				return
			}
		}
	}
}

// ---- quoted numbers ---------------------------------------------------------------------------------------------
//
// The JSON mapping of proto3 spells 64-bit integers as decimal STRINGS and accepts that spelling for every numeric
// kind. A converter may refuse it (an error is no silent corruption) - but if it converts, the message must be the
// denoted one: singular members, list elements (packed!) and map values.

func quotedProgram() *pj.Program {
	t := &pj.Msg{Name: "T", Fields: []*pj.Field{pj.F("one", 1, pj.Int64), pj.F("n32", 2, pj.Int32), pj.F("after", 3, pj.String),
		pj.F("ids", 4, pj.Int64).Repeated(), pj.F("deltas", 5, pj.Sint64).Repeated(), pj.F("uids", 6, pj.Uint64).Repeated(),
		pj.F("hashes", 7, pj.Fixed64).Repeated(), pj.F("offsets", 8, pj.Sfixed64).Repeated(), pj.F("m", 9, pj.Int64).MapOf(pj.String), pj.F("d", 10, pj.Double).Repeated()}}
	f := &pj.File{Path: "main.proto", Pkg: pj.Pkg, Msgs: []*pj.Msg{t}, Svcs: []*pj.Service{pj.OneMethodService("T", "T")}}
	return &pj.Program{Name: "quoted-numbers", Main: "main.proto", Files: []*pj.File{f}}
}

func quotedCases(yield func(*jcase) bool) {
	prog := quotedProgram()
	type qd struct {
		what, text string
		fill     func(m protoreflect.Message)
	}
	list := func(name string, vals ...protoreflect.Value) func(m protoreflect.Message) {
		return func(m protoreflect.Message) {
			l := m.Mutable(m.Descriptor().Fields().ByName(protoreflect.Name(name))).List()
			for _, v := range vals {
				l.Append(v)
			}
		}
	}
	i64, u64 := protoreflect.ValueOfInt64, protoreflect.ValueOfUint64
	docs := []qd{
		{"singular int64", `{"one":"9007199254740993","after":"x"}`, func(m protoreflect.Message) {
			m.Set(m.Descriptor().Fields().ByName("one"), i64(9007199254740993))
			m.Set(m.Descriptor().Fields().ByName("after"), protoreflect.ValueOfString("x"))
		}},
		{"singular int32", `{"n32":"-7"}`, func(m protoreflect.Message) { m.Set(m.Descriptor().Fields().ByName("n32"), protoreflect.ValueOfInt32(-7)) }},
		{"list of int64", `{"ids":["1","2","3"]}`, list("ids", i64(1), i64(2), i64(3))},
		{"list of int64, mixed spellings", `{"ids":[1,"2",3],"after":"x"}`, func(m protoreflect.Message) {
			list("ids", i64(1), i64(2), i64(3))(m)
			m.Set(m.Descriptor().Fields().ByName("after"), protoreflect.ValueOfString("x"))
		}},
		{"list of sint64", `{"deltas":["-1","300"]}`, list("deltas", i64(-1), i64(300))},
		{"list of uint64", `{"uids":["18446744073709551615","0"]}`, list("uids", u64(18446744073709551615), u64(0))},
		{"list of fixed64", `{"hashes":["4","5"]}`, list("hashes", u64(4), u64(5))},
		{"list of sfixed64", `{"offsets":["-4","5"]}`, list("offsets", i64(-4), i64(5))},
		{"list of double", `{"d":["1.5","-2"]}`, list("d", protoreflect.ValueOfFloat64(1.5), protoreflect.ValueOfFloat64(-2))},
		{"map value int64", `{"m":{"k":"-9"}}`, func(m protoreflect.Message) {
			m.Mutable(m.Descriptor().Fields().ByName("m")).Map().Set(protoreflect.ValueOfString("k").MapKey(), i64(-9))
		}},
	}
	for _, q := range docs {
		q := q
		jc := &jcase{prog: prog, what: "numbers spelled as JSON strings: " + q.what, focus: "quoted-number:" + strings.Fields(q.what)[0],
			docs: func(c *pj.Compiled) []doc {
				want := dynamicpb.NewMessage(c.Ref.Msg(pj.Pkg + ".T"))
				q.fill(want)
				return []doc{{text: []byte(q.text), want: want, expect: wantOKOrError}}
			}}
		if !yield(jc) {
			return
		}
	}
}

// ---- spellings --------------------------------------------------------------------------------------------------

func spellingProgram() *pj.Program {
	inner := &pj.Msg{Name: "Inner", Fields: []*pj.Field{pj.F("iv", 1, pj.Int32), pj.F("is_x", 2, pj.String)}}
	t := &pj.Msg{Name: "T", Fields: []*pj.Field{pj.F("a_f", 1, pj.Int32), pj.F("b_f", 2, pj.String), pj.FM("c_m", 3, "Inner"), pj.F("d_l", 4, pj.Int32).Repeated(),
		pj.F("e_p", 5, pj.Int32).MapOf(pj.String), pj.F("f_d", 7, pj.Double), pj.F("g_s", 8, pj.String).Repeated()}}
	f := &pj.File{Path: "main.proto", Pkg: pj.Pkg, Msgs: []*pj.Msg{inner, t}, Svcs: []*pj.Service{pj.OneMethodService("T", "T")}}
	return &pj.Program{Name: "spelling", Main: "main.proto", Files: []*pj.File{f}}
}

const spellStr = "bé😀/\"\\\n x"

func spellingMessage(ref *pj.Ref, fd float64) protoreflect.Message {
	m := dynamicpb.NewMessage(ref.Msg(pj.Pkg + ".T"))
	m.Set(fld(m, "a_f"), protoreflect.ValueOfInt32(-11))
	m.Set(fld(m, "b_f"), protoreflect.ValueOfString(spellStr))
	sub := m.Mutable(fld(m, "c_m")).Message()
	sub.Set(fld(sub, "iv"), protoreflect.ValueOfInt32(12))
	sub.Set(fld(sub, "is_x"), protoreflect.ValueOfString("q"))
	l := m.Mutable(fld(m, "d_l")).List()
	l.Append(protoreflect.ValueOfInt32(13))
	l.Append(protoreflect.ValueOfInt32(14))
	m.Mutable(fld(m, "e_p")).Map().Set(protoreflect.ValueOfString(spellStr).MapKey(), protoreflect.ValueOfInt32(15))
	m.Set(fld(m, "f_d"), protoreflect.ValueOfFloat64(fd))
	gl := m.Mutable(fld(m, "g_s")).List()
	gl.Append(protoreflect.ValueOfString(""))
	gl.Append(protoreflect.ValueOfString(spellStr))
	return m
}

// escapeAll spells every character of s as \uXXXX (surrogate pairs above the BMP).
func escapeAll(s string) string {
	var sb strings.Builder
	sb.WriteByte('"')
	for _, r := range s {
		if r > 0xffff {
			r -= 0x10000
			fmt.Fprintf(&sb, `\u%04x\u%04x`, 0xd800+(r>>10), 0xdc00+(r&0x3ff))
		} else {
			fmt.Fprintf(&sb, `\u%04X`, r)
		}
	}
	sb.WriteByte('"')
	return sb.String()
}

// shortEscapes uses the two-character escapes where JSON has them, incl. \/ .
func shortEscapes(s string) string {
	r := strings.NewReplacer(`\`, `\\`, `"`, `\"`, "\n", `\n`, "/", `\/`)
	return `"` + r.Replace(s) + `"`
}

func spellingCases(yield func(*jcase) bool) {
	prog := spellingProgram()
	// tokens of the base document; strings spelled by q
	tokens := func(q func(string) string, num string) []string {
		return []string{"{", q("a_f"), ":", "-11", ",", q("b_f"), ":", q(spellStr), ",", q("c_m"), ":", "{", q("iv"), ":", "12", ",", q("is_x"), ":", q("q"), "}", ",",
			q("d_l"), ":", "[", "13", ",", "14", "]", ",", q("e_p"), ":", "{", q(spellStr), ":", "15", "}", ",", q("f_d"), ":", num, ",", q("g_s"), ":", "[", q(""), ",", q(spellStr), "]", "}"}
	}
	mkcase := func(what, class string, text string, fd float64) *jcase {
		return &jcase{prog: prog, what: what, focus: "spelling:" + class, docs: func(c *pj.Compiled) []doc {
			return []doc{{text: []byte(text), want: spellingMessage(c.Ref, fd), expect: wantOK}}
		}}
	}
	base := tokens(pj.QuoteJSON, "1.5")
	if !yield(mkcase("compact base document", "compact", strings.Join(base, ""), 1.5)) {
		return
	}
	// whitespace at every single token gap, and at all gaps
	for _, ws := range []string{" ", "\n", "\t", "\r\n  "} {
		for gap := 0; gap <= len(base); gap++ {
			var sb strings.Builder
			for i, t := range base {
				if i == gap {
					sb.WriteString(ws)
				}
				sb.WriteString(t)
			}
			if gap == len(base) {
				sb.WriteString(ws)
			}
			if !yield(mkcase(fmt.Sprintf("whitespace %q at token gap %d", ws, gap), "whitespace", sb.String(), 1.5)) {
				return
			}
		}
		if !yield(mkcase(fmt.Sprintf("whitespace %q at every token gap", ws), "whitespace", ws+strings.Join(base, ws)+ws, 1.5)) {
			return
		}
	}
	// string spellings (values, member names, map keys)
	if !yield(mkcase("every character of every string as \\uXXXX (member names, map keys, values)", "unicode-escapes", strings.Join(tokens(escapeAll, "1.5"), ""), 1.5)) {
		return
	}
	if !yield(mkcase("two-character escapes incl. \\/", "short-escapes", strings.Join(tokens(shortEscapes, "1.5"), ""), 1.5)) {
		return
	}
	// number spellings of a double member
	for _, ns := range []struct {
		lit string
		v   float64
	}{{"1", 1}, {"1.0", 1}, {"1e0", 1}, {"10E-1", 1}, {"0.1e1", 1}, {"1E+0", 1}, {"-0", 0}, {"-0.0", 0}, {"0", 0}, {"-1e-7", -1e-7}, {"123456789012345678901234567890", 123456789012345678901234567890}, {"9223372036854775808", 9223372036854775808}, {"1e308", 1e308}, {"4.9e-324", 5e-324},
		// integer literals within int64 (delivered to the converter as integers) that need more than 24 / 53 bits
		{"16777217", 16777217}, {"4294967297", 4294967297}, {"9007199254740993", 9007199254740992}, {"-9007199254740993", -9007199254740992}, {"999999999999999999", 1e18}, {"-9223372036854775808", -9223372036854775808}} {
		if !yield(mkcase("double member spelled "+ns.lit, "double-literal", strings.Join(tokens(pj.QuoteJSON, ns.lit), ""), ns.v)) {
			return
		}
	}
}

// ---- a conforming document converted right after a failing one -------------------------------------------------
//
// The statement holds for every conforming document whatever was converted before it. The converter keeps a
// pooled visitor (stack, pending field, skip flag): every failing document of the menu (failure at depth 0..2,
// with a member pending / inside a list / inside a map / while skipping an unknown member / by truncation at
// every such place) is followed by every conforming document of a second menu, same converter, same process.

var failingDocs = []string{
	`{"ms":1}`, `{"i32":"x"}`, `{"li":5}`, `{"mp":5}`, `{"lm":[1]}`, `{"mm":{"k":1}}`, `{"st":1}`, `{"en":"NOPE"}`,
	`{"ms":{"iv":"x"}}`, `{"lm":[{"iv":1},{"iv":"x"}]}`, `{"mm":{"k":{"iv":"x"}}}`, `{"mp":{"k":"x"}}`, `{"li":[1,"x"]}`,
	`{"ms":`, `{"zzz":`, `{"i32"`, `{`, `{"ms":{"iv":`, `{"ms":{`, `{"lm":[{"iv":1},`, `{"lm":[`, `{"mp":{"k":`, `{"mp":{`, `{"li":[1,`,
	`{"zzz":{"a":[1,{"b":`, `{"zzz":[`, `{"ok_f":7,"zzz":{"ms":`, `{"ms":{"zzz":`, `{"ms":{"zzz":{"q":1},"iv":"x"}}`,
	`{"ok_f":7,"ms":1}`, `{"ms":{"iv":1},"i32":"x"}`, `{"by":"@@@"}`, `[`, `"x"`, `{"ms":[]}`, `{"lm":{}}`,
}

var followingDocs = []string{
	`{}`, `{"ok_f":7}`, `{"ms":{"iv":1}}`, `{"ms":{}}`, `{"li":[1,2]}`, `{"mp":{"a":1}}`, `{"lm":[{"iv":1},{"is_x":"s"}]}`,
	`{"st":"x","mm":{"k":{"iv":2}}}`, `{"i32":-1,"u64":18446744073709551615,"bo":true,"en":1,"by":"AQI="}`,
}

func afterFailureCases(yield func(*jcase) bool) {
	prog := mismatchProgram()
	for _, f := range failingDocs {
		f := f
		jc := &jcase{prog: prog, what: fmt.Sprintf("conforming documents converted right after the failing document %s", f), focus: "after-failure",
			docs: func(c *pj.Compiled) []doc {
				var ds []doc
				for _, v := range followingDocs {
					want := dynamicpb.NewMessage(c.Ref.Msg(pj.Pkg + ".T"))
					if err := (protojson.UnmarshalOptions{DiscardUnknown: true}).Unmarshal([]byte(v), want); err != nil {
						panic("harness: reference JSON parser rejects a following document: " + err.Error())
					}
					ds = append(ds, doc{variant: "then " + v, text: []byte(v), want: want, expect: wantOK, prime: []byte(f)})
				}
				return ds
			}}
		if !yield(jc) {
			return
		}
	}
}
