package c02

import (
	"bytes"
	"context"
	"encoding/json"
	"fmt"
	"strings"

	"github.com/cloudwego/dynamicgo/conv"
	"github.com/cloudwego/dynamicgo/meta"
	"github.com/cloudwego/dynamicgo/thrift"
	"github.com/cloudwego/dynamicgo/thrift/base"

	"verif/checks/jt"
	"verif/ref/tbin"
)

func groups(tier string) []group {
	var gs []group
	for _, s := range tbin.Scalars() {
		s := s
		gs = append(gs, group{"scalar/" + s.String(), func(tier string, y func(*scen) bool) { enumScalar(tier, s, y) }})
	}
	shapes := shapeAlphabet(tier)
	const chunk = 10
	for i := 0; i < len(shapes); i += chunk {
		j := i + chunk
		if j > len(shapes) {
			j = len(shapes)
		}
		sub := shapes[i:j]
		gs = append(gs, group{fmt.Sprintf("shape/%d-%d", i, j), func(tier string, y func(*scen) bool) { enumShapes(tier, sub, y) }})
	}
	for perm := 0; perm < 6; perm++ {
		perm := perm
		gs = append(gs, group{fmt.Sprintf("members/perm%d", perm), func(tier string, y func(*scen) bool) { enumMembers(tier, perm, y) }})
	}
	gs = append(gs, group{"keys", enumKeys})
	gs = append(gs, group{"keys-lowbytes", enumKeysLow})
	for _, sc := range tbin.Scalars() {
		sc := sc
		gs = append(gs, group{"typedef/" + sc.String(), func(tier string, yield func(*scen) bool) { enumScalarTD(tier, sc, true, yield) }})
	}
	gs = append(gs, group{"includes", enumIncludes})
	gs = append(gs, group{"sibling-containers", enumSiblingContainers})
	gs = append(gs, group{"leaves/0", func(tier string, y func(*scen) bool) { enumLeaves(tier, 0, y) }})
	gs = append(gs, group{"leaves/1", func(tier string, y func(*scen) bool) { enumLeaves(tier, 1, y) }})
	for m := 0; m < 32; m += 4 {
		m := m
		gs = append(gs, group{fmt.Sprintf("options/%d-%d", m, m+4), func(tier string, y func(*scen) bool) { enumOptions(tier, m, m+4, y) }})
	}
	gs = append(gs, group{"malformed/tokens", enumMalformedTokens})
	gs = append(gs, group{"malformed/kinds", enumKinds})
	gs = append(gs, group{"after-failure", enumAfterFailure})
	gs = append(gs, group{"expansion", enumExpansion})
	gs = append(gs, group{"cache/keys", enumCacheKeys})
	gs = append(gs, group{"cache/keys-required", enumCacheKeysRequired})
	gs = append(gs, group{"cache/keys-seeded", enumCacheKeysSeeded})
	gs = append(gs, group{"cache/reqs", enumCacheReqs})
	gs = append(gs, group{"cache/reqs-seeded", enumCacheReqsSeeded})
	gs = append(gs, group{"cache/wide", enumWide})
	gs = append(gs, group{"depth", enumDepth})
	for i := 0; i < 4; i++ {
		i := i
		gs = append(gs, group{fmt.Sprintf("bufsweep/%d", i), func(tier string, y func(*scen) bool) { enumBufSweep(tier, i, 4, y) }})
	}
	return gs
}

// ---------------------------------------------------------------------------------------------
// scalars: value alphabet x position x number form / escape form

type position struct {
	name string
	prog *jt.Prog
	// place builds the root value holding w, nil if the position does not apply
	place func(w *tbin.Val) *tbin.Val
}

func neighbour(s *tbin.Shape) *tbin.Val {
	g := &tbin.Gen{}
	return g.Build(s, 1)
}

func positions(s *tbin.Shape) []position {
	var ps []position
	f := tbin.StructS(tbin.SF(1, s))
	ps = append(ps, position{"field", jt.Plain(f), func(w *tbin.Val) *tbin.Val { return tbin.Struct(tbin.F(1, w)) }})
	l := tbin.StructS(tbin.SF(1, tbin.ListS(s)))
	ps = append(ps, position{"list", jt.Plain(l), func(w *tbin.Val) *tbin.Val {
		return tbin.Struct(tbin.F(1, tbin.List(s.T, neighbour(s), w, neighbour(s))))
	}})
	st := tbin.StructS(tbin.SF(1, tbin.SetS(s)))
	ps = append(ps, position{"set", jt.Plain(st), func(w *tbin.Val) *tbin.Val { return tbin.Struct(tbin.F(1, tbin.Set(s.T, w))) }})
	mv := tbin.StructS(tbin.SF(1, tbin.MapS(tbin.Sc(tbin.STRING), s)))
	ps = append(ps, position{"mapval", jt.Plain(mv), func(w *tbin.Val) *tbin.Val {
		return tbin.Struct(tbin.F(1, tbin.Map(tbin.STRING, s.T, tbin.Str("k1"), w, tbin.Str("k2"), neighbour(s))))
	}})
	if s.T != tbin.BOOL && !s.Binary {
		mk := tbin.StructS(tbin.SF(1, tbin.MapS(s, tbin.Sc(tbin.I32))))
		ps = append(ps, position{"mapkey", jt.Plain(mk), func(w *tbin.Val) *tbin.Val {
			return tbin.Struct(tbin.F(1, tbin.Map(s.T, tbin.I32, w, tbin.I32v(7))))
		}})
	}
	ps = append(ps, position{"top", jt.Plain(s), func(w *tbin.Val) *tbin.Val { return w }})
	return ps
}

func isNum(t tbin.Type) bool {
	return t == tbin.BYTE || t == tbin.I16 || t == tbin.I32 || t == tbin.I64 || t == tbin.DOUBLE
}

func enumScalar(tier string, s *tbin.Shape, yield func(*scen) bool) {
	enumScalarTD(tier, s, false, yield)
}

// enumScalarTD: typedef=true declares every scalar through a typedef alias and uses a reduced value alphabet.
func enumScalarTD(tier string, s *tbin.Shape, typedef bool, yield func(*scen) bool) {
	vals := jt.ScalarVals(s, true)
	if typedef && len(vals) > 6 {
		vals = vals[:6]
	}
	if s.T == tbin.DOUBLE {
		// a very long decimal spelling: the exact expansion of the smallest subnormal and of a 17-digit value
		vals = append(vals, tbin.Double(4.9406564584124654e-324))
	}
	for _, pos := range positions(s) {
		if typedef {
			pos.prog.Typedef = true // same positions and signatures: a typedef must not change anything
		}
		for _, w := range vals {
			root := pos.place(w)
			forms := 1
			if isNum(s.T) {
				forms = jt.NumForms
			}
			for f := 0; f < forms; f++ {
				if pos.name == "mapkey" && f > 0 {
					continue // map keys have one documented spelling (decimal / shortest)
				}
				j, ok := pos.prog.Doc(root, pos.prog.Root, jt.DocOpt{NumForm: f})
				if !ok {
					continue
				}
				var spells []jt.Spell
				if s.T == tbin.STRING && !s.Binary {
					for esc := 0; esc < 5; esc++ {
						spells = append(spells, jt.Spell{WS: 0, Esc: esc})
					}
					spells = append(spells, jt.Spell{WS: 2, Esc: 1})
				} else if s.Binary {
					spells = []jt.Spell{{WS: 0}, {WS: 1}, {Esc: 1}, {Esc: 2}, {Esc: 3}}
				} else {
					spells = []jt.Spell{{WS: 0}, {WS: 1}}
				}
				for _, sp := range spells {
					if pos.name == "top" && s.T == tbin.STRING && sp.WS != 0 {
						continue // a top-level STRING descriptor takes a body not starting with '"' as unquoted text (documented special case)
					}
					cls := s.String()
					if s.T == tbin.STRING && !s.Binary {
						cls = "string:" + strClass(w.S)
					}
					spc := fmt.Sprintf("num%d", f)
					if s.T == tbin.STRING {
						spc = "plain"
						if !bytes.Equal(jt.Render(j, sp), jt.Render(j, jt.Spell{WS: sp.WS})) {
							spc = "escaped"
						}
					}
					sc := &scen{op: "scalar", trigger: fmt.Sprintf("%s@%s/%s", cls, pos.name, spc), prog: pos.prog, optName: "none", note: sp.String(),
						doc: jt.Render(j, sp), want: tbin.Bytes(root), ks: ksFor(tier, true)}
					if !yield(sc) {
						return
					}
					if pos.name == "top" && s.T == tbin.STRING && !(s.Binary && sp.Esc != 0) {
						// (escaped spellings of base64 text are a listed finding at every position: not multiplied here)
						// blanks BEHIND a top-level string literal (in front of it they would make it unquoted text)
						for _, tail := range []string{" ", "\n", "\r\n\t "} {
							tc := *sc
							tc.trigger += "/trailing-blanks"
							tc.note = sp.String() + fmt.Sprintf(" + trailing %q", tail)
							tc.doc = append(append([]byte{}, sc.doc...), tail...)
							if !yield(&tc) {
								return
							}
						}
					}
				}
			}
		}
	}
}

func strClass(b []byte) string {
	for _, c := range jt.Strings(true) {
		if bytes.Equal(c.S, b) {
			return c.Class
		}
	}
	return "other"
}

// ---------------------------------------------------------------------------------------------
// shapes

func jsonable(s *tbin.Shape) bool {
	return !jt.HasKeyType(s, func(k *tbin.Shape) bool {
		return k.T == tbin.STRUCT || k.T == tbin.LIST || k.T == tbin.SET || k.T == tbin.MAP || k.T == tbin.BOOL || k.Binary
	})
}

func shapeAlphabet(tier string) []*tbin.Shape {
	var all []*tbin.Shape
	all = append(all, tbin.T1()...)
	all = append(all, tbin.T2()...)
	if tier == "thorough" {
		all = append(all, tbin.T3Small()...)
	}
	var out []*tbin.Shape
	for _, s := range all {
		if jsonable(s) {
			out = append(out, s)
		}
	}
	return out
}

func shapeClass(s *tbin.Shape) string {
	c := s.T.String()
	switch s.T {
	case tbin.LIST, tbin.SET:
		c += "<" + s.Elem.T.String() + ">"
	case tbin.MAP:
		c += "<" + s.Key.T.String() + "," + s.Elem.T.String() + ">"
	}
	return c
}

func enumShapes(tier string, shapes []*tbin.Shape, yield func(*scen) bool) {
	for _, s := range shapes {
		for _, wrap := range []bool{true, false} {
			root := s
			if wrap {
				root = tbin.StructS(tbin.SF(1, s))
			}
			prog := jt.Plain(root)
			for n := 0; n <= 5; n++ {
				if n > 1 && s.Depth() == 0 {
					continue
				}
				if n > 3 && !tbin.HasStructInContainer(s) {
					continue
				}
				g := &tbin.Gen{}
				v := g.Build(root, min(n, 3))
				if n > 3 {
					// n = 4 / 5: three elements, the later ones lack the first / last field of their structs
					tbin.DropInLater(v, n == 4)
				}
				type variant struct {
					o  jt.DocOpt
					sp jt.Spell
					ks []int
				}
				vs := []variant{{jt.DocOpt{}, jt.Spell{}, ksFor(tier, false)}}
				for ws := 1; ws < 4; ws++ {
					vs = append(vs, variant{jt.DocOpt{}, jt.Spell{WS: ws}, ksFor(tier, true)})
				}
				vs = append(vs, variant{jt.DocOpt{}, jt.Spell{Esc: 2}, ksFor(tier, true)}, variant{jt.DocOpt{}, jt.Spell{WS: 2, Esc: 1}, ksFor(tier, true)})
				for f := 1; f < jt.NumForms; f++ {
					vs = append(vs, variant{jt.DocOpt{NumForm: f}, jt.Spell{}, ksFor(tier, true)})
				}
				if tier == "thorough" {
					for _, sp := range jt.AllSpells() {
						if sp.Esc >= 3 || (sp.WS == 3 && sp.Esc > 0) {
							vs = append(vs, variant{jt.DocOpt{}, sp, []int{0, 1, 2, 3}})
						}
					}
				}
				for _, va := range vs {
					if va.sp.Esc != 0 && hasBinary(s) {
						continue // base64 text in escaped spelling is the scalar/binary family's business (known finding there)
					}
					j, ok := prog.Doc(v, root, va.o)
					if !ok {
						continue
					}
					w := "top"
					if wrap {
						w = "field"
					}
					sc := &scen{op: "shape", trigger: fmt.Sprintf("%s@%s/num%d", shapeClass(s), w, va.o.NumForm), note: fmt.Sprintf("n=%d %s", n, va.sp), prog: prog, optName: "none",
						doc: jt.Render(j, va.sp), want: tbin.Bytes(v), ks: va.ks}
					// small native caches on every shape: compact spelling (quick: size 2 only), every spelling in thorough
					if (va.sp == jt.Spell{} && va.o.NumForm == 0 && (n == 2 || tier == "thorough")) || (tier == "thorough" && va.sp.Esc == 2) {
						sc.seeds = [][3]int{{8, 2, -1}, {1, 1, 0}, {16, -1, -1}}
					}
					if !yield(sc) {
						return
					}
				}
			}
		}
	}
}

func min(a, b int) int {
	if a < b {
		return a
	}
	return b
}

// ---------------------------------------------------------------------------------------------
// member order, null members, unknown members

var perms3 = [6][3]int{{0, 1, 2}, {0, 2, 1}, {1, 0, 2}, {1, 2, 0}, {2, 0, 1}, {2, 1, 0}}

type unk struct {
	name string
	key  string
	v    *jt.J
}

func unknowns() []unk {
	deep := jt.JObj().Add("q", jt.JArr(jt.JNum("1"), jt.JObj().Add("r", jt.JNull()), jt.JStr([]byte("}]\"\\")))).Add("a", jt.JNum("-1.5e3"))
	return []unk{
		{"number", "zz", jt.JNum("12")},
		{"string", "zz", jt.JStr([]byte("a\"}b\\"))},
		{"bool", "zz", jt.JBool(true)},
		{"null", "zz", jt.JNull()},
		{"object", "zz", deep},
		{"array", "zz", jt.JArr(jt.JArr(), jt.JObj(), jt.JArr(jt.JNum("0"), jt.JStr([]byte("]"))))},
		{"empty-object", "a ", jt.JObj()},
		{"prefix-key", "aa", jt.JNum("1")}, // a declared key plus one byte
		{"escaped-key", "a\n\"é", jt.JStr([]byte(""))},
	}
}

func memberProg() (*jt.Prog, *tbin.Shape, *tbin.Shape) {
	inner := tbin.StructS(tbin.SField{ID: 1, Name: "x", S: tbin.Sc(tbin.I32)}, tbin.SField{ID: 2, Name: "y", S: tbin.Sc(tbin.STRING), Req: 2})
	root := tbin.StructS(tbin.SField{ID: 1, Name: "a", S: tbin.Sc(tbin.I32)}, tbin.SField{ID: 2, Name: "b", S: tbin.Sc(tbin.STRING), Req: 2}, tbin.SField{ID: 300, Name: "c", S: inner})
	return jt.NewProg("members", root), root, inner
}

func enumMembers(tier string, perm int, yield func(*scen) bool) {
	prog, root, inner := memberProg()
	vals := []*tbin.Val{tbin.I32v(7), tbin.Str("s\"1"), tbin.Struct(tbin.F(1, tbin.I32v(9)), tbin.F(2, tbin.Str("in")))}
	shapes := []*tbin.Shape{tbin.Sc(tbin.I32), tbin.Sc(tbin.STRING), inner}
	names := []string{"a", "b", "c"}
	ids := []int16{1, 2, 300}
	uks := unknowns()
	stName := [3]string{"present", "null", "absent"}
	for st := 0; st < 27; st++ {
		states := [3]int{st % 3, st / 3 % 3, st / 9}
		// positions of an unknown member: -1 none, else index in the member list
		for up := -1; up <= 3; up++ {
			for ui := range uks {
				if up < 0 && ui > 0 {
					break
				}
				for _, dis := range []bool{false, true} {
					j := jt.JObj()
					want := tbin.Struct()
					nmem := 0
					add := func() {
						if up == nmem {
							j.Add(uks[ui].key, uks[ui].v)
						}
					}
					cls := ""
					for _, fi := range perms3[perm] {
						switch states[fi] {
						case 0:
							add()
							x, _ := prog.Doc(vals[fi], shapes[fi], jt.DocOpt{})
							j.Add(names[fi], x)
							want.Fs = append(want.Fs, tbin.F(ids[fi], vals[fi]))
							nmem++
						case 1:
							add()
							j.Add(names[fi], jt.JNull())
							nmem++
						}
						cls += stName[states[fi]][:1]
					}
					if up >= nmem {
						if up > nmem {
							continue
						}
						add()
					}
					hasU := up >= 0
					o := conv.Options{DisallowUnknownField: dis}
					on := "none"
					if dis {
						on = "DisallowUnknownField"
					}
					tr := "states=" + cls
					if hasU {
						tr += ",unknown=" + uks[ui].name
						if dis {
							tr += ",disallow"
						}
					}
					for _, sp := range []jt.Spell{{}, {WS: 2}} {
						sc := &scen{op: "members", trigger: tr, prog: prog, copts: o, optName: on, doc: jt.Render(j, sp), ks: ksFor(tier, true)}
						if hasU && dis {
							sc.bad = true
						} else {
							sc.want = tbin.Bytes(want)
						}
						if !yield(sc) {
							return
						}
					}
				}
			}
		}
	}
	_ = root
	// unknown members and nulls at depth 2 and inside containers of structs
	if perm == 0 {
		lp := jt.Plain(tbin.StructS(tbin.SF(1, tbin.ListS(inner)), tbin.SF(2, tbin.MapS(tbin.Sc(tbin.STRING), inner))))
		for ui, u := range uks {
			for _, dis := range []bool{false, true} {
				in1 := jt.JObj().Add("x", jt.JNum("1")).Add(u.key, u.v).Add("y", jt.JStr([]byte("k")))
				in2 := jt.JObj().Add(u.key, u.v).Add("y", jt.JNull()).Add("x", jt.JNum("2"))
				j := jt.JObj().Add("f1", jt.JArr(in1, in2)).Add("f2", jt.JObj().Add("k", in2).Add("n", jt.JNull()).Add("m", in1))
				e1 := tbin.Struct(tbin.F(1, tbin.I32v(1)), tbin.F(2, tbin.Str("k")))
				e2 := tbin.Struct(tbin.F(1, tbin.I32v(2)))
				want := tbin.Struct(tbin.F(1, tbin.List(tbin.STRUCT, e1, e2)), tbin.F(2, tbin.Map(tbin.STRING, tbin.STRUCT, tbin.Str("k"), e2, tbin.Str("m"), e1)))
				sc := &scen{op: "members", trigger: "nested,unknown=" + uks[ui].name, prog: lp, copts: conv.Options{DisallowUnknownField: dis}, optName: fmt.Sprint("disallow=", dis), doc: jt.Render(j, jt.Spell{}), ks: ksFor(tier, true)}
				if dis {
					sc.bad = true
					sc.trigger += ",disallow"
				} else {
					sc.want = tbin.Bytes(want)
				}
				if !yield(sc) {
					return
				}
			}
		}
	}
}

// ---------------------------------------------------------------------------------------------
// key spellings: name, api.key, go.tag, name-case annotations x MapFieldWay

func keyProg() (*jt.Prog, *tbin.Shape) {
	st := tbin.StructS(
		tbin.SField{ID: 1, Name: "plain", S: tbin.Sc(tbin.I32)},
		tbin.SField{ID: 2, Name: "viaKey", S: tbin.Sc(tbin.I32)},
		tbin.SField{ID: 3, Name: "viaTag", S: tbin.Sc(tbin.I32)},
		tbin.SField{ID: 4, Name: "UserName", S: tbin.Sc(tbin.I32)},
		tbin.SField{ID: 5, Name: "user_id", S: tbin.Sc(tbin.I32)},
		tbin.SField{ID: 6, Name: "uni", S: tbin.Sc(tbin.I32)},
		tbin.SField{ID: 7, Name: "sub", S: tbin.StructS(tbin.SField{ID: 1, Name: "InnerField", S: tbin.Sc(tbin.I32)})},
	)
	p := jt.NewProg("keys", st)
	p.Set(st, 1, jt.FX{Alias: "k2", Ann: []string{`api.key = "k2"`}})
	p.Set(st, 2, jt.FX{Alias: "tag3", Ann: []string{`go.tag = "json:\"tag3\""`}})
	p.Set(st, 3, jt.FX{Alias: "user_name", Ann: []string{`agw.to_snake = "true"`}})
	p.Set(st, 4, jt.FX{Alias: "userId", Ann: []string{`agw.to_lower_camel_case = "true"`}})
	p.Set(st, 5, jt.FX{Alias: "k-é.6", Ann: []string{`api.key = "k-é.6"`}})
	return p, st
}

func enumKeys(tier string, yield func(*scen) bool) {
	p, st := keyProg()
	ways := []meta.MapFieldWay{meta.MapFieldUseAlias, meta.MapFieldUseFieldName, meta.MapFieldUseBoth}
	wn := []string{"alias", "name", "both"}
	for wi, way := range ways {
		po := thrift.Options{MapFieldWay: way}
		for _, dis := range []bool{false, true} {
			// every subset of fields 0..5 keyed by name or by alias: 2 spellings per field, singly and all together
			for fi := 0; fi < 6; fi++ {
				for _, byName := range []bool{false, true} {
					key := p.Alias(st, fi)
					if byName {
						key = st.Fields[fi].FName()
					}
					known := false
					for _, k := range p.Keys(st, fi, way) {
						if k == key {
							known = true
						}
					}
					for _, sp := range []jt.Spell{{}, {Esc: 2}, {WS: 1, Esc: 4}} {
						j := jt.JObj().Add("plain", jt.JNum("1")).Add(key, jt.JNum("5"))
						want := tbin.Struct(tbin.F(1, tbin.I32v(1)))
						if fi == 0 {
							j = jt.JObj().Add(key, jt.JNum("5"))
							want = tbin.Struct()
						}
						sc := &scen{op: "keys", trigger: fmt.Sprintf("way=%s,field=%s,byName=%v,disallow=%v", wn[wi], st.Fields[fi].FName(), byName, dis), prog: p, popts: po,
							copts: conv.Options{DisallowUnknownField: dis}, optName: fmt.Sprint("disallow=", dis), doc: jt.Render(j, sp), ks: ksFor(tier, true)}
						switch {
						case known:
							want.Fs = append(want.Fs, tbin.F(st.Fields[fi].ID, tbin.I32v(5)))
							sc.want = tbin.Bytes(want)
						case dis:
							sc.bad = true
						default:
							sc.want = tbin.Bytes(want)
						}
						if !yield(sc) {
							return
						}
					}
				}
			}
		}
	}
	// near-miss keys: a declared key minus its last byte / plus one byte / in the other letter case is an unknown member
	for wi, way := range ways {
		po := thrift.Options{MapFieldWay: way}
		declared := map[string]bool{}
		for fi := range st.Fields {
			for _, k := range p.Keys(st, fi, way) {
				declared[k] = true
			}
		}
		for fi := 0; fi < 6; fi++ {
			for _, base := range []string{p.Alias(st, fi), st.Fields[fi].FName()} {
				for mi, k := range []string{base[:len(base)-1], base + "x", strings.ToUpper(base), strings.ToLower(base), base[1:], " " + base} {
					if declared[k] {
						continue
					}
					for _, dis := range []bool{false, true} {
						j := jt.JObj().Add("plain", jt.JNum("1")).Add(k, jt.JNum("5"))
						sc := &scen{op: "keys", trigger: fmt.Sprintf("near-miss%d,way=%s,disallow=%v", mi, wn[wi], dis), prog: p, popts: po, copts: conv.Options{DisallowUnknownField: dis}, optName: fmt.Sprint("disallow=", dis),
							doc: jt.Render(j, jt.Spell{}), ks: []int{0}, note: "field " + st.Fields[fi].FName()}
						if dis {
							sc.bad = true
						} else {
							sc.want = tbin.Bytes(tbin.Struct(tbin.F(1, tbin.I32v(1))))
						}
						if !yield(sc) {
							return
						}
					}
				}
			}
		}
	}
	// struct-level name-case annotation is inherited by the fields of that struct
	in := tbin.StructS(tbin.SField{ID: 1, Name: "InnerField", S: tbin.Sc(tbin.I32)}, tbin.SField{ID: 2, Name: "Other", S: tbin.Sc(tbin.I32)})
	sp := jt.NewProg("keys-struct", in)
	sp.AnnStruct(in, `agw.to_snake = "true"`)
	sp.Set(in, 0, jt.FX{Alias: "inner_field"})
	sp.Set(in, 1, jt.FX{Alias: "other"})
	for _, key := range []string{"inner_field", "InnerField"} {
		j := jt.JObj().Add(key, jt.JNum("3"))
		want := tbin.Struct()
		if key == "inner_field" {
			want = tbin.Struct(tbin.F(1, tbin.I32v(3)))
		}
		if !yield(&scen{op: "keys", trigger: "struct-level-snake,key=" + key, prog: sp, optName: "none", doc: jt.Render(j, jt.Spell{}), want: tbin.Bytes(want), ks: ksFor(tier, true)}) {
			return
		}
	}
}

// ---------------------------------------------------------------------------------------------
// options: all 2^5 subsets x tailored documents

var optFlags = []jt.Flag{jt.FString2Int64, jt.FNoBase64, jt.FDisallow, jt.FValueMapping, jt.FThriftBase}

func optProg() (*jt.Prog, *tbin.Shape) {
	st := tbin.StructS(
		tbin.SField{ID: 1, Name: "l", S: tbin.Sc(tbin.I64)},
		tbin.SField{ID: 2, Name: "i", S: tbin.Sc(tbin.I32)},
		tbin.SField{ID: 3, Name: "d", S: tbin.Sc(tbin.DOUBLE)},
		tbin.SField{ID: 4, Name: "bin", S: tbin.BinS()},
		tbin.SField{ID: 5, Name: "s", S: tbin.Sc(tbin.STRING)},
		tbin.SField{ID: 6, Name: "jl", S: tbin.Sc(tbin.I64)},
		tbin.SField{ID: 7, Name: "js", S: tbin.Sc(tbin.STRING)},
		tbin.SField{ID: 8, Name: "li", S: tbin.ListS(tbin.Sc(tbin.I64))},
		tbin.SField{ID: 9, Name: "ml", S: tbin.MapS(tbin.Sc(tbin.I64), tbin.Sc(tbin.DOUBLE))},
		tbin.SField{ID: 10, Name: "y", S: tbin.Sc(tbin.BYTE)},
		tbin.SField{ID: 11, Name: "ji", S: tbin.Sc(tbin.I32)},
		tbin.SField{ID: 12, Name: "jd", S: tbin.Sc(tbin.DOUBLE)},
		tbin.SField{ID: 13, Name: "jh", S: tbin.Sc(tbin.I16)},
		tbin.SField{ID: 14, Name: "jy", S: tbin.Sc(tbin.BYTE)},
		tbin.SField{ID: 255, Name: "Base", S: jt.BaseShape},
	)
	p := jt.NewProg("options", st)
	for _, i := range []int{5, 6, 10, 11, 12, 13} {
		p.Set(st, i, jt.FX{JSConv: true})
	}
	p.Set(st, 14, jt.FX{Base: 1})
	return p, st
}

type optVec struct {
	name string
	v    *tbin.Val
}

func optVectors() []optVec {
	f := tbin.F
	return []optVec{
		{"plain", tbin.Struct(f(1, tbin.I64v(1<<40+3)), f(2, tbin.I32v(-5)), f(3, tbin.Double(1.5)), f(4, tbin.Bin([]byte{0, 1, 2, 0xff})), f(5, tbin.Str("str")), f(8, tbin.List(tbin.I64, tbin.I64v(1), tbin.I64v(-2))),
			f(9, tbin.Map(tbin.I64, tbin.DOUBLE, tbin.I64v(-9), tbin.Double(0.25), tbin.I64v(10), tbin.Double(-3))), f(10, tbin.Byte(-7)))},
		{"boundary", tbin.Struct(f(1, tbin.I64v(-9223372036854775808)), f(3, tbin.Double(5e-324)), f(4, tbin.Bin([]byte("text \"q\" é"))), f(2, tbin.I32v(2147483647)), f(10, tbin.Byte(127)), f(8, tbin.List(tbin.I64, tbin.I64v(9223372036854775807))))},
		{"jsconv-i64", tbin.Struct(f(6, tbin.I64v(1234567890123)), f(2, tbin.I32v(4)))},
		{"jsconv-i64", tbin.Struct(f(2, tbin.I32v(4)), f(6, tbin.I64v(-9223372036854775808)), f(5, tbin.Str("after")))},
		// integers no float64 holds exactly (a converter that goes through float64 rounds them)
		{"jsconv-i64", tbin.Struct(f(6, tbin.I64v(9007199254740993)), f(2, tbin.I32v(4)))},
		{"jsconv-i64", tbin.Struct(f(6, tbin.I64v(9223372036854775807)))},
		{"jsconv-i64", tbin.Struct(f(2, tbin.I32v(4)), f(6, tbin.I64v(-9007199254740993)))},
		{"jsconv-string", tbin.Struct(f(7, tbin.Str("12.50")), f(1, tbin.I64v(1)))},
		{"jsconv-string", tbin.Struct(f(7, tbin.Str("not a number \"q\"")))},
		{"jsconv-i32", tbin.Struct(f(11, tbin.I32v(-77)), f(1, tbin.I64v(1)))},
		{"jsconv-double", tbin.Struct(f(12, tbin.Double(-2.5)), f(1, tbin.I64v(1)))},
		{"jsconv-i16", tbin.Struct(f(13, tbin.I16v(12)), f(1, tbin.I64v(1)))},
		{"jsconv-byte", tbin.Struct(f(14, tbin.Byte(-3)), f(1, tbin.I64v(1)))},
		{"empty", tbin.Struct()},
		// a null member on an api.js_conv field: "null members omitted" (the harness writes null for field 6/7 of these vectors)
		{"jsconv-null", tbin.Struct(f(2, tbin.I32v(4)), f(6, tbin.I64v(0)))},
		{"jsconv-null", tbin.Struct(f(7, tbin.Str("")), f(2, tbin.I32v(4)))},
	}
}

func enumOptions(tier string, from, to int, yield func(*scen) bool) {
	p, st := optProg()
	sets := jt.Subsets(optFlags...)
	b := base.NewBase()
	b.LogID, b.Caller, b.Addr, b.Client = "log-1", "caller", "", "cl\"ient"
	b.Extra = map[string]string{"k": "v"}
	bval := tbin.Struct(tbin.F(1, tbin.Str("log-1")), tbin.F(2, tbin.Str("caller")), tbin.F(3, tbin.Str("")), tbin.F(4, tbin.Str("cl\"ient")),
		tbin.F(6, tbin.Map(tbin.STRING, tbin.STRING, tbin.Str("k"), tbin.Str("v"))))
	for _, os := range sets[from:to] {
		s2i, nob64, dis, vm, tb := os.Has(0), os.Has(1), os.Has(2), os.Has(3), os.Has(4)
		po := thrift.Options{EnableThriftBase: tb}
		for _, vec := range optVectors() {
			// document variants: q = numbers quoted, c = js_conv fields in their converted spelling, u = unknown member
			for variant := 0; variant < 8; variant++ {
				q, c, u := variant&1 != 0, variant&2 != 0, variant&4 != 0
				for _, withBase := range []bool{false, true} {
					if withBase && !tb {
						continue
					}
					o := jt.DocOpt{QuoteNum: q, RawBin: nob64}
					if c {
						o.JSConv = 1
					}
					// js_conv fields keep their own rule: quoting of the other numbers must not touch them
					j := jt.JObj()
					okDoc := true
					for _, f := range vec.v.Fs {
						i := jt.FieldIndex(st, f.ID)
						fo := o
						if p.FX(st, i).JSConv {
							fo.QuoteNum = false
						}
						x, ok := p.FieldDoc(f.V, st, i, fo)
						if !ok {
							okDoc = false
						}
						if vec.name == "jsconv-null" && p.FX(st, i).JSConv {
							x = jt.JNull()
						}
						j.Add(p.Alias(st, i), x)
					}
					if !okDoc {
						continue
					}
					if u {
						j.Add("nope", jt.JArr(jt.JNum("1"), jt.JStr([]byte("x"))))
					}
					hasJS := strings.HasPrefix(vec.name, "jsconv")
					if c && (!hasJS || vec.name == "jsconv-null") {
						continue // variant identical to the natural one
					}
					hasNum := false
					for _, f := range vec.v.Fs {
						i := jt.FieldIndex(st, f.ID)
						if !p.FX(st, i).JSConv && f.V.T != tbin.STRING {
							hasNum = true
						}
					}
					if q && !hasNum {
						continue
					}
					want := tbin.Struct()
					ctx := context.Background()
					if withBase {
						want.Fs = append(want.Fs, tbin.F(255, bval))
						ctx = context.WithValue(ctx, conv.CtxKeyThriftReqBase, b)
					}
					for _, f := range vec.v.Fs {
						if vec.name == "jsconv-null" && p.FX(st, jt.FieldIndex(st, f.ID)).JSConv {
							continue // written as null: omitted
						}
						want.Fs = append(want.Fs, f)
					}
					sc := &scen{op: "options", prog: p, popts: po, copts: os.O, optName: os.Name, ctx: ctx, doc: jt.Render(j, jt.Spell{}), ks: ksFor(tier, true)}
					tr := vec.name
					nt := ""
					if q {
						nt += ",quoted-numbers"
					}
					if c {
						nt += ",jsconv-spelling"
					}
					if u {
						nt += ",unknown"
					}
					if withBase {
						nt += ",ctx-base"
					}
					sc.note = nt
					// only the flags the document's features depend on go into the trigger class
					var rel []string
					if (q || c) && s2i {
						rel = append(rel, "s2i")
					}
					if hasJS && vm {
						rel = append(rel, "vm")
					}
					if u && dis {
						rel = append(rel, "disallow")
					}
					if nob64 && (vec.name == "plain" || vec.name == "boundary") {
						rel = append(rel, "nob64")
					}
					sc.trigger = tr + "/" + strings.Join(rel, "+")
					// expectation
					bad := false
					if q && !s2i {
						bad = true // a JSON string for a numeric field
					}
					if c {
						// converted spelling: numbers as strings need value mapping (or, for numeric fields,
						// String2Int64); a number for the string field needs value mapping
						numericJS := vec.name != "jsconv-string"
						if !vm && !(numericJS && s2i) {
							bad = true
						}
						if vec.name == "jsconv-string" && string(vec.v.Fs[0].V.S) != "12.50" {
							continue // no converted spelling for a non-numeric string
						}
					}
					if u && dis {
						bad = true
					}
					if bad {
						sc.bad = true
					} else {
						sc.want = tbin.Bytes(want)
					}
					if !yield(sc) {
						return
					}
				}
			}
		}
	}
}

// ---------------------------------------------------------------------------------------------
// malformed documents

func malProg() (*jt.Prog, *tbin.Shape) {
	in := tbin.StructS(tbin.SField{ID: 1, Name: "b", S: tbin.Sc(tbin.BOOL)})
	st := tbin.StructS(
		tbin.SField{ID: 1, Name: "a", S: tbin.Sc(tbin.I32)},
		tbin.SField{ID: 2, Name: "l", S: tbin.ListS(tbin.Sc(tbin.I32))},
		tbin.SField{ID: 3, Name: "m", S: tbin.MapS(tbin.Sc(tbin.STRING), tbin.Sc(tbin.STRING))},
		tbin.SField{ID: 4, Name: "s", S: in},
		tbin.SField{ID: 5, Name: "t", S: tbin.Sc(tbin.STRING)},
		tbin.SField{ID: 6, Name: "d", S: tbin.Sc(tbin.DOUBLE)},
	)
	return jt.NewProg("malformed", st), st
}

func enumMalformedTokens(tier string, yield func(*scen) bool) {
	p, _ := malProg()
	seeds := []*jt.J{
		jt.JObj().Add("a", jt.JNum("1")).Add("l", jt.JArr(jt.JNum("1"), jt.JNum("2"))).Add("m", jt.JObj().Add("k", jt.JStr([]byte("v")))).Add("s", jt.JObj().Add("b", jt.JBool(true))).Add("t", jt.JStr([]byte("x"))).Add("d", jt.JNum("-1.5e2")),
		jt.JObj().Add("zz", jt.JObj().Add("q", jt.JArr(jt.JNum("1"), jt.JObj().Add("r", jt.JNull())))).Add("a", jt.JNull()).Add("l", jt.JArr()).Add("m", jt.JObj()),
		jt.JObj().Add("l", jt.JArr(jt.JNum("7"))).Add("yy", jt.JArr(jt.JBool(false), jt.JStr([]byte("u")))).Add("s", jt.JObj()),
	}
	for si, seed := range seeds {
		toks := jt.Tokens(seed)
		for mode := 0; mode < 2; mode++ {
			for i := range toks {
				var mt []string
				mt = append(mt, toks[:i]...)
				if mode == 1 {
					mt = append(mt, toks[i], toks[i])
				}
				mt = append(mt, toks[i+1:]...)
				doc := []byte(strings.Join(mt, " "))
				if json.Valid(doc) {
					continue // still a JSON document: not in the malformed clause
				}
				if jt.FirstValueEnd(doc) >= 0 {
					continue // a complete value followed by text: outside the top-level value
				}
				kind := "delete"
				if mode == 1 {
					kind = "duplicate"
				}
				tc := toks[i]
				if len(tc) > 1 {
					tc = "literal"
				}
				for _, dis := range []bool{false, true} {
					sc := &scen{op: "malformed", trigger: fmt.Sprintf("seed%d,%s,token=%s", si, kind, tc), prog: p, copts: conv.Options{DisallowUnknownField: dis}, optName: fmt.Sprint("disallow=", dis), doc: doc, bad: true, ks: ksFor(tier, true)}
					if !yield(sc) {
						return
					}
				}
			}
		}
		// truncation at every byte of the compact spelling (each proper prefix is malformed inside the value)
		full := jt.Render(seed, jt.Spell{})
		for n := 1; n < len(full); n++ {
			doc := full[:n]
			if json.Valid(doc) || jt.FirstValueEnd(doc) >= 0 {
				continue
			}
			if !yield(&scen{op: "malformed", trigger: fmt.Sprintf("seed%d,truncate", si), prog: p, optName: "none", doc: doc, bad: true, ks: ksFor(tier, true)}) {
				return
			}
		}
	}
}

type kindDoc struct {
	name string
	j    *jt.J
	fits func(t *tbin.Shape) bool
}

func enumKinds(tier string, yield func(*scen) bool) {
	inner := tbin.StructS(tbin.SField{ID: 1, Name: "x", S: tbin.Sc(tbin.I32)})
	types := append(tbin.Scalars(), tbin.ListS(tbin.Sc(tbin.I32)), tbin.SetS(tbin.Sc(tbin.STRING)), tbin.MapS(tbin.Sc(tbin.STRING), tbin.Sc(tbin.I32)), inner)
	isNumT := func(t *tbin.Shape) bool { return isNum(t.T) }
	docs := []kindDoc{
		{"bool", jt.JBool(true), func(t *tbin.Shape) bool { return t.T == tbin.BOOL }},
		{"int", jt.JNum("1"), isNumT},
		{"string", jt.JStr([]byte("AAEC")), func(t *tbin.Shape) bool { return t.T == tbin.STRING }},
		{"empty-array", jt.JArr(), func(t *tbin.Shape) bool { return t.T == tbin.LIST || t.T == tbin.SET }},
		{"empty-object", jt.JObj(), func(t *tbin.Shape) bool { return t.T == tbin.MAP || t.T == tbin.STRUCT }},
		{"array", jt.JArr(jt.JBool(false)), func(t *tbin.Shape) bool { return false }},
		{"object", jt.JObj().Add("x", jt.JBool(false)), func(t *tbin.Shape) bool { return false }},
	}
	for _, t := range types {
		for _, d := range docs {
			if d.fits(t) {
				continue
			}
			if (d.name == "array" && (t.T == tbin.LIST || t.T == tbin.SET)) || (d.name == "object" && (t.T == tbin.MAP || t.T == tbin.STRUCT)) {
				// element kind contradicts: [false] for list<i32>/set<string>, {"x":false} for map<string,i32>/struct{x:i32}
			}
			places := []struct {
				name string
				prog *jt.Prog
				wrap func(x *jt.J) *jt.J
			}{
				{"field", jt.Plain(tbin.StructS(tbin.SF(1, t))), func(x *jt.J) *jt.J { return jt.JObj().Add("f1", x) }},
				{"list", jt.Plain(tbin.StructS(tbin.SF(1, tbin.ListS(t)))), func(x *jt.J) *jt.J { return jt.JObj().Add("f1", jt.JArr(x)) }},
				{"mapval", jt.Plain(tbin.StructS(tbin.SF(1, tbin.MapS(tbin.Sc(tbin.STRING), t)))), func(x *jt.J) *jt.J { return jt.JObj().Add("f1", jt.JObj().Add("k", x)) }},
				{"top", jt.Plain(t), func(x *jt.J) *jt.J { return x }},
			}
			for _, pl := range places {
				if pl.name == "top" && t.T == tbin.STRING {
					continue // documented special case: a top-level STRING descriptor takes unquoted text as the string
				}
				for _, os := range jt.Subsets(jt.FString2Int64, jt.FValueMapping) {
					sc := &scen{op: "kinds", trigger: fmt.Sprintf("json=%s,thrift=%s@%s", d.name, shapeClass(t), pl.name), prog: pl.prog, copts: os.O, optName: os.Name, doc: jt.Render(pl.wrap(d.j), jt.Spell{}), bad: true, ks: ksFor(tier, true)}
					if !yield(sc) {
						return
					}
				}
			}
		}
	}
}

func hasBinary(s *tbin.Shape) bool {
	if s.T == tbin.STRING && s.Binary {
		return true
	}
	if s.Elem != nil && hasBinary(s.Elem) {
		return true
	}
	if s.Key != nil && hasBinary(s.Key) {
		return true
	}
	for _, f := range s.Fields {
		if hasBinary(f.S) {
			return true
		}
	}
	return false
}

// enumLeaves plants every alphabet value of every scalar type at every leaf of a nested shape and spells the
// document in several number forms / escape spellings (lexing crossed with structure).
func enumLeaves(tier string, which int, yield func(*scen) bool) {
	in := tbin.StructS(tbin.SF(1, tbin.Sc(tbin.DOUBLE)), tbin.SF(2, tbin.Sc(tbin.STRING)), tbin.SF(3, tbin.Sc(tbin.I64)), tbin.SF(4, tbin.Sc(tbin.BYTE)))
	shapes := []*tbin.Shape{
		tbin.StructS(tbin.SF(1, tbin.MapS(tbin.Sc(tbin.I64), tbin.ListS(in))), tbin.SF(2, tbin.ListS(tbin.MapS(tbin.Sc(tbin.STRING), tbin.Sc(tbin.DOUBLE)))), tbin.SF(3, tbin.SetS(tbin.Sc(tbin.I16)))),
		tbin.StructS(tbin.SF(1, tbin.ListS(tbin.ListS(tbin.Sc(tbin.STRING)))), tbin.SF(2, tbin.MapS(tbin.Sc(tbin.STRING), tbin.MapS(tbin.Sc(tbin.I32), tbin.BinS()))), tbin.SF(3, in), tbin.SF(4, tbin.MapS(tbin.Sc(tbin.DOUBLE), tbin.Sc(tbin.BOOL)))),
	}
	root := shapes[which]
	prog := jt.Plain(root)
	g := &tbin.Gen{}
	base := g.Build(root, 2)
	for _, t := range tbin.Scalars() {
		if t.T == tbin.BOOL {
			continue
		}
		for k := 0; ; k++ {
			if jt.SetLeaf(base, t.T, k, neighbour(t)) == nil {
				break
			}
			for _, w := range jt.ScalarVals(t, false) {
				v := jt.SetLeaf(base, t.T, k, w)
				forms := []int{0}
				if isNum(t.T) {
					forms = []int{0, 1, 2, 3, 4, 5}
				}
				for _, f := range forms {
					j, ok := prog.Doc(v, root, jt.DocOpt{NumForm: f})
					if !ok {
						continue
					}
					spells := []jt.Spell{{}, {WS: 2}}
					if t.T == tbin.STRING && !hasBinaryVal(v, root) {
						spells = append(spells, jt.Spell{Esc: 1}, jt.Spell{Esc: 2}, jt.Spell{WS: 3, Esc: 4})
					}
					for _, sp := range spells {
						if !yield(&scen{op: "leaves", trigger: fmt.Sprintf("leaf:%s/num%d", t.T, f), note: sp.String(), prog: prog, optName: "none", doc: jt.Render(j, sp), want: tbin.Bytes(v), ks: []int{0, 1, 2, 3, 7, 8}}) {
							return
						}
					}
				}
			}
		}
	}
}

// hasBinaryVal: the document contains base64 text (escape spellings of it are the scalar/binary family's known finding).
func hasBinaryVal(v *tbin.Val, s *tbin.Shape) bool { return hasBinary(s) }

// enumKeysLow: alias families whose discriminating position holds bytes below '.' (the name trie maps such bytes
// to a separate slot range; the Go side and the native twin must agree on it), short keys ending in such a byte
// and one-byte keys.
func enumKeysLow(tier string, yield func(*scen) bool) {
	fams := [][]string{
		{"user-id", "user_id", "userId"},
		{"a-", "a_", "ab"},
		{"-", "_", "x"},
		{"k$1", "k 1", "k+1", "k,1", "k.1", "k/1", "k01"},
		{"plain", "x-age", "content-type", "content_type"},
	}
	for fi, fam := range fams {
		var fs []tbin.SField
		for i := range fam {
			fs = append(fs, tbin.SField{ID: int16(i + 1), Name: fmt.Sprintf("f%d", i+1), S: tbin.Sc(tbin.I32)})
		}
		st := tbin.StructS(fs...)
		p := jt.NewProg(fmt.Sprintf("keys-low%d", fi), st)
		for i, k := range fam {
			p.Set(st, i, jt.FX{Alias: k, Ann: []string{fmt.Sprintf(`api.key = %q`, k)}})
		}
		for _, dis := range []bool{false, true} {
			for i, k := range fam {
				j := jt.JObj().Add(k, jt.JNum(fmt.Sprint(70+i)))
				want := tbin.Struct(tbin.F(int16(i+1), tbin.I32v(int32(70+i))))
				sc := &scen{op: "keys", trigger: fmt.Sprintf("lowbyte-family%d,disallow=%v", fi, dis), prog: p, copts: conv.Options{DisallowUnknownField: dis}, optName: fmt.Sprint("disallow=", dis),
					doc: jt.Render(j, jt.Spell{}), want: tbin.Bytes(want), ks: []int{0}, note: "key " + k}
				if !yield(sc) {
					return
				}
			}
			// all members together, in declaration and in reverse order
			for _, rev := range []bool{false, true} {
				j := jt.JObj()
				want := tbin.Struct()
				for x := range fam {
					i := x
					if rev {
						i = len(fam) - 1 - x
					}
					j.Add(fam[i], jt.JNum(fmt.Sprint(70+i)))
					want.Fs = append(want.Fs, tbin.F(int16(i+1), tbin.I32v(int32(70+i))))
				}
				sc := &scen{op: "keys", trigger: fmt.Sprintf("lowbyte-family%d,all,disallow=%v", fi, dis), prog: p, copts: conv.Options{DisallowUnknownField: dis}, optName: fmt.Sprint("disallow=", dis),
					doc: jt.Render(j, jt.Spell{}), want: tbin.Bytes(want), ks: []int{0}}
				if !yield(sc) {
					return
				}
			}
		}
	}
}


func hasStruct(s *tbin.Shape) bool {
	if s.T == tbin.STRUCT {
		return true
	}
	if s.Elem != nil && hasStruct(s.Elem) {
		return true
	}
	return s.Key != nil && hasStruct(s.Key)
}

// enumIncludes: multi-file programs. The struct types below each root field live in an included file of their
// own and the type names restart in every file (jt.Prog.Split), so the same unqualified name denotes different
// types in different files; with and without typedef'd scalars. Roots: one hand-built root with four different
// two-level subtrees, and every pair of consecutive struct-bearing shapes of the shape alphabet.
func enumIncludes(tier string, yield func(*scen) bool) {
	sc := tbin.Sc
	a := tbin.StructS(tbin.SF(1, sc(tbin.I32)), tbin.SF(2, tbin.StructS(tbin.SF(1, sc(tbin.STRING)))))
	b := tbin.StructS(tbin.SF(1, sc(tbin.STRING)), tbin.SF(2, tbin.StructS(tbin.SF(1, sc(tbin.I64)), tbin.SF(2, sc(tbin.BOOL)))))
	c := tbin.ListS(tbin.StructS(tbin.SF(1, sc(tbin.DOUBLE)), tbin.SF(2, tbin.StructS(tbin.SF(3, sc(tbin.I16))))))
	d := tbin.MapS(sc(tbin.STRING), tbin.StructS(tbin.SF(1, tbin.StructS(tbin.SF(1, sc(tbin.BYTE)))), tbin.SF(2, tbin.ListS(tbin.StructS(tbin.SF(7, sc(tbin.I32)))))))
	roots := []*tbin.Shape{tbin.StructS(tbin.SF(1, a), tbin.SF(2, b), tbin.SF(3, c), tbin.SF(4, d)), tbin.StructS(tbin.SF(1, b), tbin.SF(2, a))}
	var bearing []*tbin.Shape
	for _, s := range shapeAlphabet(tier) {
		if hasStruct(s) && !hasBinary(s) {
			bearing = append(bearing, s)
		}
	}
	for i := 0; i+1 < len(bearing); i++ {
		roots = append(roots, tbin.StructS(tbin.SF(1, bearing[i]), tbin.SF(2, bearing[i+1])))
	}
	for ri, root := range roots {
		for _, td := range []bool{false, true} {
			prog := jt.NewProg(fmt.Sprintf("includes%d/typedef=%v", ri, td), root)
			prog.Split, prog.Typedef = true, td
			for n := 0; n <= 3; n++ {
				g := &tbin.Gen{}
				v := g.Build(root, n)
				for _, sp := range []jt.Spell{{}, {WS: 2}} {
					j, ok := prog.Doc(v, root, jt.DocOpt{})
					if !ok {
						continue
					}
					s := &scen{op: "shape", trigger: fmt.Sprintf("includes,typedef=%v", td), note: fmt.Sprintf("root %d n=%d %s", ri, n, sp), prog: prog, optName: "none",
						doc: jt.Render(j, sp), want: tbin.Bytes(v), ks: ksFor(tier, sp != jt.Spell{})}
					if !yield(s) {
						return
					}
				}
			}
		}
	}
}


// enumAfterFailure: a conforming document converted right after a failing one by the same converter (the
// converter's state machine, caches and buffers are pooled): every truncation of two seed documents, every
// malformed single-token deletion, a kind mismatch and a disallowed unknown member, each followed by two
// conforming documents; the verdict and the bytes must be those of the document alone.
func enumAfterFailure(tier string, yield func(*scen) bool) {
	p, root := malProg()
	seeds := []*jt.J{
		jt.JObj().Add("a", jt.JNum("1")).Add("l", jt.JArr(jt.JNum("1"), jt.JNum("2"))).Add("m", jt.JObj().Add("k", jt.JStr([]byte("v")))).Add("s", jt.JObj().Add("b", jt.JBool(true))).Add("t", jt.JStr([]byte("x"))).Add("d", jt.JNum("-1.5e2")),
		jt.JObj().Add("zz", jt.JObj().Add("q", jt.JArr(jt.JNum("1"), jt.JObj().Add("r", jt.JNull())))).Add("a", jt.JNull()).Add("l", jt.JArr()).Add("m", jt.JObj()),
	}
	var primes [][]byte
	for _, seed := range seeds {
		full := jt.Render(seed, jt.Spell{})
		for n := 1; n < len(full); n++ {
			if d := full[:n]; !json.Valid(d) && jt.FirstValueEnd(d) < 0 {
				primes = append(primes, d)
			}
		}
		toks := jt.Tokens(seed)
		for i := range toks {
			var mt []string
			mt = append(append(mt, toks[:i]...), toks[i+1:]...)
			if d := []byte(strings.Join(mt, " ")); !json.Valid(d) && jt.FirstValueEnd(d) < 0 {
				primes = append(primes, d)
			}
		}
	}
	primes = append(primes, []byte(`{"a":"x"}`), []byte(`{"s":1}`), []byte(`{"s":{"b":1}}`), []byte(`{"l":[1,"x"]}`), []byte(`{"m":{"k":1}}`), []byte(`{"l":{}}`), []byte(`{"a":1,"s":[]}`))
	type follow struct {
		doc, want []byte
	}
	var fs []follow
	for n := 1; n <= 2; n++ {
		g := &tbin.Gen{}
		v := g.Build(root, n)
		if j, ok := p.Doc(v, root, jt.DocOpt{}); ok {
			fs = append(fs, follow{jt.Render(j, jt.Spell{}), tbin.Bytes(v)})
		}
	}
	for _, pr := range primes {
		for fi, f := range fs {
			for _, dis := range []bool{false, true} {
				sc := &scen{op: "after-failure", trigger: fmt.Sprintf("follow%d", fi), prog: p, copts: conv.Options{DisallowUnknownField: dis}, optName: fmt.Sprint("disallow=", dis),
					doc: f.doc, want: f.want, prime: pr, ks: []int{0, 3}}
				if !yield(sc) {
					return
				}
			}
		}
	}
}


// enumExpansion: documents whose Thrift encoding is LONGER than the JSON text before a string / binary payload
// begins (numbers of one or two characters become 8-byte integers), so that the payload starts when less room is
// left in the output buffer than the text still to be read: k small i64 list elements followed by a string or a
// base64 binary of n bytes, for every k and n of a grid, plus the two smallest shapes (a bare binary, one i64
// field before the binary). Output capacities len(src)+0..8 and the pooled path of Do.
func enumExpansion(tier string, yield func(*scen) bool) {
	emit := func(name string, root *tbin.Shape, v *tbin.Val) bool {
		prog := jt.NewProg("expansion/"+name, root)
		j, ok := prog.Doc(v, root, jt.DocOpt{})
		if !ok {
			return true
		}
		return yield(&scen{op: "expansion", trigger: name, prog: prog, optName: "none", doc: jt.Render(j, jt.Spell{}), want: tbin.Bytes(v), ks: []int{0, 1, 2, 3, 4, 5, 6, 7, 8}})
	}
	bin := func(n int) *tbin.Val {
		b := make([]byte, n)
		for i := range b {
			b[i] = byte(i*7 + 65)
		}
		return tbin.Bin(b)
	}
	bsh := &tbin.Shape{T: tbin.STRING, Binary: true}
	if !emit("bare-binary", bsh, bin(3)) {
		return
	}
	r2 := tbin.StructS(tbin.SF(1, tbin.Sc(tbin.I64)), tbin.SF(2, bsh))
	if !emit("i64-then-binary", r2, tbin.Struct(tbin.F(1, tbin.I64v(1)), tbin.F(2, bin(3)))) {
		return
	}
	for _, payload := range []string{"binary", "string"} {
		psh := bsh
		if payload == "string" {
			psh = tbin.Sc(tbin.STRING)
		}
		root := tbin.StructS(tbin.SF(1, tbin.ListS(tbin.Sc(tbin.I64))), tbin.SF(2, psh))
		for _, k := range []int{1, 2, 4, 8, 50, 400} {
			for _, n := range []int{0, 3, 6, 30, 300, 1500, 6000} {
				l := tbin.List(tbin.I64)
				for i := 0; i < k; i++ {
					l.L = append(l.L, tbin.I64v(int64(i%10)))
				}
				pv := bin(n)
				if payload == "string" {
					pv = tbin.Str(strings.Repeat("s", n))
				}
				if !emit(fmt.Sprintf("list-of-i64-then-%s", payload), root, tbin.Struct(tbin.F(1, l), tbin.F(2, pv))) {
					return
				}
			}
		}
	}
}


// enumSiblingContainers: several nested container types in ONE struct that share their outer shape and differ
// only in the innermost element / key type (every field must keep its own descriptor).
func enumSiblingContainers(tier string, yield func(*scen) bool) {
	sc := tbin.Sc
	root := tbin.StructS(
		tbin.SF(1, tbin.ListS(tbin.ListS(sc(tbin.I32)))), tbin.SF(2, tbin.ListS(tbin.ListS(sc(tbin.STRING)))), tbin.SF(3, tbin.ListS(tbin.ListS(sc(tbin.DOUBLE)))),
		tbin.SF(4, tbin.MapS(sc(tbin.STRING), tbin.ListS(sc(tbin.I64)))), tbin.SF(5, tbin.MapS(sc(tbin.STRING), tbin.ListS(sc(tbin.I32)))),
		tbin.SF(6, tbin.ListS(tbin.MapS(sc(tbin.STRING), sc(tbin.I32)))), tbin.SF(7, tbin.ListS(tbin.MapS(sc(tbin.STRING), sc(tbin.STRING)))),
		tbin.SF(8, tbin.MapS(sc(tbin.I32), tbin.MapS(sc(tbin.I32), sc(tbin.BOOL)))), tbin.SF(9, tbin.MapS(sc(tbin.I32), tbin.MapS(sc(tbin.I64), sc(tbin.BOOL)))),
		tbin.SF(10, tbin.SetS(tbin.ListS(sc(tbin.I16)))), tbin.SF(11, tbin.SetS(tbin.ListS(sc(tbin.BYTE)))),
	)
	// declaration orders: as above and reversed (whichever type is parsed first must not win)
	rev := tbin.StructS()
	for i := len(root.Fields) - 1; i >= 0; i-- {
		rev.Fields = append(rev.Fields, root.Fields[i])
	}
	for ri, r := range []*tbin.Shape{root, rev} {
		prog := jt.NewProg(fmt.Sprintf("sibling-containers/%d", ri), r)
		for n := 1; n <= 2; n++ {
			g := &tbin.Gen{Boundary: n == 2}
			v := g.Build(r, 2)
			j, ok := prog.Doc(v, r, jt.DocOpt{})
			if !ok {
				continue
			}
			if !yield(&scen{op: "shape", trigger: "sibling-containers", note: fmt.Sprintf("order %d values %d", ri, n), prog: prog, optName: "none", doc: jt.Render(j, jt.Spell{}), want: tbin.Bytes(v), ks: []int{0, 3}}) {
				return
			}
		}
	}
}
