// Package c02: JSON->Thrift conversion (conv/j2t BinaryConv.Do / DoInto) encodes exactly the value the
// JSON document denotes — bounded-exhaustive over programs x documents x spellings x options x
// environment deviations (output-buffer capacity, native cache capacities).
package c02

import (
	"bytes"
	"context"
	"errors"
	"fmt"

	"github.com/cloudwego/dynamicgo/conv"
	"github.com/cloudwego/dynamicgo/conv/j2t"
	"github.com/cloudwego/dynamicgo/meta"
	"github.com/cloudwego/dynamicgo/thrift"
	"github.com/cloudwego/dynamicgo/verifhook"
	"github.com/cloudwego/dynamicgo/vsync"

	"verif/checks/c18"
	"verif/checks/jt"
	"verif/engine/core"
	"verif/ref/poolpoison"
	"verif/ref/tbin"
)

type check struct{}

func init() { core.Register(check{}) }

func (check) ID() string    { return "C02" }
func (check) Level() string { return "exploration" }
func (check) Rule() string {
	return "bounded-exhaustive, simplest first: every scalar type x boundary value alphabet x position (struct field, list/set element, map value, map key, top-level) x 6 number spellings; string alphabet (escapes, surrogates, lengths around 16/32/64/4096) x 5 escape spellings x position; every shape of T(1) u T(2) without struct keys x container size 0..3 x 4 whitespace spellings; all member orders x {present,null,absent}^3 x unknown members (6 kinds x 4 positions); key spellings x MapFieldWay; all 2^5 option subsets x tailored documents; every single-token deletion/duplication and the JSON-kind x thrift-type mismatch table; each document through Do and through DoInto with cap-len = len(src)+k for every k in the tier's range; native cache deviations (seeded ReqsCache/KeyCache/FieldCache capacities, keys of 1023..1025/4097 bytes, wide and deep structs). A case is one (program, document, option set); it is non-trivial when distinct by those and at least one conversion ran. Later additions: multi-file programs, sibling containers, histories of length 2 (after a failing document), SetOptions twin, arena-backed DoInto buffers, top-level strings followed by blanks, a hash-mode struct with DJB-colliding names, overwriting of the pooled buffers right after Do. Round 8: every scenario expressible over the pipe server also runs through the portable converter (second binary). Round 9: the options group (js_conv, base include) also runs through the portable converter; js_conv integers beyond 2^53."
}

func (check) Assumptions() []string {
	return []string{
		"reference = ref/tbin encoder over the value the harness wrote down as JSON (documents are produced by the harness's own renderer, never by dynamicgo)",
		"domain restrictions (out of the statement's domain, not generated): out-of-range numbers, non-integral numbers for integer types, integer values beyond 2^53 in decimal/exponent spelling, null array elements / null at top level, text after the top-level value, invalid UTF-8 in JSON input, the base field inside the JSON body when EnableThriftBase is on",
		"both implementations: the native amd64 one in-process with every deviation (DoInto capacities, cache seeds, pools), the portable one (impl_fallback.go, -tags go1.25 binary) through Do for every scenario expressible over the pipe server (default parse options, no context values)",
	}
}

func (check) BudgetSeconds(tier string) int {
	if tier == "thorough" {
		return 1500
	}
	return 200
}

// ---------------------------------------------------------------------------------------------
// one conversion scenario and its oracle

type scen struct {
	op      string // family name (first part of signatures)
	trigger string // trigger class
	prog    *jt.Prog
	popts   thrift.Options
	copts   conv.Options
	optName string
	ctx     context.Context
	doc     []byte
	want    []byte // expected output for a conforming document
	bad     bool   // document must be rejected (error)
	lenient bool   // error or exact (limit region)
	ks      []int  // DoInto capacities: cap-len = len(doc)+k
	seeds   [][3]int
	note    string
	prime   []byte // if set: converted by the same converter right before doc, outcome ignored (history of length 2)
}

type caseDesc struct {
	Family  string `json:"family"`
	Trigger string `json:"trigger"`
	IDL     string `json:"idl"`
	Parse   string `json:"parse_options"`
	Options string `json:"conv_options"`
	Doc     string `json:"json"`
	Want    string `json:"want_hex,omitempty"`
	Bad     bool   `json:"must_fail,omitempty"`
	Ks      []int  `json:"dointo_extra_capacity,omitempty"`
	Seeds   string `json:"cache_seeds,omitempty"`
	Note    string `json:"note,omitempty"`
	Prime   string `json:"converted_right_before,omitempty"`
}

func clip(b []byte, n int) string {
	if len(b) > n {
		return fmt.Sprintf("%s...(%d bytes)", b[:n], len(b))
	}
	return string(b)
}
func cliphex(b []byte, n int) string {
	if len(b) > n {
		return fmt.Sprintf("%x...(%d bytes)", b[:n], len(b))
	}
	return fmt.Sprintf("%x", b)
}

func (s *scen) desc() interface{} {
	d := caseDesc{Family: s.op, Trigger: s.trigger, IDL: s.prog.Source(), Parse: fmt.Sprintf("%+v", s.popts), Options: s.optName, Doc: clip(s.doc, 600), Want: cliphex(s.want, 300), Bad: s.bad, Ks: s.ks, Note: s.note, Prime: clip(s.prime, 300)}
	if len(d.IDL) > 1500 {
		d.IDL = d.IDL[:1500] + "..."
	}
	if len(d.Ks) > 12 {
		d.Ks = append(append([]int{}, d.Ks[:6]...), d.Ks[len(d.Ks)-3:]...)
	}
	if len(s.seeds) > 0 {
		d.Seeds = fmt.Sprint(s.seeds)
	}
	return d
}

func rootType(p *jt.Prog) tbin.Type { return p.Root.T }

// judge compares one conversion result with the expectation; returns the outcome class ("" = as expected).
func (s *scen) judge(out []byte, err error) (string, string) {
	if s.bad {
		if err == nil {
			return "accepted", fmt.Sprintf("document must be rejected but err=nil, output %s", cliphex(out, 200))
		}
		return "", ""
	}
	if err != nil {
		if s.lenient {
			return "", ""
		}
		return "error", fmt.Sprintf("conforming document rejected: %v", firstLine(err))
	}
	if bytes.Equal(out, s.want) {
		return "", ""
	}
	if v, e := tbin.DecodeAll(out, rootType(s.prog)); e != nil {
		return "malformed-output", fmt.Sprintf("output is not a well-formed thrift value (%v): got %s want %s", e, cliphex(out, 200), cliphex(s.want, 200))
	} else {
		w, _ := tbin.DecodeAll(s.want, rootType(s.prog))
		ws := ""
		if w != nil {
			ws = w.String()
		}
		return "different-value", fmt.Sprintf("output denotes %.300s, want %.300s (got %s want %s)", v.String(), ws, cliphex(out, 120), cliphex(s.want, 120))
	}
}

func firstLine(e error) string {
	s := e.Error()
	for i := range s {
		if s[i] == '\n' {
			return s[:i]
		}
	}
	return s
}

func errClass(err error) string {
	if err == nil {
		return "nil"
	}
	if me, ok := err.(meta.Error); ok {
		return me.Code.Behavior().String()
	}
	return "other"
}

func (s *scen) run() core.Result {
	r := s.runNative()
	s.runPortable(&r)
	return r
}

// portableBits: the conversion options as the bit set the portable pipe server understands, ok=false if they
// (or the scenario's context / parse options / file layout) cannot be expressed over the pipe.
func (s *scen) portableBits() (int, bool) {
	if (s.ctx != nil && s.ctx != context.Background()) || s.prime != nil || s.popts != (thrift.Options{}) {
		return 0, false
	}
	bits := 0
	c := s.copts
	for _, x := range []struct {
		on  bool
		bit int
	}{{c.String2Int64, c18.OString2Int64}, {c.NoBase64Binary, c18.ONoBase64Binary}, {c.DisallowUnknownField, c18.ODisallowUnknownField},
		{c.WriteDefaultField, c18.OWriteDefaultField}, {c.WriteRequireField, c18.OWriteRequireField},
		{c.EnableValueMapping, c18.OEnableValueMapping}, {c.WriteOptionalField, c18.OWriteOptionalField}} {
		if x.on {
			bits |= x.bit
		}
	}
	return bits, c18.ConvOptions(bits) == c
}

// runPortable: the same document through the portable implementation of the converter (conv/j2t/impl_fallback.go,
// what every non-amd64 or go1.25+ build runs), judged by the same reference. It lives in the second binary (pipe
// server of C18): only Do, the default parse options and the presence of an error are visible there.
func (s *scen) runPortable(r *core.Result) {
	bits, ok := s.portableBits()
	if !ok {
		return
	}
	res, died, diag, err := c18.Portable(&c18.Req{IDL: s.prog.IDL(), Inc: s.prog.Includes(), Opts: []int{bits}, Doc: s.doc})
	r.Count("conversions", 1)
	r.Count("portable_conversions", 1)
	switch {
	case err != nil:
		r.Class = "harness-portable"
		r.Add("harness|portable-server", "%v", err)
		return
	case died:
		r.Class = "died"
		r.Add(fmt.Sprintf("j2t.Do[portable]|%s|%s|process-died-or-hung", s.op, s.trigger), "options %s\ndoc %s\nthe portable converter process died or did not answer within 20 s\n%s", s.optName, clip(s.doc, 400), diag)
		return
	case res[0].Panic != "":
		r.Class = "panic"
		r.Add(fmt.Sprintf("j2t.Do[portable]|%s|%s|panic@%s:%s", s.op, s.trigger, res[0].Site, core.PanicClass(res[0].Panic)), "options %s\ndoc %s\npanic: %.300s", s.optName, clip(s.doc, 300), res[0].Panic)
		return
	}
	var perr error
	if res[0].Err != "" {
		perr = errors.New(res[0].Err)
	}
	if oc, det := s.judge(res[0].Out, perr); oc != "" {
		r.Class = "violation"
		r.Add(fmt.Sprintf("j2t.Do[portable]|%s|%s|%s", s.op, s.trigger, oc), "portable implementation, options %s\ndoc %s\n%s", s.optName, clip(s.doc, 400), det)
	}
}

func (s *scen) runNative() core.Result {
	r := core.Result{Class: "ok", Key: s.op + "|" + s.trigger + "|" + s.prog.Name + "|" + s.optName + "|" + string(s.doc)}
	if s.prime != nil {
		r.Key += "|after:" + string(s.prime)
	}
	if len(r.Key) > 400 {
		r.Key = r.Key[:200] + fmt.Sprintf("#%d#", len(s.doc)) + r.Key[len(r.Key)-150:]
	}
	ctx := s.ctx
	if ctx == nil {
		ctx = context.Background()
	}
	desc, _, err := s.prog.Descs(s.popts)
	if err != nil {
		r.Class = "idl-error"
		r.Add(s.op+"|idl|parse-error", "harness-generated IDL rejected: %v", err)
		return r
	}
	cv := j2t.NewBinaryConv(s.copts)
	src := append([]byte{}, s.doc...)
	var out []byte
	var cerr error
	if s.prime != nil {
		core.Catch(func() { cv.Do(ctx, desc, append([]byte{}, s.prime...)) })
	}
	pi := core.Catch(func() { out, cerr = cv.Do(ctx, desc, src) })
	r.Count("conversions", 1)
	if pi != nil {
		r.Class = "panic"
		r.Add(fmt.Sprintf("j2t.Do|%s|%s|panic@%s:%s", s.op, s.trigger, pi.Site, core.PanicClass(pi.Val)), "doc %s\npanic: %.300s\n%.1500s", clip(s.doc, 300), pi.Val, pi.Stack)
		return r
	}
	{
		// the same conversion with every pool of the library empty: all pooled objects come fresh from their
		// constructors, as in the first conversion of a process
		vsync.Controlled = true
		vsync.Reset()
		var o4 []byte
		var e4 error
		pi4 := core.Catch(func() { o4, e4 = cv.Do(ctx, desc, append([]byte{}, s.doc...)) })
		vsync.Reset()
		vsync.Controlled = false
		r.Count("conversions", 1)
		if pi4 != nil {
			r.Class = "panic"
			r.Add(fmt.Sprintf("j2t.Do|%s|fresh-pooled-objects|panic@%s:%s", s.op, pi4.Site, core.PanicClass(pi4.Val)), "doc %s\npanic: %.300s", clip(s.doc, 300), pi4.Val)
			return r
		}
		if (e4 == nil) != (cerr == nil) || (e4 == nil && !bytes.Equal(o4, out)) {
			r.Class = "violation"
			r.Add(fmt.Sprintf("j2t.Do|%s|%s|differs-with-fresh-pooled-objects", s.op, s.trigger), "options %s\ndoc %s\nwith the pooled objects of this process: %s err=%v\nwith fresh ones: %s err=%v", s.optName, clip(s.doc, 400), cliphex(out, 200), cerr, cliphex(o4, 200), e4)
		}
	}
	if cerr == nil && poolpoison.Aliased(out) {
		r.Class = "violation"
		r.Add(fmt.Sprintf("j2t.Do|%s|result-aliases-pooled-buffer", s.op), "trigger %s, options %s: the %d bytes returned by Do change when the buffers in the converters' pool are overwritten\ndoc %s", s.trigger, s.optName, len(out), clip(s.doc, 300))
	}
	if oc, det := s.judge(out, cerr); oc != "" {
		r.Class = "violation"
		r.Add(fmt.Sprintf("j2t.Do|%s|%s|%s", s.op, s.trigger, oc), "options %s\ndoc %s\n%s", s.optName, clip(s.doc, 400), det)
		return r // the deviations below are judged against a correct Do
	} else if cerr != nil {
		r.Class = "rejected:" + errClass(cerr)
	}
	// the same options reached through SetOptions on a converter built with the complementary ones
	{
		c := s.copts
		alt := conv.Options{EnableValueMapping: !c.EnableValueMapping, EnableThriftBase: !c.EnableThriftBase, String2Int64: !c.String2Int64, NoBase64Binary: !c.NoBase64Binary,
			WriteOptionalField: !c.WriteOptionalField, WriteDefaultField: !c.WriteDefaultField, WriteRequireField: !c.WriteRequireField, DisallowUnknownField: !c.DisallowUnknownField}
		cv2 := j2t.NewBinaryConv(alt)
		cv2.SetOptions(s.copts)
		var o2 []byte
		var e2 error
		pi2 := core.Catch(func() { o2, e2 = cv2.Do(ctx, desc, append([]byte{}, s.doc...)) })
		r.Count("conversions", 1)
		if pi2 != nil {
			r.Class = "panic"
			r.Add(fmt.Sprintf("j2t.SetOptions+Do|%s|panic@%s:%s", s.op, pi2.Site, core.PanicClass(pi2.Val)), "doc %s\npanic: %.300s", clip(s.doc, 300), pi2.Val)
			return r
		}
		if (e2 == nil) != (cerr == nil) || (e2 == nil && !bytes.Equal(o2, out)) {
			r.Class = "violation"
			r.Add(fmt.Sprintf("j2t.SetOptions+Do|%s|differs-from-converter-built-with-the-options", s.op), "options %s\ndoc %s\nNewBinaryConv(opts): %s err=%v\nSetOptions(opts):    %s err=%v", s.optName, clip(s.doc, 400), cliphex(out, 200), cerr, cliphex(o2, 200), e2)
		}
	}
	// DoInto under every capacity of the deviation range: same verdict, same bytes as Do.
	for _, k := range s.ks {
		// the buffer is the front of a larger arena whose rest is filled with 0xAA: nothing may be written
		// behind the capacity handed to DoInto
		bcap := len(src) + k
		arena := make([]byte, bcap+len(src)+64)
		for i := bcap; i < len(arena); i++ {
			arena[i] = 0xAA
		}
		buf := arena[:0:bcap]
		var e2 error
		pi := core.Catch(func() { e2 = cv.DoInto(ctx, desc, src, &buf) })
		for i := bcap; i < len(arena); i++ {
			if arena[i] != 0xAA {
				j := i
				for j < len(arena) && arena[j] != 0xAA {
					j++
				}
				r.Class = "violation"
				r.Add(fmt.Sprintf("j2t.DoInto|%s|writes-beyond-capacity", s.op), "trigger %s, options %s, buffer with len 0 and cap %d = len(src)+%d: %d bytes written behind the capacity (offsets cap+%d..cap+%d: %x)\ndoc %s", s.trigger, s.optName, bcap, k, j-i, i-bcap, j-1-bcap, arena[i:j], clip(s.doc, 400))
				break
			}
		}
		r.Count("conversions", 1)
		r.Count("dointo_runs", 1)
		if pi != nil {
			r.Class = "panic"
			r.Add(fmt.Sprintf("j2t.DoInto|%s|panic@%s:%s", s.op, pi.Site, core.PanicClass(pi.Val)), "extra capacity %d, doc %s\npanic: %.300s\n%.1500s", k, clip(s.doc, 300), pi.Val, pi.Stack)
			return r
		}
		if cap(buf) != len(src)+k {
			r.Count("dointo_buffer_grown", 1)
		}
		if e2 == nil && poolpoison.Aliased(buf) {
			r.Class = "violation"
			r.Add(fmt.Sprintf("j2t.DoInto|%s|result-aliases-pooled-buffer", s.op), "trigger %s, options %s, extra capacity %d: the %d bytes DoInto left in the caller's buffer change when the pooled buffers are overwritten\ndoc %s", s.trigger, s.optName, k, len(buf), clip(s.doc, 300))
		}
		if oc, det := s.judge(buf, e2); oc != "" {
			r.Class = "violation"
			// outcome class tells whether Do agreed: a capacity-only failure is its own signature
			if o1, _ := s.judge(out, cerr); o1 == "" {
				oc = "capacity-dependent:" + oc
			}
			// a capacity-only failure is attributed to the family, not to the document class (one root cause)
			r.Add(fmt.Sprintf("j2t.DoInto|%s|%s", s.op, oc), "trigger %s, options %s, cap-len = len(src)+%d\ndoc %s\n%s", s.trigger, s.optName, k, clip(s.doc, 400), det)
			break
		}
		if (e2 == nil) != (cerr == nil) || (e2 == nil && !bytes.Equal(buf, out)) {
			r.Class = "violation"
			r.Add(fmt.Sprintf("j2t.DoInto|%s|capacity-dependent:differs-from-Do", s.op), "options %s, cap-len = len(src)+%d\ndoc %s\nDo: %s err=%v\nDoInto: %s err=%v", s.optName, k, clip(s.doc, 400), cliphex(out, 200), cerr, cliphex(buf, 200), e2)
			break
		}
	}
	if !bytes.Equal(src, s.doc) {
		r.Count("input_modified", 1)
	}
	// native cache deviations: a seeded state machine with small caches; same verdict, same bytes.
	for _, sd := range s.seeds {
		vsync.Controlled = true
		id := verifhook.C02Seed(sd[0], sd[1], sd[2])
		var o3 []byte
		var e3 error
		pi := core.Catch(func() {
			if sd[0] >= 0 && sd[0]%2 == 1 || sd[1] >= 0 && sd[1]%2 == 1 {
				// odd seeds: two deviations at once — small caches and an output buffer with cap-len = len(src)
				b := make([]byte, 0, len(src))
				e3 = cv.DoInto(ctx, desc, src, &b)
				if e3 == nil {
					o3 = b
				}
				r.Count("seeded_tight_buffer_runs", 1)
				return
			}
			o3, e3 = cv.Do(ctx, desc, src)
		})
		id2, rc, kc, fc := verifhook.C02Take()
		vsync.Controlled = false
		r.Count("conversions", 1)
		r.Count("seeded_runs", 1)
		if pi != nil {
			r.Class = "panic"
			r.Add(fmt.Sprintf("j2t.Do+seed|%s|panic@%s:%s", s.op, pi.Site, core.PanicClass(pi.Val)), "seed %v, doc %s\npanic: %.300s\n%.1500s", sd, clip(s.doc, 300), pi.Val, pi.Stack)
			return r
		}
		if id2 != id {
			r.Add("harness|seed|pooled-object-not-returned", "seeded state machine was not the one taken back")
			continue
		}
		def := func(x, d int) int {
			if x < 0 {
				return d
			}
			return x
		}
		if rc != def(sd[0], 4096) {
			r.Count("resumed_reqs_cache", 1)
		}
		if kc != def(sd[1], 1024) {
			r.Count("resumed_key_cache", 1)
		}
		if fc != def(sd[2], 4096) {
			r.Count("resumed_field_cache", 1)
		}
		if oc, det := s.judge(o3, e3); oc != "" {
			r.Class = "violation"
			if o1, _ := s.judge(out, cerr); o1 == "" {
				oc = "cache-dependent:" + oc
			}
			r.Add(fmt.Sprintf("j2t.Do+seed|%s|%s", s.op, oc), "trigger %s, options %s, seeded cache capacities reqs/key/field=%v\ndoc %s\n%s", s.trigger, s.optName, sd, clip(s.doc, 400), det)
			break
		}
		if (e3 == nil) != (cerr == nil) || (e3 == nil && !bytes.Equal(o3, out)) {
			r.Class = "violation"
			r.Add(fmt.Sprintf("j2t.Do+seed|%s|cache-dependent:differs-from-Do", s.op), "seed %v\ndoc %s\nDo: %s err=%v\nseeded: %s err=%v", sd, clip(s.doc, 400), cliphex(out, 200), cerr, cliphex(o3, 200), e3)
			break
		}
	}
	return r
}

func (s *scen) Case() core.Case {
	return core.Case{Tag: s.op + ":" + s.trigger, Desc: s.desc, Run: s.run}
}

// ---------------------------------------------------------------------------------------------

type group struct {
	name string
	enum func(tier string, yield func(*scen) bool)
}

func (check) Groups(tier string, seed int64) []string {
	var n []string
	for _, g := range groups(tier) {
		n = append(n, g.name)
	}
	return n
}

func (check) Enumerate(tier string, seed int64, g int, yield func(core.Case) bool) {
	gs := groups(tier)
	jt.EnableAGW()
	gs[g].enum(tier, func(s *scen) bool { return yield(s.Case()) })
}

// SelfCheck: the JSON renderer and the number spellers denote what they claim, by encoding/json.
func (check) SelfCheck() error { return jt.SelfCheck() }

func ksFor(tier string, small bool) []int {
	if small {
		n := 17
		if tier == "thorough" {
			n = 40
		}
		var ks []int
		for k := 0; k <= n; k++ {
			ks = append(ks, k)
		}
		return append(ks, 63, 64, 65)
	}
	n := 64
	if tier == "thorough" {
		n = 160
	}
	var ks []int
	for k := 0; k <= n; k++ {
		ks = append(ks, k)
	}
	return ks
}
