package c02

import (
	"bytes"
	"context"
	"encoding/binary"
	"fmt"
	"strings"

	"github.com/cloudwego/dynamicgo/conv"
	"github.com/cloudwego/dynamicgo/thrift"
	"github.com/cloudwego/dynamicgo/thrift/base"

	"verif/checks/jt"
	"verif/ref/tbin"
)

// ---------------------------------------------------------------------------------------------
// native cache deviations

// keyOfLen builds a key of exactly n denoted bytes containing characters that need escapes.
func keyOfLen(n int, special string) []byte {
	b := bytes.Repeat([]byte("k"), n)
	if n > 0 {
		copy(b[n/2:], special)
		if len(special) > 0 && n >= 2*len(special)+2 {
			copy(b[n-len(special):], special)
		}
	}
	return b[:n]
}

func cacheKeyProg() (*jt.Prog, *tbin.Shape) {
	st := tbin.StructS(tbin.SField{ID: 1, Name: "m", S: tbin.MapS(tbin.Sc(tbin.STRING), tbin.Sc(tbin.I32))}, tbin.SField{ID: 2, Name: "a", S: tbin.Sc(tbin.I32)},
		tbin.SField{ID: 3, Name: "mm", S: tbin.MapS(tbin.Sc(tbin.STRING), tbin.MapS(tbin.Sc(tbin.STRING), tbin.Sc(tbin.STRING)))})
	return jt.NewProg("cache-keys", st), st
}

// enumCacheKeys: keys longer than the default key cache (1024), with and without escapes, as map keys,
// nested map keys and unknown struct keys; default-size pooled state machine.
func enumCacheKeys(tier string, yield func(*scen) bool) {
	p, _ := cacheKeyProg()
	lens := []int{1, 2, 511, 512, 513, 1022, 1023, 1024, 1025, 1026, 2047, 2048, 2049, 4095, 4096, 4097, 4098}
	if tier == "thorough" {
		lens = append(lens, 8191, 8192, 8193, 65535, 65536, 65537)
	}
	for _, n := range lens {
		for _, special := range []string{"", "\n", "\"", "é", "\\\t"} {
			if len(special) > n {
				continue
			}
			key := keyOfLen(n, special)
			for esc := 0; esc < 5; esc++ {
				sp := jt.Spell{Esc: esc}
				for role := 0; role < 4; role++ {
					var j *jt.J
					var want *tbin.Val
					rn := ""
					switch role {
					case 0: // map key, followed by a short key and a second long one (cache reuse)
						rn = "mapkey"
						j = jt.JObj().Add("m", (&jt.J{K: 'o'}).Add(string(key), jt.JNum("1")).Add("s\n", jt.JNum("2")).Add(string(key)+"x", jt.JNum("3"))).Add("a", jt.JNum("4"))
						want = tbin.Struct(tbin.F(1, tbin.Map(tbin.STRING, tbin.I32, tbin.Bin(key), tbin.I32v(1), tbin.Str("s\n"), tbin.I32v(2), tbin.Bin(append(append([]byte{}, key...), 'x')), tbin.I32v(3))), tbin.F(2, tbin.I32v(4)))
					case 1: // unknown struct member key
						rn = "unknown-key"
						j = jt.JObj().Add(string(key)+"?", jt.JNum("1")).Add("a", jt.JNum("4"))
						want = tbin.Struct(tbin.F(2, tbin.I32v(4)))
					case 2: // nested map keys at two levels
						rn = "nested-mapkey"
						j = jt.JObj().Add("mm", jt.JObj().Add(string(key), jt.JObj().Add(string(key), jt.JStr(key)).Add("t\t", jt.JStr([]byte("v")))))
						want = tbin.Struct(tbin.F(3, tbin.Map(tbin.STRING, tbin.MAP, tbin.Bin(key), tbin.Map(tbin.STRING, tbin.STRING, tbin.Bin(key), tbin.Bin(key), tbin.Str("t\t"), tbin.Str("v")))))
					case 3: // escaped spelling of a declared key after a long escaped unknown key
						rn = "declared-after-long"
						j = jt.JObj().Add(string(key)+"!", jt.JNull()).Add("a", jt.JNum("9"))
						want = tbin.Struct(tbin.F(2, tbin.I32v(9)))
					}
					sc := &scen{op: "cache-keys", trigger: fmt.Sprintf("%s,len=%s,special=%q,esc%d", rn, lenClass(n), special, esc), prog: p, optName: "none", doc: jt.Render(j, sp), want: tbin.Bytes(want), ks: ksFor(tier, true)}
					if !yield(sc) {
						return
					}
				}
			}
		}
	}
}

// enumCacheKeysRequired: the same long keys (as keys of a map) while a struct with REQUIRED fields is open, all
// of them already seen: the key cache and the requires-bitmap cache of the pooled state machine are neighbours
func enumCacheKeysRequired(tier string, yield func(*scen) bool) {
	i32 := tbin.Sc(tbin.I32)
	st := tbin.StructS(tbin.SField{ID: 1, Name: "m", S: tbin.MapS(tbin.Sc(tbin.STRING), i32), Req: 1}, tbin.SField{ID: 2, Name: "a", S: i32, Req: 1},
		tbin.SField{ID: 3, Name: "r3", S: i32, Req: 1}, tbin.SField{ID: 5, Name: "r5", S: i32, Req: 1}, tbin.SField{ID: 6, Name: "r6", S: i32, Req: 1},
		tbin.SField{ID: 9, Name: "r9", S: i32, Req: 1}, tbin.SField{ID: 70, Name: "r70", S: i32, Req: 1}, tbin.SField{ID: 4, Name: "o4", S: i32, Req: 2})
	p := jt.NewProg("cache-keys-required", st)
	lens := []int{1000, 1023, 1024, 1025, 1026, 1100, 2047, 2048, 2049, 4095, 4096, 4097, 5919, 5920, 5921, 6000}
	for _, n := range lens {
		for _, special := range []string{"", "\n", "é"} {
			key := keyOfLen(n, special)
			for esc := 0; esc < 5; esc++ {
				j := jt.JObj().Add("a", jt.JNum("4")).Add("r3", jt.JNum("3")).Add("r5", jt.JNum("5")).Add("r6", jt.JNum("6")).Add("r9", jt.JNum("9")).Add("r70", jt.JNum("70")).
					Add("m", (&jt.J{K: 'o'}).Add(string(key), jt.JNum("1")).Add("s", jt.JNum("2")))
				want := tbin.Struct(tbin.F(2, tbin.I32v(4)), tbin.F(3, tbin.I32v(3)), tbin.F(5, tbin.I32v(5)), tbin.F(6, tbin.I32v(6)), tbin.F(9, tbin.I32v(9)), tbin.F(70, tbin.I32v(70)),
					tbin.F(1, tbin.Map(tbin.STRING, tbin.I32, tbin.Bin(key), tbin.I32v(1), tbin.Str("s"), tbin.I32v(2))))
				sc := &scen{op: "cache-keys", trigger: fmt.Sprintf("mapkey-while-required-fields-open,len=%s,special=%q,esc%d", lenClass(n), special, esc), prog: p, optName: "none",
					doc: jt.Render(j, jt.Spell{Esc: esc}), want: tbin.Bytes(want), ks: []int{0, 3}}
				if !yield(sc) {
					return
				}
			}
		}
	}
}

func lenClass(n int) string {
	switch {
	case n < 512:
		return "<512"
	case n <= 1024:
		return "<=1024"
	case n <= 4096:
		return "<=4096"
	}
	return ">4096"
}

// enumCacheKeysSeeded: the pooled state machine is replaced by one with a tiny key cache (0..16 bytes), so
// ERR_OOM_KEY happens at short keys, at every nesting position.
func enumCacheKeysSeeded(tier string, yield func(*scen) bool) {
	p, _ := cacheKeyProg()
	caps := []int{0, 1, 2, 3, 4, 7, 8, 9, 15, 16, 17}
	var seeds [][3]int
	for _, c := range caps {
		seeds = append(seeds, [3]int{-1, c, -1})
	}
	keys := []string{"\n", "a\n", "ab\"c", "\\\\\\\\", "0123456\t", "01234567\t", "0123456789abcde\n", "é 😀\n"}
	for _, k1 := range keys {
		for _, k2 := range keys {
			for esc := 1; esc < 4; esc++ {
				j := jt.JObj().Add("m", jt.JObj().Add(k1, jt.JNum("1")).Add(k2+"2", jt.JNum("2"))).Add(k2+"?", jt.JArr()).Add("mm", jt.JObj().Add(k1, jt.JObj().Add(k2, jt.JStr([]byte(k1))))).Add("a", jt.JNum("3"))
				want := tbin.Struct(tbin.F(1, tbin.Map(tbin.STRING, tbin.I32, tbin.Str(k1), tbin.I32v(1), tbin.Str(k2+"2"), tbin.I32v(2))),
					tbin.F(3, tbin.Map(tbin.STRING, tbin.MAP, tbin.Str(k1), tbin.Map(tbin.STRING, tbin.STRING, tbin.Str(k2), tbin.Str(k1)))), tbin.F(2, tbin.I32v(3)))
				sc := &scen{op: "cache-keys-seeded", trigger: fmt.Sprintf("esc%d", esc), prog: p, optName: "none", doc: jt.Render(j, jt.Spell{Esc: esc}), want: tbin.Bytes(want), seeds: seeds}
				if !yield(sc) {
					return
				}
			}
		}
	}
}

// wideShape: a struct whose largest id needs a bitmap of (maxid/64+1) words.
func wideShape(maxID int16) *tbin.Shape {
	ids := []int16{1, 63, 64, 65, 255, 256, 257, 1000, 4095, 4096, 32767}
	st := tbin.StructS()
	for _, id := range ids {
		if id <= maxID {
			st.Fields = append(st.Fields, tbin.SField{ID: id, S: tbin.Sc(tbin.I32), Req: 2})
		}
	}
	if st.Fields[len(st.Fields)-1].ID != maxID {
		st.Fields = append(st.Fields, tbin.SField{ID: maxID, S: tbin.Sc(tbin.I32), Req: 2})
	}
	return st
}

// enumCacheReqs: nested structs whose requires-bitmaps together exceed the default ReqsCache (4096 bytes).
func enumCacheReqs(tier string, yield func(*scen) bool) {
	for _, maxID := range []int16{64, 257, 1000, 4096, 16383, 32767} {
		w := wideShape(maxID)
		mid := tbin.StructS(tbin.SField{ID: 1, Name: "w", S: w, Req: 2}, tbin.SField{ID: 2, Name: "ws", S: tbin.ListS(w), Req: 2}, tbin.SField{ID: maxID, Name: "z", S: tbin.Sc(tbin.I32), Req: 2})
		root := tbin.StructS(tbin.SField{ID: 1, Name: "m", S: mid, Req: 2}, tbin.SField{ID: 2, Name: "wm", S: tbin.MapS(tbin.Sc(tbin.STRING), mid), Req: 2}, tbin.SField{ID: maxID, Name: "z", S: tbin.Sc(tbin.I32), Req: 2})
		p := jt.Plain(root)
		for n := 0; n <= 3; n++ {
			g := &tbin.Gen{}
			v := g.Build(root, n)
			// all orders of the wide struct's fields: ascending (as built) and descending
			for _, rev := range []bool{false, true} {
				vv := tbin.Clone(v)
				if rev {
					reverseFields(vv)
				}
				j, ok := p.Doc(vv, root, jt.DocOpt{})
				if !ok {
					continue
				}
				for _, sp := range []jt.Spell{{}, {WS: 3}} {
					sc := &scen{op: "cache-reqs", trigger: fmt.Sprintf("maxid=%d,n=%d,rev=%v", maxID, min(n, 2), rev), prog: p, optName: "none", doc: jt.Render(j, sp), want: tbin.Bytes(vv), ks: ksFor(tier, true)}
					if !yield(sc) {
						return
					}
				}
			}
		}
	}
}

func reverseFields(v *tbin.Val) {
	if v.T == tbin.STRUCT {
		for i, j := 0, len(v.Fs)-1; i < j; i, j = i+1, j-1 {
			v.Fs[i], v.Fs[j] = v.Fs[j], v.Fs[i]
		}
	}
	for _, e := range v.L {
		reverseFields(e)
	}
	for _, f := range v.Fs {
		reverseFields(f.V)
	}
}

// enumCacheReqsSeeded: ReqsCache of 0..40 bytes under nested small structs (each level needs 8 bytes per bitmap
// word), combined with small key caches: every nesting level is a possible ERR_OOM_BM resume point.
func enumCacheReqsSeeded(tier string, yield func(*scen) bool) {
	var seeds [][3]int
	for _, c := range []int{0, 1, 7, 8, 9, 15, 16, 17, 24, 32, 40} {
		seeds = append(seeds, [3]int{c, -1, -1}, [3]int{c, 2, 0})
	}
	seeds = append(seeds, [3]int{-1, -1, 0}, [3]int{-1, -1, 1})
	shapes := []*tbin.Shape{}
	l3 := tbin.StructS(tbin.SF(1, tbin.Sc(tbin.I32)), tbin.SF(70, tbin.Sc(tbin.STRING)))
	l2 := tbin.StructS(tbin.SF(1, l3), tbin.SF(2, tbin.ListS(l3)), tbin.SF(3, tbin.Sc(tbin.I64)))
	l1 := tbin.StructS(tbin.SF(1, l2), tbin.SF(130, tbin.MapS(tbin.Sc(tbin.STRING), l2)), tbin.SF(2, tbin.Sc(tbin.BOOL)))
	shapes = append(shapes, l3, l2, l1, tbin.StructS(tbin.SF(1, tbin.ListS(tbin.ListS(l3)))))
	for _, root := range shapes {
		p := jt.Plain(root)
		for n := 0; n <= 3; n++ {
			g := &tbin.Gen{}
			v := g.Build(root, n)
			for _, sp := range []jt.Spell{{}, {WS: 2, Esc: 2}} {
				j, _ := p.Doc(v, root, jt.DocOpt{})
				// a null member and an unknown member with an escaped key inside every struct exercise unwind + key cache on resume
				sc := &scen{op: "cache-reqs-seeded", trigger: fmt.Sprintf("depth=%d,n=%d,%s", root.Depth(), min(n, 2), sp), prog: p, optName: "none", doc: jt.Render(j, sp), want: tbin.Bytes(v), seeds: seeds, ks: []int{0, 1}}
				if !yield(sc) {
					return
				}
			}
		}
	}
}

// enumWide: structs with 300 and 4100 declared fields (field-name map in hash mode, ids beyond 256 / 4096).
func enumWide(tier string, yield func(*scen) bool) {
	for _, nf := range []int{17, 300, 4100, -300, -303} {
		// -300: 300 fields again, one of them (in the middle) with a non-ASCII alias: the name table of such a struct
		// cannot be the hash map (its hash function is ASCII-only) although the names are poorly dispersed
		// -303: 300 fields plus three whose names have the same length and the same 32-bit DJB hash
		// (33*'a'+'z' == 33*'b'+'Y' == 33*'c'+'8')
		nonASCII := nf == -300
		collide := nf == -303
		if nf < 0 {
			nf = 300
		}
		st := tbin.StructS()
		for i := 1; i <= nf; i++ {
			t := tbin.Sc(tbin.I32)
			if i%7 == 0 {
				t = tbin.Sc(tbin.STRING)
			}
			st.Fields = append(st.Fields, tbin.SField{ID: int16(i), Name: fmt.Sprintf("field_%d_x", i), S: t, Req: 2})
		}
		if collide {
			for k, nm := range []string{"field_az_x", "field_bY_x", "field_c8_x"} {
				st.Fields = append(st.Fields, tbin.SField{ID: int16(301 + k), Name: nm, S: tbin.Sc(tbin.STRING), Req: 2})
			}
		}
		p := jt.NewProg(fmt.Sprintf("wide%d", len(st.Fields)), st)
		if nonASCII {
			p = jt.NewProg(fmt.Sprintf("wide%d-nonascii", nf), st)
			p.Set(st, nf/2, jt.FX{Alias: "键\u4e2d文", Ann: []string{`api.key = "键中文"`}})
		}
		g := &tbin.Gen{}
		full := g.Build(st, 1)
		variants := map[string]*tbin.Val{}
		order := []string{"all-ascending", "all-descending", "every-3rd", "last-only", "first-and-last"}
		variants["all-ascending"] = full
		d := tbin.Clone(full)
		reverseFields(d)
		variants["all-descending"] = d
		e3 := tbin.Struct()
		for i := 0; i < len(full.Fs); i += 3 {
			e3.Fs = append(e3.Fs, full.Fs[i])
		}
		variants["every-3rd"] = e3
		variants["last-only"] = tbin.Struct(full.Fs[len(full.Fs)-1])
		variants["first-and-last"] = tbin.Struct(full.Fs[len(full.Fs)-1], full.Fs[0])
		if collide {
			n := len(full.Fs)
			order = append(order, "colliding-1", "colliding-2", "colliding-3", "colliding-3-2-1")
			variants["colliding-1"] = tbin.Struct(full.Fs[n-3])
			variants["colliding-2"] = tbin.Struct(full.Fs[n-2])
			variants["colliding-3"] = tbin.Struct(full.Fs[n-1])
			variants["colliding-3-2-1"] = tbin.Struct(full.Fs[n-1], full.Fs[6], full.Fs[n-2], full.Fs[n-3])
		}
		for _, name := range order {
			v := variants[name]
			j, _ := p.Doc(v, st, jt.DocOpt{})
			for _, sp := range []jt.Spell{{}, {Esc: 2}} {
				if nf > 1000 && sp.Esc == 2 && name != "last-only" && name != "first-and-last" && tier != "thorough" {
					continue
				}
				sc := &scen{op: "wide", trigger: fmt.Sprintf("fields=%d,%s,%s", nf, name, sp) + map[bool]string{true: ",non-ascii-alias"}[nonASCII] + map[bool]string{true: ",colliding-names"}[collide], prog: p, optName: "none", doc: jt.Render(j, sp), want: tbin.Bytes(v), ks: []int{0, 1, 2, 3}}
				if !yield(sc) {
					return
				}
			}
		}
		// an unknown key that is a declared key plus / minus one byte, under Disallow
		// ... or (last) an undeclared key with the length and the DJB hash of the declared "field_1_x"
		for _, k := range []string{fmt.Sprintf("field_%d_", nf), fmt.Sprintf("field_%d_xx", nf), "field_0_x", "", "field_2>x"} {
			j := jt.JObj().Add(k, jt.JNum("1"))
			if !yield(&scen{op: "wide", trigger: fmt.Sprintf("fields=%d,near-miss-key,disallow", nf), prog: p, copts: conv.Options{DisallowUnknownField: true}, optName: "DisallowUnknownField", doc: jt.Render(j, jt.Spell{}), bad: true}) {
				return
			}
		}
	}
}

// ---------------------------------------------------------------------------------------------
// nesting depth: recursive struct / map / list-of-struct; up to and beyond the native stack (4096 states)

const recIDL = `namespace go verif
struct Node {
  1: optional Node n
  2: optional i32 v
  3: optional map<string,Node> m
  4: optional list<Node> l
}
service Svc {
  Node M(1: Node req)
}
`

func enumDepth(tier string, yield func(*scen) bool) {
	p := jt.RawProg("recursive", recIDL, tbin.STRUCT)
	depths := []int{1, 2, 10, 100, 255, 256, 257, 258, 511, 512, 513, 1000, 1364, 1365, 1366, 2000, 2040, 2046, 2047, 2048, 2049, 2050, 3000, 4000, 4080, 4090, 4093, 4094, 4095, 4096, 4097, 4098, 4100, 5000, 10000}
	if tier == "thorough" {
		for d := 1300; d < 1400; d++ {
			depths = append(depths, d)
		}
		for d := 2030; d < 2060; d++ {
			depths = append(depths, d)
		}
		depths = append(depths, 100000)
	}
	// the native parser keeps an explicit stack of 4096 states; how many states one level costs depends on the
	// constructor. Below limit/3 every document must convert; above it the oracle is "error or exact" (the exact
	// limit is not documented), and never a crash.
	for _, kind := range []string{"struct", "map", "list", "unknown-array", "unknown-object"} {
		for _, d := range depths {
			var doc, want bytes.Buffer
			switch kind {
			case "struct":
				for i := 0; i < d; i++ {
					doc.WriteString(`{"n":`)
					want.Write([]byte{12, 0, 1})
				}
				doc.WriteString(`{"v":7}`)
				want.Write([]byte{8, 0, 2, 0, 0, 0, 7, 0})
				for i := 0; i < d; i++ {
					doc.WriteString(`}`)
					want.WriteByte(0)
				}
			case "map":
				for i := 0; i < d; i++ {
					doc.WriteString(`{"m":{"k":`)
					want.Write([]byte{13, 0, 3, 11, 12, 0, 0, 0, 1, 0, 0, 0, 1, 'k'})
				}
				doc.WriteString(`{}`)
				want.WriteByte(0)
				for i := 0; i < d; i++ {
					doc.WriteString(`}}`)
					want.WriteByte(0)
				}
			case "list":
				for i := 0; i < d; i++ {
					doc.WriteString(`{"l":[`)
					want.Write([]byte{15, 0, 4, 12, 0, 0, 0, 1})
				}
				doc.WriteString(`{"v":-1}`)
				want.Write([]byte{8, 0, 2, 0xff, 0xff, 0xff, 0xff, 0})
				for i := 0; i < d; i++ {
					doc.WriteString(`]}`)
					want.WriteByte(0)
				}
			case "unknown-array":
				doc.WriteString(`{"zz":` + strings.Repeat("[", d) + strings.Repeat("]", d) + `,"v":1}`)
				want.Write([]byte{8, 0, 2, 0, 0, 0, 1, 0})
			case "unknown-object":
				doc.WriteString(`{"zz":` + strings.Repeat(`{"a":`, d) + "null" + strings.Repeat("}", d) + `,"v":1}`)
				want.Write([]byte{8, 0, 2, 0, 0, 0, 1, 0})
			}
			sc := &scen{op: "depth", trigger: fmt.Sprintf("%s,depth=%s", kind, depthClass(d)), prog: p, optName: "none", doc: doc.Bytes(), want: want.Bytes(), ks: []int{0, 1}, note: fmt.Sprintf("nesting depth %d", d)}
			if d > 1300 {
				sc.lenient = true
			}
			if !yield(sc) {
				return
			}
		}
	}
}

func depthClass(d int) string {
	switch {
	case d <= 256:
		return "<=256"
	case d <= 1300:
		return "<=1300"
	case d <= 4100:
		return "limit-region"
	}
	return "beyond"
}

// ---------------------------------------------------------------------------------------------
// output-buffer capacity sweep over a fixed set of documents that together contain every kind of write

func sweepDocs() []*scen {
	var out []*scen
	add := func(name string, p *jt.Prog, v *tbin.Val, j *jt.J, sp jt.Spell, o conv.Options, on string) {
		out = append(out, &scen{op: "bufsweep", trigger: name, prog: p, copts: o, optName: on, doc: jt.Render(j, sp), want: tbin.Bytes(v)})
	}
	// 1. all scalar kinds in one struct, short spellings (thrift output longer than the JSON)
	all := tbin.StructS(tbin.SF(1, tbin.Sc(tbin.BOOL)), tbin.SF(2, tbin.Sc(tbin.BYTE)), tbin.SF(3, tbin.Sc(tbin.I16)), tbin.SF(4, tbin.Sc(tbin.I32)), tbin.SF(5, tbin.Sc(tbin.I64)), tbin.SF(6, tbin.Sc(tbin.DOUBLE)), tbin.SF(7, tbin.Sc(tbin.STRING)), tbin.SF(8, tbin.BinS()))
	pa := jt.Plain(all)
	va := tbin.Struct(tbin.F(1, tbin.Bool(true)), tbin.F(2, tbin.Byte(1)), tbin.F(3, tbin.I16v(2)), tbin.F(4, tbin.I32v(3)), tbin.F(5, tbin.I64v(4)), tbin.F(6, tbin.Double(5)), tbin.F(7, tbin.Str("")), tbin.F(8, tbin.Bin(nil)))
	ja, _ := pa.Doc(va, all, jt.DocOpt{})
	add("scalars-short", pa, va, ja, jt.Spell{}, conv.Options{}, "none")
	// 2. lists of i64 / double written as one-digit numbers (8x expansion), nested lists
	ll := tbin.StructS(tbin.SF(1, tbin.ListS(tbin.Sc(tbin.I64))), tbin.SF(2, tbin.ListS(tbin.ListS(tbin.Sc(tbin.DOUBLE)))), tbin.SF(3, tbin.MapS(tbin.Sc(tbin.I64), tbin.Sc(tbin.I64))))
	pl := jt.Plain(ll)
	vl := tbin.Struct(tbin.F(1, tbin.List(tbin.I64, tbin.I64v(1), tbin.I64v(2), tbin.I64v(3), tbin.I64v(4), tbin.I64v(5))),
		tbin.F(2, tbin.List(tbin.LIST, tbin.List(tbin.DOUBLE, tbin.Double(1), tbin.Double(2)), tbin.List(tbin.DOUBLE), tbin.List(tbin.DOUBLE, tbin.Double(3)))),
		tbin.F(3, tbin.Map(tbin.I64, tbin.I64, tbin.I64v(1), tbin.I64v(2), tbin.I64v(3), tbin.I64v(4))))
	jl, _ := pl.Doc(vl, ll, jt.DocOpt{})
	add("int-lists", pl, vl, jl, jt.Spell{}, conv.Options{}, "none")
	// 3. strings with escapes (unquote path reserves the escaped length), base64 binaries
	ss := tbin.StructS(tbin.SF(1, tbin.ListS(tbin.Sc(tbin.STRING))), tbin.SF(3, tbin.MapS(tbin.Sc(tbin.STRING), tbin.Sc(tbin.STRING))))
	ps := jt.Plain(ss)
	vs := tbin.Struct(tbin.F(1, tbin.List(tbin.STRING, tbin.Str("a\nb"), tbin.Str(""), tbin.Str("é\"\\😀"), tbin.Str(strings.Repeat("x\t", 20)))),
		tbin.F(3, tbin.Map(tbin.STRING, tbin.STRING, tbin.Str("k\n"), tbin.Str("v\n"), tbin.Str(""), tbin.Str(""))))
	js, _ := ps.Doc(vs, ss, jt.DocOpt{})
	add("strings-esc1", ps, vs, js, jt.Spell{Esc: 1}, conv.Options{}, "none")
	add("strings-esc2", ps, vs, js, jt.Spell{Esc: 2}, conv.Options{}, "none")
	add("strings-raw", ps, vs, js, jt.Spell{WS: 2}, conv.Options{}, "none")
	bs := tbin.StructS(tbin.SF(2, tbin.ListS(tbin.BinS())), tbin.SF(3, tbin.MapS(tbin.Sc(tbin.STRING), tbin.BinS())))
	pb := jt.Plain(bs)
	vb := tbin.Struct(tbin.F(2, tbin.List(tbin.STRING, tbin.Bin([]byte{1}), tbin.Bin([]byte{1, 2}), tbin.Bin([]byte{1, 2, 3}), tbin.Bin(nil), tbin.Bin(bytes.Repeat([]byte{0xfe}, 33)))),
		tbin.F(3, tbin.Map(tbin.STRING, tbin.STRING, tbin.Str("k"), tbin.Bin(bytes.Repeat([]byte{7}, 100)))))
	jb, _ := pb.Doc(vb, bs, jt.DocOpt{})
	add("base64", pb, vb, jb, jt.Spell{}, conv.Options{}, "none")
	// 4. nulls (unwind) and unknown members between written members
	mp, _, _ := memberProg()
	jn := jt.JObj().Add("a", jt.JNull()).Add("zz", jt.JObj().Add("q", jt.JArr(jt.JNum("1")))).Add("c", jt.JObj().Add("y", jt.JNull()).Add("x", jt.JNum("1")).Add("y", jt.JNull())).Add("b", jt.JNull())
	vn := tbin.Struct(tbin.F(300, tbin.Struct(tbin.F(1, tbin.I32v(1)))))
	add("nulls-unknowns", mp, vn, jn, jt.Spell{}, conv.Options{}, "none")
	// 5. map with null values (key unwind) and empty containers
	mm := tbin.StructS(tbin.SF(1, tbin.MapS(tbin.Sc(tbin.STRING), tbin.Sc(tbin.I64))), tbin.SF(2, tbin.ListS(tbin.MapS(tbin.Sc(tbin.I32), tbin.ListS(tbin.Sc(tbin.BOOL))))))
	pm := jt.Plain(mm)
	jm := jt.JObj().Add("f1", jt.JObj().Add("a", jt.JNull()).Add("b", jt.JNum("1")).Add("c", jt.JNull())).Add("f2", jt.JArr(jt.JObj(), jt.JObj().Add("5", jt.JArr()).Add("6", jt.JArr(jt.JBool(true)))))
	vm := tbin.Struct(tbin.F(1, tbin.Map(tbin.STRING, tbin.I64, tbin.Str("b"), tbin.I64v(1))), tbin.F(2, tbin.List(tbin.MAP, tbin.Map(tbin.I32, tbin.LIST), tbin.Map(tbin.I32, tbin.LIST, tbin.I32v(5), tbin.List(tbin.BOOL), tbin.I32v(6), tbin.List(tbin.BOOL, tbin.Bool(true))))))
	add("map-nulls", pm, vm, jm, jt.Spell{}, conv.Options{}, "none")
	// 6. options paths: String2Int64 quoted numbers, value mapping, NoBase64
	op, ost := optProg()
	vo := tbin.Struct(tbin.F(1, tbin.I64v(1)), tbin.F(6, tbin.I64v(2)), tbin.F(7, tbin.Str("3")), tbin.F(3, tbin.Double(4)), tbin.F(4, tbin.Bin([]byte("raw"))), tbin.F(12, tbin.Double(5)))
	jo := jt.JObj()
	for _, f := range vo.Fs {
		i := jt.FieldIndex(ost, f.ID)
		x, _ := op.FieldDoc(f.V, ost, i, jt.DocOpt{QuoteNum: !op.FX(ost, i).JSConv, JSConv: 1, RawBin: true})
		jo.Add(op.Alias(ost, i), x)
	}
	add("options-all", op, vo, jo, jt.Spell{}, conv.Options{String2Int64: true, EnableValueMapping: true, NoBase64Binary: true}, "String2Int64+NoBase64Binary+EnableValueMapping")
	// 7. request base from the context in front of a short document (base struct and header written by Go before the native run)
	b := base.NewBase()
	b.LogID, b.Caller = "log-id-0123456789", "caller"
	bval := tbin.Struct(tbin.F(1, tbin.Str("log-id-0123456789")), tbin.F(2, tbin.Str("caller")), tbin.F(3, tbin.Str("")), tbin.F(4, tbin.Str("")))
	vbase := tbin.Struct(tbin.F(255, bval), tbin.F(2, tbin.I32v(1)))
	sb := &scen{op: "bufsweep", trigger: "ctx-base", prog: op, popts: thrift.Options{EnableThriftBase: true}, copts: conv.Options{EnableThriftBase: true}, optName: "EnableThriftBase",
		ctx: context.WithValue(context.Background(), conv.CtxKeyThriftReqBase, b), doc: []byte(`{"i":1}`), want: tbin.Bytes(vbase)}
	out = append(out, sb)
	return out
}

func enumBufSweep(tier string, part, parts int, yield func(*scen) bool) {
	kmax := 64
	if tier == "thorough" {
		kmax = 512
	}
	for i, sc := range sweepDocs() {
		if i%parts != part {
			continue
		}
		for k0 := 0; k0 <= kmax; k0 += 16 {
			c := *sc
			c.ks = nil
			for k := k0; k < k0+16 && k <= kmax; k++ {
				c.ks = append(c.ks, k)
			}
			c.note = fmt.Sprintf("capacity block %d..%d", k0, k0+15)
			c.trigger = sc.trigger
			if !yield(&c) {
				return
			}
		}
	}
}

var _ = binary.BigEndian
