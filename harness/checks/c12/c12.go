// Package c12: shared descriptors/buffers are safe for concurrent use; results are not aliased.
//
// (a) schedules: a controlled scheduler owns every sync.Pool operation of the library (vsync shim) and
// enumerates all interleavings of 2..3 goroutines up to a preemption bound;
// (b) histories: all sequential call histories up to a length bound under an adversarial pool
// (LIFO reuse + poison on Put), every result ever returned re-validated after every later call;
// (c) monitor: the same op bodies free-running under the race detector (separate binary).
package c12

import (
	"bytes"
	"fmt"
	"os"
	"os/exec"
	"path/filepath"
	"reflect"
	"strings"
	"time"
	"unsafe"

	"github.com/cloudwego/dynamicgo/vsync"

	"verif/engine/core"
	"verif/engine/sched"
)

type check struct{}

func init() { core.Register(check{}) }

func (check) ID() string    { return "C12" }
func (check) Level() string { return "model_checking" }
func (check) Rule() string {
	return "controlled scheduler (cooperative threads, scheduling points before every pool Get, before every Put and after every Put of every sync.Pool of the library via the vsync shim) + stateless DFS with iterative preemption bounding: every ordered pair of ops of the menu with preemption bound 2 (thorough 3), every triple of a 15-op core menu with bound 1 (thorough 2); each execution runs to completion and is checked: every result equals the op's solo result, shared inputs byte-identical (checksums), descriptor dump identical, no result's backing array overlaps an object sitting in a pool, no panic. Pools are poisoned on Put (bytes 0xDB / words all-ones beyond len) so that a use-after-put or a missing copy-out reads garbage. Histories: every sequence of <=3 (thorough 4) ops run sequentially under the same adversarial pool, all results kept and re-validated after every later call; states = distinct pool fingerprints. Race monitor: the op bodies free-running on 8 goroutines under -race (not exhaustive, monitor only). A case = one (pair|triple|history family); non-trivial if its threads touched at least one common pool; states/transitions/traces are measured. Later additions: 38-op menu / 16-op core menu (shuffled-id struct + DescriptorToPathNode, header value held by reference under NoCopyString, shared HTTP converters, shared Int642String p2j converter with a failing int64-key input), memory fingerprint of the descriptors around every case, reference results taken up front (succeeding ops first). Round 8: ops sharing one caller-owned name path over two struct types (argument must stay unchanged), j2p failing right behind an unknown root key. Round 9: forks of a shared path-only template through GetTree. Round 10: the text of a ConvertException error as a held result; identity cut with the input buffer reused (op assertions). Round 11: lazy load of another message on a pooled proto tree."
}
func (check) Assumptions() []string {
	return []string{"the only synchronisation objects of the library are sync.Pools (grep-verified at design time); data races on plain memory are left to the free-running -race monitor, whose silence adds no exhaustiveness claim", "within one pool operation-free segment a thread runs atomically (sound for properties about pool ownership, not for unsynchronised plain-memory races)", "poison-on-Put models 'memory from pool may be dirty'", "GOMAXPROCS=1 in workers"}
}
func (check) BudgetSeconds(tier string) int {
	if tier == "thorough" {
		return 2400
	}
	return 300
}

var coreMenu = []string{"j2t.Do(bad-middle)", "t2j.Do(cut-middle)", "j2t.HTTPConv.Do(fallback,missing-required)", "j2t.HTTPConv.Do(traceback,missing-required)", "j2t.HTTPConv.Do(traceback,ok)", "thrift.MarshalTo(Small,missing-required)", "j2t.HTTPConv.Do(no-body)", "j2t.HTTPConv.Do(fallback,write-default)", "j2t.Do(nested)", "t2j.Do(nested)", "j2t.HTTPConv.Do", "t2j.HTTPConv.Do", "p2j.Do(nested)", "p2j.Do(int64str,nested)", "t2j.Do(sparse,field-70-absent)", "t2j.Do(reply-wrapper,exception-100)", "t2j.Do(http,raw_body from IDL default)", "thrift.Load+Marshal(pooled)", "thrift.MarshalTo(Small)"}

type groupDef struct {
	name string
	kind string // pairs | triples | hist | race
	a    int    // first op index (pairs/triples) or first-op index (hist)
}

func groups(tier string) []groupDef {
	var g []groupDef
	for i := range opNames {
		g = append(g, groupDef{name: "pairs/" + opNames[i], kind: "pairs", a: i})
	}
	for i := range coreMenu {
		g = append(g, groupDef{name: "triples/" + coreMenu[i], kind: "triples", a: i})
	}
	for i := range opNames {
		g = append(g, groupDef{name: "hist/" + opNames[i], kind: "hist", a: i})
	}
	g = append(g, groupDef{name: "race-monitor", kind: "race"})
	return g
}

var fix *fixture

func sharedFixture() *fixture {
	if fix == nil {
		vsync.Controlled = false
		f, err := newFixture()
		if err != nil {
			panic(err)
		}
		fix = f
	}
	return fix
}

func (check) Groups(tier string, seed int64) []string {
	// NOTE: only names are needed in the parent; they are static strings derived from the menu.
	var names []string
	for _, g := range groups(tier) {
		names = append(names, g.name)
	}
	return names
}

type cdesc struct {
	Kind    string   `json:"kind"`
	Threads []string `json:"threads"`
	Bound   int      `json:"preemption_bound,omitempty"`
}

func (check) Enumerate(tier string, seed int64, group int, yield func(core.Case) bool) {
	f := sharedFixture()
	gd := groups(tier)[group]
	opIdx := func(name string) int {
		for i := range f.ops {
			if f.ops[i].name == name {
				return i
			}
		}
		panic("no op " + name)
	}
	switch gd.kind {
	case "pairs":
		bound := 2
		if tier == "thorough" {
			bound = 3
		}
		for j := range f.ops {
			ids := []int{gd.a, j}
			c := core.Case{Tag: "pair", Desc: func() interface{} { return cdesc{"pair", names(f, ids), bound} },
				Run: func() core.Result {
					return memGuard(f, names(f, ids), func() core.Result { return explore(f, ids, bound) })
				}}
			if !yield(c) {
				return
			}
		}
	case "triples":
		bound := 1
		if tier == "thorough" {
			bound = 2
		}
		a := opIdx(coreMenu[gd.a])
		for _, nb := range coreMenu {
			for _, nc := range coreMenu {
				ids := []int{a, opIdx(nb), opIdx(nc)}
				c := core.Case{Tag: "triple", Desc: func() interface{} { return cdesc{"triple", names(f, ids), bound} },
					Run: func() core.Result {
						return memGuard(f, names(f, ids), func() core.Result { return explore(f, ids, bound) })
					}}
				if !yield(c) {
					return
				}
			}
		}
	case "hist":
		depth := 3
		if tier == "thorough" {
			depth = 4
		}
		// all histories starting with op a: second op ranges over the whole menu, further ops over the core menu
		for j := -1; j < len(f.ops); j++ {
			j := j
			c := core.Case{Tag: "history", Desc: func() interface{} {
				ids := []int{gd.a}
				if j >= 0 {
					ids = append(ids, j)
				}
				return cdesc{Kind: fmt.Sprintf("histories of length <=%d with this prefix", depth), Threads: names(f, ids)}
			}, Run: func() core.Result {
				return memGuard(f, []string{f.ops[gd.a].name}, func() core.Result { return histories(f, gd.a, j, depth, opIdx) })
			}}
			if !yield(c) {
				return
			}
		}
	case "race":
		yield(core.Case{Tag: "race", Desc: func() interface{} {
			return cdesc{Kind: "race-monitor", Threads: []string{"8 goroutines x whole menu, free-running, -race build"}}
		},
			Run: func() core.Result { return raceMonitor() }})
	}
}

// memGuard runs one case between two fingerprints of the descriptors' reachable memory: the statement's "no
// read-side operation or conversion ever modifies ... the descriptor" for state no accessor exposes (lazily
// built lookup tables, caches hung on the descriptor). Deterministic: independent of the schedule.
func memGuard(f *fixture, ops []string, run func() core.Result) core.Result {
	before, terms := f.descMem()
	r := run()
	after, terms2 := f.descMem()
	r.Count("descriptor_memory_terms", int64(terms))
	if before != after {
		r.Add("descriptor|memory|modified-by-read-side-operation", "ops %v: the memory reachable from the shared descriptors changed while the case ran (fingerprint %016x over %d words -> %016x over %d words): a read-side operation or conversion wrote into the descriptor graph", ops, before, terms, after, terms2)
		r.Class = "violation"
	}
	return r
}

// MinConfirmations: a data race reported by the race detector is a proof of a race (no false positives), but
// whether the free-running monitor hits it depends on the OS schedule: one reproduction out of the re-runs is
// enough. Everything else must reproduce every time.
func (check) MinConfirmations(sig string, n int) int {
	if strings.HasPrefix(sig, "race-monitor|free-running|race@") {
		return 1
	}
	return n
}

func names(f *fixture, ids []int) []string {
	var n []string
	for _, i := range ids {
		n = append(n, f.ops[i].name)
	}
	return n
}

// ---- adversarial pool ----

// poison fills the spare capacity of every byte / word slice reachable from a pooled object.
func poison(x interface{}) {
	walkSlices(reflect.ValueOf(x), 0, func(p unsafe.Pointer, ln, cp int, elem uintptr, isByte bool) {
		if cp <= ln {
			return
		}
		n := uintptr(cp-ln) * elem
		b := unsafe.Slice((*byte)(unsafe.Pointer(uintptr(p)+uintptr(ln)*elem)), int(n))
		fill := byte(0xDB)
		if !isByte {
			fill = 0xFF
		}
		for i := range b {
			b[i] = fill
		}
	})
}

// walkSlices visits slices of pointer-free numeric elements reachable through pointers and struct fields.
func walkSlices(v reflect.Value, depth int, fn func(p unsafe.Pointer, ln, cp int, elem uintptr, isByte bool)) {
	if depth > 4 || !v.IsValid() {
		return
	}
	switch v.Kind() {
	case reflect.Ptr, reflect.Interface:
		if !v.IsNil() {
			walkSlices(v.Elem(), depth+1, fn)
		}
	case reflect.Struct:
		for i := 0; i < v.NumField(); i++ {
			walkSlices(v.Field(i), depth+1, fn)
		}
	case reflect.Slice:
		if v.IsNil() || v.Cap() == 0 {
			return
		}
		switch v.Type().Elem().Kind() {
		case reflect.Uint8, reflect.Int8:
			fn(unsafe.Pointer(v.Pointer()), v.Len(), v.Cap(), 1, true)
		case reflect.Uint64, reflect.Int64, reflect.Uint32, reflect.Int32, reflect.Uint16, reflect.Int16, reflect.Int, reflect.Uint, reflect.Uintptr:
			fn(unsafe.Pointer(v.Pointer()), v.Len(), v.Cap(), v.Type().Elem().Size(), false)
		}
	}
}

type span struct{ lo, hi uintptr }

// pooledSpans lists the memory ranges (whole capacity) of byte slices held by objects in the pools.
func pooledSpans() []span {
	var out []span
	for _, p := range vsync.Pools {
		for _, x := range p.Stack {
			walkSlices(reflect.ValueOf(x), 0, func(ptr unsafe.Pointer, ln, cp int, elem uintptr, isByte bool) {
				if isByte && cp > 0 {
					out = append(out, span{uintptr(ptr), uintptr(ptr) + uintptr(cp)})
				}
			})
		}
	}
	return out
}

func overlaps(b []byte, spans []span) bool {
	if cap(b) == 0 {
		return false
	}
	lo := uintptr(unsafe.Pointer(&b[:1][0]))
	hi := lo + uintptr(cap(b))
	for _, s := range spans {
		if lo < s.hi && s.lo < hi {
			return true
		}
	}
	return false
}

func sharesMemory(a, b []byte) bool {
	if cap(a) == 0 || cap(b) == 0 {
		return false
	}
	alo := uintptr(unsafe.Pointer(&a[:1][0]))
	blo := uintptr(unsafe.Pointer(&b[:1][0]))
	return alo < blo+uintptr(cap(b)) && blo < alo+uintptr(cap(a))
}

func poolFingerprint() string {
	var sb strings.Builder
	for _, p := range vsync.Pools {
		if len(p.Stack) == 0 {
			continue
		}
		fmt.Fprintf(&sb, "%s[", shortPool(p.Name()))
		for _, x := range p.Stack {
			tot := 0
			walkSlices(reflect.ValueOf(x), 0, func(ptr unsafe.Pointer, ln, cp int, elem uintptr, isByte bool) { tot += cp * int(elem) })
			fmt.Fprintf(&sb, "%d,", tot)
		}
		sb.WriteString("]")
	}
	return sb.String()
}

func shortPool(n string) string {
	n = strings.TrimPrefix(n, "github.com/cloudwego/dynamicgo/")
	return n
}

func resetPools(poisonOn bool) {
	vsync.Controlled = true
	vsync.Reset()
	vsync.Point = func(p *vsync.Pool, op string) { sched.Point(op + ":" + shortPool(p.Name())) }
	doublePut = ""
	vsync.OnPut = func(p *vsync.Pool, x interface{}) {
		// invariant of every object pool: an object is never put while it is already in the pool
		for _, y := range p.Stack {
			if samePointer(x, y) {
				doublePut = shortPool(p.Name())
			}
		}
		if poisonOn {
			poison(x)
		}
	}
	touched = map[string]bool{}
	vsync.OnGet = func(p *vsync.Pool, x interface{}, fresh bool) {
		touched[fmt.Sprintf("%d:%s", sched.Cur(), p.Name())] = true
	}
}

var touched map[string]bool
var doublePut string

func samePointer(a, b interface{}) bool {
	va, vb := reflect.ValueOf(a), reflect.ValueOf(b)
	if va.Kind() != reflect.Ptr || vb.Kind() != reflect.Ptr {
		return false
	}
	return va.Pointer() == vb.Pointer()
}

// ---- solo results ----

type solo struct {
	out []byte
	err bool
}

var solos map[int]solo

func soloOf(f *fixture, r *core.Result, i int) solo {
	if solos == nil {
		// the reference results of ALL ops are taken at once, the succeeding ops first: a failing call that leaves
		// something behind in a shared converter must not be able to shape the reference result of a later op
		solos = map[int]solo{}
		first := 0
		for k, n := range opNames {
			if n == "j2t.Do(flat)" {
				first = k
			}
		}
		for k := first; k < len(f.ops); k++ {
			soloOf(f, r, k)
		}
		for k := 0; k < first; k++ {
			soloOf(f, r, k)
		}
	}
	if s, ok := solos[i]; ok {
		return s
	}
	// clean pools, no poison; then again with poison: both must agree (history of length 1)
	argsWas := ""
	run := func(poisonOn bool) (solo, *core.PanicInfo) {
		resetPools(poisonOn)
		var s solo
		pi := core.Catch(func() {
			out, err := f.ops[i].run()
			s = solo{append([]byte{}, out...), err != nil}
		})
		if was, changed := f.argsRestore(); changed {
			argsWas = was
		}
		for _, what := range f.failed {
			r.Add("solo|"+f.ops[i].name+"|assertion-of-the-op-failed", "op %s alone: %s", f.ops[i].name, what)
		}
		f.failed = nil
		return s, pi
	}
	a, pa := run(false)
	b, pb := run(true)
	if pa != nil || pb != nil {
		pi := pa
		if pi == nil {
			pi = pb
		}
		r.Add("solo|"+f.ops[i].name+"|panic@"+pi.Site+":"+core.PanicClass(pi.Val), "op %s alone panics: %s\n%s", f.ops[i].name, pi.Val, pi.Stack)
	} else if a.err != b.err || !bytes.Equal(a.out, b.out) {
		r.Add("solo|"+f.ops[i].name+"|poison-changes-result", "op %s alone: result with dirty pool memory differs: %q vs %q", f.ops[i].name, trunc(a.out), trunc(b.out))
	}
	if argsWas != "" {
		was := argsWas
		r.Add("solo|"+f.ops[i].name+"|rewrites-argument-shared-by-callers", "op %s alone: the path slice the caller passed (and shares with other calls) reads %s afterwards, %s before", f.ops[i].name, was, f.argsDump())
	}
	solos[i] = a
	return a
}

func trunc(b []byte) string {
	if len(b) > 160 {
		return fmt.Sprintf("%q...(%d)", b[:160], len(b))
	}
	return fmt.Sprintf("%q", b)
}

// ---- (a) schedules ----

func explore(f *fixture, ids []int, bound int) core.Result {
	r := core.Result{Class: "ok"}
	var want []solo
	for _, i := range ids {
		want = append(want, soloOf(f, &r, i))
	}
	if len(r.Viol) > 0 {
		r.Class = "violation"
		return r
	}
	label := strings.Join(names(f, ids), " || ")
	trig := fmt.Sprintf("threads=%d", len(ids))
	results := make([][]byte, len(ids))
	errs := make([]error, len(ids))
	shared := false
	reported := map[string]bool{}
	add := func(sig, format string, a ...interface{}) {
		if !reported[sig] {
			reported[sig] = true
			r.Add(sig, format, a...)
		}
	}
	mk := func() []func() {
		resetPools(true)
		var bodies []func()
		for k, i := range ids {
			k, i := k, i
			results[k], errs[k] = nil, nil
			bodies = append(bodies, func() { results[k], errs[k] = f.ops[i].run() })
		}
		return bodies
	}
	var schedules, points int64
	st := sched.Explore(mk, bound, 2000000, func(e *sched.Exec) bool {
		schedules++
		points += int64(len(e.Points))
		sch := fmt.Sprint(e.Choices)
		if e.Err != nil {
			add("sched|"+trig+"|harness-error", "%s: %v (schedule %s)", label, e.Err, sch)
			return false
		}
		// did the threads share a pool?
		pools := map[string]int{}
		for k := range touched {
			parts := strings.SplitN(k, ":", 2)
			pools[parts[1]]++
		}
		for _, n := range pools {
			if n > 1 {
				shared = true
			}
		}
		if doublePut != "" {
			add("schedule|pool:"+doublePut+"|double-put", "%s: an object was put into pool %s while it was already there (schedule %s)", label, doublePut, sch)
		}
		spans := pooledSpans()
		for k, i := range ids {
			name := f.ops[i].name
			if pv, stack := e.PanicOf(k); pv != "" {
				add("schedule|"+name+"|panic:"+core.PanicClass(pv), "%s: thread %d (%s) panicked under schedule %s: %s\n%s", label, k, name, sch, pv, stack)
				continue
			}
			if (errs[k] != nil) != want[k].err {
				add("schedule|"+name+"|error-differs-from-solo", "%s: thread %d (%s) err=%v, solo err=%v, schedule %s", label, k, name, errs[k], want[k].err, sch)
				continue
			}
			if errs[k] == nil && !bytes.Equal(results[k], want[k].out) {
				add("schedule|"+name+"|result-differs-from-solo", "%s: thread %d (%s) result %s, solo %s, schedule %s", label, k, name, trunc(results[k]), trunc(want[k].out), sch)
			}
			if errs[k] == nil && overlaps(results[k], spans) {
				add("schedule|"+name+"|result-aliases-pooled-buffer", "%s: the result of thread %d (%s) shares memory with an object in a pool, schedule %s", label, k, name, sch)
			}
		}
		for k := range ids {
			for l := k + 1; l < len(ids); l++ {
				if errs[k] == nil && errs[l] == nil && sharesMemory(results[k], results[l]) {
					add("schedule|"+f.ops[ids[k]].name+"|results-alias-each-other", "%s: the results of threads %d and %d share memory, schedule %s", label, k, l, sch)
				}
			}
		}
		if bad := f.inputsIntact(); bad != "" {
			add("schedule|"+trig+"|input-modified", "%s: shared input(s) %s modified, schedule %s", label, bad, sch)
			return false
		}
		if d := f.dumpDescs(); d != f.descDump {
			add("schedule|"+trig+"|descriptor-modified", "%s: descriptor dump changed, schedule %s", label, sch)
			return false
		}
		return true
	})
	r.Count("schedules", schedules)
	r.Count("states", points) // every scheduling point is a visited state of the execution tree
	r.Count("transitions", points)
	r.Count("traces_validated_against_impl", schedules)
	if st.Capped {
		r.Count("capped_explorations", 1)
	}
	if shared {
		r.Key = label
		r.Class = fmt.Sprintf("ok:shared-pool,maxpoints=%d", st.MaxPoints/8*8)
	} else {
		r.Class = "ok:disjoint-pools"
	}
	if len(r.Viol) > 0 {
		r.Class = "violation"
	}
	return r
}

// ---- (b) histories ----

func histories(f *fixture, a, b, depth int, opIdx func(string) int) core.Result {
	r := core.Result{Class: "ok"}
	var menu []int
	for _, n := range coreMenu {
		menu = append(menu, opIdx(n))
	}
	prefix := []int{a}
	if b >= 0 {
		prefix = append(prefix, b)
	}
	for _, i := range append(append([]int{}, prefix...), menu...) {
		soloOf(f, &r, i)
	}
	if len(r.Viol) > 0 {
		r.Class = "violation"
		return r
	}
	var nhist, ncalls int64
	states := map[string]bool{}
	reported := map[string]bool{}
	var rec func(h []int)
	run := func(h []int) {
		nhist++
		resetPools(true)
		kept := make([][]byte, 0, len(h))
		var hn []string
		for step, i := range h {
			hn = append(hn, f.ops[i].name)
			var out []byte
			var err error
			pi := core.Catch(func() { out, err = f.ops[i].run() })
			ncalls++
			name := f.ops[i].name
			add := func(sig, format string, x ...interface{}) {
				if !reported[sig] {
					reported[sig] = true
					r.Add(sig, format, x...)
				}
			}
			if pi != nil {
				add("history|"+name+"|panic@"+pi.Site+":"+core.PanicClass(pi.Val), "history %v: call %d panicked: %s\n%s", hn, step, pi.Val, pi.Stack)
				return
			}
			w := solos[i]
			if (err != nil) != w.err {
				add("history|"+name+"|error-differs-from-solo", "history %v: call %d err=%v, solo err=%v", hn, step, err, w.err)
			} else if err == nil && !bytes.Equal(out, w.out) {
				add("history|"+name+"|result-differs-from-solo", "history %v: call %d returned %s, solo %s", hn, step, trunc(out), trunc(w.out))
			}
			if err == nil && overlaps(out, pooledSpans()) {
				add("history|"+name+"|result-aliases-pooled-buffer", "history %v: the result of call %d shares memory with an object in a pool", hn, step)
			}
			for k := range kept {
				if err == nil && sharesMemory(out, kept[k]) {
					add("history|"+name+"|results-alias-each-other", "history %v: the result of call %d shares memory with the result of call %d", hn, step, k)
				}
			}
			kept = append(kept, out)
			// every result returned earlier is still intact
			for k := 0; k < step; k++ {
				wk := solos[h[k]]
				if !wk.err && !bytes.Equal(kept[k], wk.out) {
					add("history|"+f.ops[h[k]].name+"|earlier-result-changed-by:"+name, "history %v: the result of call %d changed after call %d: now %s", hn, k, step, trunc(kept[k]))
				}
			}
			states[poolFingerprint()] = true
			if doublePut != "" {
				add("history|pool:"+doublePut+"|double-put", "history %v: an object was put into pool %s while it was already there", hn, doublePut)
			}
		}
		if bad := f.inputsIntact(); bad != "" {
			r.Add("history|any|input-modified", "history %v: shared input(s) %s modified", hn, bad)
		}
		if d := f.dumpDescs(); d != f.descDump {
			r.Add("history|any|descriptor-modified", "history %v: descriptor dump changed", hn)
		}
	}
	rec = func(h []int) {
		run(h)
		if len(h) >= depth {
			return
		}
		for _, i := range menu {
			rec(append(append([]int{}, h...), i))
		}
	}
	rec(prefix)
	r.Count("histories", nhist)
	r.Count("states", int64(len(states)))
	r.Count("transitions", ncalls)
	r.Count("traces_validated_against_impl", nhist)
	r.Key = "hist:" + strings.Join(names(f, prefix), ";")
	r.Class = fmt.Sprintf("ok:histories,poolstates=%d", len(states))
	if len(r.Viol) > 0 {
		r.Class = "violation"
	}
	return r
}

// ---- (c) race monitor ----

func raceMonitor() core.Result {
	r := core.Result{Class: "race-monitor:clean", Key: "race-monitor"}
	exe, _ := os.Executable()
	race := filepath.Join(filepath.Dir(exe), "verif-race")
	if _, err := os.Stat(race); err != nil {
		r.Class = "race-monitor:binary-missing"
		r.Key = ""
		return r
	}
	cmd := exec.Command(race, "c12-racemon")
	cmd.Env = append(os.Environ(), "GORACE=halt_on_error=1 exitcode=66", "GOMAXPROCS=8")
	var buf bytes.Buffer
	cmd.Stdout, cmd.Stderr = &buf, &buf
	if err := cmd.Start(); err != nil {
		r.Class = "race-monitor:cannot-start"
		r.Key = ""
		return r
	}
	done := make(chan error, 1)
	go func() { done <- cmd.Wait() }()
	var err error
	deadline := time.After(400 * time.Second)
wait:
	for {
		select {
		case err = <-done:
			break wait
		case <-time.After(2 * time.Second):
			core.Alive() // the monitor is a single long case: keep the parent's watchdog informed
		case <-deadline:
			// internal deadline: the monitor is not an oracle for time; report and move on (no violation)
			cmd.Process.Kill()
			<-done
			r.Class = "race-monitor:internal-deadline"
			r.Key = ""
			r.Count("race_monitor_deadline", 1)
			return r
		}
	}
	out := buf.Bytes()
	if strings.Contains(string(out), "DATA RACE") {
		// signature: the first two dynamicgo frames of the report
		sig := "race"
		for _, ln := range strings.Split(string(out), "\n") {
			ln = strings.TrimSpace(ln)
			if strings.HasPrefix(ln, "github.com/cloudwego/dynamicgo/") {
				sig += "@" + strings.TrimPrefix(strings.SplitN(ln, "(", 2)[0], "github.com/cloudwego/dynamicgo/")
				break
			}
		}
		o := string(out)
		if len(o) > 3000 {
			o = o[:3000]
		}
		r.Add("race-monitor|free-running|"+sig, "data race reported by the -race build:\n%s", o)
		r.Class = "violation"
	} else if err != nil {
		r.Add("race-monitor|free-running|monitor-failed", "race monitor exited with %v:\n%s", err, tail(string(out)))
		r.Class = "violation"
	}
	r.Count("race_monitor_runs", 1)
	return r
}

func tail(s string) string {
	if len(s) > 2000 {
		return s[len(s)-2000:]
	}
	return s
}

// RaceMonMain is the body of the free-running race monitor (run in the -race build).
func RaceMonMain() int {
	vsync.Controlled = false
	f, err := newFixture()
	if err != nil {
		fmt.Fprintln(os.Stderr, err)
		return 2
	}
	done := make(chan int, 8)
	for g := 0; g < 8; g++ {
		go func(g int) {
			n := 0
			for it := 0; it < 60; it++ {
				for k := range f.ops {
					i := (k + g*3) % len(f.ops)
					func() {
						defer func() { recover() }()
						out, _ := f.ops[i].run()
						n += len(out)
					}()
				}
			}
			done <- n
		}(g)
	}
	tot := 0
	for g := 0; g < 8; g++ {
		tot += <-done
	}
	fmt.Println("racemon done", tot)
	return 0
}
