package c12

import (
	"bytes"
	"context"
	"encoding/binary"
	"fmt"
	"hash/crc32"
	"math"
	stdhttp "net/http"
	"sort"
	"strings"
	"unsafe"
	"verif/ref/deephash"

	"github.com/cloudwego/dynamicgo/conv"
	"github.com/cloudwego/dynamicgo/conv/j2p"
	"github.com/cloudwego/dynamicgo/conv/j2t"
	"github.com/cloudwego/dynamicgo/conv/p2j"
	"github.com/cloudwego/dynamicgo/conv/t2j"
	dhttp "github.com/cloudwego/dynamicgo/http"
	"github.com/cloudwego/dynamicgo/meta"
	"github.com/cloudwego/dynamicgo/proto"
	pgeneric "github.com/cloudwego/dynamicgo/proto/generic"
	"github.com/cloudwego/dynamicgo/thrift"
	"github.com/cloudwego/dynamicgo/thrift/generic"
	"google.golang.org/protobuf/encoding/protowire"

	"verif/ref/tbin"
)

const thriftIDL = `namespace go verif
struct Inner {
  1: i32 a
  2: string b
}
struct Req {
  1: string msg (api.query = "msg")
  2: list<Inner> items
  3: map<string,i64> m
  4: optional binary bin
  5: required i32 code (api.header = "code")
  6: optional Inner one
}
struct Small {
  1: string msg
  5: required i32 code
}
struct Resp {
  1: string msg (api.header = "X-Msg")
  2: list<Inner> items
  5: required i32 code (api.http_code = "")
}
struct Inner2 {
  3: i32 c
  1: i32 a
  2: string b
}
struct Shuffled {
  5: string e
  2: i32 b
  9: Inner2 inner
  1: bool flag
}
exception Boom {
  1: string msg
}
struct Sparse {
  1: string a
  70: string b
}
service Svc {
  Resp M(1: Req req) throws (100: Boom err) (api.post = "/m")
  Small Cut(1: Small req)
  Shuffled Shuf(1: Shuffled req)
  Sparse Sp(1: Sparse req)
}
`

// a second, independent parse with UseDefaultValue: a response field with an IDL default delivered as raw body
const defaultsIDL = `namespace go verif2
struct RB {
  1: string body = "PING-default-body" (api.raw_body = "")
  2: i32 x
}
service Svc2 {
  RB D(1: RB req)
}
`

const protoIDL = `syntax = "proto3";
package pb3;
option go_package = "pb/verif";
message Inner {
  int32 a = 1;
  string b = 2;
}
message Req {
  string msg = 1;
  repeated Inner items = 2;
  map<string, int64> m = 3;
  bytes bin = 4;
  int32 code = 5;
  repeated int32 nums = 6;
  map<int64, string> mi = 7;
  int64 big = 8;
}
message Small {
  string msg = 1;
  int32 code = 5;
}
service Svc {
  rpc M(Req) returns (Req);
  rpc Cut(Small) returns (Small);
}
`

var opNames = []string{
	"j2t.Do(bad-start)",
	"j2t.Do(bad-middle)",
	"j2t.Do(bad-end)",
	"j2t.Do(missing-required)",
	"j2t.Do(tiny)",
	"j2t.Do(ends-in-0)",
	"t2j.Do(cut-middle)",
	"t2j.Do(cut-end)",
	"j2p.Do(bad)",
	"j2p.Do(cut-behind-unknown-root-key)",
	"p2j.Do(cut)",
	"p2j.Do(int64str,cut-in-int64-key)",
	"j2t.HTTPConv.Do(fallback,missing-required)",
	"j2t.HTTPConv.Do(traceback,missing-required)",
	"thrift.MarshalTo(Small,missing-required)",
	"j2t.Do(flat)",
	"j2t.Do(nested)",
	"j2t.DoInto(nested)",
	"t2j.Do(flat)",
	"t2j.Do(nested)",
	"t2j.DoInto(nested)",
	"j2t.HTTPConv.Do",
	"j2t.HTTPConv.Do(no-body)",
	"j2t.HTTPConv.Do(fallback,write-default)",
	"j2t.HTTPConv.Do(traceback,ok)",
	"j2t.HTTPConv.Do(form)",
	"t2j.HTTPConv.Do",
	"t2j.HTTPConv.Do(NoCopyString,header)",
	"t2j.Do(sparse,field-70-absent)",
	"t2j.Do(reply-wrapper,exception-100)",
	"t2j.Do(ConvertException): text of the returned error",
	"t2j.Do(http,raw_body from IDL default)",
	"j2p.Do(nested)",
	"p2j.Do(nested)",
	"p2j.Do(int64str,nested)",
	"thrift.GetByPath+Interface",
	"thrift.GetByPath(shared name path,Inner)",
	"thrift.GetByPath(shared name path,Sparse)",
	"thrift.SetByPath(shared name path,Sparse)",
	"thrift.GetTree(fork of shared template,nested)",
	"thrift.GetTree(fork of shared template,other message)",
	"thrift.Load+Marshal(pooled)",
	"thrift.MarshalTo(Small)",
	"thrift.MarshalTo(the value's own descriptor object), caller then reuses its input buffer",
	"thrift.SetMany(fork)",
	"thrift.DescriptorToPathNode(Shuffled)",
	"proto.Load+Marshal(pooled)",
	"proto.Load(lazy)+Marshal(pooled,flat message)",
	"proto.MarshalTo(Small)",
	"idl.lookups",
}

// An op is one call of the library on shared fixtures. It returns the bytes the caller gets back
// (nil on error) and whether the call failed.
type op struct {
	name string
	run  func() ([]byte, error)
}

type fixture struct {
	svc     *thrift.ServiceDescriptor
	svc2    *thrift.ServiceDescriptor // parsed with UseDefaultValue
	hcResp2 *t2j.HTTPConv
	sparseT *thrift.TypeDescriptor
	innerT  *thrift.TypeDescriptor
	// arguments the callers own and share (read-only for the library): a path used by several ops
	sharedPath, sharedPathInit []generic.Path
	// a path-only query tree (what GetTree / Assgin take) shared by every caller: each call forks it
	template generic.PathNode
	// assertions of the ops themselves (collected by soloOf / the explorers after every run)
	failed   []string
	reqT     *thrift.TypeDescriptor
	respT    *thrift.TypeDescriptor
	smallT   *thrift.TypeDescriptor
	shufT    *thrift.TypeDescriptor // a struct (and a nested one) whose field ids are declared in non-ascending order
	fnM      *thrift.FunctionDescriptor
	psvc     *proto.ServiceDescriptor
	preqT    *proto.TypeDescriptor
	psmallT  *proto.TypeDescriptor
	inputs   map[string][]byte // shared read-only inputs
	sums     map[string]uint32
	ops      []op
	j2tc     j2t.BinaryConv
	t2jc     t2j.BinaryConv
	j2pc     j2p.BinaryConv
	p2jc     p2j.BinaryConv
	p2jc64   p2j.BinaryConv // Int642String: shared like the others
	hcReq    *j2t.HTTPConv  // ONE HTTP converter per direction shared by every op (each call brings its own options)
	hcResp   *t2j.HTTPConv
	descDump string
}

func thriftReq(nItems int, withOne bool) *tbin.Val {
	items := &tbin.Val{T: tbin.LIST, ET: tbin.STRUCT}
	for i := 0; i < nItems; i++ {
		items.L = append(items.L, tbin.Struct(tbin.F(1, tbin.I32v(int32(10+i))), tbin.F(2, tbin.Str(fmt.Sprintf("item-%d", i)))))
	}
	v := tbin.Struct(
		tbin.F(1, tbin.Str("hello \"world\"\n")),
		tbin.F(2, items),
		tbin.F(3, tbin.Map(tbin.STRING, tbin.I64, tbin.Str("k1"), tbin.I64v(1), tbin.Str("k2"), tbin.I64v(math.MaxInt64))),
		tbin.F(4, tbin.Bin([]byte{0, 1, 2, 0xff})),
		tbin.F(5, tbin.I32v(7)),
	)
	if withOne {
		v.Fs = append(v.Fs, tbin.F(6, tbin.Struct(tbin.F(1, tbin.I32v(-1)), tbin.F(2, tbin.Str("one")))))
	}
	return v
}

func protoReq(nItems int) []byte {
	var b []byte
	b = protowire.AppendTag(b, 1, protowire.BytesType)
	b = protowire.AppendString(b, "hello \"pb\"")
	for i := 0; i < nItems; i++ {
		var in []byte
		in = protowire.AppendTag(in, 1, protowire.VarintType)
		in = protowire.AppendVarint(in, uint64(10+i))
		in = protowire.AppendTag(in, 2, protowire.BytesType)
		in = protowire.AppendString(in, fmt.Sprintf("item-%d", i))
		b = protowire.AppendTag(b, 2, protowire.BytesType)
		b = protowire.AppendBytes(b, in)
	}
	var e []byte
	e = protowire.AppendTag(e, 1, protowire.BytesType)
	e = protowire.AppendString(e, "k1")
	e = protowire.AppendTag(e, 2, protowire.VarintType)
	e = protowire.AppendVarint(e, 5)
	b = protowire.AppendTag(b, 3, protowire.BytesType)
	b = protowire.AppendBytes(b, e)
	b = protowire.AppendTag(b, 4, protowire.BytesType)
	b = protowire.AppendBytes(b, []byte{0, 1, 0xff})
	b = protowire.AppendTag(b, 5, protowire.VarintType)
	b = protowire.AppendVarint(b, 7)
	b = protowire.AppendTag(b, 6, protowire.BytesType)
	b = protowire.AppendBytes(b, []byte{1, 2, 0x96, 0x01})
	b = protowire.AppendTag(b, 8, protowire.VarintType)
	b = protowire.AppendVarint(b, 1234567890123)
	for _, k := range []uint64{7, 1 << 40} {
		var e []byte
		e = protowire.AppendTag(e, 1, protowire.VarintType)
		e = protowire.AppendVarint(e, k)
		e = protowire.AppendTag(e, 2, protowire.BytesType)
		e = protowire.AppendString(e, "seven")
		b = protowire.AppendTag(b, 7, protowire.BytesType)
		b = protowire.AppendBytes(b, e)
	}
	return b
}

// protoBadInt64Key: the message with one more entry of map<int64,string> whose lengths are consistent but whose
// key is an overflowing varint (eleven bytes): the error is raised exactly while the key is read.
func protoCutInInt64Key(full []byte) []byte {
	var e []byte
	e = protowire.AppendTag(e, 1, protowire.VarintType)
	e = append(e, 0xff, 0xff, 0xff, 0xff, 0xff, 0xff, 0xff, 0xff, 0xff, 0xff, 0x01)
	e = protowire.AppendTag(e, 2, protowire.BytesType)
	e = protowire.AppendString(e, "x")
	b := append([]byte{}, full...)
	b = protowire.AppendTag(b, 7, protowire.BytesType)
	return protowire.AppendBytes(b, e)
}

type respSetter struct {
	code    int
	headers []string
	body    []byte
}

func (r *respSetter) SetStatusCode(c int) error   { r.code = c; return nil }
func (r *respSetter) SetHeader(k, v string) error { r.headers = append(r.headers, k+"="+v); return nil }
func (r *respSetter) SetCookie(k, v string) error {
	r.headers = append(r.headers, "cookie:"+k+"="+v)
	return nil
}
func (r *respSetter) SetRawBody(b []byte) error { r.body = b; return nil }
func (r *respSetter) dump() []byte {
	return []byte(fmt.Sprintf("%d|%s|%s", r.code, strings.Join(r.headers, ","), r.body))
}

// strBytes: the memory of s as a byte slice (no copy).
func strBytes(s string) []byte {
	h := (*[2]uintptr)(unsafe.Pointer(&s))
	var b []byte
	bh := (*[3]uintptr)(unsafe.Pointer(&b))
	bh[0], bh[1], bh[2] = h[0], h[1], h[1]
	return b
}

// aliasSetter keeps the header value string itself (respSetter builds new strings).
type aliasSetter struct {
	header string
	body   []byte
}

func (r *aliasSetter) SetStatusCode(c int) error { return nil }
func (r *aliasSetter) SetHeader(k, v string) error {
	if k == "X-Msg" {
		r.header = v
	}
	return nil
}
func (r *aliasSetter) SetCookie(k, v string) error { return nil }
func (r *aliasSetter) SetRawBody(b []byte) error {
	if r.body == nil {
		r.body = b // the first body handed over (the field mapped to the raw body)
	}
	return nil
}

func newFixture() (*fixture, error) {
	f := &fixture{inputs: map[string][]byte{}, sums: map[string]uint32{}}
	ctx := context.Background()
	svc, err := thrift.Options{}.NewDescritorFromContent(ctx, "a/b/main.thrift", thriftIDL, nil, false)
	if err != nil {
		return nil, fmt.Errorf("thrift idl: %v", err)
	}
	f.svc = svc
	f.fnM = svc.Functions()["M"]
	f.reqT = f.fnM.Request().Struct().FieldById(1).Type()
	f.respT = f.fnM.Response().Struct().FieldById(0).Type()
	f.smallT = svc.Functions()["Cut"].Request().Struct().FieldById(1).Type()
	f.shufT = svc.Functions()["Shuf"].Request().Struct().FieldById(1).Type()
	f.innerT = f.reqT.Struct().FieldById(6).Type()
	f.sparseT = svc.Functions()["Sp"].Response().Struct().FieldById(0).Type()
	svc2, err := thrift.Options{UseDefaultValue: true}.NewDescritorFromContent(ctx, "a/b/defaults.thrift", defaultsIDL, nil, false)
	if err != nil {
		return nil, fmt.Errorf("thrift idl 2: %v", err)
	}
	f.svc2 = svc2
	f.hcResp2 = t2j.NewHTTPConv(meta.EncodingThriftBinary, svc2.Functions()["D"])
	psvc, err := proto.NewDescritorFromContent(ctx, "a/b/main.proto", protoIDL, map[string]string{})
	if err != nil {
		return nil, fmt.Errorf("proto idl: %v", err)
	}
	f.psvc = psvc
	f.preqT = psvc.LookupMethodByName("M").Input()
	f.psmallT = psvc.LookupMethodByName("Cut").Input()

	in := f.inputs
	in["json-flat"] = []byte(`{"msg":"flat","code":3}`)
	in["json-nested"] = []byte(`{"msg":"he\"llo\n","items":[{"a":1,"b":"x"},{"a":2,"b":"yé"}],"m":{"k1":1,"k2":9007199254740993},"bin":"AAEC/w==","code":7,"one":{"a":-1,"b":"one"}}`)
	in["json-bad-start"] = []byte(`[{"msg":"flat","code":3}`)
	in["json-bad-middle"] = []byte(`{"msg":"he","items":[{"a":1,"b":"x"},{"a":"oops"}],"code":7}`)
	in["json-bad-end"] = []byte(`{"msg":"he","items":[{"a":1,"b":"x"}],"m":{"k1":1},"code":7`)
	in["json-missing-required"] = []byte(`{"msg":"flat"}`)
	in["thrift-flat"] = tbin.Bytes(thriftReq(0, false))
	in["thrift-nested"] = tbin.Bytes(thriftReq(2, true))
	bad := append([]byte{}, in["thrift-nested"]...)
	in["thrift-cut-middle"] = bad[:len(bad)/2]
	in["thrift-cut-end"] = bad[:len(bad)-1]
	// response message (wrapped) for the t2j HTTP converter: Resp{msg, items, code}
	resp := tbin.Struct(tbin.F(1, tbin.Str("resp")), tbin.F(2, thriftReq(2, false).FieldByID(2)), tbin.F(5, tbin.I32v(201)))
	wrapped, _ := thrift.WrapBinaryBody(tbin.Bytes(resp), "M", thrift.REPLY, 0, 1)
	in["thrift-resp-msg"] = wrapped
	in["pb-nested"] = protoReq(2)
	in["pb-flat"] = protoReq(1)
	in["thrift-sparse-without-70"] = tbin.Bytes(tbin.Struct(tbin.F(1, tbin.Str("only-a"))))
	in["thrift-reply-exception"] = tbin.Bytes(tbin.Struct(tbin.F(100, tbin.Struct(tbin.F(1, tbin.Str("boom"))))))
	{
		// REPLY envelope around RB{2: 5} (field 1, the one with the default, is absent)
		body := tbin.Bytes(tbin.Struct(tbin.F(0, tbin.Struct(tbin.F(2, tbin.I32v(5))))))
		w, err := thrift.WrapBinaryBody(body[3:len(body)-1], "D", thrift.REPLY, 0, 1)
		if err != nil {
			return nil, err
		}
		in["thrift-resp-rb"] = w
	}
	in["thrift-rb-without-body"] = tbin.Bytes(tbin.Struct(tbin.F(2, tbin.I32v(5))))
	in["pb-cut-int64-key"] = protoCutInInt64Key(in["pb-nested"])
	in["pb-cut"] = in["pb-nested"][:len(in["pb-nested"])/2] // NOTE: not cut inside the packed list (p2j loops forever there: C06 finding)
	in["pbjson-nested"] = []byte(`{"msg":"pb","items":[{"a":1,"b":"x"},{"a":2,"b":"y"}],"m":{"k1":5},"bin":"AAH/","code":7,"nums":[1,2,150]}`)
	in["json-no-code"] = []byte(`{"msg":"he","items":[{"a":1,"b":"x"}],"m":{"k1":1}}`)
	in["form-body"] = []byte(`msg=formmsg&code=12`)
	in["thrift-small-missing-required"] = tbin.Bytes(tbin.Struct(tbin.F(1, tbin.Str("only msg"))))
	in["pbjson-bad"] = []byte(`{"msg":"pb","items":[{"a":1,"b":"x"},{"a":"zz"}],"code":7}`)
	in["json-tiny"] = []byte(`{}`)
	in["pbjson-cut-behind-unknown-root-key"] = []byte(`{"msg":"x","nope":`)
	{
		o := thriftReq(2, true)
		o.Fs[0].V = tbin.Str("another message")
		o.Fs[5].V = tbin.Struct(tbin.F(1, tbin.I32v(99)), tbin.F(2, tbin.Str("two")))
		in["thrift-template-other"] = tbin.Bytes(o)
	}
	in["thrift-inner"] = tbin.Bytes(tbin.Struct(tbin.F(1, tbin.I32v(1)), tbin.F(2, tbin.Str("in-inner"))))
	in["thrift-sparse"] = tbin.Bytes(tbin.Struct(tbin.F(1, tbin.Str("a-of-sparse")), tbin.F(70, tbin.Str("b-of-sparse"))))
	in["json-number-ending-in-0"] = []byte(`{"msg":"flat","code":30}`)
	in["json-top-number"] = []byte(`1230`)
	// every shared input is the front of a larger allocation (cap > len, as a frame cut out of a receive buffer
	// is): the bytes behind it belong to the caller too and are part of the checksum
	for k, v := range in {
		a := make([]byte, len(v)+24)
		copy(a, v)
		for i := len(v); i < len(a); i++ {
			a[i] = 0xAA
		}
		in[k] = a[:len(v):len(a)]
		f.sums[k] = crc32.ChecksumIEEE(a)
	}
	f.j2tc = j2t.NewBinaryConv(conv.Options{})
	f.t2jc = t2j.NewBinaryConv(conv.Options{})
	f.j2pc = j2p.NewBinaryConv(conv.Options{})
	f.p2jc = p2j.NewBinaryConv(conv.Options{})
	f.p2jc64 = p2j.NewBinaryConv(conv.Options{Int642String: true})
	f.hcReq = j2t.NewHTTPConv(meta.EncodingThriftBinary, f.fnM)
	f.hcResp = t2j.NewHTTPConv(meta.EncodingThriftBinary, f.fnM)

	add := func(name string, run func() ([]byte, error)) { f.ops = append(f.ops, op{name, run}) }
	// failing variants first (simplest-first for histories: "failing calls precede successful ones")
	add("j2t.Do(bad-start)", func() ([]byte, error) { return f.j2tc.Do(ctx, f.reqT, in["json-bad-start"]) })
	add("j2t.Do(bad-middle)", func() ([]byte, error) { return f.j2tc.Do(ctx, f.reqT, in["json-bad-middle"]) })
	add("j2t.Do(bad-end)", func() ([]byte, error) { return f.j2tc.Do(ctx, f.reqT, in["json-bad-end"]) })
	add("j2t.Do(missing-required)", func() ([]byte, error) { return f.j2tc.Do(ctx, f.reqT, in["json-missing-required"]) })
	add("j2t.Do(tiny)", func() ([]byte, error) { return f.j2tc.Do(ctx, f.reqT, in["json-tiny"]) })
	add("j2t.Do(ends-in-0)", func() ([]byte, error) {
		a, e1 := f.j2tc.Do(ctx, f.reqT, in["json-number-ending-in-0"])
		b, e2 := f.j2tc.Do(ctx, f.reqT.Struct().FieldById(5).Type(), in["json-top-number"])
		if e1 == nil {
			e1 = e2
		}
		return append(append([]byte{}, a...), b...), e1
	})
	add("t2j.Do(cut-middle)", func() ([]byte, error) { return f.t2jc.Do(ctx, f.reqT, in["thrift-cut-middle"]) })
	add("t2j.Do(cut-end)", func() ([]byte, error) { return f.t2jc.Do(ctx, f.reqT, in["thrift-cut-end"]) })
	add("j2p.Do(bad)", func() ([]byte, error) { return f.j2pc.Do(ctx, f.preqT, in["pbjson-bad"]) })
	add("j2p.Do(cut-behind-unknown-root-key)", func() ([]byte, error) { return f.j2pc.Do(ctx, f.preqT, in["pbjson-cut-behind-unknown-root-key"]) })
	add("p2j.Do(cut)", func() ([]byte, error) { return f.p2jc.Do(ctx, f.preqT, in["pb-cut"]) })
	add("p2j.Do(int64str,cut-in-int64-key)", func() ([]byte, error) { return f.p2jc64.Do(ctx, f.preqT, in["pb-cut-int64-key"]) })
	httpReq := func(method, url string, body []byte, ctype string, hdr map[string]string) (*dhttp.HTTPRequest, error) {
		var rd *bytes.Reader
		if body != nil {
			rd = bytes.NewReader(body)
		}
		var hr *stdhttp.Request
		var err error
		if rd != nil {
			hr, err = stdhttp.NewRequest(method, url, rd)
		} else {
			hr, err = stdhttp.NewRequest(method, url, stdhttp.NoBody) // a server-side request always has a non-nil Body
		}
		if err != nil {
			return nil, err
		}
		if ctype != "" {
			hr.Header.Set("Content-Type", ctype)
		}
		for k, v := range hdr {
			hr.Header.Set(k, v)
		}
		return dhttp.NewHTTPRequestFromStdReq(hr)
	}
	// failing http-mapped conversions (a required field has no source) under the fallback options
	add("j2t.HTTPConv.Do(fallback,missing-required)", func() ([]byte, error) {
		req, err := httpReq("POST", "http://localhost/m", in["json-no-code"], "application/json", nil)
		if err != nil {
			return nil, err
		}
		return f.hcReq.Do(ctx, req, conv.Options{EnableHttpMapping: true, ReadHttpValueFallback: true})
	})
	add("j2t.HTTPConv.Do(traceback,missing-required)", func() ([]byte, error) {
		req, err := httpReq("POST", "http://localhost/m", []byte(`{}`), "application/json", nil)
		if err != nil {
			return nil, err
		}
		return f.hcReq.Do(ctx, req, conv.Options{EnableHttpMapping: true, ReadHttpValueFallback: true, TracebackRequredOrRootFields: true})
	})
	add("thrift.MarshalTo(Small,missing-required)", func() ([]byte, error) {
		return generic.NewValue(f.smallT, in["thrift-small-missing-required"]).MarshalTo(f.reqT, &generic.Options{})
	})
	add("j2t.Do(flat)", func() ([]byte, error) { return f.j2tc.Do(ctx, f.reqT, in["json-flat"]) })
	add("j2t.Do(nested)", func() ([]byte, error) { return f.j2tc.Do(ctx, f.reqT, in["json-nested"]) })
	add("j2t.DoInto(nested)", func() ([]byte, error) {
		buf := make([]byte, 0, 16)
		err := f.j2tc.DoInto(ctx, f.reqT, in["json-nested"], &buf)
		return buf, err
	})
	add("t2j.Do(flat)", func() ([]byte, error) { return f.t2jc.Do(ctx, f.reqT, in["thrift-flat"]) })
	add("t2j.Do(nested)", func() ([]byte, error) { return f.t2jc.Do(ctx, f.reqT, in["thrift-nested"]) })
	add("t2j.DoInto(nested)", func() ([]byte, error) {
		buf := make([]byte, 0, 16)
		err := f.t2jc.DoInto(ctx, f.reqT, in["thrift-nested"], &buf)
		return buf, err
	})
	add("j2t.HTTPConv.Do", func() ([]byte, error) {
		hr, err := stdhttp.NewRequest("POST", "http://localhost/m?msg=fromquery", bytes.NewReader(in["json-nested"]))
		if err != nil {
			return nil, err
		}
		hr.Header.Set("Content-Type", "application/json")
		hr.Header.Set("code", "42")
		req, err := dhttp.NewHTTPRequestFromStdReq(hr)
		if err != nil {
			return nil, err
		}
		cv := f.hcReq
		return cv.Do(ctx, req, conv.Options{EnableHttpMapping: true})
	})
	add("j2t.HTTPConv.Do(no-body)", func() ([]byte, error) {
		req, err := httpReq("GET", "http://localhost/m?msg=q", nil, "", map[string]string{"code": "5"})
		if err != nil {
			return nil, err
		}
		return f.hcReq.Do(ctx, req, conv.Options{EnableHttpMapping: true})
	})
	add("j2t.HTTPConv.Do(fallback,write-default)", func() ([]byte, error) {
		req, err := httpReq("POST", "http://localhost/m", in["json-nested"], "application/json", nil)
		if err != nil {
			return nil, err
		}
		return f.hcReq.Do(ctx, req, conv.Options{EnableHttpMapping: true, ReadHttpValueFallback: true, WriteDefaultField: true, WriteOptionalField: true})
	})
	add("j2t.HTTPConv.Do(traceback,ok)", func() ([]byte, error) {
		req, err := httpReq("POST", "http://localhost/m", in["json-nested"], "application/json", nil)
		if err != nil {
			return nil, err
		}
		return f.hcReq.Do(ctx, req, conv.Options{EnableHttpMapping: true, ReadHttpValueFallback: true, TracebackRequredOrRootFields: true})
	})
	add("j2t.HTTPConv.Do(form)", func() ([]byte, error) {
		req, err := httpReq("POST", "http://localhost/m", in["form-body"], "application/x-www-form-urlencoded", nil)
		if err != nil {
			return nil, err
		}
		return f.hcReq.Do(ctx, req, conv.Options{EnableHttpMapping: true, ReadHttpValueFallback: true})
	})
	add("t2j.HTTPConv.Do", func() ([]byte, error) {
		rs := &respSetter{}
		cv := f.hcResp
		err := cv.Do(ctx, rs, in["thrift-resp-msg"], conv.Options{EnableHttpMapping: true})
		return rs.dump(), err
	})
	add("t2j.HTTPConv.Do(NoCopyString,header)", func() ([]byte, error) {
		// the header value exactly as the response object holds it (no copy made by the harness): it must stay what it
		// is while later conversions run
		rs := &aliasSetter{}
		cv := f.hcResp
		err := cv.Do(ctx, rs, in["thrift-resp-msg"], conv.Options{EnableHttpMapping: true, NoCopyString: true})
		if err != nil || rs.header == "" {
			return nil, err
		}
		return strBytes(rs.header), nil
	})
	add("t2j.Do(sparse,field-70-absent)", func() ([]byte, error) {
		cv := t2j.NewBinaryConv(conv.Options{WriteDefaultField: true})
		return cv.Do(ctx, f.sparseT, in["thrift-sparse-without-70"])
	})
	add("t2j.Do(reply-wrapper,exception-100)", func() ([]byte, error) {
		return f.t2jc.Do(ctx, f.fnM.Response(), in["thrift-reply-exception"])
	})
	add("t2j.Do(ConvertException): text of the returned error", func() ([]byte, error) {
		// the result the caller keeps is the ERROR: its text, viewed in place (the held string itself), must stay intact
		cv := t2j.NewBinaryConv(conv.Options{ConvertException: true})
		_, err := cv.Do(ctx, f.fnM.Response(), in["thrift-reply-exception"])
		if err == nil {
			return nil, fmt.Errorf("no exception error")
		}
		return strBytes(err.Error()), nil
	})
	add("t2j.Do(http,raw_body from IDL default)", func() ([]byte, error) {
		// the body slice exactly as the response object was handed it
		rs := &aliasSetter{}
		cv := t2j.NewBinaryConv(conv.Options{EnableHttpMapping: true, WriteDefaultField: true})
		_, err := cv.Do(context.WithValue(ctx, conv.CtxKeyHTTPResponse, rs), f.svc2.Functions()["D"].Response().Struct().FieldById(0).Type(), in["thrift-rb-without-body"])
		return rs.body, err
	})
	add("j2p.Do(nested)", func() ([]byte, error) { return f.j2pc.Do(ctx, f.preqT, in["pbjson-nested"]) })
	add("p2j.Do(nested)", func() ([]byte, error) { return f.p2jc.Do(ctx, f.preqT, in["pb-nested"]) })
	add("p2j.Do(int64str,nested)", func() ([]byte, error) { return f.p2jc64.Do(ctx, f.preqT, in["pb-nested"]) })
	add("thrift.GetByPath+Interface", func() ([]byte, error) {
		v := generic.NewValue(f.reqT, in["thrift-nested"])
		x := v.GetByPath(generic.NewPathFieldId(2), generic.NewPathIndex(1), generic.NewPathFieldName("b"))
		if err := x.Check(); err != nil {
			return nil, err
		}
		s, err := x.String()
		if err != nil {
			return nil, err
		}
		all, err := v.Interface(&generic.Options{})
		return []byte(s + "|" + stable(all)), err
	})
	// one path value shared by every caller (a package-level "address of b"), resolved against two struct types in
	// which the name has different ids (Inner: 2, Sparse: 70)
	f.sharedPath = []generic.Path{generic.NewPathFieldName("b")}
	f.sharedPathInit = append([]generic.Path{}, f.sharedPath...)
	sharedPath := f.sharedPath
	pathDump := f.argsDump
	byShared := func(d *thrift.TypeDescriptor, key string) ([]byte, error) {
		x := generic.NewValue(d, in[key]).GetByPath(sharedPath...)
		if err := x.Check(); err != nil {
			return nil, err
		}
		s, err := x.String()
		return []byte(s + "|path=" + pathDump()), err
	}
	add("thrift.GetByPath(shared name path,Inner)", func() ([]byte, error) { return byShared(f.innerT, "thrift-inner") })
	add("thrift.GetByPath(shared name path,Sparse)", func() ([]byte, error) { return byShared(f.sparseT, "thrift-sparse") })
	add("thrift.SetByPath(shared name path,Sparse)", func() ([]byte, error) {
		v := generic.NewValue(f.sparseT, in["thrift-sparse"]).Fork()
		_, err := v.SetByPath(generic.NewValue(f.sparseT.Struct().FieldById(70).Type(), tbin.Bytes(tbin.Str("set"))), sharedPath...)
		return append(append([]byte{}, v.Raw()...), ("|path=" + pathDump())...), err
	})
	f.template = mkTemplate()
	viaTemplate := func(key string) ([]byte, error) {
		t := f.template.Fork()
		if err := generic.NewNode(thrift.STRUCT, in[key]).GetTree(&t, &generic.Options{}); err != nil {
			return nil, err
		}
		out, err := t.Marshal(&generic.Options{})
		return append(append([]byte{}, out...), ("|" + f.argsDump())...), err
	}
	add("thrift.GetTree(fork of shared template,nested)", func() ([]byte, error) { return viaTemplate("thrift-nested") })
	add("thrift.GetTree(fork of shared template,other message)", func() ([]byte, error) { return viaTemplate("thrift-template-other") })
	add("thrift.Load+Marshal(pooled)", func() ([]byte, error) {
		tree := generic.NewPathNode()
		tree.Node = generic.NewNode(thrift.STRUCT, in["thrift-nested"])
		if err := tree.Load(true, &generic.Options{}); err != nil {
			return nil, err
		}
		out, err := tree.Marshal(&generic.Options{})
		generic.FreePathNode(tree)
		return out, err
	})
	add("thrift.MarshalTo(Small)", func() ([]byte, error) {
		return generic.NewValue(f.reqT, in["thrift-nested"]).MarshalTo(f.smallT, &generic.Options{})
	})
	add("thrift.MarshalTo(the value's own descriptor object), caller then reuses its input buffer", func() ([]byte, error) {
		// the caller owns buf; once MarshalTo has returned it may do with buf what it likes
		buf := append(make([]byte, 0, len(in["thrift-nested"])+16), in["thrift-nested"]...)
		out, err := generic.NewValue(f.reqT, buf).MarshalTo(f.reqT, &generic.Options{})
		if err != nil {
			return nil, err
		}
		keep := append([]byte{}, out...)
		for i := range buf {
			buf[i] = 0xEE
		}
		if !bytes.Equal(out, keep) {
			f.fail("the bytes returned by MarshalTo change when the caller overwrites the input buffer it had passed (the result is a view of the input)")
		}
		return out, nil
	})
	add("thrift.SetMany(fork)", func() ([]byte, error) {
		n := generic.NewNode(thrift.STRUCT, in["thrift-nested"]).Fork()
		err := n.SetMany([]generic.PathNode{
			{Path: generic.NewPathFieldId(1), Node: generic.NewNodeString("changed")},
			{Path: generic.NewPathFieldId(5), Node: generic.NewNodeInt32(99)},
		}, &generic.Options{})
		return n.Raw(), err
	})
	add("thrift.DescriptorToPathNode(Shuffled)", func() ([]byte, error) {
		var root generic.PathNode
		o := &generic.Options{DescriptorToPathNodeWriteDefualt: true, DescriptorToPathNodeWriteOptional: true}
		if err := generic.DescriptorToPathNode(f.shufT, &root, o); err != nil {
			return nil, err
		}
		return root.Marshal(&generic.Options{})
	})
	add("proto.Load+Marshal(pooled)", func() ([]byte, error) {
		tree := pgeneric.NewPathNode()
		tree.Node = pgeneric.NewNode(proto.MESSAGE, in["pb-nested"])
		if err := tree.Load(true, &pgeneric.Options{}, f.preqT); err != nil {
			return nil, err
		}
		out, err := tree.Marshal(&pgeneric.Options{})
		pgeneric.FreePathNode(tree)
		return out, err
	})
	add("proto.Load(lazy)+Marshal(pooled,flat message)", func() ([]byte, error) {
		// a pooled tree that may have served a recursive load before is loaded lazily with ANOTHER message
		tree := pgeneric.NewPathNode()
		tree.Node = pgeneric.NewNode(proto.MESSAGE, in["pb-flat"])
		if err := tree.Load(false, &pgeneric.Options{}, f.preqT); err != nil {
			return nil, err
		}
		out, err := tree.Marshal(&pgeneric.Options{})
		pgeneric.FreePathNode(tree)
		return out, err
	})
	add("proto.MarshalTo(Small)", func() ([]byte, error) {
		return pgeneric.NewRootValue(f.preqT, in["pb-nested"]).MarshalTo(f.psmallT, &pgeneric.Options{})
	})
	add("idl.lookups", func() ([]byte, error) {
		var sb strings.Builder
		st := f.reqT.Struct()
		for id := 0; id < 12; id++ {
			if fd := st.FieldById(thrift.FieldID(id)); fd != nil {
				fmt.Fprintf(&sb, "%d=%s;", id, fd.Name())
			}
		}
		for _, k := range []string{"msg", "items", "m", "bin", "code", "one", "nope", ""} {
			if fd := st.FieldByKey(k); fd != nil {
				fmt.Fprintf(&sb, "%s=%d;", k, fd.ID())
			}
		}
		pm := f.preqT.Message()
		for id := 0; id < 8; id++ {
			if fd := pm.ByNumber(proto.FieldNumber(id)); fd != nil {
				fmt.Fprintf(&sb, "p%d=%s;", id, fd.Name())
			}
		}
		for _, k := range []string{"msg", "items", "nums", "zz"} {
			if fd := pm.ByName(k); fd != nil {
				fmt.Fprintf(&sb, "p%s=%d;", k, fd.Number())
			}
			if fd := pm.ByJSONName(k); fd != nil {
				fmt.Fprintf(&sb, "j%s=%d;", k, fd.Number())
			}
		}
		return []byte(sb.String()), nil
	})
	if len(f.ops) != len(opNames) {
		return nil, fmt.Errorf("opNames out of date")
	}
	for i := range f.ops {
		if f.ops[i].name != opNames[i] {
			return nil, fmt.Errorf("opNames out of date at %d", i)
		}
	}
	f.descDump = f.dumpDescs()
	return f, nil
}

// stable renders a generic Go value deterministically (maps sorted).
func stable(v interface{}) string {
	switch x := v.(type) {
	case map[int]interface{}:
		var ks []int
		for k := range x {
			ks = append(ks, k)
		}
		sort.Ints(ks)
		var sb strings.Builder
		sb.WriteByte('{')
		for _, k := range ks {
			fmt.Fprintf(&sb, "%d:%s,", k, stable(x[k]))
		}
		sb.WriteByte('}')
		return sb.String()
	case map[string]interface{}:
		var ks []string
		for k := range x {
			ks = append(ks, k)
		}
		sort.Strings(ks)
		var sb strings.Builder
		sb.WriteByte('{')
		for _, k := range ks {
			fmt.Fprintf(&sb, "%q:%s,", k, stable(x[k]))
		}
		sb.WriteByte('}')
		return sb.String()
	case []interface{}:
		var sb strings.Builder
		sb.WriteByte('[')
		for _, e := range x {
			sb.WriteString(stable(e) + ",")
		}
		sb.WriteByte(']')
		return sb.String()
	}
	return fmt.Sprintf("%#v", v)
}

// descMem is the fingerprint of every memory word reachable from the two service descriptors, unexported
// fields included ("descriptor graphs: built once, must be read-only afterwards").
func (f *fixture) fail(what string) { f.failed = append(f.failed, what) }

// mkTemplate: Req.msg, Req.items[1].b, Req.one.{a,b} - paths only, no node carries a value or a type
func mkTemplate() generic.PathNode {
	return generic.PathNode{Next: []generic.PathNode{
		{Path: generic.NewPathFieldId(1)},
		{Path: generic.NewPathFieldId(2), Next: []generic.PathNode{{Path: generic.NewPathIndex(1), Next: []generic.PathNode{{Path: generic.NewPathFieldId(2)}}}}},
		{Path: generic.NewPathFieldId(6), Next: []generic.PathNode{{Path: generic.NewPathFieldId(1)}, {Path: generic.NewPathFieldId(2)}}},
	}}
}

func dumpTree(sb *strings.Builder, n *generic.PathNode) {
	fmt.Fprintf(sb, "%s=%v:%x[", n.Path.String(), n.Node.Type(), n.Node.Raw())
	for i := range n.Next {
		dumpTree(sb, &n.Next[i])
	}
	sb.WriteString("]")
}

func (f *fixture) argsDump() string {
	var sb strings.Builder
	for _, p := range f.sharedPath {
		fmt.Fprintf(&sb, "%s;", p.String())
	}
	sb.WriteString("template:")
	dumpTree(&sb, &f.template)
	return sb.String()
}

// argsRestore puts the shared arguments back (after a violation was recorded) and tells whether they had changed.
func (f *fixture) argsRestore() (was string, changed bool) {
	was = f.argsDump()
	copy(f.sharedPath, f.sharedPathInit)
	f.template = mkTemplate()
	return was, was != f.argsDump()
}

func (f *fixture) descMem() (uint64, int) { return deephash.Of(f.svc, f.psvc, f.svc2) }

// dumpDescs renders everything the public accessors expose of the shared descriptors.
func (f *fixture) dumpDescs() string {
	var sb strings.Builder
	seen := map[*thrift.TypeDescriptor]bool{}
	var walk func(d *thrift.TypeDescriptor)
	walk = func(d *thrift.TypeDescriptor) {
		if d == nil || seen[d] {
			return
		}
		seen[d] = true
		fmt.Fprintf(&sb, "T(%v,%s,bin=%v)", d.Type(), d.Name(), d.IsBinary())
		walk(d.Key())
		walk(d.Elem())
		if st := d.Struct(); st != nil && d.Type() == thrift.STRUCT {
			fmt.Fprintf(&sb, "S(%s,len=%d,req=%v)[", st.Name(), st.Len(), []uint64(st.Requires()))
			for _, fd := range st.Fields() {
				fmt.Fprintf(&sb, "F(%d,%s,%s,%v,", fd.ID(), fd.Name(), fd.Alias(), fd.Required())
				if dv := fd.DefaultValue(); dv != nil {
					fmt.Fprintf(&sb, "def=%q,", dv.JSONValue())
				}
				fmt.Fprintf(&sb, "http=%d)", len(fd.HTTPMappings()))
				walk(fd.Type())
			}
			sb.WriteString("]")
		}
	}
	var names []string
	for n := range f.svc.Functions() {
		names = append(names, n)
	}
	sort.Strings(names)
	for _, n := range names {
		fn := f.svc.Functions()[n]
		fmt.Fprintf(&sb, "FN(%s)", n)
		walk(fn.Request())
		walk(fn.Response())
	}
	pseen := map[*proto.TypeDescriptor]bool{}
	var pwalk func(d *proto.TypeDescriptor)
	pwalk = func(d *proto.TypeDescriptor) {
		if d == nil || pseen[d] {
			return
		}
		pseen[d] = true
		fmt.Fprintf(&sb, "PT(%v,%s,packed=%v,map=%v,list=%v)", d.Type(), d.Name(), d.IsPacked(), d.IsMap(), d.IsList())
		pwalk(d.Key())
		pwalk(d.Elem())
		if m := d.Message(); m != nil {
			fmt.Fprintf(&sb, "PM(%s,%d)[", m.Name(), m.FieldsCount())
			for id := 0; id < 10; id++ {
				if fd := m.ByNumber(proto.FieldNumber(id)); fd != nil {
					fmt.Fprintf(&sb, "PF(%d,%s,%s,%v)", fd.Number(), fd.Name(), fd.JSONName(), fd.Kind())
					pwalk(fd.Type())
				}
			}
			sb.WriteString("]")
		}
	}
	pwalk(f.preqT)
	pwalk(f.psmallT)
	return sb.String()
}

func (f *fixture) inputsIntact() string {
	var bad []string
	for k, v := range f.inputs {
		if crc32.ChecksumIEEE(v[:cap(v)]) != f.sums[k] {
			bad = append(bad, k)
		}
	}
	sort.Strings(bad)
	return strings.Join(bad, ",")
}

var _ = binary.BigEndian
