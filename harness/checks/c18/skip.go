package c18

import (
	"fmt"
	"strings"

	"github.com/cloudwego/dynamicgo/thrift"
	"github.com/cloudwego/dynamicgo/verifhook"

	"verif/checks/guardpage"
	"verif/engine/core"
	"verif/ref/tbin"
)

// structural position inside an encoding
type spos struct {
	off  int
	kind string // elemtype | keytype | valtype | size | strlen | fieldtype | fieldid | stop
	idx  int    // byte index inside a multi-byte field
}

// Structural lists every type-tag / size / length / field-id / stop byte of the encoding of v
// (spans come from ref/tbin's encoder).
func Structural(v *tbin.Val, out *[]spos) {
	switch v.T {
	case tbin.STRING:
		for i := 0; i < 4; i++ {
			*out = append(*out, spos{v.Off + i, "strlen", i})
		}
	case tbin.LIST, tbin.SET:
		*out = append(*out, spos{v.Off, "elemtype", 0})
		for i := 1; i < 5; i++ {
			*out = append(*out, spos{v.Off + i, "size", i - 1})
		}
		for _, e := range v.L {
			Structural(e, out)
		}
	case tbin.MAP:
		*out = append(*out, spos{v.Off, "keytype", 0}, spos{v.Off + 1, "valtype", 0})
		for i := 2; i < 6; i++ {
			*out = append(*out, spos{v.Off + i, "size", i - 2})
		}
		for i := range v.L {
			Structural(v.K[i], out)
			Structural(v.L[i], out)
		}
	case tbin.STRUCT:
		for _, f := range v.Fs {
			*out = append(*out, spos{f.HdrOff, "fieldtype", 0}, spos{f.HdrOff + 1, "fieldid", 0}, spos{f.HdrOff + 2, "fieldid", 1})
			Structural(f.V, out)
		}
		*out = append(*out, spos{v.End - 1, "stop", 0})
	}
}

// SubstAlphabet is the single-byte substitution alphabet: boundary bytes, every valid type code,
// and invalid type codes (incl. the native skipper's internal pseudo-types 0xfe / 0xff).
var SubstAlphabet = []byte{0x00, 0x01, 0x7f, 0x80, 0xff, 2, 3, 4, 6, 8, 10, 11, 12, 13, 14, 15, 5, 7, 9, 16, 17, 0xfe}

func byteClass(b byte) string {
	switch {
	case tbin.Type(b).Valid():
		return "valid-type"
	case b == 0:
		return "00"
	case b == 1:
		return "01"
	case b >= 0x7f:
		return "7f-ff"
	}
	return "invalid-type"
}

var arena *guardpage.Arena

func getArena() *guardpage.Arena {
	if arena == nil {
		a, err := guardpage.New(1 << 16)
		if err != nil {
			panic("guardpage: " + err.Error())
		}
		arena = a
	}
	return arena
}

type skipDesc struct {
	Op    string `json:"op"`
	Shape string `json:"shape"`
	N     int    `json:"container_size"`
	Fault string `json:"fault"`
	Hex   string `json:"input_hex"`
}

// skipOutcome: "ok" (err==nil and cursor moved), "err", "nil-unmoved" (err==nil but cursor did not move
// although the value has at least one byte), "panic".
func skipOne(buf []byte, pre int, t thrift.Type, native bool) (kind string, n int, detail string) {
	p := &thrift.BinaryProtocol{Buf: buf, Read: pre}
	var err error
	pi := core.Catch(func() {
		if native {
			err = p.SkipNative(t, thrift.MaxSkipDepth)
		} else {
			err = p.SkipGo(t, thrift.MaxSkipDepth)
		}
	})
	switch {
	case pi != nil:
		return "panic@" + pi.Site + ":" + core.PanicClass(pi.Val), 0, pi.Val
	case err != nil:
		return "err", 0, err.Error()
	case p.Read == pre:
		return "nil-unmoved", 0, ""
	}
	return "ok", p.Read - pre, ""
}

// refCategory classifies the input with the strict reference decoder (ref/tbin): the trigger class
// of skip signatures.
func refCategory(buf []byte, t tbin.Type) (cat string, n int) {
	_, off, err := tbin.Decode(buf, 0, t)
	if err == nil {
		return "wellformed", off
	}
	e := err.Error()
	switch {
	case err == tbin.ErrShort:
		return "short", 0
	case strings.Contains(e, "negative length"):
		return "negative-length", 0
	case strings.Contains(e, "bad size"):
		return "bad-size", 0
	case strings.Contains(e, "type"):
		return "bad-type-code", 0
	}
	return "other", 0
}

func skipCase(s *tbin.Shape, n int, t tbin.Type, buf []byte, fault, faultClass string, wantLen int) core.Case {
	return skipCasePre(s, n, t, buf, fault, faultClass, wantLen, 0)
}

// skipCasePre: the value starts at offset pre of the protocol buffer (cursor arithmetic must be relative).
func skipCasePre(s *tbin.Shape, n int, t tbin.Type, buf []byte, fault, faultClass string, wantLen int, pre int) core.Case {
	return core.Case{
		Tag: "skip:" + faultClass,
		Desc: func() interface{} {
			return skipDesc{"SkipGo vs SkipNative(avx2/avx/sse)", s.String(), n, fault, hexs(buf)}
		},
		Run: func() core.Result {
			r := core.Result{Key: fmt.Sprintf("%s|%d|%s", s, n, fault)}
			in := getArena().Place(append(make([]byte, pre, pre+len(buf)), buf...))
			cat, refN := refCategory(buf, t)
			gk, gn, gd := skipOne(in, pre, thrift.Type(t), false)
			cls := "ref=" + cat + ",go=" + gk
			if wantLen >= 0 && (cat != "wellformed" || refN != wantLen) {
				r.Add("harness|skip|reference-decoder-rejects-own-encoding", "ref says %s/%d for a %d-byte encoding", cat, refN, wantLen)
			}
			if cat == "wellformed" && (gk != "ok" || gn != refN) {
				r.Add("SkipGo|ref=wellformed|"+gk+"-or-consumed-differs", "SkipGo: %s consumed=%d %s on a well-formed value of %d bytes", gk, gn, gd, refN)
			}
			for _, f := range Flavours() {
				verifhook.C18UseFlavour(f)
				nk, nn, nd := skipOne(in, pre, thrift.Type(t), true)
				r.Count("disagreements_checked", 1)
				nfail := nk == "err" || nk == "nil-unmoved"
				switch {
				case gk == "err" && nk == "nil-unmoved":
					// root cause of its own: the Go wrapper drops the native error code
					r.Add("SkipNative|ref="+cat+"|nil-error-and-cursor-unmoved-where-SkipGo-fails", "SkipGo: %s %s; SkipNative[%s]: nil error, consumed 0; input (%d bytes) %s", gk, gd, f, len(buf), hexs(buf))
				case gk == "err" && nfail, gk == "ok" && nk == "ok" && gn == nn:
					// agree
				default:
					nn2 := nk
					if nfail {
						nn2 = "fail"
					}
					out := "go=" + gk + ",native=" + nn2
					if gk == "ok" && nk == "ok" {
						out += ",consumed-differs"
					}
					r.Add("Skip|ref="+cat+"|"+out, "SkipGo: %s consumed=%d %s; SkipNative[%s]: %s consumed=%d %s; input (%d bytes) %s", gk, gn, gd, f, nk, nn, nd, len(buf), hexs(buf))
				}
				cls += "," + f + "=" + nk
			}
			if fl := Flavours(); len(fl) > 0 {
				verifhook.C18UseFlavour(fl[0])
			}
			r.Count("skip_inputs", 1)
			r.Class = "skip:" + cls
			return r
		},
	}
}

func skipShapes(tier string) []*tbin.Shape {
	var all []*tbin.Shape
	all = append(all, tbin.Scalars()...)
	all = append(all, tbin.T1()...)
	all = append(all, tbin.T2()...)
	t3 := tbin.T3Small()
	step := 3
	if tier == "thorough" {
		step = 1
	}
	for i := 0; i < len(t3); i += step {
		all = append(all, t3[i])
	}
	return all
}

func enumSkipShape(tier string, s *tbin.Shape, yield func(core.Case) bool) bool {
	maxN := 2
	if tier == "thorough" {
		maxN = 3
	}
	for n := 0; n <= maxN; n++ {
		if n > 1 && s.Depth() == 0 {
			continue
		}
		g := &tbin.Gen{}
		v := g.Build(s, n)
		ref := tbin.Bytes(v)
		t := v.T
		if !yield(skipCase(s, n, t, ref, "intact", "intact", len(ref))) {
			return false
		}
		// trailing bytes after the value must not be consumed
		if !yield(skipCase(s, n, t, append(append([]byte{}, ref...), 0x0b, 0, 0), "intact+3 trailing bytes", "intact-trailing", len(ref))) {
			return false
		}
		// the same value at a non-zero cursor position
		if !yield(skipCasePre(s, n, t, ref, "intact at offset 3", "intact-offset", len(ref), 3)) {
			return false
		}
		if len(ref) > 1 {
			if !yield(skipCasePre(s, n, t, ref[:len(ref)-1], "last byte cut, at offset 3", "truncated-offset", -1, 3)) {
				return false
			}
		}
		// every truncation point
		for k := 0; k < len(ref); k++ {
			if !yield(skipCase(s, n, t, ref[:k], fmt.Sprintf("truncated to %d of %d", k, len(ref)), "truncated", -1)) {
				return false
			}
		}
		// every structural single-byte substitution
		var pos []spos
		Structural(v, &pos)
		for _, p := range pos {
			for _, b := range SubstAlphabet {
				if ref[p.off] == b {
					continue
				}
				m := append([]byte{}, ref...)
				m[p.off] = b
				if !yield(skipCase(s, n, t, m, fmt.Sprintf("byte %d (%s) %02x->%02x", p.off, p.kind, ref[p.off], b), "subst@"+p.kind+"="+byteClass(b), -1)) {
					return false
				}
			}
		}
		// every 4-byte size / length field set to each value of the size alphabet
		for _, p := range pos {
			if (p.kind != "size" && p.kind != "strlen") || p.idx != 0 {
				continue
			}
			cur := uint32(ref[p.off])<<24 | uint32(ref[p.off+1])<<16 | uint32(ref[p.off+2])<<8 | uint32(ref[p.off+3])
			for _, x := range []uint32{0, 1, cur - 1, cur + 1, 1 << 16, 1<<31 - 1, 1 << 31, 1<<31 + 1, 1<<32 - 1} {
				if x == cur {
					continue
				}
				m := append([]byte{}, ref...)
				m[p.off], m[p.off+1], m[p.off+2], m[p.off+3] = byte(x>>24), byte(x>>16), byte(x>>8), byte(x)
				if !yield(skipCase(s, n, t, m, fmt.Sprintf("4-byte %s field at %d: %d->%d", p.kind, p.off, cur, x), "size4@"+p.kind, -1)) {
					return false
				}
			}
		}
	}
	return true
}
