package c18

import (
	"bufio"
	"context"
	"encoding/binary"
	"encoding/json"
	"fmt"
	"io"
	"os"
	"os/exec"
	"path/filepath"
	"sort"
	"sync/atomic"
	"syscall"
	"time"

	"github.com/cloudwego/dynamicgo/conv"
	"github.com/cloudwego/dynamicgo/conv/j2t"
	"github.com/cloudwego/dynamicgo/thrift"
	"github.com/cloudwego/dynamicgo/thrift/annotation"
	"github.com/cloudwego/dynamicgo/verifhook"

	"verif/engine/core"
)

// Option bits of a conversion request (the five value-affecting j2t flags of the task scope).
const (
	OString2Int64 = 1 << iota
	ONoBase64Binary
	ODisallowUnknownField
	OWriteDefaultField
	OWriteRequireField
	NOpts = 5
)

// further bits understood by the server (not part of C18's own option sweep)
const (
	OEnableValueMapping = 1 << (NOpts + iota)
	OWriteOptionalField
)

func ConvOptions(bits int) conv.Options {
	return conv.Options{
		String2Int64:         bits&OString2Int64 != 0,
		NoBase64Binary:       bits&ONoBase64Binary != 0,
		DisallowUnknownField: bits&ODisallowUnknownField != 0,
		WriteDefaultField:    bits&OWriteDefaultField != 0,
		WriteRequireField:    bits&OWriteRequireField != 0,
		EnableValueMapping:   bits&OEnableValueMapping != 0,
		WriteOptionalField:   bits&OWriteOptionalField != 0,
	}
}

func OptString(bits int) string {
	s := ""
	for i, n := range []string{"String2Int64", "NoBase64Binary", "DisallowUnknownField", "WriteDefaultField", "WriteRequireField"} {
		if bits&(1<<uint(i)) != 0 {
			if s != "" {
				s += "+"
			}
			s += n
		}
	}
	if s == "" {
		return "none"
	}
	return s
}

var descCache = map[string]*thrift.TypeDescriptor{}

// DescFromIDL parses a harness-generated IDL (tbin.IDL layout: service Svc { X M(1: X req) }) and
// returns the descriptor of the request struct X, or of X's field 1 if inner. Cached per process.
func DescFromIDL(idl string, inner bool) (*thrift.TypeDescriptor, error) {
	return DescFromIDLInc(idl, nil, inner)
}

// DescFromIDLInc: the same for a program whose main file includes other files (path -> text).
func DescFromIDLInc(idl string, inc map[string]string, inner bool) (*thrift.TypeDescriptor, error) {
	k := idl
	if inner {
		k = "inner:" + idl
	}
	if len(inc) > 0 {
		var ks []string
		for p := range inc {
			ks = append(ks, p)
		}
		sort.Strings(ks)
		for _, p := range ks {
			k += "\x00" + p + "\x00" + inc[p]
		}
	}
	if d, ok := descCache[k]; ok {
		return d, nil
	}
	svc, err := thrift.Options{}.NewDescritorFromContent(context.Background(), "a/b/main.thrift", idl, inc, false)
	if err != nil {
		return nil, fmt.Errorf("parse IDL: %v", err)
	}
	fn := svc.Functions()["M"]
	if fn == nil {
		return nil, fmt.Errorf("no function M")
	}
	d := fn.Request().Struct().FieldById(1).Type()
	if inner {
		f := d.Struct().FieldById(1)
		if f == nil {
			return nil, fmt.Errorf("no field 1")
		}
		d = f.Type()
	}
	descCache[k] = d
	return d, nil
}

// Outcome of one conversion.
type Outcome struct {
	Out   []byte `json:"out,omitempty"`
	Err   string `json:"err,omitempty"`   // non-empty iff the converter returned an error
	Panic string `json:"panic,omitempty"` // non-empty iff it panicked (recovered)
	Site  string `json:"site,omitempty"`
}

func (o Outcome) Failed() bool { return o.Err != "" || o.Panic != "" }
func (o Outcome) Kind() string {
	switch {
	case o.Panic != "":
		return "panic"
	case o.Err != "":
		return "error"
	}
	return "ok"
}

// ConvertLocal runs j2t.BinaryConv.Do in this process with whatever implementation the binary has.
func ConvertLocal(d *thrift.TypeDescriptor, bits int, doc []byte) (o Outcome) {
	cv := j2t.NewBinaryConv(ConvOptions(bits))
	pi := core.Catch(func() {
		out, err := cv.Do(context.Background(), d, doc)
		if err != nil {
			o.Err = err.Error()
			if o.Err == "" {
				o.Err = "error"
			}
			return
		}
		o.Out = out
	})
	if pi != nil {
		o.Panic, o.Site = pi.Val, pi.Site
	}
	return
}

// ---- wire protocol: 4-byte big-endian length + JSON body ----

type Req struct {
	IDL   string            `json:"idl"`
	Inner bool              `json:"inner"`
	Inc   map[string]string `json:"inc,omitempty"` // included files of the program (path -> text)
	Opts  []int             `json:"opts"`
	Doc   []byte            `json:"doc"`
}
type Resp struct {
	Res    []Outcome `json:"res"`
	Fatal  string    `json:"fatal,omitempty"` // harness-side failure in the server (IDL did not parse ...)
	Native bool      `json:"native"`          // must be false: the server must be the portable build
}

func writeFrame(w *bufio.Writer, v interface{}) error {
	b, err := json.Marshal(v)
	if err != nil {
		return err
	}
	var h [4]byte
	binary.BigEndian.PutUint32(h[:], uint32(len(b)))
	if _, err := w.Write(h[:]); err != nil {
		return err
	}
	if _, err := w.Write(b); err != nil {
		return err
	}
	return w.Flush()
}

func readFrame(r *bufio.Reader, v interface{}) error {
	var h [4]byte
	if _, err := io.ReadFull(r, h[:]); err != nil {
		return err
	}
	b := make([]byte, binary.BigEndian.Uint32(h[:]))
	if _, err := io.ReadFull(r, b); err != nil {
		return err
	}
	return json.Unmarshal(b, v)
}

// ServerMain is `verif-portable j2t-server`: answers conversion requests on stdin/stdout with the
// implementation compiled into THIS binary (the portable one when built with -tags go1.25).
// A request that does not finish within 20 s makes the server exit(3) (the client reports it).
func ServerMain() {
	annotation.InitAGWAnnos() // the agw.* name-case annotations C02's key programs use (no effect on IDLs without them)
	_ = syscall.Setrlimit(syscall.RLIMIT_AS, &syscall.Rlimit{Cur: 4 << 30, Max: 4 << 30})
	in := bufio.NewReaderSize(os.Stdin, 1<<16)
	out := bufio.NewWriterSize(os.Stdout, 1<<16)
	var busySince int64
	go func() {
		for {
			time.Sleep(500 * time.Millisecond)
			if t := atomic.LoadInt64(&busySince); t != 0 && time.Now().UnixNano()-t > int64(20*time.Second) {
				fmt.Fprintln(os.Stderr, "j2t-server: request exceeded 20s (hang)")
				os.Exit(3)
			}
		}
	}()
	for {
		var rq Req
		if err := readFrame(in, &rq); err != nil {
			return
		}
		atomic.StoreInt64(&busySince, time.Now().UnixNano())
		rs := Resp{Native: verifhook.C18HasNative}
		d, err := DescFromIDLInc(rq.IDL, rq.Inc, rq.Inner)
		if err != nil {
			rs.Fatal = err.Error()
		} else {
			for _, o := range rq.Opts {
				rs.Res = append(rs.Res, ConvertLocal(d, o, rq.Doc))
			}
		}
		atomic.StoreInt64(&busySince, 0)
		if err := writeFrame(out, &rs); err != nil {
			return
		}
	}
}

// ---- client side (inside a worker) ----

type Client struct {
	cmd    *exec.Cmd
	w      *bufio.Writer
	r      *bufio.Reader
	stderr *tail
}

type tail struct{ b []byte }

func (t *tail) Write(p []byte) (int, error) {
	if len(t.b) < 4000 {
		t.b = append(t.b, p...)
	}
	return len(p), nil
}

var client *Client

// PortablePath is the second binary built by run.sh with -tags "verif go1.25".
func PortablePath() string {
	if p := os.Getenv("VERIF_PORTABLE_BIN"); p != "" {
		return p
	}
	exe, _ := os.Executable()
	return filepath.Join(filepath.Dir(exe), "verif-portable")
}

func startClient() (*Client, error) {
	cmd := exec.Command(PortablePath(), "j2t-server")
	cmd.Env = append(os.Environ(), "GOMAXPROCS=2", "GOTRACEBACK=single")
	in, err := cmd.StdinPipe()
	if err != nil {
		return nil, err
	}
	out, err := cmd.StdoutPipe()
	if err != nil {
		return nil, err
	}
	t := &tail{}
	cmd.Stderr = t
	if err := cmd.Start(); err != nil {
		return nil, err
	}
	return &Client{cmd: cmd, w: bufio.NewWriterSize(in, 1<<16), r: bufio.NewReaderSize(out, 1<<16), stderr: t}, nil
}

// ErrHarness marks failures of the harness plumbing (never a property violation).
type ErrHarness struct{ msg string }

func (e ErrHarness) Error() string { return e.msg }

// Portable converts through the portable server. died=true means the server process died or hung
// while serving THIS request (attributable to the request: it is restarted for the next one).
func Portable(rq *Req) (res []Outcome, died bool, diag string, err error) {
	if client == nil {
		c, e := startClient()
		if e != nil {
			return nil, false, "", ErrHarness{"cannot start portable server " + PortablePath() + ": " + e.Error()}
		}
		client = c
	}
	c := client
	if e := writeFrame(c.w, rq); e != nil {
		client = nil
		c.cmd.Process.Kill()
		c.cmd.Wait()
		return nil, true, "write: " + e.Error() + "\n" + string(c.stderr.b), nil
	}
	var rs Resp
	if e := readFrame(c.r, &rs); e != nil {
		client = nil
		c.cmd.Process.Kill()
		c.cmd.Wait()
		return nil, true, "read: " + e.Error() + "\n" + string(c.stderr.b), nil
	}
	if rs.Native {
		return nil, false, "", ErrHarness{"the portable server binary contains the native implementation (built without -tags go1.25?)"}
	}
	if rs.Fatal != "" {
		return nil, false, "", ErrHarness{"portable server: " + rs.Fatal}
	}
	if len(rs.Res) != len(rq.Opts) {
		return nil, false, "", ErrHarness{"portable server: short response"}
	}
	return rs.Res, false, "", nil
}
