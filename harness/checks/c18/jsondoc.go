package c18

import (
	"encoding/base64"
	"fmt"
	"strconv"
	"strings"
	"unicode/utf8"

	"verif/ref/tbin"
)

// Spelling selects how a model value is written as JSON text. Every spelling denotes the same value
// (RFC 8259); they differ in escapes, number form and where ints are quoted (String2Int64 only).
type Spelling struct {
	Str      int  // 0 minimal escapes, 1 \uXXXX for every code unit (surrogate pairs above U+FFFF), 2 short escapes (\n \t \/ ...) where one exists
	IntAsStr bool // integers (and doubles) written as JSON strings: conforming only under String2Int64
	RawBin   bool // binary written as the raw string (NoBase64Binary) instead of base64
	Dbl      int  // 0 shortest 'g', 1 'e' form, 2 'E' form, 3 plain decimal ('f')
}

// JSONString renders s as a JSON string token under the escape mode.
func JSONString(s string, mode int) string {
	var sb strings.Builder
	sb.WriteByte('"')
	for _, r := range s {
		switch mode {
		case 1:
			if r > 0xffff {
				r -= 0x10000
				fmt.Fprintf(&sb, `\u%04x\u%04X`, 0xd800+(r>>10), 0xdc00+(r&0x3ff))
			} else {
				fmt.Fprintf(&sb, `\u%04x`, r)
			}
			continue
		case 2:
			switch r {
			case '"':
				sb.WriteString(`\"`)
				continue
			case '\\':
				sb.WriteString(`\\`)
				continue
			case '/':
				sb.WriteString(`\/`)
				continue
			case '\b':
				sb.WriteString(`\b`)
				continue
			case '\f':
				sb.WriteString(`\f`)
				continue
			case '\n':
				sb.WriteString(`\n`)
				continue
			case '\r':
				sb.WriteString(`\r`)
				continue
			case '\t':
				sb.WriteString(`\t`)
				continue
			}
		}
		switch {
		case r == '"':
			sb.WriteString(`\"`)
		case r == '\\':
			sb.WriteString(`\\`)
		case r < 0x20:
			fmt.Fprintf(&sb, `\u%04x`, r)
		default:
			sb.WriteRune(r)
		}
	}
	sb.WriteByte('"')
	return sb.String()
}

func fmtDouble(f float64, mode int) string {
	switch mode {
	case 1:
		return strconv.FormatFloat(f, 'e', -1, 64)
	case 2:
		return strconv.FormatFloat(f, 'E', -1, 64)
	case 3:
		return strconv.FormatFloat(f, 'f', -1, 64)
	}
	return strconv.FormatFloat(f, 'g', -1, 64)
}

// Tokens renders v (of shape s) as a JSON token list; ok=false if v has no JSON form under the
// library's documented mapping (map keys other than string/integers, invalid UTF-8 strings,
// raw binaries that are not UTF-8, non-finite doubles).
func Tokens(v *tbin.Val, s *tbin.Shape, sp Spelling) (toks []string, ok bool) {
	toks, _, ok = TokensU(v, s, sp)
	return
}

// Used reports which spelling features actually occur in a rendered document.
type Used struct{ QuotedNum, RawBin, B64 bool }

// TokensU is Tokens plus the features used.
func TokensU(v *tbin.Val, s *tbin.Shape, sp Spelling) (toks []string, u Used, ok bool) {
	ok = true
	var rec func(v *tbin.Val, s *tbin.Shape)
	rec = func(v *tbin.Val, s *tbin.Shape) {
		switch v.T {
		case tbin.BOOL:
			if v.B {
				toks = append(toks, "true")
			} else {
				toks = append(toks, "false")
			}
		case tbin.BYTE, tbin.I16, tbin.I32, tbin.I64:
			t := strconv.FormatInt(v.I, 10)
			if sp.IntAsStr {
				t = `"` + t + `"`
				u.QuotedNum = true
			}
			toks = append(toks, t)
		case tbin.DOUBLE:
			if v.F != v.F || v.F > 1.7976931348623157e308 || v.F < -1.7976931348623157e308 {
				ok = false
				return
			}
			t := fmtDouble(v.F, sp.Dbl)
			if sp.IntAsStr {
				t = `"` + t + `"`
				u.QuotedNum = true
			}
			toks = append(toks, t)
		case tbin.STRING:
			if s.Binary && !sp.RawBin {
				u.B64 = true
				toks = append(toks, JSONString(base64.StdEncoding.EncodeToString(v.S), sp.Str))
				return
			}
			if !utf8.Valid(v.S) {
				ok = false
				return
			}
			if s.Binary {
				u.RawBin = true
			}
			toks = append(toks, JSONString(string(v.S), sp.Str))
		case tbin.LIST, tbin.SET:
			toks = append(toks, "[")
			for i, e := range v.L {
				if i > 0 {
					toks = append(toks, ",")
				}
				rec(e, s.Elem)
			}
			toks = append(toks, "]")
		case tbin.MAP:
			toks = append(toks, "{")
			for i := range v.L {
				if i > 0 {
					toks = append(toks, ",")
				}
				k := v.K[i]
				switch k.T {
				case tbin.STRING:
					if s.Key.Binary || !utf8.Valid(k.S) {
						ok = false
						return
					}
					toks = append(toks, JSONString(string(k.S), sp.Str))
				case tbin.BYTE, tbin.I16, tbin.I32, tbin.I64:
					toks = append(toks, `"`+strconv.FormatInt(k.I, 10)+`"`)
				default:
					ok = false
					return
				}
				toks = append(toks, ":")
				rec(v.L[i], s.Elem)
			}
			toks = append(toks, "}")
		case tbin.STRUCT:
			toks = append(toks, "{")
			for i, f := range v.Fs {
				if i > 0 {
					toks = append(toks, ",")
				}
				var sf *tbin.SField
				for j := range s.Fields {
					if s.Fields[j].ID == f.ID {
						sf = &s.Fields[j]
					}
				}
				if sf == nil {
					ok = false
					return
				}
				toks = append(toks, JSONString(sf.FName(), sp.Str), ":")
				rec(f.V, sf.S)
			}
			toks = append(toks, "}")
		}
	}
	rec(v, s)
	return
}

// Join concatenates tokens with the given whitespace at every token gap (and both ends).
func Join(toks []string, ws string) string {
	if ws == "" {
		return strings.Join(toks, "")
	}
	return ws + strings.Join(toks, ws) + ws
}

// hasKind reports whether shape s contains a node satisfying pred.
func hasKind(s *tbin.Shape, pred func(*tbin.Shape) bool) bool {
	if pred(s) {
		return true
	}
	if s.Elem != nil && hasKind(s.Elem, pred) {
		return true
	}
	if s.Key != nil && hasKind(s.Key, pred) {
		return true
	}
	for _, f := range s.Fields {
		if hasKind(f.S, pred) {
			return true
		}
	}
	return false
}

func isNum(s *tbin.Shape) bool {
	switch s.T {
	case tbin.BYTE, tbin.I16, tbin.I32, tbin.I64, tbin.DOUBLE:
		return true
	}
	return false
}
func isBin(s *tbin.Shape) bool { return s.T == tbin.STRING && s.Binary }
