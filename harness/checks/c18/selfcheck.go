package c18

import (
	"encoding/json"
	"fmt"
	"math"
	"strconv"

	"verif/ref/tbin"
)

// selfCheckJSON validates the harness's own JSON renderer against encoding/json: every spelling of
// every boundary string unquotes to the string, every double form parses back bit-exactly, and every
// generated document of the shape families is valid JSON.
func selfCheckJSON() error {
	for _, s := range strBoundary() {
		for m := 0; m < 3; m++ {
			var back string
			q := JSONString(s, m)
			if err := json.Unmarshal([]byte(q), &back); err != nil || back != s {
				return fmt.Errorf("JSONString(%q, %d) = %s does not unquote to the input (%v)", s, m, q, err)
			}
		}
	}
	for _, f := range dblBoundary() {
		for m := 0; m < 4; m++ {
			t := fmtDouble(f, m)
			if !json.Valid([]byte(t)) {
				return fmt.Errorf("double form %q is not JSON", t)
			}
			g, err := strconv.ParseFloat(t, 64)
			if err != nil || math.Float64bits(g) != math.Float64bits(f) {
				return fmt.Errorf("double form %q does not denote %v", t, f)
			}
		}
	}
	for _, tier := range []string{"quick", "thorough"} {
		for _, s := range conformingShapes(tier) {
			for n := 0; n <= 3; n++ {
				g := &tbin.Gen{}
				v := g.Build(s, n)
				for _, sp := range []Spelling{{}, {Str: 1}, {Str: 2}, {IntAsStr: true}} {
					toks, ok := Tokens(v, s, sp)
					if !ok {
						continue
					}
					for _, w := range wsForms {
						if d := Join(wrapToks(toks), w.ws); !json.Valid([]byte(d)) {
							return fmt.Errorf("generated document is not valid JSON: %s", d)
						}
					}
				}
			}
		}
	}
	return nil
}
