package c18

import (
	"encoding/json"
	"fmt"
	"math"
	"strconv"
	"strings"
	"unicode/utf8"
	"unsafe"

	"github.com/cloudwego/dynamicgo/verifhook"

	"verif/engine/core"
)

type encDesc struct {
	Op string `json:"op"`
	In string `json:"in"`
}

func encCase(op, in, key string, run func(r *core.Result)) core.Case {
	return core.Case{
		Tag:  "enc:" + op,
		Desc: func() interface{} { return encDesc{op + " in avx2/avx/sse vs stdlib", in} },
		Run: func() core.Result {
			r := core.Result{Class: "ok", Key: op + "|" + key}
			if pi := core.Catch(func() { run(&r) }); pi != nil {
				r.Class = "panic"
				r.Add(op+"|panic@"+pi.Site+"|"+core.PanicClass(pi.Val), "panic: %s\n%s", pi.Val, pi.Stack)
			}
			if fl := Flavours(); len(fl) > 0 {
				verifhook.C18UseFlavour(fl[0])
			}
			if len(r.Viol) > 0 && r.Class == "ok" {
				r.Class = "violation"
			}
			return r
		},
	}
}

// I64Family: every +-2^k+d (|d|<=4), every power of ten +-1 (= every digit-count boundary), extremes.
func I64Family() []int64 {
	seen := map[int64]bool{}
	var out []int64
	add := func(v int64) {
		if !seen[v] {
			seen[v] = true
			out = append(out, v)
		}
	}
	add(0)
	for k := 0; k < 64; k++ {
		for d := int64(-4); d <= 4; d++ {
			add(int64(1)<<uint(k) + d)
			add(-(int64(1) << uint(k)) + d)
		}
	}
	p := int64(1)
	for i := 0; i < 19; i++ {
		for d := int64(-1); d <= 1; d++ {
			add(p + d)
			add(-p + d)
		}
		if i < 18 {
			p *= 10
		}
	}
	add(math.MaxInt64)
	add(math.MinInt64)
	// repeated-digit values (carry chains in the digit-pair tables)
	for _, s := range []string{"99", "9999", "99999999", "9999999999999999", "100000000", "10000000000000000", "1234567890123456789", "1111111111111111111"} {
		v, _ := strconv.ParseInt(s, 10, 64)
		add(v)
		add(-v)
	}
	return out
}

func enumI64(yield func(core.Case) bool) {
	for _, x := range I64Family() {
		x := x
		want := strconv.FormatInt(x, 10)
		if !yield(encCase("I64toa", want, want, func(r *core.Result) {
			for _, f := range Flavours() {
				verifhook.C18UseFlavour(f)
				var buf [64]byte
				for i := range buf {
					buf[i] = 0xAA
				}
				n := verifhook.C18I64toa(&buf[8], x)
				r.Count("disagreements_checked", 1)
				if n < 0 || n > 32 || string(buf[8:8+n]) != want {
					r.Add("I64toa|"+i64Class(x)+"|differs-from-strconv", "%s: native i64toa(%d) = %q (n=%d), strconv %q", f, x, safeStr(buf[8:], n), n, want)
				}
				if n >= 0 && n <= 32 {
					// writing past the formatted digits is tolerated up to MaxInt64StringLen (21) only
					for i := 8 + 21; i < 64; i++ {
						if buf[i] != 0xAA {
							r.Add("I64toa|"+i64Class(x)+"|writes-beyond-MaxInt64StringLen", "%s: byte %d past the output start was overwritten", f, i-8)
							break
						}
					}
					if buf[7] != 0xAA {
						r.Add("I64toa|"+i64Class(x)+"|writes-before-output", "%s", f)
					}
				}
				// the internal/json wrapper (GuardSlice + native call): every spare output capacity 0..40
				// (below, at and above the text length and the wrapper's reservation)
				capSweep(r, "json.EncodeInt64", i64Class(x), f, 40, func(b []byte) []byte { return verifhook.C18EncodeInt64(b, x) }, func(out []byte) string {
					if string(out) != want {
						return fmt.Sprintf("differs-from-strconv: got %q want %q", out, want)
					}
					return ""
				})
			}
		})) {
			return
		}
	}
}

// capSweep calls one internal/json Encode* wrapper on a buffer "pre" with every spare capacity 0..maxSpare,
// carved out of a 0xAA-filled arena: the result must keep the prefix, verify() must accept the appended
// text, and - when the wrapper did not reallocate - no arena byte past the slice's capacity may change.
func capSweep(r *core.Result, site, cls, f string, maxSpare int, call func([]byte) []byte, verify func([]byte) string) {
	for k := 0; k <= maxSpare; k++ {
		arena := make([]byte, 3+k+72)
		for i := range arena {
			arena[i] = 0xAA
		}
		copy(arena, "pre")
		var got []byte
		if pi := core.Catch(func() { got = call(arena[:3 : 3+k]) }); pi != nil {
			r.Add(site+"|"+cls+"|panic:"+core.PanicClass(pi.Val), "%s: spare capacity %d: panic %v\n%s", f, k, pi.Val, pi.Stack)
			continue
		}
		r.Count("capacity_points", 1)
		if len(got) < 3 || string(got[:3]) != "pre" {
			r.Add(site+"|"+cls+"|clobbers-buffer-prefix", "%s: spare capacity %d: got %q", f, k, clip(string(got), 80))
			continue
		}
		if msg := verify(got[3:]); msg != "" {
			w := msg
			if i := strings.IndexByte(w, ':'); i > 0 {
				w = w[:i]
			}
			r.Add(site+"|"+cls+"|"+w, "%s: spare capacity %d: %s", f, k, msg)
		}
		for i := 3 + k; i < len(arena); i++ {
			if arena[i] != 0xAA {
				r.Add(site+"|"+cls+"|writes-beyond-capacity", "%s: spare capacity %d: arena byte %d (capacity ends at %d) was overwritten", f, k, i, 3+k)
				break
			}
		}
	}
}

func safeStr(b []byte, n int) string {
	if n < 0 {
		n = 0
	}
	if n > len(b) {
		n = len(b)
	}
	return string(b[:n])
}

func i64Class(x int64) string {
	switch {
	case x == math.MinInt64:
		return "min"
	case x < 0:
		return "negative"
	case x == 0:
		return "zero"
	}
	return "positive"
}

// F64Family: every (sign, exponent) x mantissa in {0, 1, all-ones, 2^51, alternating}, plus the
// shortest-round-trip decimal boundaries 1e-7 .. 1e21 with their two neighbours.
func f64Chunk(chunk, nchunks int) []uint64 {
	var out []uint64
	mants := []uint64{0, 1, (1 << 52) - 1, 1 << 51, 0x5555555555555}
	per := (2048 + nchunks - 1) / nchunks
	lo, hi := chunk*per, (chunk+1)*per
	if hi > 2048 {
		hi = 2048
	}
	for e := uint64(lo); e < uint64(hi); e++ {
		for s := uint64(0); s < 2; s++ {
			for _, m := range mants {
				out = append(out, s<<63|e<<52|m)
			}
		}
	}
	if chunk == 0 {
		for k := -8; k <= 22; k++ {
			f, _ := strconv.ParseFloat(fmt.Sprintf("1e%d", k), 64)
			for _, g := range []float64{math.Nextafter(f, 0), f, math.Nextafter(f, math.Inf(1))} {
				out = append(out, math.Float64bits(g), math.Float64bits(-g))
			}
			for _, lead := range []string{"9.999999999999999", "1.5", "2.5", "1.0000000000000002", "4.35", "5"} {
				g, _ := strconv.ParseFloat(fmt.Sprintf("%se%d", lead, k), 64)
				out = append(out, math.Float64bits(g))
			}
		}
	}
	return out
}

func f64Class(bits uint64) string {
	e := bits >> 52 & 0x7ff
	m := bits & (1<<52 - 1)
	switch {
	case e == 0x7ff && m == 0:
		return "inf"
	case e == 0x7ff:
		return "nan"
	case e == 0 && m == 0:
		return "zero"
	case e == 0:
		return "subnormal"
	}
	return "normal"
}

func enumF64(chunk, nchunks int, yield func(core.Case) bool) {
	for _, bits := range f64Chunk(chunk, nchunks) {
		bits := bits
		x := math.Float64frombits(bits)
		key := fmt.Sprintf("%016x", bits)
		if !yield(encCase("F64toa", "bits="+key+" ("+strconv.FormatFloat(x, 'g', -1, 64)+")", key, func(r *core.Result) {
			cls := f64Class(bits)
			r.Class = "ok:" + cls
			for _, f := range Flavours() {
				verifhook.C18UseFlavour(f)
				var buf [96]byte
				for i := range buf {
					buf[i] = 0xAA
				}
				n := verifhook.C18F64toa(&buf[8], x)
				r.Count("disagreements_checked", 1)
				if n < 0 || n > 64 {
					r.Add("F64toa|"+cls+"|bad-length", "%s: f64toa(%s) returned %d", f, key, n)
					continue
				}
				out := string(buf[8 : 8+n])
				if cls == "nan" || cls == "inf" {
					// JSON has no spelling for non-finite numbers and strconv's "NaN"/"+Inf" do not carry
					// the payload either: the statement's "parses back to the identical float64" is checked
					// as far as any text form can satisfy it: the text must parse (strconv) to a value of
					// the same class and sign.
					back, err := strconv.ParseFloat(out, 64)
					ok := err == nil && ((cls == "nan" && back != back) || (cls == "inf" && math.IsInf(back, 0) && math.Signbit(back) == math.Signbit(x)))
					if !ok {
						r.Class = "non-finite-no-text"
						r.Add("F64toa|non-finite|output-does-not-parse-back", "%s: f64toa(%s = %v) wrote %q (n=%d): does not parse back to a %s", f, key, x, out, n, cls)
					}
					continue
				}
				back, err := strconv.ParseFloat(out, 64)
				if err != nil || math.Float64bits(back) != bits {
					r.Add("F64toa|"+cls+"|does-not-parse-back-bit-exactly", "%s: f64toa(%s) = %q parses back to %016x (err %v)", f, key, out, math.Float64bits(back), err)
				}
				// it must also be a JSON number (the encoder's only use)
				var jn json.Number
				if e := json.Unmarshal([]byte(out), &jn); e != nil {
					r.Add("F64toa|"+cls+"|not-a-json-number", "%s: f64toa(%s) = %q: %v", f, key, out, e)
				}
				for i := 8 + 32; i < 96; i++ {
					if buf[i] != 0xAA {
						r.Add("F64toa|"+cls+"|writes-beyond-MaxFloat64StringLen", "%s: f64toa(%s) overwrote byte %d past the output start", f, key, i-8)
						break
					}
				}
				if buf[7] != 0xAA {
					r.Add("F64toa|"+cls+"|writes-before-output", "%s", f)
				}
				// the internal/json wrapper (GuardSlice + native call, plus whatever spelling policy it adds,
				// e.g. "-0.0" for negative zero): same demand as for the native encoder, not byte equality
				capSweep(r, "json.EncodeFloat64", cls, f, 40, func(b []byte) []byte { return verifhook.C18EncodeFloat64(b, x) }, func(o []byte) string {
					if b2, err := strconv.ParseFloat(string(o), 64); err != nil || math.Float64bits(b2) != bits || !json.Valid(o) {
						return fmt.Sprintf("does-not-parse-back-bit-exactly: EncodeFloat64(%s) = %q (native f64toa %q) parses back to %016x (err %v)", key, o, out, math.Float64bits(b2), err)
					}
					return ""
				})
			}
		})) {
			return
		}
	}
}

// QuoteAlphabet: 14 escape-relevant symbols (valid UTF-8 only, as the statement says).
var QuoteAlphabet = []string{"a", `"`, `\`, "/", "\n", "\t", "\x00", "\x1f", "\x7f", " ", "<", "\u00e9", "\u2028", "\U0001F600"}

// specials placed at every position of the structured family
var quoteSpecials = []string{`"`, `\`, "\n", "\x00", "\x1f", "\u00e9", "\u2028", "\U0001F600"}

func symClass(s string) string {
	esc, multi := false, false
	for _, r := range s {
		if r < 0x20 || r == '"' || r == '\\' {
			esc = true
		}
		if r >= 0x80 {
			multi = true
		}
	}
	switch {
	case esc && multi:
		return "escapes+multibyte"
	case esc:
		return "escapes"
	case multi:
		return "multibyte"
	}
	return "plain"
}

func lenClass(n int) string {
	switch {
	case n < 16:
		return "len<16"
	case n < 32:
		return "len16-31"
	case n <= 70:
		return "len32-70"
	}
	return "len>=4090"
}

// quoteCheck runs one string through native Quote in every flavour (input flush against a guard page)
// and through json.EncodeString with every output capacity 0..6*len+12 (len <= 24; three capacities beyond); each output, wrapped in quotes, must
// unquote with encoding/json to the identical string.
func quoteCheck(r *core.Result, s string) {
	if !utf8.ValidString(s) {
		return
	}
	cls := symClass(s) + "," + lenClass(len(s))
	in := getArena().Place([]byte(s))
	for _, f := range Flavours() {
		verifhook.C18UseFlavour(f)
		r.Count("disagreements_checked", 1)
		if len(s) > 0 {
			out := make([]byte, 6*len(s)+64)
			for i := range out {
				out[i] = 0xAA
			}
			dn := 6*len(s) + 32
			ret := verifhook.C18Quote(unsafe.Pointer(&in[0]), len(in), unsafe.Pointer(&out[0]), &dn, 0)
			if ret < 0 || dn < 0 || dn > 6*len(s)+32 {
				r.Add("Quote|"+cls+"|bad-return", "%s: quote(%q) returned %d, dn=%d", f, clip(s, 80), ret, dn)
			} else {
				checkQuoted(r, "Quote", cls, f, s, out[:dn])
				for i := 6*len(s) + 32; i < len(out); i++ {
					if out[i] != 0xAA {
						r.Add("Quote|"+cls+"|writes-beyond-capacity", "%s: quote(%q) overwrote output byte %d, capacity %d", f, clip(s, 80), i, 6*len(s)+32)
						break
					}
				}
			}
		}
		caps := []int{0, len(s) + 2, 2*len(s) + 8}
		if len(s) <= 24 {
			// short strings: every output capacity from 0 to past the longest possible escaping
			caps = caps[:0]
			for c := 0; c <= 6*len(s)+12; c++ {
				caps = append(caps, c)
			}
		}
		for _, c := range caps {
			arena := make([]byte, c+72)
			for i := range arena {
				arena[i] = 0xAA
			}
			got := verifhook.C18EncodeString(arena[:0:c], string(in))
			for i := c; i < len(arena); i++ {
				if arena[i] != 0xAA {
					r.Add("json.EncodeString|"+cls+"|writes-beyond-capacity", "%s: cap %d: arena byte %d was overwritten (%q)", f, c, i, clip(s, 80))
					break
				}
			}
			if len(got) < 2 || got[0] != '"' || got[len(got)-1] != '"' {
				r.Add("json.EncodeString|"+cls+"|not-quoted", "%s: cap %d: %q", f, c, clip(string(got), 120))
				continue
			}
			checkQuoted(r, "json.EncodeString", cls, f, s, got[1:len(got)-1])
		}
	}
}

func checkQuoted(r *core.Result, site, cls, f, s string, body []byte) {
	q := make([]byte, 0, len(body)+2)
	q = append(append(append(q, '"'), body...), '"')
	var back string
	if err := json.Unmarshal(q, &back); err != nil {
		r.Add(site+"|"+cls+"|output-is-not-a-json-string", "%s: %q -> %s: %v", f, clip(s, 80), clip(string(q), 160), err)
		return
	}
	if back != s {
		r.Add(site+"|"+cls+"|unquotes-to-a-different-string", "%s: %q -> %s -> %q", f, clip(s, 80), clip(string(q), 160), clip(back, 80))
	}
}

func quoteCase(s, how string) core.Case {
	return encCase("Quote", fmt.Sprintf("%s: %q", how, clip(s, 100)), s, func(r *core.Result) {
		r.Class = "ok:" + symClass(s)
		quoteCheck(r, s)
	})
}

// all strings of length <= maxLen symbols over the 14-symbol alphabet
func enumQuoteShort(maxLen int, yield func(core.Case) bool) {
	var rec func(prefix string, left int) bool
	rec = func(prefix string, left int) bool {
		if !yield(quoteCase(prefix, "alphabet^"+fmt.Sprint(maxLen))) {
			return false
		}
		if left == 0 {
			return true
		}
		for _, a := range QuoteAlphabet {
			if !rec(prefix+a, left-1) {
				return false
			}
		}
		return true
	}
	// simplest first: by length
	for l := 0; l <= maxLen; l++ {
		var gen func(prefix string, left int) bool
		gen = func(prefix string, left int) bool {
			if left == 0 {
				return yield(quoteCase(prefix, fmt.Sprintf("alphabet^%d", l)))
			}
			for _, a := range QuoteAlphabet {
				if !gen(prefix+a, left-1) {
					return false
				}
			}
			return true
		}
		if !gen("", l) {
			return
		}
	}
	_ = rec
}

// one special rune at every position of a string of byte length L (filled with 'a')
func enumQuoteLen(tier string, L int, yield func(core.Case) bool) bool {
	if !yield(quoteCase(strings.Repeat("a", L), fmt.Sprintf("len %d plain", L))) {
		return false
	}
	for _, sp := range quoteSpecials {
		if len(sp) > L {
			continue
		}
		for p := 0; p+len(sp) <= L; p++ {
			if tier == "quick" && L > 100 {
				// quick tier: positions within 72 bytes of either end and the 16/32-byte lane edges
				// around them; thorough: every position
				if p >= 72 && p < L-72 && !(p%32 == 31 || p%32 == 0) {
					continue
				}
			}
			s := strings.Repeat("a", p) + sp + strings.Repeat("a", L-p-len(sp))
			if !yield(quoteCase(s, fmt.Sprintf("len %d, %q at %d", L, sp, p))) {
				return false
			}
		}
	}
	// all-special strings of that length (every byte needs escaping: maximal output growth)
	for _, sp := range []string{`"`, "\x01", "\u2028"} {
		if L%len(sp) == 0 && L > 0 {
			if !yield(quoteCase(strings.Repeat(sp, L/len(sp)), fmt.Sprintf("len %d all %q", L, sp))) {
				return false
			}
		}
	}
	return true
}
